"""uheap — the HEAP-LEVEL transliterations of the cJSON_Utils entry points, executed against the real library.

Not a property of its own: a correspondence area.  The extracted heap-level models (the definitions the refinement proofs
of C15-C19 are about) and the library run on the same operand trees; results, the operand trees afterwards (member order
after the in-place sorts included), the number of live library blocks right after the call (`call=`) and after deleting
everything (`live=`) must be identical.  Register it with a property by adding 'uheap' to that property's AREAS and
concatenating generate()/project()/verdict() for cases whose info['area'] == 'uheap' (see the docstring of generate)."""
import sys
sys.setrecursionlimit(30000)
import random, copy
from .common import *
from . import patchgen as G

AREA = 'uheap'
MODEL_FILES = ('Heap.v (memory model, allocator ledger), CoreDefs.v (cJSON_Delete, cJSON_Duplicate, Add/Detach/Delete/Replace ... as called by the utilities), SortDefs.v (sort_object), '
               'MergeHeapDefs.v (cJSONUtils_MergePatch[CaseSensitive]), GenMergeHeapDefs.v (cJSONUtils_GenerateMergePatch[CaseSensitive], compare_json), '
               'PatchHeapDefs.v (cJSONUtils_GetPointer[CaseSensitive], detach_path, decode_pointer_inplace), PatchHeapApplyDefs.v (cJSONUtils_ApplyPatches[CaseSensitive]), '
               'GenPatchHeapDefs.v (cJSONUtils_GeneratePatches[CaseSensitive]), PointerHeapDefs.v (cJSONUtils_FindPointerFromObjectTo), CompareHeapDefs.v (cJSON_Compare), '
               'CoreOps.v (dump_node, live_count); extracted by Extract_uheap.v, driven by ocaml/h_uheap.ml')
RULE = ('small JSON documents (depth <= 3, at most 8 members per container, at most 40 nodes) over keys {"", "/", "~", "~0", "~1", "a/b", "m~n", "0", "01", "a", "A", "foo", "Foo"} (distinct per object), '
        'both case modes; uapply: the RFC-shaped single operations, operation sequences and junk patch documents of C16 (valid and invalid patches); umerge: patches derived from the target '
        '(members nulled / replaced / added / nested), independent patches, NULL target, non-object operands; ugenmerge / ugenpatch / ucompare: a document against a mutation, a member permutation, '
        'an independent document and itself; ufind: every node of the document and a node outside it; ugetptr: the pointer of every node, damaged and junk pointer texts; usort: objects. '
        'Compared: result, every operand tree afterwards (order of members included), live library blocks after the call and after deleting everything. '
        'verdict: no crash, no double / foreign free, sibling chains healthy, zero live blocks at the end; non-trivial = the model produced a result (no MODELERR) and the case did not crash')
ASSUMPTIONS = ['C locale (tolower)', 'allocation never fails (the oracle of the extracted model is nofail; the tracking allocator injects no failure)',
               'C-string keys and values (no embedded NUL), finite numbers, distinct keys per object',
               'contents of fresh memory are 0xA5 bytes on both sides (not observable: only C strings are printed)']

MAX_NODES = 40
def corpus(ctx): return load_corpus(ctx['verif'], 'uheap')

def size(v):
    if isinstance(v, Obj): return 1 + sum(size(e) for _, e in v)
    if isinstance(v, list): return 1 + sum(size(e) for e in v)
    return 1

def small_doc(rng, depth=None, keys=G.PKEYS, root=True):
    for _ in range(50):
        d = G.rand_doc(rng, depth if depth is not None else rng.choice([1, 2, 2, 3]), keys, root)
        if size(d) <= MAX_NODES: return d
    return Obj([('a', 1)])

def toks(v): return ' '.join(value_tokens(v)) if v is not Ellipsis else 'NULL'
def mk(kind, args, trees, tags, **info):
    line = ' '.join([kind] + [str(a) for a in args] + [toks(t) for t in trees])
    d = {'tags': [kind] + tags, 'area': AREA, 'kind': kind}; d.update(info)
    return Case(line, d)
def csflag(rng, p=0.75): return 1 if rng.random() < p else 0
def cstag(cs): return ['cs'] if cs else ['ci']

# ---------------------------------------------------------------- merge patches derived from a target
def derive_patch(rng, t, depth=0):
    if not isinstance(t, Obj) or rng.random() < 0.15: return rng.choice([None, 1, 'x', [1, None, Obj([('a', None)])], Obj(), Obj([('a', None), ('b', Obj([('c', None), ('d', 1)]))])])
    out = []
    for k, v in t:
        r = rng.random()
        if r < 0.25: out.append((k, None))
        elif r < 0.45: out.append((k, G.rand_doc(rng, 1, G.PKEYS, False)))
        elif r < 0.75 and isinstance(v, Obj) and depth < 3: out.append((k, derive_patch(rng, v, depth + 1)))
    free = [k for k in G.PKEYS if G.member_pos(t, k) is None]
    for k in rng.sample(free, min(len(free), rng.choice([0, 1, 1, 2]))):
        out.append((k, rng.choice([None, 2, Obj([('n', None), ('m', 1)]), G.rand_doc(rng, 2, G.PKEYS, False)])))
    rng.shuffle(out)
    return Obj(out[:8])

JUNK_POINTERS = ['', '/', '//', 'a', '/a', '/A', '/foo', '/FOO', '/0', '/00', '/01', '/1', '/-', '/a~1b', '/a/b', '/m~0n', '/~', '/~2', '/~0', '/~1', '/~01', '/0/0', '/0/a', '/a/0',
                 '/18446744073709551616', '/4294967296', '/1e0', '/ 1', '/0x', '/a/', '/a//', '/foo/0/', '~', '/\x7f']
FIXED_DOCS = [Obj([('foo', 1), ('Foo', 2), ('a/b', [10, 11, 12]), ('m~n', Obj([('~', 1), ('/', 2)])), ('', Obj([('', 0)]))]),
              [Obj([('a', 1)]), Obj([('b', 2)]), [1, 2, 3]], Obj([('b', 1), ('a', 2)]), Obj([('a', Obj([('b', Obj([('c', 1)]))]))]), [], Obj(), 5, 'str', None, True,
              Obj([('arr', [10, 11, 12]), ('0', 'zero'), ('01', 'zero-one')]), Obj([('z', 1), ('Z', 2), ('a', [Obj([('y', 1), ('x', [])])]), ('A', None)])]

def generate(ctx):
    """every case carries info['area'] = 'uheap', info['kind'] and tags (kind first), so that a property with AREAS = [<its area>, 'uheap'] can append these
    cases to its own and route project / verdict / nontrivial by c.info.get('area')"""
    from . import C16
    rng = random.Random(ctx['seed'] * 7919 + 4242)
    quick = ctx.get('tier', 'quick') == 'quick'
    ndocs = 40 if quick else 300
    cases = []
    docs = [copy.deepcopy(d) for d in FIXED_DOCS] + [small_doc(rng) for _ in range(ndocs)]
    some = lambda l, k: l if len(l) <= k else rng.sample(l, k)
    for doc in docs:
        ns = list(G.nodes(doc))
        # ---- uapply: valid single operations, sequences, junk (the streams of C16), both case modes
        streams = C16.valid_stream(rng, doc, True) + C16.seq_stream(rng, doc, True)
        for ops, tags in some(streams, 10 if quick else 40):
            if size(list(ops)) > 3 * MAX_NODES: continue
            cs = csflag(rng, 0.8)
            cases.append(mk('uapply', [cs], [doc, list(ops)], tags + cstag(cs)))
        for patch, tags in some(C16.junk_stream(rng, doc, True), 4 if quick else 12):
            if size(patch) > 3 * MAX_NODES: continue
            cs = csflag(rng, 0.7)
            cases.append(mk('uapply', [cs], [doc, patch], tags + cstag(cs)))
        # ---- umerge
        for _ in range(3 if quick else 8):
            r = rng.random()
            if r < 0.6: patch, tag = derive_patch(rng, doc), 'derived'
            elif r < 0.85: patch, tag = small_doc(rng, 2), 'independent'
            else: patch, tag = G.mutate(doc, rng), 'mutation'
            cs = csflag(rng)
            cases.append(mk('umerge', [cs], [doc, patch], [tag] + cstag(cs)))
        if rng.random() < 0.3:
            cs = csflag(rng)
            cases.append(mk('umerge', [cs], [Ellipsis, derive_patch(rng, doc)], ['null-target'] + cstag(cs)))
        # ---- pairs for ugenmerge / ugenpatch / ucompare
        pairs = [(G.mutate(doc, rng), 'mutation'), (G.shuffled(copy.deepcopy(doc), rng), 'permutation'), (copy.deepcopy(doc), 'same')]
        if rng.random() < 0.5: pairs.append((small_doc(rng, 2), 'independent'))
        if rng.random() < 0.5: pairs.append((G.shuffled(G.mutate(doc, rng), rng), 'mutation+permutation'))
        for other, tag in pairs:
            if size(other) > MAX_NODES: continue
            for kind in ('ugenmerge', 'ugenpatch', 'ucompare'):
                if quick and rng.random() < 0.35: continue
                cs = csflag(rng)
                a, b = (doc, other) if rng.random() < 0.7 else (other, doc)
                cases.append(mk(kind, [cs], [a, b], [tag] + cstag(cs)))
        # ---- ufind: every node (by child indices) and a node outside
        paths = list(all_paths(doc))
        for p in some(paths, 6 if quick else 20):
            cases.append(mk('ufind', [pstr(p)], [doc], ['inside', 'depth=%d' % len(p)]))
        if rng.random() < 0.4: cases.append(mk('ufind', ['-'], [doc], ['outside']))
        # ---- ugetptr: pointers of nodes, damaged pointers, junk
        texts = [G.ptr(t) for t, _ in some(ns, 4 if quick else 12)]
        texts += [t + rng.choice(['/', '/0', '/a', '~', '/-', 'x']) for t in some(texts, 2)]
        texts += [t.upper() for t in some(texts, 1)] + some(JUNK_POINTERS, 3 if quick else 10)
        for t in texts:
            cs = csflag(rng, 0.6)
            cases.append(mk('ugetptr', [cs, hx(t.encode('utf-8'))], [doc], ['pointer'] + cstag(cs)))
        # ---- usort
        if isinstance(doc, (list, Obj)) and (not quick or rng.random() < 0.6):
            cs = csflag(rng, 0.5)
            cases.append(mk('usort', [cs], [G.shuffled(copy.deepcopy(doc), rng)], cstag(cs)))
    return cases

def project(c, out):
    if is_crash(out): return 'CRASH'
    return out

def verdict(c, out, ctx):
    if is_crash(out): return 'crash / memory error: ' + out
    ap = alloc_problem(out)
    if ap: return ap
    if not any(t.startswith('live=') for t in out.split(' ')): return 'no ledger in the output: ' + out[:120]
    return None

def nontrivial(c, out):
    return not is_crash(out) and 'MODELERR' not in out and 'MODEL_EXN' not in out
