(** Properties_C03.v — property C03: malformed text is rejected; the only accepted deviations
    from RFC 8259 are the documented leniencies.  Statements about the list-level specification
    [text_l] (ParseSpec.v), which ParseRefine.v proves to be exactly what the buffer-level
    transliteration of the C parser computes on the declared bytes.  Only statements closed by
    [exact]; proofs live in ParseSound*.v.  (Ledger: C01/C07; parse end: C10.) *)
From CJ Require Import Base Dbl Tree LibcNum ParseDefs ParseSpec Grammar ParseRefine
  ParseSoundUtf8 ParseSoundGrammar ParseSound ParseSoundReject ParseSoundCtx ParseSoundIncl ParseSoundInclRef ParseSoundEntry
  ParseSoundExamples ParseSafe.
Local Open Scope Z_scope.

(** * 0. At the entry point (buffer-level transliteration of cJSON_ParseWithLengthOpts, no
       allocation failure), by the refinement theorem of ParseRefine.v *)

(** a returned tree derives, in the lenient grammar, from the declared bytes before the published
    parse end; with required termination a zero byte is at the parse end *)
Theorem C03_entry_sound : forall strtod content len rnt r t,
  strtod_ok strtod -> strtod_stable strtod -> (len <= length content)%nat ->
  cJSON_ParseWithLengthOpts strtod never_fails content len rnt = Ok r -> pr_tree r = Some t ->
  exists pre rest v,
    firstn len content = pre ++ rest /\ LEN_text strtod pre v /\ t = tree_of strtod v /\
    pr_end r = Some (length pre) /\ (rnt = true -> exists r', rest = 0 :: r').
Proof. exact parse_with_length_sound. Qed.
Print Assumptions C03_entry_sound.

(** declared bytes no prefix of which is a text of the lenient dialect: NULL *)
Theorem C03_entry_rejects : forall strtod content len rnt,
  strtod_ok strtod -> strtod_stable strtod -> (len <= length content)%nat ->
  (forall pre rest v, firstn len content = pre ++ rest -> ~ LEN_text strtod pre v) ->
  exists r, cJSON_ParseWithLengthOpts strtod never_fails content len rnt = Ok r /\ pr_tree r = None.
Proof. exact parse_with_length_rejects. Qed.
Print Assumptions C03_entry_rejects.

(** every rejection lemma below (stated of the specification [text_l]) is a NULL of the parser *)
Theorem C03_entry_rejects_spec : forall strtod content len rnt,
  strtod_ok strtod -> (len <= length content)%nat ->
  text_l strtod (firstn len content) rnt = None ->
  exists r, cJSON_ParseWithLengthOpts strtod never_fails content len rnt = Ok r /\ pr_tree r = None.
Proof. exact parse_with_length_rejects_spec. Qed.
Print Assumptions C03_entry_rejects_spec.

(** * 1. Soundness: whatever is accepted is a text of the lenient dialect *)

(** The input splits into optional BOM, lenient whitespace, ONE value text deriving in the
    lenient grammar within CJSON_NESTING_LIMIT, whitespace, and the reported rest; the tree is
    the tree of the derived value.  Without required termination nothing is skipped after the
    value (w2 = []); with it, nonzero whitespace is skipped and the rest starts at a zero byte. *)
Theorem C03_sound_tight : forall strtod l rnt t rest,
  strtod_ok strtod -> strtod_stable strtod ->
  text_l strtod l rnt = Some (t, rest) ->
  exists bom w1 tx w2 v,
    l = bom ++ w1 ++ tx ++ w2 ++ rest /\
    (bom = [] \/ bom = [239; 187; 191]) /\ ws len_ws w1 /\
    LEN_value strtod nesting_limit tx v /\ t = tree_of strtod v /\
    forallb ws_nz w2 = true /\
    (if rnt then exists r, rest = 0 :: r else w2 = []).
Proof. exact sound_text_tight. Qed.
Print Assumptions C03_sound_tight.

Theorem C03_sound : forall strtod l rnt t rest,
  strtod_ok strtod -> strtod_stable strtod ->
  text_l strtod l rnt = Some (t, rest) ->
  exists pre v, l = pre ++ rest /\ LEN_text strtod pre v /\ t = tree_of strtod v /\
                (rnt = true -> exists r, rest = 0 :: r).
Proof. exact sound_text. Qed.
Print Assumptions C03_sound.

(** Contrapositive: a byte string no prefix of which is a text of the lenient dialect is rejected;
    with termination required, the bytes before the accepted zero byte must be such a text. *)
Theorem C03_reject_outside_dialect : forall strtod l rnt,
  strtod_ok strtod -> strtod_stable strtod ->
  (forall pre rest v, l = pre ++ rest -> ~ LEN_text strtod pre v) ->
  text_l strtod l rnt = None.
Proof. exact reject_outside_dialect. Qed.
Print Assumptions C03_reject_outside_dialect.

Theorem C03_reject_outside_dialect_terminated : forall strtod l,
  strtod_ok strtod -> strtod_stable strtod ->
  (forall pre r v, l = pre ++ 0 :: r -> ~ LEN_text strtod pre v) ->
  text_l strtod l true = None.
Proof. exact reject_outside_dialect_rnt. Qed.
Print Assumptions C03_reject_outside_dialect_terminated.

(** * 2. The only deviations are the documented leniencies *)

(** The grammar family is monotone in its three leaf predicates (whitespace bytes, raw string
    bytes, number tokens): the dialects can differ in nothing else. *)
Theorem C03_leaves_mono : forall (ws1 ws2 raw1 raw2 : Z -> bool) (num1 num2 : bytes -> Prop),
  (forall c, ws1 c = true -> ws2 c = true) -> (forall c, raw1 c = true -> raw2 c = true) ->
  (forall t, num1 t -> num2 t) ->
  forall n txt v, text ws1 raw1 num1 n txt v -> text ws2 raw2 num2 n txt v.
Proof. exact text_mono. Qed.
Print Assumptions C03_leaves_mono.

(** A lenient derivation in which every whitespace byte is RFC whitespace, every raw string byte
    is >= 0x20 and every number token is an RFC number ([STRICT_text] = the family at the
    conjunctions of the leaf predicates) is an RFC 8259 derivation of the same value ... *)
Theorem C03_only_leniencies : forall strtod txt v, STRICT_text strtod txt v -> RFC_text txt v.
Proof. exact only_leniencies. Qed.
Print Assumptions C03_only_leniencies.

(** ... and is a lenient derivation; *)
Theorem C03_strict_is_lenient : forall strtod txt v, STRICT_text strtod txt v -> LEN_text strtod txt v.
Proof. exact strict_is_lenient. Qed.
Print Assumptions C03_strict_is_lenient.

(** conversely every RFC 8259 text (number literals <= 63 bytes; the C library converts every RFC
    number literal completely) is such a derivation, hence a lenient text: RFC ⊆ LEN, and the
    derivations LEN shares with RFC are exactly those that use none of the three leniencies. *)
Theorem C03_rfc_sub_lenient : forall strtod txt v,
  strtod_rfc strtod -> RFC_text txt v -> short_nums v -> LEN_text strtod txt v.
Proof. exact rfc_sub_lenient. Qed.
Print Assumptions C03_rfc_sub_lenient.

Theorem C03_strict_iff_rfc : forall strtod txt v,
  strtod_rfc strtod -> short_nums v -> (STRICT_text strtod txt v <-> RFC_text txt v).
Proof. exact strict_iff_rfc. Qed.
Print Assumptions C03_strict_iff_rfc.

(** Derivation-independent form: a lenient text without any byte below 0x20 whose value contains
    only RFC number literals is an RFC 8259 text of the same value. *)
Theorem C03_only_leniencies_bytes : forall strtod txt v,
  LEN_text strtod txt v -> Forall (fun c => 32 <= c) txt -> jv_nums (fun t => rfc_number t = true) v ->
  RFC_text txt v.
Proof. exact only_leniencies_bytes. Qed.
Print Assumptions C03_only_leniencies_bytes.

(** * 3. Nesting *)

(** the index of the grammar bounds the nesting of the denoted value, so no text of the dialect
    denotes a value nested deeper than CJSON_NESTING_LIMIT ... *)
Theorem C03_grammar_depth : forall is_ws raw_ok num_tok n txt v,
  text is_ws raw_ok num_tok n txt v -> (depth_of v <= n)%nat.
Proof. exact text_depth. Qed.
Print Assumptions C03_grammar_depth.

(** ... and every accepted tree is at most CJSON_NESTING_LIMIT containers (+ a leaf) deep *)
Theorem C03_accepted_depth : forall strtod l rnt t rest,
  strtod_ok strtod -> strtod_stable strtod ->
  text_l strtod l rnt = Some (t, rest) -> (node_depth t <= S nesting_limit)%nat.
Proof. exact accepted_depth. Qed.
Print Assumptions C03_accepted_depth.

(** a container opened at depth >= CJSON_NESTING_LIMIT is refused at once, whatever follows *)
Theorem C03_reject_too_deep_array : forall strtod f d r,
  c_CJSON_NESTING_LIMIT <= d -> value_l strtod f d (91 :: r) = None.
Proof. exact reject_too_deep_array. Qed.
Print Assumptions C03_reject_too_deep_array.
Theorem C03_reject_too_deep_object : forall strtod f d r,
  c_CJSON_NESTING_LIMIT <= d -> value_l strtod f d (123 :: r) = None.
Proof. exact reject_too_deep_object. Qed.
Print Assumptions C03_reject_too_deep_object.

(** more opening brackets (with any whitespace between) than the limit allows: refused whatever follows *)
Theorem C03_reject_deep_brackets : forall strtod wl f d l,
  Forall (ws len_ws) wl -> wl <> [] -> c_CJSON_NESTING_LIMIT < d + Z.of_nat (length wl) ->
  value_l strtod f d (open_brackets wl ++ l) = None.
Proof. exact reject_deep_brackets. Qed.
Print Assumptions C03_reject_deep_brackets.

(** * 4. One rejection lemma per class of malformed text (all fuel, all depths, any bytes to the right) *)

(** truncated input / nothing where a value is expected *)
Theorem C03_reject_empty : forall strtod f d, value_l strtod f d [] = None.
Proof. exact reject_empty. Qed.
Print Assumptions C03_reject_empty.

(** a byte that starts no value (other than n f t quote - 0..9 [ {) *)
Theorem C03_reject_bad_first_byte : forall strtod f d c r,
  value_start_byte c = false -> value_l strtod f d (c :: r) = None.
Proof. exact reject_bad_first_byte. Qed.
Print Assumptions C03_reject_bad_first_byte.

(** misspelt, wrongly cased or truncated literals *)
Theorem C03_reject_misspelt_null : forall strtod f d r,
  starts [117; 108; 108] r = None -> value_l strtod f d (110 :: r) = None.
Proof. exact reject_misspelt_null. Qed.
Print Assumptions C03_reject_misspelt_null.
Theorem C03_reject_misspelt_false : forall strtod f d r,
  starts [97; 108; 115; 101] r = None -> value_l strtod f d (102 :: r) = None.
Proof. exact reject_misspelt_false. Qed.
Print Assumptions C03_reject_misspelt_false.
Theorem C03_reject_misspelt_true : forall strtod f d r,
  starts [114; 117; 101] r = None -> value_l strtod f d (116 :: r) = None.
Proof. exact reject_misspelt_true. Qed.
Print Assumptions C03_reject_misspelt_true.

(** numbers without digits: the token is not converted by strtod; for the reference strtod, a
    minus sign followed by neither a digit nor a point and a digit *)
Theorem C03_reject_unconverted_number : forall strtod f d c r,
  ((c =? 45) || ((48 <=? c) && (c <=? 57))) = true ->
  strtod (number_run (Z.to_nat (c_NUMBER_C_STRING_SIZE - 1)) (c :: r)) = None ->
  value_l strtod f d (c :: r) = None.
Proof. exact reject_unconverted_number. Qed.
Print Assumptions C03_reject_unconverted_number.
Theorem C03_reject_minus_no_digits : forall f d s1,
  ParseListStrtod.nondigit_head s1 -> (forall r, s1 = 46 :: r -> ParseListStrtod.nondigit_head r) ->
  value_l strtod_ref f d (45 :: s1) = None.
Proof. exact reject_minus_no_digits. Qed.
Print Assumptions C03_reject_minus_no_digits.

(** strings: a defect ([string_dead l]: the string reader refuses l whatever the fuel) after the
    opening quote and ANY well-formed beginning of the body is refused *)
Theorem C03_reject_string_defect : forall strtod f d body s l,
  chars len_raw body s -> string_dead l -> value_l strtod f d (34 :: body ++ l) = None.
Proof. exact reject_string_defect. Qed.
Print Assumptions C03_reject_string_defect.
(** the defects: unterminated body *)
Theorem C03_dead_end_of_input : string_dead [].
Proof. exact dead_end_of_input. Qed.
Print Assumptions C03_dead_end_of_input.
Theorem C03_dead_no_quote : forall l, ~ In 34 l -> string_dead l.
Proof. exact dead_no_quote. Qed.
Print Assumptions C03_dead_no_quote.
Theorem C03_dead_backslash_at_end : string_dead [92].
Proof. exact dead_backslash_at_end. Qed.
Print Assumptions C03_dead_backslash_at_end.
(** unknown escape *)
Theorem C03_dead_unknown_escape : forall e r, simple_escape e = None -> e <> 117 -> string_dead (92 :: e :: r).
Proof. exact dead_unknown_escape. Qed.
Print Assumptions C03_dead_unknown_escape.
(** \u not followed by four hex digits (too few bytes, or one of them not a hex digit) *)
Theorem C03_dead_bad_hex : forall r, hex4_l r = None -> string_dead (92 :: 117 :: r).
Proof. exact dead_bad_hex. Qed.
Print Assumptions C03_dead_bad_hex.
Theorem C03_hex4_short : forall r, (length r < 4)%nat -> hex4_l r = None.
Proof. exact hex4_l_short. Qed.
Print Assumptions C03_hex4_short.
Theorem C03_hex4_nonhex : forall a b c d r,
  hexv a = None \/ hexv b = None \/ hexv c = None \/ hexv d = None -> hex4_l (a :: b :: c :: d :: r) = None.
Proof. exact hex4_l_nonhex. Qed.
Print Assumptions C03_hex4_nonhex.
(** lone low surrogate; high surrogate not followed by \u + low surrogate *)
Theorem C03_dead_lone_low_surrogate : forall r u r2,
  hex4_l r = Some (u, r2) -> is_low_surrogate u = true -> string_dead (92 :: 117 :: r).
Proof. exact dead_lone_low_surrogate. Qed.
Print Assumptions C03_dead_lone_low_surrogate.
Theorem C03_dead_unpaired_high_surrogate : forall r u r2,
  hex4_l r = Some (u, r2) -> is_high_surrogate u = true ->
  (forall r3 u2 r4, r2 = 92 :: 117 :: r3 -> hex4_l r3 = Some (u2, r4) -> is_low_surrogate u2 = false) ->
  string_dead (92 :: 117 :: r).
Proof. exact dead_unpaired_high_surrogate. Qed.
Print Assumptions C03_dead_unpaired_high_surrogate.

(** arrays, at ANY element position (any round k, any elements acc read so far), for any element
    parser vl: no value where one is expected (extra comma ''[,'' ''[1,]'' ''[1,,2]'', truncation ''[1,'') *)
Theorem C03_elems_no_value : forall vl k l0 acc, vl (drop_ws l0) = None -> elems_l vl k l0 acc = None.
Proof. exact elems_no_value. Qed.
Print Assumptions C03_elems_no_value.
(** after an element a byte other than , ] (missing comma ''[1 2]'', mismatched bracket ''[1}'') *)
Theorem C03_elems_bad_separator : forall vl k l0 acc v r2 c2 r3,
  vl (drop_ws l0) = Some (v, r2) -> drop_ws r2 = c2 :: r3 -> c2 <> 44 -> c2 <> 93 ->
  elems_l vl k l0 acc = None.
Proof. exact elems_bad_separator. Qed.
Print Assumptions C03_elems_bad_separator.
(** after an element the input ends (unbalanced ''[1'') *)
Theorem C03_elems_truncated : forall vl k l0 acc v r2,
  vl (drop_ws l0) = Some (v, r2) -> drop_ws r2 = [] -> elems_l vl k l0 acc = None.
Proof. exact elems_truncated. Qed.
Print Assumptions C03_elems_truncated.
(** a defect further right is reached through well-formed elements *)
Theorem C03_elems_later : forall vl k l0 acc v r2 r3,
  vl (drop_ws l0) = Some (v, r2) -> drop_ws r2 = 44 :: r3 ->
  elems_l vl k r3 (v :: acc) = None -> elems_l vl (S k) l0 acc = None.
Proof. exact elems_later. Qed.
Print Assumptions C03_elems_later.
Theorem C03_reject_array_first_byte : forall strtod f d r c r1,
  drop_ws r = c :: r1 -> c <> 93 -> value_start_byte c = false -> value_l strtod f d (91 :: r) = None.
Proof. exact reject_array_first_byte. Qed.
Print Assumptions C03_reject_array_first_byte.
Theorem C03_reject_array_unclosed : forall strtod f d r, drop_ws r = [] -> value_l strtod f d (91 :: r) = None.
Proof. exact reject_array_unclosed. Qed.
Print Assumptions C03_reject_array_unclosed.

(** objects, at ANY member position: the key is not a string (unquoted, number, ''{,'' , ''{''a'':1,}'') *)
Theorem C03_members_nonstring_key : forall vl k l0 acc q rq,
  drop_ws l0 = q :: rq -> q <> 34 -> members_l vl k l0 acc = None.
Proof. exact members_nonstring_key. Qed.
Print Assumptions C03_members_nonstring_key.
Theorem C03_members_truncated_key : forall vl k l0 acc, drop_ws l0 = [] -> members_l vl k l0 acc = None.
Proof. exact members_truncated_key. Qed.
Print Assumptions C03_members_truncated_key.
Theorem C03_members_bad_key : forall vl k l0 acc rq,
  drop_ws l0 = 34 :: rq -> string_dead rq -> members_l vl k l0 acc = None.
Proof. exact members_bad_key. Qed.
Print Assumptions C03_members_bad_key.
(** missing colon *)
Theorem C03_members_missing_colon : forall vl k l0 acc rq key r2,
  drop_ws l0 = 34 :: rq -> string_l rq = Some (key, r2) ->
  (forall r3, drop_ws r2 <> 58 :: r3) -> members_l vl k l0 acc = None.
Proof. exact members_missing_colon. Qed.
Print Assumptions C03_members_missing_colon.
(** no value after the colon (extra colon, ''{''a'':}'', truncation) *)
Theorem C03_members_no_value : forall vl k l0 acc rq key r2 r3,
  drop_ws l0 = 34 :: rq -> string_l rq = Some (key, r2) -> drop_ws r2 = 58 :: r3 ->
  vl (drop_ws r3) = None -> members_l vl k l0 acc = None.
Proof. exact members_no_value. Qed.
Print Assumptions C03_members_no_value.
(** after a member neither , nor } (missing comma, mismatched bracket ''{''a'':1]'', truncation) *)
Theorem C03_members_bad_separator : forall vl k l0 acc rq key r2 r3 v0 r4,
  drop_ws l0 = 34 :: rq -> string_l rq = Some (key, r2) -> drop_ws r2 = 58 :: r3 ->
  vl (drop_ws r3) = Some (v0, r4) ->
  (forall r5, drop_ws r4 <> 44 :: r5) -> (forall r5, drop_ws r4 <> 125 :: r5) ->
  members_l vl k l0 acc = None.
Proof. exact members_bad_separator. Qed.
Print Assumptions C03_members_bad_separator.
Theorem C03_members_later : forall vl k l0 acc rq key r2 r3 v0 r4 r5,
  drop_ws l0 = 34 :: rq -> string_l rq = Some (key, r2) -> drop_ws r2 = 58 :: r3 ->
  vl (drop_ws r3) = Some (v0, r4) -> drop_ws r4 = 44 :: r5 ->
  members_l vl k r5 (with_key key v0 :: acc) = None -> members_l vl (S k) l0 acc = None.
Proof. exact members_later. Qed.
Print Assumptions C03_members_later.
Theorem C03_reject_object_nonstring_key : forall strtod f d r c r1,
  drop_ws r = c :: r1 -> c <> 125 -> c <> 34 -> value_l strtod f d (123 :: r) = None.
Proof. exact reject_object_nonstring_key. Qed.
Print Assumptions C03_reject_object_nonstring_key.
Theorem C03_reject_object_unclosed : forall strtod f d r, drop_ws r = [] -> value_l strtod f d (123 :: r) = None.
Proof. exact reject_object_unclosed. Qed.
Print Assumptions C03_reject_object_unclosed.

(** whole texts: a refused value is a refused text; required termination that is missing *)
Theorem C03_text_reject : forall strtod l rnt,
  (forall f, value_l strtod f 0 (drop_ws (match starts [239; 187; 191] l with Some r => r | None => l end)) = None) ->
  text_l strtod l rnt = None.
Proof. exact text_l_reject. Qed.
Print Assumptions C03_text_reject.
Theorem C03_text_reject_unterminated : forall strtod l t rest0,
  value_l strtod (S (length l)) 0 (drop_ws (match starts [239; 187; 191] l with Some r => r | None => l end)) = Some (t, rest0) ->
  (forall r, drop_ws_nz rest0 <> 0 :: r) -> text_l strtod l true = None.
Proof. exact text_l_reject_unterminated. Qed.
Print Assumptions C03_text_reject_unterminated.

(** * 4b. ONE theorem for all contexts

    A focus is a point the parser gets to: a value expected at some depth (FV), the continuation
    of a string body (FS), the separator after an array element (FSA) or object member (FSO), the
    colon (FC), a key (FK).  [vctx strtod 0 txt x]: reading the text, the parser gets to x through
    opening brackets, elements / members it accepts, and well-formed beginnings of strings.
    If x is dead (what is there is refused: the lemmas of section 4), the text is refused. *)
Theorem C03_reject_in_context : forall strtod l rnt x,
  vctx strtod 0 (drop_ws (match starts [239; 187; 191] l with Some r => r | None => l end)) x ->
  dead strtod x -> text_l strtod l rnt = None.
Proof. exact reject_in_context. Qed.
Print Assumptions C03_reject_in_context.

Theorem C03_context_dead : forall strtod,
  (forall d l x, vctx strtod d l x -> dead strtod x -> forall f, value_l strtod f d l = None) /\
  (forall d l0 x, ectx strtod d l0 x -> dead strtod x ->
     forall f k acc l0', drop_ws l0' = drop_ws l0 -> elems_l (value_l strtod f d) k l0' acc = None) /\
  (forall d l0 x, mctx strtod d l0 x -> dead strtod x ->
     forall f k acc l0', drop_ws l0' = drop_ws l0 -> members_l (value_l strtod f d) k l0' acc = None).
Proof. exact ctx_dead. Qed.
Print Assumptions C03_context_dead.

(** dead foci (besides [string_dead], section 4): where a value is expected *)
Theorem C03_dead_value_end : forall strtod d, dead strtod (FV d []).
Proof. exact dead_value_end. Qed.
Print Assumptions C03_dead_value_end.
Theorem C03_dead_value_bad_byte : forall strtod d c r, value_start_byte c = false -> dead strtod (FV d (c :: r)).
Proof. exact dead_value_bad_byte. Qed.
Print Assumptions C03_dead_value_bad_byte.
Theorem C03_dead_value_misspelt_null : forall strtod d r, starts [117; 108; 108] r = None -> dead strtod (FV d (110 :: r)).
Proof. exact dead_value_misspelt_null. Qed.
Print Assumptions C03_dead_value_misspelt_null.
Theorem C03_dead_value_misspelt_false : forall strtod d r, starts [97; 108; 115; 101] r = None -> dead strtod (FV d (102 :: r)).
Proof. exact dead_value_misspelt_false. Qed.
Print Assumptions C03_dead_value_misspelt_false.
Theorem C03_dead_value_misspelt_true : forall strtod d r, starts [114; 117; 101] r = None -> dead strtod (FV d (116 :: r)).
Proof. exact dead_value_misspelt_true. Qed.
Print Assumptions C03_dead_value_misspelt_true.
Theorem C03_dead_value_unconverted_number : forall strtod d c r,
  ((c =? 45) || ((48 <=? c) && (c <=? 57))) = true ->
  strtod (number_run (Z.to_nat (c_NUMBER_C_STRING_SIZE - 1)) (c :: r)) = None -> dead strtod (FV d (c :: r)).
Proof. exact dead_value_unconverted_number. Qed.
Print Assumptions C03_dead_value_unconverted_number.
Theorem C03_dead_value_too_deep_array : forall strtod d r, c_CJSON_NESTING_LIMIT <= d -> dead strtod (FV d (91 :: r)).
Proof. exact dead_value_too_deep_array. Qed.
Print Assumptions C03_dead_value_too_deep_array.
Theorem C03_dead_value_too_deep_object : forall strtod d r, c_CJSON_NESTING_LIMIT <= d -> dead strtod (FV d (123 :: r)).
Proof. exact dead_value_too_deep_object. Qed.
Print Assumptions C03_dead_value_too_deep_object.
(** where a separator, the colon or a key is expected: the input ends (truncation, unbalanced
    brackets) or a wrong byte is there (missing comma, mismatched bracket, missing colon, non-string key) *)
Theorem C03_dead_elem_sep_end : forall strtod l, drop_ws l = [] -> dead strtod (FSA l).
Proof. exact dead_elem_sep_end. Qed.
Print Assumptions C03_dead_elem_sep_end.
Theorem C03_dead_member_sep_end : forall strtod l, drop_ws l = [] -> dead strtod (FSO l).
Proof. exact dead_member_sep_end. Qed.
Print Assumptions C03_dead_member_sep_end.
Theorem C03_dead_colon_end : forall strtod l, drop_ws l = [] -> dead strtod (FC l).
Proof. exact dead_colon_end. Qed.
Print Assumptions C03_dead_colon_end.
Theorem C03_dead_key_end : forall strtod l, drop_ws l = [] -> dead strtod (FK l).
Proof. exact dead_key_end. Qed.
Print Assumptions C03_dead_key_end.
Theorem C03_dead_elem_sep_byte : forall strtod l c r, drop_ws l = c :: r -> c <> 44 -> c <> 93 -> dead strtod (FSA l).
Proof. exact dead_elem_sep_byte. Qed.
Print Assumptions C03_dead_elem_sep_byte.
Theorem C03_dead_member_sep_byte : forall strtod l c r, drop_ws l = c :: r -> c <> 44 -> c <> 125 -> dead strtod (FSO l).
Proof. exact dead_member_sep_byte. Qed.
Print Assumptions C03_dead_member_sep_byte.
Theorem C03_dead_colon_byte : forall strtod l c r, drop_ws l = c :: r -> c <> 58 -> dead strtod (FC l).
Proof. exact dead_colon_byte. Qed.
Print Assumptions C03_dead_colon_byte.
Theorem C03_dead_key_byte : forall strtod l c r, drop_ws l = c :: r -> c <> 34 -> dead strtod (FK l).
Proof. exact dead_key_byte. Qed.
Print Assumptions C03_dead_key_byte.

(** a value accepted with some fuel is never parsed differently with other fuel *)
Theorem C03_fuel_independent : forall strtod f1 f2 d l x y,
  value_l strtod f1 d l = Some x -> value_l strtod f2 d l = Some y -> x = y.
Proof. exact value_l_fuel_det. Qed.
Print Assumptions C03_fuel_independent.

(** non-vacuity: the unknown escape in  [1,{''k'':''a\x''}]  is reached through a context *)
Theorem C03_context_example :
  vctx strtod_ref 0 ctx_ex_text (FS [92; 120; 34; 125; 93]) /\ dead strtod_ref (FS [92; 120; 34; 125; 93]).
Proof. exact ctx_ex_context. Qed.
Print Assumptions C03_context_example.
Theorem C03_context_example_rejected : text_l strtod_ref ctx_ex_text false = None.
Proof. exact ctx_ex_rejected. Qed.
Print Assumptions C03_context_example_rejected.

(** * 5. Non-vacuity *)

(** the hypotheses on strtod hold for the reference implementation *)
Theorem C03_strtod_ref_hyps : strtod_ok strtod_ref /\ strtod_stable strtod_ref.
Proof. exact strtod_ref_hyps. Qed.
Print Assumptions C03_strtod_ref_hyps.
(** the contract [strtod_rfc] of section 2 holds for the reference strtod (ParseComplete.v, C02) *)
Theorem C03_strtod_ref_rfc : strtod_rfc strtod_ref.
Proof. exact strtod_ref_rfc_contract. Qed.
Print Assumptions C03_strtod_ref_rfc.

(** a text using every leniency (0x01 as whitespace, a raw 0x01 in a string, the numbers 01 and 1.)
    is accepted, with and without required termination, derives in the lenient grammar, and
    each of its lenient leaves is outside RFC 8259 *)
Theorem C03_lenient_example_accepted :
  text_l strtod_ref (len_ex_text ++ [120]) false = Some (tree_of strtod_ref len_ex_value, [120]).
Proof. exact len_ex_accepted. Qed.
Print Assumptions C03_lenient_example_accepted.
Theorem C03_lenient_example_accepted_terminated :
  text_l strtod_ref (len_ex_text ++ [32; 0; 120]) true = Some (tree_of strtod_ref len_ex_value, [0; 120]).
Proof. exact len_ex_accepted_terminated. Qed.
Print Assumptions C03_lenient_example_accepted_terminated.
Theorem C03_lenient_example_garbage_rejected : text_l strtod_ref (len_ex_text ++ [120; 0]) true = None.
Proof. exact len_ex_garbage_rejected. Qed.
Print Assumptions C03_lenient_example_garbage_rejected.
Theorem C03_lenient_example_derives : LEN_text strtod_ref len_ex_text len_ex_value.
Proof. exact len_ex_derives. Qed.
Print Assumptions C03_lenient_example_derives.
Theorem C03_lenient_example_not_rfc :
  rfc_ws 1 = false /\ rfc_raw 1 = false /\ rfc_number [48; 49] = false /\ rfc_number [49; 46] = false.
Proof. exact len_ex_not_rfc_leaves. Qed.
Print Assumptions C03_lenient_example_not_rfc.

(** concrete rejected texts ( [1,]  [1 2]  {1:2}  {''a'' 1}  nul  -  ''abc  ''\x41''  ''\u12G4''  ''\uDC00''
    ''\uD800\uD800'' ) and 1001 nested arrays; 1000 are accepted *)
Theorem C03_rejected_examples :
  text_l strtod_ref [91; 49; 44; 93] false = None /\
  text_l strtod_ref [91; 49; 32; 50; 93] false = None /\
  text_l strtod_ref [123; 49; 58; 50; 125] false = None /\
  text_l strtod_ref [123; 34; 97; 34; 32; 49; 125] false = None /\
  text_l strtod_ref [110; 117; 108] false = None /\
  text_l strtod_ref [45] false = None /\
  text_l strtod_ref [34; 97; 98; 99] false = None /\
  text_l strtod_ref [34; 92; 120; 52; 49; 34] false = None /\
  text_l strtod_ref [34; 92; 117; 49; 50; 71; 52; 34] false = None /\
  text_l strtod_ref [34; 92; 117; 68; 67; 48; 48; 34] false = None /\
  text_l strtod_ref [34; 92; 117; 68; 56; 48; 48; 92; 117; 68; 56; 48; 48; 34] false = None.
Proof.
  exact (conj rej_trailing_comma (conj rej_missing_comma (conj rej_nonstring_key (conj rej_missing_colon
        (conj rej_truncated_lit (conj rej_minus (conj rej_unterminated (conj rej_unknown_escape
        (conj rej_bad_hex (conj rej_lone_low rej_high_high)))))))))).
Qed.
Print Assumptions C03_rejected_examples.
Theorem C03_rejected_too_deep : text_l strtod_ref (repeat 91 (S nesting_limit) ++ repeat 93 (S nesting_limit)) false = None.
Proof. exact rej_too_deep. Qed.
Print Assumptions C03_rejected_too_deep.
Theorem C03_accepted_at_limit : exists t, text_l strtod_ref (repeat 91 nesting_limit ++ repeat 93 nesting_limit) false = Some (t, []).
Proof. exact acc_at_limit. Qed.
Print Assumptions C03_accepted_at_limit.

(** ---- rejection leaves nothing behind, and deep nesting is refused with bounded recursion
    (buffer-level model, every allocation schedule: the lemmas of ParseSafe.v, also C01) ---- *)
Theorem C03_reject_clean : forall strtod oracle content len rnt,
  ParseDefs.strtod_ok strtod -> (len <= length content)%nat ->
  exists r, ParseDefs.cJSON_ParseWithLengthOpts strtod oracle content len rnt = Ok r
         /\ (ParseDefs.pr_tree r = None -> ParseDefs.pr_live r = 0%Z)
         /\ (forall t, ParseDefs.pr_tree r = Some t -> ParseDefs.pr_live r = ParseDefs.blocks t).
Proof. exact ParseSafe.parse_length_safe. Qed.
Print Assumptions C03_reject_clean.

Theorem C03_depth_counter_bounded : forall strtod oracle content len fuel s r s',
  ParseDefs.strtod_ok strtod -> (len <= length content)%nat -> (0 <= ParseDefs.dep s <= c_CJSON_NESTING_LIMIT)%Z ->
  ParseDefs.parse_value strtod oracle content len fuel s = Ok (r, s') -> (0 <= ParseDefs.dep s' <= c_CJSON_NESTING_LIMIT + 1)%Z.
Proof. exact ParseSafe.parse_depth_bounded. Qed.
Print Assumptions C03_depth_counter_bounded.
