(** PatchHeapFail.v — the steps of the heap-level [apply_patch] under an ARBITRARY allocation-failure schedule [oracle].

    * [finish_add_f_none], [apply_patch_f_none]: the value-level model with refusals (PatchHeapFailDefs.v) is
      [PatchDefs.apply_patch] when nothing is refused;
    * [MInv_bump] …: a refused request only advances the request counter;
    * [strdup_refused], [detach_path_oracle]: [detach_path] makes ONE request, at its entry: refused — it returns NULL
      from the heap with the counter advanced; granted — it is the run with the never-failing allocator;
    * [step_dup_oracle]: [cJSON_Duplicate] of a node of the forest either returns NULL with the forest, the strings and
      the ledger as before (a refusal, or the nesting limit), or makes the copy the value-level model makes;
    * [finish_oracle]: the part of [apply_patch] after "Now, just add value to path" makes at most two requests — the
      copy of the path (refused: status 9, the value is deleted) and, for an object parent, the copy of the member name
      inside cJSON_AddItemToObject (refused: cJSON_AddItemToObject returns false, apply_patch ignores it and returns
      0: the value stays a detached tree that nobody owns). *)
From CJ Require Import Base Dbl Heap Forest ForestLemmas CoreSpec CoreDefs CoreRefineBase CoreRefine CoreRefineMore
  CoreRefineDelete CoreRefineReplace CoreRefineObject CoreRefineByKey CoreRefineFrame CoreRefineHistory CoreRefineAddObject
  CoreRefineHistoryObj CoreRefineCreate CoreRefineDupBase CoreRefineDupTree CoreRefineDupNode CoreRefineDupLoop CoreRefineDupValue CoreRefineDupForest CoreRefineDupUnroll CoreLedgerGen CoreLedgerDup.
From CJ Require Import TierBridgeDefs TierBridgeForest TierBridgeLemmas TierBridgeUtilsDefs TierBridgeUtils TierBridgeE2E2
  TierBridgeEndToEndStr TierBridgeOverwriteDefs TierBridgeOverwrite
  MergeHeapDefs MergeHeapInv MergeHeapProofs PatchHeapDefs PatchHeapPath PatchHeapPointer PatchHeapStr PatchHeapSteps
  PatchHeapDetach PatchHeapApplyDefs PatchHeapOps PatchHeapFinish PatchHeapApply PatchHeapDup PatchHeapFailDefs.
From CJ Require Tree PointerDefs PatchDefs CompareDefs MergeDefs SortSpec PatchProofs.
From CJ.gen Require Import Constants.
From stdpp Require Import gmap.
From Coq Require Import Lia.
Local Open Scope Z_scope.

(** * the value-level model without refusals *)
Lemma finish_add_f_none o v p cs :
  finish_add_f no_fails o v p cs = ' (st, d) <- PatchDefs.finish_add o v p cs ;; Ok (st, d, None).
Proof.
  rewrite finish_add_uses. unfold finish_add_f. destruct p as [|c0 p0]; [done|]. cbn [f_path f_key no_fails].
  destruct (PatchDefs.last_slash (c0 :: p0) 0 None) as [i|]; [|done]. cbv zeta.
  destruct (PointerDefs.get_item_from_pointer o (firstn i (c0 :: p0)) cs) as [pp|]; [|done].
  destruct (Tree.subtree o pp) as [par|]; [|done].
  destruct (Tree.is_array par).
  - destruct (strcmp _ PatchDefs.s_dash =? 0); [done|].
    destruct (PointerDefs.decode_array_index_from_pointer _) as [idx|]; [|done].
    by destruct (v_insert_in_array par idx v).
  - destruct (Tree.is_object par); [|done]. by destruct (PatchDefs.decode_pointer_inplace _).
Qed.

Lemma apply_patch_f_none o p cs :
  apply_patch_f no_fails o p cs = ' (st, d, p') <- PatchDefs.apply_patch o p cs ;; Ok (st, d, p', None).
Proof.
  unfold apply_patch_f, PatchDefs.apply_patch, dup_f. cbn [f_rid f_from f_dup no_fails].
  destruct (CompareDefs.get_object_item p (Some PatchDefs.s_path) cs) as [[j pathn]|]; [|done].
  destruct (negb (Tree.is_string pathn)); [done|].
  destruct (PatchDefs.decode_patch_operation p cs) as [opc| |] eqn:Edec; cbn [bind]; [|done|done].
  assert (Hfin : forall o1 v1 s1,
    (' (st, o2, lk) <- finish_add_f no_fails o1 v1 s1 cs ;; Ok (st, o2, p, lk)) =
    (' (st, d, p') <- (' (st, o2) <- PatchDefs.finish_add o1 v1 s1 cs ;; Ok (st, o2, p)) ;; Ok (st, d, p', None))).
  { intros o1 v1 s1. rewrite finish_add_f_none. by destruct (PatchDefs.finish_add o1 v1 s1 cs) as [[st d]| |]. }
  destruct opc; try done.
  - (* ADD *)
    destruct (Tree.n_vstr pathn) as [pstr|]; [|done]. cbn [andb orb].
    destruct (PatchDefs.is_nil pstr); cbn [andb orb bind].
    + destruct (CompareDefs.get_object_item p (Some PatchDefs.s_value) cs) as [[jv v]|]; [|done].
      by destruct (PatchDefs.cJSON_Duplicate v).
    + destruct (CompareDefs.get_object_item p (Some PatchDefs.s_value) cs) as [[jv v]|]; [|done].
      destruct (PatchDefs.cJSON_Duplicate v); [apply Hfin|done].
  - (* REMOVE *)
    destruct (Tree.n_vstr pathn) as [pstr|]; [|done]. cbn [andb orb].
    destruct (PatchDefs.is_nil pstr); cbn [andb orb bind]; [done|].
    destruct (PatchDefs.detach_path o pstr cs) as [[[it o']|]| |]; done.
  - (* REPLACE *)
    destruct (Tree.n_vstr pathn) as [pstr|]; [|done]. cbn [andb orb].
    destruct (PatchDefs.is_nil pstr); cbn [andb orb bind].
    + destruct (CompareDefs.get_object_item p (Some PatchDefs.s_value) cs) as [[jv v]|]; [|done].
      by destruct (PatchDefs.cJSON_Duplicate v).
    + destruct (PatchDefs.detach_path o pstr cs) as [[[it o']|]| |]; cbn [bind]; try done.
      destruct (CompareDefs.get_object_item p (Some PatchDefs.s_value) cs) as [[jv v]|]; [|done].
      destruct (PatchDefs.cJSON_Duplicate v); [apply Hfin|done].
  - (* MOVE *)
    destruct (Tree.n_vstr pathn) as [pstr|]; [|done]. rewrite !andb_false_r. cbn [orb bind].
    destruct (CompareDefs.get_object_item p (Some PatchDefs.s_from) cs) as [[jf fromn]|]; [|done].
    destruct (negb (Tree.is_string fromn)); [done|].
    destruct (Tree.n_vstr fromn) as [fstr|]; [|done].
    destruct (bytes_eqb _ fstr && _); [done|].
    destruct (PatchDefs.detach_path o fstr cs) as [[[v o2]|]| |]; cbn [bind]; try done; try apply Hfin.
  - (* COPY *)
    destruct (Tree.n_vstr pathn) as [pstr|]; [|done]. rewrite !andb_false_r. cbn [orb bind].
    destruct (CompareDefs.get_object_item p (Some PatchDefs.s_from) cs) as [[jf fromn]|]; [|done].
    destruct (negb (Tree.is_string fromn)); [done|].
    destruct (match Tree.n_vstr fromn with Some fstr => _ | None => None end) as [v0|]; [|done].
    destruct (PatchDefs.cJSON_Duplicate v0); [apply Hfin|done].
Qed.

(** * a refused request *)
Lemma WF_bump h F : WF h F -> WF (bump h) F.
Proof. intros [W1 W2 W3 W4 W5 W6 W7 W8]. by constructor. Qed.
Lemma HeapOK_bump h : HeapOK h -> HeapOK (bump h).
Proof. intros [K1 K2 K3]. constructor; [by apply live_below_bump|done|done]. Qed.
Lemma MInv_bump h F : MInv h F -> MInv (bump h) F.
Proof. intros [W K O R]. constructor; [by apply WF_bump|by apply HeapOK_bump|done|done]. Qed.
Lemma NoLeak_bump h F : NoLeak h F -> NoLeak (bump h) F.
Proof. done. Qed.
Lemma Mid_bump NL0 B h F : Mid NL0 B h F -> Mid NL0 B (bump h) F.
Proof. intros [I Hno Hl Ho Hs NL]. constructor; try done. by apply MInv_bump. Qed.

Section Oracle.
  Variable oracle : nat -> bool.

  Lemma strdup_refused h pb (sp : bytes) :
    pb ∈ h_live h -> h_str h !! pb = Some sp -> existsb (Z.eqb 0) sp = true -> oracle (h_req h) = true ->
    cJSONUtils_strdup oracle (Some pb) h = Ret (None, bump h).
  Proof.
    intros Hl Hs Hz Ho. change (cJSONUtils_strdup oracle (Some pb) h) with (cJSON_strdup oracle (Some pb) h).
    apply (CoreRefineAddObject.cJSON_strdup_fail oracle h pb sp); [split; [done|by exists sp]|done|done].
  Qed.
  Lemma strdup_granted h pb (sp : bytes) :
    pb ∈ h_live h -> h_str h !! pb = Some sp -> existsb (Z.eqb 0) sp = true -> oracle (h_req h) = false ->
    cJSONUtils_strdup oracle (Some pb) h = Ret (Some (h_next h), alloc_str h (cstr sp ++ [0])).
  Proof.
    intros Hl Hs Hz Ho. change (cJSONUtils_strdup oracle (Some pb) h) with (cJSON_strdup oracle (Some pb) h).
    apply (CoreRefineAddObject.cJSON_strdup_ok oracle h pb sp); [split; [done|by exists sp]|done|done].
  Qed.

  (** ** detach_path: one request, at the entry *)
  Lemma detach_path_oracle h object pb (sp : bytes) flag :
    pb ∈ h_live h -> h_str h !! pb = Some sp -> existsb (Z.eqb 0) sp = true ->
    detach_path oracle object (Some pb) flag h =
    if oracle (h_req h) then Ret (None, bump h) else detach_path nofail object (Some pb) flag h.
  Proof.
    intros Hl Hs Hz. destruct (oracle (h_req h)) eqn:Ho.
    - unfold detach_path. by rewrite (bindM_Ret _ _ _ _ _ (strdup_refused h pb sp Hl Hs Hz Ho)).
    - unfold detach_path. rewrite (bindM_Ret _ _ _ _ _ (strdup_granted h pb sp Hl Hs Hz Ho)).
      assert (Hn : cJSONUtils_strdup nofail (Some pb) h = Ret (Some (h_next h), alloc_str h (cstr sp ++ [0]))).
      { change (cJSONUtils_strdup nofail (Some pb) h) with (cJSON_strdup nofail (Some pb) h).
        apply (CoreRefineAddObject.cJSON_strdup_ok nofail h pb sp); [split; [done|by exists sp]|done|done]. }
      by rewrite (bindM_Ret _ _ _ _ _ Hn).
  Qed.

  (** ** cJSON_Duplicate of a node of the forest *)
  Lemma step_dup_oracle h F pp tp :
    MInv h F -> find_tree pp F = Some tp ->
    (exists h', cJSON_Duplicate oracle (Some pp) true h = Ret (None, h') /\ MInv h' F /\ (NoLeak h F -> NoLeak h' F) /\
                h_str h' = h_str h /\ lib_live h' = lib_live h /\ (h_next h <= h_next h')%positive) \/
    (exists tc h', cJSON_Duplicate oracle (Some pp) true h = Ret (Some (tid tc), h') /\
                   MInv h' (F ++ [tc]) /\ (NoLeak h F -> NoLeak h' (F ++ [tc])) /\ KeepO h h' F /\
                   PatchDefs.cJSON_Duplicate (reify (h_str h) tp) = Some (reify (h_str h') tc) /\
                   (h_next h <= h_next h')%positive).
  Proof.
    intros I Hp. pose proof (mi_wf _ _ I) as W. pose proof Hp as Hp0. apply find_tree_Some in Hp0 as [Hn _].
    destruct (decide (height tp <= Z.to_nat c_CJSON_CIRCULAR_LIMIT)%nat) as [Hh|Hh].
    - destruct (dup_copy oracle h F pp tp W (MInv_Closed _ _ I) Hp (MInv_strs_readable _ _ I _ Hn)
                  (MInv_no_borrowed _ _ I _ Hn) Hh) as (r & h' & Hrun & [H|H]).
      + destruct H as (-> & W' & NL & _ & _ & E3 & _ & _ & E6 & _ & _). left.
        pose proof (Cons_cJSON_Duplicate oracle _ _ _ _ _ Hrun (mi_ok _ _ I)) as CP.
        exists h'. split; [exact Hrun|]. split; [|split_and!; try done; exact (cp_next _ _ CP)].
        apply (MInv_build h h' F F I W' (cp_ok _ _ CP)); [by left|]. intros b _ _. by rewrite E3.
      + destruct H as (tc & -> & W' & NL & Hcp & Fr & _ & Hdis & Hnew & _). right.
        assert (K : KeepO h h' F).
        { intros b Hb. apply (xt_str _ _ _ _ Fr). intros Hs. apply (Hdis b Hb).
          rewrite owned_singleton, owned_fl_split. apply elem_of_app. by right. }
        pose proof (Cons_cJSON_Duplicate oracle _ _ _ _ _ Hrun (mi_ok _ _ I)) as CP.
        exists tc, h'. split; [exact Hrun|]. split; [|split; [exact NL|split; [exact K|split; [|exact (cp_next _ _ CP)]]]].
        * apply (MInv_build h h' F (F ++ [tc]) I W' (cp_ok _ _ CP)).
          -- intros e He. apply datas_elem_app in He as [He|He]; [by left|]. right.
             unfold datas in He. rewrite flat_singleton in He. apply elem_of_list_fmap in He as ([[i' d'] ks'] & -> & He).
             destruct (copy_of_flat _ _ _ Hcp i' d' ks' He) as (i & d & ks & Hsrc & Hdc).
             pose proof (flat_t_sub F tp _ Hn Hsrc) as HsF.
             assert (Hd : (i, d) ∈ datas F) by (unfold datas; apply elem_of_list_fmap; by exists (i, d, ks)).
             destruct (mi_own _ _ I _ Hd) as [_ Hc]. cbn in Hc. cbn [fdata fn_id fn_data fst snd].
             split; [by eapply data_copy_owns|by eapply data_copy_readable].
          -- intros b _ Hb. by apply K.
        * destruct (bridge_duplicate h' tp tc Hcp) as (_ & _ & H3). destruct (H3 Hh) as [D1 _].
          rewrite (reify_keep h h' F tp (mi_own _ _ I) Hn K) in D1. exact D1.
    - destruct (dup_too_deep oracle h F pp tp W (MInv_Closed _ _ I) (MInv_refs_in _ _ I) (MInv_all_readable _ _ I) Hp ltac:(lia))
        as (h' & Hrun & W' & NL & _ & _ & E3 & _ & _ & E6 & _). left.
      pose proof (Cons_cJSON_Duplicate oracle _ _ _ _ _ Hrun (mi_ok _ _ I)) as CP.
      exists h'. split; [exact Hrun|]. split; [|split_and!; try done; exact (cp_next _ _ CP)].
      apply (MInv_build h h' F F I W' (cp_ok _ _ CP)); [by left|]. intros b _ _. by rewrite E3.
  Qed.
End Oracle.
