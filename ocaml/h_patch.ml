(* h_patch.ml — handlers of area `patch` (C16, C17): model of apply_patch / create_patches + RFC 6902 verdict *)
open Model
open Driver

(* allocated blocks of a tree: node + owned valuestring + owned key *)
let rec blocks (n : node) : int =
  let Node (ty, vs, _, _, key, ch) = n in
  let t = int_of_z ty in
  1 + (match vs with Some _ when t land 256 = 0 -> 1 | _ -> 0)
    + (match key with Some _ when t land 512 = 0 -> 1 | _ -> 0)
    + (if t land 256 <> 0 then 0 else List.fold_left (fun acc c -> acc + blocks c) 0 ch)

let children (n : node) = let Node (_, _, _, _, _, ch) = n in ch
let ty_of (n : node) = let Node (ty, _, _, _, _, _) = n in (int_of_z ty) land 255

(* applypatch <cs> <doc tree> <patch tree>
   -> <status> D <doc afterwards> P <patch afterwards> delta=<blocks gained>  [SPECDIFF]     (C16) *)
let h_applypatch (a : string array) : string =
  let cs = a.(1) = "1" in
  let pos = ref 2 in
  let doc = parse_node a pos in
  let patch = parse_node a pos in
  match apply_patches doc patch cs with
  | OOB -> "MODEL_OOB" | OutOfFuel -> "MODEL_OUTOFFUEL"
  | Ok ((st, d'), p') ->
      let st = int_of_z st in
      let spec =
        if cs && json_docb false doc && json_docb false patch then
          (match ops_of patch with
           | None -> ""       (* not a well-formed RFC 6902 patch document: no conformance claim *)
           | Some ops ->
               if List.exists (function Remove [] -> true | _ -> false) ops then "" else
               (match eval doc ops with
                | None -> if st <> 0 then "" else " SPECDIFF"
                | Some d2 -> if st = 0 && doc_eqb d' d2 && doc_eqb d2 d' then "" else " SPECDIFF"))
        else "" in
      Printf.sprintf "%d D %s P %s delta=%d%s" st (dump_node d') (dump_node p')
        (blocks d' + blocks p' - blocks doc - blocks patch) spec

let fu (n : node) : string =
  let t = ty_of n in
  if t = 32 || t = 64 then (let k = List.length (children n) + 1 in Printf.sprintf "%d/%d" k k) else "-"

(* genpatch <cs> <from tree> <to tree>
   -> G <patch array> F <from afterwards> T <to afterwards> delta=<blocks gained>
      A <status of applying the patch to a copy of from> <result> cmp=<cJSON_Compare(result,to)> fuF=.. fuT=..  [SPECDIFF]   (C17) *)
let h_genpatch (a : string array) : string =
  let cs = a.(1) = "1" in
  let pos = ref 2 in
  let from = parse_node a pos in
  let to_ = parse_node a pos in
  match generate_patches from to_ cs with
  | OOB -> "MODEL_OOB" | OutOfFuel -> "MODEL_OUTOFFUEL"
  | Ok ((ps, f'), t') ->
      let copy = (match cJSON_Duplicate from with Some c -> c | None -> from) in
      let applied = (match apply_patches copy ps cs with
        | OOB -> "MODEL_OOB" | OutOfFuel -> "MODEL_OUTOFFUEL"
        | Ok ((st, r), _) ->
            let c = (match cJSON_Compare (Some r) (Some t') false cs with Some true -> "1" | Some false -> "0" | None -> "MODEL_OUTOFFUEL") in
            Printf.sprintf "%d %s cmp=%s" (int_of_z st) (dump_node r) c) in
      let spec =
        if cs && json_docb false from && json_docb false to_ then
          (match ops_of ps with
           | None -> " SPECDIFF"
           | Some ops ->
               let eq = doc_eqb from to_ in
               let empty_ok = ((ops = []) = eq) in
               (match eval from ops with
                | Some d -> if doc_eqb d to_ && doc_eqb to_ d && empty_ok && doc_eqb f' from && doc_eqb t' to_ then "" else " SPECDIFF"
                | None -> " SPECDIFF"))
        else "" in
      Printf.sprintf "G %s F %s T %s delta=%d A %s fuF=%s fuT=%s%s" (dump_node ps) (dump_node f') (dump_node t')
        (blocks ps + blocks f' + blocks t' - blocks from - blocks to_) applied (fu f') (fu t') spec

(* decodeptr <hex token> -> <hex buffer after decode_pointer_inplace, up to the terminator> *)
let h_decodeptr (a : string array) : string =
  let s = bytes_of_hex a.(1) in
  res_str (fun b -> hex_of_bytes (cstr b)) (decode_pointer_inplace (s @ [Z0]))

let handlers : (string * (string array -> string)) list = [
  ("applypatch", h_applypatch); ("genpatch", h_genpatch); ("decodeptr", h_decodeptr);
]
