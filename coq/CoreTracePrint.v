(** CoreTracePrint.v — property C14, the reallocation part.  CoreDefs.v contains no reallocation
    at all; the only reallocating code of the library is the printer's [ensure] (and the final
    trim in [print]), modelled in PrintDefs.v, where [pb_realloc] is
    [hooks.reallocate != NULL].  Here: with [pb_realloc p = false], [ensure] is the function
    [ensure_manual] below, whose text does not mention [reallocate]; and [ensure] never changes
    the flag. *)
From CJ Require Import Base Heap PrintDefs.
From CJ.gen Require Import Constants.
Local Open Scope Z_scope.

Section NoRealloc.
  Variable oracle : nat -> bool.
  Variable junk : nat -> Z.

  (** [ensure] with the [hooks.reallocate != NULL] branch removed: allocate, memcpy, deallocate *)
  Definition ensure_manual (p : printbuffer) (needed : Z) : res (bool * printbuffer) :=
    match pb_buf p with
    | None => Ok (false, p)
    | Some buf =>
        if (0 <? pb_length p) && (pb_length p <=? pb_offset p) then Ok (false, p)
        else if c_INT_MAX <? needed then Ok (false, p)
        else
          let needed := needed + pb_offset p + 1 in
          if needed <=? pb_length p then Ok (true, p)
          else if pb_noalloc p then Ok (false, p)
          else if (c_INT_MAX / 2 <? needed) && negb (needed <=? c_INT_MAX) then Ok (false, p)
          else
            let newsize := if c_INT_MAX / 2 <? needed then c_INT_MAX else needed * 2 in
            let '(nb, p1) := allocate oracle junk p newsize in
            match nb with
            | None =>
                let p2 := deallocate p1 (Some buf) in
                Ok (false, set_buf (set_length p2 0) None)
            | Some newbuffer =>
                newbuffer' <- (if 0 <? pb_length p then memcpy0 newbuffer buf (pb_offset p + 1)
                               else Ok newbuffer) ;;
                let p2 := deallocate p1 (Some buf) in
                Ok (true, set_buf (set_length p2 newsize) (Some newbuffer'))
            end
    end.

  Lemma ensure_no_realloc p needed :
    pb_realloc p = false -> ensure oracle junk p needed = ensure_manual p needed.
  Proof. intros H. unfold ensure, ensure_manual. rewrite H. reflexivity. Qed.

  Lemma pb_realloc_allocate p n : pb_realloc (snd (allocate oracle junk p n)) = pb_realloc p.
  Proof. unfold allocate. destruct (oracle (pb_req p)); reflexivity. Qed.
  Lemma pb_realloc_reallocate p b n : pb_realloc (snd (reallocate oracle junk p b n)) = pb_realloc p.
  Proof. unfold reallocate. destruct (oracle (pb_req p)); reflexivity. Qed.

  Lemma ensure_keeps_flag p needed b p' :
    ensure oracle junk p needed = Ok (b, p') -> pb_realloc p' = pb_realloc p.
  Proof.
    unfold ensure. destruct (pb_buf p) as [buf|]; [|intros E; inversion E; reflexivity].
    destruct ((0 <? pb_length p) && (pb_length p <=? pb_offset p)); [intros E; inversion E; reflexivity|].
    destruct (c_INT_MAX <? needed); [intros E; inversion E; reflexivity|].
    cbv zeta.
    destruct (needed + pb_offset p + 1 <=? pb_length p); [intros E; inversion E; reflexivity|].
    destruct (pb_noalloc p); [intros E; inversion E; reflexivity|].
    destruct ((c_INT_MAX / 2 <? needed + pb_offset p + 1) && negb (needed + pb_offset p + 1 <=? c_INT_MAX));
      [intros E; inversion E; reflexivity|].
    set (newsize := if c_INT_MAX / 2 <? needed + pb_offset p + 1 then c_INT_MAX else (needed + pb_offset p + 1) * 2).
    destruct (pb_realloc p) eqn:Hr.
    - pose proof (pb_realloc_reallocate p buf newsize) as Hk.
      destruct (reallocate oracle junk p buf newsize) as [nb p1]. cbn in Hk.
      destruct nb as [nbuf|]; intros E; inversion E; subst; cbn; congruence.
    - pose proof (pb_realloc_allocate p newsize) as Hk.
      destruct (allocate oracle junk p newsize) as [nb p1]. cbn in Hk.
      destruct nb as [nbuf|].
      + destruct (if 0 <? pb_length p then memcpy0 nbuf buf (pb_offset p + 1) else Ok nbuf) as [nb'| |];
          cbn; intros E; inversion E; subst; cbn; congruence.
      + intros E; inversion E; subst; cbn; congruence.
  Qed.
End NoRealloc.

(** [pb_realloc] is [hooks_realloc_available]: false as soon as one member is custom *)
Lemma realloc_unavailable hk :
  hk_malloc_custom hk = true \/ hk_free_custom hk = true -> hooks_realloc_available hk = false.
Proof.
  unfold hooks_realloc_available. intros [H|H]; rewrite H; cbn; [reflexivity|apply Bool.andb_false_r].
Qed.
