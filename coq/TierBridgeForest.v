(** TierBridgeForest.v — navigation lemmas on forests needed by TierBridgeLemmas.v: where the node [p] is after
    [set_children], that the children of a node of a forest with distinct identities have distinct
    identities, are not roots and are nodes of the forest, and the list-function dictionary between the
    std++ list operations of CoreSpec.v ([delete], [<[ := ]>], [insert_at], [!!]) and the hand-written ones
    of PatchDefs.v / MergeDefs.v ([remove_nth], [mp_remove_nth], [replace_nth], [insert_nth], [nth_error]). *)
From CJ Require Import Base Dbl Heap Forest ForestLemmas CoreSpec CoreRefine CoreRefineMore CoreRefineReplace
  CoreRefineAddObject CoreRefineDupTree.
From CJ Require Tree PointerDefs PatchDefs MergeDefs.
From stdpp Require Import gmap.
From Coq Require Import Lia.
Local Open Scope Z_scope.

(** * list dictionary *)
Lemma remove_nth_delete {A} (k : nat) (l : list A) : PatchDefs.remove_nth k l = delete k l.
Proof. revert k. induction l as [|x r IH]; intros [|k]; cbn; try done. by rewrite IH. Qed.
Lemma mp_remove_nth_delete (k : nat) (l : list Tree.node) : MergeDefs.mp_remove_nth k l = delete k l.
Proof.
  unfold MergeDefs.mp_remove_nth. revert k. induction l as [|x r IH]; intros [|k]; cbn; try done.
  by rewrite IH.
Qed.
Lemma replace_nth_insert {A} (k : nat) (x : A) (l : list A) : PatchDefs.replace_nth k x l = <[k := x]> l.
Proof. revert k. induction l as [|y r IH]; intros [|k]; cbn; try done. by rewrite IH. Qed.
Lemma insert_nth_insert_at {A} (k : nat) (x : A) (l : list A) :
  (k <= length l)%nat -> PatchDefs.insert_nth k x l = insert_at k x l.
Proof.
  unfold insert_at. revert l. induction k as [|k IH]; intros l Hk; [done|].
  destruct l as [|y r]; [cbn in Hk; lia|]. cbn [PatchDefs.insert_nth take drop app]. rewrite IH; [done|cbn in Hk; lia].
Qed.
Lemma insert_nth_past_end {A} (k : nat) (x : A) (l : list A) :
  (length l <= k)%nat -> PatchDefs.insert_nth k x l = l ++ [x].
Proof.
  revert l. induction k as [|k IH]; intros l Hk.
  - destruct l; [done|cbn in Hk; lia].
  - destruct l as [|y r]; [done|]. cbn [PatchDefs.insert_nth app]. rewrite IH; [done|cbn in Hk; lia].
Qed.
Lemma nth_error_lookup' {A} (l : list A) (k : nat) : nth_error l k = l !! k.
Proof. revert k. induction l as [|x r IH]; intros [|k]; cbn; try done. Qed.

(** get_array_item at value level = list lookup at a non-negative index *)
Lemma nth_z_lookup (l : list Tree.node) (idx : Z) :
  PointerDefs.nth_z l idx = if idx <? 0 then None else l !! Z.to_nat idx.
Proof.
  unfold PointerDefs.nth_z. destruct (Z.ltb_spec idx 0) as [Hn|Hn].
  - destruct (Z.leb_spec 0 idx); [lia|done].
  - destruct (Z.leb_spec 0 idx); [|lia]. cbn [andb].
    destruct (Z.ltb_spec idx (Z.of_nat (length l))) as [Hl|Hl]; [apply nth_error_lookup'|].
    symmetry. apply lookup_ge_None. lia.
Qed.

(** * where node [p] is after [set_children] *)
Definition isp (p : positive) : tree -> bool := fun n => bool_decide (tid n = p).

Lemma find_app' {A} (f : A -> bool) (l1 l2 : list A) :
  List.find f (l1 ++ l2) = match List.find f l1 with Some x => Some x | None => List.find f l2 end.
Proof. induction l1 as [|x r IH]; [done|]. cbn. by destruct (f x). Qed.

Lemma find_tree_app_l p F G n : find_tree p F = Some n -> find_tree p (F ++ G) = Some n.
Proof. unfold find_tree. rewrite nodes_app, find_app'. by intros ->. Qed.

Lemma find_nodes_None p ts : List.find (isp p) (nodes ts) = None -> p ∉ ids ts.
Proof. intros H Hin. destruct (find_tree_is_Some p ts Hin) as [n Hn]. unfold find_tree in Hn. unfold isp in H. congruence. Qed.

Lemma find_set_children_t p d cs cs' t :
  List.find (isp p) (nodes_t t) = Some (T p d cs) ->
  List.find (isp p) (nodes_t (set_children_t p cs' t)) = Some (T p d cs').
Proof.
  induction t as [i d0 cs0 IH] using tree_ind'. rewrite nodes_t_unfold. cbn [List.find set_children_t]. unfold isp at 1. cbn [tid].
  destruct (decide (i = p)) as [->|Hne].
  - rewrite bool_decide_eq_true_2 by done. intros [= -> ->]. rewrite nodes_t_unfold. cbn [List.find]. unfold isp. cbn [tid].
    by rewrite bool_decide_eq_true_2.
  - rewrite bool_decide_eq_false_2 by done. intros H. rewrite nodes_t_unfold. cbn [List.find]. unfold isp at 1. cbn [tid].
    rewrite bool_decide_eq_false_2 by done.
    change (set_children_t p cs' <$> cs0) with (set_children p cs' cs0).
    revert H. induction cs0 as [|c r IHr]; [done|].
    apply Forall_cons in IH as [IHc IHr']. specialize (IHr IHr').
    unfold set_children. rewrite fmap_cons. rewrite !nodes_cons, !find_app'.
    destruct (List.find (isp p) (nodes_t c)) as [n|] eqn:E.
    + intros [= ->]. by rewrite (IHc eq_refl).
    + assert (Hnot : p ∉ ids_t c).
      { intros Hin. apply (find_nodes_None p [c]); [|by rewrite ids_cons, app_nil_r].
        by rewrite nodes_cons, app_nil_r. }
      rewrite (set_children_t_notin p cs' c Hnot), E. exact IHr.
Qed.

Lemma find_tree_set_children p d cs cs' F :
  find_tree p F = Some (T p d cs) -> find_tree p (set_children p cs' F) = Some (T p d cs').
Proof.
  unfold find_tree. fold (isp p). induction F as [|t F IH]; [done|].
  unfold set_children. rewrite fmap_cons. rewrite !nodes_cons, !find_app'.
  destruct (List.find (isp p) (nodes_t t)) as [n|] eqn:E.
  - intros [= ->]. by rewrite (find_set_children_t p d cs cs' t E).
  - assert (Hnot : p ∉ ids_t t).
    { intros Hin. apply (find_nodes_None p [t]); [|by rewrite ids_cons, app_nil_r].
      by rewrite nodes_cons, app_nil_r. }
    rewrite (set_children_t_notin p cs' t Hnot), E. exact IH.
Qed.

Lemma children_of_find F p d cs : find_tree p F = Some (T p d cs) -> children_of F p = Some cs.
Proof. unfold children_of. by intros ->. Qed.

(** * children of a node: distinct, not roots, nodes of the forest *)
Lemma children_ids_NoDup F p d cs : NoDup (ids F) -> find_tree p F = Some (T p d cs) -> NoDup (tid <$> cs).
Proof.
  intros ND Hp. apply find_tree_flat in Hp. apply elem_of_Permutation in Hp as [FL HFL].
  destruct (heap_lnk_of_focus F (roots F) p d (tid <$> cs) FL ND (reflexivity _) HFL) as [_ HN].
  by apply NoDup_app in HN as [? _].
Qed.

Lemma child_is_not_root F p d cs c : NoDup (ids F) -> find_tree p F = Some (T p d cs) -> c ∈ cs -> tid c ∉ roots F.
Proof.
  intros ND Hp Hc. apply find_tree_flat in Hp. eapply child_not_root; [done|exact Hp|].
  apply elem_of_list_fmap. by exists c.
Qed.

Lemma nodes_t_trans t : forall n m, n ∈ nodes_t t -> m ∈ nodes_t n -> m ∈ nodes_t t.
Proof.
  induction t as [i d cs IH] using tree_ind'. intros n m Hn Hm. rewrite nodes_t_unfold in Hn.
  apply elem_of_cons in Hn as [->|Hn]; [done|]. rewrite nodes_t_unfold. right.
  apply elem_of_nodes in Hn as (c & Hc & Hnc). apply elem_of_nodes. exists c. split; [done|].
  rewrite Forall_forall in IH. by apply (IH c Hc n m).
Qed.

Lemma child_in_nodes F p d cs c : T p d cs ∈ nodes F -> c ∈ cs -> c ∈ nodes F.
Proof.
  intros Hn Hc. apply elem_of_nodes in Hn as (t & Ht & Hnt). apply elem_of_nodes. exists t. split; [done|].
  apply (nodes_t_trans t (T p d cs) c Hnt). rewrite nodes_t_unfold. right. by apply roots_in_nodes.
Qed.

(** the pointer to a child designates that child *)
Lemma find_tree_child F p d cs c :
  NoDup (ids F) -> find_tree p F = Some (T p d cs) -> c ∈ cs -> find_tree (tid c) F = Some c.
Proof.
  intros ND Hp Hc. apply find_tree_unique; [done| |done].
  apply find_tree_Some in Hp as [Hn _]. by eapply child_in_nodes.
Qed.

(** detach, then delete the detached item: the forest is back without it *)
Lemma remove_detached F p d cs (k : nat) tx cs' :
  NoDup (ids F) -> find_tree p F = Some (T p d cs) -> cs !! k = Some tx ->
  remove_root (tid tx) (set_children p cs' F ++ [tx]) = set_children p cs' F.
Proof.
  intros ND Hp Hk. apply remove_root_snoc. rewrite roots_set_children.
  eapply child_is_not_root; [done..|]. by eapply elem_of_list_lookup_2.
Qed.
Lemma find_detached F p d cs (k : nat) tx cs' :
  NoDup (ids F) -> find_tree p F = Some (T p d cs) -> cs !! k = Some tx ->
  find_root (tid tx) (set_children p cs' F ++ [tx]) = Some tx.
Proof.
  intros ND Hp Hk. rewrite find_root_app_r.
  - unfold find_root. cbn. by rewrite bool_decide_eq_true_2.
  - rewrite roots_set_children. eapply child_is_not_root; [done..|]. by eapply elem_of_list_lookup_2.
Qed.
