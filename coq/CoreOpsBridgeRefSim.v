(** CoreOpsBridgeRefSim.v — the read-only queries through a REFERENCE NODE, heap level ([WF h F]).

    [Chain us]: the trees [us] are nodes of the forest and the [next] field of each designates the
    following one (NULL after the last).  The five loops of the queries (size, by index, by key case
    sensitive / folded, the caller's cJSON_ArrayForEach) are run along any such chain.
    [chain_from_Chain]: the chain [chain_from F c] that starts at a node [c] of the forest is one
    (a suffix of the children list of [c]'s parent, or [c] alone when it is a root), shorter than
    the fuel, and starts at [c].  [ref_chain_facts]: hence [ref_chain F a = Some us] means that the
    child pointer of the reference node [a] designates the head of the chain [us].

    Results ([ref_size_sim], [ref_item_sim], [ref_key_sim], [ref_has_sim], [ref_each_sim]): on a
    well-formed heap the query through the reference node returns the list model's answer computed
    from [us], and the heap is unchanged.  [chain_from_head]: when [c] is the first child of a
    container, the chain is exactly the container's current children list. *)
From CJ Require Import Base Dbl Heap Forest ForestLemmas CoreSpec CoreDefs CoreRefineBase CoreRefine CoreRefineMore
  CoreRefineObject CoreRefineHistory CoreRefineHistoryObj CoreRefineHistoryObjEx CoreRefineDupForest CoreRefineDupUnroll
  CoreHistoryAllSteps CoreHistoryAll CoreOpsBridge CoreOpsBridgeHist CoreOpsBridgeOwned CoreOpsBridgeDupDefs
  CoreOpsBridgeRefDefs.
From CJ Require CoreOps.
From CJ.gen Require Import Constants.
From stdpp Require Import gmap.
From Coq Require Import Lia.

Implicit Types (h : heap) (F : forest) (d : rdata) (us : list tree).

Section Chain.
  Context (h : heap) (F : forest).
  Hypothesis W : WF h F.

  Definition Chain us : Prop :=
    forall (k : nat) c, us !! k = Some c ->
      c ∈ nodes F /\ get_next (Some (tid c)) h = Ret (tid <$> us !! S k, h).

  Lemma node_live_dat c :
    c ∈ nodes F -> tid c ∈ h_live h /\ h_dat h !! tid c = Some (mk_dat (tdata c) (cids c)).
  Proof.
    intros Hc. pose proof (elem_of_flat _ _ Hc) as Hfc. unfold flat_of in Hfc. split.
    - apply (WF_ids_live _ _ _ W). by apply elem_of_list_fmap_1.
    - by apply (WF_lookup_dat _ _ _ _ _ W Hfc).
  Qed.

  (** ** the loops along a chain *)
  Lemma size_loop_chain us fuel k size :
    Chain us -> length us - k < fuel ->
    cJSON_GetArraySize_loop fuel (tid <$> us !! k) size h = Ret ((size + Z.of_nat (length us - k))%Z, h).
  Proof.
    intros HC. revert k size. induction fuel as [|fuel IH]; intros k size Hf; [lia|].
    cbn [cJSON_GetArraySize_loop]. destruct (us !! k) as [c|] eqn:Hk; cbn [fmap option_fmap option_map is_null].
    - destruct (HC k c Hk) as [_ Hnx]. rewrite (bindM_Ret _ _ _ _ _ Hnx).
      apply lookup_lt_Some in Hk. rewrite IH by lia. do 2 f_equal. lia.
    - apply lookup_ge_None in Hk. unfold ret. do 2 f_equal. lia.
  Qed.

  Lemma item_loop_chain us fuel k index :
    Chain us -> length us - k < fuel -> (0 <= index)%Z ->
    get_array_item_loop fuel (tid <$> us !! k) index h = Ret (tid <$> us !! (k + Z.to_nat index), h).
  Proof.
    intros HC. revert k index. induction fuel as [|fuel IH]; intros k index Hf Hi; [lia|].
    cbn [get_array_item_loop]. destruct (us !! k) as [c|] eqn:Hk; cbn [fmap option_fmap option_map is_null negb andb].
    - destruct (Z.ltb_spec 0 index) as [Hlt|Hge].
      + destruct (HC k c Hk) as [_ Hnx]. rewrite (bindM_Ret _ _ _ _ _ Hnx).
        apply lookup_lt_Some in Hk. rewrite IH by lia. do 4 f_equal. lia.
      + assert (index = 0%Z) as -> by lia. unfold ret. rewrite Nat.add_0_r. by rewrite Hk.
    - unfold ret. do 2 f_equal. symmetry. apply lookup_ge_None in Hk.
      rewrite (proj2 (lookup_ge_None us (k + Z.to_nat index))); [done|lia].
  Qed.

  Lemma each_loop_chain us fuel k :
    Chain us -> length us - k < fuel ->
    CoreOps.array_for_each_loop fuel (tid <$> us !! k) h = Ret (chain_types (drop k us), h).
  Proof.
    intros HC. revert k. induction fuel as [|fuel IH]; intros k Hf; [lia|].
    cbn [CoreOps.array_for_each_loop]. destruct (us !! k) as [c|] eqn:Hk; cbn [fmap option_fmap option_map is_null].
    - destruct (HC k c Hk) as [Hc Hnx]. destruct (node_live_dat c Hc) as [Hcl Hcd].
      rewrite (bindM_Ret _ _ _ _ _ (run_get_type_plain _ _ _ Hcl Hcd)).
      rewrite (bindM_Ret _ _ _ _ _ Hnx).
      apply lookup_lt_Some in Hk as Hlt. rewrite (bindM_Ret _ _ _ _ _ (IH (S k) ltac:(lia))).
      rewrite (drop_S _ _ _ Hk). reflexivity.
    - apply lookup_ge_None in Hk. rewrite drop_ge by lia. reflexivity.
  Qed.

  Section Keys.
    Context (nb : positive) (sn : bytes).
    Hypothesis KR : KeysReadable h F.
    Hypothesis Hnl : nb ∈ h_live h.
    Hypothesis Hns : h_str h !! nb = Some sn.
    Hypothesis Hnz : existsb (Z.eqb 0) sn = true.

    Lemma chain_key_readable c b : c ∈ nodes F -> rd_key (tdata c) = Some b -> Readable h b.
    Proof. intros Hc Hb. exact (KR _ _ (elem_of_flat _ _ Hc) Hb). Qed.

    Lemma key_cs_loop_chain us fuel k :
      Chain us -> length us - k < fuel ->
      (cur <~ get_object_item_loop_cs fuel (tid <$> us !! k) (Some nb) ;; goi_post cur) h =
      Ret (find_key_cs (h_str h) (cstr sn) (drop k us), h).
    Proof.
      intros HC. revert k. induction fuel as [|fuel IH]; intros k Hf; [lia|].
      cbn [get_object_item_loop_cs]. destruct (us !! k) as [c|] eqn:Hk; cbn [fmap option_fmap option_map is_null].
      2:{ apply lookup_ge_None in Hk. by rewrite drop_ge by lia. }
      destruct (HC k c Hk) as [Hc Hnext]. destruct (node_live_dat c Hc) as [Hlc Hdc].
      pose proof (chain_key_readable c) as Hkr.
      rewrite (drop_lookup_cons _ _ _ Hk). cbn [find_key_cs]. unfold key_string.
      rewrite !bindM_assoc. rewrite (bindM_Ret _ _ _ _ _ (run_get_key_plain _ _ _ Hlc Hdc)).
      change (nd_key (mk_dat (tdata c) (cids c))) with (rd_key (tdata c)).
      destruct (rd_key (tdata c)) as [b|] eqn:Hkey; cbn [is_null mbind option_bind].
      2:{ rewrite bindM_ret. unfold goi_post. cbn [is_null].
          rewrite (bindM_Ret _ _ _ _ _ (run_get_key_plain _ _ _ Hlc Hdc)). cbn. by rewrite Hkey. }
      destruct (Hkr b Hc eq_refl) as (Hbl & sb & Hbs & Hbz). rewrite Hbs. cbn [mbind option_bind].
      rewrite !bindM_assoc. rewrite (bindM_Ret _ _ _ _ _ (run_ld_cstr _ _ _ Hnl Hns Hnz)).
      rewrite !bindM_assoc. rewrite (bindM_Ret _ _ _ _ _ (run_ld_cstr _ _ _ Hbl Hbs Hbz)).
      destruct (Z.eqb_spec (strcmp (cstr sn) (cstr sb)) 0) as [He|Hne]; cbn [negb].
      - apply strcmp_zero_iff in He; [|apply cstr_nonzero..]. rewrite bool_decide_eq_true_2 by done.
        rewrite bindM_ret. unfold goi_post. cbn [is_null].
        rewrite (bindM_Ret _ _ _ _ _ (run_get_key_plain _ _ _ Hlc Hdc)). cbn. by rewrite Hkey.
      - rewrite bool_decide_eq_false_2 by (intros He; apply Hne; apply strcmp_zero_iff; [apply cstr_nonzero..|done]).
        rewrite !bindM_assoc. rewrite (bindM_Ret _ _ _ _ _ Hnext).
        apply lookup_lt_Some in Hk. apply IH. lia.
    Qed.

    Lemma key_ci_loop_chain us fuel k :
      Chain us -> length us - k < fuel ->
      (cur <~ get_object_item_loop_ci fuel (tid <$> us !! k) (Some nb) ;; goi_post cur) h =
      Ret (find_key_ci (h_str h) (cstr sn) (drop k us), h).
    Proof.
      intros HC. revert k. induction fuel as [|fuel IH]; intros k Hf; [lia|].
      cbn [get_object_item_loop_ci]. destruct (us !! k) as [c|] eqn:Hk; cbn [fmap option_fmap option_map is_null].
      2:{ apply lookup_ge_None in Hk. by rewrite drop_ge by lia. }
      destruct (HC k c Hk) as [Hc Hnext]. destruct (node_live_dat c Hc) as [Hlc Hdc].
      pose proof (chain_key_readable c) as Hkr.
      rewrite (drop_lookup_cons _ _ _ Hk). cbn [find_key_ci]. unfold key_string.
      rewrite !bindM_assoc. rewrite (bindM_Ret _ _ _ _ _ (run_get_key_plain _ _ _ Hlc Hdc)).
      change (nd_key (mk_dat (tdata c) (cids c))) with (rd_key (tdata c)).
      unfold case_insensitive_strcmp.
      destruct (rd_key (tdata c)) as [b|] eqn:Hkey; cbn [is_null orb mbind option_bind].
      2:{ rewrite !bindM_assoc, bindM_ret. cbn. rewrite !bindM_assoc. rewrite (bindM_Ret _ _ _ _ _ Hnext).
          apply lookup_lt_Some in Hk. apply IH. lia. }
      destruct (Hkr b Hc eq_refl) as (Hbl & sb & Hbs & Hbz). rewrite Hbs. cbn [mbind option_bind].
      assert (Hfound : goi_post (Some (tid c)) h = Ret (Some (tid c), h)).
      { unfold goi_post. cbn [is_null]. rewrite (bindM_Ret _ _ _ _ _ (run_get_key_plain _ _ _ Hlc Hdc)). cbn. by rewrite Hkey. }
      cbn [ptr_eqb]. destruct (Pos.eqb_spec nb b) as [->|Hnbb].
      - rewrite !bindM_assoc, bindM_ret. cbn [Z.eqb negb]. rewrite bindM_ret.
        assert (sb = sn) as -> by congruence. by rewrite bool_decide_eq_true_2.
      - rewrite !bindM_assoc. rewrite (bindM_Ret _ _ _ _ _ (run_ld_cstr _ _ _ Hnl Hns Hnz)).
        rewrite !bindM_assoc. rewrite (bindM_Ret _ _ _ _ _ (run_ld_cstr _ _ _ Hbl Hbs Hbz)).
        rewrite bindM_ret.
        destruct (Z.eqb_spec (strcasecmp_c (cstr sn) (cstr sb)) 0) as [He|Hne]; cbn [negb].
        + apply strcasecmp_zero_iff in He; [|apply cstr_nonzero..]. rewrite bool_decide_eq_true_2 by done.
          by rewrite bindM_ret.
        + rewrite bool_decide_eq_false_2 by (intros He; apply Hne; apply strcasecmp_zero_iff; [apply cstr_nonzero..|done]).
          rewrite !bindM_assoc. rewrite (bindM_Ret _ _ _ _ _ Hnext).
          apply lookup_lt_Some in Hk. apply IH. lia.
    Qed.
  End Keys.

  (** ** the chain that starts at a node of the forest *)
  Lemma chain_from_Chain c :
    c ∈ ids F ->
    Chain (chain_from F c) /\ length (chain_from F c) < Pos.to_nat (h_next h) /\
    head (tid <$> chain_from F c) = Some c.
  Proof.
    intros Hc.
    destruct (chain_from_cases F c (wf_nodup _ _ W) Hc) as [(p & dp & csp & j & Hp & Hj & ->)|(r & Hr & Hrc & ->)].
    - assert (Hep : (p, dp, tid <$> csp) ∈ flat F) by (apply (elem_of_flat F (T p dp csp)); done).
      split_and!.
      + intros k x Hk. rewrite lookup_drop in Hk. split.
        * eapply nodes_child; [exact Hp|]. by eapply elem_of_list_lookup_2.
        * assert (Hkk : (tid <$> csp) !! (j + k) = Some (tid x)) by (by rewrite list_lookup_fmap, Hk).
          rewrite (chain_get_next _ _ _ _ _ _ _ W Hep Hkk). rewrite list_lookup_fmap, lookup_drop.
          by rewrite Nat.add_succ_r.
      + rewrite drop_length. pose proof (chain_fuel _ _ _ _ _ W Hep) as Hf. rewrite fmap_length in Hf. lia.
      + rewrite fmap_drop, head_lookup, lookup_drop, Nat.add_0_r. exact Hj.
    - assert (Hroot : tid r ∈ roots F) by (apply elem_of_list_fmap; by exists r).
      split_and!.
      + intros k x Hk. destruct k as [|k]; [|done]. injection Hk as <-. split; [by apply roots_in_nodes|].
        cbn. rewrite <- (upd_maps_id h).
        rewrite (run_get_next h _ _ (tid r) (None, None)); [reflexivity| |].
        * apply (WF_ids_live _ _ _ W). by apply roots_subseteq_ids.
        * cbn. by apply (WF_lookup_lnk_root _ _ _ W).
      + cbn. pose proof (WF_ids_fresh _ _ _ W Hc) as Hlt. apply Pos2Nat.inj_lt in Hlt.
        pose proof (Pos2Nat.is_pos c). lia.
      + cbn. by rewrite Hrc.
  Qed.

  (** ** what [ref_chain] says about the heap *)
  Lemma ref_chain_facts a us :
    ref_chain F a = Some us ->
    exists p, a = Some p /\ get_child (Some p) h = Ret (head (tid <$> us), h) /\
              Chain us /\ length us < Pos.to_nat (h_next h).
  Proof.
    unfold ref_chain. destruct a as [p|]; [|done]. destruct (find_tree p F) as [[p' d cs]|] eqn:Hp; [|done].
    destruct cs as [|c0 cs0]; [|done]. destruct (is_ref d) eqn:Href; [|done].
    pose proof (find_tree_Some _ _ _ Hp) as [_ Hpp]. cbn in Hpp. subst p'.
    destruct (WF_live_dat _ _ _ _ _ W Hp) as [Hlp Hdp].
    pose proof (run_get_child_plain _ _ _ Hlp Hdp) as Hch.
    change (nd_child (mk_dat d (tid <$> []))) with (rd_ref d) in Hch.
    destruct (rd_ref d) as [c|] eqn:Er.
    - destruct (bool_decide (c ∈ ids F)) eqn:Eb; [|done]. apply bool_decide_eq_true in Eb. intros [= <-].
      destruct (chain_from_Chain c Eb) as (H1 & H2 & H3). exists p. rewrite H3. by split_and!.
    - intros [= <-]. exists p. split_and!; [done|exact Hch|by intros k x Hk|].
      cbn. pose proof (Pos2Nat.is_pos (h_next h)). lia.
  Qed.

  (** ** the queries through a reference node *)
  Theorem ref_size_sim a us :
    ref_chain F a = Some us -> cJSON_GetArraySize a h = Ret (Z.of_nat (length us), h).
  Proof.
    intros Hr. destruct (ref_chain_facts a us Hr) as (p & -> & Hch & HC & Hlen).
    unfold cJSON_GetArraySize. cbn [is_null]. rewrite (bindM_Ret _ _ _ _ _ Hch).
    unfold heap_fuel. unfold bindM at 1.
    replace (head (tid <$> us)) with (tid <$> us !! 0) by (by destruct us).
    rewrite (size_loop_chain us _ 0 0%Z HC) by lia. do 3 f_equal. lia.
  Qed.

  Theorem ref_item_sim a us index :
    ref_chain F a = Some us ->
    cJSON_GetArrayItem a index h = Ret (if (index <? 0)%Z then None else (tid <$> us) !! Z.to_nat index, h).
  Proof.
    intros Hr. destruct (ref_chain_facts a us Hr) as (p & -> & Hch & HC & Hlen).
    unfold cJSON_GetArrayItem. destruct (Z.ltb_spec index 0) as [Hlt|Hge]; [done|].
    unfold get_array_item. cbn [is_null]. rewrite (bindM_Ret _ _ _ _ _ Hch).
    unfold heap_fuel. unfold bindM at 1.
    replace (head (tid <$> us)) with (tid <$> us !! 0) by (by destruct us).
    rewrite (item_loop_chain us _ 0 index HC) by lia. by rewrite list_lookup_fmap.
  Qed.

  Theorem ref_key_sim a us nb (sn : bytes) (case_sensitive : bool) :
    KeysReadable h F -> ref_chain F a = Some us ->
    nb ∈ h_live h -> h_str h !! nb = Some sn -> existsb (Z.eqb 0) sn = true ->
    get_object_item a (Some nb) case_sensitive h = Ret (find_key case_sensitive (h_str h) (cstr sn) us, h).
  Proof.
    intros KR Hr Hnl Hns Hnz. destruct (ref_chain_facts a us Hr) as (p & -> & Hch & HC & Hlen).
    unfold get_object_item. cbn [is_null orb]. rewrite (bindM_Ret _ _ _ _ _ Hch).
    unfold heap_fuel. unfold bindM at 1.
    replace (head (tid <$> us)) with (tid <$> us !! 0) by (by destruct us).
    unfold find_key. destruct case_sensitive.
    - rewrite <- (drop_0 us) at 2. apply (key_cs_loop_chain nb sn KR Hnl Hns Hnz us _ 0 HC). lia.
    - rewrite <- (drop_0 us) at 2. apply (key_ci_loop_chain nb sn KR Hnl Hns Hnz us _ 0 HC). lia.
  Qed.

  Theorem ref_has_sim a us nb (sn : bytes) :
    KeysReadable h F -> ref_chain F a = Some us ->
    nb ∈ h_live h -> h_str h !! nb = Some sn -> existsb (Z.eqb 0) sn = true ->
    cJSON_HasObjectItem a (Some nb) h = Ret (negb (is_null (find_key false (h_str h) (cstr sn) us)), h).
  Proof.
    intros KR Hr Hnl Hns Hnz. unfold cJSON_HasObjectItem, cJSON_GetObjectItem.
    by rewrite (bindM_Ret _ _ _ _ _ (ref_key_sim a us nb sn false KR Hr Hnl Hns Hnz)).
  Qed.

  Theorem ref_each_sim a us :
    ref_chain F a = Some us -> CoreOps.array_for_each a h = Ret (chain_types us, h).
  Proof.
    intros Hr. destruct (ref_chain_facts a us Hr) as (p & -> & Hch & HC & Hlen).
    unfold CoreOps.array_for_each. cbn [is_null negb]. rewrite (bindM_Ret _ _ _ _ _ Hch).
    unfold heap_fuel. unfold bindM at 1.
    replace (head (tid <$> us)) with (tid <$> us !! 0) by (by destruct us).
    rewrite (each_loop_chain us _ 0 HC) by lia. by rewrite drop_0.
  Qed.
End Chain.

(** * pure facts about the chain *)

(** the elements of the chain are nodes of the forest *)
Lemma chain_from_nodes F c x : NoDup (ids F) -> c ∈ ids F -> x ∈ chain_from F c -> x ∈ nodes F.
Proof.
  intros ND Hc Hx.
  destruct (chain_from_cases F c ND Hc) as [(p & dp & csp & j & Hp & Hj & E)|(r & Hr & Hrc & E)]; rewrite E in Hx.
  - eapply nodes_child; [exact Hp|]. rewrite <- (take_drop j csp). apply elem_of_app. by right.
  - apply elem_of_list_singleton in Hx as ->. by apply roots_in_nodes.
Qed.
Lemma ref_chain_nodes F a us x : NoDup (ids F) -> ref_chain F a = Some us -> x ∈ us -> x ∈ nodes F.
Proof.
  intros ND. unfold ref_chain. destruct a as [p|]; [|done]. destruct (find_tree p F) as [[p' d cs]|]; [|done].
  destruct cs; [|done]. destruct (is_ref d); [|done]. destruct (rd_ref d) as [c|].
  - destruct (bool_decide (c ∈ ids F)) eqn:Eb; [|done]. apply bool_decide_eq_true in Eb. intros [= <-].
    by apply chain_from_nodes.
  - intros [= <-] Hx. by apply elem_of_nil in Hx.
Qed.

(** the reference designates the FIRST child of a container: the chain is the container's current
    children list *)
Lemma NoDup_bind_same {A B} (f : A -> list B) (l : list A) : forall (i j : nat) a b x,
  NoDup (l ≫= f) -> l !! i = Some a -> l !! j = Some b -> x ∈ f a -> x ∈ f b -> i = j.
Proof.
  induction l as [|a0 l IH]; intros i j a b x ND Hi Hj Ha Hb; [done|].
  rewrite bind_cons in ND. apply NoDup_app in ND as (_ & Hdis & ND).
  destruct i as [|i], j as [|j]; cbn in Hi, Hj.
  - done.
  - injection Hi as ->. exfalso. apply (Hdis x Ha). apply elem_of_list_bind. exists b. split; [done|].
    by eapply elem_of_list_lookup_2.
  - injection Hj as ->. exfalso. apply (Hdis x Hb). apply elem_of_list_bind. exists a. split; [done|].
    by eapply elem_of_list_lookup_2.
  - f_equal. by eapply IH.
Qed.

Lemma chain_from_head F q dq csq c :
  NoDup (ids F) -> T q dq csq ∈ nodes F -> head (tid <$> csq) = Some c -> chain_from F c = csq.
Proof.
  intros ND Hq Hh. rewrite head_lookup in Hh.
  assert (Heq : (q, dq, tid <$> csq) ∈ flat F) by (apply (elem_of_flat F (T q dq csq)); done).
  assert (Hc : c ∈ ids F).
  { eapply cids_in_ids; [exact Heq|]. by eapply elem_of_list_lookup_2. }
  assert (NDc : NoDup (tid <$> csq)).
  { apply elem_of_Permutation in Heq as [FL HFL].
    destruct (heap_lnk_of_focus _ _ _ _ _ _ ND (reflexivity _) HFL) as [_ HN]. by apply NoDup_app in HN as [? _]. }
  pose proof ND as ND'. rewrite <- lnk_keys_ids in ND'. unfold lnk_keys in ND'. apply NoDup_app in ND' as (_ & Hdis & NDb).
  destruct (chain_from_cases F c ND Hc) as [(p & dp & csp & j & Hp & Hj & E)|(r & Hr & Hrc & E)].
  - apply elem_of_list_lookup in Hq as [i1 Hi1]. apply elem_of_list_lookup in Hp as [i2 Hi2].
    assert (Hf1 : flat F !! i1 = Some (q, dq, tid <$> csq)) by (unfold flat; by rewrite list_lookup_fmap, Hi1).
    assert (Hf2 : flat F !! i2 = Some (p, dp, tid <$> csp)) by (unfold flat; by rewrite list_lookup_fmap, Hi2).
    assert (i1 = i2) as <-.
    { apply (NoDup_bind_same fn_cids (flat F) i1 i2 _ _ c NDb Hf1 Hf2); cbn; by eapply elem_of_list_lookup_2. }
    rewrite Hi1 in Hi2. injection Hi2 as <- <- <-.
    pose proof (NoDup_lookup _ _ _ _ NDc Hh Hj) as <-. by rewrite E, drop_0.
  - exfalso. apply (Hdis c).
    + apply elem_of_list_fmap. by exists r.
    + apply elem_of_list_bind. exists (q, dq, tid <$> csq). split; [cbn; by eapply elem_of_list_lookup_2|done].
Qed.
