(** RoundTripNum.v — property C04, the number level: what one print_number / parse_number
    cycle does to a double.

    * facts about the SpecFloat doubles cJSON computes with (no libc involved): [deq] means
      identical representation up to the sign of zero, the saturating conversion [sat_int]
      of a well-formed double is a C int, [compare_double] against a finite double is true
      only for finite doubles;
    * the contract [LibcRoundTripSpec] on the C library conversions (a Record of named
      hypotheses — never an axiom);
    * [number_roundtrip]: the text print_number chooses for a finite double d (with
      valueint = (int) d saturated) is converted back by strtod to a double d' with
      compare_double d' d, d' == d when d is an integer below 10^15, and print_number
      chooses the very same text for d' again. *)
From CJ Require Import Base Dbl Tree CompareProofs PrintDefs.
Local Open Scope Z_scope.

(** * Doubles *)

(** The model's [dbl] is SpecFloat's [spec_float], which also contains non-normalised
    (mantissa, exponent) pairs that no C double has.  A C double is a well-formed one. *)
Definition dbl_ok (d : dbl) : Prop := valid_binary prec emax d = true.

Definition is_zero (d : dbl) : bool := match d with S754_zero _ => true | _ => false end.

(** [==] on doubles: the same representation, or two zeros (of any signs) *)
Lemma deq_true_cases a b : deq a b = true -> a = b \/ (is_zero a = true /\ is_zero b = true).
Proof.
  unfold deq, SFeqb.
  destruct a as [[|]|[|]| |[|] ma ea], b as [[|]|[|]| |[|] mb eb]; cbn [SFcompare is_zero]; intro H;
    try discriminate; try (right; split; reflexivity); try (left; reflexivity).
  - change (Pos.compare_cont Eq ma mb) with (ma ?= mb)%positive in H.
    destruct (ea ?= eb) eqn:Ee; try discriminate.
    apply Z.compare_eq in Ee. destruct (ma ?= mb)%positive eqn:Em; try discriminate.
    apply Pos.compare_eq in Em. subst. left; reflexivity.
  - change (Pos.compare_cont Eq ma mb) with (ma ?= mb)%positive in H.
    destruct (ea ?= eb) eqn:Ee; try discriminate.
    apply Z.compare_eq in Ee. destruct (ma ?= mb)%positive eqn:Em; try discriminate.
    apply Pos.compare_eq in Em. subst. left; reflexivity.
Qed.

Lemma finite_not_nan d : is_finite d = true -> is_nan d = false.
Proof. destruct d; cbn; congruence. Qed.

Lemma deq_refl_finite d : is_finite d = true -> deq d d = true.
Proof. intro H. unfold deq, SFeqb. rewrite SFcompare_refl by (apply finite_not_nan; exact H). reflexivity. Qed.

Lemma is_zero_finite d : is_zero d = true -> is_finite d = true.
Proof. destruct d; cbn; congruence. Qed.

Lemma finite_nan_inf d : is_finite d = true -> is_nan d || is_inf d = false.
Proof. destruct d; cbn; congruence. Qed.

Lemma dbl_of_int_0 : dbl_of_int 0 = S754_zero false.
Proof. reflexivity. Qed.

Lemma sat_int_zero d : is_zero d = true -> sat_int d = 0.
Proof. destruct d as [s| | |]; try discriminate. intros _. destruct s; vm_compute; reflexivity. Qed.

(** a zero is integer-valued: print_number takes the %d branch for it *)
Lemma zero_is_int d : is_zero d = true -> deq d (dbl_of_int (sat_int d)) = true.
Proof.
  intro H. rewrite (sat_int_zero d H). destruct d as [s| | |]; try discriminate.
  destruct s; reflexivity.
Qed.

Lemma compare_double_zeros a b : is_zero a = true -> is_zero b = true -> compare_double a b = true.
Proof.
  destruct a as [sa| | |], b as [sb| | |]; try discriminate. intros _ _.
  destruct sa, sb; vm_compute; reflexivity.
Qed.

Lemma compare_double_finite_l a b : compare_double a b = true -> is_finite b = true -> is_finite a = true.
Proof.
  intros H Hb. destruct (is_finite a) eqn:Ha; [reflexivity|].
  rewrite compare_double_sym in H. rewrite (compare_double_fin_nonfin b a Hb Ha) in H. discriminate.
Qed.

(** [deq] implies [compare_double] on finite doubles *)
Lemma deq_compare_double a b : is_finite a = true -> deq a b = true -> compare_double a b = true.
Proof.
  intros Ha H. destruct (deq_true_cases a b H) as [E | [Za Zb]].
  - subst b. apply compare_double_refl. apply finite_not_nan. exact Ha.
  - apply compare_double_zeros; assumption.
Qed.

(** ** the saturating conversion of a well-formed double is a C int *)
Lemma pos_lt_pow_digits m : Zpos m < 2 ^ Zpos (digits2_pos m).
Proof.
  induction m as [p IH|p IH|]; cbn [digits2_pos].
  - rewrite Pos2Z.inj_succ, Z.pow_succ_r by lia. lia.
  - rewrite Pos2Z.inj_succ, Z.pow_succ_r by lia. lia.
  - reflexivity.
Qed.

Lemma bounded_mantissa m e : bounded prec emax m e = true -> Zpos m < 2 ^ 53.
Proof.
  unfold bounded, canonical_mantissa. intro H. apply andb_true_iff in H as [H _].
  apply Zeq_bool_eq in H. unfold fexp, emin, prec, emax in H.
  pose proof (pos_lt_pow_digits m) as Hd.
  assert (Hle : Zpos (digits2_pos m) <= 53) by lia.
  pose proof (Z.pow_le_mono_r 2 _ 53 ltac:(lia) Hle). lia.
Qed.

Lemma imax_dbl : dbl_of_int c_INT_MAX = S754_finite false 9007199250546688 (-22).
Proof. reflexivity. Qed.
Lemma imin_dbl : dbl_of_int c_INT_MIN = S754_finite true 4503599627370496 (-21).
Proof. reflexivity. Qed.

Lemma div_pow_small m k b : 0 <= m < 2 ^ 53 -> 53 - b <= k -> 0 <= b -> m / 2 ^ k < 2 ^ b.
Proof.
  intros Hm Hk Hb. assert (0 <= k \/ k < 0) as [K|K] by lia.
  - apply Z.div_lt_upper_bound; [apply Z.pow_pos_nonneg; lia|].
    rewrite <- Z.pow_add_r by lia.
    pose proof (Z.pow_le_mono_r 2 53 (k + b) ltac:(lia) ltac:(lia)). lia.
  - rewrite (Z.pow_neg_r 2 k K). rewrite Zdiv_0_r. apply Z.pow_pos_nonneg; lia.
Qed.

Lemma sat_int_range d : dbl_ok d -> int_range (sat_int d) = true.
Proof.
  unfold dbl_ok. intro Hv. unfold sat_int.
  destruct (dle (dbl_of_int c_INT_MAX) d) eqn:Hmax; [reflexivity|].
  destruct (dle d (dbl_of_int c_INT_MIN)) eqn:Hmin; [reflexivity|].
  destruct (is_nan d) eqn:Hn; [reflexivity|].
  destruct d as [s|s| |s m e]; try reflexivity; try discriminate.
  cbn [valid_binary] in Hv. pose proof (bounded_mantissa m e Hv) as Hm.
  rewrite imax_dbl in Hmax. rewrite imin_dbl in Hmin.
  unfold dle, SFleb in Hmax, Hmin. cbn [SFcompare] in Hmax, Hmin.
  unfold int_range, c_INT_MIN, c_INT_MAX. cbn [trunc_dbl].
  destruct s.
  - (* negative *)
    clear Hmax.
    assert (Hb : (if 0 <=? e then Z.pos m * 2 ^ e else Z.pos m / 2 ^ (- e)) < 2 ^ 31).
    { destruct (e ?= -21) eqn:Ee.
      - apply Z.compare_eq in Ee. subst e. cbn [Z.leb Z.compare Z.opp].
        change (Pos.compare_cont Eq m 4503599627370496) with (m ?= 4503599627370496)%positive in Hmin.
        destruct (m ?= 4503599627370496)%positive eqn:Em; cbn [CompOpp] in Hmin; try discriminate.
        rewrite Pos.compare_lt_iff in Em.
        apply Z.div_lt_upper_bound; [reflexivity|]. change (2 ^ 21 * 2 ^ 31) with 4503599627370496. lia.
      - rewrite Z.compare_lt_iff in Ee. destruct (Z.leb_spec 0 e); [lia|].
        apply div_pow_small; lia.
      - discriminate. }
    assert (H0 : 0 <= (if 0 <=? e then Z.pos m * 2 ^ e else Z.pos m / 2 ^ (- e))).
    { destruct (0 <=? e).
      - apply Z.mul_nonneg_nonneg; [lia|]. apply Z.pow_nonneg. lia.
      - apply Z.div_pos; [lia|]. destruct (Z.le_gt_cases 0 (- e)).
        + apply Z.pow_pos_nonneg; lia.
        + (* unreachable branch shape, still provable *) rewrite Z.pow_neg_r by lia. lia. }
    change (2 ^ 31) with 2147483648 in Hb.
    apply andb_true_iff; split; [apply Z.leb_le|apply Z.leb_le]; lia.
  - (* non-negative *)
    clear Hmin.
    assert (Hb : (if 0 <=? e then Z.pos m * 2 ^ e else Z.pos m / 2 ^ (- e)) < 2147483647).
    { destruct (-22 ?= e) eqn:Ee.
      - apply Z.compare_eq in Ee. subst e. cbn [Z.leb Z.compare Z.opp].
        change (Pos.compare_cont Eq 9007199250546688 m) with (9007199250546688 ?= m)%positive in Hmax.
        destruct (9007199250546688 ?= m)%positive eqn:Em; try discriminate.
        rewrite Pos.compare_gt_iff in Em.
        apply Z.div_lt_upper_bound; [reflexivity|]. change (2 ^ 22 * 2147483647) with 9007199250546688. lia.
      - discriminate.
      - rewrite Z.compare_gt_iff in Ee. destruct (Z.leb_spec 0 e); [lia|].
        pose proof (div_pow_small (Z.pos m) (- e) 30 ltac:(lia) ltac:(lia) ltac:(lia)) as H30.
        change (2 ^ 30) with 1073741824 in H30. lia. }
    assert (H0 : 0 <= (if 0 <=? e then Z.pos m * 2 ^ e else Z.pos m / 2 ^ (- e))).
    { destruct (0 <=? e).
      - apply Z.mul_nonneg_nonneg; [lia|]. apply Z.pow_nonneg. lia.
      - apply Z.div_pos; [lia|]. destruct (Z.le_gt_cases 0 (- e)).
        + apply Z.pow_pos_nonneg; lia.
        + rewrite Z.pow_neg_r by lia. lia. }
    apply andb_true_iff; split; [apply Z.leb_le|apply Z.leb_le]; lia.
Qed.
