(** ThreadsInst.v — the library calls, as the Coq models define them, as the [step] function of
    Threads.v.  A thread's private state is its pool of trees (and the buffers it passes, which
    are call arguments); the shared state is the global error position that the parser
    publishes.  The footprint lemma holds because no modelled call takes the shared state as
    an input: the models were transliterated from code in which (generated source facts,
    SourceChecks.v) nothing but cJSON_GetErrorPtr reads global_error and nothing but
    cJSON_InitHooks writes global_hooks. *)
From CJ Require Import Base Dbl Tree LibcNum ParseDefs ParseEntry MinifyDefs CompareDefs PointerDefs Threads.
Local Open Scope Z_scope.

Inductive call : Type :=
| KParse (content : bytes) (len : nat) (rnt : bool)      (* cJSON_ParseWithLengthOpts; the tree joins the pool *)
| KParseString (content : bytes) (rnt : bool)            (* cJSON_ParseWithOpts / cJSON_Parse *)
| KMinify (s : bytes)                                     (* cJSON_Minify on a private buffer *)
| KCompare (i j : nat) (cs : bool)                        (* cJSON_Compare of two private trees *)
| KGetPointer (i : nat) (p : bytes) (cs : bool)           (* cJSONUtils_GetPointer[CaseSensitive] *)
| KFindPointer (i : nat) (target : path)                  (* cJSONUtils_FindPointerFromObjectTo *)
| KDelete (i : nat).                                      (* cJSON_Delete: the tree leaves the pool *)

Inductive result : Type :=
| RParse (r : res parse_result)
| RBytes (r : res bytes)
| RBool (b : option bool)
| RPath (p : option path)
| RPtr (p : option bytes)
| RUnit
| RBadHandle.

Definition shared := option nat.     (* global_error: None = {NULL, 0}, Some p = json + p *)

Fixpoint remove_nth {A} (i : nat) (l : list A) : list A :=
  match l, i with [] , _ => [] | _ :: r, O => r | x :: r, S i' => x :: remove_nth i' r end.

Definition publish (r : res parse_result) (pool : list node) (g : shared) : result * list node * shared :=
  match r with
  | Ok pr => (RParse r, match pr_tree pr with Some t => pool ++ [t] | None => pool end, pr_error pr)
  | _ => (RParse r, pool, g)
  end.

Definition lib_step (c : call) (pool : list node) (g : shared) : result * list node * shared :=
  match c with
  | KParse content len rnt => publish (run_parse_with_length_opts content len rnt 0) pool g
  | KParseString content rnt => publish (run_parse_with_opts content rnt 0) pool g
  | KMinify s => (RBytes (cJSON_Minify (s ++ [0])), pool, g)
  | KCompare i j cs =>
      match nth_error pool i, nth_error pool j with
      | Some a, Some b => (RBool (cJSON_Compare (Some a) (Some b) (Nat.eqb i j) cs), pool, g)
      | _, _ => (RBadHandle, pool, g)
      end
  | KGetPointer i p cs =>
      match nth_error pool i with
      | Some a => (RPath (if cs then cJSONUtils_GetPointerCaseSensitive a p else cJSONUtils_GetPointer a p), pool, g)
      | None => (RBadHandle, pool, g)
      end
  | KFindPointer i target =>
      match nth_error pool i with
      | Some a => (RPtr (cJSONUtils_FindPointerFromObjectTo a target), pool, g)
      | None => (RBadHandle, pool, g)
      end
  | KDelete i => (RUnit, remove_nth i pool, g)
  end.

Lemma lib_independent : forall c p g g',
  res_of _ _ _ (lib_step c p g) = res_of _ _ _ (lib_step c p g') /\
  priv_of _ _ _ (lib_step c p g) = priv_of _ _ _ (lib_step c p g').
Proof.
  intros c p g g'. unfold res_of, priv_of.
  destruct c as [content len rnt|content rnt|s|i j cs|i ptr cs|i target|i]; cbn [lib_step].
  - unfold publish. destruct (run_parse_with_length_opts content len rnt 0) as [pr| |]; cbn; auto.
  - unfold publish. destruct (run_parse_with_opts content rnt 0) as [pr| |]; cbn; auto.
  - cbn; auto.
  - destruct (nth_error p i), (nth_error p j); cbn; auto.
  - destruct (nth_error p i); cbn; auto.
  - destruct (nth_error p i); cbn; auto.
  - cbn; auto.
Qed.

Definition lib_thread := thread (list node) call result.

(** every schedule, every set of threads, every initial value of the shared error position *)
Theorem library_interleaving_invisible : forall sched (ts : list lib_thread) g ts' g',
  run _ _ _ _ lib_step sched (ts, g) = (ts', g') ->
  length ts' = length ts /\
  forall i t, nth_error ts i = Some t ->
    exists k t', nth_error ts' i = Some t' /\ forall g0, t' = fst (alone _ _ _ _ lib_step k t g0).
Proof. exact (interleaving_invisible _ _ _ _ lib_step lib_independent). Qed.

Theorem library_finished_as_alone : forall sched (ts : list lib_thread) g ts' g' i t t',
  run _ _ _ _ lib_step sched (ts, g) = (ts', g') -> nth_error ts i = Some t -> nth_error ts' i = Some t' ->
  todo _ _ _ t' = [] -> forall g0, t' = fst (alone _ _ _ _ lib_step (length (todo _ _ _ t)) t g0).
Proof. exact (finished_as_alone _ _ _ _ lib_step lib_independent). Qed.

(** non-vacuity: two threads, one parsing a malformed text (which publishes an error position)
    while the other parses, compares and resolves a pointer; an interleaved schedule gives each
    thread the results of its run alone, although the shared error position differs *)
Definition ex_t1 : lib_thread := mkT _ _ _ [] [KParse [91; 49; 44] 3 false; KParse [91; 49; 93] 3 false; KCompare 0 0 true] [].
Definition ex_t2 : lib_thread := mkT _ _ _ [] [KParse [123; 34; 97; 34; 58; 91; 50; 93; 125] 9 false; KGetPointer 0 [47; 97; 47; 48] true; KMinify [91; 32; 49; 32; 93]] [].
Definition ex_sched : list nat := [0; 1; 1; 0; 0; 1]%nat.
Lemma ex_interleaved :
  let '(ts', g') := run _ _ _ _ lib_step ex_sched ([ex_t1; ex_t2], None) in
  nth_error ts' 0 = Some (fst (alone _ _ _ _ lib_step 3 ex_t1 None)) /\
  nth_error ts' 1 = Some (fst (alone _ _ _ _ lib_step 3 ex_t2 (Some 7%nat))) /\
  snd (alone _ _ _ _ lib_step 1 ex_t1 None) = Some 2%nat /\ g' = None.
Proof. vm_compute. repeat split. Qed.
