(** PatchHeapApply.v — the heap-level [apply_patch] (PatchHeapApplyDefs.v) refines [PatchDefs.apply_patch] for the
    operations remove, add, replace, copy, move (the [test] operation: PatchHeapTest.v).

    Forest [G ++ [doc]]: the document is the last root; the patch object is a node of [G].  [phase_goal]: what
    every exit of the function has to deliver — the status of the value-level model, the invariant for
    [G ++ [docT]] with [G] literally unchanged, [reify docT] = the value-level document, the strings of [G]
    unchanged, [NoLeak] preserved.  The exits with status 6 / 8 (cJSON_Duplicate refuses a value nested deeper
    than CJSON_CIRCULAR_LIMIT) are excluded: the C11 development has no statement about that exit of
    cJSON_Duplicate. *)
From CJ Require Import Base Dbl Heap Forest ForestLemmas CoreSpec CoreDefs CoreRefineBase CoreRefine CoreRefineMore
  CoreRefineDelete CoreRefineReplace CoreRefineObject CoreRefineByKey CoreRefineFrame CoreRefineHistory CoreRefineAddObject
  CoreRefineHistoryObj CoreRefineCreate CoreRefineDupValue CoreRefineDupForest CoreLedgerGen CoreLedgerDup.
From CJ Require Import TierBridgeDefs TierBridgeForest TierBridgeLemmas TierBridgeUtilsDefs TierBridgeUtils TierBridgeE2E2
  TierBridgeEndToEndStr TierBridgeOverwriteDefs TierBridgeOverwrite
  MergeHeapDefs MergeHeapInv MergeHeapProofs PatchHeapDefs PatchHeapPath PatchHeapPointer PatchHeapStr PatchHeapSteps
  PatchHeapDetach PatchHeapApplyDefs PatchHeapOps PatchHeapFinish.
From CJ Require Tree PointerDefs PatchDefs CompareDefs MergeDefs SortSpec PatchProofs.
From CJ.gen Require Import Constants.
From stdpp Require Import gmap.
From Coq Require Import Lia.
Local Open Scope Z_scope.

(** * the value-level duplicate succeeds only below the nesting limit *)
Lemma dup_rec_depth item : forall depth v, depth <= c_CJSON_CIRCULAR_LIMIT ->
  PatchDefs.dup_rec item depth = Some v -> depth + Z.of_nat (Tree.node_depth item) - 1 <= c_CJSON_CIRCULAR_LIMIT.
Proof.
  induction item as [ty vs vi vd k cs IH] using Tree.node_ind'. intros depth v Hd. rewrite dup_rec_unfold, node_depth_unfold.
  assert (Hl : forall cs', dup_list depth cs = Some cs' -> depth + Z.of_nat (vdepth_list cs) <= c_CJSON_CIRCULAR_LIMIT).
  { induction cs as [|c r IHr]; intros cs'; cbn [dup_list vdepth_list]; [intros _; lia|].
    apply List.Forall_cons_iff in IH as [IHc IHr'].
    destruct (Z.geb_spec depth c_CJSON_CIRCULAR_LIMIT) as [|Hlt]; [done|].
    destruct (PatchDefs.dup_rec c (depth + 1)) as [c'|] eqn:Ec; [|done].
    fold (dup_list depth r). destruct (dup_list depth r) as [r'|] eqn:Er; [|done]. intros _.
    pose proof (IHc (depth + 1) c' ltac:(lia) Ec). pose proof (IHr IHr' r' eq_refl). lia. }
  destruct (dup_list depth cs) as [cs'|]; [|done]. intros _. pose proof (Hl cs' eq_refl). lia.
Qed.

Lemma dup_height St t v : PatchDefs.cJSON_Duplicate (reify St t) = Some v -> (height t <= Z.to_nat c_CJSON_CIRCULAR_LIMIT)%nat.
Proof.
  intros H. pose proof (dup_rec_depth _ 0 v CoreRefineDup.limit_nonneg H) as Hd. rewrite height_node_depth in Hd. lia.
Qed.

(** * what every exit has to deliver *)
Definition phase_goal (h : heap) (G : forest) (doc : tree) (o : out (Z * heap)) (vres : Base.res (Z * Tree.node)%type) : Prop :=
  match vres with
  | Ok (st, doc') =>
      st <> 6 -> st <> 8 ->
      exists h' docT,
        o = Ret (st, h') /\ MInv h' (G ++ [docT]) /\ tid docT = tid doc /\ reify (h_str h') docT = doc' /\
        KeepO h h' G /\ (NoLeak h (G ++ [doc]) -> NoLeak h' (G ++ [docT])) /\ (h_next h <= h_next h')%positive
  | _ => True
  end.

Lemma phase_goal_unchanged h G doc st :
  MInv h (G ++ [doc]) -> phase_goal h G doc (Ret (st, h)) (Ok (st, reify (h_str h) doc)).
Proof.
  intros I _ _. exists h, doc. split; [done|]. split; [done|]. split; [done|]. split; [done|]. split; [apply KeepO_refl|]. split; [done|lia].
Qed.

(** a step that changes the heap and the document first: [h] to [h1], [doc] to [doc1], strings of [G] kept *)
Lemma phase_goal_step h h1 G doc doc1 o vres :
  tid doc1 = tid doc -> KeepO h h1 G -> (NoLeak h (G ++ [doc]) -> NoLeak h1 (G ++ [doc1])) -> (h_next h <= h_next h1)%positive ->
  phase_goal h1 G doc1 o vres -> phase_goal h G doc o vres.
Proof.
  intros Ht K NL Hn. destruct vres as [[st doc']| |]; cbn; [|done|done].
  intros H H6 H8. destruct (H H6 H8) as (h' & docT & E & I' & Ht' & Hre & K' & NL' & Hn').
  exists h', docT. split; [done|]. split; [done|]. split; [congruence|]. split; [done|].
  split; [by eapply KeepO_trans|]. split; [auto|lia].
Qed.

Lemma finish_to_phase h G doc v o vres :
  finish_goal h G doc v (NoLeak h ((G ++ [doc]) ++ [v])) o h vres ->
  match vres with
  | Ok (st, doc') =>
      exists h' docT,
        o = Ret (st, h') /\ MInv h' (G ++ [docT]) /\ tid docT = tid doc /\ reify (h_str h') docT = doc' /\
        KeepO h h' G /\ (NoLeak h ((G ++ [doc]) ++ [v]) -> NoLeak h' (G ++ [docT])) /\ (h_next h <= h_next h')%positive
  | _ => False
  end.
Proof. by destruct vres as [[st doc']| |]. Qed.

Section Phases.
  Context (h : heap) (G : forest) (doc : tree) (pid : positive) (dpt : rdata) (cpt : list tree)
          (pn : positive) (dpn : rdata) (cpn : list tree) (pb : positive) (sp : bytes) (flag : bool).
  Notation F := (G ++ [doc]).
  Notation St := (h_str h).
  Notation pt := (T pid dpt cpt).
  Hypothesis I : MInv h F.
  Hypothesis Hpt : pt ∈ nodes G.
  Hypothesis Hpn : T pn dpn cpn ∈ nodes G.
  Hypothesis Hvs : rd_vstr dpn = Some pb.
  Hypothesis Hps : St !! pb = Some sp.
  Let W : WF h F := mi_wf _ _ I.

  Lemma nodes_G_F t : t ∈ nodes G -> t ∈ nodes F.
  Proof. intros Ht. rewrite nodes_app. apply elem_of_app. by left. Qed.
  Lemma doc_in_F : doc ∈ nodes F.
  Proof. apply roots_in_nodes. apply elem_of_app. right. by left. Qed.

  Lemma pb_facts : pb ∈ h_live h /\ existsb (Z.eqb 0) sp = true /\ pb ∈ owned G.
  Proof.
    destruct (proj2 (MInv_node_data _ _ I _ (nodes_G_F _ Hpn))) as [Hr _]. destruct (Hr pb Hvs) as (Hl & s & Hs & Hz).
    assert (s = sp) as -> by (unfold bytes in *; congruence). split; [done|]. split; [done|].
    assert (Ho : forall e, e ∈ datas G -> node_owns e.2).
    { intros e He. apply (mi_own _ _ I). apply datas_elem_app. by left. }
    apply (str_blocks_in_owned G (T pn dpn cpn) pb Ho Hpn). cbn [str_blocks]. rewrite Hvs. apply elem_of_app. left. cbn. by left.
  Qed.

  (** ** the value is a duplicate of a node [m] of the forest, then [finish] *)
  Lemma phase_dup_finish m v :
    m ∈ nodes F -> PatchDefs.cJSON_Duplicate (reify St m) = Some v ->
    phase_goal h G doc
      ((value' <~ cJSON_Duplicate nofail (Some (tid m)) true ;;
        if is_null value' then cleanup None None 8 else apply_patch_finish nofail (Some (tid doc)) (Some pn) value' flag) h)
      (PatchDefs.finish_add (reify St doc) v (cstr sp) flag) /\
    phase_goal h G doc
      ((value' <~ cJSON_Duplicate nofail (Some (tid m)) true ;;
        if is_null value' then cleanup None None 6 else apply_patch_finish nofail (Some (tid doc)) (Some pn) value' flag) h)
      (PatchDefs.finish_add (reify St doc) v (cstr sp) flag).
  Proof.
    intros Hm Hdup. destruct pb_facts as (Hpl & Hpz & Hpo).
    destruct (step_dup h F (tid m) m I (node_find h F I m Hm) (dup_height _ _ _ Hdup)) as (tc & h1 & Hrun & I1 & NL1 & K1 & Hv).
    rewrite mp_dup_rec_eq in Hv. unfold PatchDefs.cJSON_Duplicate in Hdup. rewrite Hdup in Hv. injection Hv as ->.
    destruct tc as [x dx csx].
    assert (Hps1 : h_str h1 !! pb = Some sp) by (rewrite (K1 pb (owned_G_F3 G doc x dx csx pb Hpo)) || (rewrite K1; [done|rewrite owned_app; apply elem_of_app; by left])).
    assert (Hpl1 : pb ∈ h_live h1).
    { apply (wf_owned_live _ _ (mi_wf _ _ I1)). rewrite !owned_app. apply elem_of_app. left. apply elem_of_app. by left. }
    pose proof (finish_refines h1 G doc x dx csx pn dpn cpn pb sp flag I1 Hpn Hvs Hpl1 Hps1 Hpz) as Hfin.
    rewrite (reify_keep h h1 F doc (mi_own _ _ I) doc_in_F K1) in Hfin.
    apply finish_to_phase in Hfin.
    assert (Hboth : forall s8, phase_goal h G doc
      ((value' <~ cJSON_Duplicate nofail (Some (tid m)) true ;;
        if is_null value' then cleanup None None s8 else apply_patch_finish nofail (Some (tid doc)) (Some pn) value' flag) h)
      (PatchDefs.finish_add (reify St doc) (reify (h_str h1) (T x dx csx)) (cstr sp) flag)).
    { intros s8. rewrite (bindM_Ret _ _ _ _ _ Hrun). cbn [is_null tid].
      destruct (PatchDefs.finish_add (reify St doc) (reify (h_str h1) (T x dx csx)) (cstr sp) flag) as [[st doc']| |]; [|done|done].
      destruct Hfin as (h' & docT & E & I' & Ht & Hre & K' & NL' & Hn'). intros _ _.
      exists h', docT. split; [done|]. split; [done|]. split; [done|]. split; [done|].
      split; [eapply KeepO_trans; [exact (KeepO_app_l _ _ _ _ K1)|exact K']|]. split; [auto|].
      assert (h_next h <= h_next h1)%positive; [|lia].
      refine (cp_next _ _ (Cons_cJSON_Duplicate nofail _ _ _ _ _ Hrun (mi_ok _ _ I))). }
    split; apply Hboth.
  Qed.

  Lemma zf_value : SortSpec.zfree PatchDefs.s_value. Proof. repeat constructor; done. Qed.
  Lemma zf_from : SortSpec.zfree PatchDefs.s_from. Proof. repeat constructor; done. Qed.
  Lemma zf_path : SortSpec.zfree PatchDefs.s_path. Proof. repeat constructor; done. Qed.

  (** ** add / replace below the root: "value" member, duplicate, insert *)
  Lemma phase_value :
    phase_goal h G doc
      ((value <~ u_get_object_item (Some pid) (CLit PatchDefs.s_value) flag ;;
        if is_null value then cleanup None None 7 else
        value' <~ cJSON_Duplicate nofail value true ;;
        if is_null value' then cleanup None None 8 else
        apply_patch_finish nofail (Some (tid doc)) (Some pn) value' flag) h)
      (match CompareDefs.get_object_item (reify St pt) (Some PatchDefs.s_value) flag with
       | None => Ok (7, reify St doc)
       | Some (_, v0) =>
           match PatchDefs.cJSON_Duplicate v0 with
           | None => Ok (8, reify St doc)
           | Some v => ' (st, o) <- PatchDefs.finish_add (reify St doc) v (cstr sp) flag ;; Ok (st, o)
           end
       end).
  Proof.
    destruct (run_member h F I pid dpt cpt PatchDefs.s_value flag (nodes_G_F _ Hpt) zf_value) as [Hrun Hval]. rewrite Hval.
    rewrite (bindM_Ret _ _ _ _ _ Hrun).
    destruct (found_member St flag PatchDefs.s_value cpt) as [[j m]|] eqn:Efm; cbn [fmap option_fmap option_map fst snd is_null].
    2:{ rewrite cleanup_none. by apply phase_goal_unchanged. }
    destruct (member_node h F pid dpt cpt _ _ _ _ (nodes_G_F _ Hpt) Efm) as [Hm _].
    destruct (PatchDefs.cJSON_Duplicate (reify St m)) as [v|] eqn:Edup; [|intros _ H8; done].
    destruct (phase_dup_finish m v Hm Edup) as [H _].
    destruct (PatchDefs.finish_add (reify St doc) v (cstr sp) flag) as [[st o]| |]; cbn [bind]; done.
  Qed.

  (** ** copy: "from" member, resolve, duplicate, insert *)
  Lemma from_member_cases fromn :
    CompareDefs.get_object_item (reify St pt) (Some PatchDefs.s_from) flag = Some fromn ->
    exists j m, found_member St flag PatchDefs.s_from cpt = Some (j, m) /\ fromn = (j, reify St m) /\ m ∈ nodes F.
  Proof.
    destruct (run_member h F I pid dpt cpt PatchDefs.s_from flag (nodes_G_F _ Hpt) zf_from) as [_ Hval]. rewrite Hval.
    destruct (found_member St flag PatchDefs.s_from cpt) as [[j m]|] eqn:Efm; [|done]. cbn. intros [= <-].
    exists j, m. split; [done|]. split; [done|]. exact (proj1 (member_node h F pid dpt cpt _ _ _ _ (nodes_G_F _ Hpt) Efm)).
  Qed.

  Lemma phase_copy fn dfn cfn (fb : positive) (sf : bytes) :
    T fn dfn cfn ∈ nodes F -> rd_vstr dfn = Some fb -> St !! fb = Some sf ->
    phase_goal h G doc
      ((value1 <~ (fv <~ get_vstr (Some fn) ;; get_item_from_pointer (Some (tid doc)) (cs_of_ptr fv) flag) ;;
        if is_null value1 then cleanup None None 5 else
        value2 <~ cJSON_Duplicate nofail value1 true ;;
        if is_null value2 then cleanup None None 6 else
        apply_patch_finish nofail (Some (tid doc)) (Some pn) value2 flag) h)
      (match (match PointerDefs.get_item_from_pointer (reify St doc) (cstr sf) flag with
              | Some fp => Tree.subtree (reify St doc) fp
              | None => None
              end) with
       | None => Ok (5, reify St doc)
       | Some v0 =>
           match PatchDefs.cJSON_Duplicate v0 with
           | None => Ok (6, reify St doc)
           | Some v => ' (st, o) <- PatchDefs.finish_add (reify St doc) v (cstr sp) flag ;; Ok (st, o)
           end
       end).
  Proof.
    intros Hfn Hfv Hfs. destruct (node_vstr h F I fn dfn cfn Hfn) as (Hgv & Hsome & _). rewrite Hfv in Hgv.
    destruct (Hsome fb Hfv) as (s' & Hfl & Hfs' & Hfz & _). assert (s' = sf) as -> by (unfold bytes in *; congruence).
    rewrite !bindM_assoc. rewrite (bindM_Ret _ _ _ _ _ Hgv). cbn [cs_of_ptr].
    rewrite (bindM_Ret _ _ _ _ _ (get_item_from_pointer_refines h F I doc (CAt fb 0) (cstr sf) flag doc_in_F (CsReads_block h fb sf Hfl Hfs Hfz))).
    destruct (PointerDefs.get_item_from_pointer (reify St doc) (cstr sf) flag) as [fp|] eqn:Egip; cbn [mbind option_bind].
    2:{ cbn [fmap option_fmap option_map is_null]. rewrite cleanup_none. by apply phase_goal_unchanged. }
    destruct (get_item_loop_subtree h flag _ _ _ _ Egip) as [n Hn]. rewrite Hn, reify_subtree, Hn. cbn [fmap option_fmap option_map is_null].
    assert (Hnn : n ∈ nodes F).
    { rewrite nodes_app. apply elem_of_app. right. unfold nodes. cbn. rewrite app_nil_r. by eapply subtree_t_nodes. }
    destruct (PatchDefs.cJSON_Duplicate (reify St n)) as [v|] eqn:Edup; [|intros H6 _; done].
    destruct (phase_dup_finish n v Hnn Edup) as [_ H].
    destruct (PatchDefs.finish_add (reify St doc) v (cstr sp) flag) as [[st o]| |]; cbn [bind]; done.
  Qed.

  (** ** move: detach the source, insert it *)
  Lemma phase_move (fb : positive) (sf : bytes) :
    fb ∈ h_live h -> St !! fb = Some sf -> existsb (Z.eqb 0) sf = true ->
    phase_goal h G doc
      ((v <~ detach_path nofail (Some (tid doc)) (Some fb) flag ;;
        if is_null v then cleanup None None 5 else
        if is_null v then cleanup None None 6 else
        apply_patch_finish nofail (Some (tid doc)) (Some pn) v flag) h)
      (dp <- PatchDefs.detach_path (reify St doc) (cstr sf) flag ;;
       match dp with
       | None => Ok (5, reify St doc)
       | Some (v, obj2) => ' (st, o) <- PatchDefs.finish_add obj2 v (cstr sp) flag ;; Ok (st, o)
       end).
  Proof.
    intros Hfl Hfs Hfz. destruct pb_facts as (Hpl & Hpz & Hpo).
    destruct (detach_path_refines h G doc fb sf flag I Hfl Hfs Hfz) as (h1 & r & F1 & Hrun & I1 & Es & NL1 & En & Hpost).
    rewrite (bindM_Ret _ _ _ _ _ Hrun).
    destruct (PatchDefs.detach_path (reify St doc) (cstr sf) flag) as [[[it doc2]|]| |]; cbn [bind detach_post] in *; [| |done|done].
    - destruct Hpost as (m & pp & p & d & cs & j & -> & Hsub & Hj & -> & Hit & Hdoc2). cbn [is_null].
      set (doc1 := put_t doc pp (T p d (delete j cs))) in *.
      assert (Ht1 : tid doc1 = tid doc) by (by eapply tid_put_t_sub).
      destruct m as [x dx csx]. cbn [tid].
      assert (Hps1 : h_str h1 !! pb = Some sp) by (by rewrite Es).
      assert (Hpl1 : pb ∈ h_live h1).
      { apply (wf_owned_live _ _ (mi_wf _ _ I1)). rewrite !owned_app. apply elem_of_app. left. apply elem_of_app. by left. }
      pose proof (finish_refines h1 G doc1 x dx csx pn dpn cpn pb sp flag I1 Hpn Hvs Hpl1 Hps1 Hpz) as Hfin.
      rewrite Es, Hit, Hdoc2, Ht1 in Hfin. apply finish_to_phase in Hfin.
      destruct (PatchDefs.finish_add doc2 it (cstr sp) flag) as [[st doc']| |]; [|done|done]. cbn [bind].
      destruct Hfin as (h' & docT & E & I' & Ht & Hre & K' & NL' & Hn'). intros _ _.
      exists h', docT. split; [done|]. split; [done|]. split; [congruence|]. split; [done|].
      split; [|split; [auto|lia]]. intros b Hb. rewrite (K' b Hb). by rewrite Es.
    - destruct Hpost as [-> ->]. cbn [is_null]. rewrite cleanup_none. intros _ _.
      exists h1, doc. split; [done|]. split; [done|]. split; [done|]. split; [by rewrite Es|].
      split; [intros b Hb; by rewrite Es|]. split; [done|lia].
  Qed.

  (** ** remove / replace: "Get rid of old." *)
  Lemma phase_rid (k : option Z) :
    match PatchDefs.detach_path (reify St doc) (cstr sp) flag with
    | Ok None =>
        exists h1, (old_item <~ detach_path nofail (Some (tid doc)) (Some pb) flag ;;
                    if is_null old_item then ret (Some 13) else cJSON_Delete old_item ;;; ret k) h = Ret (Some 13, h1) /\
          MInv h1 F /\ h_str h1 = St /\ (NoLeak h F -> NoLeak h1 F) /\ (h_next h <= h_next h1)%positive
    | Ok (Some (_, doc2)) =>
        exists h1 doc1, (old_item <~ detach_path nofail (Some (tid doc)) (Some pb) flag ;;
                         if is_null old_item then ret (Some 13) else cJSON_Delete old_item ;;; ret k) h = Ret (k, h1) /\
          MInv h1 (G ++ [doc1]) /\ tid doc1 = tid doc /\ reify (h_str h1) doc1 = doc2 /\ KeepO h h1 G /\
          (NoLeak h F -> NoLeak h1 (G ++ [doc1])) /\ (h_next h <= h_next h1)%positive
    | _ => False
    end.
  Proof.
    destruct pb_facts as (Hpl & Hpz & Hpo).
    destruct (detach_path_refines h G doc pb sp flag I Hpl Hps Hpz) as (h1 & r & F1 & Hrun & I1 & Es & NL1 & En & Hpost).
    destruct (PatchDefs.detach_path (reify St doc) (cstr sp) flag) as [[[it doc2]|]| |]; cbn [detach_post] in *; [| |done|done].
    - destruct Hpost as (m & pp & p & d & cs & j & -> & Hsub & Hj & -> & Hit & Hdoc2).
      set (doc1 := put_t doc pp (T p d (delete j cs))) in *.
      destruct (delete_last_NoLeak h1 (G ++ [doc1]) m I1) as (h2 & Hdel & I2 & NL2 & K2 & En2).
      exists h2, doc1. rewrite (bindM_Ret _ _ _ _ _ Hrun). cbn [is_null]. rewrite (bindM_Ret _ _ _ _ _ Hdel).
      split; [done|]. split; [done|]. split; [by eapply tid_put_t_sub|]. split; [|split; [|split; [auto|lia]]].
      + rewrite <- Hdoc2, <- Es. apply (reify_keep h1 h2 (G ++ [doc1]) doc1); [apply (mi_own _ _ I2)| |done].
        apply roots_in_nodes. apply elem_of_app. right. by left.
      + intros b Hb. rewrite (K2 b); [by rewrite Es|]. rewrite owned_app. apply elem_of_app. by left.
    - destruct Hpost as [-> ->]. exists h1. rewrite (bindM_Ret _ _ _ _ _ Hrun). cbn [is_null].
      split; [done|]. split; [done|]. split; [done|]. split; [done|lia].
  Qed.
End Phases.

(** * reading a byte of a C string held in a block *)
Lemma cstr_lookup (l : list Z) : forall k : nat, existsb (Z.eqb 0) l = true -> (k <= length (cstr l))%nat ->
  l !! k = Some (hd 0 (drop k (cstr l))).
Proof.
  induction l as [|c r IH]; intros k Hz Hk; [done|]. cbn [cstr existsb] in *.
  destruct (Z.eqb_spec c 0) as [->|Hc].
  - cbn in Hk. assert (k = 0%nat) as -> by lia. done.
  - destruct (Z.eqb_spec 0 c) as [|_]; [congruence|]. cbn [orb] in Hz. destruct k as [|k]; [done|].
    cbn [lookup list_lookup drop]. apply IH; [done|cbn in Hk; lia].
Qed.
Lemma run_ld_byte_k h (b : positive) (s : bytes) (k : nat) :
  b ∈ h_live h -> h_str h !! b = Some s -> existsb (Z.eqb 0) s = true -> (k <= length (cstr s))%nat ->
  ld_byte (CAt b 0) k h = Ret (hd 0 (drop k (cstr s)), h).
Proof.
  intros Hl Hs Hz Hk. unfold ld_byte. stp (run_ld_str h b s Hl Hs). cbn [Nat.add]. unfold bytes in *.
  by rewrite (cstr_lookup s k Hz Hk).
Qed.
Lemma bytes_eqb_firstn_length (a b : bytes) : bytes_eqb (firstn (length a) b) a = true -> (length a <= length b)%nat.
Proof. intros H. apply bytes_eqb_eq in H. rewrite <- H at 1. rewrite firstn_length. lia. Qed.
Lemma hd_is_nil (l : bytes) : SortSpec.zfree l -> (hd 0 l =? 0) = PatchDefs.is_nil l.
Proof. destruct l as [|c r]; [done|]. intros H. apply Forall_inv in H. cbn. by destruct (Z.eqb_spec c 0). Qed.

Lemma root_remove_step' h G doc :
  MInv h (G ++ [doc]) ->
  exists h', patch_root_remove (Some (tid doc)) h = Ret (tt, h') /\ MInv h' (G ++ [T (tid doc) rd_invalid []]) /\
    (NoLeak h (G ++ [doc]) -> NoLeak h' (G ++ [T (tid doc) rd_invalid []])) /\ KeepO h h' G /\ h_next h' = h_next h.
Proof. destruct doc as [r dr csr]. apply root_remove_step. Qed.
Lemma root_overwrite_step' h G doc x dx csx :
  MInv h ((G ++ [doc]) ++ [T x dx csx]) ->
  exists h', patch_root_overwrite (Some (tid doc)) (Some x) h = Ret (tt, h') /\ MInv h' (G ++ [T (tid doc) (rd_unnamed dx) csx]) /\
    (NoLeak h ((G ++ [doc]) ++ [T x dx csx]) -> NoLeak h' (G ++ [T (tid doc) (rd_unnamed dx) csx])) /\
    KeepO h h' G /\ h_next h' = h_next h /\
    reify (h_str h') (T (tid doc) (rd_unnamed dx) csx) = PatchDefs.unnamed (reify (h_str h) (T x dx csx)).
Proof. destruct doc as [r dr csr]. apply root_overwrite_step. Qed.

(** * the operations remove, add, replace, copy, move *)
Section Apply.
  Context (h : heap) (G : forest) (doc : tree) (pid : positive) (dpt : rdata) (cpt : list tree) (flag : bool).
  Notation F := (G ++ [doc]).
  Notation St := (h_str h).
  Notation pt := (T pid dpt cpt).
  Hypothesis I : MInv h F.
  Hypothesis Hpt : pt ∈ nodes G.

  Definition apply_post (o : out (Z * heap)) (vres : Base.res (Z * Tree.node * Tree.node)%type) : Prop :=
    match vres with
    | Ok (st, doc', pt') =>
        st <> 6 -> st <> 8 ->
        exists h' docT,
          o = Ret (st, h') /\ MInv h' (G ++ [docT]) /\ tid docT = tid doc /\ reify (h_str h') docT = doc' /\
          pt' = reify St pt /\ KeepO h h' G /\ (NoLeak h F -> NoLeak h' (G ++ [docT])) /\ (h_next h <= h_next h')%positive
    | _ => True
    end.

  Lemma apply_post_of_phase o (vres : Base.res (Z * Tree.node)%type) :
    phase_goal h G doc o vres -> apply_post o (' (st, d) <- vres ;; Ok (st, d, reify St pt)).
  Proof.
    destruct vres as [[st doc']| |]; cbn; [|done|done]. intros H H6 H8. destruct (H H6 H8) as (h' & docT & E & H').
    exists h', docT. split; [done|]. destruct H' as (A & B & C & D & E' & F'). done.
  Qed.

  Lemma apply_post_unchanged st : apply_post (Ret (st, h)) (Ok (st, reify St doc, reify St pt)).
  Proof. apply (apply_post_of_phase _ (Ok (st, reify St doc))). by apply phase_goal_unchanged. Qed.

  Theorem apply_patch_refines :
    PatchDefs.decode_patch_operation (reify St pt) flag <> Ok PatchDefs.TEST ->
    apply_post (apply_patch nofail (Some (tid doc)) (Some pid) flag h) (PatchDefs.apply_patch (reify St doc) (reify St pt) flag).
  Proof.
    intros Hnt. pose proof (nodes_G_F G doc _ Hpt) as HptF.
    unfold apply_patch, PatchDefs.apply_patch.
    destruct (run_member h F I pid dpt cpt PatchDefs.s_path flag HptF zf_path) as [Hrun Hval]. rewrite Hval. stp Hrun.
    destruct (found_member St flag PatchDefs.s_path cpt) as [[j pathn]|] eqn:Efm; cbn [fmap option_fmap option_map fst snd].
    2:{ unfold cJSON_IsString. cbn [is_null]. rewrite bindM_ret. cbn [negb]. rewrite cleanup_none. apply apply_post_unchanged. }
    destruct pathn as [pn dpn cpn]. cbn [tid].
    assert (HpnG : T pn dpn cpn ∈ nodes G).
    { eapply TierBridgeForest.child_in_nodes; [exact Hpt|]. eapply elem_of_list_lookup_2. exact (found_member_lookup _ _ _ _ _ _ Efm). }
    pose proof (nodes_G_F G doc _ HpnG) as HpnF.
    stp (run_is_string h F I pn dpn cpn HpnF).
    destruct (Tree.is_string (reify St (T pn dpn cpn))); cbn [negb]; [|rewrite cleanup_none; apply apply_post_unchanged].
    destruct (PatchDefs.decode_patch_operation (reify St pt) flag) as [opc| |] eqn:Edec; cbn [bind]; [|done|done].
    stp (run_decode h F I pid dpt cpt flag opc HptF Edec).
    destruct (node_vstr h F I pn dpn cpn HpnF) as (Hgv & Hsome & Hnone).
    assert (Hmain : opc <> PatchDefs.INVALID -> opc <> PatchDefs.TEST ->
      forall K vK,
      (forall pb (sp : bytes), rd_vstr dpn = Some pb -> St !! pb = Some sp -> pb ∈ h_live h -> existsb (Z.eqb 0) sp = true ->
         Tree.n_vstr (reify St (T pn dpn cpn)) = Some (cstr sp) -> apply_post (K h) (vK (cstr sp))) ->
      apply_post (K h) (match Tree.n_vstr (reify St (T pn dpn cpn)) with None => OOB | Some pstr => vK pstr end)).
    { intros _ _ K vK HK. destruct (rd_vstr dpn) as [pb|] eqn:Evs.
      - destruct (Hsome pb eq_refl) as (sp & Hl & Hs & Hz & Hv). rewrite Hv. by apply (HK pb sp).
      - by rewrite (Hnone eq_refl). }
    destruct opc; try (rewrite cleanup_none; apply apply_post_unchanged); try (by exfalso; apply Hnt);
      (apply Hmain; [done|done|]); intros pb sp Hvs Hps Hpl Hpz Hv;
      stp Hgv; rewrite Hvs; cbn [cs_of_ptr];
      stp (run_ld_byte0 _ _ _ (CsReads_block h pb sp Hpl Hps Hpz));
      rewrite (hd_is_nil _ (SortSpec.cstr_zfree sp)); cbn [andb orb].
    - (* ADD *)
      destruct (PatchDefs.is_nil (cstr sp)) eqn:Enil; cbn [andb orb].
      + (* the root *)
        destruct (run_member h F I pid dpt cpt PatchDefs.s_value flag HptF zf_value) as [Hrunv Hvalv]. rewrite Hvalv. stp Hrunv.
        destruct (found_member St flag PatchDefs.s_value cpt) as [[jv m]|] eqn:Efv; cbn [fmap option_fmap option_map fst snd is_null];
          [|rewrite cleanup_none; apply apply_post_unchanged].
        destruct (member_node h F pid dpt cpt _ _ _ _ HptF Efv) as [Hm _].
        destruct (PatchDefs.cJSON_Duplicate (reify St m)) as [v|] eqn:Edup; [|intros _ H8; done].
        destruct (step_dup h F (tid m) m I (node_find h F I m Hm) (dup_height _ _ _ Edup)) as (tc & h1 & Hrund & I1 & NL1 & K1 & Hdv).
        rewrite mp_dup_rec_eq in Hdv. unfold PatchDefs.cJSON_Duplicate in Edup. rewrite Edup in Hdv. injection Hdv as ->.
        destruct tc as [x dx csx]. cbn [tid].
        stp Hrund. cbn [is_null].
        destruct (root_overwrite_step' h1 G doc x dx csx I1) as (h2 & Hrun2 & I2 & NL2 & K2 & En2 & Hre2).
        stp Hrun2. rewrite cleanup_none. intros _ _. exists h2, (T (tid doc) (rd_unnamed dx) csx).
        split; [done|]. split; [done|]. split; [done|]. split; [done|]. split; [done|].
        split; [eapply KeepO_trans; [exact (KeepO_app_l _ _ _ _ K1)|exact K2]|]. split; [auto|].
        pose proof (cp_next _ _ (Cons_cJSON_Duplicate nofail _ _ _ _ _ Hrund (mi_ok _ _ I))). lia.
      + rewrite bindM_ret. cbn [bind].
        pose proof (phase_value h G doc pid dpt cpt pn dpn cpn pb sp flag I Hpt HpnG Hvs Hps) as Hph.
        apply apply_post_of_phase in Hph.
        destruct (CompareDefs.get_object_item (reify St pt) (Some PatchDefs.s_value) flag) as [[jv v0]|]; [|exact Hph].
        destruct (PatchDefs.cJSON_Duplicate v0) as [v|]; [|exact Hph].
        destruct (PatchDefs.finish_add (reify St doc) v (cstr sp) flag) as [[st o]| |]; exact Hph.
    - (* REMOVE *)
      destruct (PatchDefs.is_nil (cstr sp)) eqn:Enil; cbn [andb orb].
      + destruct (root_remove_step' h G doc I) as (h1 & Hrun1 & I1 & NL1 & K1 & En1).
        stp Hrun1. rewrite cleanup_none. intros _ _. exists h1, (T (tid doc) rd_invalid []).
        split; [done|]. split; [done|]. split; [done|]. split; [done|]. split; [done|]. split; [done|]. split; [done|lia].
      + rewrite bindM_assoc. rewrite (bindM_Ret _ _ _ _ _ Hgv). rewrite Hvs.
        pose proof (phase_rid h G doc pn dpn cpn pb sp flag I HpnG Hvs Hps (Some 0)) as Hrid.
        destruct (PatchDefs.detach_path (reify St doc) (cstr sp) flag) as [[[it doc2]|]| |]; cbn [bind]; [| |done|done].
        * destruct Hrid as (h1 & doc1 & Hrun1 & I1 & Ht1 & Hre1 & K1 & NL1 & En1). rewrite (bindM_Ret _ _ _ _ _ Hrun1). rewrite cleanup_none. intros _ _.
          exists h1, doc1. split; [done|]. split; [done|]. split; [done|]. split; [done|]. split; [done|]. split; [done|]. split; [done|lia].
        * destruct Hrid as (h1 & Hrun1 & I1 & Es1 & NL1 & En1). rewrite (bindM_Ret _ _ _ _ _ Hrun1). rewrite cleanup_none. intros _ _.
          exists h1, doc. split; [done|]. split; [done|]. split; [done|]. split; [by rewrite Es1|]. split; [done|].
          split; [intros b Hb; by rewrite Es1|]. split; [done|lia].
    - (* REPLACE *)
      destruct (PatchDefs.is_nil (cstr sp)) eqn:Enil; cbn [andb orb].
      + destruct (run_member h F I pid dpt cpt PatchDefs.s_value flag HptF zf_value) as [Hrunv Hvalv]. rewrite Hvalv. stp Hrunv.
        destruct (found_member St flag PatchDefs.s_value cpt) as [[jv m]|] eqn:Efv; cbn [fmap option_fmap option_map fst snd is_null];
          [|rewrite cleanup_none; apply apply_post_unchanged].
        destruct (member_node h F pid dpt cpt _ _ _ _ HptF Efv) as [Hm _].
        destruct (PatchDefs.cJSON_Duplicate (reify St m)) as [v|] eqn:Edup; [|intros _ H8; done].
        destruct (step_dup h F (tid m) m I (node_find h F I m Hm) (dup_height _ _ _ Edup)) as (tc & h1 & Hrund & I1 & NL1 & K1 & Hdv).
        rewrite mp_dup_rec_eq in Hdv. unfold PatchDefs.cJSON_Duplicate in Edup. rewrite Edup in Hdv. injection Hdv as ->.
        destruct tc as [x dx csx]. cbn [tid].
        stp Hrund. cbn [is_null].
        destruct (root_overwrite_step' h1 G doc x dx csx I1) as (h2 & Hrun2 & I2 & NL2 & K2 & En2 & Hre2).
        stp Hrun2. rewrite cleanup_none. intros _ _. exists h2, (T (tid doc) (rd_unnamed dx) csx).
        split; [done|]. split; [done|]. split; [done|]. split; [done|]. split; [done|].
        split; [eapply KeepO_trans; [exact (KeepO_app_l _ _ _ _ K1)|exact K2]|]. split; [auto|].
        pose proof (cp_next _ _ (Cons_cJSON_Duplicate nofail _ _ _ _ _ Hrund (mi_ok _ _ I))). lia.
      + rewrite bindM_assoc. rewrite (bindM_Ret _ _ _ _ _ Hgv). rewrite Hvs.
        pose proof (phase_rid h G doc pn dpn cpn pb sp flag I HpnG Hvs Hps None) as Hrid.
        destruct (PatchDefs.detach_path (reify St doc) (cstr sp) flag) as [[[it doc2]|]| |]; cbn [bind]; [| |done|done].
        * destruct Hrid as (h1 & doc1 & Hrun1 & I1 & Ht1 & Hre1 & K1 & NL1 & En1). rewrite (bindM_Ret _ _ _ _ _ Hrun1).
          assert (Hps1 : h_str h1 !! pb = Some sp).
          { rewrite (K1 pb); [done|]. exact (proj2 (proj2 (pb_facts h G doc pn dpn cpn pb sp I HpnG Hvs Hps))). }
          assert (HreP : reify (h_str h1) pt = reify St pt).
          { apply (reify_keep h h1 G pt); [|done|done]. intros e He. apply (mi_own _ _ I). apply datas_elem_app. by left. }
          pose proof (phase_value h1 G doc1 pid dpt cpt pn dpn cpn pb sp flag I1 Hpt HpnG Hvs Hps1) as Hph.
          rewrite HreP, Hre1, Ht1 in Hph.
          apply (phase_goal_step h h1 G doc doc1 _ _ Ht1 K1 NL1 En1) in Hph. apply apply_post_of_phase in Hph.
          destruct (CompareDefs.get_object_item (reify St pt) (Some PatchDefs.s_value) flag) as [[jv v0]|]; [|exact Hph].
          destruct (PatchDefs.cJSON_Duplicate v0) as [v|]; [|exact Hph].
          destruct (PatchDefs.finish_add doc2 v (cstr sp) flag) as [[st o]| |]; exact Hph.
        * destruct Hrid as (h1 & Hrun1 & I1 & Es1 & NL1 & En1). rewrite (bindM_Ret _ _ _ _ _ Hrun1). rewrite cleanup_none. intros _ _.
          exists h1, doc. split; [done|]. split; [done|]. split; [done|]. split; [by rewrite Es1|]. split; [done|].
          split; [intros b Hb; by rewrite Es1|]. split; [done|lia].
    - (* MOVE *)
      rewrite !andb_false_r. cbn [orb bind]. rewrite bindM_ret.
      destruct (run_member h F I pid dpt cpt PatchDefs.s_from flag HptF zf_from) as [Hrunf Hvalf]. rewrite Hvalf. stp Hrunf.
      destruct (found_member St flag PatchDefs.s_from cpt) as [[jf fromn]|] eqn:Eff; cbn [fmap option_fmap option_map fst snd].
      2:{ unfold cJSON_IsString. cbn [is_null]. rewrite bindM_ret. cbn [negb]. rewrite cleanup_none. apply apply_post_unchanged. }
      destruct fromn as [fn dfn cfn]. cbn [tid].
      destruct (member_node h F pid dpt cpt _ _ _ _ HptF Eff) as [HfnF _].
      stp (run_is_string h F I fn dfn cfn HfnF).
      destruct (Tree.is_string (reify St (T fn dfn cfn))); cbn [negb]; [|rewrite cleanup_none; apply apply_post_unchanged].
      destruct (node_vstr h F I fn dfn cfn HfnF) as (Hgf & Hsomef & Hnonef).
      destruct (rd_vstr dfn) as [fb|] eqn:Efv; [|by rewrite (Hnonef eq_refl)].
      destruct (Hsomef fb eq_refl) as (sf & Hfl & Hfs & Hfz & Hfv). rewrite Hfv.
      rewrite !bindM_assoc. stp Hgf. stp (run_ld_cstr _ _ _ Hfl Hfs Hfz). stp Hgf. stp Hgv. rewrite Hvs.
      stp (run_ld_cstr _ _ _ Hfl Hfs Hfz). stp (run_ld_cstr _ _ _ Hpl Hps Hpz).
      destruct (bytes_eqb (firstn (length (cstr sf)) (cstr sp)) (cstr sf)) eqn:Epre; cbn [andb].
      + stp Hgv. rewrite Hvs. cbn [cs_of_ptr].
        stp (run_ld_byte_k h pb sp (length (cstr sf)) Hpl Hps Hpz (bytes_eqb_firstn_length _ _ Epre)). rewrite bindM_ret.
        change (skipn (length (cstr sf)) (cstr sp)) with (drop (length (cstr sf)) (cstr sp)).
        destruct (hd 0 (drop (length (cstr sf)) (cstr sp)) =? 47).
        * rewrite bindM_ret. rewrite cleanup_none. apply apply_post_unchanged.
        * rewrite !bindM_assoc. stp Hgf. rewrite !bindM_assoc.
          pose proof (phase_move h G doc pn dpn cpn pb sp flag I HpnG Hvs Hps fb sf Hfl Hfs Hfz) as Hph.
          apply apply_post_of_phase in Hph.
          assert (Eshape : forall g,
            (a <~ detach_path nofail (Some (tid doc)) (Some fb) flag ;;
             r1 <~ ret (Some a) ;;
             match r1 with
             | Some value0 =>
                 value1 <~ (if false then fv <~ get_vstr (Some fn) ;; get_item_from_pointer (Some (tid doc)) (cs_of_ptr fv) flag else ret value0) ;;
                 (if is_null value1 then cleanup None None 5
                  else value2 <~ (if false then cJSON_Duplicate nofail value1 true else ret value1) ;;
                       (if is_null value2 then cleanup None None 6 else apply_patch_finish nofail (Some (tid doc)) (Some pn) value2 flag))
             | None => cleanup None None 9
             end) g =
            (v <~ detach_path nofail (Some (tid doc)) (Some fb) flag ;;
             if is_null v then cleanup None None 5 else if is_null v then cleanup None None 6
             else apply_patch_finish nofail (Some (tid doc)) (Some pn) v flag) g).
          { intros g. apply bindM_ext; [done|]. intros a g'. rewrite !bindM_ret. destruct a; cbn [is_null]; rewrite ?bindM_ret; reflexivity. }
          rewrite Eshape.
          destruct (PatchDefs.detach_path (reify St doc) (cstr sf) flag) as [[[v obj2]|]| |]; cbn [bind] in *; [|exact Hph|done|done].
          destruct (PatchDefs.finish_add obj2 v (cstr sp) flag) as [[st o]| |]; exact Hph.
      + rewrite !bindM_assoc, bindM_ret. cbv beta iota. rewrite !bindM_assoc. stp Hgf. rewrite !bindM_assoc.
        pose proof (phase_move h G doc pn dpn cpn pb sp flag I HpnG Hvs Hps fb sf Hfl Hfs Hfz) as Hph.
        apply apply_post_of_phase in Hph.
        assert (Eshape : forall g,
          (a <~ detach_path nofail (Some (tid doc)) (Some fb) flag ;;
           r1 <~ ret (Some a) ;;
           match r1 with
           | Some value0 =>
               value1 <~ (if false then fv <~ get_vstr (Some fn) ;; get_item_from_pointer (Some (tid doc)) (cs_of_ptr fv) flag else ret value0) ;;
               (if is_null value1 then cleanup None None 5
                else value2 <~ (if false then cJSON_Duplicate nofail value1 true else ret value1) ;;
                     (if is_null value2 then cleanup None None 6 else apply_patch_finish nofail (Some (tid doc)) (Some pn) value2 flag))
           | None => cleanup None None 9
           end) g =
          (v <~ detach_path nofail (Some (tid doc)) (Some fb) flag ;;
           if is_null v then cleanup None None 5 else if is_null v then cleanup None None 6
           else apply_patch_finish nofail (Some (tid doc)) (Some pn) v flag) g).
        { intros g. apply bindM_ext; [done|]. intros a g'. rewrite !bindM_ret. destruct a; cbn [is_null]; rewrite ?bindM_ret; reflexivity. }
        rewrite Eshape.
        destruct (PatchDefs.detach_path (reify St doc) (cstr sf) flag) as [[[v obj2]|]| |]; cbn [bind] in *; [|exact Hph|done|done].
        destruct (PatchDefs.finish_add obj2 v (cstr sp) flag) as [[st o]| |]; exact Hph.
    - (* COPY *)
      rewrite !andb_false_r. cbn [orb bind]. rewrite bindM_ret.
      destruct (run_member h F I pid dpt cpt PatchDefs.s_from flag HptF zf_from) as [Hrunf Hvalf]. rewrite Hvalf. stp Hrunf.
      destruct (found_member St flag PatchDefs.s_from cpt) as [[jf fromn]|] eqn:Eff; cbn [fmap option_fmap option_map fst snd].
      2:{ unfold cJSON_IsString. cbn [is_null]. rewrite bindM_ret. cbn [negb]. rewrite cleanup_none. apply apply_post_unchanged. }
      destruct fromn as [fn dfn cfn]. cbn [tid].
      destruct (member_node h F pid dpt cpt _ _ _ _ HptF Eff) as [HfnF _].
      stp (run_is_string h F I fn dfn cfn HfnF).
      destruct (Tree.is_string (reify St (T fn dfn cfn))); cbn [negb]; [|rewrite cleanup_none; apply apply_post_unchanged].
      rewrite bindM_ret.
      destruct (node_vstr h F I fn dfn cfn HfnF) as (Hgf & Hsomef & Hnonef).
      destruct (rd_vstr dfn) as [fb|] eqn:Efv.
      + destruct (Hsomef fb eq_refl) as (sf & Hfl & Hfs & Hfz & Hfv). rewrite Hfv.
        pose proof (phase_copy h G doc pn dpn cpn pb sp flag I HpnG Hvs Hps fn dfn cfn fb sf HfnF Efv Hfs) as Hph.
        apply apply_post_of_phase in Hph.
        destruct (PointerDefs.get_item_from_pointer (reify St doc) (cstr sf) flag) as [fp|]; [|exact Hph].
        destruct (Tree.subtree (reify St doc) fp) as [v0|]; [|exact Hph].
        destruct (PatchDefs.cJSON_Duplicate v0) as [v|]; [|exact Hph].
        destruct (PatchDefs.finish_add (reify St doc) v (cstr sp) flag) as [[st o]| |]; exact Hph.
      + (* a String node without string: the value-level model reads it as "no source" (status 5); the C code
           hands NULL to get_item_from_pointer, which returns NULL *)
        rewrite (Hnonef eq_refl). rewrite !bindM_assoc. stp Hgf. cbn [cs_of_ptr].
        unfold get_item_from_pointer at 1. cbn [cs_is_null]. rewrite bindM_ret. cbn [is_null]. rewrite cleanup_none.
        apply apply_post_unchanged.
  Qed.
End Apply.
