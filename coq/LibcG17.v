(** LibcG17.v — clause N3 of [RoundTripNum.LibcRoundTripSpec] ("17 significant digits identify a
    double") PROVED for the reference C library of LibcNum.v / LibcPrint.v, for ALL doubles:

      strtod_ref (fmt_g17 d) = Some (d, length (fmt_g17 d))     for every finite well-formed d,

    signed zeros included ("-0" reads back as S754_zero true).  Assembly of
      LibcG17Shape.fmt_g_finite      fmt_g = sign ++ layout of (g_D, g_X)
      LibcG17Arith.g17_arith         the arithmetic of fmt_g: 10^16 <= D < 10^17 and
                                     |D * 10^(X'-16) - v| < v * 2^-54
      LibcG17Text.g17_text_strtod    strtod_ref consumes the whole text (%f and %e layouts,
                                     stripped zeros) and converts M * 10^x = D * 10^(X'-16)
      LibcG17Round.dec_to_dbl_exact_near   that conversion returns the double nearest to the
                                     decimal (Flocq: binary_normalize, Bdiv_correct_aux)
      LibcG17Math.round_near         a real within v * 2^-54 of a binary64 value v rounds to v.
    The proofs use Flocq, hence the axioms of Coq's Reals library (Print Assumptions). *)
From Coq Require Import ZArith Reals List Bool Lia Lra Floats.SpecFloat.
From Flocq Require Import Core.Core.
From CJ Require Import Base Dbl LibcNum LibcPrint PrintStrictRef RoundTripNum RoundTripModel
  LibcG17Defs LibcG17Shape LibcG17R LibcG17Math LibcG17Round LibcG17Arith LibcG17Text.
Import ListNotations.
Local Open Scope Z_scope.

(** a mantissa M with M * 10^j a 17-digit number has 17 - j digits *)
Lemma ndigits_of_scaled M j : 0 <= j <= 16 -> 10 ^ 16 <= M * 10 ^ j < 10 ^ 17 ->
  0 < M /\ ndigits 2000 M = 17 - j.
Proof.
  intros Hj HD.
  assert (Hp : 0 < 10 ^ j) by (apply Z.pow_pos_nonneg; lia).
  assert (HM : 0 < M) by nia.
  split; [exact HM|].
  assert (Hlt : M < 10 ^ (17 - j)).
  { assert (M * 10 ^ j < 10 ^ (17 - j) * 10 ^ j) by (rewrite <- Z.pow_add_r by lia; replace (17 - j + j) with 17 by lia; lia). nia. }
  assert (Hge : 10 ^ (16 - j) <= M).
  { assert (10 ^ (16 - j) * 10 ^ j <= M * 10 ^ j) by (rewrite <- Z.pow_add_r by lia; replace (16 - j + j) with 16 by lia; lia). nia. }
  assert (Hf : M < 10 ^ Z.of_nat 2000).
  { eapply Z.lt_le_trans; [exact Hlt|]. apply Z.pow_le_mono_r; lia. }
  destruct (ndigits_spec 2000 M HM Hf) as [Hk [Hlo Hhi]].
  set (k := ndigits 2000 M) in *.
  destruct (Z.lt_trichotomy k (17 - j)) as [Hc|[Hc|Hc]]; [|exact Hc|].
  - assert (10 ^ k <= 10 ^ (16 - j)) by (apply Z.pow_le_mono_r; lia). lia.
  - assert (10 ^ (17 - j) <= 10 ^ (k - 1)) by (apply Z.pow_le_mono_r; lia). lia.
Qed.

(** N3 for the reference library, with the consumed length *)
Theorem g17_roundtrip_ref_len d : is_finite d = true -> dbl_ok d ->
  strtod_ref (fmt_g17 d) = Some (d, length (fmt_g17 d)).
Proof.
  intros Hf Hv. destruct d as [s|s| |s m e]; try discriminate.
  - destruct s; reflexivity.
  - unfold dbl_ok in Hv. cbn [valid_binary] in Hv.
    unfold fmt_g17. rewrite fmt_g_finite.
    destruct (g17_arith m e Hv) as [HD [HX Hn]].
    destruct (g17_text_strtod s (g_D 17 m e) (g_X 17 m e) HD ltac:(lia)) as [M [j [Hj [HMD ->]]]].
    f_equal. f_equal.
    rewrite <- HMD in HD.
    destruct (ndigits_of_scaled M j Hj HD) as [HM Hnd].
    apply dec_to_dbl_exact_near; [exact HM|rewrite Hnd; lia|exact Hv|].
    replace (IZR M * bpow r10 (g_X 17 m e - 16 + j))%R
      with (IZR (g_D 17 m e) * bpow r10 (g_X 17 m e - 16))%R; [exact Hn|].
    rewrite <- HMD, mult_IZR, IZR_pow10 by lia.
    replace (g_X 17 m e - 16 + j) with (j + (g_X 17 m e - 16)) by lia.
    rewrite (bpow_plus r10 j). ring.
Qed.

(** clause N3 ([lr_g17]) of the contract, for the reference instance *)
Theorem g17_roundtrip_ref d : is_finite d = true -> dbl_ok d ->
  exists k, strtod_ref (fmt_g17 d) = Some (d, k).
Proof. intros Hf Hv. eexists. exact (g17_roundtrip_ref_len d Hf Hv). Qed.

(** sscanf "%lg" reads back what "%1.17g" printed *)
Theorem g17_sscanf_ref d : is_finite d = true -> dbl_ok d -> sscanf_lg (fmt_g17 d) = Some d.
Proof. intros Hf Hv. unfold sscanf_lg. rewrite (g17_roundtrip_ref_len d Hf Hv). reflexivity. Qed.

(** the signed zeros explicitly *)
Theorem g17_roundtrip_ref_zeros :
  strtod_ref (fmt_g17 (S754_zero true)) = Some (S754_zero true, 2%nat) /\
  strtod_ref (fmt_g17 (S754_zero false)) = Some (S754_zero false, 1%nat).
Proof. split; reflexivity. Qed.

(** non-vacuity: the hypotheses hold at the extremes of the format, and the texts are the
    familiar ones — DBL_MAX (the decimal 1.7976931348623157e+308 EXCEEDS DBL_MAX and must not
    read back as infinity), the smallest subnormal, and 0.1 *)
Definition g17_ex_min : dbl := S754_finite true 1 (-1074).
Definition g17_ex_tenth : dbl := S754_finite false 7205759403792794 (-56).
Theorem g17_roundtrip_ref_nonvacuous :
  (is_finite DBL_MAX = true /\ dbl_ok DBL_MAX /\
   fmt_g17 DBL_MAX = [49;46;55;57;55;54;57;51;49;51;52;56;54;50;51;49;53;55;101;43;51;48;56]) /\
  (is_finite g17_ex_min = true /\ dbl_ok g17_ex_min /\
   fmt_g17 g17_ex_min = [45;52;46;57;52;48;54;53;54;52;53;56;52;49;50;52;54;53;52;101;45;51;50;52]) /\
  (is_finite g17_ex_tenth = true /\ dbl_ok g17_ex_tenth /\
   fmt_g17 g17_ex_tenth = [48;46;49;48;48;48;48;48;48;48;48;48;48;48;48;48;48;48;49]).
Proof. repeat split; vm_compute; reflexivity. Qed.

Print Assumptions g17_roundtrip_ref_len.
