(** Properties_C05.v — property C05: printed text is strict JSON and all print variants agree.
    Only statements closed by [exact]; proofs live in PrintStrict.v, PrintStrictWs.v,
    PrintStrictInt.v, PrintStrictUtf8.v, PrintStrictVariants.v, PrintStrictRef.v (this property) and PrintProofs.v (the buffer-level refinement, printer).

    The C library conversions called by print_number (sprintf %d / %1.15g / %1.17g, sscanf %lg)
    are external code: every theorem is stated for EVERY libc satisfying the contract record
    [LibcStrictSpec] (7 named clauses: the three conversions produce RFC 8259 number tokens that
    fit print_number's 26-byte scratch buffer; %d prints an optional minus and digits only).
    [render] is the text the buffer-level printer is proved to produce (C05_variants below). *)
From CJ Require Import Base Dbl Tree Grammar PrintDefs PrintLemmas LibcPrint PrintStrict PrintStrictWs PrintStrictInt PrintStrictUtf8 PrintStrictRef PrintStrictVariants.
Local Open Scope Z_scope.

(** ------------------------------------------------------------------ 1. strict JSON *)

(** For every printable tree (masked types NULL/False/True/Number/String/Array/Object; valueint of
    numbers a C int; string and name bytes in 0..255), formatted or not, at any print depth: the
    renderer succeeds and its text is ONE RFC 8259 value, nesting containers exactly as deep as the
    tree, that denotes [val_of n]: numbers by their printed literal, NaN and infinities as null,
    strings and member names as their C strings (NULL as empty), members in order with duplicates. *)
Theorem C05_strict_value :
  forall fmt_d fmt_g15 fmt_g17 sscanf_lg, LibcStrictSpec fmt_d fmt_g15 fmt_g17 ->
  forall n, printable n = true -> forall fmt depth d, (cdepth n <= d)%nat ->
  exists txt, render fmt_d fmt_g15 fmt_g17 sscanf_lg fmt depth n = Some txt /\
              RFC_value d txt (val_of fmt_d fmt_g15 fmt_g17 sscanf_lg n).
Proof. exact render_rfc_value. Qed.
Print Assumptions C05_strict_value.

(** text level (what cJSON_Print / cJSON_PrintUnformatted emit): an RFC 8259 JSON text within the
    nesting limit of the header *)
Theorem C05_strict :
  forall fmt_d fmt_g15 fmt_g17 sscanf_lg, LibcStrictSpec fmt_d fmt_g15 fmt_g17 ->
  forall n fmt, printable n = true -> (cdepth n <= nesting_limit)%nat ->
  exists txt, render fmt_d fmt_g15 fmt_g17 sscanf_lg fmt 0 n = Some txt /\
              RFC_text txt (val_of fmt_d fmt_g15 fmt_g17 sscanf_lg n).
Proof. exact render_rfc_text. Qed.
Print Assumptions C05_strict.

(** string literals, for every byte string (control bytes escaped as \b \f \n \r \t or \u00xx with
    lower-case hex digits, quote and backslash escaped, everything from 0x20 up raw): the body
    between the quotes denotes exactly the string *)
Theorem C05_string_body : forall s, forallb is_byte s = true -> chars rfc_raw (escape_body s) s.
Proof. exact escape_body_chars. Qed.
Print Assumptions C05_string_body.

(** the denoted value satisfies the side conditions of the parser theorems (literals <= 63 bytes,
    no decoded zero byte) — the bridge to C04 *)
Theorem C05_value_ok :
  forall fmt_d fmt_g15 fmt_g17 sscanf_lg, LibcStrictSpec fmt_d fmt_g15 fmt_g17 ->
  forall n, printable n = true -> jv_ok (val_of fmt_d fmt_g15 fmt_g17 sscanf_lg n).
Proof. exact val_of_jv_ok. Qed.
Print Assumptions C05_value_ok.

(** RFC 8259 section 8.1 (the text is UTF-8): if every string and member name the printer reaches is
    well-formed UTF-8 ([utf8_valid]: the table of RFC 3629 section 4 as a boolean function), so is
    the printed text — the printer only replaces ASCII bytes by ASCII sequences *)
Theorem C05_strict_utf8 :
  forall fmt_d fmt_g15 fmt_g17 sscanf_lg, LibcStrictSpec fmt_d fmt_g15 fmt_g17 ->
  forall n, printable n = true -> strings_utf8 n = true ->
  forall fmt depth txt, render fmt_d fmt_g15 fmt_g17 sscanf_lg fmt depth n = Some txt -> utf8_valid txt = true.
Proof. exact render_utf8. Qed.
Print Assumptions C05_strict_utf8.

Theorem C05_string_body_utf8 : forall s, utf8_valid s = true -> utf8_valid (escape_body s) = true.
Proof. exact escape_body_utf8. Qed.
Print Assumptions C05_string_body_utf8.

(** ------------------------------------------------------------------ 2. formatting is whitespace only *)

(** removing the bytes 20 / 09 / 0A outside string literals from the formatted text gives exactly
    the unformatted text (both exist) *)
Theorem C05_strip :
  forall fmt_d fmt_g15 fmt_g17 sscanf_lg, LibcStrictSpec fmt_d fmt_g15 fmt_g17 ->
  forall n depth, printable n = true ->
  option_map strip_ws (render fmt_d fmt_g15 fmt_g17 sscanf_lg true depth n)
  = render fmt_d fmt_g15 fmt_g17 sscanf_lg false depth n.
Proof. exact strip_ws_render. Qed.
Print Assumptions C05_strip.

(** what [strip_ws] does outside a literal: drops exactly 20 / 09 / 0A, keeps every other byte *)
Theorem C05_strip_drops : forall c r, is_sp c = true -> strip_ws (c :: r) = strip_ws r.
Proof. exact strip_ws_sp. Qed.
Theorem C05_strip_keeps : forall c r, clean c = true -> strip_ws (c :: r) = c :: strip_ws r.
Proof. exact strip_ws_keep. Qed.
(** ... and copies a printed string literal unchanged, whatever follows *)
Theorem C05_strip_literal : forall s rest,
  strip_ws (render_string s ++ rest) = render_string s ++ strip_ws rest.
Proof. exact strips_string. Qed.
Print Assumptions C05_strip_literal.

(** ------------------------------------------------------------------ 3. integers print plainly *)

(** a Number whose double compares equal to (double)valueint, valueint a C int, prints as "%d" of
    valueint, which matches -?[0-9]+ (no fraction, no exponent).  (No finiteness hypothesis:
    (double)z is proved finite for every int z, so == excludes NaN and the infinities.) *)
Theorem C05_int_plain :
  forall fmt_d fmt_g15 fmt_g17 sscanf_lg, LibcStrictSpec fmt_d fmt_g15 fmt_g17 ->
  forall ty vs vi vd key ch fmt depth,
  tymask ty = c_cJSON_Number -> deq vd (dbl_of_int vi) = true -> int_range vi = true ->
  render fmt_d fmt_g15 fmt_g17 sscanf_lg fmt depth (Node ty vs vi vd key ch) = Some (fmt_d vi)
  /\ plain_int_b (fmt_d vi) = true.
Proof. exact int_plain_full. Qed.
Print Assumptions C05_int_plain.

(** ------------------------------------------------------------------ 4. the print variants agree *)

(** For a printable tree whose scalar fields are C values, both formats, when no allocation request
    fails: cJSON_Print / cJSON_PrintUnformatted ([print]), cJSON_PrintBuffered for EVERY prebuffer
    >= 0, and cJSON_PrintPreallocated for EVERY caller buffer of at least |text| + 2 bytes — each
    under both allocator configurations (hr: realloc present or not), for arbitrary contents of
    fresh memory ([junk]) and of the caller's buffer — return a block that starts with ONE AND THE
    SAME zero-free text [render fmt 0 t] followed by its terminator.  (Built on the buffer-level
    refinement theorems of PrintProofs.v, which Properties_C09.v exports individually as
    C09_print_refines_render, C09_buffered_refines_render, C09_content, C09_threshold.) *)
Theorem C05_variants :
  forall fmt_d fmt_g15 fmt_g17 sscanf_lg, LibcStrictSpec fmt_d fmt_g15 fmt_g17 ->
  forall oracle junk (t : node) (fmt : bool),
  printable t = true -> fields_ok t = true -> (forall i, oracle i = false) ->
  exists txt,
    render fmt_d fmt_g15 fmt_g17 sscanf_lg fmt 0 t = Some txt /\ nz txt /\
    (zlen txt + 2 <= c_INT_MAX ->
       (forall hr, exists r, print fmt_d fmt_g15 fmt_g17 sscanf_lg oracle junk t fmt hr = Ok r /\
                             prr_block r = Some (txt ++ [0])) /\
       (forall hr prebuffer, 0 <= prebuffer ->
          exists r rest, cJSON_PrintBuffered fmt_d fmt_g15 fmt_g17 sscanf_lg oracle junk t prebuffer fmt hr = Ok r /\
                         prr_block r = Some (txt ++ 0 :: rest))) /\
    (forall hr buf, zlen txt + 2 <= zlen buf -> zlen buf <= c_INT_MAX ->
       exists r rest, cJSON_PrintPreallocated fmt_d fmt_g15 fmt_g17 sscanf_lg oracle junk t (Some buf) (zlen buf) fmt hr = Ok r /\
                      par_flag r = true /\ par_buffer r = Some (txt ++ 0 :: rest)).
Proof. exact variants_agree. Qed.
Print Assumptions C05_variants.

(** what the caller reads from such a block (strlen) is exactly the text *)
Theorem C05_block_reads_text : forall txt rest, nz txt -> cstr_checked (txt ++ 0 :: rest) = Ok txt.
Proof. exact block_reads_text. Qed.
Print Assumptions C05_block_reads_text.

(** ------------------------------------------------------------------ 5. the contract and the reference libc *)

(** an RFC number consists of the bytes 0-9 + - e E . only, so the strict contract implies the
    contract of the buffer-level printer proofs (zero-free, fits the scratch buffer) *)
Theorem C05_contract_implies_printer_contract :
  forall fmt_d fmt_g15 fmt_g17, LibcStrictSpec fmt_d fmt_g15 fmt_g17 -> LibcPrintSpec fmt_d fmt_g15 fmt_g17.
Proof. exact strict_spec_print_spec. Qed.
Print Assumptions C05_contract_implies_printer_contract.

(** PROVED for the reference "%d": all "%d" clauses of the contract, for every int *)
Theorem C05_reference_fmt_d :
  forall z, int_range z = true ->
  rfc_number (fmt_d z) = true /\ zlen (fmt_d z) <= c_NUMBER_BUFFER_SIZE - 1 /\ plain_int_b (fmt_d z) = true.
Proof. exact ref_fmt_d_strict. Qed.
Print Assumptions C05_reference_fmt_d.

(** TESTS (evaluation on a table of 32 boundary doubles, not a statement about all doubles): the
    "%g" clauses hold of the reference implementation, and it prints glibc's characters *)
Theorem C05_reference_fmt_g_table_test :
  forallb (fun r => g_clauses (sf_of_bits (fst (fst r)))) g_table = true.
Proof. exact ref_table_test. Qed.
Theorem C05_reference_fmt_g_texts_test :
  forallb (fun r => let d := sf_of_bits (fst (fst r)) in
                    bytes_eqb (fmt_g15 d) (snd (fst r)) && bytes_eqb (fmt_g17 d) (snd r)) g_table = true.
Proof. exact ref_table_texts_test. Qed.

(** ------------------------------------------------------------------ 6. non-vacuity *)

(** the contract has an inhabitant: the reference "%d" (proved for all ints) and the reference "%g"
    behind a run-time guard (an output that is not an RFC number of at most 25 bytes is replaced by
    "0"; the guard is the identity on the whole table, [sguard_identity_test]) ... *)
Theorem C05_contract_satisfiable : LibcStrictSpec fmt_d sg_fmt_g15 sg_fmt_g17.
Proof. exact strict_spec_satisfiable. Qed.
Print Assumptions C05_contract_satisfiable.

(** ... and so is [printable], by a tree with nested containers, every escape class, bytes >= 0x80,
    all three number branches, NaN and -inf; with the reference libc it prints as shown *)
Theorem C05_nonvacuous :
  printable ex_tree = true /\ fields_ok ex_tree = true /\ cdepth ex_tree = 4%nat /\
  render fmt_d fmt_g15 fmt_g17 sscanf_lg false 0 ex_tree = Some ex_text_unformatted /\
  render fmt_d fmt_g15 fmt_g17 sscanf_lg true 0 ex_tree = Some ex_text_formatted /\
  strip_ws ex_text_formatted = ex_text_unformatted.
Proof.
  exact (conj (proj1 ex_tree_printable) (conj ex_tree_fields_ok (conj (proj2 ex_tree_printable)
        (conj (proj1 ex_tree_renders) (conj (proj2 ex_tree_renders) ex_tree_strip))))).
Qed.
Print Assumptions C05_nonvacuous.

(** the conclusion of C05_strict on that tree, through the theorem (not by evaluation of a
    recogniser): both printed texts are RFC 8259 JSON texts denoting its value *)
Theorem C05_nonvacuous_strict :
  RFC_text ex_text_unformatted (val_of fmt_d sg_fmt_g15 sg_fmt_g17 sscanf_lg ex_tree) /\
  RFC_text ex_text_formatted (val_of fmt_d sg_fmt_g15 sg_fmt_g17 sscanf_lg ex_tree).
Proof. exact ex_tree_texts_rfc. Qed.
Print Assumptions C05_nonvacuous_strict.

(** the UTF-8 hypothesis is satisfiable by a tree with 2-, 3- and 4-byte sequences (and it is a real
    restriction: the tree above, which contains the bytes 80 and FF, does not satisfy it) *)
Theorem C05_nonvacuous_utf8 :
  printable ex_tree_u = true /\ strings_utf8 ex_tree_u = true /\ strings_utf8 ex_tree = false /\
  render fmt_d fmt_g15 fmt_g17 sscanf_lg false 0 ex_tree_u =
    Some [123; 34; 195; 169; 34; 58; 91; 34; 226; 130; 172; 34; 44; 34; 240; 144; 141; 136; 92; 116; 34; 93; 125] /\
  option_map utf8_valid (render fmt_d fmt_g15 fmt_g17 sscanf_lg true 0 ex_tree_u) = Some true.
Proof. exact ex_tree_u_ok. Qed.
Print Assumptions C05_nonvacuous_utf8.
