(** ParseCompleteUtf8.v — agreement of the parser model's escape arithmetic (shifts and masks,
    ParseDefs.v: [hex_val], [utf8_encode_c], the surrogate-pair formula of
    utf16_literal_to_utf8) with the independently written arithmetic of Grammar.v ([hexv],
    [utf8_of_codepoint], [pair_codepoint]).  The UTF-8 and surrogate-pair statements are the
    lemmas of ParseSoundUtf8.v (bit operations reduced to division and remainder by the
    standard lemmas, then facts about single bytes checked on at most 256 values): an
    exhaustive [vm_compute] sweep of the 0x110000 code points compiles in a minute but takes
    coqchk, which has no VM, more than 50 minutes. *)
From CJ Require Import Base Dbl Tree ParseDefs Grammar.
From CJ Require ParseSoundUtf8.
Local Open Scope Z_scope.

(** [range_all f lo k]: f holds on the 2^k integers lo, lo+1, ..., lo + 2^k - 1 *)
Fixpoint range_all (f : Z -> bool) (lo : Z) (k : nat) : bool :=
  match k with
  | O => f lo
  | S k' => range_all f lo k' && range_all f (lo + 2 ^ Z.of_nat k') k'
  end.

Lemma range_all_spec f k : forall lo, range_all f lo k = true ->
  forall x, lo <= x < lo + 2 ^ Z.of_nat k -> f x = true.
Proof.
  induction k as [|k IH]; intros lo H x Hx.
  - cbn [range_all] in H. change (2 ^ Z.of_nat 0) with 1 in Hx. replace x with lo by lia. exact H.
  - cbn [range_all] in H. apply andb_true_iff in H as [H1 H2].
    rewrite Nat2Z.inj_succ, Z.pow_succ_r in Hx by lia.
    destruct (Z.ltb_spec x (lo + 2 ^ Z.of_nat k)) as [Hlt|Hge].
    + apply (IH lo H1). lia.
    + apply (IH _ H2). lia.
Qed.

(** * hex digits *)
Lemma hex_val_hexv c : hex_val c = hexv c.
Proof.
  unfold hex_val, hexv.
  destruct ((48 <=? c) && (c <=? 57)); [reflexivity|].
  destruct ((65 <=? c) && (c <=? 70)); [f_equal; lia|].
  destruct ((97 <=? c) && (c <=? 102)); [f_equal; lia|reflexivity].
Qed.

Lemma hexv_range c x : hexv c = Some x -> 0 <= x < 16.
Proof.
  unfold hexv.
  destruct ((48 <=? c) && (c <=? 57)) eqn:E1.
  { intros H; inversion H; subst. apply andb_true_iff in E1 as [A B]. lia. }
  destruct ((65 <=? c) && (c <=? 70)) eqn:E2.
  { intros H; inversion H; subst. apply andb_true_iff in E2 as [A B]. lia. }
  destruct ((97 <=? c) && (c <=? 102)) eqn:E3.
  { intros H; inversion H; subst. apply andb_true_iff in E3 as [A B]. lia. }
  discriminate.
Qed.

Lemma hex4v_range a b c d u : hex4v a b c d = Some u -> 0 <= u < 65536.
Proof.
  unfold hex4v.
  destruct (hexv a) as [x|] eqn:Ea; [|discriminate].
  destruct (hexv b) as [y|] eqn:Eb; [|discriminate].
  destruct (hexv c) as [z|] eqn:Ec; [|discriminate].
  destruct (hexv d) as [w|] eqn:Ed; [|discriminate].
  intros H; inversion H; subst.
  apply hexv_range in Ea, Eb, Ec, Ed. lia.
Qed.

(** * UTF-8 encoding: all 0x110000 code points *)
Theorem utf8_encode_c_spec : forall cp, 0 <= cp <= 1114111 ->
  utf8_encode_c cp = Some (utf8_of_codepoint cp).
Proof. exact ParseSoundUtf8.utf8_encode_agrees. Qed.

(** the encoder refuses exactly the values above U+10FFFF (not needed below; sanity) *)
Lemma utf8_encode_c_none cp : 1114111 < cp -> utf8_encode_c cp = None.
Proof.
  intros H. unfold utf8_encode_c.
  destruct (Z.ltb_spec cp 128); [lia|].
  destruct (Z.ltb_spec cp 2048); [lia|].
  destruct (Z.ltb_spec cp 65536); [lia|].
  destruct (Z.leb_spec cp 1114111); [lia|reflexivity].
Qed.

(** * surrogate pairs: all 1024 x 1024 combinations *)
Definition pair_formula_c (hi lo : Z) : Z :=
  65536 + Z.lor (Z.shiftl (Z.land hi 1023) 10) (Z.land lo 1023).

Theorem pair_formula_spec : forall hi lo,
  55296 <= hi <= 56319 -> 56320 <= lo <= 57343 ->
  65536 + Z.lor (Z.shiftl (Z.land hi 1023) 10) (Z.land lo 1023) = pair_codepoint hi lo.
Proof.
  intros hi lo Hhi Hlo. apply ParseSoundUtf8.pair_formula.
  - unfold is_high_surrogate. apply andb_true_iff. split; apply Z.leb_le; lia.
  - unfold is_low_surrogate. apply andb_true_iff. split; apply Z.leb_le; lia.
Qed.

Lemma pair_codepoint_range hi lo :
  55296 <= hi <= 56319 -> 56320 <= lo <= 57343 -> 65536 <= pair_codepoint hi lo <= 1114111.
Proof. unfold pair_codepoint. lia. Qed.
