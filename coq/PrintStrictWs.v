(** PrintStrictWs.v — C05, parts 2 and 3.

    [strip_ws]: a small string-aware scanner that removes the bytes 0x20, 0x09, 0x0A outside
    string literals.  [strip_ws_render]: applied to the formatted text of a printable tree it
    yields exactly the unformatted text — formatting only inserts whitespace outside literals.

    [int_plain]: an integer-valued Number with a consistent int view prints as "%d" of the int,
    which matches -?[0-9]+.

    Also: an RFC 8259 number consists of the bytes 0-9 + - e E . only ([rfc_number_alphabet]), so
    the strict contract implies the printer agent's contract ([strict_spec_print_spec]). *)
From CJ Require Import Base Dbl Tree Grammar PrintDefs PrintStrict.
Local Open Scope Z_scope.

(** ------------------------------------------------------------------ the scanner *)
Inductive smode := Out | InStr | InEsc.

Fixpoint strip_go (m : smode) (l : bytes) : bytes :=
  match l with
  | [] => []
  | c :: r =>
    match m with
    | Out => if c =? 34 then c :: strip_go InStr r                     (* opening quote *)
             else if (c =? 32) || (c =? 9) || (c =? 10) then strip_go Out r
             else c :: strip_go Out r
    | InStr => if c =? 92 then c :: strip_go InEsc r                   (* backslash protects the next byte *)
               else if c =? 34 then c :: strip_go Out r                (* closing quote *)
               else c :: strip_go InStr r
    | InEsc => c :: strip_go InStr r
    end
  end.

Definition strip_ws : bytes -> bytes := strip_go Out.

(** ------------------------------------------------------------------ RFC numbers: the alphabet *)
Ltac lit_cases c N :=
  let p := fresh "p" in
  destruct c as [|p|p]; try reflexivity;
  do 6 (try (destruct p as [p|p|]; try reflexivity));
  try (exfalso; apply N; reflexivity).

Lemma rfc_frac_ne c l : c <> 46 -> rfc_frac (c :: l) = rfc_exp (c :: l).
Proof. intro N. unfold rfc_frac. lit_cases c N. Qed.

Lemma rfc_number_head_ne c l : c <> 45 ->
  rfc_number (c :: l) = if c =? 48 then rfc_frac l else digit c && rfc_frac (skip_digits l).
Proof.
  intro N. destruct (Z.eqb_spec c 48) as [->|N2]; [reflexivity|].
  unfold rfc_number. lit_cases c N; exfalso; apply N2; reflexivity.
Qed.

Lemma rfc_number_minus c l :
  rfc_number (45 :: c :: l) = if c =? 48 then rfc_frac l else digit c && rfc_frac (skip_digits l).
Proof.
  destruct (Z.eqb_spec c 48) as [->|N2]; [reflexivity|].
  unfold rfc_number. lit_cases c N2.
Qed.

Lemma nb_digit c : digit c = true -> number_byte_g c = true.
Proof. unfold number_byte_g. intros ->. reflexivity. Qed.

Lemma skip_digits_nb l : forallb number_byte_g (skip_digits l) = true -> forallb number_byte_g l = true.
Proof.
  induction l as [|c r IH]; [auto|]. cbn [skip_digits]. destruct (digit c) eqn:D.
  - intro H. cbn [forallb]. rewrite (nb_digit _ D), (IH H). reflexivity.
  - auto.
Qed.

Lemma rfc_exp_nb l : rfc_exp l = true -> forallb number_byte_g l = true.
Proof.
  destruct l as [|c r]; [reflexivity|]. unfold rfc_exp.
  destruct ((c =? 101) || (c =? 69)) eqn:E; [|discriminate].
  assert (Hc : number_byte_g c = true).
  { apply orb_true_iff in E. destruct E as [E|E]; apply Z.eqb_eq in E; subst; reflexivity. }
  cbn [forallb]. rewrite Hc. cbn [andb].
  assert (Hd : forall d r2, digit d && match skip_digits r2 with [] => true | _ :: _ => false end = true ->
                            forallb number_byte_g (d :: r2) = true).
  { intros d r2 H. apply andb_true_iff in H as [Hd Hs]. cbn [forallb]. rewrite (nb_digit _ Hd). cbn [andb].
    apply skip_digits_nb. destruct (skip_digits r2); [reflexivity|discriminate]. }
  destruct r as [|s r']; [discriminate|].
  destruct ((s =? 43) || (s =? 45)) eqn:S.
  - assert (Hs : number_byte_g s = true).
    { apply orb_true_iff in S. destruct S as [S|S]; apply Z.eqb_eq in S; subst; reflexivity. }
    destruct r' as [|d r2]; [discriminate|]. intro H.
    change (forallb number_byte_g (s :: d :: r2)) with (number_byte_g s && forallb number_byte_g (d :: r2)).
    rewrite Hs. cbn [andb]. apply Hd. exact H.
  - apply Hd.
Qed.

Lemma rfc_frac_nb l : rfc_frac l = true -> forallb number_byte_g l = true.
Proof.
  destruct l as [|c l']; [reflexivity|].
  destruct (Z.eqb_spec c 46) as [->|N].
  - destruct l' as [|d r]; [discriminate|].
    change (rfc_frac (46 :: d :: r)) with (digit d && rfc_exp (skip_digits r)).
    intro H. apply andb_true_iff in H as [Hd He].
    cbn [forallb]. rewrite (nb_digit _ Hd). change (number_byte_g 46) with true. cbn [andb].
    apply skip_digits_nb, rfc_exp_nb, He.
  - rewrite (rfc_frac_ne _ _ N). apply rfc_exp_nb.
Qed.

Lemma rfc_number_nominus_nb c l : c <> 45 -> rfc_number (c :: l) = true -> forallb number_byte_g (c :: l) = true.
Proof.
  intros N H. rewrite (rfc_number_head_ne _ _ N) in H. cbn [forallb].
  destruct (Z.eqb_spec c 48) as [->|N2].
  - change (number_byte_g 48) with true. cbn [andb]. apply rfc_frac_nb, H.
  - apply andb_true_iff in H as [Hd Hf]. rewrite (nb_digit _ Hd). cbn [andb].
    apply skip_digits_nb, rfc_frac_nb, Hf.
Qed.

(** an RFC 8259 number token consists of the bytes 0-9 + - e E . only *)
Lemma rfc_number_alphabet t : rfc_number t = true -> forallb number_byte_g t = true.
Proof.
  destruct t as [|c l]; [reflexivity|].
  destruct (Z.eqb_spec c 45) as [->|N].
  - destruct l as [|c2 l2]; [discriminate|].
    intro H. change (forallb number_byte_g (45 :: c2 :: l2)) with (forallb number_byte_g (c2 :: l2)).
    destruct (Z.eqb_spec c2 45) as [->|N2]; [discriminate|].
    apply rfc_number_nominus_nb; [exact N2|].
    rewrite (rfc_number_head_ne _ _ N2). rewrite rfc_number_minus in H. exact H.
  - apply rfc_number_nominus_nb. exact N.
Qed.

Lemma number_byte_nonzero t : forallb number_byte_g t = true -> Forall (fun c => c <> 0) t.
Proof.
  induction t as [|c t IH]; [constructor|]. cbn [forallb]. intro H. apply andb_true_iff in H as [Hc Ht].
  constructor; [|apply IH, Ht]. intros ->. discriminate Hc.
Qed.

(** the strict contract implies the contract the buffer-level printer proofs use *)
Lemma strict_spec_print_spec fmt_d fmt_g15 fmt_g17 :
  LibcStrictSpec fmt_d fmt_g15 fmt_g17 -> LibcPrintSpec fmt_d fmt_g15 fmt_g17.
Proof.
  intro L. constructor.
  - intros z Hz. apply number_byte_nonzero, rfc_number_alphabet, (lss_d_rfc _ _ _ L), Hz.
  - intros d Hd Hv. apply number_byte_nonzero, rfc_number_alphabet, (lss_g15_rfc _ _ _ L); assumption.
  - intros d Hd Hv. apply number_byte_nonzero, rfc_number_alphabet, (lss_g17_rfc _ _ _ L); assumption.
  - apply (lss_d_len _ _ _ L).
  - apply (lss_g15_len _ _ _ L).
  - apply (lss_g17_len _ _ _ L).
Qed.

(** ------------------------------------------------------------------ the scanner on pieces of text *)
(** [strips t t']: outside a literal, scanning over t emits t' and is outside a literal again *)
Definition strips (t t' : bytes) : Prop := forall rest, strip_go Out (t ++ rest) = t' ++ strip_go Out rest.

Lemma strips_nil : strips [] [].
Proof. intro rest. reflexivity. Qed.

Lemma strips_app a a' b b' : strips a a' -> strips b b' -> strips (a ++ b) (a' ++ b').
Proof. intros Ha Hb rest. rewrite <- !app_assoc. rewrite Ha, Hb. reflexivity. Qed.

Definition is_sp (c : Z) : bool := (c =? 32) || (c =? 9) || (c =? 10).
Definition clean (c : Z) : bool := negb (c =? 34) && negb (is_sp c).

Lemma strips_sp w : forallb is_sp w = true -> strips w [].
Proof.
  induction w as [|c w IH]; intro H; [apply strips_nil|].
  cbn [forallb] in H. apply andb_true_iff in H as [Hc Hw]. intro rest.
  cbn [app strip_go]. destruct (Z.eqb_spec c 34) as [->|_]; [discriminate|].
  unfold is_sp in Hc. rewrite Hc. apply (IH Hw).
Qed.

Lemma strips_clean t : forallb clean t = true -> strips t t.
Proof.
  induction t as [|c t IH]; intro H; [apply strips_nil|].
  cbn [forallb] in H. apply andb_true_iff in H as [Hc Ht]. intro rest.
  unfold clean in Hc. apply andb_true_iff in Hc as [H1 H2]. apply negb_true_iff in H1, H2.
  cbn [app strip_go]. rewrite H1. unfold is_sp in H2. rewrite H2. rewrite (IH Ht). reflexivity.
Qed.

Lemma number_byte_clean c : number_byte_g c = true -> clean c = true.
Proof.
  intro H. unfold clean, is_sp.
  destruct (Z.eqb_spec c 34) as [->|_]; [discriminate|].
  destruct (Z.eqb_spec c 32) as [->|_]; [discriminate|].
  destruct (Z.eqb_spec c 9) as [->|_]; [discriminate|].
  destruct (Z.eqb_spec c 10) as [->|_]; [discriminate|]. reflexivity.
Qed.

Lemma strips_number t : rfc_number t = true -> strips t t.
Proof.
  intro H. apply strips_clean. apply rfc_number_alphabet in H.
  rewrite forallb_forall in H |- *. intros c Hc. apply number_byte_clean, H, Hc.
Qed.

(** inside a literal *)
Lemma instr_plain c tl : c <> 92 -> c <> 34 -> strip_go InStr (c :: tl) = c :: strip_go InStr tl.
Proof.
  intros N1 N2. cbn [strip_go].
  destruct (Z.eqb_spec c 92); [contradiction|]. destruct (Z.eqb_spec c 34); [contradiction|]. reflexivity.
Qed.

Lemma instr_esc e tl : strip_go InStr (92 :: e :: tl) = 92 :: e :: strip_go InStr tl.
Proof. reflexivity. Qed.

Lemma hex_digit_plain v : 0 <= v < 16 -> hex_digit v <> 92 /\ hex_digit v <> 34.
Proof. intro H. unfold hex_digit. destruct (Z.ltb_spec v 10); lia. Qed.

Lemma escape_byte_instr c tl : strip_go InStr (escape_byte c ++ tl) = escape_byte c ++ strip_go InStr tl.
Proof.
  unfold escape_byte, ch_quote, ch_bslash.
  destruct (Z.eqb_spec c 34) as [->|N1]; [reflexivity|].
  destruct (Z.eqb_spec c 92) as [->|N2]; [reflexivity|].
  destruct (c =? 8); [reflexivity|]. destruct (c =? 12); [reflexivity|].
  destruct (c =? 10); [reflexivity|]. destruct (c =? 13); [reflexivity|].
  destruct (c =? 9); [reflexivity|].
  destruct (c <? 32).
  - set (h1 := hex_digit ((c / 16) mod 16)). set (h2 := hex_digit (c mod 16)).
    assert (H1 : h1 <> 92 /\ h1 <> 34) by (apply hex_digit_plain, Z.mod_pos_bound; lia).
    assert (H2 : h2 <> 92 /\ h2 <> 34) by (apply hex_digit_plain, Z.mod_pos_bound; lia).
    cbn [app]. rewrite instr_esc.
    rewrite (instr_plain 48) by lia. rewrite (instr_plain 48) by lia.
    rewrite (instr_plain h1) by tauto. rewrite (instr_plain h2) by tauto. reflexivity.
  - cbn [app]. apply instr_plain; assumption.
Qed.

Lemma escape_body_instr s rest :
  strip_go InStr (escape_body s ++ 34 :: rest) = escape_body s ++ 34 :: strip_go Out rest.
Proof.
  induction s as [|c s IH]; [reflexivity|].
  unfold escape_body. cbn [flat_map]. rewrite <- app_assoc. rewrite escape_byte_instr.
  fold (escape_body s). rewrite IH. rewrite <- app_assoc. reflexivity.
Qed.

(** a printed string literal is copied unchanged *)
Lemma strips_string s : strips (render_string s) (render_string s).
Proof.
  intro rest. rewrite render_string_eq. cbn [app strip_go Z.eqb Pos.eqb].
  rewrite <- app_assoc. cbn [app]. rewrite escape_body_instr.
  rewrite <- app_assoc. reflexivity.
Qed.

(** ------------------------------------------------------------------ layout *)
Lemma strips_tabs d : strips (tabs d) [].
Proof. apply strips_sp. unfold tabs. induction (Z.to_nat d) as [|k IH]; [reflexivity|]. cbn [repeat forallb]. rewrite IH. reflexivity. Qed.

Lemma strips_join l1 l2 : Forall2 strips l1 l2 -> strips (join [ch_comma; ch_space] l1) (join [ch_comma] l2).
Proof.
  induction 1 as [|t1 t2 l1 l2 Ht HF IH]; [apply strips_nil|].
  destruct HF as [|t1' t2' l1' l2' Ht' HF'].
  - exact Ht.
  - rewrite !join_cons2. apply strips_app; [exact Ht|]. apply strips_app; [|exact IH].
    intro rest. reflexivity.
Qed.

Lemma strips_member dp k v1 v2 last : strips v1 v2 ->
  strips (member_text true dp k v1 last) (member_text false dp k v2 last).
Proof.
  intro Hv. unfold member_text.
  change (@nil Z ++ render_string k ++ [ch_colon] ++ [] ++ v2 ++ (if last then [] else [ch_comma]) ++ [])
    with ([] ++ render_string k ++ [ch_colon] ++ [] ++ v2 ++ (if last then [] else [ch_comma]) ++ @nil Z).
  apply strips_app; [apply strips_tabs|].
  apply strips_app; [apply strips_string|].
  apply strips_app; [intro rest; reflexivity|].
  apply strips_app; [intro rest; reflexivity|].
  apply strips_app; [exact Hv|].
  apply strips_app; [destruct last; intro rest; reflexivity|].
  intro rest; reflexivity.
Qed.

Lemma strips_members dp keys l1 l2 : Forall2 strips l1 l2 ->
  strips (members_text true dp (combine keys l1)) (members_text false dp (combine keys l2)).
Proof.
  intro HF. revert keys. induction HF as [|t1 t2 l1 l2 Ht HF IH]; intro keys.
  - destruct keys; apply strips_nil.
  - destruct keys as [|k keys]; [apply strips_nil|].
    cbn [combine members_text].
    assert (E : match combine keys l1 with [] => true | _ :: _ => false end =
                match combine keys l2 with [] => true | _ :: _ => false end).
    { destruct keys; [reflexivity|]. destruct HF; reflexivity. }
    rewrite E. apply strips_app; [apply strips_member; exact Ht|apply IH].
Qed.

(** ------------------------------------------------------------------ the theorems *)
Section StripWs.
  Variable fmt_d : Z -> bytes.
  Variable fmt_g15 fmt_g17 : dbl -> bytes.
  Variable sscanf_lg : bytes -> option dbl.
  Hypothesis L : LibcStrictSpec fmt_d fmt_g15 fmt_g17.

  Notation number_text := (number_text fmt_d fmt_g15 fmt_g17 sscanf_lg).
  Notation render := (render fmt_d fmt_g15 fmt_g17 sscanf_lg).

  Lemma children_strip ch :
    Forall (fun c => printable c = true -> forall depth, exists t1 t2,
                     render true depth c = Some t1 /\ render false depth c = Some t2 /\ strips t1 t2) ch ->
    forallb printable ch = true ->
    forall depth, exists l1 l2, opt_all (map (render true depth) ch) = Some l1 /\
                                opt_all (map (render false depth) ch) = Some l2 /\ Forall2 strips l1 l2.
  Proof.
    intros HF. induction HF as [|c ch Hc HF IH]; intros Hp depth.
    - exists [], []. repeat split; constructor.
    - cbn [forallb] in Hp. apply andb_true_iff in Hp as [Hpc Hpr].
      destruct (Hc Hpc depth) as [t1 [t2 [H1 [H2 Hs]]]].
      destruct (IH Hpr depth) as [l1 [l2 [G1 [G2 HF2]]]].
      exists (t1 :: l1), (t2 :: l2). cbn [map]. rewrite H1, H2.
      repeat split; [apply opt_all_cons_some, G1|apply opt_all_cons_some, G2|constructor; assumption].
  Qed.

  Lemma render_strips : forall n, printable n = true -> forall depth, exists t1 t2,
    render true depth n = Some t1 /\ render false depth n = Some t2 /\ strips t1 t2.
  Proof.
    induction n as [ty vs vi vd key ch IH] using node_ind'.
    intros Hp depth. rewrite !render_eq. rewrite printable_eq in Hp.
    cbv zeta in *. set (t := tymask ty) in *.
    apply andb_true_iff in Hp as [Hp H5]. apply andb_true_iff in Hp as [Hp H4].
    apply andb_true_iff in Hp as [Hp H3]. apply andb_true_iff in Hp as [H1 H2].
    destruct (t =? c_cJSON_NULL) eqn:E1. { do 2 eexists; (split; [reflexivity|split; [reflexivity|]]). intro rest; reflexivity. }
    destruct (t =? c_cJSON_False) eqn:E2. { do 2 eexists; (split; [reflexivity|split; [reflexivity|]]). intro rest; reflexivity. }
    destruct (t =? c_cJSON_True) eqn:E3. { do 2 eexists; (split; [reflexivity|split; [reflexivity|]]). intro rest; reflexivity. }
    destruct (t =? c_cJSON_Number) eqn:E4.
    { destruct (is_nan vd || is_inf vd) eqn:Ef.
      - rewrite (number_text_nonfinite fmt_d fmt_g15 fmt_g17 sscanf_lg _ _ Ef). do 2 eexists; (split; [reflexivity|split; [reflexivity|]]). intro rest; reflexivity.
      - apply andb_true_iff in H2 as [H2 H2v].
        destruct (number_text_finite fmt_d fmt_g15 fmt_g17 sscanf_lg L vi vd H2 H2v Ef) as [Hr Hl].
        destruct (Z.ltb_spec (c_NUMBER_BUFFER_SIZE - 1) (zlen (number_text vi vd))) as [Hlt|_]; [lia|].
        do 2 eexists; (split; [reflexivity|split; [reflexivity|]]). apply strips_number, Hr. }
    destruct (t =? c_cJSON_Raw) eqn:E5.
    { exfalso. apply Z.eqb_eq in E5. unfold ty_ok in H1. rewrite E5 in H1. discriminate H1. }
    destruct (t =? c_cJSON_String) eqn:E6. { do 2 eexists; (split; [reflexivity|split; [reflexivity|]]). apply strips_string. }
    destruct (t =? c_cJSON_Array) eqn:E7.
    { unfold is_container in H5. rewrite E7 in H5. cbn [orb] in H5.
      destruct (children_strip ch IH H5 (depth + 1)) as [l1 [l2 [G1 [G2 HF]]]].
      rewrite G1, G2. do 2 eexists; (split; [reflexivity|split; [reflexivity|]]).
      apply strips_app; [intro rest; reflexivity|].
      apply strips_app; [apply strips_join, HF|intro rest; reflexivity]. }
    destruct (t =? c_cJSON_Object) eqn:E8.
    { unfold is_container in H5. rewrite E8 in H5. rewrite orb_true_r in H5.
      destruct (children_strip ch IH H5 (depth + 1)) as [l1 [l2 [G1 [G2 HF]]]].
      rewrite G1, G2. do 2 eexists; (split; [reflexivity|split; [reflexivity|]]).
      apply strips_app; [intro rest; reflexivity|].
      apply strips_app; [intro rest; reflexivity|].
      apply strips_app; [apply strips_members, HF|].
      change ([] ++ [ch_rbrace]) with (@nil Z ++ [ch_rbrace]).
      apply strips_app; [apply strips_tabs|intro rest; reflexivity]. }
    exfalso. unfold ty_ok in H1. rewrite E1, E2, E3, E4, E6, E7, E8 in H1. discriminate H1.
  Qed.

  (** formatted and unformatted output differ only in whitespace outside string literals *)
  Theorem strip_ws_render n depth : printable n = true ->
    option_map strip_ws (render true depth n) = render false depth n.
  Proof.
    intro Hp. destruct (render_strips n Hp depth) as [t1 [t2 [H1 [H2 Hs]]]].
    rewrite H1, H2. cbn [option_map]. f_equal. unfold strip_ws.
    specialize (Hs []). rewrite !app_nil_r in Hs. exact Hs.
  Qed.

  (** ---------------------------------------------------------------- integers print plainly *)
  Theorem int_plain ty vs vi vd key ch fmt depth :
    tymask ty = c_cJSON_Number -> is_nan vd || is_inf vd = false ->
    deq vd (dbl_of_int vi) = true -> int_range vi = true ->
    render fmt depth (Node ty vs vi vd key ch) = Some (fmt_d vi) /\ plain_int_b (fmt_d vi) = true.
  Proof.
    intros Ht Hf He Hi. split; [|apply (lss_d_plain _ _ _ L), Hi].
    rewrite render_eq. cbv zeta. rewrite Ht. cbn [Z.eqb c_cJSON_Number c_cJSON_NULL c_cJSON_False c_cJSON_True Pos.eqb].
    unfold PrintDefs.number_text. rewrite Hf, He.
    pose proof (lss_d_len _ _ _ L vi Hi) as Hl.
    destruct (Z.ltb_spec (c_NUMBER_BUFFER_SIZE - 1) (zlen (fmt_d vi))); [lia|reflexivity].
  Qed.
End StripWs.

(** what the scanner removes, stated directly: outside literals exactly the bytes 20 / 09 / 0A go,
    every other byte is kept (specification-level sanity lemmas for [strip_ws]) *)
Lemma strip_ws_sp c r : is_sp c = true -> strip_ws (c :: r) = strip_ws r.
Proof. intro H. apply (strips_sp [c]); cbn [forallb]; rewrite H; reflexivity. Qed.
Lemma strip_ws_keep c r : clean c = true -> strip_ws (c :: r) = c :: strip_ws r.
Proof. intro H. apply (strips_clean [c]); cbn [forallb]; rewrite H; reflexivity. Qed.
