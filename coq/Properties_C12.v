(** Properties_C12.v — property C12: Compare decides semantic equality of JSON values.
    Only statements closed by [exact]. *)
From CJ Require Import Base Dbl Tree CompareDefs CompareProofs.
Local Open Scope Z_scope.

(** the recursion bound supplied by the entry point always suffices (termination) *)
Theorem C12_total : forall a b same cs, cJSON_Compare a b same cs <> None.
Proof. exact compare_total. Qed.
Print Assumptions C12_total.

(** true exactly when the two trees denote the same JSON value *)
Theorem C12_spec : forall cs a b, cmp_wf cs a -> cmp_wf cs b ->
  (cJSON_Compare (Some a) (Some b) false cs = Some true <-> sem_eq cs a b).
Proof. exact compare_spec. Qed.
Print Assumptions C12_spec.

Theorem C12_symmetric : forall cs a b, cmp_wf cs a -> cmp_wf cs b ->
  cJSON_Compare (Some a) (Some b) false cs = cJSON_Compare (Some b) (Some a) false cs.
Proof. exact compare_symmetric. Qed.
Print Assumptions C12_symmetric.

(** reflexive: on the same pointer for any valid type; on an equal copy when no number is NaN *)
Theorem C12_reflexive : forall cs a,
  (valid_type (tymask (n_ty a)) = true -> cJSON_Compare (Some a) (Some a) true cs = Some true) /\
  (cmp_wf cs a -> json_shape a -> no_nan a -> cJSON_Compare (Some a) (Some a) false cs = Some true).
Proof. exact compare_reflexive. Qed.
Print Assumptions C12_reflexive.

(** ownership flags (any bits above the low byte of the type) do not matter *)
Theorem C12_flags_ignored : forall cs a b same,
  cJSON_Compare (Some a) (Some b) same cs = cJSON_Compare (Some (strip_flags a)) (Some (strip_flags b)) same cs.
Proof. exact compare_flags. Qed.
Print Assumptions C12_flags_ignored.

Theorem C12_null_invalid_false : forall a b same cs,
  cJSON_Compare None b same cs = Some false /\ cJSON_Compare a None same cs = Some false /\
  (forall x, a = Some x -> valid_type (tymask (n_ty x)) = false -> cJSON_Compare a b same cs = Some false).
Proof. exact compare_null_invalid. Qed.
Print Assumptions C12_null_invalid_false.

(** numbers: symmetric, reflexive except on NaN, a finite number never equals a non-finite one *)
Theorem C12_num : forall x y,
  compare_double x y = compare_double y x /\
  (is_nan x = false -> compare_double x x = true) /\
  (is_finite x = true -> is_finite y = false -> compare_double x y = false).
Proof. exact compare_double_facts. Qed.
Print Assumptions C12_num.

(** finding F3 re-derived: the pinned tolerance test equates infinity with 1 *)
Theorem C12_num_refuted_pinned :
  exists x y, is_finite x = true /\ is_finite y = false /\ compare_double_pinned x y = true.
Proof. exact compare_double_pinned_refuted. Qed.
Print Assumptions C12_num_refuted_pinned.

(** non-vacuity: two objects with permuted members and nested containers are sem_eq and the
    hypotheses hold *)
Theorem C12_nonvacuous : exists a b, cmp_wf true a /\ cmp_wf true b /\ a <> b /\ sem_eq true a b /\
  cJSON_Compare (Some a) (Some b) false true = Some true.
Proof. exact compare_nonvacuous. Qed.
Print Assumptions C12_nonvacuous.
