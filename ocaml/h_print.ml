(* h_print.ml — handlers of area `print` (printer model: PrintDefs.v instantiated in PrintEntry.v) *)
open Model
open Driver

let text_of_block (b : z list option) : string =
  match b with
  | None -> "NULL"
  | Some l -> (match cstr_checked l with Ok t -> hex_of_bytes t | OOB -> "MODEL_OOB" | OutOfFuel -> "MODEL_OUTOFFUEL")

let bytes_eq (a : z list) (b : z list) = (a = b)

(* print <entry:P|U|B> <fmt> <prebuffer> <alloc:hooks|realloc> <failk> <tree>
     -> <hex text|NULL> live=<k> reqs=<k>
   P = cJSON_Print, U = cJSON_PrintUnformatted, B = cJSON_PrintBuffered(prebuffer, fmt) *)
let h_print (a : string array) : string =
  let entry = a.(1).[0] in
  let fmt = (match entry with 'P' -> true | 'U' -> false | _ -> a.(2) <> "0") in
  let pre = int_of_string a.(3) in
  let have_realloc = a.(4) = "realloc" in
  let failk = int_of_string a.(5) in
  let pos = ref 6 in let t = parse_node a pos in
  let r = (match entry with
    | 'P' | 'U' -> run_print t fmt have_realloc (nat_of_int failk)
    | _ -> run_print_buffered t (z_of_int pre) fmt have_realloc (nat_of_int failk)) in
  match r with
  | OOB -> "MODEL_OOB" | OutOfFuel -> "MODEL_OUTOFFUEL"
  | Ok pr ->
      let txt = text_of_block pr.prr_block in
      (* the declarative renderer on the same tree, when no allocation fails *)
      let spec = (if failk <> 0 || (entry = 'B' && pre < 0) then "" else
        (match run_render fmt t, pr.prr_block with
         | None, None -> ""
         | Some s, Some _ -> if hex_of_bytes s = txt then "" else " SPECDIFF"
         | _, _ -> " SPECDIFF")) in
      Printf.sprintf "%s live=%d reqs=%d%s" txt (int_of_z pr.prr_live) (int_of_nat pr.prr_requests) spec

(* initial contents of the caller's buffer *)
let pattern (pat : int) (i : int) : int =
  match pat with 0 -> 0xA5 | 1 -> ((i * 37 + 11) mod 255) + 1 | _ -> 0

(* prealloc <n> <fmt> <pattern> <tree>
     -> <0|1> <hex of the buffer up to its first zero, when 1 | -> buf=<hex of the n bytes> canary=ok live=<k> reqs=<k> *)
let h_prealloc (a : string array) : string =
  let n = int_of_string a.(1) in let fmt = a.(2) <> "0" in let pat = int_of_string a.(3) in
  let pos = ref 4 in let t = parse_node a pos in
  let m = if n > 0 then n else 0 in
  let buf = List.init m (fun i -> z_of_int (pattern pat i)) in
  match run_print_preallocated t (Some buf) (z_of_int n) fmt with
  | OOB -> "MODEL_OOB" | OutOfFuel -> "MODEL_OUTOFFUEL"
  | Ok r ->
      let final = (match r.par_buffer with Some b -> b | None -> []) in
      let txt = if r.par_flag then (match cstr_checked final with Ok t -> hex_of_bytes t | _ -> "UNTERMINATED") else "-" in
      let spec = (match run_render fmt t with
        | Some s -> let fits = List.length s + 2 <= n in
            if r.par_flag <> fits then " SPECDIFF" else if r.par_flag && hex_of_bytes s <> txt then " SPECDIFF" else ""
        | None -> if r.par_flag then " SPECDIFF" else "") in
      Printf.sprintf "%s %s buf=%s canary=ok live=%d reqs=%d%s" (if r.par_flag then "1" else "0") txt (hex_of_bytes final)
        (int_of_z r.par_live) (int_of_nat r.par_requests) spec

(* roundtrip <fmt> <tree> -> <hex text|NULL> | <re-parsed tree|NULL> | <hex second-generation text|NULL> *)
let h_roundtrip (a : string array) : string =
  let fmt = a.(1) = "1" in
  let pos = ref 2 in let t = parse_node a pos in
  let text_of n = (match run_print n fmt false O with
    | Ok pr -> (match pr.prr_block with None -> Ok None | Some l -> (match cstr_checked l with Ok s -> Ok (Some s) | OOB -> OOB | OutOfFuel -> OutOfFuel))
    | OOB -> OOB | OutOfFuel -> OutOfFuel) in
  match text_of t with
  | OOB -> "MODEL_OOB" | OutOfFuel -> "MODEL_OUTOFFUEL"
  | Ok None -> "NULL"
  | Ok (Some s) ->
      let len = List.length s in
      (match run_parse_with_length_opts (s @ [Z0]) (nat_of_int (len + 1)) false O with
       | OOB -> hex_of_bytes s ^ " | MODEL_OOB" | OutOfFuel -> hex_of_bytes s ^ " | MODEL_OUTOFFUEL"
       | Ok pr ->
           (match pr.pr_tree with
            | None -> hex_of_bytes s ^ " | NULL | NULL"
            | Some t2 ->
                let s2 = (match text_of t2 with Ok (Some x) -> hex_of_bytes x | Ok None -> "NULL" | _ -> "MODEL_OOB") in
                hex_of_bytes s ^ " | " ^ dump_node t2 ^ " | " ^ s2))

(* printall <prebuffer> <n> <alloc:hooks|realloc> <tree>
     -> P=<hex|NULL> U=.. B1=.. B0=.. A1=<flag>:<hex|-> A0=<flag>:<hex|->     all entry points on one tree (C04, C05) *)
let h_printall (a : string array) : string =
  let pre = int_of_string a.(1) in let n = int_of_string a.(2) in let have_realloc = a.(3) = "realloc" in
  let pos = ref 4 in let t = parse_node a pos in
  let txt r = (match r with Ok pr -> text_of_block pr.prr_block | OOB -> "MODEL_OOB" | OutOfFuel -> "MODEL_OUTOFFUEL") in
  let pa fmt =
    let buf = List.init (if n > 0 then n else 0) (fun i -> z_of_int (pattern 1 i)) in
    (match run_print_preallocated t (Some buf) (z_of_int n) fmt with
     | Ok r -> if r.par_flag then "1:" ^ (match r.par_buffer with Some b -> (match cstr_checked b with Ok x -> hex_of_bytes x | _ -> "UNTERMINATED") | None -> "-") else "0:-"
     | OOB -> "MODEL_OOB" | OutOfFuel -> "MODEL_OUTOFFUEL") in
  Printf.sprintf "P=%s U=%s B1=%s B0=%s A1=%s A0=%s"
    (txt (run_print t true have_realloc O)) (txt (run_print t false have_realloc O))
    (txt (run_print_buffered t (z_of_int pre) true have_realloc O)) (txt (run_print_buffered t (z_of_int pre) false have_realloc O))
    (pa true) (pa false)

(* fmtnum <bits> -> <%d of sat_int> <%1.15g> <%1.17g> <bits of strtod(%1.15g)> <bits of strtod(%1.17g)>   (reference libc vs glibc) *)
let h_fmtnum (a : string array) : string =
  let d = dbl_of_tok a.(1) in
  let g15 = fmt_g15 d and g17 = fmt_g17 d in
  let back s = (match sscanf_lg s with Some x -> tok_of_dbl x | None -> "NOCONV") in
  String.concat " " [hex_of_bytes (fmt_d (sat_int d)); hex_of_bytes g15; hex_of_bytes g17; back g15; back g17]

let handlers : (string * (string array -> string)) list = [
  ("print", h_print); ("prealloc", h_prealloc); ("roundtrip", h_roundtrip); ("printall", h_printall); ("fmtnum", h_fmtnum);
]
