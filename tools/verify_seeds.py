#!/usr/bin/env python3
"""Verify seeded mutations: for each /verif/seeded/<name>/ apply patch.diff in a scratch
worktree of /repo, build, run the full ctest suite (must pass), build+run demo.c with and
without the patch (must fail with, pass without).  Records the outcome in meta.json under
"verified".  Usage: verify_seeds.py [names...]"""
import json, os, subprocess, sys, shutil, tempfile, re
SEEDED='/verif/seeded'
def sh(cmd, cwd=None, timeout=600):
    p=subprocess.run(cmd, shell=True, cwd=cwd, stdout=subprocess.PIPE, stderr=subprocess.STDOUT, timeout=timeout)
    return p.returncode, p.stdout.decode(errors='replace')
def demo_cmd(d, wt):
    src=open(os.path.join(d,'demo.c')).read()
    threads='-pthread' if 'pthread' in src else ''
    inc_c = '#include "cJSON.c"' in src or "#include \"../cJSON.c\"" in src
    inc_u = '#include "cJSON_Utils.c"' in src
    srcs=[] 
    if not inc_c: srcs.append('cJSON.c')
    if not inc_u and ('cJSON_Utils' in src): srcs.append('cJSON_Utils.c')
    return "gcc -g -O1 %s -fsanitize=address,undefined -fno-sanitize-recover=all -I. -I%s %s/demo.c %s -lm -o demo_bin && ASAN_OPTIONS=detect_leaks=1 timeout 300 ./demo_bin" % (threads, wt, d, ' '.join(srcs))
def verify(name):
    d=os.path.join(SEEDED,name)
    wt=tempfile.mkdtemp(prefix='seedwt_')
    os.rmdir(wt)
    res={}
    try:
        rc,out=sh("git -C /repo worktree add -q --detach %s HEAD"%wt); assert rc==0,out
        rc,out=sh(demo_cmd(d,wt), cwd=wt); res['demo_pristine_rc']=rc
        rc,out=sh("git apply %s/patch.diff"%d, cwd=wt); res['applies']=(rc==0)
        if rc!=0: res['apply_out']=out[-300:]; return res
        rc,out=sh("cmake -G Ninja -S . -B _b -DENABLE_CJSON_TEST=ON -DENABLE_CJSON_UTILS=ON -DENABLE_LOCALES=ON >/dev/null 2>&1 && ninja -C _b >/dev/null 2>&1 && ctest --test-dir _b -j8 2>&1 | tail -3", cwd=wt)
        res['tests_pass_with_patch']=('100% tests passed' in out); res['tests_tail']=out[-200:]
        rc,out=sh(demo_cmd(d,wt), cwd=wt); res['demo_patched_rc']=rc; res['demo_patched_tail']=out[-300:]
        res['ok']= res['demo_pristine_rc']==0 and res['tests_pass_with_patch'] and res['demo_patched_rc']!=0
    finally:
        sh("git -C /repo worktree remove --force %s"%wt); shutil.rmtree(wt, ignore_errors=True)
    return res
if __name__=='__main__':
    names=sys.argv[1:] or sorted(os.listdir(SEEDED))
    for n in names:
        if not os.path.isdir(os.path.join(SEEDED,n)): continue
        r=verify(n)
        mp=os.path.join(SEEDED,n,'meta.json')
        try: m=json.load(open(mp))
        except Exception: m={}
        m['verified']=r
        json.dump(m,open(mp,'w'),indent=1)
        print(n, 'OK' if r.get('ok') else 'BAD', {k:v for k,v in r.items() if k in('demo_pristine_rc','applies','tests_pass_with_patch','demo_patched_rc')}, flush=True)
