(** Properties_C16_Heap.v (companion of Properties_C16.v) — property C16 for the HEAP-LEVEL code of the JSON Patch
    application.  Only statements closed by [exact].

    Properties_C16.v is about PatchDefs.v / PointerDefs.v, the VALUE-level transliterations of [apply_patch],
    [detach_path], [get_item_from_pointer] … (DESIGN 5.6, Tier B), which presuppose that the cJSON.c primitives act
    on values like list functions; Properties_C16_TierBridge.v proves that presupposition primitive by primitive.
    Here the control flow of the utility itself is no longer presupposed: PatchHeapDefs.v (and the later
    PatchHeap*Defs.v) transliterate the functions of cJSON_Utils.c statement by statement on the memory model of
    Heap.v, and the theorems below say that the heap-level functions REFINE the value-level models.

    Reading guide.  [h] heap, [F] forest, [MInv h F] the invariant of Properties_C18_Heap.v (well-formed heap
    [WF], structural sanity [HeapOK], every node owns its strings, every string is a live NUL-terminated block).
    [cstring] = a [const char *] argument: NULL, block + offset, or a literal; [CsReads h c nm]: [c] designates the
    readable C string [nm] in [h].  [reify St t] reads a forest tree as a [Tree.node] through the string heap.
    [subtree_t t pp]: the node of the forest tree [t] the path [pp] (child indices) leads to. *)
From CJ Require Import Base Dbl Heap Forest ForestLemmas CoreDefs CoreRefineDupValue CoreLedgerGen.
From CJ Require Import TierBridgeDefs TierBridgeOverwriteDefs MergeHeapDefs MergeHeapInv MergeHeapEx
  PatchHeapDefs PatchHeapPath PatchHeapPointer PatchHeapStr PatchHeapSteps PatchHeapDetach
  PatchHeapApplyDefs PatchHeapOps PatchHeapFinish PatchHeapApply PatchHeapTest PatchHeapLoop PatchHeapEx.
From CJ Require Tree PointerDefs PatchDefs CompareDefs SortSpec CoreOps Rfc6902 PatchConform PatchExact PatchSeq2Op PatchSeqAll.
From CJ.gen Require Import Constants.
From stdpp Require Import gmap.
Local Open Scope Z_scope.

(** ------------------------------------------------------------------ 1. get_item_from_pointer *)

(** what [CsReads] says *)
Theorem C16_heap_string_argument : forall h c nm,
  CsReads h c nm <->
  match c with
  | CNull => False
  | CAt b off => b ∈ h_live h /\ exists s : bytes, h_str h !! b = Some s /\ existsb (Z.eqb 0) (drop off s) = true /\ nm = cstr (drop off s)
  | CLit l => nm = l /\ SortSpec.zfree l
  end.
Proof. exact (fun h c nm => conj (fun H => H) (fun H => H)). Qed.

(** STAGE 1.  [get_item_from_pointer(object, pointer, case_sensitive)] for a node [t] of the forest and a readable
    pointer text: returns normally, leaves the heap untouched, and returns the node the value-level path leads
    to — NULL exactly when the value-level function finds nothing. *)
Theorem C16_heap_get_item_from_pointer : forall h F, MInv h F -> forall t c nm flag,
  t ∈ nodes F -> CsReads h c nm ->
  get_item_from_pointer (Some (tid t)) c flag h =
  Ret (tid <$> (PointerDefs.get_item_from_pointer (reify (h_str h) t) nm flag ≫= subtree_t t), h).
Proof. exact get_item_from_pointer_refines. Qed.
Print Assumptions C16_heap_get_item_from_pointer.

Theorem C16_heap_get_item_found : forall h F t c nm flag pp,
  MInv h F -> t ∈ nodes F -> CsReads h c nm ->
  PointerDefs.get_item_from_pointer (reify (h_str h) t) nm flag = Some pp ->
  exists n, subtree_t t pp = Some n /\ get_item_from_pointer (Some (tid t)) c flag h = Ret (Some (tid n), h).
Proof. exact get_item_from_pointer_found. Qed.
Print Assumptions C16_heap_get_item_found.

Theorem C16_heap_get_item_none : forall h F t c nm flag,
  MInv h F -> t ∈ nodes F -> CsReads h c nm ->
  PointerDefs.get_item_from_pointer (reify (h_str h) t) nm flag = None ->
  get_item_from_pointer (Some (tid t)) c flag h = Ret (None, h).
Proof. exact get_item_from_pointer_none. Qed.
Print Assumptions C16_heap_get_item_none.

(** paths in forest trees are paths in values *)
Theorem C16_heap_subtree_reify : forall St t pp, Tree.subtree (reify St t) pp = reify St <$> subtree_t t pp.
Proof. exact reify_subtree. Qed.
Theorem C16_heap_put_reify : forall St t pp new,
  PatchDefs.put_subtree (reify St t) pp (reify St new) = reify St (put_t t pp new).
Proof. exact reify_put. Qed.

(** non-vacuity: a concrete heap (document {"a":[10,{"b~":5}],"A":2,"c/d":3}, pointer texts held in string blocks);
    the heap-level code run by [vm_compute], the value-level model on the reified document, and the hypotheses of
    the theorem *)
Theorem C16_heap_pointer_example_runs :
  out_val (get_item_from_pointer (Some 1%positive) (CAt 201 0) true px_heap) = Some (Some 5%positive) /\
  out_val (get_item_from_pointer (Some 1%positive) (CAt 202 0) true px_heap) = Some (Some 7%positive) /\
  out_val (get_item_from_pointer (Some 1%positive) (CAt 203 0) true px_heap) = Some None /\
  out_val (get_item_from_pointer (Some 1%positive) (CAt 204 0) true px_heap) = Some None /\
  out_val (get_item_from_pointer (Some 1%positive) (CAt 201 2) true px_heap) = Some None /\
  out_val (get_item_from_pointer (Some 2%positive) (CAt 201 2) true px_heap) = Some (Some 5%positive).
Proof. exact px_runs. Qed.
Theorem C16_heap_pointer_example_values :
  PointerDefs.get_item_from_pointer (reify px_St px_doc) [47; 97; 47; 49; 47; 98; 126; 48] true = Some [0; 1; 0]%nat /\
  PointerDefs.get_item_from_pointer (reify px_St px_doc) [47; 99; 126; 49; 100] true = Some [2]%nat /\
  PointerDefs.get_item_from_pointer (reify px_St px_doc) [47; 97; 47; 50] true = None /\
  PointerDefs.get_item_from_pointer (reify px_St px_doc) [97] true = None /\
  tid <$> subtree_t px_doc [0; 1; 0]%nat = Some 5%positive /\ tid <$> subtree_t px_doc [2]%nat = Some 7%positive.
Proof. exact px_values. Qed.
Theorem C16_heap_pointer_nonvacuous :
  MInv px_heap px_F /\ px_doc ∈ nodes px_F /\
  CsReads px_heap (CAt 201 0) [47; 97; 47; 49; 47; 98; 126; 48] /\
  get_item_from_pointer (Some 1%positive) (CAt 201 0) true px_heap = Ret (Some 5%positive, px_heap).
Proof. exact px_stage1. Qed.
Print Assumptions C16_heap_pointer_nonvacuous.

(** ------------------------------------------------------------------ 2. detach_path *)

(** the functions of cJSON.c that receive [child_pointer] (a pointer INTO the copy of the path) or a string literal
    are transliterated with a [cstring] argument; on a block pointer they are the functions of CoreDefs.v *)
Theorem C16_heap_string_functions_are_core : forall oracle (o n i : ptr) flag h,
  get_object_item_s o (cs_of_ptr n) flag h = get_object_item o n flag h /\
  cJSON_DetachItemFromObject_s o (cs_of_ptr n) h = cJSON_DetachItemFromObject o n h /\
  cJSON_DetachItemFromObjectCaseSensitive_s o (cs_of_ptr n) h = cJSON_DetachItemFromObjectCaseSensitive o n h /\
  cJSON_DeleteItemFromObject_s o (cs_of_ptr n) h = cJSON_DeleteItemFromObject o n h /\
  cJSON_DeleteItemFromObjectCaseSensitive_s o (cs_of_ptr n) h = cJSON_DeleteItemFromObjectCaseSensitive o n h /\
  cJSON_AddItemToObject_s oracle o (cs_of_ptr n) i h = cJSON_AddItemToObject oracle o n i h.
Proof.
  exact (fun oracle o n i flag h =>
    conj (get_object_item_s_block o n flag h)
      (conj (proj1 (cJSON_DetachItemFromObject_s_block o n h))
        (conj (proj1 (proj2 (cJSON_DetachItemFromObject_s_block o n h)))
          (conj (proj1 (proj2 (proj2 (cJSON_DetachItemFromObject_s_block o n h))))
            (conj (proj2 (proj2 (proj2 (cJSON_DetachItemFromObject_s_block o n h))))
              (cJSON_AddItemToObject_s_block oracle o n i h)))))).
Qed.
Print Assumptions C16_heap_string_functions_are_core.

(** what the value-level result of [detach_path] says about the heap-level result: [Ok None] — NULL, forest
    unchanged; [Ok (Some (it, doc'))] — the item [m] (the [j]-th child of the node at path [pp]) is returned as a new
    last root, the document is [put_t doc pp (…without that child)], and both reify to the value-level results;
    the value-level model does not return OOB / OutOfFuel *)
Theorem C16_heap_detach_post_is : forall St G doc r F' v,
  detach_post St G doc r F' v <->
  match v with
  | Ok None => r = None /\ F' = G ++ [doc]
  | Ok (Some (it, doc')) =>
      exists m pp p d cs (j : nat),
        r = Some (tid m) /\ subtree_t doc pp = Some (T p d cs) /\ cs !! j = Some m /\
        F' = (G ++ [put_t doc pp (T p d (delete j cs))]) ++ [m] /\
        reify St m = it /\ reify St (put_t doc pp (T p d (delete j cs))) = doc'
  | _ => False
  end.
Proof. exact (fun St G doc r F' v => conj (fun H => H) (fun H => H)). Qed.

(** STAGE 2.  [detach_path(object, path, case_sensitive)], document = last root of [G ++ [doc]], the path held in
    the readable string block [pb], never-failing allocator: the run returns normally; the string heap afterwards
    IS the string heap before (the copy of the path is allocated, split at the last '/', decoded in place and
    released on EVERY exit); the invariant holds for the new forest, in which [G] is literally unchanged; NoLeak is
    preserved; one fresh identity was consumed; and the result is the value-level one ([detach_post]). *)
Theorem C16_heap_detach_path : forall h G doc pb (sp : bytes) flag,
  MInv h (G ++ [doc]) -> pb ∈ h_live h -> h_str h !! pb = Some sp -> existsb (Z.eqb 0) sp = true ->
  exists h' r F',
    detach_path nofail (Some (tid doc)) (Some pb) flag h = Ret (r, h') /\
    MInv h' F' /\ h_str h' = h_str h /\ (NoLeak h (G ++ [doc]) -> NoLeak h' F') /\ h_next h' = Pos.succ (h_next h) /\
    detach_post (h_str h) G doc r F' (PatchDefs.detach_path (reify (h_str h) doc) (cstr sp) flag).
Proof. exact detach_path_refines. Qed.
Print Assumptions C16_heap_detach_path.

(** non-vacuity: the same concrete heap; "/a/1/b~0" detaches a member of a nested object (the token is decoded in
    place to "b~"), "/a/2" finds nothing; document and item read back from the result heap by the structural
    walk of CoreOps.v; the ledger is unchanged (the copy of the path is gone) *)
Theorem C16_heap_detach_example_runs :
  out_val px_det1 = Some (Some 5%positive) /\
  out_val (CoreOps.dump_node 50 (Some 1%positive) (px_heap_of px_det1)) = Some (Some (px_doc1, true)) /\
  out_val (CoreOps.dump_node 50 (Some 5%positive) (px_heap_of px_det1)) = Some (Some (px_num 5 (Some [98; 126]), true)) /\
  bool_decide (lib_live (px_heap_of px_det1) = lib_live px_heap) = true /\
  out_val px_det2 = Some None /\
  out_val (CoreOps.dump_node 50 (Some 1%positive) (px_heap_of px_det2)) = Some (Some (reify px_St px_doc, true)) /\
  bool_decide (lib_live (px_heap_of px_det2) = lib_live px_heap) = true /\
  out_val px_det3 = Some (Some 7%positive).
Proof. exact px_detach_runs. Qed.
Theorem C16_heap_detach_example_values :
  PatchDefs.detach_path (reify px_St px_doc) [47; 97; 47; 49; 47; 98; 126; 48] true = Ok (Some (px_num 5 (Some [98; 126]), px_doc1)) /\
  PatchDefs.detach_path (reify px_St px_doc) [47; 97; 47; 50] true = Ok None.
Proof. exact px_detach_values. Qed.
Theorem C16_heap_detach_nonvacuous :
  MInv px_heap ([px_ptrs] ++ [px_doc]) /\ NoLeak px_heap ([px_ptrs] ++ [px_doc]) /\
  201%positive ∈ h_live px_heap /\ h_str px_heap !! 201%positive = Some [47; 97; 47; 49; 47; 98; 126; 48; 0] /\
  exists h' r F',
    detach_path nofail (Some (tid px_doc)) (Some 201%positive) true px_heap = Ret (r, h') /\
    MInv h' F' /\ h_str h' = h_str px_heap /\ NoLeak h' F' /\
    detach_post (h_str px_heap) [px_ptrs] px_doc r F' (Ok (Some (px_num 5 (Some [98; 126]), px_doc1))).
Proof. exact px_stage2. Qed.
Print Assumptions C16_heap_detach_nonvacuous.

(** ------------------------------------------------------------------ 3./4. apply_patch: remove, add, replace, copy, move *)

(** the part of [apply_patch] after "Now, just add value to path": forest [(G ++ [doc]) ++ [v]] (the value to insert
    — a duplicate or the moved item — is the last root), the path in the string block of the patch's "path"
    member.  EVERY exit delivers [finish_goal]: the status and the document of [PatchDefs.finish_add]; on the
    failing exits (9: no parent / no '/', 10: index past the end, 11: not an index) the value has been deleted by
    the [cleanup:] block; the copy of the path is released on every exit; the model never reports OOB here. *)
Theorem C16_heap_finish_goal_is : forall h G doc v NL0 o hm vres,
  finish_goal h G doc v NL0 o hm vres <->
  match vres with
  | Ok (st, doc') =>
      exists h' docT,
        o = Ret (st, h') /\ MInv h' (G ++ [docT]) /\ tid docT = tid doc /\
        reify (h_str h') docT = doc' /\ KeepO h h' G /\ (NL0 -> NoLeak h' (G ++ [docT])) /\
        (h_next hm <= h_next h')%positive
  | _ => False
  end.
Proof. exact (fun h G doc v NL0 o hm vres => conj (fun H => H) (fun H => H)). Qed.

Theorem C16_heap_finish : forall h G doc x dx csx pn dpn cpn pb (sp : bytes) flag,
  MInv h ((G ++ [doc]) ++ [T x dx csx]) ->
  T pn dpn cpn ∈ nodes G -> rd_vstr dpn = Some pb ->
  pb ∈ h_live h -> h_str h !! pb = Some sp -> existsb (Z.eqb 0) sp = true ->
  finish_goal h G doc (T x dx csx) (NoLeak h ((G ++ [doc]) ++ [T x dx csx]))
    (apply_patch_finish nofail (Some (tid doc)) (Some pn) (Some x) flag h) h
    (PatchDefs.finish_add (reify (h_str h) doc) (reify (h_str h) (T x dx csx)) (cstr sp) flag).
Proof. exact finish_refines. Qed.
Print Assumptions C16_heap_finish.

(** the root cases *)
Theorem C16_heap_root_remove : forall h G r dr csr,
  MInv h (G ++ [T r dr csr]) ->
  exists h', patch_root_remove (Some r) h = Ret (tt, h') /\ MInv h' (G ++ [T r rd_invalid []]) /\
    (NoLeak h (G ++ [T r dr csr]) -> NoLeak h' (G ++ [T r rd_invalid []])) /\ KeepO h h' G /\ h_next h' = h_next h.
Proof. exact root_remove_step. Qed.
Theorem C16_heap_root_overwrite : forall h G r dr csr x dx csx,
  MInv h ((G ++ [T r dr csr]) ++ [T x dx csx]) ->
  exists h', patch_root_overwrite (Some r) (Some x) h = Ret (tt, h') /\ MInv h' (G ++ [T r (rd_unnamed dx) csx]) /\
    (NoLeak h ((G ++ [T r dr csr]) ++ [T x dx csx]) -> NoLeak h' (G ++ [T r (rd_unnamed dx) csx])) /\
    KeepO h h' G /\ h_next h' = h_next h /\
    reify (h_str h') (T r (rd_unnamed dx) csx) = PatchDefs.unnamed (reify (h_str h) (T x dx csx)).
Proof. exact root_overwrite_step. Qed.
Print Assumptions C16_heap_root_overwrite.

(** STAGES 3 and 4.  [apply_patch(object, patch, case_sensitive)] for the operations remove, add, replace, move,
    copy (the opcode is whatever the patch object says, except "test"): document = last root of [G ++ [doc]], patch
    object = a node of [G], invariant [MInv], never-failing allocator.  Whenever the value-level model returns
    [Ok (st, doc', pt')] (it returns OOB only for a String-typed "path"/"op"/"from" member WITHOUT a string, which
    is not a JSON value) with [st] neither 6 nor 8 (cJSON_Duplicate refusing a value nested deeper than
    CJSON_CIRCULAR_LIMIT: that exit of cJSON_Duplicate has no heap-level statement in the C11 development), the
    heap-level run
      - returns normally (no memory-error outcome) with the SAME status, on EVERY exit including the malformed-patch
        statuses 2, 3, 4, 5, 7, 9, 10, 11, 13;
      - re-establishes the invariant for [G ++ [docT]]: [G] — hence the patch — is literally unchanged and its
        strings keep their contents, [docT] carries the document's identity;
      - [reify docT] is exactly the value-level document — also where the operation FAILED after damaging the
        document (a replace whose "value" is missing has already deleted the old value: status 7);
      - preserves [NoLeak]: whatever was detached or duplicated has been released or re-attached. *)
Theorem C16_heap_apply_patch : forall h G doc pid dpt cpt flag,
  MInv h (G ++ [doc]) -> T pid dpt cpt ∈ nodes G ->
  PatchDefs.decode_patch_operation (reify (h_str h) (T pid dpt cpt)) flag <> Ok PatchDefs.TEST ->
  match PatchDefs.apply_patch (reify (h_str h) doc) (reify (h_str h) (T pid dpt cpt)) flag with
  | Ok (st, doc', pt') =>
      st <> 6 -> st <> 8 ->
      exists h' docT,
        apply_patch nofail (Some (tid doc)) (Some pid) flag h = Ret (st, h') /\ MInv h' (G ++ [docT]) /\
        tid docT = tid doc /\ reify (h_str h') docT = doc' /\ pt' = reify (h_str h) (T pid dpt cpt) /\
        KeepO h h' G /\ (NoLeak h (G ++ [doc]) -> NoLeak h' (G ++ [docT])) /\ (h_next h <= h_next h')%positive
  | _ => True
  end.
Proof. exact apply_patch_refines. Qed.
Print Assumptions C16_heap_apply_patch.

(** the value-level duplicate succeeds only for values nested at most CJSON_CIRCULAR_LIMIT deep *)
Theorem C16_heap_dup_height : forall St t v,
  PatchDefs.cJSON_Duplicate (reify St t) = Some v -> (CoreRefineDupForest.height t <= Z.to_nat c_CJSON_CIRCULAR_LIMIT)%nat.
Proof. exact dup_height. Qed.

(** non-vacuity: document {"a":[1,2],"b":{"c":3}} and ten operations (add into an array, remove a member, replace an
    element, move onto "-", copy to a new member, replace WITHOUT value, add past the end, add onto the root, add
    over an existing member, move into own child), each run by [vm_compute] on the concrete heap: status and
    resulting document (read back from the heap by the structural walk, links healthy) are those of the value-level
    model; the failing replace has removed the old value (DESIGN 11.6) *)
Theorem C16_heap_apply_example_runs :
  map pa_heap_result (seq 0 10) = map pa_model_result (seq 0 10) /\
  map pa_status (seq 0 10) = map Some [0; 0; 0; 0; 0; 7; 10; 0; 0; 9].
Proof. exact pa_runs. Qed.
Theorem C16_heap_replace_not_atomic_observed :
  pa_status 5 = Some 7 /\
  pa_doc_after 5 = Some (Some (vobj None [varr (Some [97]) [vnum 2 None]; vobj (Some [98]) [vnum 3 (Some [99])]], true)).
Proof. exact pa_replace_not_atomic. Qed.
Theorem C16_heap_apply_nonvacuous : forall (k : nat) t,
  tchildren pa_patches !! k = Some t ->
  PatchDefs.decode_patch_operation (reify (h_str pa_heap) t) true <> Ok PatchDefs.TEST ->
  MInv pa_heap (pa_G ++ [pa_doc]) /\ NoLeak pa_heap (pa_G ++ [pa_doc]) /\ t ∈ nodes pa_G /\
  match PatchDefs.apply_patch (reify (h_str pa_heap) pa_doc) (reify (h_str pa_heap) t) true with
  | Ok (st, doc', pt') =>
      st <> 6 -> st <> 8 ->
      exists h' docT,
        apply_patch nofail (Some (tid pa_doc)) (Some (tid t)) true pa_heap = Ret (st, h') /\
        MInv h' (pa_G ++ [docT]) /\ reify (h_str h') docT = doc' /\ NoLeak h' (pa_G ++ [docT])
  | _ => True
  end.
Proof. exact pa_stage34. Qed.
Print Assumptions C16_heap_apply_nonvacuous.

(** ------------------------------------------------------------------ 5. compare_json and the test operation *)

(** [all_keyed St t]: every member of an object node of [t] has a name (hypothesis of the C19 sort theorem) *)
Theorem C16_heap_all_keyed_is : forall St t,
  all_keyed St t <-> (forall i d cs, T i d cs ∈ nodes_t t -> Z.land (rd_type d) 255 = c_cJSON_Object -> Forall (has_key St) cs).
Proof. exact (fun St t => conj (fun H => H) (fun H => H)). Qed.

(** STAGE 5a.  The heap-level [compare_json] — which SORTS the objects it meets, in place — for two operands in two
    different roots: [ta] at path [pa] of [ra], [tb] at path [pb] of [rb], forest [F2 A B C ra rb = A ++ rb :: B ++ ra :: C].
    Whenever the value-level model returns [Ok (r, va', vb')] (with whatever fuel), the heap-level run returns [r], the
    invariant holds for the forest with the two operands replaced by [ta'], [tb'] (same identities and data; the members
    of objects reordered), which reify to the operands the model returns; strings, liveness, ownership tags and the
    allocator are untouched; the (identity, data) pairs of the forest are a permutation of those before. *)
Theorem C16_heap_compare_json : forall flag ta h A B C ra rb pa pb tb df lf vf r va' vb',
  MInv h (F2 A B C ra rb) -> subtree_t ra pa = Some ta -> subtree_t rb pb = Some tb ->
  all_keyed (h_str h) ta -> all_keyed (h_str h) tb ->
  (CoreRefineDupForest.height ta < df)%nat -> (Pos.to_nat (h_next h) <= lf)%nat ->
  PatchDefs.compare_json vf (reify (h_str h) ta) (reify (h_str h) tb) flag = Ok (r, va', vb') ->
  exists h' ta' tb',
    compare_json_fuel df lf (Some (tid ta)) (Some (tid tb)) flag h = Ret (r, h') /\
    MInv h' (F2 A B C (put_t ra pa ta') (put_t rb pb tb')) /\
    h_str h' = h_str h /\ h_live h' = h_live h /\ h_own h' = h_own h /\ h_next h' = h_next h /\
    reify (h_str h) ta' = va' /\ reify (h_str h) tb' = vb' /\
    tid ta' = tid ta /\ tid tb' = tid tb /\ tdata ta' = tdata ta /\ tdata tb' = tdata tb /\
    CoreRefineFrame.datas (F2 A B C (put_t ra pa ta') (put_t rb pb tb')) ≡ₚ CoreRefineFrame.datas (F2 A B C ra rb).
Proof. exact compare_rec. Qed.
Print Assumptions C16_heap_compare_json.

(** STAGE 5b.  [apply_patch] for the "test" operation: document [doc] (last root), the patch object at path [ppt] of the
    root [rb].  Status as the value-level model; the document and the patch object afterwards reify to the model's
    (members of compared objects sorted, in BOTH); the children of the patch object keep their identities and order;
    strings and allocator untouched; [NoLeak] preserved. *)
Theorem C16_heap_apply_patch_test : forall h A B doc rb ppt pid dpt cpt flag,
  MInv h (F2 A B [] doc rb) -> subtree_t rb ppt = Some (T pid dpt cpt) ->
  all_keyed (h_str h) doc -> all_keyed (h_str h) (T pid dpt cpt) ->
  PatchDefs.decode_patch_operation (reify (h_str h) (T pid dpt cpt)) flag = Ok PatchDefs.TEST ->
  match PatchDefs.apply_patch (reify (h_str h) doc) (reify (h_str h) (T pid dpt cpt)) flag with
  | Ok (st, doc', pt') =>
      exists h' docT ptT,
        apply_patch nofail (Some (tid doc)) (Some pid) flag h = Ret (st, h') /\ MInv h' (F2 A B [] docT (put_t rb ppt ptT)) /\
        tid docT = tid doc /\ tid ptT = pid /\ tdata ptT = dpt /\ tid <$> tchildren ptT = tid <$> cpt /\
        reify (h_str h) docT = doc' /\ reify (h_str h) ptT = pt' /\
        h_str h' = h_str h /\ h_next h' = h_next h /\
        (NoLeak h (F2 A B [] doc rb) -> NoLeak h' (F2 A B [] docT (put_t rb ppt ptT))) /\
        CoreRefineFrame.datas (F2 A B [] docT (put_t rb ppt ptT)) ≡ₚ CoreRefineFrame.datas (F2 A B [] doc rb)
  | _ => True
  end.
Proof. exact apply_patch_test_refines. Qed.
Print Assumptions C16_heap_apply_patch_test.

(** non-vacuity: document {"o":{"b":1,"a":2},"n":5}, operations test /o {"a":2,"b":1} (status 0; the document's object
    is left SORTED in the heap) and test /n 6 (status 1) *)
Theorem C16_heap_test_example_runs :
  out_val (pt_run 0) = Some 0 /\ out_val (pt_run 1) = Some 1 /\
  (match PatchDefs.apply_patch pt_doc_v (default pt_doc_v (pt_ops !! 0%nat)) true with
   | Ok (st, d, p) => st = 0 /\ pt_dump 0 (tid pt_doc) = Some (Some (d, true)) /\ pt_dump 0 (tid (pt_el 0)) = Some (Some (p, true))
   | _ => False
   end) /\
  pt_dump 0 (tid pt_doc) =
    Some (Some (vobj None [vobj (Some [111]) [vnum 2 (Some [97]); vnum 1 (Some [98])]; vnum 5 (Some [110])], true)) /\
  bool_decide (lib_live (out_heap (pt_run 0) pt_heap) = lib_live pt_heap) = true.
Proof. exact pt_runs. Qed.
Theorem C16_heap_test_nonvacuous :
  MInv pt_heap pt_F /\ NoLeak pt_heap pt_F /\ subtree_t pt_patches [0%nat] = Some (pt_el 0) /\
  all_keyed (h_str pt_heap) pt_doc /\ all_keyed (h_str pt_heap) (pt_el 0) /\
  PatchDefs.decode_patch_operation (reify (h_str pt_heap) (pt_el 0)) true = Ok PatchDefs.TEST /\
  exists h' docT ptT,
    apply_patch nofail (Some (tid pt_doc)) (Some (tid (pt_el 0))) true pt_heap = Ret (0, h') /\
    MInv h' (F2 [] [] [] docT (put_t pt_patches [0%nat] ptT)) /\ NoLeak h' (F2 [] [] [] docT (put_t pt_patches [0%nat] ptT)) /\
    reify (h_str pt_heap) docT = vobj None [vobj (Some [111]) [vnum 2 (Some [97]); vnum 1 (Some [98])]; vnum 5 (Some [110])].
Proof. exact pt_stage5. Qed.
Print Assumptions C16_heap_test_nonvacuous.

(** ------------------------------------------------------------------ 6. the entry points and the transfer of C16 *)

(** [vkeyed n]: every member of an object node of the VALUE [n] has a name; [run_ok object ps cs]: along the value-level
    run over the patch elements [ps], every document and element met is keyed, the model returns [Ok], no status is 6
    or 8 — a property of the value-level run alone *)
Theorem C16_heap_vkeyed_is : forall ty vs vi vd k cs,
  vkeyed (Tree.Node ty vs vi vd k cs) <->
  (Z.land ty 255 = c_cJSON_Object -> Forall (fun c => is_Some (Tree.n_key c)) cs) /\ Forall vkeyed cs.
Proof. exact vkeyed_unfold. Qed.
Theorem C16_heap_run_ok_is : forall object p r cs,
  run_ok object (p :: r) cs <->
  vkeyed object /\ vkeyed p /\
  match PatchDefs.apply_patch object p cs with
  | Ok (st, o, _) => st <> 6 /\ st <> 8 /\ (st = 0 -> run_ok o r cs)
  | _ => False
  end.
Proof. exact (fun object p r cs => conj (fun H => H) (fun H => H)). Qed.

(** one operation, whatever its opcode (stages 3-5 in one statement): document last root, the patch object at path [ppt]
    of the root [rb] *)
Theorem C16_heap_apply_patch_any : forall h A B doc rb ppt pid dpt cpt flag,
  MInv h (F2 A B [] doc rb) -> subtree_t rb ppt = Some (T pid dpt cpt) ->
  vkeyed (reify (h_str h) doc) -> vkeyed (reify (h_str h) (T pid dpt cpt)) ->
  match PatchDefs.apply_patch (reify (h_str h) doc) (reify (h_str h) (T pid dpt cpt)) flag with
  | Ok (st, _, _) => st <> 6 /\ st <> 8
  | _ => True
  end ->
  match PatchDefs.apply_patch (reify (h_str h) doc) (reify (h_str h) (T pid dpt cpt)) flag with
  | Ok (st, doc', pt') =>
      exists h' docT ptT,
        apply_patch nofail (Some (tid doc)) (Some pid) flag h = Ret (st, h') /\ MInv h' (F2 A B [] docT (put_t rb ppt ptT)) /\
        tid docT = tid doc /\ tid ptT = pid /\ tid <$> tchildren ptT = tid <$> cpt /\ tdata ptT = dpt /\
        reify (h_str h') docT = doc' /\ reify (h_str h') ptT = pt' /\
        (forall t, t ∈ nodes (A ++ rb :: B) -> reify (h_str h') t = reify (h_str h) t) /\ KeepO h h' (A ++ rb :: B) /\
        (NoLeak h (F2 A B [] doc rb) -> NoLeak h' (F2 A B [] docT (put_t rb ppt ptT))) /\ (h_next h <= h_next h')%positive
  | _ => True
  end.
Proof. exact apply_patch_any. Qed.
Print Assumptions C16_heap_apply_patch_any.

(** STAGE 6.  [cJSONUtils_ApplyPatches[CaseSensitive](object, patches)]: document = last root, the patch array = the node
    at path [ppa] of the root [rb].  For a value-level run that is [run_ok], the heap-level loop returns normally with the
    status the value-level entry point returns (1 for a non-array; else the first non-zero status, or 0), the invariant
    holds for the forest in which document and patch array are replaced by trees that reify to the value-level results
    (the patch elements unchanged except that [test] has sorted members), and [NoLeak] is preserved. *)
Theorem C16_heap_apply_patches : forall h A B doc rb ppa aid da elems flag,
  MInv h (F2 A B [] doc rb) -> subtree_t rb ppa = Some (T aid da elems) ->
  (Tree.is_array (reify (h_str h) (T aid da elems)) = true ->
   run_ok (reify (h_str h) doc) (map (reify (h_str h)) elems) flag) ->
  match PatchDefs.apply_patches (reify (h_str h) doc) (reify (h_str h) (T aid da elems)) flag with
  | Ok (st, doc', patches') =>
      exists h' docT arrT,
        apply_patches nofail (Some (tid doc)) (Some aid) flag h = Ret (st, h') /\
        MInv h' (F2 A B [] docT (put_t rb ppa arrT)) /\ tid docT = tid doc /\ tid arrT = aid /\
        reify (h_str h') docT = doc' /\ reify (h_str h') arrT = patches' /\
        (NoLeak h (F2 A B [] doc rb) -> NoLeak h' (F2 A B [] docT (put_t rb ppa arrT))) /\ (h_next h <= h_next h')%positive
  | _ => False
  end.
Proof. exact apply_patches_refines. Qed.
Print Assumptions C16_heap_apply_patches.

(** COROLLARY.  The C16 conformance theorem (Properties_C16.C16_conform) for the heap-level code: under its hypotheses on
    the REIFIED document and patch array, and [run_ok], the heap-level cJSONUtils_ApplyPatchesCaseSensitive returns 0
    exactly when the RFC 6902 evaluation succeeds, the document left in the heap is then [doc_same] (hence [doc_eq]) to
    the RFC's result and well-formed; otherwise the status is non-zero; in both cases the invariant holds and nothing leaks. *)
Theorem C16_heap_conform : forall h A B doc rb ppa aid da elems ops,
  MInv h (F2 A B [] doc rb) -> subtree_t rb ppa = Some (T aid da elems) ->
  let vdoc := reify (h_str h) doc in
  let vpatches := reify (h_str h) (T aid da elems) in
  PatchConform.dwf vdoc -> Rfc6902.ops_of vpatches = Some ops -> Forall PatchSeq2Op.op_wf2 (Tree.n_children vpatches) ->
  Forall PatchSeqAll.op_good ops -> PatchSeqAll.fits vdoc ops ->
  run_ok vdoc (Tree.n_children vpatches) true ->
  exists st h' docT arrT,
    cJSONUtils_ApplyPatchesCaseSensitive nofail (Some (tid doc)) (Some aid) h = Ret (st, h') /\
    MInv h' (F2 A B [] docT (put_t rb ppa arrT)) /\ tid docT = tid doc /\ tid arrT = aid /\
    (NoLeak h (F2 A B [] doc rb) -> NoLeak h' (F2 A B [] docT (put_t rb ppa arrT))) /\
    match Rfc6902.eval vdoc ops with
    | Some d' => st = 0 /\ PatchExact.doc_same (reify (h_str h') docT) d' /\ Rfc6902.doc_eq (reify (h_str h') docT) d' /\
                 PatchConform.dwf (reify (h_str h') docT)
    | None => st <> 0
    end.
Proof. exact c16_heap_conform. Qed.
Print Assumptions C16_heap_conform.

(** non-vacuity: the five-operation example of Properties_C16 (add, test, move, copy, remove on
    {"a/b":[1,2,{"~k":3}],"c":"x"}) and its failing variant, as heaps: the heap-level entry point run by [vm_compute]
    returns 0 resp. 1 and leaves the document the value-level model computes; the hypotheses of [C16_heap_conform] hold
    and give a result document [doc_same] to the RFC 6902 evaluation, with [NoLeak] *)
Theorem C16_heap_entry_example_runs :
  out_val py_run = Some 0 /\ out_val py_run_bad = Some 1 /\
  (match PatchDefs.cJSONUtils_ApplyPatchesCaseSensitive PatchSeqAll.y_doc PatchSeqAll.y_patch with
   | Ok (st, d, _) => st = 0 /\ out_val (CoreOps.dump_node 50 (Some (tid py_doc)) (out_heap py_run py_heap)) = Some (Some (d, true))
   | _ => False
   end) /\
  (match PatchDefs.cJSONUtils_ApplyPatchesCaseSensitive PatchSeqAll.y_doc PatchSeqAll.y_patch_bad with
   | Ok (st, d, _) => st = 1 /\ out_val (CoreOps.dump_node 50 (Some (tid py_doc)) (out_heap py_run_bad py_heap)) = Some (Some (d, true))
   | _ => False
   end).
Proof. exact py_runs. Qed.
Theorem C16_heap_conform_nonvacuous :
  MInv py_heap py_F /\ NoLeak py_heap py_F /\ run_ok PatchSeqAll.y_doc (Tree.n_children PatchSeqAll.y_patch) true /\
  exists e h' docT arrT,
    Rfc6902.eval PatchSeqAll.y_doc PatchSeqAll.y_ops = Some e /\
    cJSONUtils_ApplyPatchesCaseSensitive nofail (Some (tid py_doc)) (Some (tid py_patches)) py_heap = Ret (0, h') /\
    MInv h' (F2 [] [py_bad] [] docT (put_t py_patches [] arrT)) /\ NoLeak h' (F2 [] [py_bad] [] docT (put_t py_patches [] arrT)) /\
    PatchExact.doc_same (reify (h_str h') docT) e.
Proof. exact py_stage6. Qed.
Print Assumptions C16_heap_conform_nonvacuous.

(** ------------------------------------------------------------------ 7. statuses 6 and 8 without any allocation failure *)
From CJ Require Import PatchHeapDup PatchHeapDupTest PatchHeapDupLoop PatchHeapDupEx PatchHeapStatic PatchHeapStaticEx.

(** The value-level duplicate fails exactly for a value with more than CJSON_CIRCULAR_LIMIT levels below it … *)
Theorem C16_heap_dup_refused_iff : forall St t,
  PatchDefs.cJSON_Duplicate (reify St t) = None <-> (Z.to_nat c_CJSON_CIRCULAR_LIMIT < CoreRefineDupForest.height t)%nat.
Proof. exact dup_value_iff. Qed.

(** … and on such a node of the forest the heap-level cJSON_Duplicate (never-failing allocator) returns NULL: what it
    built has been released — links, node data, strings, liveness and the ledger are those of the heap before, only
    the allocator's counters advanced; the invariant and [NoLeak] hold for the SAME forest. *)
Theorem C16_heap_dup_refused : forall h F pp tp,
  MInv h F -> Forest.find_tree pp F = Some tp -> (Z.to_nat c_CJSON_CIRCULAR_LIMIT < CoreRefineDupForest.height tp)%nat ->
  exists h', cJSON_Duplicate nofail (Some pp) true h = Ret (None, h') /\
    MInv h' F /\ (NoLeak h F -> NoLeak h' F) /\
    h_lnk h' = h_lnk h /\ h_dat h' = h_dat h /\ h_str h' = h_str h /\ h_live h' = h_live h /\
    lib_live h' = lib_live h /\ (h_next h <= h_next h')%positive.
Proof. exact step_dup_refused. Qed.
Print Assumptions C16_heap_dup_refused.

(** STAGES 3 and 4 for EVERY status.  [C16_heap_apply_patch] without the side condition "st neither 6 nor 8": also when
    the value-level model returns 8 (add / replace whose "value" is nested deeper than the limit) or 6 (copy of such a
    source) the heap-level run returns the same status, the invariant holds, [reify docT] is the value-level document
    — for replace the OLD VALUE IS ALREADY GONE (the model says so: the document returned with status 8 is the document
    without the member) —, [G] is untouched and nothing leaks (the partial copy has been released). *)
Theorem C16_heap_apply_patch_all : forall h G doc pid dpt cpt flag,
  MInv h (G ++ [doc]) -> T pid dpt cpt ∈ nodes G ->
  PatchDefs.decode_patch_operation (reify (h_str h) (T pid dpt cpt)) flag <> Ok PatchDefs.TEST ->
  match PatchDefs.apply_patch (reify (h_str h) doc) (reify (h_str h) (T pid dpt cpt)) flag with
  | Ok (st, doc', pt') =>
      exists h' docT,
        apply_patch nofail (Some (tid doc)) (Some pid) flag h = Ret (st, h') /\ MInv h' (G ++ [docT]) /\
        tid docT = tid doc /\ reify (h_str h') docT = doc' /\ pt' = reify (h_str h) (T pid dpt cpt) /\
        KeepO h h' G /\ (NoLeak h (G ++ [doc]) -> NoLeak h' (G ++ [docT])) /\ (h_next h <= h_next h')%positive
  | _ => True
  end.
Proof. exact apply_patch_refines_all. Qed.
Print Assumptions C16_heap_apply_patch_all.

(** [value_keyed p cs]: when [p] is a [test] operation, its "value" member is keyed (the only part of an operation
    object that compare_json sorts); [run_keyed]: [run_ok] without "no status is 6 or 8" and with [vkeyed p] weakened
    to [value_keyed p] *)
Theorem C16_heap_value_keyed_is : forall p cs,
  value_keyed p cs <->
  (PatchDefs.decode_patch_operation p cs = Ok PatchDefs.TEST ->
   match CompareDefs.get_object_item p (Some PatchDefs.s_value) cs with Some (_, v) => vkeyed v | None => True end).
Proof. exact (fun p cs => conj (fun H => H) (fun H => H)). Qed.
Theorem C16_heap_run_keyed_is : forall object p r cs,
  run_keyed object (p :: r) cs <->
  vkeyed object /\ value_keyed p cs /\
  match PatchDefs.apply_patch object p cs with
  | Ok (st, o, _) => st = 0 -> run_keyed o r cs
  | _ => False
  end.
Proof. exact (fun object p r cs => conj (fun H => H) (fun H => H)). Qed.
Theorem C16_heap_run_ok_keyed : forall object ps cs, run_ok object ps cs -> run_keyed object ps cs.
Proof. exact run_keyed_of_run_ok. Qed.

(** one operation, whatever its opcode, whatever its status *)
Theorem C16_heap_apply_patch_any_all : forall h A B doc rb ppt pid dpt cpt flag,
  MInv h (F2 A B [] doc rb) -> subtree_t rb ppt = Some (T pid dpt cpt) ->
  vkeyed (reify (h_str h) doc) -> value_keyed (reify (h_str h) (T pid dpt cpt)) flag ->
  match PatchDefs.apply_patch (reify (h_str h) doc) (reify (h_str h) (T pid dpt cpt)) flag with
  | Ok (st, doc', pt') =>
      exists h' docT ptT,
        apply_patch nofail (Some (tid doc)) (Some pid) flag h = Ret (st, h') /\ MInv h' (F2 A B [] docT (put_t rb ppt ptT)) /\
        tid docT = tid doc /\ tid ptT = pid /\ tid <$> tchildren ptT = tid <$> cpt /\ tdata ptT = dpt /\
        reify (h_str h') docT = doc' /\ reify (h_str h') ptT = pt' /\
        (forall t, t ∈ nodes (A ++ rb :: B) -> reify (h_str h') t = reify (h_str h) t) /\ KeepO h h' (A ++ rb :: B) /\
        (NoLeak h (F2 A B [] doc rb) -> NoLeak h' (F2 A B [] docT (put_t rb ppt ptT))) /\ (h_next h <= h_next h')%positive
  | _ => True
  end.
Proof. exact apply_patch_any_all. Qed.
Print Assumptions C16_heap_apply_patch_any_all.

(** STAGE 6 for every status *)
Theorem C16_heap_apply_patches_all : forall h A B doc rb ppa aid da elems flag,
  MInv h (F2 A B [] doc rb) -> subtree_t rb ppa = Some (T aid da elems) ->
  (Tree.is_array (reify (h_str h) (T aid da elems)) = true ->
   run_keyed (reify (h_str h) doc) (map (reify (h_str h)) elems) flag) ->
  match PatchDefs.apply_patches (reify (h_str h) doc) (reify (h_str h) (T aid da elems)) flag with
  | Ok (st, doc', patches') =>
      exists h' docT arrT,
        apply_patches nofail (Some (tid doc)) (Some aid) flag h = Ret (st, h') /\
        MInv h' (F2 A B [] docT (put_t rb ppa arrT)) /\ tid docT = tid doc /\ tid arrT = aid /\
        reify (h_str h') docT = doc' /\ reify (h_str h') arrT = patches' /\
        (NoLeak h (F2 A B [] doc rb) -> NoLeak h' (F2 A B [] docT (put_t rb ppa arrT))) /\ (h_next h <= h_next h')%positive
  | _ => False
  end.
Proof. exact apply_patches_refines_all. Qed.
Print Assumptions C16_heap_apply_patches_all.

(** non-vacuity: document {"a":1,"d":D}, patch array [replace /a D; copy /d to /e; add "" D] with D nested 10002 arrays
    deep (30 019 nodes).  The invariant of the concrete heap is established from checks on the FOREST; the
    heap-level interpreter is not run: what it does follows from the theorems above and the value-level model, which
    is evaluated: statuses 8, 6, 8; the refused replace has removed "a". *)
Theorem C16_heap_deep_example_values :
  pd_model 0 = Some (8, vobj None [pd_deep (Some [100])]) /\
  pd_model 1 = Some (6, pd_doc_v) /\
  pd_model 2 = Some (8, pd_doc_v) /\
  PatchDefs.cJSON_Duplicate (pd_deep None) = None /\
  match PatchDefs.cJSONUtils_ApplyPatchesCaseSensitive pd_doc_v pd_patches_v with
  | Ok (st, d, _) => st = 8 /\ d = vobj None [pd_deep (Some [100])]
  | _ => False
  end.
Proof. exact pd_values. Qed.
Theorem C16_heap_deep_example_is :
  MInv pd_heap (pd_G ++ [pd_doc]) /\ NoLeak pd_heap (pd_G ++ [pd_doc]) /\
  length (Forest.ids (pd_G ++ [pd_doc])) = 30019%nat /\
  (Z.to_nat c_CJSON_CIRCULAR_LIMIT < CoreRefineDupForest.height pd_doc)%nat /\
  reify (h_str pd_heap) pd_doc = pd_doc_v /\ reify (h_str pd_heap) pd_patches = pd_patches_v /\
  (forall k, (k < 3)%nat -> tchildren pd_patches !! k = Some (pd_el k)) /\
  (forall k, (k < 3)%nat -> reify (h_str pd_heap) (pd_el k) = default pd_doc_v (pd_ops !! k)).
Proof.
  exact (conj pd_MInv (conj pd_NoLeak (conj (proj1 pd_size) (conj (proj2 pd_size) (conj (proj1 pd_reify) (conj (proj2 pd_reify)
    (conj (proj1 pd_els) (proj2 (proj2 pd_els))))))))).
Qed.
Theorem C16_heap_statuses_8_6_observed :
  (exists h' docT, apply_patch nofail (Some (tid pd_doc)) (Some (tid (pd_el 0))) true pd_heap = Ret (8, h') /\
     MInv h' (pd_G ++ [docT]) /\ NoLeak h' (pd_G ++ [docT]) /\ reify (h_str h') docT = vobj None [pd_deep (Some [100])]) /\
  (exists h' docT, apply_patch nofail (Some (tid pd_doc)) (Some (tid (pd_el 1))) true pd_heap = Ret (6, h') /\
     MInv h' (pd_G ++ [docT]) /\ NoLeak h' (pd_G ++ [docT]) /\ reify (h_str h') docT = pd_doc_v) /\
  (exists h' docT, apply_patch nofail (Some (tid pd_doc)) (Some (tid (pd_el 2))) true pd_heap = Ret (8, h') /\
     MInv h' (pd_G ++ [docT]) /\ NoLeak h' (pd_G ++ [docT]) /\ reify (h_str h') docT = pd_doc_v).
Proof. exact pd_observed. Qed.
Print Assumptions C16_heap_statuses_8_6_observed.
Theorem C16_heap_entry_status_8_observed :
  run_keyed pd_doc_v pd_ops true /\
  exists h' docT arrT,
    cJSONUtils_ApplyPatchesCaseSensitive nofail (Some (tid pd_doc)) (Some (tid pd_patches)) pd_heap = Ret (8, h') /\
    MInv h' (F2 [] [] [] docT (put_t pd_patches [] arrT)) /\ NoLeak h' (F2 [] [] [] docT (put_t pd_patches [] arrT)) /\
    reify (h_str h') docT = vobj None [pd_deep (Some [100])].
Proof. exact pd_entry. Qed.
Print Assumptions C16_heap_entry_status_8_observed.

(** ------------------------------------------------------------------ 8. the run condition is derived *)

(** a well-formed document is keyed; the "value" member of a [test] operation with a well-formed operand is keyed *)
Theorem C16_heap_dwf_vkeyed : forall n, PatchConform.dwf n -> vkeyed n.
Proof. exact dwf_vkeyed. Qed.
Theorem C16_heap_value_keyed_of_op : forall p o,
  PatchSeq2Op.op_wf2 p -> Rfc6902.op_of p = Some o -> PatchMove.op_values_ok o -> value_keyed p true.
Proof. exact value_keyed_of_op. Qed.

(** under the hypotheses of the value-level sequence theorem (Properties_C16.C16_conform) the run condition holds *)
Theorem C16_heap_run_keyed_derived : forall doc patches ops,
  PatchConform.dwf doc -> Rfc6902.ops_of patches = Some ops -> Forall PatchSeq2Op.op_wf2 (Tree.n_children patches) ->
  Forall PatchSeqAll.op_good ops -> PatchSeqAll.fits doc ops ->
  run_keyed doc (Tree.n_children patches) true.
Proof. exact run_keyed_conform. Qed.
Print Assumptions C16_heap_run_keyed_derived.

(** COROLLARY.  [C16_heap_conform] WITHOUT the run condition: the hypotheses of Properties_C16.C16_conform on the reified
    document and patch array, and the invariant — nothing about the run. *)
Theorem C16_heap_conform_all : forall h A B doc rb ppa aid da elems ops,
  MInv h (F2 A B [] doc rb) -> subtree_t rb ppa = Some (T aid da elems) ->
  let vdoc := reify (h_str h) doc in
  let vpatches := reify (h_str h) (T aid da elems) in
  PatchConform.dwf vdoc -> Rfc6902.ops_of vpatches = Some ops -> Forall PatchSeq2Op.op_wf2 (Tree.n_children vpatches) ->
  Forall PatchSeqAll.op_good ops -> PatchSeqAll.fits vdoc ops ->
  exists st h' docT arrT,
    cJSONUtils_ApplyPatchesCaseSensitive nofail (Some (tid doc)) (Some aid) h = Ret (st, h') /\
    MInv h' (F2 A B [] docT (put_t rb ppa arrT)) /\ tid docT = tid doc /\ tid arrT = aid /\
    (NoLeak h (F2 A B [] doc rb) -> NoLeak h' (F2 A B [] docT (put_t rb ppa arrT))) /\
    match Rfc6902.eval vdoc ops with
    | Some d' => st = 0 /\ PatchExact.doc_same (reify (h_str h') docT) d' /\ Rfc6902.doc_eq (reify (h_str h') docT) d' /\
                 PatchConform.dwf (reify (h_str h') docT)
    | None => st <> 0
    end.
Proof. exact c16_heap_conform_fits. Qed.
Print Assumptions C16_heap_conform_all.

(** … and with the STATIC hypotheses of Properties_C16.C16_conform_static: they look at the initial document and the
    patch only (well-formed document; patch array read by RFC 6902 as [ops]; members of the operation objects named by C
    strings, their String-typed members C strings of unsigned chars; well-formed duplicable "value" operands; no removal
    of the whole document; widths + number of operations within SIZE_MAX; depth budget within CJSON_CIRCULAR_LIMIT). *)
Theorem C16_heap_conform_static : forall h A B doc rb ppa aid da elems ops,
  MInv h (F2 A B [] doc rb) -> subtree_t rb ppa = Some (T aid da elems) ->
  let vdoc := reify (h_str h) doc in
  let vpatches := reify (h_str h) (T aid da elems) in
  PatchConform.dwf vdoc -> Rfc6902.ops_of vpatches = Some ops ->
  Forall PatchSeq2Op.op_wf2 (Tree.n_children vpatches) -> Forall PatchSeq2Fit.op_cstr (Tree.n_children vpatches) ->
  Forall PatchMove.op_values_ok ops -> ~ In (Rfc6902.Remove []) ops ->
  Z.of_nat (Nat.max (PatchSeq2Fit.width vdoc) (PatchSeq2Fit.opsw ops) + length ops) <= PointerDefs.SIZE_MAX ->
  Z.of_nat (PatchSeq2Fit.dbound (Tree.node_depth vdoc) ops) <= c_CJSON_CIRCULAR_LIMIT ->
  exists st h' docT arrT,
    cJSONUtils_ApplyPatchesCaseSensitive nofail (Some (tid doc)) (Some aid) h = Ret (st, h') /\
    MInv h' (F2 A B [] docT (put_t rb ppa arrT)) /\ tid docT = tid doc /\ tid arrT = aid /\
    (NoLeak h (F2 A B [] doc rb) -> NoLeak h' (F2 A B [] docT (put_t rb ppa arrT))) /\
    match Rfc6902.eval vdoc ops with
    | Some d' => st = 0 /\ PatchExact.doc_same (reify (h_str h') docT) d' /\ Rfc6902.doc_eq (reify (h_str h') docT) d' /\
                 PatchConform.dwf (reify (h_str h') docT)
    | None => st <> 0
    end.
Proof. exact c16_heap_conform_static. Qed.
Print Assumptions C16_heap_conform_static.

(** non-vacuity: the static hypotheses hold on the five-operation heap of section 6, and the conclusion there *)
Theorem C16_heap_conform_static_nonvacuous :
  let vdoc := reify (h_str py_heap) py_doc in
  let vpatches := reify (h_str py_heap) py_patches in
  MInv py_heap py_F /\ NoLeak py_heap py_F /\
  PatchConform.dwf vdoc /\ Rfc6902.ops_of vpatches = Some PatchSeqAll.y_ops /\
  Forall PatchSeq2Op.op_wf2 (Tree.n_children vpatches) /\ Forall PatchSeq2Fit.op_cstr (Tree.n_children vpatches) /\
  Forall PatchMove.op_values_ok PatchSeqAll.y_ops /\ ~ In (Rfc6902.Remove []) PatchSeqAll.y_ops /\
  Z.of_nat (Nat.max (PatchSeq2Fit.width vdoc) (PatchSeq2Fit.opsw PatchSeqAll.y_ops) + length PatchSeqAll.y_ops) <= PointerDefs.SIZE_MAX /\
  Z.of_nat (PatchSeq2Fit.dbound (Tree.node_depth vdoc) PatchSeqAll.y_ops) <= c_CJSON_CIRCULAR_LIMIT /\
  exists e h' docT arrT,
    Rfc6902.eval vdoc PatchSeqAll.y_ops = Some e /\
    cJSONUtils_ApplyPatchesCaseSensitive nofail (Some (tid py_doc)) (Some (tid py_patches)) py_heap = Ret (0, h') /\
    MInv h' (F2 [] [py_bad] [] docT (put_t py_patches [] arrT)) /\ NoLeak h' (F2 [] [py_bad] [] docT (put_t py_patches [] arrT)) /\
    PatchExact.doc_same (reify (h_str h') docT) e.
Proof. exact py_static. Qed.
Print Assumptions C16_heap_conform_static_nonvacuous.

(** ------------------------------------------------------------------ 9. allocation failure: an ARBITRARY oracle *)
From CJ Require Import PatchHeapFailDefs PatchHeapFailCons PatchHeapFail PatchHeapFailFinish PatchHeapFailApply PatchHeapFailTest
  PatchHeapFailLoop PatchHeapFailEx.

(** (a) the generic half, no hypothesis on the arguments: whenever the heap-level [apply_patch] / entry points RETURN from
    a sane heap — under ANY schedule of refused requests — the heap is sane again, identities were only handed out upwards,
    ownership tags are unchanged and every block the library only borrows is live with bit-identical contents *)
Theorem C16_heap_fail_conservative : forall oracle o p cs,
  CoreLedgerGen.Cons (apply_patch oracle o p cs) /\ CoreLedgerGen.Cons (cJSONUtils_ApplyPatches oracle o p) /\
  CoreLedgerGen.Cons (cJSONUtils_ApplyPatchesCaseSensitive oracle o p).
Proof.
  exact (fun oracle o p cs => conj (Cons_apply_patch oracle o p cs)
           (conj (Cons_cJSONUtils_ApplyPatches oracle o p) (Cons_cJSONUtils_ApplyPatchesCaseSensitive oracle o p))).
Qed.
Print Assumptions C16_heap_fail_conservative.

(** (b) the VALUE-level model with refusals (PatchHeapFailDefs.v): five flags, one per place where apply_patch requests
    memory — [f_rid] / [f_from]: the copy of the path inside detach_path (remove, replace / move): status 13 / 5; [f_dup]:
    cJSON_Duplicate: status 8 / 6; [f_path]: the copy of the path for the insertion: status 9, the value is deleted;
    [f_key]: the copy of the member name inside cJSON_AddItemToObject, whose result apply_patch IGNORES: status 0, the
    value is leaked.  Without refusals it is the model of Properties_C16. *)
Theorem C16_heap_fail_model_none : forall o p cs,
  apply_patch_f no_fails o p cs = ' (st, d, p') <- PatchDefs.apply_patch o p cs ;; Ok (st, d, p', None).
Proof. exact apply_patch_f_none. Qed.
Theorem C16_heap_fail_finish_is : forall fs object value pstr cs,
  finish_add_f fs object value pstr cs =
  if PatchDefs.is_nil pstr then Ok (0, PatchDefs.unnamed value, None)
  else if f_path fs then Ok (9, object, None)
  else
    match PatchDefs.last_slash pstr 0 None with
    | None => Ok (9, object, None)
    | Some i =>
        match PointerDefs.get_item_from_pointer object (take i pstr) cs with
        | None => Ok (9, object, None)
        | Some pp =>
            match Tree.subtree object pp with
            | None => Ok (9, object, None)
            | Some par =>
                if Tree.is_array par then
                  if strcmp (drop (S i) pstr) PatchDefs.s_dash =? 0 then
                    Ok (0, PatchDefs.put_subtree object pp (v_add_to_array par value), None)
                  else
                    match PointerDefs.decode_array_index_from_pointer (drop (S i) pstr) with
                    | None => Ok (11, object, None)
                    | Some idx =>
                        match v_insert_in_array par idx value with
                        | None => Ok (10, object, None)
                        | Some par' => Ok (0, PatchDefs.put_subtree object pp par', None)
                        end
                    end
                else if Tree.is_object par then
                  buf <- PatchDefs.decode_pointer_inplace (drop (S i) pstr ++ [0]) ;;
                  let par1 := v_delete_from_object par (cstr buf) cs in
                  if f_key fs then Ok (0, PatchDefs.put_subtree object pp par1, Some value)
                  else Ok (0, PatchDefs.put_subtree object pp (v_add_to_object par1 (cstr buf) value), None)
                else Ok (9, object, None)
            end
        end
    end.
Proof. exact finish_add_f_unfold. Qed.

(** (c) the steps.  [detach_path] makes ONE request, at its entry: refused — NULL from the heap with only the request
    counter advanced; granted — the run with the never-failing allocator (C16_heap_detach_path) *)
Theorem C16_heap_fail_detach_path : forall oracle h object pb (sp : bytes) flag,
  pb ∈ h_live h -> h_str h !! pb = Some sp -> existsb (Z.eqb 0) sp = true ->
  detach_path oracle object (Some pb) flag h =
  if oracle (h_req h) then Ret (None, bump h) else detach_path nofail object (Some pb) flag h.
Proof. exact detach_path_oracle. Qed.
(** [cJSON_Duplicate] of a node of the forest, any oracle: NULL with forest, strings and ledger as before (a refusal — the
    partial copy is released — or the nesting limit), or the copy the value-level model makes as a new last root *)
Theorem C16_heap_fail_duplicate : forall oracle h F pp tp,
  MInv h F -> Forest.find_tree pp F = Some tp ->
  (exists h', cJSON_Duplicate oracle (Some pp) true h = Ret (None, h') /\ MInv h' F /\ (NoLeak h F -> NoLeak h' F) /\
              h_str h' = h_str h /\ lib_live h' = lib_live h /\ (h_next h <= h_next h')%positive) \/
  (exists tc h', cJSON_Duplicate oracle (Some pp) true h = Ret (Some (tid tc), h') /\
                 MInv h' (F ++ [tc]) /\ (NoLeak h F -> NoLeak h' (F ++ [tc])) /\ KeepO h h' F /\
                 PatchDefs.cJSON_Duplicate (reify (h_str h) tp) = Some (reify (h_str h') tc) /\
                 (h_next h <= h_next h')%positive).
Proof. exact step_dup_oracle. Qed.
Print Assumptions C16_heap_fail_duplicate.
(** "Now, just add value to path", any oracle: the run refines [finish_add_f] for SOME choice of [f_path], [f_key]; with a
    leaked value ([Some lv]) the invariant and [NoLeak] hold for the forest with the value [v] as one more root *)
Theorem C16_heap_fail_finish : forall oracle h G doc x dx csx pn dpn cpn pb (sp : bytes) flag,
  MInv h ((G ++ [doc]) ++ [T x dx csx]) ->
  T pn dpn cpn ∈ nodes G -> rd_vstr dpn = Some pb ->
  pb ∈ h_live h -> h_str h !! pb = Some sp -> existsb (Z.eqb 0) sp = true ->
  exists fp fk : bool, forall fr ff fd,
  match finish_add_f (mkFails fr ff fd fp fk) (reify (h_str h) doc) (reify (h_str h) (T x dx csx)) (cstr sp) flag with
  | Ok (st, doc', lk) =>
      exists h' docT,
        apply_patch_finish oracle (Some (tid doc)) (Some pn) (Some x) flag h = Ret (st, h') /\ tid docT = tid doc /\
        reify (h_str h') docT = doc' /\ KeepO h h' G /\ (h_next h <= h_next h')%positive /\
        match lk with
        | None => MInv h' (G ++ [docT]) /\ (NoLeak h ((G ++ [doc]) ++ [T x dx csx]) -> NoLeak h' (G ++ [docT]))
        | Some lv => MInv h' ((G ++ [docT]) ++ [T x dx csx]) /\
                     (NoLeak h ((G ++ [doc]) ++ [T x dx csx]) -> NoLeak h' ((G ++ [docT]) ++ [T x dx csx])) /\
                     reify (h_str h') (T x dx csx) = lv
        end
  | _ => False
  end.
Proof. exact finish_oracle. Qed.
Print Assumptions C16_heap_fail_finish.

(** (d) ONE OPERATION, ANY ORACLE.  From [MInv h (G ++ [doc])] with the patch object in [G] (opcode anything but "test"):
    there is a choice [fs] of the refusal flags such that, whenever the model with refusals returns [Ok (st, doc', pt', lk)]
    (it returns OOB only for a String-typed "path"/"op"/"from" member without a string), the heap-level run
      - RETURNS NORMALLY — no memory-error outcome, whatever is refused — with status [st];
      - leaves a document that reifies to [doc'], [G] untouched;
      - [lk = None]: [MInv] and [NoLeak] for [G ++ [docT]] — nothing leaks: the statuses 13, 5, 8, 6, 9 of a refusal leave
        no garbage (a partial duplicate, the duplicate itself, a MOVED item are released);
      - [lk = Some lv] (status 0, the name copy inside cJSON_AddItemToObject refused): the value hangs nowhere; [MInv] and
        [NoLeak] hold for [(G ++ [docT]) ++ [v]] with [reify v = lv]: the leak is EXACTLY that tree. *)
Theorem C16_heap_fail_apply_patch : forall oracle h G doc pid dpt cpt flag,
  MInv h (G ++ [doc]) -> T pid dpt cpt ∈ nodes G ->
  PatchDefs.decode_patch_operation (reify (h_str h) (T pid dpt cpt)) flag <> Ok PatchDefs.TEST ->
  exists fs : fails,
  match apply_patch_f fs (reify (h_str h) doc) (reify (h_str h) (T pid dpt cpt)) flag with
  | Ok (st, doc', pt', lk) =>
      exists h' docT,
        apply_patch oracle (Some (tid doc)) (Some pid) flag h = Ret (st, h') /\ tid docT = tid doc /\
        reify (h_str h') docT = doc' /\ pt' = reify (h_str h) (T pid dpt cpt) /\ KeepO h h' G /\
        (h_next h <= h_next h')%positive /\
        match lk with
        | None => MInv h' (G ++ [docT]) /\ (NoLeak h (G ++ [doc]) -> NoLeak h' (G ++ [docT]))
        | Some lv => exists v, MInv h' ((G ++ [docT]) ++ [v]) /\ (NoLeak h (G ++ [doc]) -> NoLeak h' ((G ++ [docT]) ++ [v])) /\
                               reify (h_str h') v = lv
        end
  | _ => True
  end.
Proof. exact apply_patch_oracle. Qed.
Print Assumptions C16_heap_fail_apply_patch.

(** a leaked root is outside the ledger of the rest: with [lk = Some lv], [NoLeak h' (G ++ [docT])] is FALSE *)
Theorem C16_heap_fail_leak_is_a_leak : forall h G docT v, MInv h ((G ++ [docT]) ++ [v]) -> ~ NoLeak h (G ++ [docT]).
Proof. exact leaked_root_not_NoLeak. Qed.

(** the [test] operation makes no request: C16_heap_apply_patch_test holds verbatim for every oracle *)
Theorem C16_heap_fail_test : forall oracle h A B doc rb ppt pid dpt cpt flag,
  MInv h (F2 A B [] doc rb) -> subtree_t rb ppt = Some (T pid dpt cpt) ->
  all_keyed (h_str h) doc ->
  (forall vi m, found_member (h_str h) flag PatchDefs.s_value cpt = Some (vi, m) -> all_keyed (h_str h) m) ->
  PatchDefs.decode_patch_operation (reify (h_str h) (T pid dpt cpt)) flag = Ok PatchDefs.TEST ->
  test_post h A B doc rb ppt pid dpt cpt (apply_patch oracle (Some (tid doc)) (Some pid) flag h)
    (PatchDefs.apply_patch (reify (h_str h) doc) (reify (h_str h) (T pid dpt cpt)) flag).
Proof. exact apply_patch_test_refines_o. Qed.
Print Assumptions C16_heap_fail_test.

(** (e) THE ENTRY POINTS, ANY ORACLE.  [apply_patches_f fss]: the loop of the model with one record of refusal flags per
    operation met; [run_okf]: when an operation met is a [test], the document at that moment and the operation's "value"
    member are keyed — for every schedule (the oracle chooses it); it holds for patch arrays without [test].  Then: the run
    returns normally, status / document / patch array are those of [apply_patches_f fss] for SOME [fss], the invariant
    holds for the forest in which the leaked values [L] are additional roots, and [NoLeak] holds for that forest. *)
Theorem C16_heap_fail_run_okf_is : forall fss object p r cs,
  run_okf fss object (p :: r) cs <->
  (PatchDefs.decode_patch_operation p cs = Ok PatchDefs.TEST -> vkeyed object) /\ value_keyed p cs /\
  match apply_patch_f (hd no_fails fss) object p cs with
  | Ok (st, o, _, _) => st = 0 -> run_okf (tl fss) o r cs
  | _ => True
  end.
Proof. exact (fun fss object p r cs => conj (fun H => H) (fun H => H)). Qed.
Theorem C16_heap_fail_run_okf_no_test : forall ps cs,
  Forall (fun p => PatchDefs.decode_patch_operation p cs <> Ok PatchDefs.TEST) ps ->
  forall fss object, run_okf fss object ps cs.
Proof. exact run_okf_no_test. Qed.
Theorem C16_heap_fail_apply_patches : forall oracle h A B doc rb ppa aid da elems flag,
  MInv h (F2 A B [] doc rb) -> subtree_t rb ppa = Some (T aid da elems) ->
  (Tree.is_array (reify (h_str h) (T aid da elems)) = true ->
   forall fss, run_okf fss (reify (h_str h) doc) (map (reify (h_str h)) elems) flag) ->
  exists fss : list fails,
  match apply_patches_f fss (reify (h_str h) doc) (reify (h_str h) (T aid da elems)) flag with
  | Ok (st, doc', patches', lks) =>
      exists h' docT arrT L,
        apply_patches oracle (Some (tid doc)) (Some aid) flag h = Ret (st, h') /\
        MInv h' (F2 (L ++ A) B [] docT (put_t rb ppa arrT)) /\ tid docT = tid doc /\ tid arrT = aid /\
        reify (h_str h') docT = doc' /\ reify (h_str h') arrT = patches' /\ reify (h_str h') <$> L = lks /\
        (NoLeak h (F2 A B [] doc rb) -> NoLeak h' (F2 (L ++ A) B [] docT (put_t rb ppa arrT))) /\ (h_next h <= h_next h')%positive
  | _ => True
  end.
Proof. exact apply_patches_oracle. Qed.
Print Assumptions C16_heap_fail_apply_patches.

(** (f) OBSERVED on the concrete heap of section 3/4 (document {"a":[1,2],"b":{"c":3}}), the transliteration RUN with an
    oracle that refuses exactly the k-th request ([refuse k]), next to the model with refusals:
    add /b/c "y" — requests 0 1 2 (duplicate): status 8, document untouched, nothing new live; request 3 (copy of the path):
    status 9, likewise; request 4 (copy of the name "c" inside cJSON_AddItemToObject): status 0, the member "c" is GONE
    ({"a":[1,2],"b":{}}), and the duplicate (node 1000, its valuestring 1001, its key "value" 1002) is live and linked
    nowhere.  The real library behaves identically (ASan/LSan probe with malloc hooks: status 0, {"a":[1,2],"b":{}},
    "72 byte(s) leaked in 3 allocation(s)"). *)
Theorem C16_heap_alloc_failure_observed :
  map (pf_status 8) [0; 1; 2]%nat = [Some 8; Some 8; Some 8] /\
  map (pf_doc_after 8) [0; 1; 2]%nat = [Some (Some (pa_doc_v, true)); Some (Some (pa_doc_v, true)); Some (Some (pa_doc_v, true))] /\
  map (pf_new_live 8) [0; 1; 2]%nat = [[]; []; []] /\
  pf_model (mkFails false false true false false) 8 = Some (8, pa_doc_v, None) /\
  pf_status 8 3 = Some 9 /\ pf_doc_after 8 3 = Some (Some (pa_doc_v, true)) /\ pf_new_live 8 3 = [] /\
  pf_model (mkFails false false false true false) 8 = Some (9, pa_doc_v, None) /\
  pf_status 8 4 = Some 0 /\ pf_doc_after 8 4 = Some (Some (pa_b_empty, true)) /\
  pf_new_live 8 4 = [1000; 1002; 1001]%positive /\
  h_lnk (out_heap (pf_run 8 4) pa_heap) !! 1000%positive = Some (None, None) /\
  out_val (CoreOps.dump_node 50 (Some 1000%positive) (out_heap (pf_run 8 4) pa_heap)) = Some (Some (vstr [121] (Some PatchDefs.s_value), true)) /\
  pf_model (mkFails false false false false true) 8 = Some (0, pa_b_empty, Some (vstr [121] (Some PatchDefs.s_value))) /\
  pf_status 8 5 = Some 0 /\ pf_new_live 8 5 = [1000; 1004; 1001]%positive.
Proof. exact pf_add_runs. Qed.
Print Assumptions C16_heap_alloc_failure_observed.
Theorem C16_heap_alloc_failure_run_is : forall op k,
  pf_run op k = apply_patch (fun n => Nat.eqb n k) (Some (tid pa_doc)) (Some (tid (pa_pt op))) true pa_heap /\
  pf_status op k = out_val (pf_run op k) /\
  pf_doc_after op k = out_val (CoreOps.dump_node 50 (Some (tid pa_doc)) (out_heap (pf_run op k) pa_heap)) /\
  pf_new_live op k = filter (fun b => bool_decide (b ∉ lib_live pa_heap)) (elements (lib_live (out_heap (pf_run op k) pa_heap))).
Proof. exact (fun op k => conj eq_refl (conj eq_refl (conj eq_refl eq_refl))). Qed.
(** replace /a/0 "x": the copy of the path inside detach_path refused: 13 ("no such item"), document untouched; the duplicate
    refused: 8 AFTER the old value has been deleted.  move /b to /a/-: the copy of "from" refused: 5; the copy of the path for
    the insertion refused: 9 and the MOVED ITEM IS DESTROYED ({"a":[1,2]}) — also in the real library. *)
Theorem C16_heap_alloc_failure_replace_move_observed :
  (pf_status 2 0 = Some 13 /\ pf_doc_after 2 0 = Some (Some (pa_doc_v, true)) /\ pf_new_live 2 0 = [] /\
   pf_model (mkFails true false false false false) 2 = Some (13, pa_doc_v, None) /\
   pf_status 2 1 = Some 8 /\
   pf_doc_after 2 1 = Some (Some (vobj None [varr (Some [97]) [vnum 2 None]; vobj (Some [98]) [vnum 3 (Some [99])]], true)) /\
   pf_new_live 2 1 = [] /\
   pf_model (mkFails false false true false false) 2 =
     Some (8, vobj None [varr (Some [97]) [vnum 2 None]; vobj (Some [98]) [vnum 3 (Some [99])]], None)) /\
  (pf_status 3 0 = Some 5 /\ pf_doc_after 3 0 = Some (Some (pa_doc_v, true)) /\
   pf_model (mkFails false true false false false) 3 = Some (5, pa_doc_v, None) /\
   pf_status 3 1 = Some 9 /\
   pf_doc_after 3 1 = Some (Some (vobj None [varr (Some [97]) [vnum 1 None; vnum 2 None]], true)) /\ pf_new_live 3 1 = [] /\
   pf_model (mkFails false false false true false) 3 = Some (9, vobj None [varr (Some [97]) [vnum 1 None; vnum 2 None]], None)).
Proof. exact (conj pf_replace_runs pf_move_runs). Qed.

(** non-vacuity of (d) and (e): their hypotheses hold on that heap for EVERY oracle *)
Theorem C16_heap_fail_nonvacuous : forall (oracle : nat -> bool) (k : nat) t,
  tchildren pa_patches !! k = Some t ->
  PatchDefs.decode_patch_operation (reify (h_str pa_heap) t) true <> Ok PatchDefs.TEST ->
  exists fs : fails,
  match apply_patch_f fs (reify (h_str pa_heap) pa_doc) (reify (h_str pa_heap) t) true with
  | Ok (st, doc', pt', lk) =>
      exists h' docT,
        apply_patch oracle (Some (tid pa_doc)) (Some (tid t)) true pa_heap = Ret (st, h') /\
        reify (h_str h') docT = doc' /\
        match lk with
        | None => MInv h' (pa_G ++ [docT]) /\ NoLeak h' (pa_G ++ [docT])
        | Some lv => exists v, MInv h' ((pa_G ++ [docT]) ++ [v]) /\ NoLeak h' ((pa_G ++ [docT]) ++ [v]) /\
                               reify (h_str h') v = lv /\ ~ NoLeak h' (pa_G ++ [docT])
        end
  | _ => True
  end.
Proof. exact pf_stage. Qed.
Print Assumptions C16_heap_fail_nonvacuous.
Theorem C16_heap_fail_entry_nonvacuous : forall oracle : nat -> bool,
  exists fss : list fails,
  match apply_patches_f fss pa_doc_v pa_patches_v true with
  | Ok (st, doc', patches', lks) =>
      exists h' docT arrT L,
        cJSONUtils_ApplyPatchesCaseSensitive oracle (Some (tid pa_doc)) (Some (tid pa_patches)) pa_heap = Ret (st, h') /\
        MInv h' (F2 (L ++ []) [] [] docT (put_t pa_patches [] arrT)) /\
        NoLeak h' (F2 (L ++ []) [] [] docT (put_t pa_patches [] arrT)) /\
        reify (h_str h') docT = doc' /\ reify (h_str h') <$> L = lks
  | _ => True
  end.
Proof. exact pf_entry. Qed.
Print Assumptions C16_heap_fail_entry_nonvacuous.
