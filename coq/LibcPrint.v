(** LibcPrint.v — executable reference implementations of the C library conversions the
    printer of cJSON.c calls (external code, hence NOT transliterated from the repository):
    sprintf "%d", sprintf "%1.15g" / "%1.17g" on finite doubles, and sscanf "%lg" on the text
    just produced.  Exact unbounded integer arithmetic on Coq's SpecFloat doubles; correctly
    rounded (round-half-even on the exact binary value) like glibc.  These are what the
    extracted model runs; they are validated against glibc by the correspondence check on
    every number that flows through any case.  The property theorems do not unfold them: they
    quantify over every libc satisfying the named contracts ([PrintDefs.LibcPrintSpec],
    [RoundTripNum.LibcRoundTripSpec]); that THESE reference functions satisfy the round-trip
    contract is proved separately (LibcG17*.v, LibcG15*.v: [ref_roundtrip_spec]).
    No proofs here. *)
From Coq Require Import ZArith List Bool Floats.SpecFloat.
From CJ Require Import Base Dbl LibcNum.
Import ListNotations.
Local Open Scope Z_scope.

(** [k] decimal digits of [z] (most significant first, zero padded; the low [k] digits) *)
Fixpoint dec_fixed (k : nat) (z : Z) : bytes :=
  match k with
  | O => []
  | S k' => dec_fixed k' (z / 10) ++ [48 + z mod 10]
  end.

(** decimal digits of a non-negative integer, at least one digit *)
Definition dec_nat (z : Z) : bytes := dec_fixed (Z.to_nat (ndigits 2000 z)) z.

(** sprintf "%d" *)
Definition fmt_d (z : Z) : bytes :=
  if z <? 0 then 45 :: dec_nat (- z) else dec_nat z.

(** removal of trailing '0' characters *)
Fixpoint strip0 (l : bytes) : bytes :=
  match l with
  | [] => []
  | c :: r => match strip0 r with
              | [] => if c =? 48 then [] else [c]
              | r' => c :: r'
              end
  end.

Definition with_point (ip fp : bytes) : bytes :=
  match fp with [] => ip | _ => ip ++ 46 :: fp end.

(** the exponent part of the e-style: sign and at least two digits *)
Definition exp_part (x : Z) : bytes :=
  let a := Z.abs x in
  101 :: (if x <? 0 then 45 else 43) :: (if a <? 10 then 48 :: dec_nat a else dec_nat a).

(** normalisation of a positive rational n/d together with a decimal exponent x so that
    1 <= n/d < 10, keeping (n/d) * 10^x constant; the estimate is at most a few steps off *)
Fixpoint scale_down (fuel : nat) (n d x : Z) : Z * Z * Z :=
  match fuel with O => (n, d, x) | S f => if n <? d then scale_down f (n * 10) d (x - 1) else (n, d, x) end.
Fixpoint scale_up (fuel : nat) (n d x : Z) : Z * Z * Z :=
  match fuel with O => (n, d, x) | S f => if d * 10 <=? n then scale_up f n (d * 10) (x + 1) else (n, d, x) end.

(** sprintf "%1.<P>g" of a finite double.  (The field width 1 never pads.) *)
Definition fmt_g (P : Z) (d : dbl) : bytes :=
  match d with
  | S754_zero s => if s then [45; 48] else [48]
  | S754_finite s m e =>
      (* the exact value is num / den *)
      let num := if 0 <=? e then Zpos m * 2 ^ e else Zpos m in
      let den := if 0 <=? e then 1 else 2 ^ (- e) in
      (* X = floor (log10 (num / den)): an estimate from the bit lengths, then exact adjustment;
         afterwards value = (nS / dS) * 10^X with 1 <= nS / dS < 10 *)
      let x0 := ((Z.log2 num - Z.log2 den) * 30103) / 100000 in
      let t := 10 ^ (Z.abs x0) in
      let '(nS1, dS1, x1) := scale_down 8 (if 0 <=? x0 then num else num * t) (if 0 <=? x0 then den * t else den) x0 in
      let '(nS, dS, X) := scale_up 8 nS1 dS1 x1 in
      (* the P-digit integer nearest to value / 10^(X - P + 1), ties to even *)
      let N := nS * 10 ^ (P - 1) in
      let Dn := dS in
      let q := N / Dn in
      let r := N mod Dn in
      let q' := if 2 * r <? Dn then q else if Dn <? 2 * r then q + 1 else if Z.even q then q else q + 1 in
      let D := if q' =? 10 ^ P then 10 ^ (P - 1) else q' in
      let X' := if q' =? 10 ^ P then X + 1 else X in
      let ds := dec_fixed (Z.to_nat P) D in
      (if s then [45] else []) ++
      (if (-4 <=? X') && (X' <? P) then
         (* %f style with precision P - 1 - X', trailing zeros and point removed *)
         if 0 <=? X' then
           with_point (firstn (Z.to_nat (X' + 1)) ds) (strip0 (skipn (Z.to_nat (X' + 1)) ds))
         else
           with_point [48] (strip0 (repeat 48 (Z.to_nat (- X' - 1)) ++ ds))
       else
         (* %e style with precision P - 1, trailing zeros and point removed *)
         with_point (firstn 1 ds) (strip0 (skipn 1 ds)) ++ exp_part X')
  | S754_infinity s => if s then [45; 105; 110; 102] else [105; 110; 102]
  | S754_nan => [110; 97; 110]
  end.

Definition fmt_g15 := fmt_g 15.
Definition fmt_g17 := fmt_g 17.

(** sscanf(text, "%lg", &test): the value when one conversion was performed.  The text is the
    output of fmt_g on a finite double, i.e. inside the alphabet of [strtod_ref]. *)
Definition sscanf_lg (s : bytes) : option dbl :=
  match strtod_ref s with Some (d, _) => Some d | None => None end.
