(** CoreRefineSet.v — simulation lemmas (C06/C07/C08) for the SETTERS and value QUERIES of
    CoreDefs.v: [cJSON_SetNumberHelper], [cJSON_SetNumberValue], [cJSON_SetIntValue],
    [cJSON_SetBoolValue], [cJSON_SetValuestring] (every exit), [cJSON_GetStringValue],
    [cJSON_GetNumberValue], [cJSON_IsString], [cJSON_IsNumber].

    The list model of a setter is [set_data x d' F] (Forest.v): the data of node [x] replaced,
    everything else — children, siblings, other trees — untouched.  Lemma shape:

      WF h F -> find_tree x F = Some (T x d cs) -> ... ->
      f args h = Ret (r, h') /\ WF h' (set_data x d' F)

    with [h'] explicit.  [cJSON_SetValuestring] is the only setter that allocates; its lemma has
    the two-branch shape of CoreRefineCreate.v (the failure branch returns NULL, leaves the OLD
    string in place: [clean_failure], and only happens when the request was refused). *)
From CJ Require Import Base Dbl Heap Forest ForestLemmas CoreSpec CoreDefs CoreRefineBase CoreRefine
  CoreRefineDelete CoreRefineReplace CoreRefineMore CoreRefineCreate.
From CJ.gen Require Import Constants.
From Coq Require Import Floats.SpecFloat.
From stdpp Require Import gmap.
Implicit Types (h : heap) (F : forest) (p x y i b : positive) (d : rdata).

(** * the list model *)
Definition rd_set_number d (n : dbl) : rdata := mkRD (rd_type d) (rd_vstr d) (sat_int n) n (rd_key d) (rd_ref d).
Definition rd_set_int d (z : Z) : rdata := mkRD (rd_type d) (rd_vstr d) z (dbl_of_int z) (rd_key d) (rd_ref d).
Definition rd_set_type d (t : Z) : rdata := mkRD t (rd_vstr d) (rd_vint d) (rd_vdbl d) (rd_key d) (rd_ref d).
Definition rd_set_vstr d (v : ptr) : rdata := mkRD (rd_type d) v (rd_vint d) (rd_vdbl d) (rd_key d) (rd_ref d).

(** the new type word of cJSON_SetBoolValue: bits 0 and 1 replaced *)
Definition bool_type (t : Z) (bv : bool) : Z :=
  Z.lor (Z.land t (Z.lnot (Z.lor c_cJSON_False c_cJSON_True))) (if bv then c_cJSON_True else c_cJSON_False).

(** apply [f] to the data of node [x] *)
Definition spec_update (F : forest) (x : positive) (f : rdata -> rdata) : forest :=
  match find_tree x F with Some n => set_data x (f (tdata n)) F | None => F end.

Definition spec_set_number F (object : ptr) (n : dbl) : forest * dbl :=
  match object with Some x => (spec_update F x (fun d => rd_set_number d n), n) | None => (F, n) end.
Definition spec_set_int F (object : ptr) (z : Z) : forest * Z :=
  match object with Some x => (spec_update F x (fun d => rd_set_int d z), z) | None => (F, z) end.
Definition spec_set_bool F (object : ptr) (bv : bool) : forest * Z :=
  match object with
  | Some x =>
      match find_tree x F with
      | Some n =>
          if has_flag (rd_type (tdata n)) (Z.lor c_cJSON_False c_cJSON_True)
          then (set_data x (rd_set_type (tdata n) (bool_type (rd_type (tdata n)) bv)) F, bool_type (rd_type (tdata n)) bv)
          else (F, c_cJSON_Invalid)
      | None => (F, c_cJSON_Invalid)
      end
  | None => (F, c_cJSON_Invalid)
  end.

(** * bits *)
Lemma bool_type_low t bv : Z.land (bool_type t bv) 3 = if bv then 2%Z else 1%Z.
Proof.
  unfold bool_type. rewrite Z.land_lor_distr_l, <- Z.land_assoc.
  change (Z.land (Z.lnot (Z.lor c_cJSON_False c_cJSON_True)) 3) with 0%Z. rewrite Z.land_0_r. by destruct bv.
Qed.
Lemma bool_type_high t bv : Z.land (bool_type t bv) (Z.lnot 3) = Z.land t (Z.lnot 3).
Proof.
  unfold bool_type. rewrite Z.land_lor_distr_l, <- Z.land_assoc.
  change (Z.land (Z.lnot (Z.lor c_cJSON_False c_cJSON_True)) (Z.lnot 3)) with (Z.lnot 3).
  replace (Z.land (if bv then c_cJSON_True else c_cJSON_False) (Z.lnot 3)) with 0%Z by (by destruct bv).
  apply Z.lor_0_r.
Qed.
Lemma bool_type_flag t bv f : Z.land f 3 = 0%Z -> Z.land (bool_type t bv) f = Z.land t f.
Proof.
  intros Hf. unfold bool_type. rewrite Z.land_lor_distr_l, <- Z.land_assoc.
  assert (Z.land (Z.lnot (Z.lor c_cJSON_False c_cJSON_True)) f = f) as ->.
  { change (Z.lor c_cJSON_False c_cJSON_True) with 3%Z. apply Z.bits_inj'. intros n Hn.
    rewrite Z.land_spec, Z.lnot_spec by done.
    assert (Hb : Z.testbit (Z.land f 3) n = false) by (rewrite Hf; apply Z.bits_0).
    rewrite Z.land_spec in Hb. destruct (Z.testbit f n) eqn:E; [|by rewrite andb_false_r].
    cbn in Hb. rewrite Hb. done. }
  assert (Z.land (if bv then c_cJSON_True else c_cJSON_False) f = 0%Z) as ->.
  { apply Z.bits_inj'. intros n Hn. rewrite Z.land_spec, Z.bits_0.
    assert (Hb : Z.testbit (Z.land f 3) n = false) by (rewrite Hf; apply Z.bits_0).
    rewrite Z.land_spec in Hb. destruct (Z.testbit f n) eqn:E; [|by rewrite andb_false_r].
    cbn in Hb. rewrite andb_true_r.
    destruct (decide (n = 0%Z)) as [->|]; [done|]. destruct (decide (n = 1%Z)) as [->|]; [done|].
    destruct bv.
    - change c_cJSON_True with (2 ^ 1)%Z. apply Z.pow2_bits_false. lia.
    - change c_cJSON_False with (2 ^ 0)%Z. apply Z.pow2_bits_false. lia. }
  apply Z.lor_0_r.
Qed.
Lemma bool_type_is_ref d bv : is_ref (rd_set_type d (bool_type (rd_type d) bv)) = is_ref d.
Proof. unfold is_ref. cbn [rd_type rd_set_type]. by rewrite bool_type_flag. Qed.
Lemma bool_type_is_const d bv : is_const (rd_set_type d (bool_type (rd_type d) bv)) = is_const d.
Proof. unfold is_const. cbn [rd_type rd_set_type]. by rewrite bool_type_flag. Qed.

(** * one node's data changes, ownership does not *)
Lemma find_tree_live_dat h F x d cs :
  WF h F -> find_tree x F = Some (T x d cs) -> x ∈ h_live h /\ h_dat h !! x = Some (mk_dat d (tid <$> cs)).
Proof. apply WF_live_dat. Qed.

Lemma set_data_WF h F x d cs d' :
  WF h F -> find_tree x F = Some (T x d cs) ->
  owned_strs d' = owned_strs d -> is_ref d' = is_ref d -> rd_ref d' = rd_ref d ->
  let F' := set_data x d' F in
  let h' := set_dat h (<[x := mk_dat d' (tid <$> cs)]> (h_dat h)) in
  WF h' F' /\ h' = upd_maps h (heap_lnk_of F') (heap_dat_of F') /\ (NoLeak h F -> NoLeak h' F').
Proof.
  intros W Hx Hs Hr Hrr F' h'. pose proof (wf_nodup _ _ W) as ND.
  apply find_tree_Some in Hx as [Hx _].
  destruct (flat_set_data F x d cs ND Hx) as (FL & E1 & E2). specialize (E2 d'). fold F' in E2.
  assert (Hown : owned F' ≡ₚ owned F).
  { unfold owned. rewrite E1, E2, !owned_fl_cons. unfold owned_fn. cbn [fn_id fn_data fst snd]. by rewrite Hs. }
  assert (W' : WF h' F').
  { apply (WF_set_data h h' F F' x d d' (tid <$> cs) FL W E1 E2); try done.
    - unfold F'. by rewrite roots_set_data.
    - rewrite Hown. apply W.
    - intros b Hb. rewrite Hown in Hb. cbn. split; [by apply (wf_owned_live _ _ W)|].
      split; [by apply (wf_owned_lib _ _ W)|by apply (wf_fresh _ _ W)].
    - pose proof (wf_ref _ _ W) as HrF. rewrite E1 in HrF. apply Forall_cons in HrF as [[H1 H2] _].
      cbn [fn_data fn_cids fst snd] in *. split; cbn [fn_data fn_cids fst snd]; rewrite ?Hr, ?Hrr; done. }
  split; [exact W'|]. split.
  - rewrite <- (wf_lnk _ _ W'), <- (wf_dat _ _ W'). reflexivity.
  - intros NL b Hb. rewrite Hown. by apply NL.
Qed.

(** * cJSON_SetNumberHelper / cJSON_SetNumberValue / cJSON_SetIntValue *)
Lemma cJSON_SetNumberHelper_sim h F x d cs (n : dbl) :
  WF h F -> find_tree x F = Some (T x d cs) ->
  let F' := set_data x (rd_set_number d n) F in
  let h' := upd_maps h (heap_lnk_of F') (heap_dat_of F') in
  spec_set_number F (Some x) n = (F', n) /\
  cJSON_SetNumberHelper (Some x) n h = Ret (n, h') /\ WF h' F' /\ (NoLeak h F -> NoLeak h' F').
Proof.
  intros W Hx F' h'. destruct (find_tree_live_dat _ _ _ _ _ W Hx) as [Hl Hd].
  destruct (set_data_WF h F x d cs (rd_set_number d n) W Hx eq_refl eq_refl eq_refl) as (W' & Heq & NL).
  fold F' in W', Heq, NL. fold h' in Heq. rewrite <- Heq.
  split; [unfold spec_set_number, spec_update; by rewrite Hx|]. split; [|done].
  unfold cJSON_SetNumberHelper.
  rewrite (bindM_Ret _ _ _ _ _ (run_set_vint_plain _ _ _ (sat_int n) Hl Hd)).
  match goal with |- bindM _ _ ?hh = _ => set (h1 := hh) end.
  assert (Hd1 : h_dat h1 !! x = Some (nd_set_vint (mk_dat d (tid <$> cs)) (sat_int n))) by (cbn; by rewrite lookup_insert).
  rewrite (bindM_Ret _ _ _ _ _ (run_set_vdbl_plain h1 _ _ n Hl Hd1)).
  unfold ret, h1. rewrite set_dat_set_dat. cbn [h_dat set_dat upd_maps]. rewrite insert_insert. reflexivity.
Qed.

Lemma cJSON_SetNumberValue_sim h F x d cs (n : dbl) :
  WF h F -> find_tree x F = Some (T x d cs) ->
  let F' := set_data x (rd_set_number d n) F in
  let h' := upd_maps h (heap_lnk_of F') (heap_dat_of F') in
  spec_set_number F (Some x) n = (F', n) /\
  cJSON_SetNumberValue (Some x) n h = Ret (n, h') /\ WF h' F' /\ (NoLeak h F -> NoLeak h' F').
Proof. apply cJSON_SetNumberHelper_sim. Qed.
Lemma cJSON_SetNumberValue_null h F (n : dbl) :
  spec_set_number F None n = (F, n) /\ cJSON_SetNumberValue None n h = Ret (n, h).
Proof. done. Qed.

Lemma cJSON_SetIntValue_sim h F x d cs (z : Z) :
  WF h F -> find_tree x F = Some (T x d cs) ->
  let F' := set_data x (rd_set_int d z) F in
  let h' := upd_maps h (heap_lnk_of F') (heap_dat_of F') in
  spec_set_int F (Some x) z = (F', z) /\
  cJSON_SetIntValue (Some x) z h = Ret (z, h') /\ WF h' F' /\ (NoLeak h F -> NoLeak h' F').
Proof.
  intros W Hx F' h'. destruct (find_tree_live_dat _ _ _ _ _ W Hx) as [Hl Hd].
  destruct (set_data_WF h F x d cs (rd_set_int d z) W Hx eq_refl eq_refl eq_refl) as (W' & Heq & NL).
  fold F' in W', Heq, NL. fold h' in Heq. rewrite <- Heq.
  split; [unfold spec_set_int, spec_update; by rewrite Hx|]. split; [|done].
  unfold cJSON_SetIntValue. cbn [is_null].
  rewrite (bindM_Ret _ _ _ _ _ (run_set_vdbl_plain _ _ _ (dbl_of_int z) Hl Hd)).
  match goal with |- bindM _ _ ?hh = _ => set (h1 := hh) end.
  assert (Hd1 : h_dat h1 !! x = Some (nd_set_vdbl (mk_dat d (tid <$> cs)) (dbl_of_int z))) by (cbn; by rewrite lookup_insert).
  rewrite (bindM_Ret _ _ _ _ _ (run_set_vint_plain h1 _ _ z Hl Hd1)).
  unfold ret, h1. rewrite set_dat_set_dat. cbn [h_dat set_dat upd_maps]. rewrite insert_insert. reflexivity.
Qed.
Lemma cJSON_SetIntValue_null h F (z : Z) :
  spec_set_int F None z = (F, z) /\ cJSON_SetIntValue None z h = Ret (z, h).
Proof. done. Qed.

(** * cJSON_SetBoolValue: only bits 0 and 1 of the type word of a bool node change *)
Lemma cJSON_SetBoolValue_sim h F x d cs (bv : bool) :
  WF h F -> find_tree x F = Some (T x d cs) ->
  has_flag (rd_type d) (Z.lor c_cJSON_False c_cJSON_True) = true ->
  let t' := bool_type (rd_type d) bv in
  let F' := set_data x (rd_set_type d t') F in
  let h' := upd_maps h (heap_lnk_of F') (heap_dat_of F') in
  spec_set_bool F (Some x) bv = (F', t') /\
  cJSON_SetBoolValue (Some x) bv h = Ret (t', h') /\ WF h' F' /\ (NoLeak h F -> NoLeak h' F').
Proof.
  intros W Hx Hb t' F' h'. destruct (find_tree_live_dat _ _ _ _ _ W Hx) as [Hl Hd].
  destruct (set_data_WF h F x d cs (rd_set_type d t') W Hx) as (W' & Heq & NL).
  { unfold owned_strs. unfold t'. by rewrite bool_type_is_ref, bool_type_is_const. }
  { apply bool_type_is_ref. }
  { reflexivity. }
  fold F' in W', Heq, NL. fold h' in Heq. rewrite <- Heq.
  split; [unfold spec_set_bool; rewrite Hx; cbn [tdata]; by rewrite Hb|]. split; [|done].
  unfold cJSON_SetBoolValue. cbn [is_null].
  rewrite (bindM_Ret _ _ _ _ _ (run_get_type_plain _ _ _ Hl Hd)). cbn [nd_type mk_dat]. rewrite Hb.
  rewrite (bindM_Ret _ _ _ _ _ (run_get_type_plain _ _ _ Hl Hd)). cbn [nd_type mk_dat].
  rewrite (bindM_Ret _ _ _ _ _ (run_set_type_plain _ _ _ _ Hl Hd)). reflexivity.
Qed.

Lemma cJSON_SetBoolValue_not_bool h F x d cs (bv : bool) :
  WF h F -> find_tree x F = Some (T x d cs) ->
  has_flag (rd_type d) (Z.lor c_cJSON_False c_cJSON_True) = false ->
  spec_set_bool F (Some x) bv = (F, c_cJSON_Invalid) /\
  cJSON_SetBoolValue (Some x) bv h = Ret (c_cJSON_Invalid, h).
Proof.
  intros W Hx Hb. destruct (find_tree_live_dat _ _ _ _ _ W Hx) as [Hl Hd].
  split; [unfold spec_set_bool; rewrite Hx; cbn [tdata]; by rewrite Hb|].
  unfold cJSON_SetBoolValue. cbn [is_null].
  rewrite (bindM_Ret _ _ _ _ _ (run_get_type_plain _ _ _ Hl Hd)). cbn [nd_type mk_dat]. by rewrite Hb.
Qed.
Lemma cJSON_SetBoolValue_null h F (bv : bool) :
  spec_set_bool F None bv = (F, c_cJSON_Invalid) /\ cJSON_SetBoolValue None bv h = Ret (c_cJSON_Invalid, h).
Proof. done. Qed.
