(** CoreOps.v — an operation alphabet over the public tree API of CoreDefs.v, an interpreter
    that runs histories of such operations on a pool of handles, and the canonical dump of
    the heap reachable from a handle (the observable the correspondence check compares).

    Handles.  The caller's variables are two pools: item handles ([list ptr], handle = index)
    and byte-block handles (caller strings: foreign blocks; blocks obtained from cJSON_malloc).
    Every operation that returns a [cJSON *] pushes its result (NULL included) as a new item
    handle, so handle numbers are a function of the operation list alone.  After every
    operation the handles whose block is no longer live are cleared ([sweep]): that is the
    "dead handle" marking after a delete.  No proofs here. *)
From stdpp Require Import gmap.
From Coq Require Import Floats.SpecFloat.
From CJ Require Import Base Dbl Tree Heap CoreDefs.
From CJ.gen Require Import Constants.
Local Open Scope Z_scope.

(** item argument: NULL or a handle *)
Inductive iarg : Type := INull | IH (h : nat).
(** string argument: NULL, a block handle, a fresh caller string (pushed as a new block handle),
    or a pointer read from an item by the caller: [item->string] / [item->valuestring] *)
Inductive sarg : Type := SNull | SPool (k : nat) | SLit (b : bytes) | SKeyOf (h : nat) | SValOf (h : nat).

Inductive op : Type :=
(* constructors: push the result *)
| OCreateNull | OCreateTrue | OCreateFalse | OCreateBool (b : bool) | OCreateNumber (d : dbl)
| OCreateString (s : sarg) | OCreateRaw (s : sarg) | OCreateArray | OCreateObject
| OCreateStringReference (s : sarg) | OCreateObjectReference (c : iarg) | OCreateArrayReference (c : iarg)
| OCreateIntArray (nums : option (list Z)) (count : Z)
| OCreateFloatArray (nums : option (list dbl)) (count : Z)
| OCreateDoubleArray (nums : option (list dbl)) (count : Z)
| OCreateStringArray (strs : option (list sarg)) (count : Z)
| ODuplicate (i : iarg) (recurse : bool)
(* add: flag *)
| OAddItemToArray (a i : iarg)
| OAddItemToObject (o : iarg) (s : sarg) (i : iarg)
| OAddItemToObjectCS (o : iarg) (s : sarg) (i : iarg)
| OAddItemReferenceToArray (a i : iarg)
| OAddItemReferenceToObject (o : iarg) (s : sarg) (i : iarg)
(* add helpers: push the result *)
| OAddNullToObject (o : iarg) (s : sarg) | OAddTrueToObject (o : iarg) (s : sarg) | OAddFalseToObject (o : iarg) (s : sarg)
| OAddBoolToObject (o : iarg) (s : sarg) (b : bool) | OAddNumberToObject (o : iarg) (s : sarg) (d : dbl)
| OAddStringToObject (o : iarg) (s : sarg) (v : sarg) | OAddRawToObject (o : iarg) (s : sarg) (v : sarg)
| OAddObjectToObject (o : iarg) (s : sarg) | OAddArrayToObject (o : iarg) (s : sarg)
(* detach: push the result *)
| ODetachItemViaPointer (p i : iarg) | ODetachItemFromArray (a : iarg) (which : Z)
| ODetachItemFromObject (o : iarg) (s : sarg) | ODetachItemFromObjectCaseSensitive (o : iarg) (s : sarg)
(* delete: no result *)
| ODelete (i : iarg) | ODeleteItemFromArray (a : iarg) (which : Z)
| ODeleteItemFromObject (o : iarg) (s : sarg) | ODeleteItemFromObjectCaseSensitive (o : iarg) (s : sarg)
(* insert / replace: flag *)
| OInsertItemInArray (a : iarg) (which : Z) (i : iarg)
| OReplaceItemViaPointer (p i r : iarg) | OReplaceItemInArray (a : iarg) (which : Z) (r : iarg)
| OReplaceItemInObject (o : iarg) (s : sarg) (r : iarg) | OReplaceItemInObjectCaseSensitive (o : iarg) (s : sarg) (r : iarg)
(* queries *)
| OGetArraySize (a : iarg) | OGetArrayItem (a : iarg) (index : Z)
| OGetObjectItem (o : iarg) (s : sarg) | OGetObjectItemCaseSensitive (o : iarg) (s : sarg) | OHasObjectItem (o : iarg) (s : sarg)
| OGetStringValue (i : iarg) | OGetNumberValue (i : iarg) | OArrayForEach (a : iarg)
(* setters *)
| OSetNumberValue (i : iarg) (d : dbl) | OSetIntValue (i : iarg) (n : Z)
| OSetValuestring (i : iarg) (s : sarg) | OSetBoolValue (i : iarg) (b : bool)
(* allocator interface *)
| OInitHooks (h : hooks_arg) | OMalloc (init : bytes) | OFree (s : sarg)
(* the caller's own actions *)
| OString (b : bytes)                          (* declare a caller string (foreign block); pushes a block handle *)
| OSetChildRaw (i c : iarg)                    (* i->child = c   (direct field store by the caller) *)
| OSetLinksRaw (i n p : iarg)                  (* i->next = n; i->prev = p *)
| OChain (n : Z)                               (* n arrays nested in each other, built with the API; pushes the outermost *)
| OChildDepth (i : iarg).                      (* number of nodes on the first-child path from i (-1: more than 20001) *)

Inductive result : Type :=
| RUnit | RFlag (b : bool) | RPtr (p : ptr) | RInt (z : Z) | RDbl (d : dbl) | RStr (s : option bytes) | RInts (l : list Z).

Record state : Type := mkState { st_items : list ptr; st_strs : list ptr }.
Definition empty_state : state := mkState [] [].

Definition item_of (st : state) (a : iarg) : ptr :=
  match a with INull => None | IH h => nth h (st_items st) None end.

Definition push_item (st : state) (p : ptr) : state := mkState (st_items st ++ [p]) (st_strs st).
Definition push_str (st : state) (p : ptr) : state := mkState (st_items st) (st_strs st ++ [p]).

(** the caller evaluates a string argument *)
Definition str_of (st : state) (a : sarg) : M (ptr * state) :=
  match a with
  | SNull => ret (None, st)
  | SPool k => ret (nth k (st_strs st) None, st)
  | SLit b => p <~ foreign_bytes (b ++ [0]) ;; ret (p, push_str st p)
  | SKeyOf h => k <~ get_key (nth h (st_items st) None) ;; ret (k, st)
  | SValOf h => v <~ get_vstr (nth h (st_items st) None) ;; ret (v, st)
  end.

Fixpoint strs_of (st : state) (l : list sarg) : M (list ptr * state) :=
  match l with
  | [] => ret ([], st)
  | a :: r => x <~ str_of st a ;; y <~ strs_of (snd x) r ;; ret (fst x :: fst y, snd y)
  end.

(** clear the handles whose block is gone *)
Definition live_ptr (h : heap) (p : ptr) : ptr :=
  match p with Some id => if decide (id ∈ h_live h) then p else None | None => None end.
Definition sweep (st : state) : M state :=
  h <~ get_heap ;; ret (mkState (map (live_ptr h) (st_items st)) (map (live_ptr h) (st_strs st))).

Definition opt_cstr (p : ptr) : M (option bytes) :=
  if is_null p then ret None else s <~ ld_cstr p ;; ret (Some s).

Fixpoint child_depth (fuel : nat) (p : ptr) (acc : Z) : M Z :=
  match fuel with
  | O => ret (-1)
  | S f => if is_null p then ret acc else c <~ get_child p ;; child_depth f c (acc + 1)
  end.

Section Ops.
  Variable oracle : nat -> bool.

  (** cJSON_ArrayForEach(element, array): the types of the elements visited *)
  Fixpoint array_for_each_loop (fuel : nat) (element : ptr) : M (list Z) :=
    match fuel with
    | O => fail NoFuel
    | S f =>
        if is_null element then ret [] else
        t <~ get_type element ;;
        nx <~ get_next element ;;
        r <~ array_for_each_loop f nx ;;
        ret (t :: r)
    end.
  Definition array_for_each (array : ptr) : M (list Z) :=
    element <~ (if negb (is_null array) then get_child array else ret None) ;;
    fuel <~ heap_fuel ;;
    array_for_each_loop fuel element.

  Fixpoint build_chain (n : nat) (inner : ptr) : M ptr :=
    match n with
    | O => ret inner
    | S n' =>
        outer <~ cJSON_CreateArray oracle ;;
        cJSON_AddItemToArray outer inner ;;;
        build_chain n' outer
    end.

  Definition with_str (st : state) (s : sarg) {A} (f : ptr -> state -> M A) : M A :=
    x <~ str_of st s ;; f (fst x) (snd x).
  Definition r_push (st : state) (m : M ptr) : M (result * state) :=
    p <~ m ;; ret (RPtr p, push_item st p).
  Definition r_flag (st : state) (m : M bool) : M (result * state) :=
    b <~ m ;; ret (RFlag b, st).
  Definition r_unit (st : state) (m : M unit) : M (result * state) :=
    m ;;; ret (RUnit, st).

  Definition run_op_raw (st : state) (o : op) : M (result * state) :=
    let I := item_of st in
    match o with
    | OCreateNull => r_push st (cJSON_CreateNull oracle)
    | OCreateTrue => r_push st (cJSON_CreateTrue oracle)
    | OCreateFalse => r_push st (cJSON_CreateFalse oracle)
    | OCreateBool b => r_push st (cJSON_CreateBool oracle b)
    | OCreateNumber d => r_push st (cJSON_CreateNumber oracle d)
    | OCreateString s => with_str st s (fun p st' => r_push st' (cJSON_CreateString oracle p))
    | OCreateRaw s => with_str st s (fun p st' => r_push st' (cJSON_CreateRaw oracle p))
    | OCreateArray => r_push st (cJSON_CreateArray oracle)
    | OCreateObject => r_push st (cJSON_CreateObject oracle)
    | OCreateStringReference s => with_str st s (fun p st' => r_push st' (cJSON_CreateStringReference oracle p))
    | OCreateObjectReference c => r_push st (cJSON_CreateObjectReference oracle (I c))
    | OCreateArrayReference c => r_push st (cJSON_CreateArrayReference oracle (I c))
    | OCreateIntArray nums count => r_push st (cJSON_CreateIntArray oracle nums count)
    | OCreateFloatArray nums count => r_push st (cJSON_CreateFloatArray oracle nums count)
    | OCreateDoubleArray nums count => r_push st (cJSON_CreateDoubleArray oracle nums count)
    | OCreateStringArray strs count =>
        match strs with
        | None => r_push st (cJSON_CreateStringArray oracle None count)
        | Some l => x <~ strs_of st l ;; r_push (snd x) (cJSON_CreateStringArray oracle (Some (fst x)) count)
        end
    | ODuplicate i recurse => r_push st (cJSON_Duplicate oracle (I i) recurse)
    | OAddItemToArray a i => r_flag st (cJSON_AddItemToArray (I a) (I i))
    | OAddItemToObject ob s i => with_str st s (fun p st' => r_flag st' (cJSON_AddItemToObject oracle (I ob) p (I i)))
    | OAddItemToObjectCS ob s i => with_str st s (fun p st' => r_flag st' (cJSON_AddItemToObjectCS oracle (I ob) p (I i)))
    | OAddItemReferenceToArray a i => r_flag st (cJSON_AddItemReferenceToArray oracle (I a) (I i))
    | OAddItemReferenceToObject ob s i =>
        with_str st s (fun p st' => r_flag st' (cJSON_AddItemReferenceToObject oracle (I ob) p (I i)))
    | OAddNullToObject ob s => with_str st s (fun p st' => r_push st' (cJSON_AddNullToObject oracle (I ob) p))
    | OAddTrueToObject ob s => with_str st s (fun p st' => r_push st' (cJSON_AddTrueToObject oracle (I ob) p))
    | OAddFalseToObject ob s => with_str st s (fun p st' => r_push st' (cJSON_AddFalseToObject oracle (I ob) p))
    | OAddBoolToObject ob s b => with_str st s (fun p st' => r_push st' (cJSON_AddBoolToObject oracle (I ob) p b))
    | OAddNumberToObject ob s d => with_str st s (fun p st' => r_push st' (cJSON_AddNumberToObject oracle (I ob) p d))
    | OAddStringToObject ob s v =>
        with_str st s (fun p st' => with_str st' v (fun q st'' => r_push st'' (cJSON_AddStringToObject oracle (I ob) p q)))
    | OAddRawToObject ob s v =>
        with_str st s (fun p st' => with_str st' v (fun q st'' => r_push st'' (cJSON_AddRawToObject oracle (I ob) p q)))
    | OAddObjectToObject ob s => with_str st s (fun p st' => r_push st' (cJSON_AddObjectToObject oracle (I ob) p))
    | OAddArrayToObject ob s => with_str st s (fun p st' => r_push st' (cJSON_AddArrayToObject oracle (I ob) p))
    | ODetachItemViaPointer p i => r_push st (cJSON_DetachItemViaPointer (I p) (I i))
    | ODetachItemFromArray a which => r_push st (cJSON_DetachItemFromArray (I a) which)
    | ODetachItemFromObject ob s => with_str st s (fun p st' => r_push st' (cJSON_DetachItemFromObject (I ob) p))
    | ODetachItemFromObjectCaseSensitive ob s =>
        with_str st s (fun p st' => r_push st' (cJSON_DetachItemFromObjectCaseSensitive (I ob) p))
    | ODelete i => r_unit st (cJSON_Delete (I i))
    | ODeleteItemFromArray a which => r_unit st (cJSON_DeleteItemFromArray (I a) which)
    | ODeleteItemFromObject ob s => with_str st s (fun p st' => r_unit st' (cJSON_DeleteItemFromObject (I ob) p))
    | ODeleteItemFromObjectCaseSensitive ob s =>
        with_str st s (fun p st' => r_unit st' (cJSON_DeleteItemFromObjectCaseSensitive (I ob) p))
    | OInsertItemInArray a which i => r_flag st (cJSON_InsertItemInArray (I a) which (I i))
    | OReplaceItemViaPointer p i r => r_flag st (cJSON_ReplaceItemViaPointer (I p) (I i) (I r))
    | OReplaceItemInArray a which r => r_flag st (cJSON_ReplaceItemInArray (I a) which (I r))
    | OReplaceItemInObject ob s r => with_str st s (fun p st' => r_flag st' (cJSON_ReplaceItemInObject oracle (I ob) p (I r)))
    | OReplaceItemInObjectCaseSensitive ob s r =>
        with_str st s (fun p st' => r_flag st' (cJSON_ReplaceItemInObjectCaseSensitive oracle (I ob) p (I r)))
    | OGetArraySize a => n <~ cJSON_GetArraySize (I a) ;; ret (RInt n, st)
    | OGetArrayItem a index => r_push st (cJSON_GetArrayItem (I a) index)
    | OGetObjectItem ob s => with_str st s (fun p st' => r_push st' (cJSON_GetObjectItem (I ob) p))
    | OGetObjectItemCaseSensitive ob s => with_str st s (fun p st' => r_push st' (cJSON_GetObjectItemCaseSensitive (I ob) p))
    | OHasObjectItem ob s => with_str st s (fun p st' => r_flag st' (cJSON_HasObjectItem (I ob) p))
    | OGetStringValue i => p <~ cJSON_GetStringValue (I i) ;; s <~ opt_cstr p ;; ret (RStr s, st)
    | OGetNumberValue i => d <~ cJSON_GetNumberValue (I i) ;; ret (RDbl d, st)
    | OArrayForEach a => l <~ array_for_each (I a) ;; ret (RInts l, st)
    | OSetNumberValue i d => r <~ cJSON_SetNumberValue (I i) d ;; ret (RDbl r, st)
    | OSetIntValue i n => r <~ cJSON_SetIntValue (I i) n ;; ret (RInt r, st)
    | OSetValuestring i s =>
        with_str st s (fun p st' => q <~ cJSON_SetValuestring oracle (I i) p ;; r <~ opt_cstr q ;; ret (RStr r, st'))
    | OSetBoolValue i b => r <~ cJSON_SetBoolValue (I i) b ;; ret (RInt r, st)
    | OInitHooks hk => r_unit st (cJSON_InitHooks hk)
    | OMalloc init => p <~ cJSON_malloc oracle init ;; ret (RFlag (negb (is_null p)), push_str st p)
    | OFree s => with_str st s (fun p st' => r_unit st' (cJSON_free p))
    | OString b => p <~ foreign_bytes (b ++ [0]) ;; ret (RUnit, push_str st p)
    | OSetChildRaw i c => r_unit st (set_child (I i) (I c))
    | OSetLinksRaw i n p => r_unit st (set_next (I i) (I n) ;;; set_prev (I i) (I p))
    | OChain n =>
        inner <~ cJSON_CreateArray oracle ;;
        r_push st (build_chain (Z.to_nat (n - 1)) inner)
    | OChildDepth i => d <~ child_depth (Z.to_nat 20001) (I i) 0 ;; ret (RInt d, st)
    end.

  Definition run_op (st : state) (o : op) : M (result * state) :=
    x <~ run_op_raw st o ;;
    st' <~ sweep (snd x) ;;
    ret (fst x, st').

  Fixpoint run_ops (st : state) (ops : list op) : M (list result * state) :=
    match ops with
    | [] => ret ([], st)
    | o :: r =>
        x <~ run_op st o ;;
        y <~ run_ops (snd x) r ;;
        ret (fst x :: fst y, snd y)
    end.
End Ops.

(** * the canonical dump *)

Definition dump_depth : nat := Z.to_nat 2000.       (* deeper structures are reported as malformed *)
Definition dump_chain : nat := Z.to_nat 100000.     (* longer sibling chains are reported as malformed *)

(** [dump_node d p]: the tree below [p] with the fields of every node, and the verdict of the
    structural walk (for every container that is not a reference: each child's [prev] is the
    previous child, the first child's [prev] is the last child; the chain ends in NULL because
    the walk ended).  [None]: too deep or a chain too long (cyclic or malformed structure).
    The children of a reference node are shown (they are what the node denotes) but their
    links are not judged: they belong to another container. *)
Fixpoint dump_node (d : nat) (p : ptr) : M (option (node * bool)) :=
  match d with
  | O => ret None
  | S d' =>
      dt <~ ld_dat p ;;
      vs <~ opt_cstr (nd_vstr dt) ;;
      k <~ opt_cstr (nd_key dt) ;;
      let isref := has_flag (nd_type dt) c_cJSON_IsReference in
      let fix chain (f : nat) (c prevc : ptr) (first : bool) (acc : list node) (ok : bool)
            {struct f} : M (option (list node * bool * ptr)) :=
        match f with
        | O => ret None
        | S f' =>
            if is_null c then ret (Some (rev acc, ok, prevc)) else
            r <~ dump_node d' c ;;
            match r with
            | None => ret None
            | Some (n, okc) =>
                cp <~ get_prev c ;;
                nx <~ get_next c ;;
                chain f' nx c false (n :: acc) (ok && okc && (first || ptr_eqb cp prevc))
            end
        end in
      r <~ chain dump_chain (nd_child dt) None true [] true ;;
      match r with
      | None => ret None
      | Some (cs, ok, last) =>
          headok <~ (if is_null (nd_child dt) || isref then ret true
                     else hp <~ get_prev (nd_child dt) ;; ret (ptr_eqb hp last)) ;;
          ret (Some (Node (nd_type dt) vs (nd_vint dt) (nd_vdbl dt) k cs, isref || (ok && headok)))
      end
  end.

(** a handle is a root when its node has no sibling links *)
Definition is_root (p : ptr) : M bool :=
  l <~ ld_lnk p ;; ret (is_null (fst l) && is_null (snd l)).

(** index of the first handle holding the same pointer *)
Fixpoint first_index (l : list ptr) (p : ptr) (i : nat) : nat :=
  match l with
  | [] => i
  | q :: r => if ptr_eqb q p then i else first_index r p (S i)
  end.

(** dumps of all live roots: (handle, dump); a root reachable through several handles is shown once *)
Fixpoint dump_roots (all : list ptr) (l : list ptr) (i : nat) : M (list (nat * option (node * bool))) :=
  match l with
  | [] => ret []
  | p :: r =>
      rest <~ dump_roots all r (S i) ;;
      if is_null p then ret rest else
      if negb (Nat.eqb (first_index all p 0) i) then ret rest else
      b <~ is_root p ;;
      if negb b then ret rest else
      dmp <~ dump_node dump_depth p ;;
      ret ((i, dmp) :: rest)
  end.
Definition dump_state (st : state) : M (list (nat * option (node * bool))) :=
  dump_roots (st_items st) (st_items st) 0.

(** the handles that [dump_state] would show, without walking the trees *)
Fixpoint live_roots_from (all : list ptr) (l : list ptr) (i : nat) : M (list nat) :=
  match l with
  | [] => ret []
  | p :: r =>
      rest <~ live_roots_from all r (S i) ;;
      if is_null p then ret rest else
      if negb (Nat.eqb (first_index all p 0) i) then ret rest else
      b <~ is_root p ;;
      ret (if b then i :: rest else rest)
  end.
Definition live_roots (st : state) : M (list nat) := live_roots_from (st_items st) (st_items st) 0.

(** library blocks owned by the tree below [p] as cJSON_Delete would release them (nodes, owned
    value strings, owned keys); children of reference nodes are not followed *)
Fixpoint owned_blocks (d : nat) (p : ptr) : M (option (list positive)) :=
  match d with
  | O => ret None
  | S d' =>
      dt <~ ld_dat p ;;
      let isref := has_flag (nd_type dt) c_cJSON_IsReference in
      let self := match p with Some id => [id] | None => [] end in
      let vs := match nd_vstr dt with Some id => if isref then [] else [id] | None => [] end in
      let ks := match nd_key dt with Some id => if has_flag (nd_type dt) c_cJSON_StringIsConst then [] else [id] | None => [] end in
      let fix chain (f : nat) (c : ptr) (acc : list positive) {struct f} : M (option (list positive)) :=
        match f with
        | O => ret None
        | S f' =>
            if is_null c then ret (Some acc) else
            r <~ owned_blocks d' c ;;
            match r with
            | None => ret None
            | Some l => nx <~ get_next c ;; chain f' nx (l ++ acc)
            end
        end in
      if isref then ret (Some (self ++ ks)) else
      r <~ chain dump_chain (nd_child dt) [] ;;
      match r with
      | None => ret None
      | Some l => ret (Some (self ++ vs ++ ks ++ l))
      end
  end.
Definition share_blocks (a b : list positive) : bool :=
  existsb (fun x => existsb (Pos.eqb x) b) a.

(** number of live library blocks *)
Definition live_count (h : heap) : nat := size (lib_live h).

(** the k-th allocation request (1-based) fails; 0 = none *)
Definition fail_kth (k : nat) : nat -> bool := fun i => match k with O => false | S k' => Nat.eqb i k' end.
(** request numbers (1-based, at most 62) whose bit is set in [mask] fail *)
Definition fail_mask (mask : Z) : nat -> bool := fun i => Z.testbit mask (Z.of_nat i).

Definition err_name (e : err) : nat :=
  match e with UAF => 1 | DoubleFree => 2 | ForeignFree => 3 | ForeignWrite => 4 | NullDeref => 5
            | BadBlock => 6 | OutOfBounds => 7 | NoFuel => 8 end%nat.
