(** CoreHistoryAllEx.v — NON-VACUITY of [CoreHistoryAll.history3_checked] and
    [CoreLedgerAll.ledger_balanced]: two concrete histories are accepted by the checker
    [pre_ok_all3b] ([vm_compute]); their model results are what one expects.

    [ex6] (property C06): arrays (append, insert at 0, a refused self-insertion), objects with
    owned and constant keys, the cJSON_Add…ToObject helpers, a reference, both lookup variants
    (the folded lookup returns the FIRST folded match), replace by key, the setters (number,
    bool, valuestring in place), value queries, size / index, deletion of the whole document.

    [ex7] (property C07): an item moved between containers (detach by key, add elsewhere) with the
    key argument BEING the item's own key block, replace-by-key with the key argument being the
    replacement's own key block, a string reference to caller memory under a constant key, an
    item reference (cJSON_AddItemReferenceToObject) to a whole object, the bulk constructors, a
    delete by key; then every remaining root is deleted and the transliterated code, RUN from the
    empty heap, ends with no live library block, the two caller strings still live. *)
From CJ Require Import Base Dbl Heap Forest CoreSpec CoreDefs CoreRefineHistory CoreRefineHistoryObj CoreRefineHistoryObjEx
  CoreRefineCreate CoreHistoryAllSteps CoreHistoryAll CoreLedgerAll.
From stdpp Require Import gmap.
Local Open Scope Z_scope.

Definition A (o : op) : op3 := O2 (OArr o).

Definition ex6 : list op3 :=
  [O2 (OForeign str_k1);                                    (* 1: caller string "k1" *)
   O2 (OForeign str_K1);                                    (* 2: caller string "K1" *)
   A (OCreate 64);                                          (* 3: object *)
   A (OCreate 32);                                          (* 4: array *)
   OCreateNumber (dbl_of_int 7);                            (* 5 *)
   A (OAdd (Some 4) (Some 5));                              (* [7] *)
   OCreateString (Some 1);                                  (* 6, copy 7 *)
   A (OInsert (Some 4) 0 (Some 6));                         (* ["k1", 7] *)
   A (OInsert (Some 4) 0 (Some 4));                         (* inserting a container into itself: refused *)
   O2 (OAddObj (Some 3) (Some 1) (Some 4) false);           (* {"k1": [...]}, key copy 8 *)
   OAddToObject (KNumber (dbl_of_int 1)) (Some 3) (Some 2); (* node 9, key copy 10: "K1": 1 *)
   OAddToObject KTrue (Some 3) (Some 2);                    (* node 11, key copy 12 *)
   A (OCreate 2);                                           (* 13: true *)
   O2 (OAddObj (Some 3) (Some 2) (Some 13) true);           (* constant key: block 2 itself *)
   OAddItemReferenceToArray (Some 4) (Some 9);              (* reference 14 to node 9 *)
   O2 (OGetKey (Some 3) (Some 2) false);                    (* folded "K1": the first folded match, 4 *)
   O2 (OGetKey (Some 3) (Some 2) true);                     (* exact "K1": 9 *)
   OCreateString (Some 2);                                  (* 15, copy 16 *)
   OReplaceItemInObject (Some 3) (Some 2) (Some 15) true;   (* replaces 9 by 15 (key copy 17) *)
   OSetNumberValue (Some 5) (dbl_of_int 9);
   OSetBoolValue (Some 13) false;
   OSetValuestring (Some 6) (Some 2);                       (* "K1" fits into "k1": copied in place *)
   OHasObjectItem (Some 3) (Some 1);
   OGetNumberValue (Some 5);
   A (OSize (Some 4));
   A (OGet (Some 4) 2);
   A (OGet (Some 4) 3);                                     (* index out of range: NULL *)
   A (ODeleteIdx (Some 4) 9);                               (* index out of range: nothing happens *)
   A (OReplaceIdx (Some 4) (-1) (Some 5));                  (* negative index: refused *)
   O2 (OGetKey None (Some 1) true);                         (* NULL object: NULL *)
   A (ODelete (Some 3))]%positive.

Lemma ex6_accepted : pre_ok_all3b S0 ex6 = true.
Proof. vm_compute. reflexivity. Qed.

Lemma ex6_results :
  spec_results3 S0 ex6 =
  [R (RPtr (Some 1)); R (RPtr (Some 2)); R (RPtr (Some 3)); R (RPtr (Some 4)); R (RPtr (Some 5)); R (RBool true);
   R (RPtr (Some 6)); R (RBool true); R (RBool false); R (RBool true); R (RPtr (Some 9)); R (RPtr (Some 11));
   R (RPtr (Some 13)); R (RBool true); R (RBool true); R (RPtr (Some 4)); R (RPtr (Some 9)); R (RPtr (Some 15));
   R (RBool true); RDbl (dbl_of_int 9); R (RInt 513); R (RPtr (Some 7)); R (RBool true); RDbl (dbl_of_int 9);
   R (RInt 3); R (RPtr (Some 14)); R (RPtr None); R RUnit; R (RBool false); R (RPtr None); R RUnit]%positive.
Proof. vm_compute. reflexivity. Qed.

Corollary ex6_history :
  exists h', run_ops3 ex6 empty_heap = Ret (spec_results3 S0 ex6, h') /\ Abs3 h' (spec_run3 S0 ex6).
Proof. apply history3_checked, ex6_accepted. Qed.

Definition ex7 : list op3 :=
  [O2 (OForeign str_k1);                                    (* 1 *)
   O2 (OForeign str_K1);                                    (* 2 *)
   A (OCreate 64);                                          (* 3: object *)
   A (OCreate 64);                                          (* 4: object *)
   OCreateString (Some 1);                                  (* 5, copy 6 *)
   O2 (OAddObj (Some 3) (Some 1) (Some 5) false);           (* key copy 7 *)
   O2 (ODetachKey (Some 3) (Some 1) true);                  (* detach 5 *)
   O2 (OAddObj (Some 4) (Some 7) (Some 5) false);           (* ALIAS: the name IS the item's own key block 7 (copy 8; 7 released after) *)
   OCreateStringReference (Some 2);                         (* 9: string reference to the caller's block 2 *)
   O2 (OAddObj (Some 3) (Some 2) (Some 9) true);            (* constant key *)
   OCreateNumber (dbl_of_int 3);                            (* 10 *)
   O2 (OAddObj (Some 3) (Some 1) (Some 10) false);          (* key copy 11 *)
   O2 (ODetachKey (Some 3) (Some 1) true);                  (* detach 10 (still keyed by 11) *)
   O2 (OAddObj (Some 3) (Some 1) (Some 10) false);          (* added again: copy 12, 11 released *)
   OCreateNumber (dbl_of_int 4);                            (* 13 *)
   O2 (OAddObj (Some 4) (Some 2) (Some 13) false);          (* key copy 14 "K1" *)
   A (ODetach (Some 4) (Some 13));
   OReplaceItemInObject (Some 3) (Some 14) (Some 13) false; (* ALIAS: the name IS the replacement's own key 14; replaces the first folded match of "K1" (the reference 9) *)
   OAddItemReferenceToObject (Some 4) (Some 1) (Some 3);    (* item reference 16 to object 3, key copy 17 *)
   OCreateIntArray (Some [1; 2; 3]%Z) 3;                      (* 18; elements 19 20 21 *)
   OCreateStringArray (Some [Some 1; Some 2]%positive) 2;   (* 22; elements 23 (24), 25 (26) *)
   A (OAdd (Some 18) (Some 22));
   O2 (ODeleteKey (Some 4) (Some 1) true)]%positive.        (* deletes member "k1" of object 4 *)

Lemma ex7_accepted : pre_ok_all3b S0 ex7 = true.
Proof. vm_compute. reflexivity. Qed.

Lemma ex7_roots : roots (a_forest (spec_run3 S0 ex7)) = [3; 4; 18]%positive.
Proof. vm_compute. reflexivity. Qed.

(** the transliterated code, run: history, then cJSON_Delete of the three remaining roots *)
Definition ledger_after {X} (m : M X) (h : heap) : option (list positive * list positive) :=
  match m h with
  | Ret (_, h') => Some (elements (lib_live h'), elements (h_live h'))
  | Err _ => None
  end.
Lemma ex7_run_balanced :
  ledger_after (run_ops3 ex7 ;;; delete_roots [3; 4; 18]%positive) empty_heap = Some ([], [1; 2]%positive).
Proof. vm_compute. reflexivity. Qed.

Corollary ex7_balanced :
  exists h1 h2,
    run_ops3 ex7 empty_heap = Ret (spec_results3 S0 ex7, h1) /\
    Abs3 h1 (spec_run3 S0 ex7) /\
    (forall b, b ∈ lib_live h1 <-> b ∈ owned (a_forest (spec_run3 S0 ex7))) /\
    delete_roots (roots (a_forest (spec_run3 S0 ex7))) h1 = Ret (tt, h2) /\
    lib_live h2 = ∅ /\ lib_live empty_heap = ∅ /\
    (forall b, h_own h1 !! b = Some Foreign -> b ∈ h_live h1 -> b ∈ h_live h2 /\ h_str h2 !! b = h_str h1 !! b).
Proof. apply ledger_balanced, ex7_accepted. Qed.
