(** ParseUsableAll.v — property C01, the "usable result" clause: the three models joined.

      parser (ParseDefs / ParseSpec, value-level tree)
        --[ParseUsable.text_l_shape]-->      the tree has the parser's SHAPE
        --[ParseUsable.shape_prints]-->      the printer (PrintDefs) renders it, both formats
        --[shape_plain, ParseUsableHeap]-->  its heap image ([mat]) is a well-formed root of the
                                             tree API's heap (Forest.WF), owns [blocks t] blocks,
                                             and cJSON_Delete of it restores the ledger.

    Also the non-vacuity example: one text with nested containers, strings with escapes, an
    integer, a fraction, an exponent and all three literals — parsed, rendered in both formats,
    materialised from the empty heap and deleted, everything computed by [vm_compute] with the
    reference libc. *)
From CJ Require Import Base Dbl Tree LibcNum LibcPrint ParseDefs ParseSpec Grammar ParseRefine ParseSafe
  PrintDefs PrintStrict PrintStrictRef RoundTripNum RoundTripRefValid ParseUsable.
From CJ Require Import Heap Forest CoreDefs ParseUsableHeap.
From CJ.gen Require Import Constants.
From stdpp Require Import gmap.
Local Open Scope Z_scope.

(** a tree of the parser's shape carries no reference / constant-key flag *)
Lemma shape_plain B D : forall t keyed d, shape B D keyed d t -> plain t = true.
Proof.
  induction t as [ty vs vi vd key ch IH] using node_ind'. intros keyed d H.
  assert (Hch : forall k d', Forall (shape B D k d') ch -> forallb plain ch = true).
  { intros k d' HF. apply forallb_forall. intros c Hc. rewrite List.Forall_forall in IH, HF. by apply (IH c Hc k d'), HF. }
  inversion H as [k d0 key0 Hk|k d0 key0 Hk|k d0 key0 Hk|k d0 key0 x Hk Hx|k d0 key0 s Hk Hs
                  |k d0 key0 ch0 Hk HF|k d0 key0 ch0 Hk HF]; subst; try reflexivity.
  - rewrite plain_unfold, (Hch _ _ HF). reflexivity.
  - rewrite plain_unfold, (Hch _ _ HF). reflexivity.
Qed.

(** PART 3.  Every tree of an accepted text — hence every tree the entry points return — seen as a
    heap structure, is a well-formed root that the tree API can walk and delete. *)
Theorem parsed_tree_walks_and_deletes strtod l rnt t rest :
  text_l strtod l rnt = Some (t, rest) -> heap_usable t.
Proof.
  intros H. apply plain_heap_usable.
  apply (shape_plain (fun _ => True) (fun _ => True) t false nesting_limit).
  apply (text_l_shape strtod (fun _ => True) (fun _ => True) (fun _ _ => I) (fun _ _ _ _ => I) l rnt t rest); [|exact H].
  apply List.Forall_forall. intros; exact I.
Qed.

(** … and the number of blocks the image owns is the parser's own ledger [pr_live] *)
Theorem parsed_result_walks_and_deletes strtod content len rnt r t :
  strtod_ok strtod -> (len <= length content)%nat ->
  cJSON_ParseWithLengthOpts strtod never_fails content len rnt = Ok r -> pr_tree r = Some t ->
  heap_usable t /\ pr_live r = blocks t.
Proof.
  intros Hok Hlen Hr Ht. split.
  - destruct (parse_refines_spec strtod content len rnt Hok Hlen) as (r0 & Hr0 & Hspec).
    rewrite Hr in Hr0. injection Hr0 as <-.
    destruct (text_l strtod (firstn len content) rnt) as [[t0 rest]|] eqn:E.
    + destruct Hspec as [Ht0 _]. rewrite Ht in Ht0. injection Ht0 as <-.
      eapply parsed_tree_walks_and_deletes. exact E.
    + rewrite Ht in Hspec. discriminate.
  - destruct (parse_length_safe strtod never_fails content len rnt Hok Hlen) as (r0 & Hr0 & _ & Hl).
    rewrite Hr in Hr0. injection Hr0 as <-. by apply Hl.
Qed.

(** the reference strtod satisfies the validity clause (RoundTripRefValid.v; Flocq) *)
Lemma strtod_ref_valid : strtod_valid strtod_ref.
Proof. intros s d k H. exact (ref_valid s d k H). Qed.

(** * non-vacuity *)

(*  {"a":[1,2.5,"x\né",{"k":null,"e":[]}],"b":true, "c":-3e2}  *)
Definition ex_text : bytes :=
  [123; 34; 97; 34; 58; 91; 49; 44; 50; 46; 53; 44; 34; 120; 92; 110; 92; 117; 48; 48; 101; 57; 34; 44; 123; 34;
   107; 34; 58; 110; 117; 108; 108; 44; 34; 101; 34; 58; 91; 93; 125; 93; 44; 34; 98; 34; 58; 116; 114; 117; 101;
   44; 32; 34; 99; 34; 58; 45; 51; 101; 50; 125].

Definition ex_tree : node :=
  Node 64 None 0 dzero None
    [Node 32 None 0 dzero (Some [97])
       [Node 8 None 1 (S754_finite false 4503599627370496 (-52)) None [];
        Node 8 None 2 (S754_finite false 5629499534213120 (-51)) None [];
        Node 16 (Some [120; 10; 195; 169]) 0 dzero None [];
        Node 64 None 0 dzero None
          [Node 4 None 0 dzero (Some [107]) [];
           Node 32 None 0 dzero (Some [101]) []]];
     Node 2 None 1 dzero (Some [98]) [];
     Node 8 None (-300) (S754_finite true 5277655813324800 (-44)) (Some [99]) []].

(*  {"a":[1,2.5,"x\nÃ©" as raw UTF-8,{"k":null,"e":[]}],"b":true,"c":-300}  *)
Definition ex_unformatted : bytes :=
  [123; 34; 97; 34; 58; 91; 49; 44; 50; 46; 53; 44; 34; 120; 92; 110; 195; 169; 34; 44; 123; 34; 107; 34; 58; 110;
   117; 108; 108; 44; 34; 101; 34; 58; 91; 93; 125; 93; 44; 34; 98; 34; 58; 116; 114; 117; 101; 44; 34; 99; 34; 58;
   45; 51; 48; 48; 125].

Definition ex_run : option (ptr * list positive * positive * list positive * list positive * list positive) :=
  match mat ex_tree empty_heap with
  | Ret (p, h') =>
      match cJSON_Delete p h' with
      | Ret (_, h'') => Some (p, elements (lib_live h'), h_next h', elements (lib_live h''),
                              elements (dom (h_lnk h'')), elements (dom (h_str h'')))
      | Err _ => None
      end
  | Err _ => None
  end.

Example usable_example :
  Forall Bbyte ex_text /\
  text_l strtod_ref ex_text false = Some (ex_tree, []) /\
  (exists r, cJSON_ParseWithLengthOpts strtod_ref never_fails ex_text (length ex_text) false = Ok r /\
             pr_tree r = Some ex_tree /\ pr_live r = 16) /\
  blocks ex_tree = 16 /\
  render fmt_d sg_fmt_g15 sg_fmt_g17 sscanf_lg false 0 ex_tree = Some ex_unformatted /\
  (exists txt, render fmt_d sg_fmt_g15 sg_fmt_g17 sscanf_lg true 0 ex_tree = Some txt /\ length txt = 83%nat) /\
  (* materialised from the empty heap: root 1, 16 live library blocks 1..16; after cJSON_Delete: nothing *)
  (exists live, ex_run = Some (Some 1%positive, live, 17%positive, [], [], []) /\ length live = 16%nat).
Proof.
  split; [|split; [|split; [|split; [|split; [|split]]]]].
  - apply Forall_forall. intros c Hc. apply (proj1 (forallb_forall _ _) (eq_refl : forallb is_byte ex_text = true) c Hc).
  - vm_compute. reflexivity.
  - eexists. split; [vm_compute; reflexivity|]. split; reflexivity.
  - reflexivity.
  - vm_compute. reflexivity.
  - eexists. split; [vm_compute; reflexivity|]. reflexivity.
  - eexists. split; [vm_compute; reflexivity|]. reflexivity.
Qed.

(** the general theorems apply to it: all hypotheses hold for the reference libc *)
Example usable_example_general :
  shape Bbyte Dvalid false nesting_limit ex_tree /\
  prints_ok fmt_d sg_fmt_g15 sg_fmt_g17 sscanf_lg ex_tree /\
  heap_usable ex_tree.
Proof.
  destruct usable_example as (HB & Htxt & _).
  split; [|split].
  - exact (text_l_shape strtod_ref Bbyte Dvalid (fun c Hc => Hc) strtod_ref_valid ex_text false ex_tree [] HB Htxt).
  - exact (parsed_tree_prints strtod_ref fmt_d sg_fmt_g15 sg_fmt_g17 sscanf_lg strict_spec_satisfiable strtod_ref_valid
             ex_text false ex_tree [] HB Htxt).
  - exact (parsed_tree_walks_and_deletes strtod_ref ex_text false ex_tree [] Htxt).
Qed.
