(** PatchSeq.v — the entry point cJSONUtils_ApplyPatchesCaseSensitive: structure of the loop
    (stops at the first failing operation), conformance for a patch array of one operation,
    executable checkers for the hypotheses, concrete examples. *)
From Coq Require Import Lia ZArith List Bool Permutation.
From CJ Require Import Base Dbl Tree PointerDefs PointerProofs CompareDefs PatchDefs PatchProofs PatchRobust Rfc6902
  PatchConform PatchOps PatchApply PatchTest PatchMove.
Import ListNotations.
Local Open Scope Z_scope.

(** ---------- the loop ---------- *)
(* [run cs d ps st d']: applying the operations [ps] in order from document [d] ends with status [st]
   and document [d']: all operations succeeded (st = 0), or the first one that fails gives the status,
   the document keeps the effects of the operations before it (and what the failing one already did) *)
Inductive run (cs : bool) : node -> list node -> Z -> node -> Prop :=
| run_nil d : run cs d [] 0 d
| run_fail d p r st d' p' : apply_patch d p cs = Ok (st, d', p') -> st <> 0 -> run cs d (p :: r) st d'
| run_step d p r d1 p' st d' : apply_patch d p cs = Ok (0, d1, p') -> run cs d1 r st d' -> run cs d (p :: r) st d'.

Lemma apply_loop_run cs : forall ps d st d' ps', apply_loop d ps cs = Ok (st, d', ps') -> run cs d ps st d'.
Proof.
  induction ps as [|p r IH]; intros d st d' ps' E; cbn [apply_loop] in E.
  - inversion E; subst. constructor.
  - destruct (apply_patch d p cs) as [[[s1 d1] p1]| |] eqn:A; cbn [bind] in E; try discriminate.
    destruct (Z.eqb_spec s1 0) as [Hz|Hnz]; cbn [negb] in E.
    + subst s1. destruct (apply_loop d1 r cs) as [[[s2 d2] r2]| |] eqn:L; cbn [bind] in E; try discriminate.
      inversion E; subst. eapply run_step; [exact A | eapply IH; exact L].
    + inversion E; subst. eapply run_fail; [exact A | exact Hnz].
Qed.

Theorem apply_patches_run object patches cs st d' ps' :
  apply_patches object patches cs = Ok (st, d', ps') ->
  (is_array patches = false /\ st = 1 /\ d' = object) \/
  (is_array patches = true /\ run cs object (n_children patches) st d').
Proof.
  unfold apply_patches. destruct (is_array patches); cbn [negb].
  - intro E. right. split; [reflexivity|].
    destruct (apply_loop object (n_children patches) cs) as [[[s d] l]| |] eqn:L; cbn [bind] in E; try discriminate.
    inversion E; subst. eapply apply_loop_run; exact L.
  - intro E. inversion E; subst. left. repeat split.
Qed.

(** ---------- a patch array with one operation, through the entry point ---------- *)
Theorem apply_patches_single doc patches p o :
  dwf doc -> shallow doc -> is_array patches = true -> n_children patches = [p] ->
  op_wf p -> op_of p = Some o -> op_values_ok o -> o <> Remove [] ->
  ops_of patches = Some [o] /\
  exists st doc' patches', cJSONUtils_ApplyPatchesCaseSensitive doc patches = Ok (st, doc', patches') /\
    match eval doc [o] with
    | Some d' => st = 0 /\ doc_eq doc' d'
    | None => st <> 0
    end.
Proof.
  intros Hd Hs Ha Hc Hw Ho Hv Hne. split.
  { unfold ops_of. rewrite Ha, Hc. cbn [map all_some]. rewrite Ho. reflexivity. }
  destruct (apply_patch_conform doc p o Hd Hs Hw Ho Hv Hne) as (st & doc' & p' & E & H).
  unfold cJSONUtils_ApplyPatchesCaseSensitive, apply_patches. rewrite Ha, Hc. cbn [negb apply_loop]. rewrite E. cbn [bind].
  cbn [eval]. destruct (Z.eqb_spec st 0) as [Hz|Hnz]; cbn [negb bind].
  - subst st. do 3 eexists. split; [reflexivity|]. destruct (eval1 doc o) as [d1|]; [exact H | exfalso; apply H; reflexivity].
  - do 3 eexists. split; [reflexivity|]. destruct (eval1 doc o) as [d1|]; [destruct H; contradiction | exact H].
Qed.

(** ---------- executable checkers of the hypotheses ---------- *)
Definition kbb (k : bytes) : bool := forallb (fun c => (0 <? c) && (c <? 256)) k.
Definition keyedb (c : node) : bool := match n_key c with Some k => kbb k | None => false end.
Fixpoint dwfb (n : node) : bool :=
  match n with
  | Node ty vs vi vd k cs =>
      (Z.of_nat (length cs) <=? SIZE_MAX) && json_type (tymask ty) &&
      (if tymask ty =? c_cJSON_String then match vs with Some s => forallb (fun c => negb (c =? 0)) s | None => false end else true) &&
      (if tymask ty =? c_cJSON_Number then negb (is_nan vd) else true) &&
      (if tymask ty =? c_cJSON_Object then nodupb (map n_key cs) && forallb keyedb cs else true) &&
      (fix go (l : list node) : bool := match l with [] => true | c :: r => dwfb c && go r end) cs
  end.

Lemma okey_eqb_refl x : okey_eqb x x = true.
Proof. destruct x; [apply bytes_eqb_refl | reflexivity]. Qed.
Lemma nodupb_sound l : nodupb l = true -> NoDup l.
Proof.
  induction l as [|x r IH]; intro H; [constructor|]. cbn [nodupb] in H. apply andb_true_iff in H. destruct H as [H1 H2].
  constructor; [|apply IH; exact H2]. intro Hin. apply negb_true_iff in H1.
  assert (existsb (okey_eqb x) r = true) by (apply existsb_exists; exists x; split; [exact Hin | apply okey_eqb_refl]). congruence.
Qed.
Lemma kbb_sound k : kbb k = true -> key_bytes_ok k.
Proof. unfold kbb, key_bytes_ok. rewrite forallb_forall, Forall_forall. intros H x Hx. specialize (H x Hx). lia. Qed.
Lemma keyedb_sound cs : forallb keyedb cs = true -> keyed_children cs.
Proof.
  unfold keyed_children. rewrite forallb_forall, Forall_forall. intros H x Hx. specialize (H x Hx).
  unfold keyedb in H. destruct (n_key x) as [k|]; [|discriminate]. exists k. split; [reflexivity | apply kbb_sound; exact H].
Qed.
Lemma nzb_sound s : forallb (fun c => negb (c =? 0)) s = true -> nz s.
Proof. unfold nz. rewrite forallb_forall, Forall_forall. intros H x Hx. specialize (H x Hx). lia. Qed.

Lemma dwfb_sound n : dwfb n = true -> dwf n.
Proof.
  induction n as [ty vs vi vd k cs IH] using node_ind'. cbn [dwfb]. intro H.
  apply andb_true_iff in H. destruct H as [H Hgo]. apply andb_true_iff in H. destruct H as [H Hobj].
  apply andb_true_iff in H. destruct H as [H Hnum]. apply andb_true_iff in H. destruct H as [H Hstr].
  apply andb_true_iff in H. destruct H as [Hlen Hjt].
  apply dwf_unfold. split.
  - repeat split.
    + lia.
    + exact Hjt.
    + intro Ht. apply Z.eqb_eq in Ht. rewrite Ht in Hstr. destruct vs as [s|]; [|discriminate]. exists s. split; [reflexivity | apply nzb_sound; exact Hstr].
    + intro Ht. apply Z.eqb_eq in Ht. rewrite Ht in Hnum. apply negb_true_iff. exact Hnum.
    + apply Z.eqb_eq in H. rewrite H in Hobj. apply andb_true_iff in Hobj. apply nodupb_sound. apply Hobj.
    + apply Z.eqb_eq in H. rewrite H in Hobj. apply andb_true_iff in Hobj. apply keyedb_sound. apply Hobj.
  - clear -IH Hgo. induction cs as [|c r IHr]; [constructor|].
    apply andb_true_iff in Hgo. destruct Hgo as [Hc Hr]. inversion IH; subst. constructor; [auto | apply IHr; assumption].
Qed.

Definition op_wfb (p : node) : bool :=
  forallb keyedb (n_children p) &&
  forallb (fun m => match n_vstr m with Some s => forallb (fun c => negb (c =? 0)) s | None => true end) (n_children p).
Lemma op_wfb_sound p : op_wfb p = true -> op_wf p.
Proof.
  unfold op_wfb, op_wf. intro H. apply andb_true_iff in H. destruct H as [H1 H2]. split; [apply keyedb_sound; exact H1|].
  rewrite forallb_forall in H2. rewrite Forall_forall. intros m Hm s Es. specialize (H2 m Hm). rewrite Es in H2. apply nzb_sound. exact H2.
Qed.
Definition shallowb (v : node) : bool := Z.of_nat (node_depth v) <=? c_CJSON_CIRCULAR_LIMIT.
Lemma shallowb_sound v : shallowb v = true -> shallow v.
Proof. unfold shallowb, shallow. lia. Qed.

(** ---------- concrete instances ---------- *)
Definition xz := S754_zero false.
Definition xnum (k : option bytes) (v : Z) : node := Node 8 None v (dbl_of_int v) k [].
Definition xstr (k : option bytes) (s : bytes) : node := Node 16 (Some s) 0 xz k [].
(* {"b":1,"a/b":[10,11,{"~":5}]} *)
Definition x_doc : node :=
  Node 64 None 0 xz None
    [xnum (Some [98]) 1;
     Node 32 None 0 xz (Some [97;47;98]) [xnum None 10; xnum None 11; Node 64 None 0 xz None [xnum (Some [126]) 5]]].
(* {"op":"add","path":"/a~1b/1","value":{"q":[true]}} *)
Definition x_op_add : node :=
  Node 64 None 0 xz None
    [xstr (Some k_op) v_add; xstr (Some k_path) [47;97;126;49;98;47;49];
     Node 64 None 0 xz (Some k_value) [Node 32 None 0 xz (Some [113]) [Node 2 None 0 xz None []]]].
(* {"op":"test","path":"","value":{"a/b":[10,11,{"~":5}],"b":1}} : members in the other order *)
Definition x_op_test : node :=
  Node 64 None 0 xz None
    [xstr (Some k_op) v_test; xstr (Some k_path) [];
     Node 64 None 0 xz (Some k_value)
       [Node 32 None 0 xz (Some [97;47;98]) [xnum None 10; xnum None 11; Node 64 None 0 xz None [xnum (Some [126]) 5]];
        xnum (Some [98]) 1]].
(* {"op":"move","from":"/a~1b/2/~0","path":"/c"} *)
Definition x_op_move : node :=
  Node 64 None 0 xz None
    [xstr (Some k_op) v_move; xstr (Some k_from) [47;97;126;49;98;47;50;47;126;48]; xstr (Some k_path) [47;99]].
Definition x_patches (p : node) : node := Node 32 None 0 xz None [p].

Lemma examples_ok :
  dwf x_doc /\ shallow x_doc /\
  op_wf x_op_add /\ op_wf x_op_test /\ op_wf x_op_move /\
  (exists o, op_of x_op_add = Some o /\ op_values_ok o /\ o <> Remove [] /\ exists d, eval1 x_doc o = Some d) /\
  (exists o, op_of x_op_test = Some o /\ op_values_ok o /\ o <> Remove [] /\ eval1 x_doc o = Some x_doc) /\
  (exists o, op_of x_op_move = Some o /\ op_values_ok o /\ o <> Remove [] /\ exists d, eval1 x_doc o = Some d) /\
  (exists d p, cJSONUtils_ApplyPatchesCaseSensitive x_doc (x_patches x_op_add) = Ok (0, d, p) /\ d <> x_doc) /\
  (exists d p, cJSONUtils_ApplyPatchesCaseSensitive x_doc (x_patches x_op_test) = Ok (0, d, p) /\ d <> x_doc /\ doc_eq d x_doc).
Proof.
  split; [apply dwfb_sound; vm_compute; reflexivity|].
  split; [apply shallowb_sound; vm_compute; reflexivity|].
  split; [apply op_wfb_sound; vm_compute; reflexivity|].
  split; [apply op_wfb_sound; vm_compute; reflexivity|].
  split; [apply op_wfb_sound; vm_compute; reflexivity|].
  split.
  { eexists. split; [vm_compute; reflexivity|]. split; [split; [apply dwfb_sound; vm_compute; reflexivity | apply shallowb_sound; vm_compute; reflexivity]|].
    split; [discriminate|]. eexists. vm_compute. reflexivity. }
  split.
  { eexists. split; [vm_compute; reflexivity|]. split; [apply dwfb_sound; vm_compute; reflexivity|].
    split; [discriminate|]. vm_compute. reflexivity. }
  split.
  { eexists. split; [vm_compute; reflexivity|]. split; [exact I|]. split; [discriminate|]. eexists. vm_compute. reflexivity. }
  split.
  { do 2 eexists. split; [vm_compute; reflexivity | intro X; vm_compute in X; discriminate X]. }
  destruct (apply_patches_single x_doc (x_patches x_op_test) x_op_test (Test [] (Node 64 None 0 xz (Some k_value)
       [Node 32 None 0 xz (Some [97;47;98]) [xnum None 10; xnum None 11; Node 64 None 0 xz None [xnum (Some [126]) 5]];
        xnum (Some [98]) 1]))) as (_ & st & d & p & E & H).
  { apply dwfb_sound; vm_compute; reflexivity. } { apply shallowb_sound; vm_compute; reflexivity. }
  { reflexivity. } { reflexivity. } { apply op_wfb_sound; vm_compute; reflexivity. } { vm_compute; reflexivity. }
  { apply dwfb_sound; vm_compute; reflexivity. } { discriminate. }
  exists d, p. assert (Ev : eval x_doc [Test [] (Node 64 None 0 xz (Some k_value)
       [Node 32 None 0 xz (Some [97;47;98]) [xnum None 10; xnum None 11; Node 64 None 0 xz None [xnum (Some [126]) 5]];
        xnum (Some [98]) 1])] = Some x_doc) by (vm_compute; reflexivity).
  rewrite Ev in H. destruct H as [Hst Hd]. subst st. split; [exact E|]. split; [|exact Hd].
  vm_compute in E. inversion E. intro X; vm_compute in X; discriminate X.
Qed.
