(** CoreRefineAddObject.v — keys: [cJSON_strdup], re-keying an item, [add_item_to_object]
    (= cJSON_AddItemToObject / cJSON_AddItemToObjectCS).

    * flag bits under re-keying ([is_ref_set_key_*], [is_const_set_key_*]);
    * [cJSON_strdup_ok/_fail]: the copy is the fresh block [h_next h] holding the C string plus
      terminator ([alloc_str]); [WF_alloc_str];
    * [rekey_run] / [rekey_WF]: the statement sequence "release the old owned key; string := new
      key; type := new type" run on a well-formed heap, and [WF] of the result for the forest
      with the data of that node replaced ([set_data]) — the new owned key must be a fresh
      live library block;
    * [add_item_to_object_sim_owned] (copy of the name, old key released, appended),
      [_sim_nomem] (copy fails: refused, only the request counter moves), [_sim_const]
      (caller's block becomes the key, [cJSON_StringIsConst] set), [add_item_to_object_refused]. *)
From CJ Require Import Base Dbl Heap Forest ForestLemmas CoreSpec CoreDefs CoreRefineBase CoreRefine
  CoreRefineDelete CoreRefineReplace CoreRefineMore CoreRefineObject.
From CJ.gen Require Import Constants.
From stdpp Require Import gmap.
Implicit Types (h : heap) (F : forest) (p x y r : positive) (d : rdata).
Local Open Scope Z_scope.

(** * the flag bits under re-keying *)
Lemma is_ref_set_key_clear d k : is_ref (rd_owned_key d k) = is_ref d.
Proof.
  unfold is_ref, rd_owned_key. cbn. rewrite <- Z.land_assoc.
  by replace (Z.land (Z.lnot c_cJSON_StringIsConst) c_cJSON_IsReference) with c_cJSON_IsReference by reflexivity.
Qed.
Lemma is_ref_set_key_const d k : is_ref (rd_const_key d k) = is_ref d.
Proof.
  unfold is_ref, rd_const_key. cbn. rewrite Z.land_lor_distr_l.
  replace (Z.land c_cJSON_StringIsConst c_cJSON_IsReference) with 0 by reflexivity. by rewrite Z.lor_0_r.
Qed.
Lemma is_const_set_key_clear d k : is_const (rd_owned_key d k) = false.
Proof.
  unfold is_const, rd_owned_key. cbn. rewrite <- Z.land_assoc.
  replace (Z.land (Z.lnot c_cJSON_StringIsConst) c_cJSON_StringIsConst) with 0 by reflexivity.
  by rewrite Z.land_0_r.
Qed.
Lemma is_const_set_key_const d k : is_const (rd_const_key d k) = true.
Proof.
  unfold is_const, rd_const_key. cbn. rewrite Z.land_lor_distr_l.
  replace (Z.land c_cJSON_StringIsConst c_cJSON_StringIsConst) with c_cJSON_StringIsConst by reflexivity.
  destruct (Z.eqb_spec (Z.lor (Z.land (rd_type d) c_cJSON_StringIsConst) c_cJSON_StringIsConst) 0) as [E|E]; [|done].
  apply Z.lor_eq_0_iff in E as [_ E]. discriminate E.
Qed.

(** * cJSON_strdup *)
Definition alloc_str (h : heap) (contents : bytes) : heap :=
  let id := h_next h in
  mkHeap (h_lnk h) (h_dat h) (<[id := contents]> (h_str h)) (<[id := Lib]> (h_own h)) ({[id]} ∪ h_live h)
         (Pos.succ id) (S (h_req h)) (h_hooks h) (EvAlloc id (via_malloc h) :: h_trace h).

Lemma cJSON_strdup_fail oracle h b s :
  Readable h b -> h_str h !! b = Some s -> oracle (h_req h) = true ->
  cJSON_strdup oracle (Some b) h = Ret (None, bump h).
Proof.
  intros (Hl & s' & Hs & Hz) Hs' Ho. assert (s' = s) as -> by congruence.
  unfold cJSON_strdup. cbn [is_null]. rewrite (bindM_Ret _ _ _ _ _ (run_ld_cstr _ _ _ Hl Hs Hz)).
  unfold alloc_bytes. unfold bindM at 1. by rewrite Ho.
Qed.

Definition set_str (h : heap) (S : gmap positive bytes) : heap :=
  mkHeap (h_lnk h) (h_dat h) S (h_own h) (h_live h) (h_next h) (h_req h) (h_hooks h) (h_trace h).
Lemma run_st_str h (b : positive) (old s : bytes) :
  b ∈ h_live h -> h_str h !! b = Some old -> h_own h !! b = Some Lib -> length s = length old ->
  st_str (Some b) s h = Ret (tt, set_str h (<[b := s]> (h_str h))).
Proof.
  intros H1 H2 H3 H4. unfold st_str, chk, bindM. rewrite decide_True by done. cbn. unfold bytes in *.
  rewrite H2, H3. by rewrite H4, Nat.eqb_refl.
Qed.

Lemma cJSON_strdup_ok oracle h b s :
  Readable h b -> h_str h !! b = Some s -> oracle (h_req h) = false ->
  cJSON_strdup oracle (Some b) h = Ret (Some (h_next h), alloc_str h (cstr s ++ [0])).
Proof.
  intros (Hl & s' & Hs & Hz) Hs' Ho. assert (s' = s) as -> by congruence.
  unfold cJSON_strdup. cbn [is_null]. rewrite (bindM_Ret _ _ _ _ _ (run_ld_cstr _ _ _ Hl Hs Hz)).
  unfold alloc_bytes. unfold bindM at 1. rewrite Ho. cbn [is_null].
  match goal with |- bindM _ _ ?h1 = _ => set (H1 := h1) end.
  assert (Hst : st_str (Some (h_next h)) (cstr s ++ [0]) H1 =
                Ret (tt, set_str H1 (<[h_next h := cstr s ++ [0]]> (h_str H1)))).
  { apply (run_st_str H1 (h_next h) (repeat 0 (S (length (cstr s))))).
    - unfold H1. cbn. set_solver.
    - unfold H1. cbn. by rewrite lookup_insert.
    - unfold H1. cbn. by rewrite lookup_insert.
    - rewrite app_length, repeat_length. cbn. lia. }
  rewrite (bindM_Ret _ _ _ _ _ Hst).
  unfold ret. do 2 f_equal. unfold H1, set_str, alloc_str. cbn. f_equal. by rewrite insert_insert.
Qed.

Lemma WF_alloc_str h F c : WF h F -> WF (alloc_str h c) F.
Proof.
  intros [H1 H2 H3 H4 H5 H6 H7 H8]. constructor; cbn; try done.
  - intros b Hb. apply elem_of_union. right. by apply H5.
  - intros b Hb. rewrite lookup_insert_ne; [by apply H6|]. intros <-. exact (Pos.lt_irrefl _ (H7 _ Hb)).
  - intros b Hb. apply Pos.lt_lt_succ. by apply H7.
Qed.

(** * data change of a detached root *)
Lemma set_data_root F x d cs d' :
  NoDup (ids F) -> find_root x F = Some (T x d cs) ->
  T x d cs ∈ nodes F /\
  find_root x (set_data x d' F) = Some (T x d' cs) /\
  remove_root x (set_data x d' F) = remove_root x F.
Proof.
  intros ND Hx. destruct (find_root_split _ _ _ (NoDup_roots _ ND) Hx) as (F1 & F2 & HF & HF0).
  rewrite HF0. subst F. rewrite ids_app, ids_cons, ids_t_unfold in ND.
  apply NoDup_app in ND as (N1 & N12 & N2). apply NoDup_app in N2 as (Nt & Nt2 & N2).
  assert (Hx1 : x ∉ ids F1).
  { intros Hin. apply (N12 _ Hin). apply elem_of_app. left. by left. }
  assert (Hx2 : x ∉ ids F2).
  { apply Nt2. by left. }
  assert (Hset : set_data x d' (F1 ++ T x d cs :: F2) = F1 ++ T x d' cs :: F2).
  { unfold set_data. rewrite fmap_app, fmap_cons. fold (set_data x d' F1). fold (set_data x d' F2).
    rewrite !set_data_notin by done. cbn. by rewrite decide_True. }
  rewrite Hset. split_and!.
  - rewrite nodes_app, nodes_cons. apply elem_of_app. right. apply elem_of_app. left. apply nodes_t_self.
  - rewrite find_root_app_r by (intros Hin; by apply Hx1, roots_subseteq_ids).
    unfold find_root. cbn. by rewrite bool_decide_eq_true_2.
  - unfold remove_root. rewrite List.filter_app. cbn. rewrite bool_decide_eq_true_2 by done. cbn.
    fold (remove_root x F1). fold (remove_root x F2).
    rewrite !remove_root_notin; [done| |]; intros Hin; [by apply Hx2, roots_subseteq_ids|by apply Hx1, roots_subseteq_ids].
Qed.

(** * re-keying an item: release of the old owned key, new key and type word *)
Definition old_key (d : rdata) : list positive := if is_const d then [] else opt_list (rd_key d).

Lemma set_dat_set_dat h D D' : set_dat (set_dat h D) D' = set_dat h D'.
Proof. reflexivity. Qed.

Lemma rekey_run {B} (K : M B) h F x d (ks : list positive) nk ty' :
  WF h F -> (x, d, ks) ∈ flat F ->
  let h1 := free_all (old_key d) h in
  let h2 := set_dat h1 (<[x := mk_dat (rd_set_key_type d nk ty') ks]> (h_dat h1)) in
  (t <~ get_type (Some x) ;;
   (if has_flag t c_cJSON_StringIsConst then ret tt else
      k <~ get_key (Some x) ;;
      when (negb (is_null k)) (k2 <~ get_key (Some x) ;; free_block k2)) ;;;
   set_key (Some x) nk ;;; set_type (Some x) ty' ;;; K) h = K h2.
Proof.
  intros W Hn h1 h2.
  assert (Hlx : x ∈ h_live h).
  { apply (WF_ids_live _ _ _ W). rewrite ids_flat. apply elem_of_list_fmap. by exists (x, d, ks). }
  pose proof (WF_lookup_dat _ _ _ _ _ W Hn) as Hdx.
  rewrite (bindM_Ret _ _ _ _ _ (run_get_type_plain _ _ _ Hlx Hdx)).
  change (nd_type (mk_dat d ks)) with (rd_type d). rewrite has_flag_is_const.
  assert (Hstep : forall (K' : M B),
    ((if is_const d then ret tt else
        k <~ get_key (Some x) ;; when (negb (is_null k)) (k2 <~ get_key (Some x) ;; free_block k2)) ;;; K') h = K' h1).
  { intros K'. unfold h1, old_key. destruct (is_const d) eqn:Hc; [reflexivity|].
    rewrite bindM_assoc. rewrite (bindM_Ret _ _ _ _ _ (run_get_key_plain _ _ _ Hlx Hdx)).
    change (nd_key (mk_dat d ks)) with (rd_key d).
    destruct (rd_key d) as [k|] eqn:Hk; [|reflexivity]. cbn [is_null negb when opt_list].
    rewrite !bindM_assoc. rewrite (bindM_Ret _ _ _ _ _ (run_get_key_plain _ _ _ Hlx Hdx)).
    change (nd_key (mk_dat d ks)) with (rd_key d). rewrite Hk.
    assert (Hko : k ∈ owned F).
    { apply elem_of_owned_fl. exists (x, d, ks). split; [done|]. right. unfold owned_strs. cbn.
      rewrite Hc, Hk. apply elem_of_app. right. by left. }
    rewrite (bindM_Ret _ _ _ _ _ (run_free_block _ _ (wf_owned_live _ _ W _ Hko) (wf_owned_lib _ _ W _ Hko))).
    reflexivity. }
  rewrite Hstep. clear Hstep.
  assert (Hxk : x ∉ old_key d).
  { unfold old_key. destruct (is_const d) eqn:Hc; [apply not_elem_of_nil|].
    destruct (rd_key d) as [k|] eqn:Hk; [|apply not_elem_of_nil]. cbn. intros Hin%elem_of_list_singleton. subst k.
    pose proof (wf_owned_nodup _ _ W) as NDo. apply elem_of_Permutation in Hn as [FL HFL].
    unfold owned in NDo. rewrite HFL, owned_fl_cons in NDo. unfold owned_fn, owned_strs in NDo. cbn in NDo.
    rewrite Hc, Hk in NDo. apply NoDup_cons in NDo as [NDo _]. apply NDo. apply elem_of_app. left.
    apply elem_of_app. right. by left. }
  assert (Hlx1 : x ∈ h_live h1) by (apply free_all_live; done).
  assert (Hdx1 : h_dat h1 !! x = Some (mk_dat d ks)) by (unfold h1; by rewrite free_all_dat_lookup).
  rewrite (bindM_Ret _ _ _ _ _ (run_set_key_plain _ _ _ nk Hlx1 Hdx1)).
  match goal with |- bindM _ _ ?hh = _ => set (h1' := hh) end.
  assert (Hlx1' : x ∈ h_live h1') by done.
  assert (Hdx1' : h_dat h1' !! x = Some (nd_set_key (mk_dat d ks) nk)) by (unfold h1'; cbn; by rewrite lookup_insert).
  rewrite (bindM_Ret _ _ _ _ _ (run_set_type_plain _ _ _ ty' Hlx1' Hdx1')).
  unfold h1'. rewrite set_dat_set_dat. cbn [h_dat set_dat upd_maps]. rewrite insert_insert. reflexivity.
Qed.

Lemma owned_strs_split d : owned_strs d = (if is_ref d then [] else opt_list (rd_vstr d)) ++ old_key d.
Proof. reflexivity. Qed.

Lemma free_all_lnk_notin bs h : (forall b, b ∈ bs -> h_lnk h !! b = None) -> h_lnk (free_all bs h) = h_lnk h.
Proof.
  intros H. apply map_eq. intros k. destruct (decide (k ∈ bs)).
  - rewrite free_all_lnk_lookup_in by done. symmetry. by apply H.
  - by rewrite free_all_lnk_lookup.
Qed.
Lemma free_all_dat_notin bs h : (forall b, b ∈ bs -> h_dat h !! b = None) -> h_dat (free_all bs h) = h_dat h.
Proof.
  intros H. apply map_eq. intros k. destruct (decide (k ∈ bs)).
  - rewrite free_all_dat_lookup_in by done. symmetry. by apply H.
  - by rewrite free_all_dat_lookup.
Qed.

Lemma rekey_WF h F F1 x d d' (ks : list positive) FL :
  WF h F -> flat F ≡ₚ (x, d, ks) :: FL -> flat F1 ≡ₚ (x, d', ks) :: FL -> roots F1 ≡ₚ roots F ->
  rd_vstr d' = rd_vstr d -> rd_ref d' = rd_ref d -> is_ref d' = is_ref d ->
  (forall b, b ∈ old_key d' ->
     b ∉ owned F /\ b ∈ h_live h /\ h_own h !! b = Some Lib /\ (b < h_next h)%positive) ->
  NoDup (old_key d') ->
  let h1 := free_all (old_key d) h in
  let h2 := set_dat h1 (<[x := mk_dat d' ks]> (h_dat h1)) in
  WF h2 F1.
Proof.
  intros W HFL HFL1 HR Hv Hrf Hir Hnew NDnew h1 h2.
  pose proof (wf_owned_nodup _ _ W) as NDo. unfold owned in NDo. rewrite HFL, owned_fl_cons in NDo.
  unfold owned_fn in NDo. cbn [fn_id fn_data fst snd] in NDo. rewrite owned_strs_split in NDo.
  set (vp := if is_ref d then [] else opt_list (rd_vstr d)) in *.
  assert (Hown : owned F ≡ₚ x :: (vp ++ old_key d) ++ owned_fl FL).
  { unfold owned. rewrite HFL, owned_fl_cons. unfold owned_fn. cbn [fn_id fn_data fst snd]. by rewrite owned_strs_split. }
  assert (Hown1 : owned F1 ≡ₚ x :: (vp ++ old_key d') ++ owned_fl FL).
  { unfold owned. rewrite HFL1, owned_fl_cons. unfold owned_fn. cbn [fn_id fn_data fst snd].
    rewrite owned_strs_split. unfold vp. by rewrite Hir, Hv. }
  assert (Hold : forall b, b ∈ old_key d -> b ∈ owned F /\ b ∉ ids F).
  { intros b Hb. assert (Hbo : b ∈ owned F) by (rewrite Hown; set_solver). split; [done|].
    intros Hbi. rewrite ids_flat, HFL in Hbi. cbn in Hbi.
    apply NoDup_cons in NDo as [Hx NDo']. apply elem_of_cons in Hbi as [->|Hbi]; [set_solver|].
    apply NoDup_app in NDo' as (_ & Hd & _). apply (Hd b); [set_solver|].
    apply elem_of_list_fmap in Hbi as (e & -> & He). apply elem_of_owned_fl. exists e. split; [done|]. by left. }
  assert (Hl1 : h_lnk h1 = h_lnk h).
  { apply free_all_lnk_notin. intros b Hb. rewrite (wf_lnk _ _ W). apply heap_lnk_of_lookup_None. by apply Hold. }
  assert (Hd1 : h_dat h1 = h_dat h).
  { apply free_all_dat_notin. intros b Hb. rewrite (wf_dat _ _ W). apply heap_dat_of_lookup_None. by apply Hold. }
  eapply (WF_set_data h h2 F F1 x d d' ks FL W HFL HFL1 HR).
  - done.
  - cbn. by rewrite Hd1.
  - rewrite Hown1. apply NoDup_cons in NDo as [Hx NDo']. apply NoDup_cons. split.
    + intros Hin. apply elem_of_app in Hin as [Hin|Hin]; [|set_solver].
      apply elem_of_app in Hin as [Hin|Hin]; [set_solver|].
      destruct (Hnew _ Hin) as (Hno & _). apply Hno. rewrite Hown. by left.
    + apply NoDup_app in NDo' as (N1 & N12 & N2). apply NoDup_app in N1 as (Nv & Nvk & Nk).
      apply NoDup_app. split_and!; [|intros b Hb Hb'|done].
      * apply NoDup_app. split_and!; [done| |done]. intros b Hb Hb'.
        destruct (Hnew _ Hb') as (Hno & _). apply Hno. rewrite Hown. set_solver.
      * apply elem_of_app in Hb as [Hb|Hb]; [apply (N12 b); set_solver|].
        destruct (Hnew _ Hb) as (Hno & _). apply Hno. rewrite Hown. set_solver.
  - intros b Hb. rewrite Hown1 in Hb. cbn. unfold h1. rewrite free_all_own, free_all_next.
    assert (Hcase : b ∈ old_key d' \/ (b ∈ owned F /\ b ∉ old_key d)).
    { apply NoDup_cons in NDo as [Hx NDo']. apply NoDup_app in NDo' as (N1 & N12 & N2). apply NoDup_app in N1 as (Nv & Nvk & Nk).
      apply elem_of_cons in Hb as [->|Hb].
      - right. split; [rewrite Hown; by left|]. intros Hin. apply Hx. set_solver.
      - apply elem_of_app in Hb as [Hb|Hb].
        + apply elem_of_app in Hb as [Hb|Hb]; [|by left]. right. split; [rewrite Hown; set_solver|]. by apply Nvk.
        + right. split; [rewrite Hown; set_solver|]. intros Hin. apply (N12 b); set_solver. }
    destruct Hcase as [Hb'|[Hb1 Hb2]].
    + destruct (Hnew _ Hb') as (Hno & Hli & Hlib & Hfr). split_and!; [|done|done].
      apply free_all_live. split; [done|]. intros Hin. apply Hno. by apply Hold.
    + split_and!; [|by apply (wf_owned_lib _ _ W)|by apply (wf_fresh _ _ W)].
      apply free_all_live. split; [by apply (wf_owned_live _ _ W)|done].
  - pose proof (wf_ref _ _ W) as Hr. rewrite HFL in Hr. apply Forall_cons in Hr as [[Hr1 Hr2] _].
    cbn in *. split; cbn; rewrite ?Hir, ?Hrf; done.
Qed.

(** * add_item_to_object *)
Section AddToObject.
  Context (oracle : nat -> bool) (h : heap) (F : forest) (p x sb : positive) (d dp : rdata) (cs csp : list tree).
  Hypothesis W : WF h F.
  Hypothesis Hpx : p <> x.
  Hypothesis Hx : find_root x F = Some (T x d cs).
  Hypothesis Hp : find_tree p (remove_root x F) = Some (T p dp csp).
  Hypothesis Href : is_ref dp = false.

  Let ND : NoDup (ids F) := wf_nodup _ _ W.

  Lemma ato_focus d' :
    exists FL, flat F ≡ₚ (x, d, tid <$> cs) :: FL /\ flat (set_data x d' F) ≡ₚ (x, d', tid <$> cs) :: FL /\
      (x, d, tid <$> cs) ∈ flat F.
  Proof.
    destruct (set_data_root F x d cs d' ND Hx) as (Hin & _ & _).
    destruct (flat_set_data F x d cs ND Hin) as (FL & E1 & E2). exists FL. split_and!; [done|apply E2|].
    rewrite E1. by left.
  Qed.

  (** the common tail: re-key in heap [ha] (= [h], or [h] after the allocation of the copy) *)
  Lemma ato_tail ha d' nk ty' :
    WF ha F -> d' = rd_set_key_type d nk ty' -> is_ref d' = is_ref d ->
    (forall b, b ∈ old_key d' ->
       b ∉ owned F /\ b ∈ h_live ha /\ h_own ha !! b = Some Lib /\ (b < h_next ha)%positive) ->
    NoDup (old_key d') ->
    let F' := set_children p (csp ++ [T x d' cs]) (remove_root x F) in
    let hb := free_all (old_key d) ha in
    spec_add_to_array (set_data x d' F) (Some p) (Some x) = (F', true) /\
    (t <~ get_type (Some x) ;;
     (if has_flag t c_cJSON_StringIsConst then ret tt else
        k <~ get_key (Some x) ;;
        when (negb (is_null k)) (k2 <~ get_key (Some x) ;; free_block k2)) ;;;
     set_key (Some x) nk ;;; set_type (Some x) ty' ;;; add_item_to_array (Some p) (Some x)) ha =
      Ret (true, upd_maps hb (heap_lnk_of F') (heap_dat_of F')) /\
    WF (upd_maps hb (heap_lnk_of F') (heap_dat_of F')) F'.
  Proof.
    intros Wa Hd' Hir Hnew NDnew F' hb.
    destruct (ato_focus d') as (FL & E1 & E2 & Hin).
    destruct (set_data_root F x d cs d' ND Hx) as (_ & Hx1 & Hrr).
    rewrite (rekey_run _ ha F x d (tid <$> cs) nk ty' Wa Hin). rewrite <- Hd'.
    assert (W2 : WF (set_dat hb (<[x := mk_dat d' (tid <$> cs)]> (h_dat hb))) (set_data x d' F)).
    { eapply (rekey_WF ha F (set_data x d' F) x d d' _ FL Wa E1 E2); try done.
      - by rewrite roots_set_data.
      - by subst d'.
      - by subst d'. }
    assert (Hp1 : find_tree p (remove_root x (set_data x d' F)) = Some (T p dp csp)) by (by rewrite Hrr).
    destruct (add_item_to_array_sim _ _ p x (T x d' cs) dp csp W2 Hpx Hx1 Hp1 Href) as (S1 & S2 & S3).
    rewrite Hrr in S1, S2, S3. done.
  Qed.

  Context (s : bytes).
  Hypothesis Hrd : Readable h sb.
  Hypothesis Hs : h_str h !! sb = Some s.

  (** owned key, allocation succeeds *)
  Lemma add_item_to_object_sim_owned :
    oracle (h_req h) = false ->
    let nk := h_next h in
    let d' := rd_owned_key d nk in
    let F' := set_children p (csp ++ [T x d' cs]) (remove_root x F) in
    let hb := free_all (old_key d) (alloc_str h (cstr s ++ [0])) in
    spec_add_to_object F (Some p) (Some sb) (Some x) false (Some nk) = (F', true) /\
    add_item_to_object oracle (Some p) (Some sb) (Some x) false h =
      Ret (true, upd_maps hb (heap_lnk_of F') (heap_dat_of F')) /\
    WF (upd_maps hb (heap_lnk_of F') (heap_dat_of F')) F'.
  Proof.
    intros Ho nk d' F' hb.
    set (ha := alloc_str h (cstr s ++ [0])).
    pose proof (WF_alloc_str h F (cstr s ++ [0]) W) as Wa. fold ha in Wa.
    destruct (ato_focus d') as (FL & E1 & E2 & Hin).
    destruct (ato_tail ha d' (Some nk) (clear_flag (rd_type d) c_cJSON_StringIsConst) Wa) as (T1 & T2 & T3).
    { reflexivity. }
    { apply is_ref_set_key_clear. }
    { intros b Hb. unfold old_key, d' in Hb. rewrite is_const_set_key_clear in Hb. cbn in Hb.
      apply elem_of_list_singleton in Hb as ->. split_and!.
      - intros Hin'. exact (Pos.lt_irrefl _ (wf_fresh _ _ W _ Hin')).
      - unfold ha. cbn. set_solver.
      - unfold ha. cbn. by rewrite lookup_insert.
      - unfold ha. cbn. apply Pos.lt_succ_diag_r. }
    { unfold old_key, d'. rewrite is_const_set_key_clear. cbn. apply NoDup_singleton. }
    split; [|split; [|exact T3]].
    - unfold spec_add_to_object. rewrite decide_False by done. rewrite Hx. exact T1.
    - unfold add_item_to_object. cbn [is_null orb]. rewrite (ptr_eqb_Some_ne _ _ Hpx).
      rewrite !bindM_assoc. rewrite (bindM_Ret _ _ _ _ _ (cJSON_strdup_ok oracle h sb s Hrd Hs Ho)).
      cbn [is_null]. fold ha.
      assert (Hlx : x ∈ h_live ha).
      { apply (WF_ids_live _ _ _ Wa). rewrite ids_flat. apply elem_of_list_fmap. by exists (x, d, tid <$> cs). }
      rewrite !bindM_assoc. rewrite (bindM_Ret _ _ _ _ _ (run_get_type_plain _ _ _ Hlx (WF_lookup_dat _ _ _ _ _ Wa Hin))).
      rewrite bindM_ret. exact T2.
  Qed.

  (** owned key, allocation fails: refused, nothing changes but the request counter *)
  Lemma add_item_to_object_sim_nomem :
    oracle (h_req h) = true ->
    spec_add_to_object F (Some p) (Some sb) (Some x) false None = (F, false) /\
    add_item_to_object oracle (Some p) (Some sb) (Some x) false h = Ret (false, bump h) /\
    WF (bump h) F.
  Proof.
    intros Ho. split; [|split].
    - unfold spec_add_to_object. rewrite decide_False by done. by rewrite Hx.
    - unfold add_item_to_object. cbn [is_null orb]. rewrite (ptr_eqb_Some_ne _ _ Hpx).
      rewrite !bindM_assoc. rewrite (bindM_Ret _ _ _ _ _ (cJSON_strdup_fail oracle h sb s Hrd Hs Ho)).
      reflexivity.
    - destruct W. by constructor.
  Qed.

  (** constant key: the caller's block itself becomes the key *)
  Lemma add_item_to_object_sim_const :
    let d' := rd_const_key d sb in
    let F' := set_children p (csp ++ [T x d' cs]) (remove_root x F) in
    let hb := free_all (old_key d) h in
    spec_add_to_object F (Some p) (Some sb) (Some x) true None = (F', true) /\
    add_item_to_object oracle (Some p) (Some sb) (Some x) true h =
      Ret (true, upd_maps hb (heap_lnk_of F') (heap_dat_of F')) /\
    WF (upd_maps hb (heap_lnk_of F') (heap_dat_of F')) F'.
  Proof.
    intros d' F' hb.
    destruct (ato_focus d') as (FL & E1 & E2 & Hin).
    destruct (ato_tail h d' (Some sb) (Z.lor (rd_type d) c_cJSON_StringIsConst) W) as (T1 & T2 & T3).
    { reflexivity. }
    { apply is_ref_set_key_const. }
    { intros b Hb. unfold old_key, d' in Hb. rewrite is_const_set_key_const in Hb. by apply elem_of_nil in Hb. }
    { unfold old_key, d'. rewrite is_const_set_key_const. apply NoDup_nil_2. }
    split; [|split; [|exact T3]].
    - unfold spec_add_to_object. rewrite decide_False by done. rewrite Hx. exact T1.
    - unfold add_item_to_object. cbn [is_null orb]. rewrite (ptr_eqb_Some_ne _ _ Hpx).
      assert (Hlx : x ∈ h_live h).
      { apply (WF_ids_live _ _ _ W). rewrite ids_flat. apply elem_of_list_fmap. by exists (x, d, tid <$> cs). }
      rewrite !bindM_assoc. rewrite (bindM_Ret _ _ _ _ _ (run_get_type_plain _ _ _ Hlx (WF_lookup_dat _ _ _ _ _ W Hin))).
      rewrite bindM_ret. exact T2.
  Qed.
End AddToObject.

Lemma add_item_to_object_refused oracle F object string item ck copy h :
  object = None \/ string = None \/ item = None \/ object = item ->
  spec_add_to_object F object string item ck copy = (F, false) /\
  add_item_to_object oracle object string item ck h = Ret (false, h).
Proof.
  intros H. unfold spec_add_to_object, add_item_to_object.
  destruct object as [p|], string as [sb|], item as [x|]; cbn; try done.
  destruct H as [H|[H|[H|H]]]; try done. injection H as ->. rewrite decide_True by done. by rewrite Pos.eqb_refl.
Qed.
