(** MergeGen.v — semantic lemmas for C18_generate, part 1: documents stay documents under [dperm]; a result
    [true] of the value-level compare_json implies [doc_eq] of the two operands as they are after the call;
    name-wise characterisation of the RFC's member loop; objects that agree name by name are [doc_eq]; merging
    a null-free document into an absent or non-object target gives that document. *)
From Coq Require Import Permutation Sorted.
From CJ Require Import Base Dbl Tree CompareDefs CompareProofs MergeDefs Rfc7396 MergeLemmas MergeSort MergeApply MergePerm.
Local Open Scope Z_scope.

(** * documents under dperm *)
Lemma has_key_dperm x y : dperm x y -> has_key x -> has_key y.
Proof. intros H [k [Hk Hz]]. exists k. rewrite <- (dperm_key _ _ H). auto. Qed.

Lemma keys_ok_dperm l m : Forall2 dperm l m -> keys_ok l -> keys_ok m.
Proof.
  intros H [K Hnd]. split.
  - clear Hnd. induction H as [|x y l m Hxy _ IH]; [constructor|]. inversion K; subst. constructor; [eapply has_key_dperm; eassumption|auto].
  - rewrite <- (dperm_keys _ _ H). exact Hnd.
Qed.

Lemma gd_dperm : forall a b, dperm a b -> gd a -> gd b.
Proof.
  induction a as [ty vs vi vd k ch IH] using node_ind'. intros b H Hg.
  inversion H as [? ? ? ? ? ? mid ch' F P N]; subst. apply gd_eq in Hg. destruct Hg as [[Hk [Hn [Hs Ho]]] Hc].
  cbn [n_ty n_vdbl n_vstr n_children] in *. apply gd_eq. split.
  - unfold gd_local. cbn [n_ty n_vdbl n_vstr n_children]. split; [exact Hk|]. split; [exact Hn|]. split; [exact Hs|].
    intro E. apply (keys_ok_perm mid ch' P). apply (keys_ok_dperm ch mid F). apply Ho. exact E.
  - cbn [n_children]. apply (Forall_perm _ _ _ P). clear - IH F Hc. induction F as [|x y l m Hxy _ IHl]; [constructor|].
    inversion IH; subst. inversion Hc; subst. constructor; eauto.
Qed.

Lemma Forall_gd_dperm l m : Forall2 dperm l m -> Forall gd l -> Forall gd m.
Proof. induction 1 as [|x y l m H _ IH]; intro G; [constructor|]. inversion G; subst. constructor; [eapply gd_dperm; eassumption|auto]. Qed.

(** * objects that agree name by name *)
Definition objmatch (la lb : list node) : Prop :=
  forall k, match m7396_lookup (Some k) la, m7396_lookup (Some k) lb with
            | Some x, Some y => doc_eq x y = true
            | None, None => True
            | _, _ => False
            end.

Lemma doc_eq_objects a b : is_object a = true -> is_object b = true ->
  keys_ok (n_children a) -> keys_ok (n_children b) -> objmatch (n_children a) (n_children b) -> doc_eq a b = true.
Proof.
  intros Ea Eb [Ka Na] [Kb Nb] M. apply Z.eqb_eq in Ea. apply Z.eqb_eq in Eb.
  rewrite doc_eq_unfold, Ea, Eb. tyred. apply andb_true_iff. split; apply forallb_forall.
  - intros x Hx. rewrite Forall_forall in Ka. destruct (Ka x Hx) as [k [Hk _]]. rewrite Hk.
    specialize (M k). rewrite (lookup_in k _ x Na Hx Hk) in M. destruct (m7396_lookup (Some k) (n_children b)); [exact M|contradiction].
  - intros y Hy. rewrite Forall_forall in Kb. destruct (Kb y Hy) as [k [Hk _]]. rewrite Hk.
    specialize (M k). rewrite (lookup_in k _ y Nb Hy Hk) in M. destruct (m7396_lookup (Some k) (n_children a)); [reflexivity|contradiction].
Qed.

Lemma objmatch_pairs la lb : keys_ok lb ->
  Forall2 (fun x y => n_key x = n_key y /\ doc_eq x y = true) la lb -> objmatch la lb.
Proof.
  intros [Kb Nb] F k.
  assert (Hkeys : map n_key la = map n_key lb).
  { clear - F. induction F as [|x y la lb [H _] _ IH]; cbn [map]; congruence. }
  destruct (m7396_lookup (Some k) la) as [x|] eqn:El.
  - apply lookup_some in El. destruct El as [Hx Hk]. destruct (Forall2_in_l _ _ _ _ F Hx) as [y [Hy [Hxy Hd]]].
    rewrite (lookup_in k _ y Nb Hy); [exact Hd|]. rewrite <- Hxy. exact Hk.
  - apply lookup_none in El. rewrite Hkeys in El. rewrite (lookup_notin _ _ El). exact I.
Qed.

(** * compare_json: [true] implies doc_eq of the operands as they are afterwards (case-sensitive) *)
Definition cmp_sound (cmp : node -> node -> res (bool * node * node)) : Prop :=
  forall x y x' y', cmp x y = Ok (true, x', y') -> gd x -> gd y -> doc_eq x' y' = true.

Lemma arr_walk_sound cmp : cmp_sound cmp -> forall la lb la' lb',
  mp_arr_walk cmp la lb = Ok (true, la', lb') -> Forall gd la -> Forall gd lb ->
  Forall2 (fun x y => doc_eq x y = true) la' lb'.
Proof.
  intros Hs. induction la as [|x la IH]; intros [|y lb] la' lb' H Ga Gb; cbn [mp_arr_walk] in H; try discriminate.
  - injection H as <- <-. constructor.
  - destruct (cmp x y) as [[[r0 x'] y']| |] eqn:E; cbn [bind] in H; try discriminate.
    inversion Ga; subst. inversion Gb; subst. destruct r0; [|discriminate].
    destruct (mp_arr_walk cmp la lb) as [[[r2 la2] lb2]| |] eqn:E2; cbn [bind] in H; try discriminate.
    injection H as -> <- <-. constructor; [eapply Hs; eassumption|eapply IH; eassumption].
Qed.

Lemma obj_walk_sound cmp : cmp_dperm cmp -> cmp_sound cmp -> forall la lb la' lb',
  mp_obj_walk cmp true la lb = Ok (true, la', lb') -> Forall gd la -> Forall gd lb -> Forall has_key la -> Forall has_key lb ->
  Forall2 (fun x y => n_key x = n_key y /\ doc_eq x y = true) la' lb'.
Proof.
  intros Hd Hs. induction la as [|x la IH]; intros [|y lb] la' lb' H Ga Gb Ka Kb; cbn [mp_obj_walk] in H; try discriminate.
  - injection H as <- <-. constructor.
  - destruct (negb (mp_compare_strings (n_key x) (n_key y) true =? 0)) eqn:Ek; [discriminate|].
    destruct (cmp x y) as [[[r0 x'] y']| |] eqn:E; cbn [bind] in H; try discriminate.
    inversion Ga; subst. inversion Gb; subst. inversion Ka as [|? ? [kx [Hkx Zx]] Ka']; subst. inversion Kb as [|? ? [ky [Hky Zy]] Kb']; subst.
    destruct r0; [|discriminate].
    destruct (mp_obj_walk cmp true la lb) as [[[r2 la2] lb2]| |] eqn:E2; cbn [bind] in H; try discriminate.
    injection H as -> <- <-. destruct (Hd _ _ _ _ _ E) as [Dx Dy]. constructor; [|eapply IH; eassumption].
    split; [|eapply Hs; eassumption].
    rewrite <- (dperm_key _ _ Dx), <- (dperm_key _ _ Dy), Hkx, Hky. f_equal.
    apply negb_false_iff in Ek. apply Z.eqb_eq in Ek. unfold mp_compare_strings in Ek. rewrite Hkx, Hky in Ek.
    apply strcmp_zero_iff in Ek; assumption.
Qed.

Lemma tymask_set_children n l : n_ty (mp_set_children n l) = n_ty n.
Proof. destruct n; reflexivity. Qed.

Lemma compare_json_sound : forall fuel, cmp_sound (mp_compare_json fuel true).
Proof.
  induction fuel as [|f IH]; intros a b a' b' H Ga Gb; [discriminate|].
  pose proof (compare_json_dperm true (S f) _ _ _ _ _ H) as [Da Db].
  pose proof (gd_dperm _ _ Da Ga) as Ga'. pose proof (gd_dperm _ _ Db Gb) as Gb'.
  cbn [mp_compare_json] in H.
  destruct (negb (tymask (n_ty a) =? tymask (n_ty b))) eqn:Et; [discriminate|].
  apply negb_false_iff in Et. apply Z.eqb_eq in Et.
  destruct (Z.eqb_spec (tymask (n_ty a)) c_cJSON_Number) as [En|Nn].
  { injection H as H <- <-. rewrite doc_eq_unfold, <- Et, Z.eqb_refl, En. tyred. exact H. }
  destruct (Z.eqb_spec (tymask (n_ty a)) c_cJSON_String) as [Es|Ns].
  { destruct (n_vstr a) as [x|] eqn:Ex; [|discriminate]. destruct (n_vstr b) as [y|] eqn:Ey; [|discriminate].
    injection H as H <- <-. rewrite doc_eq_unfold, <- Et, Z.eqb_refl, Es, Ex, Ey. tyred.
    apply Z.eqb_eq in H. apply gd_eq in Ga. apply gd_eq in Gb.
    destruct Ga as [[_ [_ [Sa _]]] _]. destruct Gb as [[_ [_ [Sb _]]] _].
    destruct (Sa Es) as [sa [Hsa Za]]. destruct (Sb (eq_trans (eq_sym Et) Es)) as [sb [Hsb Zb]].
    rewrite Ex in Hsa. rewrite Ey in Hsb. injection Hsa as <-. injection Hsb as <-.
    apply strcmp_zero_iff in H; [|assumption|assumption]. subst y. apply bytes_eqb_refl. }
  destruct (Z.eqb_spec (tymask (n_ty a)) c_cJSON_Array) as [Ea|Na].
  { destruct (mp_arr_walk (mp_compare_json f true) (n_children a) (n_children b)) as [[[r0 la] lb]| |] eqn:E; cbn [bind] in H; try discriminate.
    injection H as -> <- <-.
    rewrite doc_eq_unfold, !tymask_set_children, <- Et, Z.eqb_refl, Ea, !set_children_children. tyred.
    apply arr_eq_Forall2. apply (arr_walk_sound _ IH _ _ _ _ E).
    - apply gd_eq in Ga. tauto.
    - apply gd_eq in Gb. tauto. }
  destruct (Z.eqb_spec (tymask (n_ty a)) c_cJSON_Object) as [Eo|No].
  { destruct (mp_sort_members true (n_children a)) as [sa| |] eqn:Esa; cbn [bind] in H; try discriminate.
    destruct (mp_sort_members true (n_children b)) as [sb| |] eqn:Esb; cbn [bind] in H; try discriminate.
    destruct (mp_obj_walk (mp_compare_json f true) true sa sb) as [[[r0 la] lb]| |] eqn:E; cbn [bind] in H; try discriminate.
    injection H as -> <- <-.
    apply sort_members_perm in Esa. apply sort_members_perm in Esb.
    assert (Oa : is_object a = true) by (apply Z.eqb_eq; exact Eo).
    assert (Ob : is_object b = true) by (apply Z.eqb_eq; rewrite <- Et; exact Eo).
    pose proof (keys_ok_perm _ _ Esa (gd_keys _ Ga Oa)) as Ksa. pose proof (keys_ok_perm _ _ Esb (gd_keys _ Gb Ob)) as Ksb.
    assert (Gsa : Forall gd sa) by (apply (Forall_perm _ _ _ Esa); apply gd_eq in Ga; tauto).
    assert (Gsb : Forall gd sb) by (apply (Forall_perm _ _ _ Esb); apply gd_eq in Gb; tauto).
    assert (Oa' : is_object (mp_set_children a la) = true) by (unfold is_object, is_type; rewrite tymask_set_children; exact Oa).
    assert (Ob' : is_object (mp_set_children b lb) = true) by (unfold is_object, is_type; rewrite tymask_set_children; exact Ob).
    pose proof (gd_keys _ Ga' Oa') as Kla. pose proof (gd_keys _ Gb' Ob') as Klb.
    apply doc_eq_objects; try assumption.
    rewrite !set_children_children. rewrite set_children_children in Klb. apply objmatch_pairs; [exact Klb|].
    apply (obj_walk_sound _ (compare_json_dperm true f) IH _ _ _ _ E); try assumption; [apply Ksa|apply Ksb]. }
  injection H as <- <-. rewrite doc_eq_unfold, <- Et, Z.eqb_refl.
  apply gd_eq in Ga. destruct Ga as [[Hk _] _].
  destruct Hk as [E|[E|[E|[E|[E|[E|E]]]]]]; try contradiction; rewrite E; reflexivity.
Qed.

(** * name-wise reading of the RFC's member loop *)
Lemma lookup_app k l1 l2 : m7396_lookup k (l1 ++ l2) =
  match m7396_lookup k l1 with Some c => Some c | None => m7396_lookup k l2 end.
Proof.
  unfold m7396_lookup. induction l1 as [|c l1 IH]; cbn [app find]; [reflexivity|].
  destruct (m7396_named k c); [reflexivity|exact IH].
Qed.
Lemma lookup_remove_same k tm : m7396_lookup (Some k) (m7396_remove (Some k) tm) = None.
Proof. apply lookup_notin. apply remove_keys_notin. Qed.
Lemma lookup_remove_other k k' tm : k <> k' -> m7396_lookup (Some k) (m7396_remove (Some k') tm) = m7396_lookup (Some k) tm.
Proof.
  intro Hne. unfold m7396_lookup, m7396_remove. induction tm as [|c tm IH]; cbn [filter find]; [reflexivity|].
  destruct (m7396_named (Some k') c) eqn:E1; cbn [negb find].
  - apply named_true in E1. destruct (m7396_named (Some k) c) eqn:E2; [|exact IH].
    apply named_true in E2. congruence.
  - destruct (m7396_named (Some k) c); [reflexivity|exact IH].
Qed.
Lemma lookup_single_same k v : m7396_lookup (Some k) [m7396_with_key (Some k) v] = Some (m7396_with_key (Some k) v).
Proof.
  unfold m7396_lookup. cbn [find]. assert (H : m7396_named (Some k) (m7396_with_key (Some k) v) = true) by (apply named_true; apply key_with_key).
  rewrite H. reflexivity.
Qed.
Lemma lookup_single_other k k' v : k <> k' -> m7396_lookup (Some k) [m7396_with_key (Some k') v] = None.
Proof.
  intro Hne. unfold m7396_lookup. cbn [find].
  assert (H : m7396_named (Some k) (m7396_with_key (Some k') v) = false) by (apply named_false; rewrite key_with_key; congruence).
  rewrite H. reflexivity.
Qed.

Lemma lookup_cons k c l : m7396_lookup k (c :: l) = if m7396_named k c then Some c else m7396_lookup k l.
Proof. reflexivity. Qed.

Lemma each_lookup rec : forall p tm, keys_ok p -> keys_ok tm ->
  keys_ok (m7396_each rec p tm) /\
  forall k, m7396_lookup (Some k) (m7396_each rec p tm) =
            match m7396_lookup (Some k) p with
            | None => m7396_lookup (Some k) tm
            | Some v => if is_null v then None
                        else Some (m7396_with_key (Some k) (rec (m7396_lookup (Some k) tm) v))
            end.
Proof.
  induction p as [|v r IH]; intros tm Kp Kt; cbn [m7396_each].
  - split; [exact Kt|]. intro k. reflexivity.
  - destruct Kp as [Kp Np]. inversion Kp as [|? ? [kv [Hkv Zv]] Kp']; subst. inversion Np as [|? ? Nv Np']; subst.
    rewrite Hkv.
    assert (Kt1 : keys_ok (m7396_remove (Some kv) tm)) by (apply keys_ok_remove; exact Kt).
    assert (Kt2 : forall s, keys_ok (m7396_set (Some kv) s tm)).
    { intro s. unfold m7396_set. apply keys_ok_app_one; [exact Kt1|apply has_key_with_key; exact Zv|rewrite key_with_key; apply remove_keys_notin]. }
    assert (Hr : m7396_lookup (Some kv) r = None) by (apply lookup_notin; rewrite <- Hkv; exact Nv).
    destruct (is_null v) eqn:En.
    + destruct (IH _ (conj Kp' Np') Kt1) as [K L]. split; [exact K|]. intro k. rewrite L.
      rewrite (lookup_cons (Some k) v r).
      destruct (m7396_named (Some k) v) eqn:E.
      * apply named_true in E. rewrite Hkv in E. injection E as <-. rewrite Hr, En. apply lookup_remove_same.
      * apply named_false in E. rewrite Hkv in E. assert (k <> kv) by congruence. rewrite (lookup_remove_other k kv tm H). reflexivity.
    + destruct (IH _ (conj Kp' Np') (Kt2 (rec (m7396_lookup (Some kv) tm) v))) as [K L]. split; [exact K|]. intro k. rewrite L.
      rewrite (lookup_cons (Some k) v r).
      destruct (m7396_named (Some k) v) eqn:E.
      * apply named_true in E. rewrite Hkv in E. injection E as <-. rewrite Hr, En.
        unfold m7396_set. rewrite lookup_app, lookup_remove_same. apply lookup_single_same.
      * apply named_false in E. rewrite Hkv in E. assert (k <> kv) by congruence.
        assert (Hs : m7396_lookup (Some k) (m7396_set (Some kv) (rec (m7396_lookup (Some kv) tm) v) tm) = m7396_lookup (Some k) tm).
        { unfold m7396_set. rewrite lookup_app, (lookup_remove_other k kv tm H), (lookup_single_other k kv _ H).
          destruct (m7396_lookup (Some k) tm); reflexivity. }
        rewrite Hs. reflexivity.
Qed.

(** [doc_eq] does not look at the key or the flags of its left operand's root *)
Lemma doc_eq_with_key k v y : doc_eq (m7396_with_key k v) y = doc_eq v y.
Proof. destruct v. rewrite !doc_eq_unfold. reflexivity. Qed.
Lemma doc_eq_keyed k v y : doc_eq (mp_keyed k v) y = doc_eq v y.
Proof. destruct v. rewrite !doc_eq_unfold. cbn [mp_keyed n_ty n_vint n_vdbl n_vstr n_children]. rewrite tymask_clear_const. reflexivity. Qed.

(** * merging a null-free document into nothing gives that document *)
Lemma lookup_sfeq k l l' : Forall2 sfeq l l' -> orel (m7396_lookup (Some k) l) (m7396_lookup (Some k) l').
Proof.
  unfold m7396_lookup. induction 1 as [|x y l l' H _ IH]; cbn [find orel]; [exact I|].
  unfold m7396_named. rewrite (sfeq_key _ _ H). destruct (m7396_key_eqb (n_key y) (Some k)); [exact H|exact IH].
Qed.

Definition no_object_target (t : option node) : Prop :=
  match t with None => True | Some n => is_object n = false end.

Lemma target0_no_object t : no_object_target t -> m7396_target0 t = m7396_empty_object.
Proof. destruct t as [n|]; cbn [no_object_target m7396_target0]; [intros ->|]; reflexivity. Qed.

Lemma merge_into_nothing : forall v w t, sfeq v w -> gd w -> no_null_member w = true -> no_object_target t ->
  doc_eq (merge t v) w = true.
Proof.
  induction v as [ty vs vi vd k ch IH] using node_ind'. intros w t Hs Hg Hn Ht.
  rewrite merge_unfold. destruct (is_object (Node ty vs vi vd k ch)) eqn:Eo; [|apply doc_eq_of_sfeq; assumption].
  rewrite (target0_no_object t Ht). cbn [n_children m7396_empty_object].
  assert (Ow : is_object w = true) by (unfold is_object; rewrite <- (sfeq_is_type c_cJSON_Object _ _ Hs); exact Eo).
  pose proof (sfeq_children _ _ Hs) as Hc. cbn [n_children] in Hc.
  pose proof (gd_keys _ Hg Ow) as Kw.
  assert (Kc : keys_ok ch).
  { destruct Kw as [K N]. split; [|rewrite (sfeq_keys _ _ Hc); exact N].
    clear - Hc K. induction Hc as [|x y l l' H _ IHl]; [constructor|]. inversion K as [|? ? [ky [Hy Zy]] K']; subst.
    constructor; [|auto]. exists ky. rewrite (sfeq_key _ _ H). auto. }
  destruct (each_lookup merge ch [] Kc (conj (Forall_nil _) (NoDup_nil _))) as [Ke L].
  apply doc_eq_objects; try assumption.
  - reflexivity.
  - intro k'. cbn [m7396_set_members n_children]. rewrite L. cbn [m7396_lookup find].
    pose proof (lookup_sfeq k' _ _ Hc) as R.
    destruct (m7396_lookup (Some k') ch) as [c|] eqn:E1; destruct (m7396_lookup (Some k') (n_children w)) as [c'|] eqn:E2;
      cbn [orel] in R; try contradiction; [|exact I].
    apply lookup_some in E1. destruct E1 as [Hin _]. apply lookup_some in E2. destruct E2 as [Hin' _].
    destruct w as [tw vsw viw vdw kw chw]. cbn [no_null_member] in Hn.
    change (tymask tw =? c_cJSON_Object) with (is_object (Node tw vsw viw vdw kw chw)) in Hn. rewrite Ow in Hn.
    cbn [n_children] in Hin'. rewrite forallb_forall in Hn. specialize (Hn c' Hin'). apply andb_true_iff in Hn. destruct Hn as [Hn1 Hn2].
    apply negb_true_iff in Hn1. unfold is_null in *. rewrite (sfeq_is_type c_cJSON_NULL _ _ R), Hn1. rewrite doc_eq_with_key.
    rewrite Forall_forall in IH. apply IH; [exact Hin|exact R| |exact Hn2|exact I].
    apply (gd_children _ _ Hg). exact Hin'.
Qed.
