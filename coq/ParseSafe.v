(** ParseSafe.v — safety of the transliterated parser (ParseDefs.v): for every input, every
    declared length inside the memory object, every allocation-failure schedule and every
    strtod satisfying [strtod_ok], no checked access fails ([OOB]), every loop terminates within
    the fuel the entry point supplies ([OutOfFuel]), the depth counter stays bounded and the
    allocation ledger balances.  One lemma per model function, all in the form
    [good P Q m]: the outcome [m] is [Ok a] with [P a], is never [OOB], and is [OutOfFuel]
    only when [Q] (a lower bound on the missing fuel) holds. *)
From CJ Require Import Base Dbl Tree LibcNum ParseDefs.
Local Open Scope Z_scope.

(** * Outcome predicate *)
Definition good {A} (P : A -> Prop) (Q : Prop) (m : res A) : Prop :=
  match m with Ok a => P a | OOB => False | OutOfFuel => Q end.

Lemma good_bind {A B} (m : res A) (f : A -> res B) (P1 : A -> Prop) (Q1 : Prop) (P : B -> Prop) (Q : Prop) :
  good P1 Q1 m -> (forall a, P1 a -> good P Q (f a)) -> (Q1 -> Q) -> good P Q (bind m f).
Proof. destruct m as [a| |]; cbn [good bind]; intros H1 H2 H3; auto. Qed.

Lemma good_weaken {A} (m : res A) (P P' : A -> Prop) (Q Q' : Prop) :
  good P Q m -> (forall a, P a -> P' a) -> (Q -> Q') -> good P' Q' m.
Proof. destruct m as [a| |]; cbn [good]; intros H1 H2 H3; auto. Qed.

Lemma good_ok_inv {A} (m : res A) (P : A -> Prop) (Q : Prop) a : good P Q m -> m = Ok a -> P a.
Proof. intros H E. subst m. exact H. Qed.

Lemma good_exists {A} (m : res A) (P : A -> Prop) : good P False m -> exists a, m = Ok a /\ P a.
Proof. destruct m as [a| |]; cbn [good]; intros H; try contradiction. eauto. Qed.

(** * The ledger on trees *)
Lemma blocks_node t vs vi vd k ch :
  blocks (Node t vs vi vd k ch) =
  1 + (match vs with Some _ => 1 | None => 0 end) + (match k with Some _ => 1 | None => 0 end) + blocks_list ch.
Proof.
  reflexivity.
Qed.

Lemma blocks_list_cons v a : blocks_list (v :: a) = blocks v + blocks_list a.
Proof. reflexivity. Qed.

Lemma blocks_list_app a b : blocks_list (a ++ b) = blocks_list a + blocks_list b.
Proof.
  induction a as [|x a IH]; [reflexivity|].
  rewrite <- app_comm_cons, !blocks_list_cons, IH. lia.
Qed.

Lemma blocks_list_rev a : blocks_list (rev a) = blocks_list a.
Proof.
  induction a as [|x a IH]; cbn [rev]; [reflexivity|].
  rewrite blocks_list_app, IH, !blocks_list_cons. change (blocks_list []) with 0. lia.
Qed.

Lemma blocks_with_key k v : n_key v = None -> blocks (with_key k v) = blocks v + 1.
Proof.
  destruct v as [t vs vi vd k0 ch]. cbn [n_key with_key]. intros ->.
  rewrite !blocks_node. lia.
Qed.

Section Safe.
  Variable strtod : bytes -> option (dbl * nat).
  Variable oracle : nat -> bool.
  Variable content : bytes.
  Variable len : nat.
  Hypothesis Hstrtod : strtod_ok strtod.
  Hypothesis Hlen : (len <= length content)%nat.

  Notation rdb := (rdb content len).
  Notation alloc := (alloc oracle).

  (** ** reads *)
  Lemma rdb_ok i : (i < len)%nat -> exists c, rdb i = Ok c /\ nth_error content i = Some c.
  Proof.
    intros H. unfold ParseDefs.rdb, rd.
    destruct (Nat.ltb_spec i len) as [_|H']; [|lia].
    destruct (nth_error content i) as [c|] eqn:E; [eauto|].
    apply nth_error_None in E. lia.
  Qed.

  Lemma rdb_inv i c : rdb i = Ok c -> (i < len)%nat /\ nth_error content i = Some c.
  Proof.
    unfold ParseDefs.rdb, rd. destruct (Nat.ltb_spec i len) as [H|H]; [|discriminate].
    destruct (nth_error content i) as [c'|]; [|discriminate]. intros E; inversion E; subst. auto.
  Qed.

  Lemma can_access_spec s i : can_access len s i = true <-> (off s + i < len)%nat.
  Proof. unfold can_access. apply Nat.ltb_lt. Qed.
  Lemma can_access_false s i : can_access len s i = false <-> (len <= off s + i)%nat.
  Proof. unfold can_access. apply Nat.ltb_ge. Qed.
  Lemma can_read_spec s i : can_read len s i = true <-> (off s + i <= len)%nat.
  Proof. unfold can_read. apply Nat.leb_le. Qed.

  Lemma alloc_spec s ok s1 : alloc s = (ok, s1) ->
    off s1 = off s /\ dep s1 = dep s /\ live s1 = live s + (if ok then 1 else 0).
  Proof.
    unfold ParseDefs.alloc. destruct (oracle (req s)); intros E; inversion E; subst; cbn; lia.
  Qed.

  (** ** match_lit *)
  Lemma match_lit_ok lit : forall i, (i + length lit <= len)%nat -> exists b, match_lit content len i lit = Ok b.
  Proof.
    induction lit as [|l r IH]; intros i H; cbn [match_lit length] in *; [eauto|].
    destruct (rdb_ok i) as [c [Hc _]]; [lia|]. rewrite Hc. cbn [bind].
    destruct (c =? l); [|eauto]. apply IH. lia.
  Qed.

  Lemma lit_guard_ok s n lit : length lit = n ->
    exists b, (if can_read len s n then match_lit content len (off s) lit else Ok false) = Ok b
              /\ (b = true -> (off s + n <= len)%nat).
  Proof.
    intros Hn. destruct (can_read len s n) eqn:E.
    - apply can_read_spec in E. destruct (match_lit_ok lit (off s)) as [b Hb]; [lia|].
      exists b. auto.
    - exists false. split; [reflexivity|discriminate].
  Qed.

  (** ** whitespace *)
  Definition ws_post (s s' : pst) : Prop :=
    dep s' = dep s /\ live s' = live s /\ (off s <= off s')%nat /\
    ((off s < len)%nat -> (off s' < len)%nat) /\ ((len <= off s)%nat -> off s' = off s).

  Definition skip_post (s s' : pst) : Prop :=
    dep s' = dep s /\ live s' = live s /\ (off s <= off s')%nat /\
    ((off s <= len)%nat -> (off s' <= len)%nat).

  Lemma skip_ws_loop_good fuel : forall s,
    good (skip_post s) (fuel <= len - off s)%nat (skip_ws_loop content len fuel s).
  Proof.
    induction fuel as [|f IH]; intros s; cbn [skip_ws_loop good]; [lia|].
    destruct (can_access len s 0) eqn:E.
    - apply can_access_spec in E.
      destruct (rdb_ok (off s)) as [c [Hc _]]; [lia|]. rewrite Hc. cbn [bind].
      destruct (c <=? 32).
      + eapply good_weaken; [apply IH| |].
        * intros s' (H1 & H2 & H3 & H4). cbn [off dep live add_off set_off] in *.
          repeat split; try assumption; lia.
        * cbn [off add_off set_off]. lia.
      + cbn [good]. repeat split; lia.
    - cbn [good]. repeat split; lia.
  Qed.

  Lemma bsw_good s : good (ws_post s) False (buffer_skip_whitespace content len s).
  Proof.
    unfold buffer_skip_whitespace. destruct (can_access len s 0) eqn:E; cbn [negb].
    - apply can_access_spec in E.
      eapply good_bind; [apply skip_ws_loop_good| |lia].
      intros s' (H1 & H2 & H3 & H4).
      destruct (Nat.eqb_spec (off s') len) as [E'|E']; cbn [good]; unfold ws_post;
        cbn [off dep live set_off]; repeat split; try assumption; lia.
    - apply can_access_false in E. cbn [good]. unfold ws_post. repeat split; lia.
  Qed.

  Lemma rnt_skip_good fuel : forall s,
    good (skip_post s) (fuel <= len - off s)%nat (rnt_skip content len fuel s).
  Proof.
    induction fuel as [|f IH]; intros s; cbn [rnt_skip good]; [lia|].
    destruct (can_access len s 0) eqn:E.
    - apply can_access_spec in E.
      destruct (rdb_ok (off s)) as [c [Hc _]]; [lia|]. rewrite Hc. cbn [bind].
      destruct (negb (c =? 0) && (c <=? 32)).
      + eapply good_weaken; [apply IH| |].
        * intros s' (H1 & H2 & H3 & H4). cbn [off dep live add_off set_off] in *.
          repeat split; try assumption; lia.
        * cbn [off add_off set_off]. lia.
      + cbn [good]. repeat split; lia.
    - cbn [good]. repeat split; lia.
  Qed.

  Lemma skip_utf8_bom_good s : good (skip_post s) False (skip_utf8_bom content len s).
  Proof.
    unfold skip_utf8_bom. destruct (can_access len s 2) eqn:E.
    - apply can_access_spec in E.
      destruct (match_lit_ok [239; 187; 191] (off s)) as [b Hb]; [cbn [length]; lia|].
      rewrite Hb. cbn [bind]. destruct b; cbn [good]; unfold skip_post;
        cbn [off dep live add_off set_off]; repeat split; lia.
    - cbn [good]. unfold skip_post. repeat split; lia.
  Qed.

  (** ** numbers *)
  Lemma number_copy_ok fuel s : forall i,
    exists r, number_copy content len fuel s i = Ok r /\ (r = [] \/ (off s + i + length r <= len)%nat).
  Proof.
    induction fuel as [|f IH]; intros i; cbn [number_copy]; [eauto|].
    destruct (can_access len s i) eqn:E; [|eauto].
    apply can_access_spec in E.
    destruct (rdb_ok (off s + i)) as [c [Hc _]]; [lia|]. rewrite Hc. cbn [bind].
    destruct (number_byte c); [|eauto].
    destruct (IH (S i)) as [r [Hr Hl]]. rewrite Hr. cbn [bind].
    exists (c :: r). split; [reflexivity|]. right. cbn [length].
    destruct Hl as [->|Hl]; cbn [length]; lia.
  Qed.
End Safe.
