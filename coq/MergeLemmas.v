(** MergeLemmas.v — basic facts used by the C18 proofs: ownership flags and the masked type, equality of
    nodes up to flags ([sfeq]), name -> value lookups on member lists, the Prop reading [gd] of
    [m7396_doc], unfolding lemmas for the nested fixpoints of [doc_eq] / [merge] / [mp_merge_patch], and
    "equal up to flags implies doc_eq". *)
From Coq Require Import Permutation.
From CJ Require Import Base Dbl Tree CompareDefs CompareProofs MergeDefs Rfc7396.
Local Open Scope Z_scope.

Ltac tyred := cbn [Z.eqb Pos.eqb orb andb negb c_cJSON_False c_cJSON_True c_cJSON_NULL c_cJSON_Number
                   c_cJSON_String c_cJSON_Raw c_cJSON_Array c_cJSON_Object].

(** * flags and the masked type *)
Lemma tymask_clear_ref ty : tymask (mp_clear_ref ty) = tymask ty.
Proof. unfold tymask, mp_clear_ref. rewrite <- Z.land_assoc. reflexivity. Qed.
Lemma tymask_clear_const ty : tymask (mp_clear_const ty) = tymask ty.
Proof. unfold tymask, mp_clear_const. rewrite <- Z.land_assoc. reflexivity. Qed.

Lemma strip_vint a : n_vint (strip_flags a) = n_vint a.
Proof. destruct a; reflexivity. Qed.

(** equal up to ownership flags, at every level *)
Definition sfeq (a b : node) : Prop := strip_flags a = strip_flags b.

Lemma sfeq_refl a : sfeq a a. Proof. reflexivity. Qed.
Lemma sfeq_sym a b : sfeq a b -> sfeq b a. Proof. unfold sfeq; congruence. Qed.
Lemma sfeq_trans a b c : sfeq a b -> sfeq b c -> sfeq a c. Proof. unfold sfeq; congruence. Qed.

Lemma sfeq_ty a b : sfeq a b -> tymask (n_ty a) = tymask (n_ty b).
Proof. intro H. rewrite <- !strip_ty. unfold sfeq in H. rewrite H. reflexivity. Qed.
Lemma sfeq_vstr a b : sfeq a b -> n_vstr a = n_vstr b.
Proof. intro H. rewrite <- (strip_vstr a), <- (strip_vstr b). unfold sfeq in H. rewrite H. reflexivity. Qed.
Lemma sfeq_vint a b : sfeq a b -> n_vint a = n_vint b.
Proof. intro H. rewrite <- (strip_vint a), <- (strip_vint b). unfold sfeq in H. rewrite H. reflexivity. Qed.
Lemma sfeq_vdbl a b : sfeq a b -> n_vdbl a = n_vdbl b.
Proof. intro H. rewrite <- (strip_vdbl a), <- (strip_vdbl b). unfold sfeq in H. rewrite H. reflexivity. Qed.
Lemma sfeq_key a b : sfeq a b -> n_key a = n_key b.
Proof. intro H. rewrite <- (strip_key a), <- (strip_key b). unfold sfeq in H. rewrite H. reflexivity. Qed.
Lemma map_eq_Forall2 {A B} (f : A -> B) : forall l l', map f l = map f l' -> Forall2 (fun x y => f x = f y) l l'.
Proof.
  induction l as [|x l IH]; intros [|y l'] H; try discriminate; constructor.
  - injection H; auto.
  - apply IH. injection H; auto.
Qed.
Lemma Forall2_map_eq {A B} (f : A -> B) : forall l l', Forall2 (fun x y => f x = f y) l l' -> map f l = map f l'.
Proof. induction 1; cbn [map]; congruence. Qed.
Lemma sfeq_children a b : sfeq a b -> Forall2 sfeq (n_children a) (n_children b).
Proof.
  intro H. apply (map_eq_Forall2 strip_flags). rewrite <- !strip_children. unfold sfeq in H. rewrite H. reflexivity.
Qed.
Lemma sfeq_intro a b : tymask (n_ty a) = tymask (n_ty b) -> n_vstr a = n_vstr b -> n_vint a = n_vint b ->
  n_vdbl a = n_vdbl b -> n_key a = n_key b -> Forall2 sfeq (n_children a) (n_children b) -> sfeq a b.
Proof.
  destruct a as [ta sa ia da ka ca], b as [tb sb ib db kb cb]. cbn [n_ty n_vstr n_vint n_vdbl n_key n_children].
  intros H1 H2 H3 H4 H5 H. unfold sfeq. cbn [strip_flags]. rewrite H1, H2, H3, H4, H5. f_equal. apply Forall2_map_eq. exact H.
Qed.

Lemma sfeq_is_type k a b : sfeq a b -> is_type k a = is_type k b.
Proof. intro H. unfold is_type. rewrite (sfeq_ty _ _ H). reflexivity. Qed.

Lemma sfeq_keys l l' : Forall2 sfeq l l' -> map n_key l = map n_key l'.
Proof. induction 1 as [|x y l l' H _ IH]; cbn [map]; [reflexivity|]. rewrite (sfeq_key _ _ H), IH. reflexivity. Qed.

Lemma sfeq_set_children a b l l' : sfeq a b -> Forall2 sfeq l l' -> sfeq (mp_set_children a l) (m7396_set_members b l').
Proof.
  intros H Hl. destruct a as [ta sa ia da ka ca], b as [tb sb ib db kb cb].
  apply sfeq_intro; cbn [mp_set_children m7396_set_members n_ty n_vstr n_vint n_vdbl n_key n_children];
    [apply (sfeq_ty _ _ H) | apply (sfeq_vstr _ _ H) | apply (sfeq_vint _ _ H) | apply (sfeq_vdbl _ _ H) | apply (sfeq_key _ _ H) | exact Hl].
Qed.

Lemma sfeq_keyed k a b : sfeq a b -> sfeq (mp_keyed k a) (m7396_with_key (Some k) b).
Proof.
  intro H. destruct a as [ta sa ia da ka ca], b as [tb sb ib db kb cb].
  apply sfeq_intro; cbn [mp_keyed m7396_with_key n_ty n_vstr n_vint n_vdbl n_key n_children].
  - rewrite tymask_clear_const. apply (sfeq_ty _ _ H).
  - apply (sfeq_vstr _ _ H).
  - apply (sfeq_vint _ _ H).
  - apply (sfeq_vdbl _ _ H).
  - reflexivity.
  - apply (sfeq_children _ _ H).
Qed.

(** * names and lookups *)
Definition keys_ok (l : list node) : Prop := Forall has_key l /\ NoDup (map n_key l).

Lemma bytes_eqb_sym a b : bytes_eqb a b = bytes_eqb b a.
Proof.
  destruct (bytes_eqb a b) eqn:E.
  - apply bytes_eqb_eq in E. subst. symmetry. apply bytes_eqb_refl.
  - destruct (bytes_eqb b a) eqn:E2; [|reflexivity]. apply bytes_eqb_eq in E2. subst. rewrite bytes_eqb_refl in E. discriminate.
Qed.

Lemma named_true k c : m7396_named (Some k) c = true <-> n_key c = Some k.
Proof.
  unfold m7396_named, m7396_key_eqb. destruct (n_key c) as [x|]; [|split; discriminate].
  rewrite bytes_eqb_eq. split; congruence.
Qed.
Lemma named_false k c : m7396_named (Some k) c = false <-> n_key c <> Some k.
Proof. rewrite <- named_true. destruct (m7396_named (Some k) c); split; congruence. Qed.
Lemma named_none c : m7396_named None c = false.
Proof. unfold m7396_named, m7396_key_eqb. destruct (n_key c); reflexivity. Qed.

Lemma lookup_notin k l : ~ In (Some k) (map n_key l) -> m7396_lookup (Some k) l = None.
Proof.
  induction l as [|c l IH]; cbn [map In m7396_lookup find]; intro H; [reflexivity|].
  destruct (m7396_named (Some k) c) eqn:E.
  - apply named_true in E. exfalso. apply H. left. exact E.
  - apply IH. intro H'. apply H. right. exact H'.
Qed.
Lemma lookup_some k l c : m7396_lookup (Some k) l = Some c -> In c l /\ n_key c = Some k.
Proof.
  unfold m7396_lookup. intro H. apply find_some in H. destruct H as [H1 H2]. apply named_true in H2. auto.
Qed.
Lemma lookup_none k l : m7396_lookup (Some k) l = None -> ~ In (Some k) (map n_key l).
Proof.
  unfold m7396_lookup. intros H Hin. apply in_map_iff in Hin. destruct Hin as [c [Hk Hc]].
  pose proof (find_none _ _ H c Hc) as F. apply named_false in F. contradiction.
Qed.
Lemma lookup_in k l c : NoDup (map n_key l) -> In c l -> n_key c = Some k -> m7396_lookup (Some k) l = Some c.
Proof.
  induction l as [|x l IH]; cbn [map In]; intros Hnd Hin Hk; [contradiction|].
  inversion Hnd as [|? ? Hx Hnd']; subst. unfold m7396_lookup. cbn [find].
  destruct Hin as [->|Hin].
  - apply named_true in Hk. rewrite Hk. reflexivity.
  - destruct (m7396_named (Some k) x) eqn:E.
    + apply named_true in E. exfalso. apply Hx. rewrite E, <- Hk. apply in_map. exact Hin.
    + apply IH; assumption.
Qed.

Lemma remove_notin k l : ~ In (Some k) (map n_key l) -> m7396_remove (Some k) l = l.
Proof.
  induction l as [|c l IH]; cbn [map In m7396_remove filter]; intro H; [reflexivity|].
  destruct (m7396_named (Some k) c) eqn:E; cbn [negb].
  - apply named_true in E. exfalso. apply H. left. exact E.
  - f_equal. apply IH. intro H'. apply H. right. exact H'.
Qed.
Lemma remove_in_iff k l c : In c (m7396_remove (Some k) l) <-> In c l /\ n_key c <> Some k.
Proof.
  unfold m7396_remove. rewrite filter_In, negb_true_iff, named_false. tauto.
Qed.
Lemma remove_none l : m7396_remove None l = l.
Proof.
  induction l as [|c l IH]; cbn [m7396_remove filter]; [reflexivity|]. rewrite named_none. cbn [negb]. f_equal. exact IH.
Qed.
Lemma remove_keys_notin k l : ~ In (Some k) (map n_key (m7396_remove (Some k) l)).
Proof.
  intro H. apply in_map_iff in H. destruct H as [c [Hk Hc]]. apply remove_in_iff in Hc. tauto.
Qed.
Lemma NoDup_map_filter {A B} (f : A -> B) (p : A -> bool) l : NoDup (map f l) -> NoDup (map f (filter p l)).
Proof.
  induction l as [|x l IH]; cbn [map filter]; intro H; [constructor|].
  inversion H as [|? ? Hx Hnd]; subst. destruct (p x); cbn [map]; [|auto].
  constructor; [|auto]. intro Hin. apply Hx. apply in_map_iff in Hin. destruct Hin as [y [Hy Hin]].
  apply filter_In in Hin. rewrite <- Hy. apply in_map. tauto.
Qed.
Lemma keys_ok_remove k l : keys_ok l -> keys_ok (m7396_remove k l).
Proof.
  intros [H1 H2]. split.
  - unfold m7396_remove. apply Forall_forall. intros c Hc. apply filter_In in Hc. rewrite Forall_forall in H1. apply H1. tauto.
  - apply NoDup_map_filter. exact H2.
Qed.
Lemma NoDup_app_one {A} (l : list A) x : NoDup l -> ~ In x l -> NoDup (l ++ [x]).
Proof.
  induction l as [|y l IH]; cbn [app]; intros Hnd Hx.
  - constructor; [intros []|constructor].
  - inversion Hnd as [|? ? Hy Hnd']; subst. constructor.
    + rewrite in_app_iff. cbn [In]. intros [H|[H|[]]]; [contradiction|]. apply Hx. left. symmetry. exact H.
    + apply IH; [exact Hnd'|]. intro H. apply Hx. right. exact H.
Qed.
Lemma keys_ok_app_one l c : keys_ok l -> has_key c -> ~ In (n_key c) (map n_key l) -> keys_ok (l ++ [c]).
Proof.
  intros [H1 H2] Hc Hn. split.
  - apply Forall_app. split; [exact H1 | constructor; [exact Hc | constructor]].
  - rewrite map_app. cbn [map]. apply NoDup_app_one; assumption.
Qed.

(** * JSON documents: the Prop reading of [m7396_doc] *)
Definition json_kind (t : Z) : Prop :=
  t = c_cJSON_False \/ t = c_cJSON_True \/ t = c_cJSON_NULL \/ t = c_cJSON_Number \/
  t = c_cJSON_String \/ t = c_cJSON_Array \/ t = c_cJSON_Object.

Definition gd_local (n : node) : Prop :=
  json_kind (tymask (n_ty n)) /\
  (tymask (n_ty n) = c_cJSON_Number -> is_nan (n_vdbl n) = false) /\
  (tymask (n_ty n) = c_cJSON_String -> exists s, n_vstr n = Some s /\ nonzero_bytes s) /\
  (tymask (n_ty n) = c_cJSON_Object -> keys_ok (n_children n)).

Fixpoint gd (n : node) : Prop :=
  match n with
  | Node ty vs vi vd k ch =>
      gd_local (Node ty vs vi vd k ch) /\
      (fix go (l : list node) : Prop := match l with [] => True | c :: r => gd c /\ go r end) ch
  end.

Lemma gd_eq n : gd n <-> gd_local n /\ Forall gd (n_children n).
Proof.
  destruct n as [ty vs vi vd k ch]. cbn [gd n_children].
  assert (H : forall l, (fix go (l : list node) : Prop := match l with [] => True | c :: r => gd c /\ go r end) l <-> Forall gd l).
  { induction l as [|c r IH].
    - split; [constructor|trivial].
    - split.
      + intros [H1 H2]. constructor; [exact H1|apply IH; exact H2].
      + intro H. inversion H; subst. split; [assumption|apply IH; assumption]. }
  rewrite H. tauto.
Qed.

Lemma cstring_nonzero s : m7396_cstring s = true -> nonzero_bytes s.
Proof.
  unfold m7396_cstring, nonzero_bytes. rewrite forallb_forall, Forall_forall. intros H c Hc.
  specialize (H c Hc). apply andb_true_iff in H. destruct H as [H1 H2]. apply Z.ltb_lt in H1. apply Z.ltb_lt in H2. lia.
Qed.

Lemma distinct_NoDup ks : Forall (fun k => k <> None) ks -> m7396_distinct ks = true -> NoDup ks.
Proof.
  induction ks as [|k r IH]; intros Hk H; [constructor|].
  cbn [m7396_distinct] in H. apply andb_true_iff in H. destruct H as [H1 H2].
  inversion Hk as [|? ? Hk1 Hk2]; subst. constructor; [|apply IH; assumption].
  intro Hin. apply negb_true_iff in H1.
  assert (E : existsb (m7396_key_eqb k) r = true).
  { apply existsb_exists. exists k. split; [exact Hin|]. destruct k as [x|]; [|congruence]. cbn [m7396_key_eqb]. apply bytes_eqb_refl. }
  congruence.
Qed.

Lemma m7396_doc_gd : forall n, m7396_doc n = true -> gd n.
Proof.
  induction n as [ty vs vi vd k ch IH] using node_ind'. intro H.
  cbn [m7396_doc] in H. repeat rewrite andb_true_iff in H.
  destruct H as [[[[[Hk Hn] Hs] Ho] _] Hc]. apply gd_eq. split.
  - unfold gd_local. cbn [n_ty n_vdbl n_vstr n_children]. split; [|split; [|split]].
    + unfold json_kind. repeat rewrite orb_true_iff in Hk. repeat rewrite Z.eqb_eq in Hk. tauto.
    + intro E. rewrite E, Z.eqb_refl in Hn. apply negb_true_iff in Hn. exact Hn.
    + intro E. rewrite E, Z.eqb_refl in Hs. destruct vs as [s|]; [|discriminate]. exists s. split; [reflexivity|apply cstring_nonzero; exact Hs].
    + intro E. rewrite E in Ho. rewrite Z.eqb_refl in Ho. apply andb_true_iff in Ho. destruct Ho as [Ho1 Ho2].
      rewrite forallb_forall in Ho1. split.
      * apply Forall_forall. intros c Hc'. specialize (Ho1 c Hc').
        destruct (n_key c) as [x|] eqn:Ek; [|discriminate]. exists x. split; [exact Ek|apply cstring_nonzero; exact Ho1].
      * apply distinct_NoDup; [|exact Ho2]. apply Forall_forall. intros x Hx. apply in_map_iff in Hx. destruct Hx as [c [Hx Hc']].
        specialize (Ho1 c Hc'). rewrite Hx in Ho1. destruct x; [congruence|discriminate].
  - cbn [n_children]. rewrite forallb_forall in Hc. rewrite Forall_forall in IH. apply Forall_forall. intros c Hc'. apply IH; auto.
Qed.

Lemma gd_children n c : gd n -> In c (n_children n) -> gd c.
Proof. intros H Hc. apply gd_eq in H. destruct H as [_ H]. rewrite Forall_forall in H. auto. Qed.
Lemma gd_keys n : gd n -> is_object n = true -> keys_ok (n_children n).
Proof. intros H Ho. apply gd_eq in H. destruct H as [[_ [_ [_ H]]] _]. apply H. apply Z.eqb_eq. exact Ho. Qed.

(** * unfolding [doc_eq] *)
Definition arr_eq (f : node -> node -> bool) : list node -> list node -> bool :=
  fix arr (la lb : list node) : bool :=
    match la, lb with
    | [], [] => true
    | x :: la', y :: lb' => f x y && arr la' lb'
    | _, _ => false
    end.

Lemma doc_eq_unfold a b : doc_eq a b =
  ((tymask (n_ty a) =? tymask (n_ty b)) &&
   (if tymask (n_ty a) =? c_cJSON_Number then (n_vint a =? n_vint b) && compare_double (n_vdbl a) (n_vdbl b)
    else if (tymask (n_ty a) =? c_cJSON_String) || (tymask (n_ty a) =? c_cJSON_Raw) then
      match n_vstr a, n_vstr b with Some x, Some y => bytes_eqb x y | _, _ => false end
    else if tymask (n_ty a) =? c_cJSON_Array then arr_eq doc_eq (n_children a) (n_children b)
    else if tymask (n_ty a) =? c_cJSON_Object then
      forallb (fun x => match m7396_lookup (n_key x) (n_children b) with Some y => doc_eq x y | None => false end) (n_children a)
      && forallb (fun y => match m7396_lookup (n_key y) (n_children a) with Some _ => true | None => false end) (n_children b)
    else (tymask (n_ty a) =? c_cJSON_False) || (tymask (n_ty a) =? c_cJSON_True) || (tymask (n_ty a) =? c_cJSON_NULL))).
Proof. destruct a; reflexivity. Qed.

Lemma arr_eq_Forall2 (f : node -> node -> bool) la lb : Forall2 (fun x y => f x y = true) la lb -> arr_eq f la lb = true.
Proof. induction 1 as [|x y la lb H _ IH]; cbn [arr_eq]; [reflexivity|]. rewrite H. exact IH. Qed.

Lemma Forall2_in_l {A B} (R : A -> B -> Prop) l l' x : Forall2 R l l' -> In x l -> exists y, In y l' /\ R x y.
Proof.
  induction 1 as [|a b l l' H _ IH]; intros Hin; [contradiction|]. destruct Hin as [->|Hin].
  - exists b. split; [left; reflexivity|exact H].
  - destruct (IH Hin) as [y [Hy Hr]]. exists y. split; [right; exact Hy|exact Hr].
Qed.
Lemma Forall2_in_r {A B} (R : A -> B -> Prop) l l' y : Forall2 R l l' -> In y l' -> exists x, In x l /\ R x y.
Proof.
  induction 1 as [|a b l l' H _ IH]; intros Hin; [contradiction|]. destruct Hin as [->|Hin].
  - exists a. split; [left; reflexivity|exact H].
  - destruct (IH Hin) as [x [Hx Hr]]. exists x. split; [right; exact Hx|exact Hr].
Qed.

(** equal up to flags implies [doc_eq], on JSON documents (this contains reflexivity) *)
Lemma doc_eq_of_sfeq : forall a b, sfeq a b -> gd b -> doc_eq a b = true.
Proof.
  induction a as [ty vs vi vd k ch IH] using node_ind'. intros b Hs Hg.
  rewrite doc_eq_unfold. pose proof (sfeq_ty _ _ Hs) as Ht. pose proof (sfeq_children _ _ Hs) as Hc.
  rewrite Ht, Z.eqb_refl. cbn [andb].
  rewrite (sfeq_vint _ _ Hs), (sfeq_vdbl _ _ Hs), (sfeq_vstr _ _ Hs).
  cbn [n_children] in *. apply gd_eq in Hg. destruct Hg as [[Hk [Hn [Hstr Ho]]] Hch].
  destruct Hk as [E|[E|[E|[E|[E|[E|E]]]]]]; rewrite E; tyred; try reflexivity.
  - rewrite Z.eqb_refl. cbn [andb]. apply compare_double_refl. apply Hn. exact E.
  - destruct (Hstr E) as [s [-> _]]. apply bytes_eqb_refl.
  - apply arr_eq_Forall2. clear - IH Hc Hch. revert IH Hch. induction Hc as [|x y la lb Hxy _ IHl]; intros IH Hch; constructor.
    + inversion IH; subst. inversion Hch; subst. auto.
    + inversion IH; subst. inversion Hch; subst. auto.
  - destruct (Ho E) as [Hkeyed Hnd]. apply andb_true_iff. split.
    + apply forallb_forall. intros x Hx.
      destruct (Forall2_in_l _ _ _ _ Hc Hx) as [y [Hy Hxy]].
      assert (Hyk : has_key y) by (rewrite Forall_forall in Hkeyed; auto). destruct Hyk as [ky [Hyk _]].
      rewrite (sfeq_key _ _ Hxy), Hyk. rewrite (lookup_in ky _ y Hnd Hy Hyk).
      rewrite Forall_forall in IH, Hch. apply IH; auto.
    + apply forallb_forall. intros y Hy.
      assert (Hyk : has_key y) by (rewrite Forall_forall in Hkeyed; auto). destruct Hyk as [ky [Hyk _]]. rewrite Hyk.
      destruct (m7396_lookup (Some ky) ch) eqn:El; [reflexivity|]. exfalso. apply lookup_none in El. apply El.
      rewrite (sfeq_keys _ _ Hc). rewrite <- Hyk. apply in_map. exact Hy.
Qed.

Lemma doc_eq_refl a : gd a -> doc_eq a a = true.
Proof. apply doc_eq_of_sfeq. apply sfeq_refl. Qed.
