(** MinifyGrammar.v — the last clause of C13 proved for ALL texts of the language "JSON with
    comments" (MinifyGrammarDefs.v: the RFC 8259 grammar family of Grammar.v with gaps made of
    whitespace, // line comments and block comments in place of whitespace runs; the exact
    comment shapes are listed in the header of MinifyGrammarDefs.v).

    For every derivation [CJ_erase txt min v] (= a derivation of the text [txt] with value
    [v], paired with the text [min] of the same derivation with all gaps erased; every
    [CJ_text txt v] has one, [CJ_text_erase]):
      - [minify_spec txt = min]                                   (minify_CJ)
      - [min] is an RFC 8259 text for the same value [v], derivable even with the EMPTY
        whitespace predicate: no whitespace and no comment outside string literals
                                                                   (CJ_erase_nows, CJ_erase_rfc)
      - the parser specification maps [min] to [tree_of v], consuming it completely; if the
        original has no comments (an RFC text) it parses to the same tree
                                                                   (CJ_erase_parse, rfc_minify_parses_equal)
      - string literals are the same bytes in [txt] and [min] (by construction of [evalue];
        token view: [CJ_erase_tokens])
      - [minify_spec min = min]                                    (minify_CJ_idempotent)
      - at buffer level [cJSON_Minify (txt ++ [0])] leaves the C string [min]  (cJSON_Minify_CJ);
        MinifyGrammarEntry.v composes this with the parser entry points on that buffer
        (parse after Minify = parse before Minify).
    Concrete instance with derivation and evaluation: MinifyGrammarExample.v. *)
From CJ Require Import Base Dbl Tree LibcNum MinifyDefs MinifyProofs MinifyValue ParseDefs ParseSpec
  Grammar ParseComplete MinifyGrammarDefs.
Local Open Scope Z_scope.

(** * Gaps *)

Lemma is_ws_rfc c : is_ws c = rfc_ws c.
Proof. unfold is_ws, rfc_ws. destruct (c =? 32), (c =? 9), (c =? 13), (c =? 10); reflexivity. Qed.

Lemma ws_gap w : ws rfc_ws w -> gap w.
Proof.
  unfold ws. induction w as [|c w IH]; intro H.
  - constructor.
  - cbn [forallb] in H. apply andb_true_iff in H as [H1 H2].
    apply gap_ws; [rewrite is_ws_rfc; exact H1|apply IH; exact H2].
Qed.

Lemma gap_app g1 g2 : gap g1 -> gap g2 -> gap (g1 ++ g2).
Proof.
  intros H1 H2. induction H1 as [|c g Hc Hg IH|body g Hb Hg IH|body g Hb Hg IH]; cbn [app].
  - exact H2.
  - apply gap_ws; assumption.
  - rewrite <- app_assoc. cbn [app]. apply gap_line; assumption.
  - rewrite <- app_assoc. cbn [app]. apply gap_block; assumption.
Qed.

Lemma nogap_gap w : nogap w -> gap w.
Proof. intros ->. constructor. Qed.

Lemma nogap_ws is_ws w : nogap w -> ws is_ws w.
Proof. intros ->. reflexivity. Qed.

Lemma no_ws_nogap w : ws no_ws w -> nogap w.
Proof. unfold ws, nogap. destruct w as [|c w]; [reflexivity|]. cbn. discriminate. Qed.

(** * The comment grammar is the grammar of Grammar.v up to the gap predicate *)

Lemma cgrammar_mono (G G' : bytes -> Prop) : (forall w, G w -> G' w) ->
  (forall d t v, cvalue G d t v -> cvalue G' d t v) /\
  (forall d b l, celements G d b l -> celements G' d b l) /\
  (forall d b m, cmembers G d b m -> cmembers G' d b m).
Proof. intro H. apply cgrammar_mutind; intros; econstructor; eauto. Qed.

Lemma value_cgrammar is_ws :
  (forall d t v, value is_ws rfc_raw rfc_num_tok d t v -> cvalue (ws is_ws) d t v) /\
  (forall d b l, elements is_ws rfc_raw rfc_num_tok d b l -> celements (ws is_ws) d b l) /\
  (forall d b m, members is_ws rfc_raw rfc_num_tok d b m -> cmembers (ws is_ws) d b m).
Proof.
  apply (grammar_mutind is_ws rfc_raw rfc_num_tok
           (fun d t v _ => cvalue (ws is_ws) d t v)
           (fun d b l _ => celements (ws is_ws) d b l)
           (fun d b m _ => cmembers (ws is_ws) d b m)); intros; econstructor; eauto.
Qed.

Lemma cgrammar_value is_ws :
  (forall d t v, cvalue (ws is_ws) d t v -> value is_ws rfc_raw rfc_num_tok d t v) /\
  (forall d b l, celements (ws is_ws) d b l -> elements is_ws rfc_raw rfc_num_tok d b l) /\
  (forall d b m, cmembers (ws is_ws) d b m -> members is_ws rfc_raw rfc_num_tok d b m).
Proof. apply cgrammar_mutind; intros; econstructor; eauto. Qed.

(** the only difference between the two grammar families is the gap predicate *)
Theorem cvalue_ws_iff is_ws d t v :
  cvalue (ws is_ws) d t v <-> value is_ws rfc_raw rfc_num_tok d t v.
Proof. split; [apply cgrammar_value|apply value_cgrammar]. Qed.

Lemma RFC_value_CJ d t v : RFC_value d t v -> cvalue gap d t v.
Proof.
  intro H. apply (proj1 (cgrammar_mono (ws rfc_ws) gap ws_gap)).
  apply cvalue_ws_iff. exact H.
Qed.

Lemma cvalue_nogap_NOWS d t v : cvalue nogap d t v -> NOWS_value d t v.
Proof.
  intro H. apply cvalue_ws_iff.
  exact (proj1 (cgrammar_mono nogap (ws no_ws) (nogap_ws no_ws)) d t v H).
Qed.

Lemma NOWS_value_nogap d t v : NOWS_value d t v -> cvalue nogap d t v.
Proof.
  intro H. apply cvalue_ws_iff in H.
  exact (proj1 (cgrammar_mono (ws no_ws) nogap no_ws_nogap) d t v H).
Qed.

Lemma cvalue_nogap_RFC d t v : cvalue nogap d t v -> RFC_value d t v.
Proof.
  intro H. apply cvalue_ws_iff.
  exact (proj1 (cgrammar_mono nogap (ws rfc_ws) (nogap_ws rfc_ws)) d t v H).
Qed.

(** * Erasure: projections, totality, the erased text is its own erasure *)

Lemma egrammar_mono (G G' : bytes -> Prop) : (forall w, G w -> G' w) ->
  (forall d t m v, evalue G d t m v -> evalue G' d t m v) /\
  (forall d b m l, eelements G d b m l -> eelements G' d b m l) /\
  (forall d b m l, emembers G d b m l -> emembers G' d b m l).
Proof. intro H. apply egrammar_mutind; intros; econstructor; eauto. Qed.

Lemma egrammar_fst G :
  (forall d t m v, evalue G d t m v -> cvalue G d t v) /\
  (forall d b m l, eelements G d b m l -> celements G d b l) /\
  (forall d b m l, emembers G d b m l -> cmembers G d b l).
Proof. apply egrammar_mutind; intros; econstructor; eauto. Qed.

Lemma egrammar_total G :
  (forall d t v, cvalue G d t v -> exists m, evalue G d t m v) /\
  (forall d b l, celements G d b l -> exists m, eelements G d b m l) /\
  (forall d b l, cmembers G d b l -> exists m, emembers G d b m l).
Proof.
  apply cgrammar_mutind; intros;
    repeat match goal with H : exists _, _ |- _ => destruct H end;
    eexists; econstructor; eauto.
Qed.

Lemma ee_one0 d t v : evalue nogap d t t v -> eelements nogap d t t [v].
Proof.
  intro H. pose proof (ee_one nogap d [] t t v [] eq_refl H eq_refl) as X.
  cbn [app] in X. rewrite app_nil_r in X. exact X.
Qed.

Lemma ee_cons0 d t v b l :
  evalue nogap d t t v -> eelements nogap d b b l -> eelements nogap d (t ++ 44 :: b) (t ++ 44 :: b) (v :: l).
Proof.
  intros H Hb. exact (ee_cons nogap d [] t t v [] b b l eq_refl H eq_refl Hb).
Qed.

Lemma em_one0 d kb k t v : chars rfc_raw kb k -> evalue nogap d t t v ->
  emembers nogap d (34 :: kb ++ 34 :: 58 :: t) (34 :: kb ++ 34 :: 58 :: t) [(k, v)].
Proof.
  intros Hk H. pose proof (em_one nogap d [] kb k [] [] t t v [] eq_refl Hk eq_refl eq_refl H eq_refl) as X.
  cbn [app] in X. rewrite app_nil_r in X. exact X.
Qed.

Lemma em_cons0 d kb k t v b m : chars rfc_raw kb k -> evalue nogap d t t v -> emembers nogap d b b m ->
  emembers nogap d (34 :: kb ++ 34 :: 58 :: t ++ 44 :: b) (34 :: kb ++ 34 :: 58 :: t ++ 44 :: b) ((k, v) :: m).
Proof.
  intros Hk H Hb.
  exact (em_cons nogap d [] kb k [] [] t t v [] b b m eq_refl Hk eq_refl eq_refl H eq_refl Hb).
Qed.

Lemma egrammar_idem G :
  (forall d t m v, evalue G d t m v -> evalue nogap d m m v) /\
  (forall d b m l, eelements G d b m l -> eelements nogap d m m l) /\
  (forall d b m l, emembers G d b m l -> emembers nogap d m m l).
Proof.
  apply egrammar_mutind; intros.
  - constructor.
  - constructor.
  - constructor.
  - constructor; assumption.
  - constructor; assumption.
  - exact (ev_arr0 nogap d [] eq_refl).
  - apply ev_arr; assumption.
  - exact (ev_obj0 nogap d [] eq_refl).
  - apply ev_obj; assumption.
  - apply ee_one0; assumption.
  - apply ee_cons0; assumption.
  - apply em_one0; assumption.
  - apply em_cons0; assumption.
Qed.

Lemma evalue_snd G d t m v : evalue G d t m v -> cvalue nogap d m v.
Proof. intro H. exact (proj1 (egrammar_fst nogap) d m m v (proj1 (egrammar_idem G) d t m v H)). Qed.

(** * What minify does on a derivation *)

Lemma plain_iff c : plain c = true <-> (c <> 32 /\ c <> 9 /\ c <> 13 /\ c <> 10 /\ c <> 34 /\ c <> 47).
Proof.
  unfold plain, is_ws.
  rewrite !andb_true_iff, !negb_true_iff, !orb_false_iff, !Z.eqb_neq. tauto.
Qed.

Lemma number_byte_plain c : number_byte c = true -> plain c = true.
Proof. intro H. apply number_byte_iff in H. apply plain_iff. lia. Qed.

Lemma rfc_number_plain t : rfc_number t = true -> forallb plain t = true.
Proof.
  intro H. apply rfc_number_nb in H. apply forallb_forall. intros c Hc.
  apply number_byte_plain. exact (proj1 (forallb_forall _ _) H c Hc).
Qed.

Lemma hexv_some h x : hexv h = Some x -> h <> 34 /\ h <> 92.
Proof. intro H. split; intros ->; cbv in H; discriminate H. Qed.

Lemma hex4v_some a b c d u : hex4v a b c d = Some u ->
  (a <> 34 /\ a <> 92) /\ (b <> 34 /\ b <> 92) /\ (c <> 34 /\ c <> 92) /\ (d <> 34 /\ d <> 92).
Proof.
  unfold hex4v. intro H.
  destruct (hexv a) eqn:Ea; [|discriminate H].
  destruct (hexv b) eqn:Eb; [|discriminate H].
  destruct (hexv c) eqn:Ec; [|discriminate H].
  destruct (hexv d) eqn:Ed; [|discriminate H].
  repeat split; eapply hexv_some; eassumption.
Qed.

Lemma sb_hex4 a b c d u r : hex4v a b c d = Some u -> strbody r -> strbody (a :: b :: c :: d :: r).
Proof.
  intros H Hr. destruct (hex4v_some a b c d u H) as [[A1 A2] [[B1 B2] [[C1 C2] [D1 D2]]]].
  apply sb_chr; [exact A1|exact A2|]. apply sb_chr; [exact B1|exact B2|].
  apply sb_chr; [exact C1|exact C2|]. apply sb_chr; [exact D1|exact D2|]. exact Hr.
Qed.

(** a string literal of the grammar is a string literal for Minify's scanner: the body and
    the closing quote *)
Lemma chars_strbody b s : chars rfc_raw b s -> strbody (b ++ [34]).
Proof.
  induction 1 as [|c b s H1 H2 Hr Hc IH|e v b s He Hc IH|h1 h2 h3 h4 u b s Hh Hs1 Hs2 Hc IH
                 |h1 h2 h3 h4 l1 l2 l3 l4 hi lo b s Hh Hs1 Hl Hs2 Hc IH]; cbn [app].
  - constructor.
  - apply sb_chr; assumption.
  - apply sb_esc. exact IH.
  - apply sb_esc. eapply sb_hex4; eassumption.
  - apply sb_esc. eapply sb_hex4; [eassumption|]. apply sb_esc. eapply sb_hex4; eassumption.
Qed.

Lemma mfy_lit b s r : chars rfc_raw b s -> mfy (34 :: b ++ 34 :: r) = 34 :: b ++ 34 :: mfy r.
Proof.
  intro H. pose proof (mfy_str (b ++ [34]) r (chars_strbody b s H)) as X.
  rewrite <- !app_assoc in X. exact X.
Qed.

Lemma mfy_p c r : plain c = true -> mfy (c :: r) = c :: mfy r.
Proof. apply mfy_plain1. Qed.

Lemma egrammar_mfy :
  (forall d t m v, evalue gap d t m v -> forall r, mfy (t ++ r) = m ++ mfy r) /\
  (forall d b m l, eelements gap d b m l -> forall r, mfy (b ++ r) = m ++ mfy r) /\
  (forall d b m l, emembers gap d b m l -> forall r, mfy (b ++ r) = m ++ mfy r).
Proof.
  apply egrammar_mutind.
  - intros d r. apply mfy_plain. reflexivity.
  - intros d r. apply mfy_plain. reflexivity.
  - intros d r. apply mfy_plain. reflexivity.
  - intros d t Ht r. apply mfy_plain. apply rfc_number_plain. exact Ht.
  - intros d b s Hc r. cbn [app]. rewrite <- !app_assoc. cbn [app]. eapply mfy_lit. exact Hc.
  - intros d w Hw r. cbn [app]. rewrite <- app_assoc. cbn [app].
    rewrite mfy_p by reflexivity. rewrite mfy_gap by exact Hw. rewrite mfy_p by reflexivity. reflexivity.
  - intros d b b' l _ IH r. cbn [app]. rewrite <- !app_assoc. cbn [app].
    rewrite mfy_p by reflexivity. rewrite IH. rewrite mfy_p by reflexivity. reflexivity.
  - intros d w Hw r. cbn [app]. rewrite <- app_assoc. cbn [app].
    rewrite mfy_p by reflexivity. rewrite mfy_gap by exact Hw. rewrite mfy_p by reflexivity. reflexivity.
  - intros d b b' l _ IH r. cbn [app]. rewrite <- !app_assoc. cbn [app].
    rewrite mfy_p by reflexivity. rewrite IH. rewrite mfy_p by reflexivity. reflexivity.
  - intros d w1 t t' v w2 H1 _ IH H2 r. rewrite <- !app_assoc.
    rewrite mfy_gap by exact H1. rewrite IH. rewrite mfy_gap by exact H2. reflexivity.
  - intros d w1 t t' v w2 b b' l H1 _ IH H2 _ IHb r. rewrite <- !app_assoc. cbn [app].
    rewrite mfy_gap by exact H1. rewrite IH. rewrite mfy_gap by exact H2.
    rewrite mfy_p by reflexivity. rewrite IHb. reflexivity.
  - intros d w1 kb k w2 w3 t t' v w4 H1 Hk H2 H3 _ IH H4 r.
    repeat (rewrite <- !app_assoc; cbn [app]).
    rewrite mfy_gap by exact H1. rewrite (mfy_lit kb k _ Hk). rewrite mfy_gap by exact H2.
    rewrite mfy_p by reflexivity. rewrite mfy_gap by exact H3. rewrite IH.
    rewrite mfy_gap by exact H4. reflexivity.
  - intros d w1 kb k w2 w3 t t' v w4 b b' m H1 Hk H2 H3 _ IH H4 _ IHb r.
    repeat (rewrite <- !app_assoc; cbn [app]).
    rewrite mfy_gap by exact H1. rewrite (mfy_lit kb k _ Hk). rewrite mfy_gap by exact H2.
    rewrite mfy_p by reflexivity. rewrite mfy_gap by exact H3. rewrite IH.
    rewrite mfy_gap by exact H4. rewrite mfy_p by reflexivity. rewrite IHb. reflexivity.
Qed.

(** the final gap: an unterminated comment runs to the end of the text *)
Lemma skip1_l_noline body : ~ In 10 body -> skip1_l body = [].
Proof.
  induction body as [|c body IH]; intro H; cbn [skip1_l]; [reflexivity|].
  destruct (Z.eqb_spec c 10) as [->|_]; [exfalso; apply H; left; reflexivity|].
  apply IH. intro Hin. apply H. right. exact Hin.
Qed.

Lemma skipm_l_noclose body : no_close body = true -> skipm_l body = [].
Proof.
  induction body as [|c body IH]; intro H; [reflexivity|].
  destruct body as [|d body'].
  - cbn. destruct (c =? 42); reflexivity.
  - cbn [skipm_l hd tl]. cbn [no_close] in H. apply andb_true_iff in H as [H1 H2].
    apply negb_true_iff in H1. rewrite H1. apply IH. exact H2.
Qed.

Lemma mfy_gap_end w : gap_end w -> mfy w = [].
Proof.
  destruct 1 as [g Hg|g body Hg Hb|g body Hg Hb].
  - rewrite <- (app_nil_r g). rewrite mfy_gap by exact Hg. reflexivity.
  - rewrite mfy_gap by exact Hg. rewrite mfy_cons. cbn [minify_l hd tl].
    change (47 =? 32) with false. change (47 =? 9) with false. change (47 =? 13) with false.
    change (47 =? 10) with false. change (47 =? 47) with true. cbv iota. cbn [orb].
    cbv iota. rewrite skip1_l_noline by exact Hb. destruct (length body + 1)%nat; reflexivity.
  - rewrite mfy_gap by exact Hg. rewrite mfy_cons. cbn [minify_l hd tl].
    change (47 =? 32) with false. change (47 =? 9) with false. change (47 =? 13) with false.
    change (47 =? 10) with false. change (47 =? 47) with true. change (42 =? 47) with false.
    change (42 =? 42) with true. cbn [orb]. cbv iota.
    rewrite skipm_l_noclose by exact Hb. destruct (length body + 1)%nat; reflexivity.
Qed.

Lemma bom_plain bom : bom = [] \/ bom = [239; 187; 191] -> forallb plain bom = true.
Proof. intros [-> | ->]; reflexivity. Qed.

(** * Texts *)

(** every text of the comment language has an erasure, and an erasure is a derivation of the
    text it erases *)
Theorem CJ_text_erase txt v : CJ_text txt v -> exists min, CJ_erase txt min v.
Proof.
  intros [bom [w1 [t [w2 [E [Hb [H1 [H2 Hv]]]]]]]].
  destruct (proj1 (egrammar_total gap) _ _ _ Hv) as [m Hm].
  exists (bom ++ m), bom, w1, t, m, w2. auto 10.
Qed.

Theorem CJ_erase_text txt min v : CJ_erase txt min v -> CJ_text txt v.
Proof.
  intros [bom [w1 [t [m [w2 [E [Em [Hb [H1 [H2 Hv]]]]]]]]]].
  exists bom, w1, t, w2. repeat split; try assumption.
  exact (proj1 (egrammar_fst gap) _ _ _ _ Hv).
Qed.

(** an RFC 8259 text is a text of the comment language *)
Theorem RFC_text_CJ txt v : RFC_text txt v -> CJ_text txt v.
Proof.
  intros [bom [w1 [t [w2 [E [Hb [H1 [H2 Hv]]]]]]]].
  exists bom, w1, t, w2. repeat split; try assumption.
  - apply ws_gap. exact H1.
  - apply ge_gap. apply ws_gap. exact H2.
  - apply RFC_value_CJ. exact Hv.
Qed.

(** (main) Minify computes the erasure *)
Theorem minify_CJ txt min v : CJ_erase txt min v -> minify_spec txt = min.
Proof.
  intros [bom [w1 [t [m [w2 [E [Em [Hb [H1 [H2 Hv]]]]]]]]]]. subst txt min.
  change (mfy (bom ++ w1 ++ t ++ w2) = bom ++ m).
  rewrite mfy_plain by (apply bom_plain; exact Hb).
  rewrite mfy_gap by exact H1.
  rewrite (proj1 egrammar_mfy _ _ _ _ Hv). rewrite mfy_gap_end by exact H2.
  rewrite app_nil_r. reflexivity.
Qed.

(** (iii) the result is derivable with the EMPTY whitespace predicate: no whitespace byte and
    no comment between tokens, before the value or after it *)
Theorem CJ_erase_nows txt min v : CJ_erase txt min v -> NOWS_text min v.
Proof.
  intros [bom [w1 [t [m [w2 [E [Em [Hb [H1 [H2 Hv]]]]]]]]]].
  exists bom, [], m, []. rewrite app_nil_r. repeat split; try assumption.
  apply cvalue_nogap_NOWS. eapply evalue_snd. exact Hv.
Qed.

(** (i) the result is an RFC 8259 text denoting the same value *)
Theorem CJ_erase_rfc txt min v : CJ_erase txt min v -> RFC_text min v.
Proof.
  intros [bom [w1 [t [m [w2 [E [Em [Hb [H1 [H2 Hv]]]]]]]]]].
  exists bom, [], m, []. rewrite app_nil_r. repeat split; try assumption.
  apply cvalue_nogap_RFC. eapply evalue_snd. exact Hv.
Qed.

(** (ii) the result parses to the tree of [v], and the parse consumes it completely *)
Theorem CJ_erase_parse strtod txt min v :
  strtod_rfc strtod -> CJ_erase txt min v -> jv_ok v ->
  text_l strtod min false = Some (tree_of strtod v, []).
Proof.
  intros Hs [bom [w1 [t [m [w2 [E [Em [Hb [H1 [H2 Hv]]]]]]]]]] Hok. subst min.
  assert (Hm : RFC_value nesting_limit m v) by (apply cvalue_nogap_RFC; eapply evalue_snd; exact Hv).
  destruct (value_starts _ _ _ Hm) as [c [m' [Ec Hc]]].
  unfold text_l.
  assert (Eb : match starts [239; 187; 191] (bom ++ m) with Some r => r | None => bom ++ m end = m).
  { rewrite Ec. exact (bom_strip bom [] c m' Hb eq_refl Hc). }
  rewrite Eb. rewrite Ec. rewrite drop_ws_start by (apply value_start_gt; exact Hc). rewrite <- Ec.
  rewrite <- (app_nil_r m) at 2.
  rewrite (complete_value strtod Hs nesting_limit m v Hm Hok _ 0 []); [reflexivity| | |exact I].
  - rewrite app_length. lia.
  - rewrite nesting_limit_Z. lia.
Qed.

(** the clause "the result parses to a tree equal to that of the original", for an original
    that the parser accepts (an RFC 8259 text: gaps of whitespace only): both parse to the
    tree of the denoted value *)
Theorem rfc_minify_parses_equal strtod txt v :
  strtod_rfc strtod -> RFC_text txt v -> jv_ok v ->
  option_map fst (text_l strtod txt false) = Some (tree_of strtod v) /\
  text_l strtod (minify_spec txt) false = Some (tree_of strtod v, []).
Proof.
  intros Hs Ht Hok. split.
  - destruct (complete_text_exact strtod txt v Hs Ht Hok) as [pre [w2 [_ [_ H]]]]. rewrite H. reflexivity.
  - destruct (CJ_text_erase txt v (RFC_text_CJ txt v Ht)) as [min Hm].
    rewrite (minify_CJ txt min v Hm). exact (CJ_erase_parse strtod txt min v Hs Hm Hok).
Qed.

(** with comments: the result parses to the tree of the value the commented text denotes,
    which is the tree of any comment-free spelling [txt'] of the same derivation (same
    erasure) *)
Theorem CJ_minify_parses_equal strtod txt txt' min v :
  strtod_rfc strtod -> CJ_erase txt min v -> CJ_erase txt' min v -> RFC_text txt' v -> jv_ok v ->
  text_l strtod (minify_spec txt) false = Some (tree_of strtod v, []) /\
  option_map fst (text_l strtod txt' false) = Some (tree_of strtod v) /\
  minify_spec txt' = minify_spec txt.
Proof.
  intros Hs H H' Hr Hok. split; [|split].
  - rewrite (minify_CJ txt min v H). exact (CJ_erase_parse strtod txt min v Hs H Hok).
  - destruct (complete_text_exact strtod txt' v Hs Hr Hok) as [pre [w2 [_ [_ X]]]]. rewrite X. reflexivity.
  - rewrite (minify_CJ txt min v H), (minify_CJ txt' min v H'). reflexivity.
Qed.

(** (v) the erased text is its own erasure, hence a fixed point *)
Theorem CJ_erase_idem txt min v : CJ_erase txt min v -> CJ_erase min min v.
Proof.
  intros [bom [w1 [t [m [w2 [E [Em [Hb [H1 [H2 Hv]]]]]]]]]].
  exists bom, [], m, m, []. rewrite app_nil_r. repeat split; try assumption.
  - constructor.
  - apply ge_gap. constructor.
  - apply (proj1 (egrammar_mono nogap gap nogap_gap)). exact (proj1 (egrammar_idem gap) _ _ _ _ Hv).
Qed.

Theorem minify_CJ_idempotent txt min v : CJ_erase txt min v ->
  minify_spec min = min /\ minify_spec (minify_spec txt) = minify_spec txt.
Proof.
  intro H. pose proof (minify_CJ min min v (CJ_erase_idem txt min v H)) as X.
  split; [exact X|]. rewrite (minify_CJ txt min v H). exact X.
Qed.

(** * Token view: the link to MinifyValue.text / C13_value

    The derivation yields the JSON token sequence (one token per terminal of the grammar:
    bracket, brace, comma, colon, literal, number, string literal with its quotes); [txt] is
    that sequence woven with gaps, [min] is its concatenation.  So every string literal is one
    token ([tok_str]) occurring byte for byte in both texts. *)
Definition TV (t m : bytes) : Prop := exists toks, MinifyValue.text t toks /\ concat toks = m.

Lemma text_app s1 k1 s2 k2 :
  MinifyValue.text s1 k1 -> MinifyValue.text s2 k2 -> MinifyValue.text (s1 ++ s2) (k1 ++ k2).
Proof.
  intros H1 H2. induction H1 as [g Hg|g t rest toks Hg Ht Hrest IH].
  - cbn [app]. destruct H2 as [g2 Hg2|g2 t rest toks Hg2 Ht Hrest].
    + constructor. apply gap_app; assumption.
    + rewrite app_assoc. constructor; [apply gap_app; assumption|assumption|assumption].
  - rewrite <- !app_assoc. cbn [app]. constructor; assumption.
Qed.

Lemma TV_nil : TV [] [].
Proof. exists []. split; [constructor; constructor|reflexivity]. Qed.

Lemma TV_gap w : gap w -> TV w [].
Proof. intro H. exists []. split; [constructor; exact H|reflexivity]. Qed.

Lemma TV_tok t : tok t -> TV t t.
Proof.
  intro H. exists [t]. split; [|cbn; apply app_nil_r].
  pose proof (text_cons [] t [] [] gap_nil H (text_nil [] gap_nil)) as X.
  cbn [app] in X. rewrite app_nil_r in X. exact X.
Qed.

Lemma TV_app t1 m1 t2 m2 : TV t1 m1 -> TV t2 m2 -> TV (t1 ++ t2) (m1 ++ m2).
Proof.
  intros [k1 [H1 E1]] [k2 [H2 E2]]. exists (k1 ++ k2). split; [apply text_app; assumption|].
  rewrite concat_app. congruence.
Qed.

Lemma TV_gap_l w t m : gap w -> TV t m -> TV (w ++ t) m.
Proof. intros Hw H. exact (TV_app w [] t m (TV_gap w Hw) H). Qed.

Lemma TV_p c t m : plain c = true -> TV t m -> TV (c :: t) (c :: m).
Proof.
  intros Hc H. apply (TV_app [c] [c] t m); [|exact H].
  apply TV_tok. apply tok_plain; [discriminate|]. cbn. rewrite Hc. reflexivity.
Qed.

Lemma TV_key kb k t m : chars rfc_raw kb k -> TV t m -> TV (34 :: kb ++ 34 :: t) (34 :: kb ++ 34 :: m).
Proof.
  intros Hk H.
  pose proof (TV_app _ _ t m (TV_tok _ (tok_str _ (chars_strbody kb k Hk))) H) as X.
  cbn [app] in X. rewrite <- !app_assoc in X. exact X.
Qed.

Lemma TV_gap_r t m w : TV t m -> gap w -> TV (t ++ w) m.
Proof. intros H Hw. pose proof (TV_app t m w [] H (TV_gap w Hw)) as X. rewrite app_nil_r in X. exact X. Qed.

Lemma egrammar_tokens :
  (forall d t m v, evalue gap d t m v -> TV t m) /\
  (forall d b m l, eelements gap d b m l -> TV b m) /\
  (forall d b m l, emembers gap d b m l -> TV b m).
Proof.
  apply egrammar_mutind.
  - intros d. apply TV_tok. apply tok_plain; [discriminate|reflexivity].
  - intros d. apply TV_tok. apply tok_plain; [discriminate|reflexivity].
  - intros d. apply TV_tok. apply tok_plain; [discriminate|reflexivity].
  - intros d t Ht. apply TV_tok. apply tok_plain; [|apply rfc_number_plain; exact Ht].
    destruct (rfc_number_first t Ht) as [c [r [-> _]]]. discriminate.
  - intros d b s Hc. exact (TV_key b s [] [] Hc TV_nil).
  - intros d w Hw. apply TV_p; [reflexivity|]. apply TV_gap_l; [exact Hw|]. apply TV_p; [reflexivity|apply TV_nil].
  - intros d b b' l _ IH. apply TV_p; [reflexivity|]. apply TV_app; [exact IH|]. apply TV_p; [reflexivity|apply TV_nil].
  - intros d w Hw. apply TV_p; [reflexivity|]. apply TV_gap_l; [exact Hw|]. apply TV_p; [reflexivity|apply TV_nil].
  - intros d b b' l _ IH. apply TV_p; [reflexivity|]. apply TV_app; [exact IH|]. apply TV_p; [reflexivity|apply TV_nil].
  - intros d w1 t t' v w2 H1 _ IH H2. apply TV_gap_l; [exact H1|]. apply TV_gap_r; assumption.
  - intros d w1 t t' v w2 b b' l H1 _ IH H2 _ IHb. apply TV_gap_l; [exact H1|].
    apply TV_app; [exact IH|]. apply TV_gap_l; [exact H2|]. apply TV_p; [reflexivity|exact IHb].
  - intros d w1 kb k w2 w3 t t' v w4 H1 Hk H2 H3 _ IH H4.
    apply TV_gap_l; [exact H1|]. apply (TV_key kb k); [exact Hk|]. apply TV_gap_l; [exact H2|].
    apply TV_p; [reflexivity|]. apply TV_gap_l; [exact H3|]. apply TV_gap_r; assumption.
  - intros d w1 kb k w2 w3 t t' v w4 b b' m H1 Hk H2 H3 _ IH H4 _ IHb.
    apply TV_gap_l; [exact H1|]. apply (TV_key kb k); [exact Hk|]. apply TV_gap_l; [exact H2|].
    apply TV_p; [reflexivity|]. apply TV_gap_l; [exact H3|].
    apply TV_app; [exact IH|]. apply TV_gap_l; [exact H4|]. apply TV_p; [reflexivity|exact IHb].
Qed.

(** (iv) the text up to its final gap is the weave of a token list with gaps, and the result is
    the concatenation of the tokens — the hypothesis of C13_value; string literals are whole
    tokens, hence the same bytes in both *)
Theorem CJ_erase_tokens txt min v : CJ_erase txt min v ->
  exists pre w2 toks, txt = pre ++ w2 /\ gap_end w2 /\ MinifyValue.text pre toks /\
                      Forall tok toks /\ concat toks = min.
Proof.
  intros [bom [w1 [t [m [w2 [E [Em [Hb [H1 [H2 Hv]]]]]]]]]].
  assert (X : TV (bom ++ w1 ++ t) (bom ++ m)).
  { apply TV_app; [|apply TV_gap_l; [exact H1|exact (proj1 egrammar_tokens _ _ _ _ Hv)]].
    destruct Hb as [-> | ->]; [apply TV_nil|].
    apply TV_tok. apply tok_plain; [discriminate|reflexivity]. }
  destruct X as [toks [Ht Ec]].
  exists (bom ++ w1 ++ t), w2, toks. rewrite <- !app_assoc.
  repeat split; try assumption; try congruence. eapply text_toks. exact Ht.
Qed.

(** * Buffer level *)
Theorem cJSON_Minify_CJ txt min v : CJ_erase txt min v -> nz txt ->
  exists b', cJSON_Minify (txt ++ [0]) = Ok b'
          /\ length b' = length (txt ++ [0])
          /\ cstr b' = min
          /\ (length min <= length txt)%nat.
Proof.
  intros H Hnz. destruct (cJSON_Minify_correct txt Hnz) as [b' [E [L [C Len]]]].
  rewrite (minify_CJ txt min v H) in C, Len. exists b'. auto.
Qed.

(** * The same statements for [CJ_text] (erasure existentially quantified) *)

Theorem CJ_text_summary strtod txt v :
  strtod_rfc strtod -> CJ_text txt v -> jv_ok v ->
  exists min, CJ_erase txt min v /\ minify_spec txt = min /\ NOWS_text min v /\ RFC_text min v /\
              text_l strtod min false = Some (tree_of strtod v, []) /\ minify_spec min = min.
Proof.
  intros Hs Ht Hok. destruct (CJ_text_erase txt v Ht) as [min Hm]. exists min.
  split; [exact Hm|]. split; [exact (minify_CJ txt min v Hm)|].
  split; [exact (CJ_erase_nows txt min v Hm)|]. split; [exact (CJ_erase_rfc txt min v Hm)|].
  split; [exact (CJ_erase_parse strtod txt min v Hs Hm Hok)|exact (proj1 (minify_CJ_idempotent txt min v Hm))].
Qed.

Theorem CJ_text_minify_parse strtod txt v :
  strtod_rfc strtod -> CJ_text txt v -> jv_ok v ->
  text_l strtod (minify_spec txt) false = Some (tree_of strtod v, []).
Proof.
  intros Hs Ht Hok. destruct (CJ_text_erase txt v Ht) as [min Hm].
  rewrite (minify_CJ txt min v Hm). exact (CJ_erase_parse strtod txt min v Hs Hm Hok).
Qed.

Theorem CJ_text_minify_nows txt v : CJ_text txt v -> NOWS_text (minify_spec txt) v.
Proof.
  intros Ht. destruct (CJ_text_erase txt v Ht) as [min Hm].
  rewrite (minify_CJ txt min v Hm). exact (CJ_erase_nows txt min v Hm).
Qed.

Theorem CJ_text_minify_tokens txt v : CJ_text txt v ->
  exists pre w2 toks, txt = pre ++ w2 /\ gap_end w2 /\ MinifyValue.text pre toks /\
                      Forall tok toks /\ concat toks = minify_spec txt.
Proof.
  intros Ht. destruct (CJ_text_erase txt v Ht) as [min Hm].
  rewrite (minify_CJ txt min v Hm). exact (CJ_erase_tokens txt min v Hm).
Qed.

Theorem CJ_text_minify_idempotent txt v : CJ_text txt v ->
  minify_spec (minify_spec txt) = minify_spec txt.
Proof.
  intros Ht. destruct (CJ_text_erase txt v Ht) as [min Hm].
  exact (proj2 (minify_CJ_idempotent txt min v Hm)).
Qed.

Theorem cJSON_Minify_CJ_text txt v : CJ_text txt v -> nz txt ->
  exists b' min, cJSON_Minify (txt ++ [0]) = Ok b'
          /\ length b' = length (txt ++ [0])
          /\ cstr b' = min /\ CJ_erase txt min v /\ NOWS_text min v
          /\ (length min <= length txt)%nat.
Proof.
  intros Ht Hnz. destruct (CJ_text_erase txt v Ht) as [min Hm].
  destruct (cJSON_Minify_CJ txt min v Hm Hnz) as [b' [E [L [C Len]]]].
  exists b', min. repeat split; try assumption. exact (CJ_erase_nows txt min v Hm).
Qed.
