(** SortChain.v — the ground layer of the heap-level proof of C19:
    * how the field primitives of Heap.v act on a heap whose link map is varied ([with_lnk]);
    * [seg]/[chain]: representation predicate of a doubly linked segment / a NULL-terminated
      sibling chain whose head has an arbitrary [prev];
    * how a segment changes under the two pointer surgeries of [sort_list] (cut before a node, link a
      node behind a tail);
    * the lookup lemmas of the canonical link map [slinks]. *)
From CJ Require Import Base Dbl Tree Heap SortDefs SortSpec.
From stdpp Require Import gmap.
Local Open Scope Z_scope.

Notation lmap := (gmap positive (ptr * ptr)).

Definition with_lnk (h : heap) (m : lmap) : heap :=
  mkHeap m (h_dat h) (h_str h) (h_own h) (h_live h) (h_next h) (h_req h) (h_hooks h) (h_trace h).
Definition with_dat (h : heap) (d : gmap positive ndata) : heap :=
  mkHeap (h_lnk h) d (h_str h) (h_own h) (h_live h) (h_next h) (h_req h) (h_hooks h) (h_trace h).

Lemma with_lnk_id h : with_lnk h (h_lnk h) = h.
Proof. destruct h; reflexivity. Qed.
Lemma with_lnk_with_lnk h m m' : with_lnk (with_lnk h m) m' = with_lnk h m'.
Proof. reflexivity. Qed.

Lemma bind_eq {A B} (m : M A) (f : A -> M B) h a h' :
  m h = Ret (a, h') -> bindM m f h = f a h'.
Proof. intros H. unfold bindM. rewrite H. reflexivity. Qed.

(** * Primitives *)
Section Prims.
  Variable h : heap.

  Lemma get_next_with m x n p :
    x ∈ h_live h -> m !! x = Some (n, p) -> get_next (Some x) (with_lnk h m) = Ret (n, with_lnk h m).
  Proof.
    intros Hl Hm. unfold get_next, ld_lnk, bindM, chk, ret. cbn.
    destruct (decide (x ∈ h_live h)) as [_|N]; [|contradiction]. cbn. rewrite Hm. reflexivity.
  Qed.

  Lemma get_prev_with m x n p :
    x ∈ h_live h -> m !! x = Some (n, p) -> get_prev (Some x) (with_lnk h m) = Ret (p, with_lnk h m).
  Proof.
    intros Hl Hm. unfold get_prev, ld_lnk, bindM, chk, ret. cbn.
    destruct (decide (x ∈ h_live h)) as [_|N]; [|contradiction]. cbn. rewrite Hm. reflexivity.
  Qed.

  Lemma set_next_with m x n p v :
    x ∈ h_live h -> m !! x = Some (n, p) ->
    set_next (Some x) v (with_lnk h m) = Ret (tt, with_lnk h (<[x := (v, p)]> m)).
  Proof.
    intros Hl Hm. unfold set_next, ld_lnk, st_lnk, bindM, chk, ret. cbn.
    destruct (decide (x ∈ h_live h)) as [_|N]; [|contradiction]. cbn. rewrite Hm. cbn.
    destruct (decide (x ∈ h_live h)) as [_|N]; [|contradiction]. cbn. rewrite Hm. reflexivity.
  Qed.

  Lemma set_prev_with m x n p v :
    x ∈ h_live h -> m !! x = Some (n, p) ->
    set_prev (Some x) v (with_lnk h m) = Ret (tt, with_lnk h (<[x := (n, v)]> m)).
  Proof.
    intros Hl Hm. unfold set_prev, ld_lnk, st_lnk, bindM, chk, ret. cbn.
    destruct (decide (x ∈ h_live h)) as [_|N]; [|contradiction]. cbn. rewrite Hm. cbn.
    destruct (decide (x ∈ h_live h)) as [_|N]; [|contradiction]. cbn. rewrite Hm. reflexivity.
  Qed.

  (** the key of a member node, as the code reaches it *)
  Definition key_ptr (x : positive) : ptr :=
    match h_dat h !! x with Some d => nd_key d | None => None end.
  Definition keyof (x : positive) : bytes :=
    match key_ptr x with
    | Some kp => match h_str h !! kp with Some raw => cstr raw | None => [] end
    | None => []
    end.
  (** a live node whose key is a live, zero-terminated string block *)
  Definition node_ok (x : positive) : Prop :=
    x ∈ h_live h /\ is_Some (h_dat h !! x) /\
    exists kp (raw : bytes), key_ptr x = Some kp /\ kp ∈ h_live h /\ h_str h !! kp = Some raw /\ existsb (Z.eqb 0) raw = true.

  Lemma node_ok_live x : node_ok x -> x ∈ h_live h.
  Proof. intros [H _]. exact H. Qed.

  Lemma keyof_zfree x : zfree (keyof x).
  Proof.
    unfold keyof. destruct (key_ptr x) as [kp|]; [|constructor].
    destruct (h_str h !! kp); [apply cstr_zfree|constructor].
  Qed.

  Lemma get_key_with m x :
    node_ok x -> get_key (Some x) (with_lnk h m) = Ret (key_ptr x, with_lnk h m).
  Proof.
    intros (Hl & [d Hd] & _). unfold get_key, ld_dat, bindM, chk, ret, key_ptr. cbn.
    destruct (decide (x ∈ h_live h)) as [_|N]; [|contradiction]. cbn. rewrite Hd. reflexivity.
  Qed.

  Lemma ld_cstr_with m kp (raw : bytes) :
    kp ∈ h_live h -> h_str h !! kp = Some raw -> existsb (Z.eqb 0) raw = true ->
    ld_cstr (Some kp) (with_lnk h m) = Ret (cstr raw, with_lnk h m).
  Proof.
    intros Hl Hs Hz. unfold ld_cstr, ld_str, bindM, chk, ret. cbn.
    destruct (decide (kp ∈ h_live h)) as [_|N]; [|contradiction]. cbn.
    rewrite Hs, Hz. reflexivity.
  Qed.

  Lemma compare_strings_with m cs x y :
    node_ok x -> node_ok y ->
    compare_strings (key_ptr x) (key_ptr y) cs (with_lnk h m)
    = Ret (key_cmp cs (keyof x) (keyof y), with_lnk h m).
  Proof.
    intros (_ & _ & kx & rx & Ekx & Lx & Sx & Zx) (_ & _ & ky & ry & Eky & Ly & Sy & Zy).
    unfold keyof. rewrite Ekx, Eky, Sx, Sy. cbn [compare_strings].
    destruct (Pos.eqb_spec kx ky) as [E|E].
    - subst ky. rewrite Sx in Sy. injection Sy as <-. rewrite key_cmp_refl. reflexivity.
    - rewrite (bind_eq _ _ _ _ _ (ld_cstr_with m kx rx Lx Sx Zx)).
      rewrite (bind_eq _ _ _ _ _ (ld_cstr_with m ky ry Ly Sy Zy)).
      destruct cs; reflexivity.
  Qed.

  (** the general case: the key may also be NULL (a member put into the object with the array API);
      [compare_strings] then answers 1 whichever side the NULL is on *)
  Definition strof (kp : positive) : bytes :=
    match h_str h !! kp with Some raw => cstr raw | None => [] end.
  Definition str_ok (kp : positive) : Prop :=
    kp ∈ h_live h /\ exists raw : bytes, h_str h !! kp = Some raw /\ existsb (Z.eqb 0) raw = true.
  Definition node_ok0 (x : positive) : Prop :=
    x ∈ h_live h /\ is_Some (h_dat h !! x) /\ (forall kp, key_ptr x = Some kp -> str_ok kp).
  (** what [compare_strings(x->string, y->string, cs)] returns *)
  Definition cmpz (cs : bool) (x y : positive) : Z :=
    match key_ptr x, key_ptr y with
    | Some a, Some b => if Pos.eqb a b then 0 else key_cmp cs (strof a) (strof b)
    | _, _ => 1
    end.
  (** the same for members that do have keys *)
  Definition kcmp (cs : bool) (x y : positive) : Z := key_cmp cs (keyof x) (keyof y).

  Lemma node_ok_ok0 x : node_ok x -> node_ok0 x.
  Proof.
    intros (Hl & Hd & kp & raw & Ek & Lk & Sk & Zk). split; [exact Hl|]. split; [exact Hd|].
    intros kp' Ek'. rewrite Ek in Ek'. injection Ek' as <-. split; [exact Lk|]. exists raw. split; assumption.
  Qed.

  Lemma node_ok0_live x : node_ok0 x -> x ∈ h_live h.
  Proof. intros [H _]. exact H. Qed.

  Lemma get_key_with0 m x :
    node_ok0 x -> get_key (Some x) (with_lnk h m) = Ret (key_ptr x, with_lnk h m).
  Proof.
    intros (Hl & [d Hd] & _). unfold get_key, ld_dat, bindM, chk, ret, key_ptr. cbn.
    destruct (decide (x ∈ h_live h)) as [_|N]; [|contradiction]. cbn. rewrite Hd. reflexivity.
  Qed.

  Lemma compare_strings_with0 m cs x y :
    node_ok0 x -> node_ok0 y ->
    compare_strings (key_ptr x) (key_ptr y) cs (with_lnk h m) = Ret (cmpz cs x y, with_lnk h m).
  Proof.
    intros (_ & _ & Hx) (_ & _ & Hy). unfold cmpz.
    destruct (key_ptr x) as [kx|]; [|reflexivity].
    destruct (key_ptr y) as [ky|]; [|reflexivity].
    cbn [compare_strings]. destruct (Pos.eqb kx ky); [reflexivity|].
    destruct (Hx kx eq_refl) as (Lx & rx & Sx & Zx). destruct (Hy ky eq_refl) as (Ly & ry & Sy & Zy).
    rewrite (bind_eq _ _ _ _ _ (ld_cstr_with m kx rx Lx Sx Zx)).
    rewrite (bind_eq _ _ _ _ _ (ld_cstr_with m ky ry Ly Sy Zy)).
    unfold strof. rewrite Sx, Sy. destruct cs; reflexivity.
  Qed.

  Lemma cmpz_kcmp cs x y : node_ok x -> node_ok y -> cmpz cs x y = kcmp cs x y.
  Proof.
    intros (_ & _ & kx & rx & Ekx & _ & Sx & _) (_ & _ & ky & ry & Eky & _ & Sy & _).
    unfold cmpz, kcmp, keyof, strof. rewrite Ekx, Eky, Sx, Sy.
    destruct (Pos.eqb_spec kx ky) as [E|E]; [|reflexivity].
    subst ky. rewrite Sx in Sy. injection Sy as <-. rewrite key_cmp_refl. reflexivity.
  Qed.

  (** the order of the variant on member nodes; total and transitive on ALL ids because [keyof]
      always is a C string *)
  Definition hle (cs : bool) (x y : positive) : bool := key_le cs (keyof x) (keyof y).
  Lemma hle_total cs x y : hle cs x y = true \/ hle cs y x = true.
  Proof. apply key_le_total. Qed.
  Lemma hle_trans cs x y z : hle cs x y = true -> hle cs y z = true -> hle cs x z = true.
  Proof. apply key_le_trans; apply keyof_zfree. Qed.
End Prims.

(** nothing the sort writes (links, the child field of the object) moves a key *)
Lemma key_ptr_with_lnk h m x : key_ptr (with_lnk h m) x = key_ptr h x.
Proof. reflexivity. Qed.
Lemma keyof_with_lnk h m x : keyof (with_lnk h m) x = keyof h x.
Proof. reflexivity. Qed.

(** * Segments and chains *)

(** [seg m pv l nx]: the nodes [l] are linked in this order ([next] forward, [prev] backward);
    [pv = Some q] demands that the first node's [prev] is [q], [nx = Some q] that the last node's
    [next] is [q]; [None] leaves that field unconstrained *)
Fixpoint seg (m : lmap) (pv : option ptr) (l : list positive) (nx : option ptr) : Prop :=
  match l with
  | [] => True
  | x :: r =>
      exists n p, m !! x = Some (n, p) /\ (forall q, pv = Some q -> p = q) /\
                  match r with
                  | [] => forall q, nx = Some q -> n = q
                  | y :: _ => n = Some y
                  end /\
                  seg m (Some (Some x)) r nx
  end.

(** NULL-terminated sibling chain, [prev] of the head arbitrary: what [sort_list] takes and returns *)
Definition chain (m : lmap) (l : list positive) : Prop := seg m None l (Some None).

Lemma seg_frame m m' l : forall pv nx,
  (forall x, x ∈ l -> m' !! x = m !! x) -> seg m pv l nx -> seg m' pv l nx.
Proof.
  induction l as [|x r IH]; intros pv nx Hf Hs; cbn [seg] in *; [exact I|].
  destruct Hs as (n & p & Hx & Hp & Hn & Hr).
  exists n, p. split; [rewrite Hf; [exact Hx|left]|]. split; [exact Hp|]. split; [exact Hn|].
  apply IH; [|exact Hr]. intros z Hz. apply Hf. right. exact Hz.
Qed.

Lemma seg_weaken_pv m pv l nx : seg m pv l nx -> seg m None l nx.
Proof.
  destruct l as [|x r]; cbn [seg]; [tauto|].
  intros (n & p & Hx & _ & Hn & Hr). exists n, p. repeat split; try assumption. intros q Hq. discriminate.
Qed.

Lemma seg_weaken_nx m l : forall pv nx, seg m pv l nx -> seg m pv l None.
Proof.
  induction l as [|x r IH]; intros pv nx; cbn [seg]; [tauto|].
  intros (n & p & Hx & Hp & Hn & Hr). exists n, p. split; [exact Hx|]. split; [exact Hp|].
  split; [|eapply IH; exact Hr].
  destruct r; [intros q Hq; discriminate|exact Hn].
Qed.

Lemma seg_tail m pv x r nx : seg m pv (x :: r) nx -> seg m None r nx.
Proof. cbn [seg]. intros (n & p & _ & _ & _ & Hr). eapply seg_weaken_pv. exact Hr. Qed.

Lemma chain_head m pv x r : seg m pv (x :: r) (Some None) -> exists p, m !! x = Some (head r, p).
Proof.
  cbn [seg]. intros (n & p & Hx & _ & Hn & _). exists p.
  destruct r as [|y r']; cbn [head].
  - rewrite (Hn None eq_refl) in Hx. exact Hx.
  - rewrite Hn in Hx. exact Hx.
Qed.

Lemma seg_lookup m l : forall pv nx x, seg m pv l nx -> x ∈ l -> is_Some (m !! x).
Proof.
  induction l as [|y r IH]; intros pv nx x Hs Hx.
  - inversion Hx.
  - cbn [seg] in Hs. destruct Hs as (n & p & Hy & _ & _ & Hr).
    apply elem_of_cons in Hx as [->|Hx]; [eauto|]. eapply IH; eassumption.
Qed.

Lemma seg_suffix m l1 l2 : forall pv nx, seg m pv (l1 ++ l2) nx -> seg m None l2 nx.
Proof.
  induction l1 as [|x l1 IH]; intros pv nx Hs; cbn [app] in Hs.
  - eapply seg_weaken_pv. exact Hs.
  - apply seg_tail in Hs. eapply IH. exact Hs.
Qed.

(** link the segment [s :: r] behind the tail [t] of the segment [l0 ++ [t]]:
    [t->next = s; s->prev = t] *)
Lemma seg_join m t s r nx nt pt ns ps : forall l0 pv,
  seg m pv (l0 ++ [t]) None -> seg m None (s :: r) nx ->
  m !! t = Some (nt, pt) -> m !! s = Some (ns, ps) ->
  NoDup (l0 ++ t :: s :: r) ->
  seg (<[s := (ns, Some t)]> (<[t := (Some s, pt)]> m)) pv (l0 ++ t :: s :: r) nx.
Proof.
  induction l0 as [|x l0 IH]; intros pv Hs1 Hs2 Ht Hsm Hnd.
  - cbn [app] in *. apply NoDup_cons in Hnd as [Hts Hnd]. apply NoDup_cons in Hnd as [Hsr Hnd].
    assert (t <> s) as Hne by (intros ->; apply Hts; left).
    cbn [seg] in Hs1. destruct Hs1 as (n1 & p1 & Ht' & Hp1 & _ & _).
    rewrite Ht in Ht'. injection Ht' as <- <-.
    cbn [seg] in Hs2. destruct Hs2 as (n2 & p2 & Hs' & _ & Hn2 & Hr).
    rewrite Hsm in Hs'. injection Hs' as <- <-.
    cbn [seg]. exists (Some s), pt. split; [rewrite lookup_insert_ne by congruence; apply lookup_insert|].
    split; [exact Hp1|]. split; [reflexivity|].
    exists ns, (Some t). split; [apply lookup_insert|]. split; [intros q Hq; congruence|]. split; [exact Hn2|].
    eapply seg_frame; [|exact Hr]. intros z Hz.
    rewrite !lookup_insert_ne; [reflexivity| |].
    + intros ->. apply Hts. right. exact Hz.
    + intros ->. apply Hsr. exact Hz.
  - cbn [app] in *. apply NoDup_cons in Hnd as [Hx Hnd].
    assert (x <> t) as Hxt by (intros ->; apply Hx; apply elem_of_app; right; left).
    assert (x <> s) as Hxs by (intros ->; apply Hx; apply elem_of_app; right; right; left).
    cbn [seg] in Hs1. destruct Hs1 as (n & p & Hmx & Hp & Hn & Hr).
    cbn [seg]. exists n, p. split; [rewrite !lookup_insert_ne by congruence; exact Hmx|].
    split; [exact Hp|]. split.
    + destruct l0; cbn [app] in *; exact Hn.
    + apply IH; assumption.
Qed.

(** cut the segment between [t] and [s]: [t->next = NULL; s->prev = NULL] *)
Lemma seg_split m t s r nx : forall l0 pv,
  seg m pv (l0 ++ t :: s :: r) nx -> NoDup (l0 ++ t :: s :: r) ->
  exists pt ns, m !! t = Some (Some s, pt) /\ m !! s = Some (ns, Some t) /\
    let m' := <[s := (ns, None)]> (<[t := (None, pt)]> m) in
    seg m' pv (l0 ++ [t]) (Some None) /\ seg m' (Some None) (s :: r) nx.
Proof.
  induction l0 as [|x l0 IH]; intros pv Hs Hnd.
  - cbn [app] in *. apply NoDup_cons in Hnd as [Hts Hnd]. apply NoDup_cons in Hnd as [Hsr Hnd].
    assert (t <> s) as Hne by (intros ->; apply Hts; left).
    cbn [seg] in Hs. destruct Hs as (n1 & pt & Ht & Hp1 & Hn1 & n2 & p2 & Hsm & Hp2 & Hn2 & Hr).
    subst n1. rewrite (Hp2 (Some t) eq_refl) in Hsm.
    exists pt, n2. split; [exact Ht|]. split; [exact Hsm|]. cbn zeta. split.
    + cbn [seg]. exists None, pt. split; [rewrite lookup_insert_ne by congruence; apply lookup_insert|].
      split; [exact Hp1|]. split; [intros q Hq; congruence|exact I].
    + cbn [seg]. exists n2, None. split; [apply lookup_insert|]. split; [intros q Hq; congruence|].
      split; [exact Hn2|]. eapply seg_frame; [|exact Hr]. intros z Hz.
      rewrite !lookup_insert_ne; [reflexivity| |].
      * intros ->. apply Hts. right. exact Hz.
      * intros ->. apply Hsr. exact Hz.
  - cbn [app] in *. apply NoDup_cons in Hnd as [Hx Hnd].
    assert (x <> t) as Hxt by (intros ->; apply Hx; apply elem_of_app; right; left).
    assert (x <> s) as Hxs by (intros ->; apply Hx; apply elem_of_app; right; right; left).
    cbn [seg] in Hs. destruct Hs as (n & p & Hmx & Hp & Hn & Hr).
    destruct (IH _ Hr Hnd) as (pt & ns & Ht & Hsm & H1 & H2).
    exists pt, ns. split; [exact Ht|]. split; [exact Hsm|]. cbn zeta in *. split; [|exact H2].
    cbn [seg]. exists n, p. split; [rewrite !lookup_insert_ne by congruence; exact Hmx|].
    split; [exact Hp|]. split; [|exact H1].
    destruct l0; cbn [app] in *; exact Hn.
Qed.

(** * The canonical link map *)

Lemma imap_fst_id (g : nat -> positive -> ptr * ptr) (l : list positive) :
  (imap (fun k x => (x, g k x)) l).*1 = l.
Proof.
  revert g. induction l as [|x l IH]; intros g; [reflexivity|].
  rewrite imap_cons. cbn [fmap list_fmap fst]. f_equal. apply (IH (fun k => g (S k))).
Qed.

Lemma slinks_lookup l p k : NoDup l -> l !! k = Some p -> slinks l !! p = Some (slink_at l k).
Proof.
  intros Hnd Hk. unfold slinks. apply elem_of_list_to_map_1.
  - rewrite imap_fst_id. exact Hnd.
  - apply (elem_of_lookup_imap_2 (fun k x => (x, slink_at l k))). exact Hk.
Qed.

Lemma slinks_lookup_None l p : p ∉ l -> slinks l !! p = None.
Proof.
  intros Hp. unfold slinks. apply not_elem_of_list_to_map_1. rewrite imap_fst_id. exact Hp.
Qed.

(** a canonically linked children list is a chain ... *)
Lemma seg_of_canonical m l : forall pre,
  (forall k x, (pre ++ l) !! k = Some x -> m !! x = Some (slink_at (pre ++ l) k)) ->
  seg m (match pre with [] => None | _ => Some (last pre) end) l (Some None).
Proof.
  induction l as [|x r IH]; intros pre Hc; cbn [seg]; [exact I|].
  pose proof (Hc (length pre) x) as Hx.
  rewrite lookup_app_r in Hx by lia. rewrite Nat.sub_diag in Hx. specialize (Hx eq_refl).
  unfold slink_at in Hx.
  eexists _, _. split; [exact Hx|]. split; [|split].
  - intros q Hq. destruct pre as [|y pre']; [discriminate|]. injection Hq as <-.
    cbn [length]. rewrite (lookup_app_l (y :: pre')) by (cbn [length]; lia). rewrite last_lookup. reflexivity.
  - rewrite lookup_app_r by lia. replace (S (length pre) - length pre)%nat with 1%nat by lia.
    destruct r as [|y r']; cbn; [intros q Hq; congruence|reflexivity].
  - specialize (IH (pre ++ [x])). rewrite <- app_assoc in IH. cbn [app] in IH. specialize (IH Hc).
    rewrite last_snoc in IH. destruct (pre ++ [x]) eqn:E; [destruct pre; discriminate|exact IH].
Qed.

Lemma chain_of_canonical m l :
  (forall k x, l !! k = Some x -> m !! x = Some (slink_at l k)) -> chain m l.
Proof. intros H. apply (seg_of_canonical m l []). exact H. Qed.

(** ... and a chain whose head designates the tail is canonically linked *)
Lemma seg_canonical m l : forall pre,
  seg m (match pre with [] => None | _ => Some (last pre) end) l (Some None) ->
  forall k x, l !! k = Some x ->
    exists n p, m !! x = Some (n, p) /\ n = (pre ++ l) !! S (length pre + k) /\
                (pre = [] -> k = O -> True) /\
                ((pre <> [] \/ k <> O) -> p = (pre ++ l) !! pred (length pre + k)).
Proof.
  induction l as [|y r IH]; intros pre Hs k x Hk; [discriminate|].
  cbn [seg] in Hs. destruct Hs as (n & p & Hy & Hp & Hn & Hr).
  destruct k as [|k]; cbn in Hk.
  - injection Hk as <-. exists n, p. split; [exact Hy|]. split; [|split; [trivial|]].
    + rewrite lookup_app_r by lia. replace (S (length pre + 0) - length pre)%nat with 1%nat by lia.
      destruct r as [|z r']; cbn; [apply (Hn None eq_refl)|exact Hn].
    + intros [Hpre|Hk]; [|congruence].
      destruct pre as [|z pre']; [congruence|].
      rewrite (Hp (last (z :: pre')) eq_refl).
      rewrite Nat.add_0_r. rewrite lookup_app_l by (cbn [length]; lia). apply last_lookup.
  - specialize (IH (pre ++ [y])).
    rewrite last_snoc in IH.
    assert (seg m (match pre ++ [y] with [] => None | _ :: _ => Some (Some y) end) r (Some None)) as Hr'
      by (destruct (pre ++ [y]) eqn:E; [destruct pre; discriminate|exact Hr]).
    destruct (IH Hr' k x Hk) as (n' & p' & Hx & Hn' & _ & Hp').
    exists n', p'. split; [exact Hx|].
    rewrite <- app_assoc in Hn', Hp'. cbn [app] in Hn', Hp'. rewrite app_length in Hn', Hp'. cbn [length] in Hn', Hp'.
    split; [|split; [trivial|]].
    + rewrite Hn'. f_equal. lia.
    + intros _. rewrite Hp'; [f_equal; lia|]. left. destruct pre; discriminate.
Qed.

Lemma canonical_of_chain m l x0 :
  chain m l -> head l = Some x0 -> (exists n, m !! x0 = Some (n, last l)) ->
  forall k x, l !! k = Some x -> m !! x = Some (slink_at l k).
Proof.
  intros Hc Hh (n0 & Hx0) k x Hk.
  destruct (seg_canonical m l [] Hc k x Hk) as (n & p & Hx & Hn & _ & Hp).
  cbn [app length Nat.add] in Hn, Hp. unfold slink_at.
  destruct k as [|k].
  - destruct l as [|y r]; [discriminate|]. cbn in Hk, Hh. injection Hk as <-. injection Hh as <-.
    assert (Some (n0, last (y :: r)) = Some (n, p)) as HE by (transitivity (m !! y); [symmetry; exact Hx0|exact Hx]).
    injection HE as HE1 HE2. subst n0. rewrite Hn in Hx0. exact Hx0.
  - rewrite Hn, Hp in Hx by (right; congruence). exact Hx.
Qed.

(** * The object's child field *)

Definition nd_set_child (d : ndata) (c : ptr) : ndata :=
  mkND (nd_type d) (nd_vstr d) (nd_vint d) (nd_vdbl d) (nd_key d) c.

Lemma get_child_eq h o d : o ∈ h_live h -> h_dat h !! o = Some d -> get_child (Some o) h = Ret (nd_child d, h).
Proof.
  intros Hl Hd. unfold get_child, ld_dat, bindM, chk, ret.
  destruct (decide (o ∈ h_live h)) as [_|N]; [|contradiction]. rewrite Hd. reflexivity.
Qed.

Lemma set_child_eq h o d c : o ∈ h_live h -> h_dat h !! o = Some d ->
  set_child (Some o) c h = Ret (tt, with_dat h (<[o := nd_set_child d c]> (h_dat h))).
Proof.
  intros Hl Hd. unfold set_child, ld_dat, st_dat, bindM, chk, ret.
  destruct (decide (o ∈ h_live h)) as [_|N]; [|contradiction]. rewrite Hd.
  destruct (decide (o ∈ h_live h)) as [_|N]; [|contradiction]. rewrite Hd. reflexivity.
Qed.

Lemma chain_set_head_prev m x r nx n p q :
  seg m None (x :: r) nx -> m !! x = Some (n, p) -> x ∉ r -> seg (<[x := (n, q)]> m) None (x :: r) nx.
Proof.
  cbn [seg]. intros (n' & p' & Hx & _ & Hn & Hr) Hm Hnr. rewrite Hm in Hx. injection Hx as <- <-.
  exists n, q. split; [apply lookup_insert|]. split; [intros ? ?; discriminate|]. split; [exact Hn|].
  eapply seg_frame; [|exact Hr]. intros z Hz. apply lookup_insert_ne. intros ->. contradiction.
Qed.

