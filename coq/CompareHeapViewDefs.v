(** CompareHeapViewDefs.v — the predicates in which the refinement theorem of the heap-level [cJSON_Compare]
    (CompareHeapDefs.v) is stated.  No proofs here.

    WHAT THE COMPARISON READS.  [CoreRefineDupTree.src_t h lf k t] says that heap [h] READS as the labelled
    tree [t] from the block [tid t], following [child] and [next] pointers for [k] levels: the identities in
    [t] need not be distinct, and below a reference node (cJSON_CreateObjectReference / …ArrayReference /
    cJSON_AddItemReferenceTo…) the children of [t] are the chain the node's BORROWED child pointer designates
    — which is what the C code walks, since [cJSON_Compare] never looks at the cJSON_IsReference bit.
    [complete t]: nothing was cut off at level [k].  For a node of a well-formed forest without borrowed child
    pointers the view is the forest tree itself ([CoreRefineDupForest.src_t_of_WF]); with references it is
    [CoreRefineDupUnroll.unroll F k t] ([src_t_unroll]).

    [src_t] asks for readable value strings and readable OWNED keys (that is what cJSON_Duplicate reads);
    the comparison also reads constant keys ([get_object_item] compares every member name):
    [keys_readable].

    THE POINTER SHORTCUT.  [if (a == b) return true;] is taken at EVERY level of the recursion.  The
    value-level model [CompareDefs.compare_rec] has no addresses: it compares the two values.  The two agree
    when no pair of nodes the recursion can meet is one and the same block ([okp_diff]: the identities
    differ, and so for every pair of children) — true of any two distinct nodes of a forest, nested or not —
    or when the pair is the same block and comparing its value with itself yields true anyway ([okp_same];
    [refl_ok]: the hypotheses of C12_reflexive — a JSON value with distinct member names and no NaN).  The
    second case is what reference nodes need: two references to one chain meet the same blocks. *)
From CJ Require Import Base Dbl Heap Forest CoreRefineDupTree CoreRefineDupValue.
From CJ Require Tree CompareDefs.
From stdpp Require Import gmap.

(** every key a node of the view points to is a readable C string (constant keys included) *)
Definition keys_readable (h : heap) (t : tree) : Prop :=
  forall i d (ks : list positive), (i, d, ks) ∈ flat_t t -> forall b, rd_key d = Some b -> readable h b.

(** every value string and every key a node of the forest points to is a readable C string *)
Definition strings_readable (h : heap) (F : forest) : Prop :=
  forall i d (ks : list positive), (i, d, ks) ∈ flat F ->
    (forall b, rd_vstr d = Some b -> readable h b) /\ (forall b, rd_key d = Some b -> readable h b).

(** a value on which the comparison is reflexive (the hypotheses of [C12_reflexive]) *)
Definition refl_ok (cs : bool) (n : Tree.node) : Prop :=
  CompareDefs.cmp_wf cs n /\ CompareDefs.json_shape n /\ CompareDefs.no_nan n.

(** pairs of views on which the pointer shortcut of the recursion is harmless *)
Inductive okpair (St : gmap positive bytes) (cs : bool) : tree -> tree -> Prop :=
| okp_same x : refl_ok cs (reify St x) -> okpair St cs x x
| okp_diff x y : tid x <> tid y ->
    (forall cx cy, cx ∈ tchildren x -> cy ∈ tchildren y -> okpair St cs cx cy) -> okpair St cs x y.

(** the operands of one call: both views are complete [k]-level readings of the heap with readable keys *)
Definition cmp_view (h : heap) (k : nat) (t : tree) : Prop :=
  src_t h (Pos.to_nat (h_next h)) k t /\ complete t /\ keys_readable h t.

(** the result of a run: a boolean, the heap untouched, and the value-level function agrees for fuel [vf] *)
Definition cmp_agrees (h : heap) (cs : bool) (vf : nat) (x y : tree) (o : out (bool * heap)) : Prop :=
  exists r : bool, o = Ret (r, h) /\
    CompareDefs.compare_rec vf (reify (h_str h) x) (reify (h_str h) y) cs = Some r.
