(** Properties_C18.v — property C18: Merge Patch application and generation follow RFC 7396.
    Only statements closed by [exact].

    Model: MergeDefs.v (value-level transliteration of merge_patch / generate_merge_patch / compare_json /
    sort_list of cJSON_Utils.c, ordered member lists).  Specification: Rfc7396.v ([merge] = the RFC's
    MergePatch pseudo-code, [doc_eq] = equality of documents, [m7396_doc] = JSON document with pairwise
    distinct member names per object, [no_null_member], [m7396_depth_ok] = nesting below
    CJSON_CIRCULAR_LIMIT, the depth at which cJSON_Duplicate gives up). *)
From Coq Require Import Sorted.
From CJ Require Import Base Dbl Tree CompareDefs CompareProofs MergeDefs Rfc7396 MergeLemmas MergeSort MergeApply MergePerm MergeProofs.
Local Open Scope Z_scope.

(** Case-sensitive application to an existing target: the call succeeds and returns the RFC 7396 result — as a
    document ([doc_eq]), and even member for member in the same order up to ownership flags. *)
Theorem C18_apply : forall target patch,
  m7396_doc target = true -> m7396_doc patch = true -> m7396_depth_ok patch = true ->
  exists r, cJSONUtils_MergePatchCaseSensitive (Some target) (Some patch) = Some r /\
            doc_eq r (merge (Some target) patch) = true /\
            strip_flags r = strip_flags (merge (Some target) patch).
Proof. exact c18_apply. Qed.
Print Assumptions C18_apply.

(** The same for a NULL target. *)
Theorem C18_apply_null_target : forall patch,
  m7396_doc patch = true -> m7396_depth_ok patch = true ->
  exists r, cJSONUtils_MergePatchCaseSensitive None (Some patch) = Some r /\
            doc_eq r (merge None patch) = true /\
            strip_flags r = strip_flags (merge None patch).
Proof. exact c18_apply_absent. Qed.
Print Assumptions C18_apply_null_target.

(** Case-sensitive generation: the call returns (no NULL-string access, the entry point's fuel suffices), and
    RFC 7396's MergePatch of [from] with the generated patch (NULL patch = no change) is [to] — stated for the
    inputs as they were given and for the inputs as the call leaves them (members reordered). *)
Theorem C18_generate : forall from to,
  m7396_doc from = true -> m7396_doc to = true -> no_null_member to = true -> m7396_depth_ok to = true ->
  exists p from' to',
    cJSONUtils_GenerateMergePatchCaseSensitive (Some from) (Some to) = Ok (p, Some from', Some to') /\
    doc_eq (merge_opt from p) to = true /\
    doc_eq (merge_opt from' p) to' = true.
Proof. exact c18_generate. Qed.
Print Assumptions C18_generate.

(** The same round trip inside the library, as the correspondence harness performs it: duplicate [from], apply
    the generated patch with cJSONUtils_MergePatchCaseSensitive (nothing when the patch is NULL): the result is [to]. *)
Theorem C18_generate_library : forall from to,
  m7396_doc from = true -> m7396_doc to = true -> no_null_member to = true ->
  m7396_depth_ok from = true -> m7396_depth_ok to = true ->
  exists p from' to' d,
    cJSONUtils_GenerateMergePatchCaseSensitive (Some from) (Some to) = Ok (p, Some from', Some to') /\
    mp_Duplicate (Some from) = Some d /\
    match p with
    | None => doc_eq d to = true
    | Some s => exists r, cJSONUtils_MergePatchCaseSensitive (Some d) (Some s) = Some r /\ doc_eq r to = true
    end.
Proof. exact c18_generate_library. Qed.
Print Assumptions C18_generate_library.

(** For two objects, "no patch generated" (NULL) holds exactly when the two documents are equal. *)
Theorem C18_no_patch_iff_equal : forall from to p from' to',
  m7396_doc from = true -> m7396_doc to = true -> no_null_member to = true -> m7396_depth_ok to = true ->
  is_object from = true -> is_object to = true ->
  cJSONUtils_GenerateMergePatchCaseSensitive (Some from) (Some to) = Ok (p, from', to') ->
  (p = None <-> doc_eq from to = true).
Proof. exact c18_no_patch_iff_equal. Qed.
Print Assumptions C18_no_patch_iff_equal.

(** … at every nesting level: the recursive function itself, for any fuel it was called with. *)
Theorem C18_generate_every_level : forall fuel from to p from' to',
  gd from -> gd to -> no_null_member to = true -> depth_ok to ->
  mp_generate_merge_patch fuel true from to = Ok (p, from', to') ->
  doc_eq (merge_opt from' p) to' = true /\ dperm from from' /\ dperm to to'.
Proof. exact c18_generate_every_level. Qed.
Print Assumptions C18_generate_every_level.

(** Generation (either case mode, ANY trees) gives both inputs back with every field of every node unchanged
    and object members reordered only ([dperm]: at every level); … *)
Theorem C18_inputs_intact : forall cs from to p from' to',
  mp_GenerateMergePatch_gen cs from to = Ok (p, from', to') -> odperm from from' /\ odperm to to'.
Proof. exact c18_inputs_intact. Qed.
Print Assumptions C18_inputs_intact.

(** … the two member lists come back sorted by strcmp; … *)
Theorem C18_inputs_sorted : forall fuel from to p from' to',
  mp_generate_merge_patch fuel true from to = Ok (p, from', to') ->
  is_object from = true -> is_object to = true ->
  Forall has_key (n_children from) -> Forall has_key (n_children to) ->
  StronglySorted key_le (n_children from') /\ StronglySorted key_le (n_children to').
Proof. exact c18_inputs_sorted. Qed.
Print Assumptions C18_inputs_sorted.

(** … and such a reordering does not change the value of a document. *)
Theorem C18_reordered_same_value : forall a a',
  dperm a a' -> m7396_doc a = true -> doc_eq a a' = true /\ doc_eq a' a = true.
Proof. exact c18_dperm_same_value. Qed.
Print Assumptions C18_reordered_same_value.

(** [doc_eq] is the boolean form of the declarative equality of documents [doc_equiv] (Rfc7396.v). *)
Theorem C18_doc_eq_declarative : forall a b, doc_eq a b = true <-> doc_equiv a b.
Proof. exact c18_doc_eq_declarative. Qed.
Print Assumptions C18_doc_eq_declarative.

(** Non-vacuity.  target {"a":1,"A":{"k":1,"K":2},"b":"x"}, patch
    {"A":{"K":null,"n":{"q":null,"r":true}},"b":null,"c":[null],"a":{"z":null}}: the hypotheses of C18_apply
    hold, and both the model and the RFC function give {"A":{"k":1,"n":{"r":true}},"c":[null],"a":{}}. *)
Theorem C18_apply_nonvacuous :
  m7396_doc ex_target = true /\ m7396_doc ex_patch = true /\ m7396_depth_ok ex_patch = true /\
  cJSONUtils_MergePatchCaseSensitive (Some ex_target) (Some ex_patch) = Some ex_merged /\
  merge (Some ex_target) ex_patch = ex_merged.
Proof. exact ex_apply_ok. Qed.
Print Assumptions C18_apply_nonvacuous.

(** from {"b":1,"a":{"y":2,"x":[1,null]},"c":"s"}, to {"c":"t","a":{"x":[1,null],"z":{"w":true}},"d":false}:
    the hypotheses of C18_generate hold, the generated patch is
    {"a":{"y":null,"z":{"w":true}},"b":null,"c":"t","d":false}, both inputs come back sorted (so [from] is
    really reordered), and applying the patch gives [to]. *)
Theorem C18_generate_nonvacuous :
  m7396_doc ex_from = true /\ m7396_doc ex_to = true /\ no_null_member ex_to = true /\ m7396_depth_ok ex_to = true /\
  cJSONUtils_GenerateMergePatchCaseSensitive (Some ex_from) (Some ex_to) = Ok (Some ex_generated, Some ex_from_after, Some ex_to_after) /\
  doc_eq (merge (Some ex_from) ex_generated) ex_to = true /\
  ex_from_after <> ex_from /\ doc_eq ex_from ex_from_after = true.
Proof. exact ex_generate_ok. Qed.
Print Assumptions C18_generate_nonvacuous.

(** The hypothesis [no_null_member to] cannot be dropped: {} -> {"a":null}. *)
Theorem C18_null_member_hypothesis_needed :
  m7396_doc ex_to_null = true /\ no_null_member ex_to_null = false /\
  exists p f t, cJSONUtils_GenerateMergePatchCaseSensitive (Some (ex_obj None [])) (Some ex_to_null) = Ok (Some p, f, t) /\
                doc_eq (merge (Some (ex_obj None [])) p) ex_to_null = false.
Proof. exact ex_null_member_needed. Qed.
Print Assumptions C18_null_member_hypothesis_needed.
