(** GenPatchHeapEntry.v — stage 6a: the public entry points [cJSONUtils_GeneratePatches[CaseSensitive]] at heap level
    (fuel from the heap), the NULL arguments, and the exact ledger.

    As for merge-patch generation (GenMergeHeapEntry.v): [from] and [to] are arbitrary nodes — roots or members of a
    larger document — with DISJOINT subtrees ([tdisj]); [from == to] and nested operands are outside the theorems. *)
From CJ Require Import Base Dbl Heap Forest ForestLemmas CoreSpec CoreDefs CoreRefineBase CoreRefine CoreRefineMore
  CoreRefineFrame CoreRefineHistory CoreRefineDupBase CoreRefineDupValue CoreRefineDupForest CoreLedgerGen.
From CJ Require Import TierBridgeDefs TierBridgeForest TierBridgeLemmas TierBridgeEndToEndStr.
From CJ Require Import MergeHeapDefs MergeHeapInv MergeHeapProofs GenMergeHeapDefs GenMergeHeapForest GenMergeHeapCompare GenMergeHeapProofs GenMergeHeapEntry
  PatchHeapDefs PatchHeapPointer PatchHeapSteps GenPatchHeapDefs GenPatchHeapBytes GenPatchHeapSteps GenPatchHeapCompose GenPatchHeapProofs.
From CJ Require Tree PointerDefs PatchDefs CompareDefs.
From CJ.gen Require Import Constants.
From stdpp Require Import gmap.
From Coq Require Import Lia.
Local Open Scope Z_scope.

(** * the two entry points, both arguments non-NULL *)
Theorem generate_patches_refines (flag : bool) h F f t tf tu :
  MInv h F -> find_tree f F = Some tf -> find_tree t F = Some tu -> tdisj tf tu ->
  gdoc tf -> gdoc tu -> (height tu <= LIMIT)%nat -> Z.of_nat (tsize tf) <= PointerDefs.SIZE_MAX ->
  exists h' F' res tf' tu',
    generate_patches nofail (Some f) (Some t) flag h = Ret (Some (tid res), h') /\
    MInv h' (F' ++ [res]) /\ Step [] h F h' (F' ++ [res]) /\
    Frame F F' (ids_t tf ++ ids_t tu) /\
    find_tree f F' = Some tf' /\ find_tree t F' = Some tu' /\ treord tf tf' /\ treord tu tu' /\
    PatchDefs.generate_patches (reify (h_str h) tf) (reify (h_str h) tu) flag =
      Ok (reify (h_str h') res, reify (h_str h') tf', reify (h_str h') tu') /\
    (NoLeak h F -> NoLeak h' (F' ++ [res])) /\ KeepO h h' F.
Proof.
  intros I Hf Ht Hdis Gf Gt Hh Hmax. unfold generate_patches. cbn [is_null orb].
  destruct (S_create_typed h F c_cJSON_Array I eq_refl eq_refl) as (h1 & Hrun1 & I1 & S1 & Es1 & En1).
  set (x := h_next h) in *. set (d := rd_typed c_cJSON_Array) in *.
  unfold cJSON_CreateArray. rewrite (bindM_Ret _ _ _ _ _ Hrun1).
  pose proof (mi_wf _ _ I1) as W1.
  pose proof Hf as Hf0. apply find_tree_Some in Hf0 as [Hfn <-]. pose proof Ht as Ht0. apply find_tree_Some in Ht0 as [Htn <-].
  pose proof (two_subtrees_fuel h1 _ tf tu W1 (node_in_app_l F [T x d []] _ Hfn) (node_in_app_l F [T x d []] _ Htn) Hdis) as Hfuel.
  unfold create_patches, heap_fuel. unfold bindM at 2.
  destruct (create_rec (Pos.to_nat (h_next h1)) (Pos.to_nat (h_next h1)) flag tf tu h1 F [] x d [] (CLit []) [])
    as (h' & F' & pnew & tf' & tu' & Hrun & I' & S' & Fr & Hf' & Ht' & Rf & Rt & V).
  { pose proof (tsize_pos tu). lia. }
  { unfold cp_pre. rewrite app_nil_r. split; [exact I1|]. split; [exact Hf|]. split; [exact Ht|]. split; [exact Hdis|].
    split; [exact Hfuel|]. split; [exact Gf|]. split; [exact Gt|]. split; [exact Hh|]. split; [exact Hmax|].
    split; [split; [done|constructor]|apply path_ok_lit]. }
  rewrite !app_nil_r in *. cbn [app] in *.
  unfold bindM at 1. rewrite Hrun.
  pose proof (Step_trans _ _ _ _ _ _ _ I S1 S') as S.
  assert (K : KeepO h h' F).
  { intros b Hb. apply (sp_keep _ _ _ _ _ S b Hb). rewrite owned_app. apply elem_of_app. left. by rewrite (Frame_owned _ _ _ Fr). }
  exists h', F', (T x d pnew), tf', tu'. split; [reflexivity|]. split; [exact I'|]. split; [exact S|]. split; [exact Fr|].
  split; [exact Hf'|]. split; [exact Ht'|]. split; [exact Rf|]. split; [exact Rt|].
  split; [|split; [exact (Step_NoLeak _ _ _ _ _ S)|exact K]].
  unfold PatchDefs.generate_patches. rewrite Es1 in V. rewrite (V (Tree.node_depth (reify (h_str h) tf)) []).
  - cbn [bind app].
    assert (Own' : forall e, e ∈ datas F' -> node_owns e.2) by (intros e He; apply (mi_own _ _ I'); apply datas_elem_app; by left).
    assert (E1 : reify (h_str h') tf' = reify (h_str h) tf').
    { apply (reify_keep_frame h h' F F' _ tf' Fr Own'); [by apply find_tree_Some in Hf' as [? _]|done]. }
    assert (E2 : reify (h_str h') tu' = reify (h_str h) tu').
    { apply (reify_keep_frame h h' F F' _ tu' Fr Own'); [by apply find_tree_Some in Ht' as [? _]|done]. }
    by rewrite E1, E2.
  - rewrite height_node_depth. lia.
Qed.

(** NULL arguments: [if ((from == NULL) || (to == NULL)) return NULL;] — nothing is touched *)
Lemma generate_patches_null oracle (from to : ptr) flag h :
  from = None \/ to = None -> generate_patches oracle from to flag h = Ret (None, h).
Proof. intros [-> | ->]; unfold generate_patches; cbn [is_null orb]; [done|]. by rewrite orb_true_r. Qed.

(** the named entry points *)
Lemma generate_patches_entry_points oracle from to :
  GenPatchHeapDefs.cJSONUtils_GeneratePatches oracle from to = generate_patches oracle from to false /\
  GenPatchHeapDefs.cJSONUtils_GeneratePatchesCaseSensitive oracle from to = generate_patches oracle from to true.
Proof. split; reflexivity. Qed.

(** "a NEW last root" *)
Lemma result_is_new_root h G r : MInv h (G ++ [r]) -> find_root (tid r) (G ++ [r]) = Some r /\ tid r ∉ ids G.
Proof.
  intros I. split; [exact (find_root_last G r (proj1 (last_root_fresh h G r (mi_wf _ _ I))))|].
  exact (proj2 (last_root_fresh h G r (mi_wf _ _ I))).
Qed.

(** * the ledger, exactly: the blocks of the result are the only new ones; every temporary path block is gone *)
Theorem generate_patches_ledger (flag : bool) h F f t tf tu :
  MInv h F -> NoLeak h F -> find_tree f F = Some tf -> find_tree t F = Some tu -> tdisj tf tu ->
  gdoc tf -> gdoc tu -> (height tu <= LIMIT)%nat -> Z.of_nat (tsize tf) <= PointerDefs.SIZE_MAX ->
  exists h' F' res,
    generate_patches nofail (Some f) (Some t) flag h = Ret (Some (tid res), h') /\
    WF h' (F' ++ [res]) /\ NoLeak h' (F' ++ [res]) /\
    (forall b, b ∈ lib_live h <-> b ∈ owned F) /\
    (forall b, b ∈ lib_live h' <-> b ∈ owned F \/ b ∈ owned [res]) /\
    (forall b, b ∈ owned F -> b ∉ owned [res]) /\
    (forall b, b ∈ owned F -> h_str h' !! b = h_str h !! b) /\
    (forall b (s : bytes), b ∈ h_live h -> b ∉ owned F -> h_str h !! b = Some s -> b ∈ h_live h' /\ h_str h' !! b = Some s).
Proof.
  intros I NL Hf Ht Hdis Gf Gt Hh Hmax.
  destruct (generate_patches_refines flag h F f t tf tu I Hf Ht Hdis Gf Gt Hh Hmax)
    as (h' & F' & res & tf' & tu' & Hrun & I' & S & Fr & _ & _ & _ & _ & _ & NL' & K').
  exists h', F', res. split; [exact Hrun|]. split; [apply I'|]. split; [by apply NL'|].
  pose proof (Frame_owned _ _ _ Fr) as PO.
  split; [exact (ledger_eq h F (mi_wf _ _ I) NL)|]. split; [|split; [|split; [exact K'|]]].
  - intros b. rewrite (ledger_eq h' _ (mi_wf _ _ I') (NL' NL) b). by rewrite owned_app, elem_of_app, PO.
  - intros b Hb Hb'. pose proof (wf_owned_nodup _ _ (mi_wf _ _ I')) as ND. rewrite owned_app in ND.
    apply NoDup_app in ND as (_ & Hd & _). apply (Hd b); [by rewrite PO|done].
  - intros b s Hl Hn Hs. destruct (sp_out _ _ _ _ _ S b Hl Hn) as (A1 & _ & A3). split; [done|].
    destruct (A3 s Hs) as (s' & B1 & _ & B3). rewrite B1. f_equal. apply B3. by intros ?%elem_of_nil.
Qed.
