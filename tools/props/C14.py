"""C14 — all library memory goes through the installed allocator hooks."""
import random, re, itertools
from .common import Case, load_corpus, is_crash
from . import coregen

AREA = 'core'
# every libc allocator call of the program is routed through __wrap_* in harness/h_core.inc, which attributes to the
# library those made while a library call is on the stack
IMPL_FLAGS = '-DCORE_WRAP_LIBC -Wl,--wrap=malloc,--wrap=free,--wrap=realloc,--wrap=calloc'
MODEL_FILES = 'Heap.v (hooks, event trace tagged UserHook / LibcFn), CoreDefs.v (cJSON_InitHooks, cJSON_malloc, cJSON_free and every allocating call)'
RULE = ('histories in phases: cJSON_InitHooks(<configuration>) then a random edit history then all roots deleted, for every ordered pair and random triples of the configurations '
        '{NULL pointer, both custom, only malloc custom, only free custom, struct with two NULL members} (so: custom then reset, custom then NULL members, …); the implementation runs '
        'with a tagging allocator for "both custom" (blocks carry a header: not interchangeable with libc blocks, a release through the wrong function is detected before it happens) '
        'and link-time interposition of malloc/free/realloc/calloc attributing to the library every libc call made while a library call is on the stack; observables: the event counters '
        '(user allocs/frees/free(NULL), libc allocs/frees/free(NULL), realloc+calloc) at every InitHooks call and at the end, compared with the event trace of the heap model; '
        'a second family (implementation only) runs parse / all print variants / PrintPreallocated / duplicate / Utils patch, merge-patch, sort, pointer calls and Minify under every '
        'configuration, and prints > 256 bytes with the k-th request failing under custom hooks; verdict: per phase, with both hooks custom no libc allocator call and no realloc, every '
        'block released through the counterpart of its allocator exactly once, defaults restored by NULL / NULL members, text released by cJSON_free')
ASSUMPTIONS = ['hook configurations are switched only while no library block is live (blocks of one allocator are not handed to another one by the caller)',
               'when only one hook is custom, the caller\'s function is compatible with libc\'s counterpart (inherent to that configuration)',
               'which machine function a C identifier resolves to is decided by the linker: checked by interposition, not by the model']
TRUSTED_EXTRA = ['GNU ld --wrap interposition of malloc/free/realloc/calloc (works under ASan: the references made by cJSON.c are redirected to __wrap_*)']
CONFIGS = ['N', '11', '10', '01', '00']

def corpus(ctx): return load_corpus(ctx['verif'], 'C14')

def phased_case(rng, seq, nops):
    g = coregen.Gen(rng, 'own', max_roots=6)
    done = []
    for cfg in seq:
        g.emit('hooks:' + cfg); done.append(cfg)
        for _ in range(nops): g.step()
        for _ in range(4):
            for i in g.roots(): g.emit('del:%d' % i)
        if g.roots(): break        # references in a circle: leave the rest to the final delete-all
    return Case('hist DEX 0 ' + ';'.join(g.ops), {'tags': sorted(g.tags) + ['phases:' + '>'.join(done)], 'phases': done})

DOC_A = '{"a":[1,2,{"b":null}],"s":"some text that is long enough to make the print buffer of the formatted printer grow at least once: ' + 'x' * 200 + '","n":1.5}'
DOC_B = '{"a":[1,3],"s":"other","z":true,"big":' + '1' * 70 + ',"bad":[' + '9' * 64 + '.5e3]}'

DOC_C = '{"a":[1,3],"s":"other","z":true}'
PATCH_C = ('[{"op":"copy","from":"/a","path":"/c"},{"op":"move","from":"/c","path":"/d"},{"op":"add","path":"/e","value":{"k":[1,"two",{"three":3}]}},'
           '{"op":"replace","path":"/s","value":["replaced",{"x":"y"}]},{"op":"test","path":"/d","value":[1,3]},{"op":"copy","from":"/e","path":"/a/-"},{"op":"remove","path":"/z"}]')

def external_script(cfgs, fail=None):
    ops = ['hooks:' + c for c in cfgs]
    j0 = len(ops)
    ops += ['parse:' + DOC_A.encode().hex(),                # h0
            'print:0:0', 'print:0:1', 'printbuf:0:16:1', 'printbuf:0:2000:0', 'printpre:0:2000:1', 'printpre:0:10:0',
            'dup:0:1',                                       # h1
            'parse:' + DOC_B.encode().hex(),                 # h2
            'genpatch:0:2',                                  # h3
            'applypatch:1:3',
            'genmerge:0:2',                                  # h4
            'mergepatch:1:4',                                # h5 (= h1)
            'genpatchcs:0:2', 'genmergecs:2:0',              # h6 h7
            'sortobj:0', 'sortobjcs:2', 'getptr:0:' + b'/a/2/b'.hex(), 'findptr:0:8', 'minify:' + b'[1 , 2 /* c */ ]'.hex(),   # h8
            'mal:616263', 'free:s0',
            'astr:2:x6b:x76', 'deto:2:x6b', 'del:10',        # h9, h10
            'parse:' + DOC_C.encode().hex(),                 # h11
            'parse:' + PATCH_C.encode().hex(),               # h12: copy / move / add / replace / test / remove with values that need several blocks
            'applypatchcs:11:12']
    line = 'hist EXS %s %s' % (fail or '0', ';'.join(ops))
    return Case(line, {'tags': ['external', 'config:' + '>'.join(cfgs)] + (['failure'] if fail else []), 'phases': list(cfgs), 'first': j0})

def generate(ctx):
    rng = random.Random(ctx['seed'] * 32452843 + 14)
    quick = ctx['tier'] == 'quick'
    cases = []
    pairs = [(a, b) for a in CONFIGS for b in CONFIGS]
    for a, b in pairs:
        for _ in range(2 if quick else 20): cases.append(phased_case(rng, [a, b], 10))
    for _ in range(60 if quick else 1500):
        cases.append(phased_case(rng, [rng.choice(CONFIGS) for _ in range(rng.choice([3, 4]))], rng.choice([6, 10, 16])))
    for c in CONFIGS:
        cases.append(external_script([c]))
        cases.append(external_script(['11', c])); cases.append(external_script(['10', c])); cases.append(external_script(['01', c]))
    # print / parse / duplicate under custom hooks with the k-th request of that call failing
    for op in range(1, 9):
        for k in range(1, 7):
            cases.append(external_script(['11'], fail='@%d.%d' % (op, k)))
    # JSON Patch / Merge Patch application under custom hooks with the k-th request of that call failing: whatever the utility does about the
    # failure (the unchanged code may lose blocks there, see DESIGN 11.6), every block it DOES release goes to the user's function exactly once
    for op, kmax in ((11, 14), (13, 14), (28, 40)):      # applypatch (generated patch), mergepatch, applypatchcs (hand-written patch with copy / move)
        for k in range(1, kmax + 1):
            c = external_script(['11'], fail='@%d.%d' % (op, k)); c.info['tags'] = c.info['tags'] + ['utils-failure']; c.info['utils_failure'] = True
            cases.append(c)
    # the directed ownership cases of C06/C07 (flagged booleans, references, NULL entries, self-replacement) under custom hooks
    for c in coregen.setbool_cases():
        t = c.line.split(' ', 3)
        cases.append(Case('hist DEX 0 hooks:11;' + t[3], {'tags': c.info['tags'] + ['under-custom-hooks'], 'phases': ['11']}))
    for c in coregen.print_failure_cases():      # the same under an explicit cJSON_InitHooks({m,f}) (the failing call moves by one)
        t = c.line.split(' '); j, k = t[2][1:].split('.')
        cases.append(Case('hist DEX @%d.%s hooks:11;%s' % (int(j) + 1, k, t[3]), {'tags': c.info['tags'] + ['failure'], 'phases': ['11']}))
    return cases

EXTERNAL = ('print', 'printbuf', 'printpre', 'minify', 'findptr', 'parse', 'sortobj', 'sortobjcs', 'genpatch', 'genpatchcs', 'applypatch', 'applypatchcs', 'genmerge', 'genmergecs',
            'mergepatch', 'mergepatchcs', 'getptr', 'getptrcs')
EV = re.compile(r'^\d+\.\d+\.\d+\.\d+\.\d+\.\d+\.\d+$')

def project(c, out):
    if 'S' in c.line.split(' ')[1]: return ''
    ext = any(o.split(':')[0] in EXTERNAL for o in c.line.split(' ')[3].split(';'))     # calls outside the heap model: only the ledger is comparable
    keep = []
    for t in out.split(' '):
        if ((EV.match(t) or t.startswith('ev=')) and not ext) or (t.startswith('L') and t[1:].isdigit()) or t.startswith('live=') or t.startswith('MODELERR'): keep.append(t)
    return ' '.join(keep)

def verdict(c, out, ctx):
    hp = coregen.health_problem(out)
    if hp: return hp
    ops = [x for x in c.line.split(' ')[3].split(';') if x]
    segs = out.split(' ; ')
    if len(segs) < len(ops) + 1: return 'output ends early'
    if c.info.get('utils_failure'): return None      # exactly-once release and no libc use are judged by health_problem above and the counters of the other cases; balance is not claimed here
    if ' X live=' in out and ' X live=0' not in out: return 'blocks remain allocated after deleting every root'
    marks = []      # (config that starts here, counters at that moment, live blocks before the switch)
    for i, o in enumerate(ops):
        if o.startswith('hooks:'):
            t = segs[i].split(' ')[0]
            if not EV.match(t): return 'malformed event counters at call %d: %s' % (i, t)
            live = None
            if i > 0:
                for x in segs[i - 1].split(' '):
                    if x.startswith('L') and x[1:].isdigit(): live = int(x[1:])
            marks.append((o[6:], [int(x) for x in t.split('.')], live if live is not None else 0, i))
    m = re.search(r' ev=([\d.]+)', out); endlive = re.search(r'END live=(\d+)', out)
    if not m or not endlive: return 'no final event counters'
    marks.append((None, [int(x) for x in m.group(1).split('.')], int(endlive.group(1)), len(ops)))
    failing = c.line.split(' ')[2] != '0'
    for (cfg, c0, _, i0), (_, c1, live_end, i1) in zip(marks, marks[1:]):
        ua, uf, un, la, lf, ln, lr = [b - a for a, b in zip(c0, c1)]
        where = 'in the phase after cJSON_InitHooks(%s) (calls %d..%d)' % ({'N': 'NULL', '11': '{m,f}', '10': '{m,NULL}', '01': '{NULL,f}', '00': '{NULL,NULL}'}[cfg], i0, i1 - 1)
        if cfg == '11':
            if la or lf or ln: return '%d libc allocations / %d libc releases made on the library\'s behalf although both hooks are custom, %s' % (la, lf + ln, where)
            if lr: return 'realloc/calloc used although custom hooks are installed, %s' % where
            if live_end == 0 and ua != uf: return '%d blocks obtained from the user\'s allocator but %d released to it, %s' % (ua, uf, where)
        elif cfg in ('N', '00'):
            if ua or uf or un: return 'the user\'s hooks were called (%d allocations, %d releases) after the defaults were restored, %s' % (ua, uf + un, where)
            if live_end == 0 and la != lf: return '%d blocks obtained from libc but %d released to it, %s' % (la, lf, where)
        elif cfg == '10':
            if la: return 'libc malloc used although a custom malloc is installed, %s' % where
            if uf or un: return 'a user release function that is no longer installed was called, %s' % where
            if lr: return 'realloc used although not both hooks are the defaults, %s' % where
            if live_end == 0 and ua != lf: return '%d blocks allocated, %d released, %s' % (ua, lf, where)
        elif cfg == '01':
            if ua: return 'a user allocation function that is no longer installed was called, %s' % where
            if lf or ln: return 'libc free used although a custom free is installed, %s' % where
            if lr: return 'realloc used although not both hooks are the defaults, %s' % where
            if live_end == 0 and la != uf: return '%d blocks allocated, %d released, %s' % (la, uf, where)
    return None

def nontrivial(c, out):
    return not is_crash(out) and c.line.count('hooks:') >= 1
