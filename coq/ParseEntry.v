(** ParseEntry.v — the parser model instantiated with the reference strtod, for execution. *)
From CJ Require Import Base Dbl Tree LibcNum ParseDefs.

(* the k-th allocation request (1-based) fails; 0 = none *)
Definition fail_kth (k : nat) : nat -> bool := fun i => match k with O => false | S k' => Nat.eqb i k' end.

Definition run_parse_with_length_opts (content : bytes) (len : nat) (rnt : bool) (failk : nat) :=
  cJSON_ParseWithLengthOpts strtod_ref (fail_kth failk) content len rnt.
Definition run_parse_with_opts (content : bytes) (rnt : bool) (failk : nat) :=
  cJSON_ParseWithOpts strtod_ref (fail_kth failk) content rnt.

From CJ Require Import ParseSpec.
Definition run_text_l (content : bytes) (len : nat) (rnt : bool) : option (node * nat) :=
  match text_l strtod_ref (firstn len content) rnt with
  | Some (t, rest) => Some (t, (len - length rest)%nat)
  | None => None
  end.
