(** PointerDefs.v — transliteration of the JSON Pointer functions of cJSON_Utils.c
    (compare_pointers, decode_array_index_from_pointer, get_item_from_pointer,
    pointer_encoded_length, encode_string_as_pointer, cJSONUtils_FindPointerFromObjectTo)
    and, separately, RFC 6901 written from the RFC.  No proofs here.

    C strings are byte lists without the terminator; reading at the end yields 0, which is
    what [hd 0] denotes below. *)
From CJ Require Import Base Tree.
Local Open Scope Z_scope.

Definition SIZE_MAX : Z := 2 ^ (8 * c_SIZEOF_SIZE_T) - 1.

(* get_array_item(array, index): walks the chain; an index beyond the end yields NULL.
   (The bound test keeps the executable model from converting a huge index to unary.) *)
Definition nth_z (l : list node) (idx : Z) : option node :=
  if (0 <=? idx) && (idx <? Z.of_nat (length l)) then nth_error l (Z.to_nat idx) else None.

(* compare_pointers(name, pointer, case_sensitive), name != NULL, pointer != NULL *)
Fixpoint compare_pointers (name pointer : bytes) (cs : bool) : bool :=
  match name with
  | [] => negb (negb (hd 0 pointer =? 0) && negb (hd 0 pointer =? 47))
  | n :: name' =>
      match pointer with
      | [] => false
      | p :: ptr' =>
          if p =? 47 then false
          else if p =? 126 then
            let p1 := hd 0 ptr' in
            if (negb (p1 =? 48) || negb (n =? 126)) && (negb (p1 =? 49) || negb (n =? 47)) then false
            else compare_pointers name' (tl ptr') cs
          else if (if cs then negb (n =? p) else negb (tolower n =? tolower p)) then false
          else compare_pointers name' ptr' cs
      end
  end.

(* the for loop of decode_array_index_from_pointer: returns (parsed_index, position, rest) or None on overflow *)
Fixpoint index_loop (p : bytes) (parsed : Z) (position : nat) : option (Z * nat * bytes) :=
  match p with
  | c :: r =>
      if (48 <=? c) && (c <=? 57) then
        let digit := c - 48 in
        if parsed >? (SIZE_MAX - digit) / 10 then None
        else index_loop r (10 * parsed + digit) (S position)
      else Some (parsed, position, p)
  | [] => Some (parsed, position, p)
  end.

Definition decode_array_index_from_pointer (p : bytes) : option Z :=
  if (hd 0 p =? 48) && negb (hd 0 (tl p) =? 0) && negb (hd 0 (tl p) =? 47) then None
  else match index_loop p 0 0%nat with
       | None => None
       | Some (parsed, position, rest) =>
           if (position =? 0)%nat || (negb (hd 0 rest =? 0) && negb (hd 0 rest =? 47)) then None
           else Some parsed
       end.

(* skip to the next path token or end of string *)
Fixpoint skip_token (p : bytes) : bytes :=
  match p with
  | c :: r => if c =? 47 then p else skip_token r
  | [] => []
  end.

(* first child (with its index) whose key matches the pointer token *)
Fixpoint find_child (cs : list node) (pointer : bytes) (csens : bool) (i : nat) : option (nat * node) :=
  match cs with
  | [] => None
  | c :: r =>
      if (match n_key c with Some k => compare_pointers k pointer csens | None => false end)
      then Some (i, c) else find_child r pointer csens (S i)
  end.

(* get_item_from_pointer: the while loop; [fuel] bounds the number of tokens *)
Fixpoint get_item_loop (fuel : nat) (cur : node) (pointer : bytes) (csens : bool) : option path :=
  match fuel with
  | O => None
  | S f =>
      match pointer with
      | c :: ptr =>
          if c =? 47 then
            if is_array cur then
              match decode_array_index_from_pointer ptr with
              | None => None
              | Some idx =>
                  match nth_z (n_children cur) idx with
                  | Some ch => option_map (cons (Z.to_nat idx)) (get_item_loop f ch (skip_token ptr) csens)
                  | None => None
                  end
              end
            else if is_object cur then
              match find_child (n_children cur) ptr csens 0%nat with
              | Some (i, ch) => option_map (cons i) (get_item_loop f ch (skip_token ptr) csens)
              | None => None
              end
            else None
          else None                 (* text that does not start with '/' designates nothing *)
      | [] => Some []
      end
  end.

Definition get_item_from_pointer (object : node) (pointer : bytes) (csens : bool) : option path :=
  get_item_loop (S (length pointer)) object pointer csens.

Definition cJSONUtils_GetPointerCaseSensitive (object : node) (pointer : bytes) := get_item_from_pointer object pointer true.
Definition cJSONUtils_GetPointer (object : node) (pointer : bytes) := get_item_from_pointer object pointer false.

(** ---- pointer construction ---- *)
Fixpoint encode_string_as_pointer (s : bytes) : bytes :=
  match s with
  | [] => []
  | c :: r => if c =? 47 then 126 :: 49 :: encode_string_as_pointer r
              else if c =? 126 then 126 :: 48 :: encode_string_as_pointer r
              else c :: encode_string_as_pointer r
  end.
Definition pointer_encoded_length (s : bytes) : nat := length (encode_string_as_pointer s).

(* sprintf "%lu" *)
Fixpoint dec_digits (fuel : nat) (n : Z) (acc : bytes) : bytes :=
  match fuel with
  | O => acc
  | S f => if n <? 10 then (48 + n) :: acc else dec_digits f (n / 10) ((48 + n mod 10) :: acc)
  end.
Definition print_lu (n : Z) : bytes := dec_digits 25 n [].

(* cJSONUtils_FindPointerFromObjectTo(object, target): the target is identified by its path
   from the node where the search started ([here] = path of [object]); the code compares
   node addresses, which in a tree is the same as comparing paths. *)
Fixpoint find_pointer (object : node) (here target : path) {struct object} : option bytes :=
  if (if list_eq_dec Nat.eq_dec here target then true else false) then Some []
  else
    match object with
    | Node ty _ _ _ _ cs =>
        (fix go (l : list node) (i : nat) : option bytes :=
           match l with
           | [] => None
           | c :: r =>
               match find_pointer c (here ++ [i]) target with
               | Some tp =>
                   if tymask ty =? c_cJSON_Array then Some (47 :: print_lu (Z.of_nat i) ++ tp)
                   else if tymask ty =? c_cJSON_Object then
                     match n_key c with
                     | Some k => Some (47 :: encode_string_as_pointer k ++ tp)
                     | None => None          (* the C code dereferences NULL here *)
                     end
                   else None
               | None => go r (S i)
               end
           end) cs 0%nat
    end.
Definition cJSONUtils_FindPointerFromObjectTo (object : node) (target : path) : option bytes :=
  find_pointer object [] target.

(** ---- RFC 6901, written from the RFC ---- *)

(* split at every '/' : the reference tokens of the text after the leading '/' *)
Fixpoint split_slash (p : bytes) (cur : bytes) : list bytes :=
  match p with
  | [] => [rev cur]
  | c :: r => if c =? 47 then rev cur :: split_slash r [] else split_slash r (c :: cur)
  end.

(* "~1" -> "/", "~0" -> "~"; any other use of '~' is an error *)
Fixpoint unescape (t : bytes) : option bytes :=
  match t with
  | [] => Some []
  | c :: r =>
      if c =? 126 then
        match r with
        | d :: r' => if d =? 48 then option_map (cons 126) (unescape r')
                     else if d =? 49 then option_map (cons 47) (unescape r')
                     else None
        | [] => None
        end
      else option_map (cons c) (unescape r)
  end.

Fixpoint all_some {A} (l : list (option A)) : option (list A) :=
  match l with
  | [] => Some []
  | Some a :: r => option_map (cons a) (all_some r)
  | None :: _ => None
  end.

Definition rfc_parse_pointer (p : bytes) : option (list bytes) :=
  match p with
  | [] => Some []
  | c :: r => if c =? 47 then all_some (map unescape (split_slash r [])) else None
  end.

(* array index: "0", or a non-zero digit followed by digits, read as an unbounded natural *)
Fixpoint digits_value (t : bytes) (acc : Z) : option Z :=
  match t with
  | [] => Some acc
  | c :: r => if (48 <=? c) && (c <=? 57) then digits_value r (10 * acc + (c - 48)) else None
  end.
Definition rfc_array_index (t : bytes) : option Z :=
  match t with
  | [] => None
  | [c] => if (48 <=? c) && (c <=? 57) then Some (c - 48) else None
  | c :: _ => if (49 <=? c) && (c <=? 57) then digits_value t 0 else None
  end.

Fixpoint find_key (cs : list node) (k : bytes) (i : nat) : option (nat * node) :=
  match cs with
  | [] => None
  | c :: r => if (match n_key c with Some k' => bytes_eqb k' k | None => false end) then Some (i, c) else find_key r k (S i)
  end.

Fixpoint rfc_resolve (d : node) (toks : list bytes) : option path :=
  match toks with
  | [] => Some []
  | t :: ts =>
      if is_array d then
        match rfc_array_index t with
        | Some idx => match nth_z (n_children d) idx with
                      | Some ch => option_map (cons (Z.to_nat idx)) (rfc_resolve ch ts)
                      | None => None
                      end
        | None => None
        end
      else if is_object d then
        match find_key (n_children d) t 0%nat with
        | Some (i, ch) => option_map (cons i) (rfc_resolve ch ts)
        | None => None
        end
      else None
  end.

Definition rfc6901 (doc : node) (p : bytes) : option path :=
  match rfc_parse_pointer p with Some toks => rfc_resolve doc toks | None => None end.

(** well-formedness used by the theorems *)
Fixpoint small_arrays (n : node) : Prop :=
  match n with Node _ _ _ _ _ cs =>
    Z.of_nat (length cs) <= SIZE_MAX /\ (fix go l := match l with [] => True | c :: r => small_arrays c /\ go r end) cs end.

Definition key_bytes_ok (k : bytes) : Prop := Forall (fun c => 0 < c < 256) k.
(* every child of an object has a key, keys are C strings, keys of one object are distinct *)
Fixpoint keys_ok (n : node) : Prop :=
  match n with Node ty _ _ _ _ cs =>
    (tymask ty = c_cJSON_Object -> NoDup (map n_key cs) /\ Forall (fun c => exists k, n_key c = Some k /\ key_bytes_ok k) cs)
    /\ (fix go l := match l with [] => True | c :: r => keys_ok c /\ go r end) cs end.

(* only arrays and objects have children *)
Fixpoint containers_ok (n : node) : Prop :=
  match n with Node ty _ _ _ _ cs =>
    (cs <> [] -> tymask ty = c_cJSON_Array \/ tymask ty = c_cJSON_Object)
    /\ (fix go l := match l with [] => True | c :: r => containers_ok c /\ go r end) cs end.
