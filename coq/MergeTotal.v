(** MergeTotal.v — on JSON documents the value-level compare_json and generate_merge_patch never hit a NULL
    string (outcome OOB) and the fuel supplied by the entry points suffices (no OutOfFuel): both return Ok. *)
From Coq Require Import Permutation Sorted.
From CJ Require Import Base Dbl Tree CompareDefs CompareProofs MergeDefs Rfc7396 MergeLemmas MergeSort MergeApply MergePerm MergeGen MergeGenerate.
Local Open Scope Z_scope.

Definition cmp_total_on (cmp : node -> node -> res (bool * node * node)) (n : nat) : Prop :=
  forall x y, gd x -> gd y -> (node_depth x <= n)%nat -> exists r, cmp x y = Ok r.

Lemma arr_walk_total cmp n : cmp_total_on cmp n -> forall la lb,
  Forall gd la -> Forall gd lb -> Forall (fun x => (node_depth x <= n)%nat) la ->
  exists r, mp_arr_walk cmp la lb = Ok r.
Proof.
  intro Hc. induction la as [|x la IH]; intros [|y lb] Ga Gb Da; cbn [mp_arr_walk]; try (eexists; reflexivity).
  inversion Ga; subst. inversion Gb; subst. inversion Da; subst.
  destruct (Hc x y) as [[[r0 x'] y'] E]; try assumption. rewrite E. cbn [bind]. destruct r0; [|eexists; reflexivity].
  destruct (IH lb) as [[[r2 la2] lb2] E2]; try assumption. rewrite E2. cbn [bind]. eexists; reflexivity.
Qed.

Lemma obj_walk_total cmp cs n : cmp_total_on cmp n -> forall la lb,
  Forall gd la -> Forall gd lb -> Forall (fun x => (node_depth x <= n)%nat) la ->
  exists r, mp_obj_walk cmp cs la lb = Ok r.
Proof.
  intro Hc. induction la as [|x la IH]; intros [|y lb] Ga Gb Da; cbn [mp_obj_walk]; try (eexists; reflexivity).
  inversion Ga; subst. inversion Gb; subst. inversion Da; subst.
  destruct (negb (mp_compare_strings (n_key x) (n_key y) cs =? 0)); [eexists; reflexivity|].
  destruct (Hc x y) as [[[r0 x'] y'] E]; try assumption. rewrite E. cbn [bind]. destruct r0; [|eexists; reflexivity].
  destruct (IH lb) as [[[r2 la2] lb2] E2]; try assumption. rewrite E2. cbn [bind]. eexists; reflexivity.
Qed.

Lemma children_depth_le a n : (node_depth a <= S n)%nat -> Forall (fun x => (node_depth x <= n)%nat) (n_children a).
Proof. intro H. apply Forall_forall. intros c Hc. apply depth_child in Hc. lia. Qed.

Lemma compare_json_total cs : forall fuel, cmp_total_on (mp_compare_json fuel cs) fuel.
Proof.
  induction fuel as [|f IH]; intros a b Ga Gb Hd; [pose proof (depth_pos a); lia|].
  cbn [mp_compare_json].
  destruct (negb (tymask (n_ty a) =? tymask (n_ty b))) eqn:Et; [eexists; reflexivity|].
  apply negb_false_iff in Et. apply Z.eqb_eq in Et.
  destruct (tymask (n_ty a) =? c_cJSON_Number); [eexists; reflexivity|].
  destruct (Z.eqb_spec (tymask (n_ty a)) c_cJSON_String) as [Es|_].
  { pose proof Ga as Ga0. pose proof Gb as Gb0. apply gd_eq in Ga0. apply gd_eq in Gb0.
    destruct Ga0 as [[_ [_ [Sa _]]] _]. destruct Gb0 as [[_ [_ [Sb _]]] _].
    destruct (Sa Es) as [sa [-> _]]. destruct (Sb (eq_trans (eq_sym Et) Es)) as [sb [-> _]]. eexists; reflexivity. }
  assert (Gca : Forall gd (n_children a)) by (apply gd_eq in Ga; tauto).
  assert (Gcb : Forall gd (n_children b)) by (apply gd_eq in Gb; tauto).
  pose proof (children_depth_le a f Hd) as Dca.
  destruct (tymask (n_ty a) =? c_cJSON_Array).
  { destruct (arr_walk_total _ f IH (n_children a) (n_children b) Gca Gcb Dca) as [[[r la] lb] E]. rewrite E. cbn [bind]. eexists; reflexivity. }
  destruct (tymask (n_ty a) =? c_cJSON_Object); [|eexists; reflexivity].
  destruct (sort_members_total cs (n_children a)) as [sa Esa]. destruct (sort_members_total cs (n_children b)) as [sb Esb].
  rewrite Esa, Esb. cbn [bind]. apply sort_members_perm in Esa. apply sort_members_perm in Esb.
  destruct (obj_walk_total _ cs f IH sa sb) as [[[r la] lb] E].
  - apply (Forall_perm _ _ _ Esa Gca).
  - apply (Forall_perm _ _ _ Esb Gcb).
  - apply (Forall_perm _ _ _ Esa Dca).
  - rewrite E. cbn [bind]. eexists; reflexivity.
Qed.

Lemma compare_json_top_total cs x y : gd x -> gd y -> exists r, mp_compare_json_top cs x y = Ok r.
Proof. intros Gx Gy. apply (compare_json_total cs (node_depth x)); auto. Qed.

Definition gen_total_on (gen : node -> node -> res (option node * node * node)) (n : nat) : Prop :=
  forall x y, gd x -> gd y -> (node_depth y <= n)%nat -> exists r, gen x y = Ok r.

Lemma gen_walk_total cs gen n : gen_total_on gen n -> forall fl tl,
  Forall has_key fl -> Forall has_key tl -> Forall gd fl -> Forall gd tl -> Forall (fun y => (node_depth y <= n)%nat) tl ->
  exists r, mp_gen_walk (mp_compare_json_top cs) gen fl tl = Ok r.
Proof.
  intro Hg. induction fl as [|fc fr IHf].
  - induction tl as [|tc tr IHt]; intros Kf Kt Gf Gt Dt.
    + eexists; reflexivity.
    + rewrite gen_walk_nil_cons. inversion Kt; subst. inversion Gt; subst. inversion Dt; subst.
      destruct IHt as [[[p fl2] tl2] E]; try assumption. rewrite E. cbn [bind]. eexists; reflexivity.
  - induction tl as [|tc tr IHt]; intros Kf Kt Gf Gt Dt.
    + rewrite gen_walk_cons_nil. inversion Kf; subst. inversion Gf; subst.
      destruct (IHf []) as [[[p fl2] tl2] E]; try assumption. rewrite E. cbn [bind]. eexists; reflexivity.
    + rewrite gen_walk_cons_cons.
      inversion Kf as [|? ? [kf [Hkf _]] Kf']; subst. inversion Gf as [|? ? Gf1 Gf']; subst.
      inversion Kt as [|? ? [kt [Hkt _]] Kt']; subst. inversion Gt as [|? ? Gt1 Gt']; subst. inversion Dt as [|? ? Dt1 Dt']; subst.
      rewrite Hkf, Hkt.
      destruct (strcmp kf kt <? 0).
      { destruct (IHf (tc :: tr)) as [[[p fl2] tl2] E]; try assumption. rewrite E. cbn [bind]. eexists; reflexivity. }
      destruct (0 <? strcmp kf kt).
      { destruct IHt as [[[p fl2] tl2] E]; try assumption. rewrite E. cbn [bind]. eexists; reflexivity. }
      destruct (compare_json_top_total cs fc tc Gf1 Gt1) as [[[same fc1] tc1] Ec]. rewrite Ec. cbn [bind].
      destruct (IHf tr) as [[[p fl2] tl2] E]; try assumption.
      destruct same; [rewrite E; cbn [bind]; eexists; reflexivity|].
      destruct (compare_json_top_dperm cs _ _ _ _ _ Ec) as [Df Dt2].
      destruct (Hg fc1 tc1) as [[[sub fc2] tc2] Eg].
      * eapply gd_dperm; eassumption.
      * eapply gd_dperm; eassumption.
      * rewrite <- (depth_dperm _ _ Dt2). exact Dt1.
      * rewrite Eg. cbn [bind]. rewrite E. cbn [bind]. eexists; reflexivity.
Qed.

Lemma generate_total cs : forall fuel, gen_total_on (mp_generate_merge_patch fuel cs) fuel.
Proof.
  induction fuel as [|f IH]; intros x y Gx Gy Hd; [pose proof (depth_pos y); lia|].
  cbn [mp_generate_merge_patch].
  destruct (negb (is_object y) || negb (is_object x)) eqn:Eo; [eexists; reflexivity|].
  apply orb_false_iff in Eo. destruct Eo as [Oy Ox]. apply negb_false_iff in Oy, Ox.
  destruct (sort_members_total cs (n_children x)) as [sf Esf]. destruct (sort_members_total cs (n_children y)) as [st Est].
  rewrite Esf, Est. cbn [bind]. apply sort_members_perm in Esf. apply sort_members_perm in Est.
  destruct (gen_walk_total cs _ f IH sf st) as [[[p fl] tl] E].
  - apply (Forall_perm _ _ _ Esf). apply (gd_keys _ Gx Ox).
  - apply (Forall_perm _ _ _ Est). apply (gd_keys _ Gy Oy).
  - apply (Forall_perm _ _ _ Esf). apply gd_eq in Gx. tauto.
  - apply (Forall_perm _ _ _ Est). apply gd_eq in Gy. tauto.
  - apply (Forall_perm _ _ _ Est). apply children_depth_le. exact Hd.
  - rewrite E. cbn [bind]. eexists; reflexivity.
Qed.

Theorem generate_entry_total cs from to : gd from -> gd to ->
  exists p f' t', mp_GenerateMergePatch_gen cs (Some from) (Some to) = Ok (p, Some f', Some t').
Proof.
  intros Gf Gt. unfold mp_GenerateMergePatch_gen.
  destruct (generate_total cs (node_depth to) from to Gf Gt (Nat.le_refl _)) as [[[p f'] t'] E].
  rewrite E. cbn [bind]. eexists _, _, _. reflexivity.
Qed.
