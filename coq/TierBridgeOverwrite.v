(** TierBridgeOverwrite.v — Tier A for [overwrite_item] of cJSON_Utils.c (deviation D2: replacement of the
    document root in place; transliteration in TierBridgeOverwriteDefs.v) and for the statement sequences of
    [apply_patch] that call it when the path is "".

    * [overwrite_item_run]: on a well-formed heap, for a forest ROOT [r] that is not a reference node and whose
      key (if any) is an owned string, [overwrite_item r (l, nd)] returns normally; the result heap is the old
      heap with the blocks [ov_released] released in that order (key, valuestring, the children as
      cJSON_Delete releases them) and the struct [(l, nd)] stored at [r] — both parts, links included.
    * [patch_root_overwrite_sim]: [overwrite_item(object, *value); cJSON_free(value); drop object->string
      (released unless constant); clear cJSON_StringIsConst] — the code after the repair f953f57 — for a
      detached replacement root [x] whose key may be owned, constant or absent: returns normally, the result heap
      is explicit ([patch_heap]), and it is well-formed ([WF]) for [overwrite_root r x dx csx F]: the root [r]
      now carries the replacement's data (key and flag cleared) and the replacement's children, under the ROOT's
      identity; the shell [x] is gone.  The ledger changes by exactly [patch_released]
      ([patch_root_overwrite_ledger]: [owned F ≡ₚ patch_released ++ owned F'], [lib_live] shrinks by exactly that
      set, [NoLeak] is kept).
    * [patch_const_replacement_ok]: a replacement with a constant key: the borrowed block stays live and untouched.
    * [patch_root_overwrite_value]: the reified new root is [PatchDefs.unnamed (reify replacement)] — what
      the value-level model PatchDefs.apply_patch computes at that point ([apply_patch_root_add_replace]: the
      root case of add / replace; [PatchDefs.finish_add _ v [] _]: the root case of copy / move), given that the
      strings the replacement's valuestring and children refer to are not released by the call (NO-ALIASING;
      holds when the replacement owns its strings: [patch_no_aliasing_of_owned]).
    * [patch_root_remove_sim]: [overwrite_item(object, invalid)] (root case of remove): [WF] for
      [invalidate_root r F], reified [PatchDefs.invalid_node]. *)
From CJ Require Import Base Dbl Heap Forest ForestLemmas CoreSpec CoreDefs CoreRefineBase CoreRefine CoreRefineDelete
  CoreRefineFrame CoreRefineAddObject CoreRefineDupValue.
From CJ Require Import TierBridgeDefs TierBridgeLemmas TierBridgeEndToEndStr TierBridgeOverwriteDefs.
From CJ Require Tree CompareDefs PatchDefs.
From CJ.gen Require Import Constants.
From stdpp Require Import gmap.
From Coq Require Import Lia.
Local Open Scope Z_scope.

(** the blocks [overwrite_item] releases from a root with data [dr] and children [csr], in that order: key,
    valuestring, then the children as cJSON_Delete releases them ([CoreRefineDelete.free_order]) *)
Definition ov_released (dr : rdata) (csr : list tree) : list positive :=
  opt_list (rd_key dr) ++ opt_list (rd_vstr dr) ++ free_order csr.
(** … and the blocks [patch_root_overwrite] releases: those, the shell of the replacement, and the replacement's
    key UNLESS it is constant ([CoreRefineAddObject.old_key]) *)
Definition patch_released (dr : rdata) (csr : list tree) (x : positive) (dx : rdata) : list positive :=
  ov_released dr csr ++ [x] ++ old_key dx.

(** * 0. stepping lemmas *)
Lemma run_ld_lnk_plain g (i : positive) e : i ∈ h_live g -> h_lnk g !! i = Some e -> ld_lnk (Some i) g = Ret (e, g).
Proof. intros H1 H2. pose proof (run_ld_lnk g (h_lnk g) (h_dat g) i e H1 H2) as H. by rewrite upd_maps_id in H. Qed.
Lemma run_ld_dat_plain g (i : positive) nd : i ∈ h_live g -> h_dat g !! i = Some nd -> ld_dat (Some i) g = Ret (nd, g).
Proof. intros H1 H2. pose proof (run_ld_dat g (h_lnk g) (h_dat g) i nd H1 H2) as H. by rewrite upd_maps_id in H. Qed.

Lemma run_put_struct g (r : positive) l nd :
  r ∈ h_live g -> is_Some (h_lnk g !! r) -> is_Some (h_dat g !! r) ->
  (st_lnk (Some r) l ;;; st_dat (Some r) nd) g = Ret (tt, put_struct r l nd g).
Proof.
  intros H1 H2 H3. pose proof (run_st_lnk g (h_lnk g) (h_dat g) r l H1 H2) as E1. rewrite upd_maps_id in E1.
  rewrite (bindM_Ret _ _ _ _ _ E1). by rewrite (run_st_dat g _ (h_dat g) r nd H1 H3).
Qed.

Lemma free1_put_struct b (r : positive) l nd g : b <> r -> free1 b (put_struct r l nd g) = put_struct r l nd (free1 b g).
Proof. intros Hne. unfold free1, put_struct. cbn. by rewrite !delete_insert_ne by done. Qed.
Lemma free_all_put_struct bs (r : positive) l nd g :
  r ∉ bs -> free_all bs (put_struct r l nd g) = put_struct r l nd (free_all bs g).
Proof.
  revert g. induction bs as [|b bs IH]; intros g Hr; [done|]. apply not_elem_of_cons in Hr as [H1 H2].
  rewrite !free_all_cons, free1_put_struct by done. by apply IH.
Qed.
Lemma ov_free_all_req bs g : h_req (free_all bs g) = h_req g.
Proof. revert g. induction bs as [|c bs IH]; intros g; [done|]. by rewrite free_all_cons, IH. Qed.
Lemma ov_free_all_hooks bs g : h_hooks (free_all bs g) = h_hooks g.
Proof. revert g. induction bs as [|c bs IH]; intros g; [done|]. by rewrite free_all_cons, IH. Qed.
Lemma put_struct_set_dat (r : positive) l nd nd' g :
  set_dat (put_struct r l nd g) (<[r := nd']> (h_dat (put_struct r l nd g))) = put_struct r l nd' g.
Proof. unfold set_dat, put_struct, upd_maps. cbn. by rewrite insert_insert. Qed.

(** [if (root->f != NULL) cJSON_free(root->f);] for a field that holds a live library block *)
Lemma free_field_step {B} (get : ptr -> M ptr) (fld : ndata -> ptr) (K : M B) g (r : positive) nd :
  get (Some r) g = Ret (fld nd, g) ->
  (forall v, fld nd = Some v -> v ∈ h_live g /\ h_own g !! v = Some Lib) ->
  (k <~ get (Some r) ;; when (negb (is_null k)) (k2 <~ get (Some r) ;; cJSON_free k2) ;;; K) g =
  K (free_all (opt_list (fld nd)) g).
Proof.
  intros Hget Hv. rewrite (bindM_Ret _ _ _ _ _ Hget). destruct (fld nd) as [v|] eqn:E; cbn [is_null negb when opt_list].
  - destruct (Hv v eq_refl) as [Hl Ho]. rewrite bindM_assoc. rewrite (bindM_Ret _ _ _ _ _ Hget).
    unfold cJSON_free. by rewrite (bindM_Ret _ _ _ _ _ (run_free_block g v Hl Ho)).
  - reflexivity.
Qed.

Lemma owned_strs_plain d : is_ref d = false -> key_owned d -> owned_strs d = opt_list (rd_vstr d) ++ opt_list (rd_key d).
Proof.
  intros Hr Hk. unfold owned_strs. rewrite Hr. destruct (is_const d) eqn:Hc; [|done]. by rewrite (Hk Hc).
Qed.

(** * 1. overwrite_item on a forest root *)
Section Root.
  Context (h : heap) (F : forest) (r : positive) (dr : rdata) (csr : list tree).
  Hypothesis W : WF h F.
  Hypothesis Hr : find_root r F = Some (T r dr csr).
  Hypothesis Hnr : is_ref dr = false.
  Hypothesis Hko : key_owned dr.
  Notation ksr := (tid <$> csr).
  Notation OV := (ov_released dr csr).

  Let ND : NoDup (ids F) := wf_nodup _ _ W.

  Lemma root_in : T r dr csr ∈ F.
  Proof. by apply find_root_Some in Hr as [? _]. Qed.
  Lemma root_flat : (r, dr, ksr) ∈ flat F.
  Proof. exact (elem_of_flat F _ (roots_in_nodes _ _ root_in)). Qed.
  Lemma root_live : r ∈ h_live h.
  Proof. apply (WF_ids_live _ _ _ W). rewrite ids_flat. apply elem_of_list_fmap. by exists (r, dr, ksr); split; [|apply root_flat]. Qed.

  (** everything the root's tree owns: the root block and what [overwrite_item] releases *)
  Lemma root_owned_perm : owned_fl (flat_t (T r dr csr)) ≡ₚ r :: OV.
  Proof.
    rewrite flat_t_unfold, owned_fl_cons. unfold owned_fn, ov_released. cbn [fn_id fn_data fst snd].
    rewrite (owned_strs_plain dr Hnr Hko), <- (free_order_owned csr). cbn [app]. apply Permutation_skip.
    rewrite !app_assoc. apply Permutation_app_tail. apply Permutation_app_comm.
  Qed.
  Lemma root_owned_sub b : b ∈ r :: OV -> b ∈ owned F.
  Proof.
    rewrite <- root_owned_perm. intros Hb. apply elem_of_owned_fl in Hb as (e & He & Hbe).
    apply elem_of_owned_fl. exists e. split; [|done].
    apply elem_of_list_fmap in He as (m & -> & Hm). apply elem_of_flat. apply elem_of_nodes. exists (T r dr csr).
    split; [apply root_in|done].
  Qed.
  Lemma root_owned_nodup : NoDup (r :: OV).
  Proof.
    rewrite <- root_owned_perm. pose proof (enc_nodup _ _ (WF_Enc_root _ _ _ W root_in)) as H.
    by rewrite flat_singleton in H.
  Qed.
  Lemma root_notin_OV : r ∉ OV.
  Proof. pose proof root_owned_nodup as H. by apply NoDup_cons in H as [? _]. Qed.

  Theorem overwrite_item_run l nd :
    overwrite_item (Some r) (l, nd) h = Ret (tt, put_struct r l nd (free_all OV h)).
  Proof.
    pose proof root_flat as Hn. pose proof root_live as Hlr. pose proof root_owned_nodup as NDo.
    pose proof (WF_lookup_dat _ _ _ _ _ W Hn) as Hdr.
    set (K := opt_list (rd_key dr)) in *. set (V := opt_list (rd_vstr dr)) in *.
    assert (EOV : OV = K ++ V ++ free_order csr) by reflexivity. rewrite EOV in NDo.
    apply NoDup_cons in NDo as [HrOV NDo]. apply NoDup_app in NDo as (NDK & HKV & NDo).
    apply NoDup_app in NDo as (NDV & HVC & NDC).
    assert (Hlib : forall b, b ∈ K ++ V ++ free_order csr -> b ∈ h_live h /\ h_own h !! b = Some Lib).
    { intros b Hb. assert (Hbo : b ∈ owned F) by (apply root_owned_sub; right; by rewrite EOV).
      split; [by apply (wf_owned_live _ _ W)|by apply (wf_owned_lib _ _ W)]. }
    unfold overwrite_item. cbn [is_null fst snd].
    (* root->string *)
    rewrite (free_field_step get_key nd_key _ h r (mk_dat dr ksr) (run_get_key_plain _ _ _ Hlr Hdr)).
    2:{ intros v Hv. apply Hlib. apply elem_of_app. left. unfold K. change (nd_key (mk_dat dr ksr)) with (rd_key dr) in Hv.
        rewrite Hv. by left. }
    change (nd_key (mk_dat dr ksr)) with (rd_key dr). fold K. set (g1 := free_all K h).
    assert (Hlr1 : r ∈ h_live g1).
    { apply free_all_live. split; [done|]. intros Hin. apply HrOV. apply elem_of_app. by left. }
    assert (Hdr1 : h_dat g1 !! r = Some (mk_dat dr ksr)).
    { unfold g1. rewrite free_all_dat_lookup; [done|]. intros Hin. apply HrOV. apply elem_of_app. by left. }
    (* root->valuestring *)
    rewrite (free_field_step get_vstr nd_vstr _ g1 r (mk_dat dr ksr) (run_get_vstr_plain _ _ _ Hlr1 Hdr1)).
    2:{ intros v Hv. change (nd_vstr (mk_dat dr ksr)) with (rd_vstr dr) in Hv.
        assert (HvV : v ∈ V) by (unfold V; rewrite Hv; by left).
        destruct (Hlib v) as [H1 H2]; [apply elem_of_app; right; apply elem_of_app; by left|].
        split; [|by unfold g1; rewrite free_all_own]. apply free_all_live. split; [done|].
        intros HvK. apply (HKV v HvK). apply elem_of_app. by left. }
    change (nd_vstr (mk_dat dr ksr)) with (rd_vstr dr). fold V. set (g2 := free_all V g1).
    assert (Hg2 : g2 = free_all (K ++ V) h) by (unfold g2, g1; by rewrite free_all_app).
    assert (HrKV : r ∉ K ++ V).
    { intros Hin. apply HrOV. rewrite app_assoc. apply elem_of_app. by left. }
    assert (Hlr2 : r ∈ h_live g2) by (rewrite Hg2; apply free_all_live; done).
    assert (Hdr2 : h_dat g2 !! r = Some (mk_dat dr ksr)) by (rewrite Hg2, free_all_dat_lookup; done).
    (* root->child *)
    rewrite (bindM_Ret _ _ _ _ _ (run_get_child_plain _ _ _ Hlr2 Hdr2)).
    change (nd_child (mk_dat dr ksr)) with (child_of dr ksr).
    rewrite (ref_ok_child_of _ _ _ _ (wf_ref _ _ W) Hn Hnr). rewrite <- head_lookup.
    set (g3 := free_all (free_order csr) g2).
    assert (Hsim : cJSON_Delete_fuel (Pos.to_nat (h_next g2)) (head ksr) g2 = Ret (tt, g3)).
    { apply cJSON_Delete_fuel_sim.
      - rewrite Hg2, free_all_next.
        assert (length (nodes csr) = length (ids csr)) as -> by (unfold ids; by rewrite fmap_length).
        assert (NDc : NoDup (ids (T r dr csr :: nil))).
        { pose proof (find_root_split _ _ _ (NoDup_roots _ ND) Hr) as (F1 & F2 & HF & _).
          pose proof ND as ND'. rewrite HF, ids_app, ids_cons in ND'. apply NoDup_app in ND' as (_ & _ & ND').
          apply NoDup_app in ND' as (ND' & _ & _). by rewrite ids_cons, app_nil_r. }
        rewrite ids_cons, ids_t_unfold, app_nil_r in NDc. apply NoDup_cons in NDc as [_ NDc].
        apply NoDup_length_lt_pos; [done|]. intros k Hk. apply (WF_ids_fresh _ _ _ W).
        apply elem_of_list_fmap in Hk as (m & -> & Hm). apply elem_of_list_fmap. exists m. split; [done|].
        apply elem_of_nodes. exists (T r dr csr). split; [apply root_in|]. rewrite nodes_t_unfold. by right.
      - rewrite Hg2. apply Enc_free_all; [exact (Enc_children _ _ _ _ _ (WF_Enc_root _ _ _ W root_in))|].
        intros b Hb. rewrite <- free_order_owned. intros Hbc. apply elem_of_app in Hb as [Hb|Hb].
        + apply (HKV b Hb). apply elem_of_app. by right.
        + by apply (HVC b Hb). }
    assert (Hdel : forall (K' : M unit),
      (when (negb (is_null (head ksr))) (c2 <~ get_child (Some r) ;; cJSON_Delete c2) ;;; K') g2 = K' g3).
    { intros K'. destruct (head ksr) as [c|] eqn:Hh; cbn [is_null negb when].
      - rewrite bindM_assoc. rewrite (bindM_Ret _ _ _ _ _ (run_get_child_plain _ _ _ Hlr2 Hdr2)).
        change (nd_child (mk_dat dr ksr)) with (child_of dr ksr). rewrite (child_of_head _ _ _ Hh).
        unfold cJSON_Delete, heap_fuel. rewrite bindM_assoc. unfold bindM at 1.
        by rewrite (bindM_Ret _ _ _ _ _ Hsim).
      - apply head_None in Hh. assert (csr = []) as E by (by apply fmap_nil_inv with (f := tid)).
        unfold g3. rewrite E. reflexivity. }
    rewrite Hdel.
    (* memcpy *)
    assert (Hg3 : g3 = free_all OV h) by (unfold g3; rewrite Hg2, EOV, !free_all_app; reflexivity).
    rewrite Hg3. apply run_put_struct.
    - apply free_all_live. split; [done|]. by rewrite EOV.
    - rewrite free_all_lnk_lookup by (by rewrite EOV). rewrite (WF_lookup_lnk_root _ _ _ W); [by eexists|].
      apply elem_of_list_fmap. exists (T r dr csr). split; [done|apply root_in].
    - rewrite free_all_dat_lookup by (by rewrite EOV). rewrite Hdr. by eexists.
  Qed.
End Root.

(** * 2. [overwrite_item(object, *value); cJSON_free(value); free and clear object->string] *)
Lemma find_root_remove_other (r x : positive) F t : r <> x -> find_root x F = Some t -> find_root x (remove_root r F) = Some t.
Proof.
  intros Hne. unfold find_root, remove_root. induction F as [|a F IH]; [done|]. cbn [List.find List.filter].
  destruct (bool_decide (tid a = x)) eqn:Ea.
  - intros [= <-]. apply bool_decide_eq_true in Ea. rewrite bool_decide_eq_false_2 by (rewrite Ea; by intros ->).
    cbn [negb List.find]. by rewrite bool_decide_eq_true_2.
  - intros H. destruct (negb (bool_decide (tid a = r))); [|by apply IH]. cbn [List.find]. rewrite Ea. by apply IH.
Qed.

Lemma perm_shuffle_ids {A} (r x : A) (a b c : list A) : (r :: a) ++ (x :: b) ++ c ≡ₚ (a ++ [x]) ++ r :: b ++ c.
Proof. rewrite <- (Permutation_middle (a ++ [x]) (b ++ c) r). rewrite <- (app_assoc a [x]). reflexivity. Qed.
Lemma perm_shuffle_owned {A} (r x : A) (ov vx kx rest : list A) :
  (r :: ov) ++ (x :: vx ++ kx) ++ rest ≡ₚ (ov ++ [x] ++ kx) ++ (r :: vx ++ []) ++ rest.
Proof.
  rewrite app_nil_r. rewrite <- !app_assoc. cbn [app].
  rewrite <- (Permutation_middle kx (vx ++ rest) r). rewrite (perm_swap r x). rewrite <- (Permutation_middle ov _ r).
  apply Permutation_skip. apply Permutation_app_head. apply Permutation_skip.
  rewrite !app_assoc. apply Permutation_app_tail. apply Permutation_app_comm.
Qed.

Lemma is_ref_unnamed d : is_ref (rd_unnamed d) = is_ref d.
Proof.
  unfold is_ref, rd_unnamed. cbn. rewrite <- Z.land_assoc.
  by replace (Z.land (Z.lnot c_cJSON_StringIsConst) c_cJSON_IsReference) with c_cJSON_IsReference by reflexivity.
Qed.
Lemma is_const_unnamed d : is_const (rd_unnamed d) = false.
Proof.
  unfold is_const, rd_unnamed. cbn. rewrite <- Z.land_assoc.
  replace (Z.land (Z.lnot c_cJSON_StringIsConst) c_cJSON_StringIsConst) with 0 by reflexivity. by rewrite Z.land_0_r.
Qed.
Lemma owned_strs_unnamed d : owned_strs (rd_unnamed d) = (if is_ref d then [] else opt_list (rd_vstr d)) ++ [].
Proof. unfold owned_strs. rewrite is_ref_unnamed, is_const_unnamed. reflexivity. Qed.
Lemma old_key_owned d : key_owned d -> old_key d = opt_list (rd_key d).
Proof. intros Hk. unfold old_key. destruct (is_const d) eqn:Hc; [|done]. by rewrite (Hk Hc). Qed.
Lemma mk_dat_unnamed d (ks : list positive) :
  nd_set_type (nd_set_key (mk_dat d ks) None) (clear_flag (rd_type d) c_cJSON_StringIsConst) = mk_dat (rd_unnamed d) ks.
Proof. reflexivity. Qed.
Lemma nd_set_key_None_id nd : nd_key nd = None -> nd_set_key nd None = nd.
Proof. destruct nd. cbn. by intros ->. Qed.

(** the tail of the repaired sequence on any heap:
    [if (o->string != NULL) { if (!(o->type & cJSON_StringIsConst)) cJSON_free(o->string); o->string = NULL; }
     o->type &= ~cJSON_StringIsConst;] releases the key exactly when it is not constant *)
Lemma unname_tail g (r : positive) nd :
  r ∈ h_live g -> h_dat g !! r = Some nd ->
  let bs := if has_flag (nd_type nd) c_cJSON_StringIsConst then [] else opt_list (nd_key nd) in
  (forall v, v ∈ bs -> v <> r /\ v ∈ h_live g /\ h_own g !! v = Some Lib) ->
  (k <~ get_key (Some r) ;;
   when (negb (is_null k))
        (t <~ get_type (Some r) ;;
         when (negb (has_flag t c_cJSON_StringIsConst)) (k2 <~ get_key (Some r) ;; cJSON_free k2) ;;;
         set_key (Some r) None) ;;;
   t2 <~ get_type (Some r) ;;
   set_type (Some r) (clear_flag t2 c_cJSON_StringIsConst)) g =
  Ret (tt, set_dat (free_all bs g)
             (<[r := nd_set_type (nd_set_key nd None) (clear_flag (nd_type nd) c_cJSON_StringIsConst)]> (h_dat (free_all bs g)))).
Proof.
  intros Hl Hd bs Hbs.
  assert (Htail : forall g1 nd1, r ∈ h_live g1 -> h_dat g1 !! r = Some nd1 ->
    (t2 <~ get_type (Some r) ;; set_type (Some r) (clear_flag t2 c_cJSON_StringIsConst)) g1 =
    Ret (tt, set_dat g1 (<[r := nd_set_type nd1 (clear_flag (nd_type nd1) c_cJSON_StringIsConst)]> (h_dat g1)))).
  { intros g1 nd1 H1 H2. rewrite (bindM_Ret _ _ _ _ _ (run_get_type_plain _ _ _ H1 H2)).
    by rewrite (run_set_type_plain g1 r nd1 _ H1 H2). }
  assert (Hset : forall g1, r ∈ h_live g1 -> h_dat g1 !! r = Some nd ->
    (set_key (Some r) None ;;; t2 <~ get_type (Some r) ;; set_type (Some r) (clear_flag t2 c_cJSON_StringIsConst)) g1 =
    Ret (tt, set_dat g1 (<[r := nd_set_type (nd_set_key nd None) (clear_flag (nd_type nd) c_cJSON_StringIsConst)]> (h_dat g1)))).
  { intros g1 H1 H2. rewrite (bindM_Ret _ _ _ _ _ (run_set_key_plain g1 r nd None H1 H2)).
    rewrite (Htail _ (nd_set_key nd None)); [|done|cbn; by rewrite lookup_insert].
    rewrite set_dat_set_dat. cbn [h_dat set_dat upd_maps]. by rewrite insert_insert. }
  rewrite (bindM_Ret _ _ _ _ _ (run_get_key_plain _ _ _ Hl Hd)).
  destruct (nd_key nd) as [k|] eqn:Ek; cbn [is_null negb when].
  - rewrite !bindM_assoc. rewrite (bindM_Ret _ _ _ _ _ (run_get_type_plain _ _ _ Hl Hd)). rewrite !bindM_assoc.
    unfold bs. destruct (has_flag (nd_type nd) c_cJSON_StringIsConst) eqn:Hf; cbn [negb when opt_list].
    + rewrite bindM_ret. by apply Hset.
    + rewrite !bindM_assoc. rewrite (bindM_Ret _ _ _ _ _ (run_get_key_plain _ _ _ Hl Hd)). rewrite Ek.
      destruct (Hbs k) as (Hkr & Hkl & Hko); [by left|].
      unfold cJSON_free. rewrite (bindM_Ret _ _ _ _ _ (run_free_block g k Hkl Hko)).
      change (free_all [k] g) with (free1 k g). apply Hset.
      * cbn. apply elem_of_difference. split; [done|]. intros ?%elem_of_singleton. by subst.
      * cbn. by rewrite lookup_delete_ne.
  - rewrite bindM_ret. assert (bs = []) as -> by (unfold bs; by destruct (has_flag _ _)).
    rewrite (nd_set_key_None_id nd Ek). by apply Htail.
Qed.

Section Patch.
  Context (h : heap) (F : forest) (r x : positive) (dr dx : rdata) (csr csx : list tree).
  Hypothesis W : WF h F.
  Hypothesis Hr : find_root r F = Some (T r dr csr).
  Hypothesis Hx : find_root x F = Some (T x dx csx).
  Hypothesis Hrx : r <> x.
  Hypothesis Hnr : is_ref dr = false.
  Hypothesis Hko : key_owned dr.
  Notation ks := (tid <$> csx).
  Notation OV := (ov_released dr csr).
  Notation PR := (patch_released dr csr x dx).
  Notation F0 := (remove_root x (remove_root r F)).
  Notation F' := (overwrite_root r x dx csx F).
  Notation dx' := (rd_unnamed dx).
  Notation Vx := (if is_ref dx then [] else opt_list (rd_vstr dx)).
  Notation Kx := (old_key dx).

  Let ND : NoDup (ids F) := wf_nodup _ _ W.

  (** the result heap: the released blocks gone, the replacement's struct (key cleared, links NULL) at [r] *)
  Definition patch_heap : heap := put_struct r (None, None) (mk_dat dx' ks) (free_all PR h).

  Lemma patch_perm : F ≡ₚ T r dr csr :: T x dx csx :: F0.
  Proof.
    destruct (find_root_split _ _ _ (NoDup_roots _ ND) Hr) as (F1 & F2 & HF & HF0).
    assert (ND1 : NoDup (roots (remove_root r F))).
    { rewrite HF0. pose proof (NoDup_roots _ ND) as H. rewrite HF, !roots_app in H. rewrite roots_app.
      cbn in H. apply NoDup_app in H as (H1 & H2 & H3). apply NoDup_cons in H3 as [_ H3].
      apply NoDup_app. split; [done|]. split; [|done]. intros k Hk Hk'. apply (H2 k Hk). by right. }
    destruct (find_root_split _ _ _ ND1 (find_root_remove_other r x F _ Hrx Hx)) as (G1 & G2 & HG & HG0).
    rewrite HG0. rewrite HF at 1. rewrite <- Permutation_middle. apply Permutation_skip.
    rewrite <- HF0, HG. by rewrite <- Permutation_middle.
  Qed.

  Lemma patch_flat : flat F ≡ₚ ((r, dr, tid <$> csr) :: flat csr) ++ ((x, dx, ks) :: flat csx) ++ flat F0.
  Proof. pose proof patch_perm as HP. set (G := F0) in *. by rewrite HP, !flat_cons, !flat_t_unfold. Qed.
  Lemma patch_flat' : flat F' = (r, dx', ks) :: flat csx ++ flat F0.
  Proof. unfold overwrite_root. by rewrite flat_cons, flat_t_unfold. Qed.
  Lemma patch_ids : ids F ≡ₚ (ids csr ++ [x]) ++ ids F'.
  Proof.
    unfold overwrite_root. pose proof patch_perm as HP. set (G := F0) in *.
    rewrite HP, !ids_cons, !ids_t_unfold. apply perm_shuffle_ids.
  Qed.
  Lemma patch_ids_nodup : NoDup (ids F').
  Proof. pose proof ND as H. rewrite patch_ids in H. by apply NoDup_app in H as (_ & _ & ?). Qed.

  (** the ledger: the forest loses exactly the released blocks *)
  Lemma patch_owned : owned F ≡ₚ PR ++ owned F'.
  Proof.
    pose proof patch_perm as HP. unfold overwrite_root. set (G := F0) in *.
    unfold owned at 1. rewrite HP, !flat_cons, !owned_fl_app.
    rewrite (root_owned_perm r dr csr Hnr Hko).
    unfold owned. rewrite flat_cons, owned_fl_app, !flat_t_unfold, !owned_fl_cons.
    unfold owned_fn, patch_released. cbn [fn_id fn_data fst snd].
    rewrite owned_strs_unnamed, owned_strs_split.
    rewrite <- !app_assoc. cbn [app]. rewrite !app_nil_r.
    pose proof (perm_shuffle_owned r x OV Vx Kx (owned_fl (flat csx) ++ owned_fl (flat G))) as H.
    rewrite app_nil_r in H. rewrite <- !app_assoc in H. cbn [app] in H. rewrite <- !app_assoc in H. rewrite <- !app_assoc. exact H.
  Qed.
  Lemma patch_owned_nodup : NoDup (PR ++ owned F').
  Proof. rewrite <- patch_owned. apply W. Qed.
  Lemma patch_released_owned b : b ∈ PR -> b ∈ owned F.
  Proof. intros Hb. rewrite patch_owned. apply elem_of_app. by left. Qed.
  Lemma patch_kept_owned b : b ∈ owned F' -> b ∈ owned F /\ b ∉ PR.
  Proof.
    intros Hb. split; [rewrite patch_owned; apply elem_of_app; by right|].
    pose proof patch_owned_nodup as H. apply NoDup_app in H as (_ & H & _). intros Hin. by apply (H b Hin).
  Qed.
  Lemma patch_r_kept : r ∉ PR.
  Proof.
    apply (proj2 (patch_kept_owned r ltac:(apply ids_subseteq_owned; unfold overwrite_root; rewrite ids_cons, ids_t_unfold; by left))).
  Qed.

  (** ** the run *)
  Theorem patch_root_overwrite_run : patch_root_overwrite (Some r) (Some x) h = Ret (tt, patch_heap).
  Proof.
    pose proof (root_flat F x dx csx Hx) as Hnx. pose proof (root_live h F x dx csx W Hx) as Hlx.
    pose proof (root_live h F r dr csr W Hr) as Hlr.
    pose proof patch_owned_nodup as NDo. pose proof patch_r_kept as HrPR. unfold patch_released in NDo, HrPR.
    apply NoDup_app in NDo as (NDpr & _ & _). apply NoDup_app in NDpr as (NDov & Hov_x & NDxk).
    apply NoDup_app in NDxk as (_ & Hx_k & _).
    assert (Hlib : forall b, b ∈ PR -> b ∈ h_live h /\ h_own h !! b = Some Lib).
    { intros b Hb. apply patch_released_owned in Hb. split; [by apply (wf_owned_live _ _ W)|by apply (wf_owned_lib _ _ W)]. }
    assert (Hxroot : x ∈ roots F).
    { apply elem_of_list_fmap. exists (T x dx csx). split; [done|]. by apply (root_in F x dx csx). }
    unfold patch_root_overwrite.
    rewrite (bindM_Ret _ _ _ _ _ (run_ld_lnk_plain h x _ Hlx (WF_lookup_lnk_root _ _ _ W Hxroot))).
    rewrite (bindM_Ret _ _ _ _ _ (run_ld_dat_plain h x _ Hlx (WF_lookup_dat _ _ _ _ _ W Hnx))).
    rewrite (bindM_Ret _ _ _ _ _ (overwrite_item_run h F r dr csr W Hr Hnr Hko _ _)).
    set (g4 := put_struct r (None, None) (mk_dat dx ks) (free_all OV h)).
    (* cJSON_free(value) *)
    assert (HxOV : x ∉ OV).
    { intros Hin. apply (Hov_x x Hin). apply elem_of_app. left. by left. }
    assert (Hx4 : x ∈ h_live g4 /\ h_own g4 !! x = Some Lib).
    { destruct (Hlib x) as [H1 H2]; [unfold patch_released; apply elem_of_app; right; by left|].
      split; [|by unfold g4; cbn; rewrite free_all_own]. unfold g4. cbn. by apply free_all_live. }
    unfold cJSON_free at 1. rewrite (bindM_Ret _ _ _ _ _ (run_free_block g4 x (proj1 Hx4) (proj2 Hx4))).
    assert (E5 : free1 x g4 = put_struct r (None, None) (mk_dat dx ks) (free_all (OV ++ [x]) h)).
    { unfold g4. rewrite free1_put_struct by (intros E; by apply Hrx). by rewrite free_all_app. }
    rewrite E5. clear E5. set (g5 := put_struct r (None, None) (mk_dat dx ks) (free_all (OV ++ [x]) h)).
    assert (HrOVx : r ∉ OV ++ [x]).
    { intros Hin. apply HrPR. rewrite app_assoc. apply elem_of_app. by left. }
    assert (Hlr5 : r ∈ h_live g5) by (unfold g5; cbn; by apply free_all_live).
    assert (Hdr5 : h_dat g5 !! r = Some (mk_dat dx ks)) by (unfold g5; cbn; by rewrite lookup_insert).
    (* object->string, object->type *)
    rewrite (unname_tail g5 r (mk_dat dx ks) Hlr5 Hdr5).
    2:{ change (nd_type (mk_dat dx ks)) with (rd_type dx). change (nd_key (mk_dat dx ks)) with (rd_key dx).
        rewrite has_flag_is_const. fold (old_key dx). intros v Hv.
        destruct (Hlib v) as [H1 H2]; [unfold patch_released; apply elem_of_app; right; by right|].
        split; [intros ->; apply HrPR; apply elem_of_app; right; by right|].
        split; [|by unfold g5; cbn; rewrite free_all_own]. unfold g5. cbn. apply free_all_live. split; [done|].
        intros Hin. apply elem_of_app in Hin as [Hin|Hin].
        - apply (Hov_x v Hin). by right.
        - by apply (Hx_k v Hin). }
    change (nd_type (mk_dat dx ks)) with (rd_type dx). change (nd_key (mk_dat dx ks)) with (rd_key dx).
    rewrite has_flag_is_const. fold (old_key dx). rewrite mk_dat_unnamed.
    assert (HrK : r ∉ old_key dx).
    { intros Hin. apply HrPR. apply elem_of_app. right. by right. }
    unfold g5. rewrite (free_all_put_struct _ _ _ _ _ HrK), put_struct_set_dat.
    unfold patch_heap, patch_released. by rewrite (app_assoc OV), (free_all_app (OV ++ [x])).
  Qed.

  (** ** the result heap encodes the forest with the root overwritten *)
  Lemma patch_ids_cases k : k ∈ ids F -> k = r \/ k ∈ ids csr \/ k = x \/ k ∈ ids csx \/ k ∈ ids F0.
  Proof.
    pose proof patch_perm as HP. set (G := F0) in *. rewrite HP, !ids_cons, !ids_t_unfold. intros Hk.
    apply elem_of_app in Hk as [Hk|Hk]; [apply elem_of_cons in Hk as [->|Hk]; auto|].
    apply elem_of_app in Hk as [Hk|Hk]; [apply elem_of_cons in Hk as [->|Hk]; auto|]. auto.
  Qed.
  Lemma patch_ids_released k : k ∈ ids csr \/ k = x -> k ∈ PR.
  Proof.
    intros [Hk| ->]; unfold patch_released, ov_released.
    - apply elem_of_app. left. apply elem_of_app. right. apply elem_of_app. right.
      rewrite free_order_owned. by apply (ids_subseteq_owned csr).
    - apply elem_of_app. right. by left.
  Qed.
  (** a node below the replacement's root is the [j]-th child of a flat entry that, up to the identity and
      data of the replacement's root, is an entry of both forests *)
  Lemma patch_child_entry k : k ∈ ids csx ->
    exists (cn : list positive) (j : nat), cn !! j = Some k /\
      (exists p d, (p, d, cn) ∈ flat F) /\ (exists p d, (p, d, cn) ∈ flat F').
  Proof.
    intros Hk. pose proof (lnk_keys_ids_t (T x dx csx)) as HP. rewrite ids_t_unfold in HP. cbn [tid] in HP.
    apply Permutation_cons_inv in HP. rewrite <- HP in Hk. apply elem_of_list_bind in Hk as ([[pn dn] cn] & Hkc & Hn).
    cbn [fn_cids snd] in Hkc. apply elem_of_list_lookup in Hkc as [j Hj]. exists cn, j. split; [done|].
    rewrite flat_t_unfold in Hn. split.
    - exists pn, dn. rewrite patch_flat. apply elem_of_app. right. apply elem_of_app. by left.
    - rewrite patch_flat'. apply elem_of_cons in Hn as [E|Hn].
      + injection E as -> -> ->. exists r, dx'. by left.
      + exists pn, dn. right. apply elem_of_app. by left.
  Qed.
  Lemma patch_outside_lookup k : k ∈ ids F0 ->
    heap_lnk_of F !! k = heap_lnk_of F' !! k /\ heap_dat_of F !! k = heap_dat_of F' !! k.
  Proof.
    intros Hk. pose proof patch_perm as HP. pose proof patch_ids_nodup as ND'. unfold overwrite_root in *.
    set (G := F0) in *.
    assert (ND1 : NoDup (ids (T x dx csx :: G))).
    { pose proof ND as H. rewrite HP, ids_cons in H. by apply NoDup_app in H as (_ & _ & ?). }
    assert (H1 : k ∉ ids_t (T r dr csr)).
    { pose proof ND as H. rewrite HP, ids_cons in H. apply NoDup_app in H as (_ & H & _). intros Hin. apply (H k Hin).
      rewrite ids_cons. apply elem_of_app. by right. }
    assert (H2 : k ∉ ids_t (T x dx csx)).
    { pose proof ND1 as H. rewrite ids_cons in H. apply NoDup_app in H as (_ & H & _). intros Hin. by apply (H k Hin). }
    assert (H3 : k ∉ ids_t (T r dx' csx)).
    { pose proof ND' as H. rewrite ids_cons in H. apply NoDup_app in H as (_ & H & _). intros Hin. by apply (H k Hin). }
    split.
    - rewrite (heap_lnk_of_remove_root_lookup F _ _ k ND HP H1).
      rewrite (heap_lnk_of_remove_root_lookup _ _ G k ND1 (reflexivity _) H2).
      by rewrite (heap_lnk_of_remove_root_lookup _ _ G k ND' (reflexivity _) H3).
    - rewrite (heap_dat_of_remove_root_lookup F _ _ k ND HP H1).
      rewrite (heap_dat_of_remove_root_lookup _ _ G k ND1 (reflexivity _) H2).
      by rewrite (heap_dat_of_remove_root_lookup _ _ G k ND' (reflexivity _) H3).
  Qed.

  Theorem patch_root_overwrite_WF : WF patch_heap F'.
  Proof.
    pose proof patch_ids_nodup as ND'. pose proof patch_r_kept as HrPR.
    assert (Hid' : forall k, k ∈ ids F' -> k ∉ PR).
    { intros k Hk. apply patch_kept_owned. by apply ids_subseteq_owned. }
    assert (Hr' : r ∈ roots F') by (unfold overwrite_root; cbn; by left).
    assert (Hrflat' : (r, dx', ks) ∈ flat F') by (rewrite patch_flat'; by left).
    constructor.
    - exact ND'.
    - apply map_eq. intros k. unfold patch_heap, put_struct. cbn [h_lnk].
      destruct (decide (k = r)) as [->|Hkr].
      { rewrite lookup_insert. symmetry. by apply heap_lnk_of_lookup_root. }
      rewrite lookup_insert_ne by done.
      destruct (decide (k ∈ PR)) as [Hin|Hnin].
      { rewrite free_all_lnk_lookup_in by done. symmetry. apply heap_lnk_of_lookup_None. intros Hk. by apply (Hid' k Hk). }
      rewrite free_all_lnk_lookup by done. rewrite (wf_lnk _ _ W).
      destruct (decide (k ∈ ids F)) as [HkF|HkF].
      + destruct (patch_ids_cases k HkF) as [->|[Hk|[->|[Hk|Hk]]]]; [done| | | |].
        * exfalso. apply Hnin. apply patch_ids_released. by left.
        * exfalso. apply Hnin. apply patch_ids_released. by right.
        * destruct (patch_child_entry k Hk) as (cn & j & Hj & (p1 & d1 & H1) & (p2 & d2 & H2)).
          rewrite (heap_lnk_of_lookup_child F p1 d1 cn j k ND H1 Hj).
          by rewrite (heap_lnk_of_lookup_child F' p2 d2 cn j k ND' H2 Hj).
        * apply (patch_outside_lookup k Hk).
      + rewrite (heap_lnk_of_lookup_None F k HkF). symmetry. apply heap_lnk_of_lookup_None.
        intros Hk. apply HkF. rewrite patch_ids. apply elem_of_app. by right.
    - apply map_eq. intros k. unfold patch_heap, put_struct. cbn [h_dat].
      destruct (decide (k = r)) as [->|Hkr].
      { rewrite lookup_insert. symmetry. by apply heap_dat_of_lookup. }
      rewrite lookup_insert_ne by done.
      destruct (decide (k ∈ PR)) as [Hin|Hnin].
      { rewrite free_all_dat_lookup_in by done. symmetry. apply heap_dat_of_lookup_None. intros Hk. by apply (Hid' k Hk). }
      rewrite free_all_dat_lookup by done. rewrite (wf_dat _ _ W).
      destruct (decide (k ∈ ids F)) as [HkF|HkF].
      + destruct (patch_ids_cases k HkF) as [->|[Hk|[->|[Hk|Hk]]]]; [done| | | |].
        * exfalso. apply Hnin. apply patch_ids_released. by left.
        * exfalso. apply Hnin. apply patch_ids_released. by right.
        * rewrite ids_flat in Hk. apply elem_of_list_fmap in Hk as ([[k' d1] c1] & -> & Hn). cbn [fn_id fst].
          rewrite (heap_dat_of_lookup F k' d1 c1 ND).
          2:{ rewrite patch_flat. apply elem_of_app. right. apply elem_of_app. left. by right. }
          rewrite (heap_dat_of_lookup F' k' d1 c1 ND'); [done|].
          rewrite patch_flat'. right. apply elem_of_app. by left.
        * apply (patch_outside_lookup k Hk).
      + rewrite (heap_dat_of_lookup_None F k HkF). symmetry. apply heap_dat_of_lookup_None.
        intros Hk. apply HkF. rewrite patch_ids. apply elem_of_app. by right.
    - pose proof patch_owned_nodup as H. by apply NoDup_app in H as (_ & _ & ?).
    - intros b Hb. destruct (patch_kept_owned b Hb) as [H1 H2]. unfold patch_heap. cbn.
      apply free_all_live. split; [by apply (wf_owned_live _ _ W)|done].
    - intros b Hb. destruct (patch_kept_owned b Hb) as [H1 H2]. unfold patch_heap. cbn.
      rewrite free_all_own. by apply (wf_owned_lib _ _ W).
    - intros b Hb. destruct (patch_kept_owned b Hb) as [H1 H2]. unfold patch_heap. cbn.
      rewrite free_all_next. by apply (wf_fresh _ _ W).
    - pose proof (wf_ref _ _ W) as H. rewrite patch_flat in H. rewrite patch_flat'.
      apply Forall_app in H as [_ H]. apply Forall_app in H as [Hx' H0]. apply Forall_cons in Hx' as [[Ha Hb] Hcx].
      apply Forall_cons. split; [split; cbn [fn_data fn_cids fst snd] in *; [rewrite is_ref_unnamed; exact Ha|rewrite is_ref_unnamed; exact Hb]|]. apply Forall_app. by split.
  Qed.

  (** ** the ledger: exactly the released blocks leave it *)
  Theorem patch_root_overwrite_ledger :
    owned F ≡ₚ PR ++ owned F' /\
    lib_live patch_heap = lib_live h ∖ list_to_set PR /\
    (NoLeak h F -> NoLeak patch_heap F') /\
    (forall b, b ∈ PR -> b ∈ lib_live h) /\
    h_own patch_heap = h_own h /\ h_next patch_heap = h_next h /\ h_req patch_heap = h_req h /\
    h_hooks patch_heap = h_hooks h /\
    (forall b, h_str patch_heap !! b = if decide (b ∈ PR) then None else h_str h !! b).
  Proof.
    assert (HL : lib_live patch_heap = lib_live h ∖ list_to_set PR).
    { apply set_eq. intros b. unfold lib_live, patch_heap. cbn [h_live h_own put_struct].
      rewrite elem_of_difference, !elem_of_filter, free_all_live, free_all_own, elem_of_list_to_set. tauto. }
    split; [exact patch_owned|]. split; [exact HL|]. split_and!.
    - intros NL b Hb. rewrite HL in Hb. apply elem_of_difference in Hb as [Hb1 Hb2].
      rewrite elem_of_list_to_set in Hb2. pose proof (NL b Hb1) as Hb3. rewrite patch_owned in Hb3.
      by apply elem_of_app in Hb3 as [Hb3|Hb3].
    - intros b Hb. apply patch_released_owned in Hb. apply elem_of_filter. split; [by apply (wf_owned_lib _ _ W)|by apply (wf_owned_live _ _ W)].
    - unfold patch_heap. cbn. apply free_all_own.
    - unfold patch_heap. cbn. apply free_all_next.
    - unfold patch_heap. cbn. apply ov_free_all_req.
    - unfold patch_heap. cbn. apply ov_free_all_hooks.
    - intros b. unfold patch_heap. cbn [h_str put_struct]. destruct (decide (b ∈ PR)) as [Hb|Hb].
      + by apply free_all_str_lookup_in.
      + by apply free_all_str_lookup.
  Qed.

  (** ** the value: the new root, reified, is the replacement without its key *)
  Theorem patch_root_overwrite_value :
    (forall b, b ∈ opt_list (rd_vstr dx) ++ (csx ≫= str_blocks) -> b ∉ PR) ->
    find_root r F' = Some (T r dx' csx) /\
    reify (h_str patch_heap) (T r dx' csx) = PatchDefs.unnamed (reify (h_str h) (T x dx csx)).
  Proof.
    intros Hna. split.
    - unfold overwrite_root, find_root. cbn [List.find tid]. by rewrite bool_decide_eq_true_2.
    - transitivity (reify (h_str h) (T r dx' csx)).
      2:{ rewrite !reify_unfold. unfold PatchDefs.unnamed. cbn [PatchDefs.set_key PatchDefs.set_ty Tree.n_ty rd_unnamed rd_type rd_vstr rd_vint rd_vdbl rd_key cstr_of].
          by rewrite Z.ldiff_land. }
      apply reify_frame. intros b Hb. unfold patch_heap. cbn [h_str put_struct]. apply free_all_str_lookup.
      apply Hna. cbn [str_blocks rd_vstr rd_key rd_unnamed opt_list app] in Hb. exact Hb.
  Qed.

  (** the no-aliasing hypothesis holds when the replacement owns its strings (every tree the parser,
      cJSON_Duplicate of such a tree, and the utilities build) *)
  Theorem patch_no_aliasing_of_owned :
    is_ref dx = false -> Forall owns_strings csx ->
    forall b, b ∈ opt_list (rd_vstr dx) ++ (csx ≫= str_blocks) -> b ∉ PR.
  Proof.
    intros Hrx' Hoc b Hb. apply patch_kept_owned. unfold owned. rewrite patch_flat', owned_fl_cons, owned_fl_app.
    apply elem_of_app in Hb as [Hb|Hb].
    - apply elem_of_app. left. right. cbn [fn_data fst snd]. rewrite owned_strs_unnamed, Hrx'. apply elem_of_app. by left.
    - apply elem_of_app. right. apply elem_of_app. left.
      apply elem_of_list_bind in Hb as (c & Hbc & Hc). rewrite Forall_forall in Hoc.
      pose proof (str_blocks_owned c (Hoc c Hc) b Hbc) as Hin. apply elem_of_owned_fl in Hin as (e & He & Hbe).
      apply elem_of_owned_fl. exists e. split; [|done].
      unfold flat, nodes. apply elem_of_list_fmap in He as (m & -> & Hm). apply elem_of_list_fmap. exists m. split; [done|].
      apply elem_of_list_bind. by exists c.
  Qed.
End Patch.

(** ** all of it, in one statement *)
Theorem patch_root_overwrite_sim h F r x dr dx csr csx :
  WF h F -> find_root r F = Some (T r dr csr) -> find_root x F = Some (T x dx csx) -> r <> x ->
  is_ref dr = false -> key_owned dr ->
  let F' := overwrite_root r x dx csx F in
  let bs := patch_released dr csr x dx in
  let h' := patch_heap h r x dr dx csr csx in
  patch_root_overwrite (Some r) (Some x) h = Ret (tt, h') /\
  WF h' F' /\
  owned F ≡ₚ bs ++ owned F' /\ lib_live h' = lib_live h ∖ list_to_set bs /\ (NoLeak h F -> NoLeak h' F') /\
  find_root r F' = Some (T r (rd_unnamed dx) csx) /\
  ((forall b, b ∈ opt_list (rd_vstr dx) ++ (csx ≫= str_blocks) -> b ∉ bs) ->
   reify (h_str h') (T r (rd_unnamed dx) csx) = PatchDefs.unnamed (reify (h_str h) (T x dx csx))).
Proof.
  intros W Hr Hx Hrx Hnr Hko F' bs h'.
  destruct (patch_root_overwrite_ledger h F r x dr dx csr csx W Hr Hx Hrx Hnr Hko) as (L1 & L2 & L3 & _).
  split; [exact (patch_root_overwrite_run h F r x dr dx csr csx W Hr Hx Hrx Hnr Hko)|].
  split; [exact (patch_root_overwrite_WF h F r x dr dx csr csx W Hr Hx Hrx Hnr Hko)|].
  split; [exact L1|]. split; [exact L2|]. split; [exact L3|].
  split.
  - unfold F', overwrite_root, find_root. cbn [List.find tid]. by rewrite bool_decide_eq_true_2.
  - intros Hna. exact (proj2 (patch_root_overwrite_value h F r x dr dx csr csx Hna)).
Qed.

(** * 3. where the value-level model PatchDefs.apply_patch computes the same thing *)

(** root case of copy / move: [finish_add] with the empty path *)
Lemma finish_add_root object value cs :
  PatchDefs.finish_add object value [] cs = Ok (0, PatchDefs.unnamed value).
Proof. reflexivity. Qed.

(** root case of add / replace: path "" and a "value" member whose duplicate is [d] *)
Lemma apply_patch_root_add_replace object patch (cs : bool) i pathn op j v d :
  CompareDefs.get_object_item patch (Some PatchDefs.s_path) cs = Some (i, pathn) ->
  Tree.is_string pathn = true -> Tree.n_vstr pathn = Some [] ->
  PatchDefs.decode_patch_operation patch cs = Ok op -> op = PatchDefs.ADD \/ op = PatchDefs.REPLACE ->
  CompareDefs.get_object_item patch (Some PatchDefs.s_value) cs = Some (j, v) ->
  PatchDefs.cJSON_Duplicate v = Some d ->
  PatchDefs.apply_patch object patch cs = Ok (0, PatchDefs.unnamed d, patch).
Proof.
  intros H1 H2 H3 H4 H5 H6 H7. unfold PatchDefs.apply_patch. rewrite H1, H2. cbn [negb]. rewrite H4. cbn [bind].
  rewrite H3, H6. destruct H5 as [-> | ->]; cbn [PatchDefs.is_nil andb orb]; by rewrite H7.
Qed.
(** root case of remove *)
Lemma apply_patch_root_remove object patch (cs : bool) i pathn :
  CompareDefs.get_object_item patch (Some PatchDefs.s_path) cs = Some (i, pathn) ->
  Tree.is_string pathn = true -> Tree.n_vstr pathn = Some [] ->
  PatchDefs.decode_patch_operation patch cs = Ok PatchDefs.REMOVE ->
  PatchDefs.apply_patch object patch cs = Ok (0, PatchDefs.invalid_node, patch).
Proof.
  intros H1 H2 H3 H4. unfold PatchDefs.apply_patch. rewrite H1, H2. cbn [negb]. rewrite H4. cbn [bind].
  by rewrite H3.
Qed.

(** * 4. root case of remove: [overwrite_item(object, invalid)] *)
Section Remove.
  Context (h : heap) (F : forest) (r : positive) (dr : rdata) (csr : list tree).
  Hypothesis W : WF h F.
  Hypothesis Hr : find_root r F = Some (T r dr csr).
  Hypothesis Hnr : is_ref dr = false.
  Hypothesis Hko : key_owned dr.
  Notation OV := (ov_released dr csr).
  Notation G := (remove_root r F).
  Notation F' := (invalidate_root r F).
  Let ND : NoDup (ids F) := wf_nodup _ _ W.

  Definition remove_heap : heap := put_struct r (None, None) (mk_dat rd_invalid []) (free_all OV h).

  Theorem patch_root_remove_run : patch_root_remove (Some r) h = Ret (tt, remove_heap).
  Proof. unfold patch_root_remove, invalid_struct. exact (overwrite_item_run h F r dr csr W Hr Hnr Hko _ _). Qed.

  Lemma remove_perm : F ≡ₚ T r dr csr :: G.
  Proof.
    destruct (find_root_split _ _ _ (NoDup_roots _ ND) Hr) as (F1 & F2 & HF & HF0).
    rewrite HF0. rewrite HF at 1. by rewrite <- Permutation_middle.
  Qed.
  Lemma remove_owned : owned F ≡ₚ OV ++ owned F'.
  Proof.
    pose proof remove_perm as HP. unfold invalidate_root. set (G0 := G) in *.
    unfold owned at 1. rewrite HP, flat_cons, owned_fl_app, (root_owned_perm r dr csr Hnr Hko).
    unfold owned. rewrite flat_cons, owned_fl_app, flat_t_unfold, owned_fl_cons. cbn [flat_nil].
    change (owned_fn (r, rd_invalid, tid <$> [])) with [r]. rewrite flat_nil. cbn [owned_fl mbind list_bind app].
    apply Permutation_middle.
  Qed.
  Lemma remove_kept b : b ∈ owned F' -> b ∈ owned F /\ b ∉ OV.
  Proof.
    intros Hb. split; [rewrite remove_owned; apply elem_of_app; by right|].
    pose proof (wf_owned_nodup _ _ W) as H. rewrite remove_owned in H. apply NoDup_app in H as (_ & H & _).
    intros Hin. by apply (H b Hin).
  Qed.
  Lemma remove_ids : ids F ≡ₚ ids csr ++ ids F'.
  Proof.
    pose proof remove_perm as HP. unfold invalidate_root. set (G0 := G) in *.
    rewrite HP, !ids_cons, !ids_t_unfold. cbn [ids nodes mbind list_bind fmap list_fmap app].
    apply Permutation_middle.
  Qed.
  Lemma remove_ids_nodup : NoDup (ids F').
  Proof. pose proof ND as H. rewrite remove_ids in H. by apply NoDup_app in H as (_ & _ & ?). Qed.

  Lemma remove_outside_lookup k : k ∈ ids G ->
    heap_lnk_of F !! k = heap_lnk_of F' !! k /\ heap_dat_of F !! k = heap_dat_of F' !! k.
  Proof.
    intros Hk. pose proof remove_perm as HP. pose proof remove_ids_nodup as ND'. unfold invalidate_root in *.
    set (G0 := G) in *.
    assert (H1 : k ∉ ids_t (T r dr csr)).
    { pose proof ND as H. rewrite HP, ids_cons in H. apply NoDup_app in H as (_ & H & _). intros Hin. by apply (H k Hin). }
    assert (H3 : k ∉ ids_t (T r rd_invalid [])).
    { pose proof ND' as H. rewrite ids_cons in H. apply NoDup_app in H as (_ & H & _). intros Hin. by apply (H k Hin). }
    split.
    - rewrite (heap_lnk_of_remove_root_lookup F _ _ k ND HP H1).
      by rewrite (heap_lnk_of_remove_root_lookup _ _ G0 k ND' (reflexivity _) H3).
    - rewrite (heap_dat_of_remove_root_lookup F _ _ k ND HP H1).
      by rewrite (heap_dat_of_remove_root_lookup _ _ G0 k ND' (reflexivity _) H3).
  Qed.

  Theorem patch_root_remove_WF : WF remove_heap F'.
  Proof.
    pose proof remove_ids_nodup as ND'.
    assert (Hid' : forall k, k ∈ ids F' -> k ∉ OV).
    { intros k Hk. apply remove_kept. by apply ids_subseteq_owned. }
    assert (HrOV : r ∉ OV) by (apply Hid'; unfold invalidate_root; rewrite ids_cons, ids_t_unfold; by left).
    assert (Hcases : forall k, k ∈ ids F -> k <> r -> k ∉ OV -> k ∈ ids G).
    { intros k Hk Hkr Hnin. pose proof remove_perm as HP. set (G0 := G) in *. rewrite HP, ids_cons, ids_t_unfold in Hk.
      apply elem_of_app in Hk as [Hk|Hk]; [|done]. apply elem_of_cons in Hk as [->|Hk]; [done|].
      exfalso. apply Hnin. unfold ov_released. apply elem_of_app. right. apply elem_of_app. right.
      rewrite free_order_owned. by apply (ids_subseteq_owned csr). }
    assert (Hr' : r ∈ roots F') by (unfold invalidate_root; cbn; by left).
    assert (Hrflat' : (r, rd_invalid, []) ∈ flat F') by (unfold invalidate_root; rewrite flat_cons, flat_t_unfold; by left).
    constructor.
    - exact ND'.
    - apply map_eq. intros k. unfold remove_heap, put_struct. cbn [h_lnk].
      destruct (decide (k = r)) as [->|Hkr].
      { rewrite lookup_insert. symmetry. by apply heap_lnk_of_lookup_root. }
      rewrite lookup_insert_ne by done.
      destruct (decide (k ∈ OV)) as [Hin|Hnin].
      { rewrite free_all_lnk_lookup_in by done. symmetry. apply heap_lnk_of_lookup_None. intros Hk. by apply (Hid' k Hk). }
      rewrite free_all_lnk_lookup by done. rewrite (wf_lnk _ _ W).
      destruct (decide (k ∈ ids F)) as [HkF|HkF].
      + apply (remove_outside_lookup k (Hcases k HkF Hkr Hnin)).
      + rewrite (heap_lnk_of_lookup_None F k HkF). symmetry. apply heap_lnk_of_lookup_None.
        intros Hk. apply HkF. rewrite remove_ids. apply elem_of_app. by right.
    - apply map_eq. intros k. unfold remove_heap, put_struct. cbn [h_dat].
      destruct (decide (k = r)) as [->|Hkr].
      { rewrite lookup_insert. symmetry. by apply (heap_dat_of_lookup F' r rd_invalid []). }
      rewrite lookup_insert_ne by done.
      destruct (decide (k ∈ OV)) as [Hin|Hnin].
      { rewrite free_all_dat_lookup_in by done. symmetry. apply heap_dat_of_lookup_None. intros Hk. by apply (Hid' k Hk). }
      rewrite free_all_dat_lookup by done. rewrite (wf_dat _ _ W).
      destruct (decide (k ∈ ids F)) as [HkF|HkF].
      + apply (remove_outside_lookup k (Hcases k HkF Hkr Hnin)).
      + rewrite (heap_dat_of_lookup_None F k HkF). symmetry. apply heap_dat_of_lookup_None.
        intros Hk. apply HkF. rewrite remove_ids. apply elem_of_app. by right.
    - pose proof (wf_owned_nodup _ _ W) as H. rewrite remove_owned in H. by apply NoDup_app in H as (_ & _ & ?).
    - intros b Hb. destruct (remove_kept b Hb) as [H1 H2]. unfold remove_heap. cbn.
      apply free_all_live. split; [by apply (wf_owned_live _ _ W)|done].
    - intros b Hb. destruct (remove_kept b Hb) as [H1 H2]. unfold remove_heap. cbn.
      rewrite free_all_own. by apply (wf_owned_lib _ _ W).
    - intros b Hb. destruct (remove_kept b Hb) as [H1 H2]. unfold remove_heap. cbn.
      rewrite free_all_next. by apply (wf_fresh _ _ W).
    - pose proof (wf_ref _ _ W) as H. pose proof remove_perm as HP. unfold invalidate_root. set (G0 := G) in *.
      rewrite HP, flat_cons in H. apply Forall_app in H as [_ H]. rewrite flat_cons, flat_t_unfold.
      apply Forall_cons. split; [by split|]. by rewrite flat_nil.
  Qed.

  Theorem patch_root_remove_sim :
    patch_root_remove (Some r) h = Ret (tt, remove_heap) /\ WF remove_heap F' /\
    owned F ≡ₚ OV ++ owned F' /\ lib_live remove_heap = lib_live h ∖ list_to_set OV /\
    (NoLeak h F -> NoLeak remove_heap F') /\
    find_root r F' = Some (T r rd_invalid []) /\
    forall St, reify St (T r rd_invalid []) = PatchDefs.invalid_node.
  Proof.
    assert (HL : lib_live remove_heap = lib_live h ∖ list_to_set OV).
    { apply set_eq. intros b. unfold lib_live, remove_heap. cbn [h_live h_own put_struct].
      rewrite elem_of_difference, !elem_of_filter, free_all_live, free_all_own, elem_of_list_to_set. tauto. }
    split; [exact patch_root_remove_run|]. split; [exact patch_root_remove_WF|]. split; [exact remove_owned|].
    split; [exact HL|]. split_and!.
    - intros NL b Hb. rewrite HL in Hb. apply elem_of_difference in Hb as [Hb1 Hb2].
      rewrite elem_of_list_to_set in Hb2. pose proof (NL b Hb1) as Hb3. rewrite remove_owned in Hb3.
      by apply elem_of_app in Hb3 as [Hb3|Hb3].
    - unfold invalidate_root, find_root. cbn [List.find tid]. by rewrite bool_decide_eq_true_2.
    - reflexivity.
  Qed.
End Remove.

(** * 5. a replacement with a CONSTANT key (the repaired code): the borrowed block is neither released nor
      touched, and the new root carries neither the key nor the flag *)
Theorem patch_const_replacement_ok h F r x dr dx csr csx k :
  WF h F -> find_root r F = Some (T r dr csr) -> find_root x F = Some (T x dx csx) -> r <> x ->
  is_ref dr = false -> key_owned dr ->
  is_const dx = true -> rd_key dx = Some k -> k ∉ owned F ->
  let h' := patch_heap h r x dr dx csr csx in
  patch_root_overwrite (Some r) (Some x) h = Ret (tt, h') /\
  WF h' (overwrite_root r x dx csx F) /\
  patch_released dr csr x dx = ov_released dr csr ++ [x] /\ k ∉ patch_released dr csr x dx /\
  (k ∈ h_live h' <-> k ∈ h_live h) /\ h_str h' !! k = h_str h !! k /\ h_own h' !! k = h_own h !! k /\
  rd_key (rd_unnamed dx) = None /\ is_const (rd_unnamed dx) = false.
Proof.
  intros W Hr Hx Hrx Hnr Hko Hc Hk Hnot h'.
  destruct (patch_root_overwrite_ledger h F r x dr dx csr csx W Hr Hx Hrx Hnr Hko) as (_ & _ & _ & _ & L5 & _ & _ & _ & L9).
  assert (HkPR : k ∉ patch_released dr csr x dx).
  { intros Hin. apply Hnot. by apply (patch_released_owned h F r x dr dx csr csx W Hr Hx Hrx Hnr Hko). }
  split; [exact (patch_root_overwrite_run h F r x dr dx csr csx W Hr Hx Hrx Hnr Hko)|].
  split; [exact (patch_root_overwrite_WF h F r x dr dx csr csx W Hr Hx Hrx Hnr Hko)|].
  split; [unfold patch_released, old_key; by rewrite Hc|]. split; [exact HkPR|]. split_and!.
  - unfold h', patch_heap. cbn [h_live put_struct]. rewrite free_all_live. tauto.
  - unfold h'. rewrite L9. by rewrite decide_False.
  - unfold h'. by rewrite L5.
  - reflexivity.
  - apply is_const_unnamed.
Qed.
