"""C06 — any sequence of tree edits behaves like the obvious list/map model."""
import random
from .common import Case, load_corpus, is_crash
from . import coregen

AREA = 'core'
MODEL_FILES = 'CoreDefs.v (the tree API on the heap of Heap.v), CoreOps.v (operation alphabet, interpreter, canonical dump)'
RULE = ('random histories of public edit/query calls (≤ 40 calls quick, ≤ 200 thorough) on pools of ≤ 8 live items; indices from {-1,0,1,size-1,size,size+1,size/2}; '
        'keys from an 11-key alphabet with case variants, duplicates and the empty key, passed as fresh caller strings, pooled strings or pointers to keys of existing items; '
        'ownership rules respected by construction (an item has one parent, a replacement is detached, referenced trees are not released or made cyclic), '
        'plus a stream of refused calls (NULL arguments, self-insertion, out-of-range indices, missing keys, detach through a wrong parent) and a directed family covering every '
        'position of every relinking call on containers of 1..4 children followed by an append, and one querying objects whose keys collide under case folding (all orders, all spellings, all by-key calls); after EVERY call the result and the full structural walk '
        '(fields, order, prev/next consistency) of every live root are compared; verdict = independent python list model; non-trivial = history of ≥ 5 calls')
ASSUMPTIONS = ['histories respect the documented ownership rules (generator constructs them so); refused calls are listed separately',
               'hand-written transliteration validated by this differential run', 'C locale (tolower)']

def corpus(ctx): return load_corpus(ctx['verif'], 'C06')

def generate(ctx):
    rng = random.Random(ctx['seed'] * 7919 + 6)
    quick = ctx['tier'] == 'quick'
    cases = coregen.directed_link_cases() + coregen.directed_key_cases() + coregen.setbool_cases()
    n = 400 if quick else 1500
    for i in range(n):
        prof = 'edit' if i % 4 else 'own'
        nops = 40 if quick else rng.choice([20, 40, 80, 200])
        cases.append(coregen.history_case(rng, prof, nops, 'DX'))
    return cases

def project(c, out): return coregen.results_only(out)

def verdict(c, out, ctx):
    hp = coregen.health_problem(out)
    if hp: return hp
    exp = coregen.expected(c.line)
    if exp is None: return None
    if coregen.results_only(out) != coregen.results_only(exp):
        return coregen.diff_report(c.line, out, exp, coregen.results_only) or 'output differs from the list model'
    return None

def nontrivial(c, out):
    return not is_crash(out) and c.line.count(';') >= 4
