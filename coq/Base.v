(** Base.v — bytes, outcomes, checked memory access.  No proofs about cJSON here. *)
From Coq Require Export List ZArith Lia Bool Arith.
Export ListNotations.
Local Open Scope Z_scope.

Definition byte := Z.
Definition bytes := list Z.

(** Outcomes of transliterated code.  Everything except [Ok] is a violation of a
    safety property: [OOB] = access outside the object, [OutOfFuel] = the loop bound
    supplied by the entry point was not enough (non-termination of the model). *)
Inductive res (A : Type) : Type :=
| Ok (a : A)
| OOB
| OutOfFuel.
Arguments Ok {A} a.
Arguments OOB {A}.
Arguments OutOfFuel {A}.

Definition bind {A B} (m : res A) (f : A -> res B) : res B :=
  match m with Ok a => f a | OOB => OOB | OutOfFuel => OutOfFuel end.
Notation "x <- m ;; f" := (bind m (fun x => f)) (at level 62, m at next level, right associativity).
Notation "' pat <- m ;; f" := (bind m (fun x => match x with pat => f end))
  (at level 62, pat pattern, m at next level, right associativity).

(** checked read / write on a memory object represented as a list *)
Definition rd (b : bytes) (i : nat) : res Z :=
  match nth_error b i with Some c => Ok c | None => OOB end.

Definition upd (b : bytes) (i : nat) (v : Z) : bytes := firstn i b ++ v :: skipn (S i) b.

Definition wr (b : bytes) (i : nat) (v : Z) : res bytes :=
  if (i <? length b)%nat then Ok (upd b i v) else OOB.

(** C string stored in a memory object: bytes before the first zero *)
Fixpoint cstr (b : bytes) : bytes :=
  match b with
  | [] => []
  | c :: r => if c =? 0 then [] else c :: cstr r
  end.

Definition is_byte (c : Z) : bool := (0 <=? c) && (c <? 256).
Definition nonzero_bytes (s : bytes) : Prop := Forall (fun c => 0 < c < 256) s.

(** ASCII *)
Definition tolower (c : Z) : Z := if (65 <=? c) && (c <=? 90) then c + 32 else c.

Fixpoint bytes_eqb (a b : bytes) : bool :=
  match a, b with
  | [], [] => true
  | x :: a', y :: b' => (x =? y) && bytes_eqb a' b'
  | _, _ => false
  end.

Lemma bytes_eqb_eq a b : bytes_eqb a b = true <-> a = b.
Proof.
  revert b; induction a as [|x a IH]; intros [|y b]; simpl; split; intro H;
    try discriminate; try reflexivity.
  - apply andb_true_iff in H as [H1 H2]. apply Z.eqb_eq in H1. apply IH in H2. congruence.
  - inversion H; subst. rewrite Z.eqb_refl. simpl. apply IH. reflexivity.
Qed.

Lemma bytes_eqb_refl a : bytes_eqb a a = true.
Proof. apply bytes_eqb_eq. reflexivity. Qed.

(** strcmp on C strings given as byte lists without terminator: sign of the result *)
Fixpoint strcmp (a b : bytes) : Z :=
  match a, b with
  | [], [] => 0
  | [], y :: _ => 0 - y
  | x :: _, [] => x
  | x :: a', y :: b' => if x =? y then strcmp a' b' else x - y
  end.

(** the case-insensitive loops of cJSON.c / cJSON_Utils.c (identical code) *)
Fixpoint strcasecmp_c (a b : bytes) : Z :=
  match a, b with
  | [], [] => 0
  | [], y :: _ => 0 - tolower y
  | x :: _, [] => tolower x
  | x :: a', y :: b' => if tolower x =? tolower y then strcasecmp_c a' b' else tolower x - tolower y
  end.
