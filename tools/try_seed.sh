#!/bin/sh
# try_seed.sh <seed-dir-name> <property-id> [tier] — runs the FULL check (proof step + correspondence) against a scratch
# copy of /repo's sources with the seeded change applied.  Nothing shared is touched: /repo is not modified, and the Coq
# development, the extracted models and the OCaml drivers are used from scratch COPIES (the generated facts differ for a
# seeded source), evidence goes to the scratch directory too.
d=/verif/seeded/$1
s=$(mktemp -d /tmp/cjseedfull_XXXXXX)
mkdir $s/src && cp /repo/cJSON.c /repo/cJSON.h /repo/cJSON_Utils.c /repo/cJSON_Utils.h $s/src/
(cd $s/src && git apply --include='cJSON*' $d/patch.diff) || { echo "patch does not apply"; rm -rf $s; exit 2; }
cp -a /verif/coq $s/coq; cp -a /verif/ocaml $s/ocaml
cd /verif && VERIF_REPO=$s/src VERIF_COQ_DIR=$s/coq VERIF_OCAML_DIR=$s/ocaml VERIF_EVIDENCE_DIR=$s/evidence VERIF_REPLAY_DIR=$s/replays python3 tools/check.py $2 --tier ${3:-quick}; rc=$?
rm -rf $s
echo "seed=$1 property=$2 exit=$rc"
