(** PrintHeapDefs.v — the READING side of the printer of cJSON.c on the heap model.

    PrintDefs.v transliterates print_value / print_array / print_object / print / cJSON_Print* with the
    item given as an immutable VALUE ([Tree.node], children as a list).  The C functions walk a linked
    structure in memory: [item->type], [->valuestring], [->valuedouble], [->valueint], [->string],
    [->child], [->next].  This file transliterates exactly that walk on [Heap.heap]:

    * every place where the C code dereferences the item is a checked heap load ([get_type], [get_vstr],
      [get_vdbl], [get_vint], [get_key], [get_child], [get_next]; strings are read as C strings with
      [ld_cstr]: NULL pointer, dead block, wrong block kind and a missing terminator are error outcomes);
    * the control flow is that of the C functions: the NULL test on [item], the switch on
      [item->type & 0xFF], [while (current_element != NULL) { … current_element = current_element->next; }],
      the NULL valuestring of a raw node -> [false], the nesting is whatever the links say.  The recursion
      runs on [dfuel] (the C recursion print_value -> print_array/print_object -> print_value is unbounded:
      there is no nesting limit in the printer), every sibling loop on [lfuel]; an exhausted bound is
      [Err NoFuel];
    * the OUTPUT goes through the buffer-level primitives of PrintDefs.v, unchanged: [printbuffer],
      [ensure], [put], [update_offset], [print_number], [print_string_ptr], [print_literal], [allocate],
      [reallocate], [deallocate], [memcpy0], [wrz] and the result records.  The print buffer therefore
      lives in PrintDefs' own state (a value threaded through the calls), NOT in a heap block; the
      allocator of the print buffer is PrintDefs' ([oracle], [pb_req], [pb_live]).  A buffer-level [OOB]
      is the heap outcome [Err OutOfBounds] ([lift]).
    * entry points [cJSON_Print_h], [cJSON_PrintUnformatted_h], [cJSON_PrintBuffered_h],
      [cJSON_PrintPreallocated_h] take the item POINTER and run in a heap; [hooks.reallocate != NULL] is
      read from the heap's [global_hooks] ([h_hooks]); the fuel is the heap's [heap_fuel] as for every
      other public entry point of CoreDefs.v ([print_h] / [*_fuel] take it as an argument).

    No proofs here. *)
From CJ Require Import Base Dbl Tree PrintDefs Heap CoreDefs.
From CJ.gen Require Import Constants.
Local Open Scope Z_scope.

(** a buffer-level outcome as an outcome of the heap monad: the heap is not touched *)
Definition lift {A} (r : res A) : M A := fun h =>
  match r with
  | Ok a => Ret (a, h)
  | OOB => Err OutOfBounds
  | OutOfFuel => Err NoFuel
  end.

(** global_hooks *)
Definition get_hooks : M hooks := fun h => Ret (h_hooks h, h).

(** a [const char *] argument read as a C string: NULL stays NULL *)
Definition ld_opt_cstr (s : ptr) : M (option bytes) :=
  if is_null s then ret None else c <~ ld_cstr s ;; ret (Some c).

Section PrinterH.
  (** the C library and the allocator of the print buffer: the parameters of PrintDefs.v *)
  Variable fmt_d : Z -> bytes.
  Variable fmt_g15 : dbl -> bytes.
  Variable fmt_g17 : dbl -> bytes.
  Variable sscanf_lg : bytes -> option dbl.
  Variable oracle : nat -> bool.
  Variable junk : nat -> Z.

  Notation ensure := (PrintDefs.ensure oracle junk).
  Notation allocate := (PrintDefs.allocate oracle junk).
  Notation reallocate := (PrintDefs.reallocate oracle junk).
  Notation print_number := (PrintDefs.print_number fmt_d fmt_g15 fmt_g17 sscanf_lg oracle junk).
  Notation print_string_ptr := (PrintDefs.print_string_ptr oracle junk).
  Notation print_literal := (PrintDefs.print_literal oracle junk).

  (** case cJSON_Raw of print_value after [item->valuestring] has been found non-NULL and read:
      strlen, ensure, memcpy — the code of PrintDefs.print_value, verbatim *)
  Definition print_raw (s0 : bytes) (p : printbuffer) : res (bool * printbuffer) :=
    let s := cstr s0 in
    let raw_length := zlen s + 1 in
    '(ok, p1) <- ensure p raw_length ;;
    if negb ok then Ok (false, p1)
    else p2 <- put p1 0 (s ++ [0]) ;; Ok (true, p2).

  Section LoopsH.
    Variable print_value_h : ptr -> printbuffer -> M (bool * printbuffer).

    (** the loop of print_array; [current_element] is the loop variable *)
    Fixpoint print_array_loop_h (lfuel : nat) (current_element : ptr) (p : printbuffer) {struct lfuel}
        : M (bool * printbuffer) :=
      match lfuel with
      | O => fail NoFuel
      | S lf =>
          if is_null current_element then ret (true, p) else          (* while (current_element != NULL) *)
          r1 <~ print_value_h current_element p ;;
          let '(ok, p1) := r1 in
          if negb ok then ret (false, p1) else
          p2 <~ lift (update_offset p1) ;;
          nx <~ get_next current_element ;;                           (* if (current_element->next) *)
          r2 <~ (if negb (is_null nx) then
                   let length := if pb_format p2 then 2 else 1 in
                   r3 <~ lift (ensure p2 (length + 1)) ;;
                   let '(ok, p3) := r3 in
                   if negb ok then ret (false, p3) else
                   p4 <~ lift (put p3 0 ([ch_comma] ++ (if pb_format p3 then [ch_space] else []) ++ [0])) ;;
                   ret (true, set_offset p4 (pb_offset p4 + length))
                 else ret (true, p2)) ;;
          let '(ok, p5) := r2 in
          if negb ok then ret (false, p5) else
          nx' <~ get_next current_element ;;                          (* current_element = current_element->next *)
          print_array_loop_h lf nx' p5
      end.

    (** print_array(item, output_buffer) *)
    Definition print_array_h (lfuel : nat) (item : ptr) (p : printbuffer) : M (bool * printbuffer) :=
      current_element <~ get_child item ;;                            (* cJSON *current_element = item->child *)
      r1 <~ lift (ensure p 1) ;;
      let '(ok, p1) := r1 in
      if negb ok then ret (false, p1) else
      p2 <~ lift (put p1 0 [ch_lbrack]) ;;
      let p3 := set_depth (set_offset p2 (pb_offset p2 + 1)) (pb_depth p2 + 1) in
      r4 <~ print_array_loop_h lfuel current_element p3 ;;
      let '(ok, p4) := r4 in
      if negb ok then ret (false, p4) else
      r5 <~ lift (ensure p4 2) ;;
      let '(ok, p5) := r5 in
      if negb ok then ret (false, p5) else
      p6 <~ lift (put p5 0 [ch_rbrack; 0]) ;;
      ret (true, set_depth p6 (pb_depth p6 - 1)).

    (** the loop of print_object; [current_item] is the loop variable *)
    Fixpoint print_object_loop_h (lfuel : nat) (current_item : ptr) (p : printbuffer) {struct lfuel}
        : M (bool * printbuffer) :=
      match lfuel with
      | O => fail NoFuel
      | S lf =>
          if is_null current_item then ret (true, p) else             (* while (current_item) *)
          (* indentation *)
          r0 <~ (if pb_format p then
                   r1 <~ lift (ensure p (pb_depth p)) ;;
                   let '(ok, p1) := r1 in
                   if negb ok then ret (false, p1) else
                   p2 <~ lift (put p1 0 (tabs (pb_depth p1))) ;;
                   ret (true, set_offset p2 (pb_offset p2 + pb_depth p2))
                 else ret (true, p)) ;;
          let '(ok, p3) := r0 in
          if negb ok then ret (false, p3) else
          (* key: print_string_ptr(current_item->string, output_buffer) *)
          k <~ get_key current_item ;;
          key <~ ld_opt_cstr k ;;
          r4 <~ lift (print_string_ptr key p3) ;;
          let '(ok, p4) := r4 in
          if negb ok then ret (false, p4) else
          p5 <~ lift (update_offset p4) ;;
          let length := if pb_format p5 then 2 else 1 in
          r6 <~ lift (ensure p5 length) ;;
          let '(ok, p6) := r6 in
          if negb ok then ret (false, p6) else
          p7 <~ lift (put p6 0 ([ch_colon] ++ (if pb_format p6 then [ch_tab] else []))) ;;
          let p8 := set_offset p7 (pb_offset p7 + length) in
          (* value *)
          r9 <~ print_value_h current_item p8 ;;
          let '(ok, p9) := r9 in
          if negb ok then ret (false, p9) else
          p10 <~ lift (update_offset p9) ;;
          nx1 <~ get_next current_item ;;                             (* (current_item->next ? 1 : 0) *)
          let has_next := negb (is_null nx1) in
          let length := (if pb_format p10 then 1 else 0) + (if has_next then 1 else 0) in
          r11 <~ lift (ensure p10 (length + 1)) ;;
          let '(ok, p11) := r11 in
          if negb ok then ret (false, p11) else
          nx2 <~ get_next current_item ;;                             (* if (current_item->next) *)
          p12 <~ lift (put p11 0 ((if negb (is_null nx2) then [ch_comma] else [])
                                  ++ (if pb_format p11 then [ch_nl] else []) ++ [0])) ;;
          nx3 <~ get_next current_item ;;                             (* current_item = current_item->next *)
          print_object_loop_h lf nx3 (set_offset p12 (pb_offset p12 + length))
      end.

    (** print_object(item, output_buffer) *)
    Definition print_object_h (lfuel : nat) (item : ptr) (p : printbuffer) : M (bool * printbuffer) :=
      current_item <~ get_child item ;;                               (* cJSON *current_item = item->child *)
      let length := if pb_format p then 2 else 1 in
      r1 <~ lift (ensure p (length + 1)) ;;
      let '(ok, p1) := r1 in
      if negb ok then ret (false, p1) else
      p2 <~ lift (put p1 0 ([ch_lbrace] ++ (if pb_format p1 then [ch_nl] else []))) ;;
      let p3 := set_offset (set_depth p2 (pb_depth p2 + 1)) (pb_offset p2 + length) in
      r4 <~ print_object_loop_h lfuel current_item p3 ;;
      let '(ok, p4) := r4 in
      if negb ok then ret (false, p4) else
      r5 <~ lift (ensure p4 (if pb_format p4 then pb_depth p4 + 1 else 2)) ;;
      let '(ok, p5) := r5 in
      if negb ok then ret (false, p5) else
      p6 <~ lift (put p5 0 ((if pb_format p5 then tabs (pb_depth p5 - 1) else []) ++ [ch_rbrace; 0])) ;;
      ret (true, set_depth p6 (pb_depth p6 - 1)).
  End LoopsH.

  (** print_value(item, output_buffer).  [dfuel] bounds the recursion depth, [lfuel] every sibling loop. *)
  Fixpoint print_value_h (dfuel lfuel : nat) (item : ptr) (p : printbuffer) {struct dfuel} : M (bool * printbuffer) :=
    match dfuel with
    | O => fail NoFuel
    | S df =>
        if is_null item then ret (false, p) else                      (* if ((item == NULL) || …) return false *)
        ty <~ get_type item ;;                                        (* switch ((item->type) & 0xFF) *)
        let t := tymask ty in
        if t =? c_cJSON_NULL then lift (print_literal p 5 lit_null)
        else if t =? c_cJSON_False then lift (print_literal p 6 lit_false)
        else if t =? c_cJSON_True then lift (print_literal p 5 lit_true)
        else if t =? c_cJSON_Number then
          (* print_number: double d = item->valuedouble; … d == (double)item->valueint *)
          d <~ get_vdbl item ;;
          vi <~ get_vint item ;;
          lift (print_number vi d p)
        else if t =? c_cJSON_Raw then
          vs <~ get_vstr item ;;                                      (* if (item->valuestring == NULL) return false *)
          if is_null vs then ret (false, p) else
          vs' <~ get_vstr item ;;                                     (* strlen(item->valuestring), memcpy(…, item->valuestring, …) *)
          s0 <~ ld_cstr vs' ;;
          lift (print_raw s0 p)
        else if t =? c_cJSON_String then
          (* print_string: print_string_ptr(item->valuestring, p) *)
          vs <~ get_vstr item ;;
          s <~ ld_opt_cstr vs ;;
          lift (print_string_ptr s p)
        else if t =? c_cJSON_Array then print_array_h (print_value_h df lfuel) lfuel item p
        else if t =? c_cJSON_Object then print_object_h (print_value_h df lfuel) lfuel item p
        else ret (false, p)
    end.

  (** ---------------------------------------------------------------- entry points *)

  (* print(item, format, &global_hooks) *)
  Definition print_h (dfuel lfuel : nat) (item : ptr) (format : bool) : M print_result :=
    hk <~ get_hooks ;;
    let have_realloc := hooks_realloc_available hk in
    let p0 := mkpb None 0 0 0 false format have_realloc 0 0 in
    let '(b, p1) := allocate p0 c_DEFAULT_BUFFER_SIZE in
    let p2 := set_length (set_buf p1 b) c_DEFAULT_BUFFER_SIZE in
    match b with
    | None => ret (result_of None p2)
    | Some _ =>
        r3 <~ print_value_h dfuel lfuel item p2 ;;
        let '(ok, p3) := r3 in
        if negb ok then ret (result_of None (deallocate p3 (pb_buf p3))) else
        p4 <~ lift (update_offset p3) ;;
        match pb_buf p4 with
        | None => fail OutOfBounds      (* not reachable: print_value succeeded *)
        | Some buf =>
            if have_realloc then
              let '(printed, p5) := reallocate p4 buf (pb_offset p4 + 1) in
              match printed with
              | None => ret (result_of None (deallocate p5 (Some buf)))
              | Some pr => ret (result_of (Some pr) p5)
              end
            else
              let '(printed, p5) := allocate p4 (pb_offset p4 + 1) in
              match printed with
              | None => ret (result_of None (deallocate p5 (Some buf)))
              | Some pr =>
                  pr1 <~ lift (memcpy0 pr buf (Z.min (pb_length p5) (pb_offset p5 + 1))) ;;
                  pr2 <~ lift (wrz pr1 (pb_offset p5) 0) ;;
                  ret (result_of (Some pr2) (deallocate p5 (Some buf)))
              end
        end
    end.

  Definition cJSON_PrintBuffered_fuel (dfuel lfuel : nat) (item : ptr) (prebuffer : Z) (fmt : bool) : M print_result :=
    if prebuffer <? 0 then ret (mkprr None 0 0) else                  (* return NULL: nothing allocated *)
    hk <~ get_hooks ;;                                                (* global_hooks.allocate, p.hooks = global_hooks *)
    let have_realloc := hooks_realloc_available hk in
    let p0 := mkpb None 0 0 0 false fmt have_realloc 0 0 in
    let '(b, p1) := allocate p0 prebuffer in
    match b with
    | None => ret (result_of None p1)
    | Some _ =>
        let p2 := set_length (set_buf p1 b) prebuffer in
        r3 <~ print_value_h dfuel lfuel item p2 ;;
        let '(ok, p3) := r3 in
        if negb ok then ret (result_of None (deallocate p3 (pb_buf p3)))
        else ret (result_of (pb_buf p3) p3)
    end.

  (** [buffer] is the caller's memory (exactly as long as the list), as in PrintDefs.v *)
  Definition cJSON_PrintPreallocated_fuel (dfuel lfuel : nat) (item : ptr) (buffer : option bytes) (length : Z)
             (format : bool) : M prealloc_result :=
    match buffer with
    | None => ret (mkpar false None 0 0)
    | Some _ =>
        if length <? 0 then ret (mkpar false buffer 0 0) else
        hk <~ get_hooks ;;                                            (* p.hooks = global_hooks *)
        let have_realloc := hooks_realloc_available hk in
        let p := mkpb buffer length 0 0 true format have_realloc 0 0 in
        r1 <~ print_value_h dfuel lfuel item p ;;
        let '(ok, p1) := r1 in
        ret (mkpar ok (pb_buf p1) (pb_live p1) (pb_req p1))
    end.

  (** the public functions: fuel from the heap they are called in *)
  Definition cJSON_Print_h (item : ptr) : M print_result :=
    fuel <~ heap_fuel ;; print_h fuel fuel item true.
  Definition cJSON_PrintUnformatted_h (item : ptr) : M print_result :=
    fuel <~ heap_fuel ;; print_h fuel fuel item false.
  Definition cJSON_PrintBuffered_h (item : ptr) (prebuffer : Z) (fmt : bool) : M print_result :=
    fuel <~ heap_fuel ;; cJSON_PrintBuffered_fuel fuel fuel item prebuffer fmt.
  Definition cJSON_PrintPreallocated_h (item : ptr) (buffer : option bytes) (length : Z) (format : bool)
      : M prealloc_result :=
    fuel <~ heap_fuel ;; cJSON_PrintPreallocated_fuel fuel fuel item buffer length format.
End PrinterH.
