(** LibcG15Int.v — clauses N5a and N5b of [RoundTripNum.LibcRoundTripSpec] PROVED for the
    reference implementations [LibcPrint.fmt_g15], [LibcPrint.fmt_d], [LibcNum.strtod_ref]:

      [g15_of_int]   "%1.15g" of (double) z prints exactly what "%d" prints, for every |z| < 10^15
                     (in particular for every C int: [ref_g15_int], clause N5a);
      [ref_d15]      strtod reads the "%d" text of |z| < 10^15 back, completely, as (double) z;
      [ref_g15_exact] clause N5b.

    An integer below 10^15 < 2^53 is a double without rounding ([RoundTripInt.norm_pos]); its
    decimal exponent X is below 15, so the 15-digit rounding is exact (D = z * 10^(14-X)), the %f
    style is chosen, the fraction digits are all '0' and are stripped together with the point.
    Integer arithmetic only: the theorems are closed under the global context. *)
From Coq Require Import ZArith List Bool Lia Floats.SpecFloat.
From CJ Require Import Base Dbl Tree LibcNum LibcPrint Grammar ParseDefs ParseComplete PrintDefs
  PrintStrict PrintStrictRef RoundTripNum RoundTripInt RoundTripRef LibcG15Scale.
Import ListNotations.
Local Open Scope Z_scope.

(** * digits *)
Lemma repeat_snoc {A} (a : A) n : repeat a (S n) = repeat a n ++ [a].
Proof. induction n as [|n IH]; [reflexivity|]. cbn [repeat app] in *. rewrite <- IH. reflexivity. Qed.

Lemma dec_fixed_mul a p : forall b, 0 <= p ->
  dec_fixed (a + b) (p * 10 ^ Z.of_nat b) = dec_fixed a p ++ repeat 48 b.
Proof.
  induction b as [|b IH]; intro Hp.
  - rewrite Nat.add_0_r. change (10 ^ Z.of_nat 0) with 1. rewrite Z.mul_1_r, app_nil_r. reflexivity.
  - rewrite Nat.add_succ_r. cbn [dec_fixed]. rewrite Nat2Z.inj_succ, Z.pow_succ_r by lia.
    replace (p * (10 * 10 ^ Z.of_nat b)) with (p * 10 ^ Z.of_nat b * 10) by ring.
    rewrite Z.div_mul by lia. rewrite Z.mod_mul by lia. rewrite (IH Hp).
    rewrite repeat_snoc, app_assoc. reflexivity.
Qed.

Lemma strip0_zeros n : strip0 (repeat 48 n) = [].
Proof. induction n as [|n IH]; [reflexivity|]. cbn [repeat strip0]. rewrite IH. reflexivity. Qed.

Lemma firstn_exact {A} (l r : list A) : firstn (length l) (l ++ r) = l.
Proof. rewrite firstn_app, Nat.sub_diag, firstn_all. cbn [firstn]. apply app_nil_r. Qed.

Lemma skipn_exact {A} (l r : list A) : skipn (length l) (l ++ r) = r.
Proof. rewrite skipn_app, Nat.sub_diag, skipn_all. reflexivity. Qed.

Lemma pow10_interval_unique p a b : 0 <= a -> 0 <= b ->
  10 ^ a <= p < 10 ^ (a + 1) -> 10 ^ b <= p < 10 ^ (b + 1) -> a = b.
Proof.
  intros Ha Hb H1 H2.
  destruct (Z.lt_trichotomy a b) as [H|[H|H]]; [exfalso|exact H|exfalso].
  - pose proof (Z.pow_le_mono_r 10 (a + 1) b ltac:(lia) ltac:(lia)). lia.
  - pose proof (Z.pow_le_mono_r 10 (b + 1) a ltac:(lia) ltac:(lia)). lia.
Qed.

Lemma big_2000 z : z < 10 ^ 15 -> z < 10 ^ Z.of_nat 2000.
Proof. intro H. eapply Z.lt_le_trans; [exact H|]. apply Z.leb_le. vm_compute. reflexivity. Qed.

(** the digits of a positive integer with decimal exponent X *)
Lemma dec_nat_exp p X : 0 <= X -> 10 ^ X <= p < 10 ^ (X + 1) -> p < 10 ^ 15 ->
  dec_nat p = dec_fixed (Z.to_nat (X + 1)) p.
Proof.
  intros HX Hp H15. unfold dec_nat.
  assert (P0 : 0 < 10 ^ X) by (apply Z.pow_pos_nonneg; lia).
  destruct (ndigits_spec 2000 p ltac:(lia) (big_2000 p H15)) as [Hk [Hlo Hhi]].
  set (k := ndigits 2000 p) in *.
  replace (k) with (k - 1 + 1) in Hhi by lia.
  rewrite (pow10_interval_unique p X (k - 1) HX ltac:(lia) Hp (conj Hlo Hhi)). f_equal. lia.
Qed.

(** * "%1.15g" of an integer-valued double *)

(** the value of a double as a fraction is the integer it was made from *)
Lemma g_frac_norm_pos s p m e : norm_pos s p = S754_finite s m e -> Zpos (digits2_pos p) <= 53 ->
  g_num m e = Zpos p * g_den e /\ 0 < g_den e /\ 0 < g_num m e /\
  0 <= Z.log2 (g_num m e) <= 52 /\ 0 <= Z.log2 (g_den e) <= 52.
Proof.
  intros E Hd. destruct (norm_pos_cases s p Hd) as (m' & e' & E' & He & Hv & Hm & _).
  rewrite E in E'. injection E' as -> ->.
  assert (Hm53 : Zpos m' < 2 ^ 53).
  { pose proof (pos_lt_pow_digits m') as H. rewrite Hm in H. exact H. }
  unfold g_num, g_den. destruct (Z.leb_spec 0 e') as [H0|H0].
  - assert (e' = 0) by lia. subst e'. change (2 ^ 0) with 1. change (2 ^ (- 0)) with 1 in Hv.
    rewrite !Z.mul_1_r in *. split; [exact Hv|]. split; [lia|]. split; [lia|].
    split; [|cbn; lia]. split; [apply Z.log2_nonneg|].
    assert (Z.log2 (Zpos m') < 53) by (apply Z.log2_lt_pow2; lia). lia.
  - assert (P2 : 0 < 2 ^ (- e')) by (apply Z.pow_pos_nonneg; lia).
    split; [exact Hv|]. split; [exact P2|]. split; [lia|]. split.
    + split; [apply Z.log2_nonneg|].
      assert (Z.log2 (Zpos m') < 53) by (apply Z.log2_lt_pow2; lia). lia.
    + rewrite Z.log2_pow2 by lia. lia.
Qed.

Lemma g15_norm_pos s p : Zpos p < 10 ^ 15 ->
  fmt_g15 (norm_pos s p) = (if s then [45] else []) ++ dec_nat (Zpos p).
Proof.
  intro H15.
  assert (Hd : Zpos (digits2_pos p) <= 53).
  { apply digits_le_of_lt; [lia|]. eapply Z.lt_trans; [exact H15|]. reflexivity. }
  destruct (norm_pos_cases s p Hd) as (m & e & E & _).
  destruct (g_frac_norm_pos s p m e E Hd) as (Hnum & Pden & Pnum & Ln & Ld).
  rewrite E. unfold fmt_g15. rewrite fmt_g_finite.
  destruct (g_scale_spec (g_num m e) (g_den e) Pnum Pden ltac:(lia)) as (nS & dS & X & Es & PdS & Hr & Hf).
  rewrite Es. unfold frac_eq in Hf. rewrite Hnum in Hf.
  set (den := g_den e) in *.
  assert (Hf' : Zpos p * dS * p10d X = nS * p10n X).
  { apply Z.mul_reg_r with (p := den); [lia|].
    transitivity (nS * den * p10n X); [rewrite <- Hf|]; ring. }
  (* the decimal exponent is not negative *)
  assert (HX : 0 <= X).
  { destruct (Z_le_gt_dec 0 X) as [H|H]; [exact H|exfalso].
    destruct (p10d_neg X ltac:(lia)) as [En Ed]. rewrite En, Ed in Hf'.
    assert (10 <= 10 ^ (- X)).
    { change 10 with (10 ^ 1) at 1. apply Z.pow_le_mono_r; lia. }
    set (T := 10 ^ (- X)) in *.
    assert (dS * 10 <= Zpos p * dS * T).
    { replace (Zpos p * dS * T) with (dS * (Zpos p * T)) by ring.
      apply Z.mul_le_mono_nonneg_l; [lia|]. nia. }
    lia. }
  destruct (p10n_nonneg X HX) as [En Ed]. rewrite En, Ed in Hf'. rewrite Z.mul_1_r in Hf'.
  assert (PX : 0 < 10 ^ X) by (apply Z.pow_pos_nonneg; lia).
  assert (Hp : 10 ^ X <= Zpos p < 10 ^ (X + 1)).
  { rewrite Z.pow_add_r by lia. change (10 ^ 1) with 10. nia. }
  assert (HX14 : X <= 14).
  { destruct (Z_le_gt_dec X 14) as [H|H]; [exact H|exfalso].
    pose proof (Z.pow_le_mono_r 10 15 X ltac:(lia) ltac:(lia)). lia. }
  (* the 15-digit rounding is exact *)
  assert (P14 : 0 < 10 ^ (14 - X)) by (apply Z.pow_pos_nonneg; lia).
  assert (E14 : 10 ^ 14 = 10 ^ X * 10 ^ (14 - X)) by (rewrite <- Z.pow_add_r by lia; f_equal; lia).
  assert (E15 : 10 ^ 15 = 10 ^ (X + 1) * 10 ^ (14 - X)) by (rewrite <- Z.pow_add_r by lia; f_equal; lia).
  assert (Ex : nS * 10 ^ (15 - 1) - Zpos p * 10 ^ (14 - X) * dS = 0).
  { change (15 - 1) with 14. rewrite E14.
    replace (Z.pos p * 10 ^ (14 - X) * dS) with (Zpos p * dS * 10 ^ (14 - X)) by ring. rewrite Hf'. ring. }
  rewrite (g_round_unique 15 nS dS X (Zpos p * 10 ^ (14 - X)) ltac:(lia) PdS).
  2:{ change (15 - 1) with 14. rewrite E14, E15. nia. }
  2:{ rewrite Ex. cbn [Z.abs]. lia. }
  2:{ rewrite Ex. cbn [Z.abs]. lia. }
  (* the text *)
  unfold g_text, g_body. f_equal.
  replace ((-4 <=? X) && (X <? 15)) with true
    by (symmetry; apply andb_true_iff; split; [apply Z.leb_le|apply Z.ltb_lt]; lia).
  replace (0 <=? X) with true by (symmetry; apply Z.leb_le; lia).
  assert (Ej : 14 - X = Z.of_nat (Z.to_nat (14 - X))) by lia.
  set (j := Z.to_nat (14 - X)) in *.
  replace (Z.to_nat 15) with (Z.to_nat (X + 1) + j)%nat by lia.
  rewrite Ej.
  rewrite dec_fixed_mul by lia.
  rewrite <- (dec_fixed_length (Z.to_nat (X + 1)) (Zpos p)) at 1 3.
  rewrite firstn_exact, skipn_exact, strip0_zeros. cbn [with_point].
  symmetry. apply dec_nat_exp; assumption.
Qed.

Theorem g15_of_int z : Z.abs z < 10 ^ 15 -> fmt_g15 (dbl_of_int z) = fmt_d z.
Proof.
  intro Hz.
  assert (H53 : forall p, Zpos p < 10 ^ 15 -> Zpos (digits2_pos p) <= 53).
  { intros p Hp. apply digits_le_of_lt; [lia|]. eapply Z.lt_trans; [exact Hp|]. reflexivity. }
  destruct z as [|p|p].
  - reflexivity.
  - rewrite (dbl_of_int_pos p (H53 p Hz)). rewrite (g15_norm_pos false p Hz). reflexivity.
  - rewrite (dbl_of_int_neg p (H53 p Hz)). rewrite (g15_norm_pos true p Hz). reflexivity.
Qed.

(** clause N5a for the reference implementations *)
Theorem ref_g15_int z : int_range z = true -> fmt_g15 (dbl_of_int z) = fmt_d z.
Proof.
  intro Hr. apply g15_of_int. unfold int_range in Hr. apply andb_true_iff in Hr as [Hlo Hhi].
  apply Z.leb_le in Hlo, Hhi. unfold c_INT_MIN in Hlo. unfold c_INT_MAX in Hhi.
  change (10 ^ 15) with 1000000000000000. lia.
Qed.

(** * strtod of the "%d" text of an integer below 10^15 *)
Lemma take_digits_dec_nat15 z : 0 <= z -> z < 10 ^ 15 ->
  take_digits (dec_nat z) 0 0 = (z, length (dec_nat z), []) /\ (1 <= length (dec_nat z) <= 15)%nat /\
  ndigits 2000 z <= 15.
Proof.
  intros Hz Hlt. unfold dec_nat. rewrite dec_fixed_length.
  destruct (Z.eq_dec z 0) as [->|Hnz]; [vm_compute; repeat split; try lia; discriminate|].
  destruct (ndigits_spec 2000 z ltac:(lia) (big_2000 z Hlt)) as [Hk [Hlo Hhi]].
  set (k := ndigits 2000 z) in *.
  assert (Hk15 : k <= 15).
  { destruct (Z.le_gt_cases k 15) as [|Hgt]; [assumption|].
    assert (10 ^ 15 <= 10 ^ (k - 1)) by (apply Z.pow_le_mono_r; lia). lia. }
  rewrite take_digits_dec_fixed by exact Hz.
  rewrite Z2Nat.id by lia. rewrite Z.mod_small by lia.
  split; [f_equal; f_equal; lia|]. split; [lia|exact Hk15].
Qed.

Lemma dec_nat_head15 z : 0 <= z -> z < 10 ^ 15 ->
  exists d ds, dec_nat z = d :: ds /\ 48 <= d <= 57.
Proof.
  intros Hz Hlt. destruct (take_digits_dec_nat15 z Hz Hlt) as (_ & Hlen & _).
  unfold dec_nat in *. rewrite dec_fixed_length in Hlen.
  destruct (Z.to_nat (ndigits 2000 z)) as [|k]; [lia|].
  rewrite dec_fixed_head by exact Hz.
  pose proof (Z.mod_pos_bound (z / 10 ^ Z.of_nat k) 10 ltac:(lia)).
  eexists _, _. split; [reflexivity|lia].
Qed.

Theorem ref_d15 z : Z.abs z < 10 ^ 15 ->
  strtod_ref (fmt_d z) = Some (dbl_of_int z, length (fmt_d z)).
Proof.
  intro Hr. change (10 ^ 15) with 1000000000000000 in Hr.
  assert (H15 : 10 ^ 15 = 1000000000000000) by reflexivity.
  unfold fmt_d. destruct (Z.ltb_spec z 0) as [Hneg|Hpos].
  - (* negative *)
    destruct (take_digits_dec_nat15 (- z) ltac:(lia) ltac:(lia)) as [Et [Hlen Hnd]].
    rewrite strtod_ref_eq. cbn [sign_split]. rewrite Et. cbn [frac_part].
    destruct (length (dec_nat (- z))) as [|k] eqn:Ek; [lia|]. cbn [Nat.add Nat.eqb ParseComplete.exp_part].
    f_equal. f_equal; [|cbn [length]; lia].
    unfold dec_to_dbl_exact. destruct (Z.eqb_spec (- z) 0); [lia|].
    change (0 - Z.of_nat 0) with 0. rewrite Z.add_0_r.
    pose proof (ndigits_nonneg 2000 (- z)) as Hnn.
    destruct (Z.ltb_spec 400 (ndigits 2000 (- z))); [lia|].
    destruct (Z.ltb_spec (ndigits 2000 (- z)) (-400)); [lia|].
    change (0 <=? 0) with true. cbv iota. change (10 ^ 0) with 1. rewrite Z.mul_1_r.
    destruct z as [|p|p]; try lia. cbn [Z.opp].
    assert (Hd : Zpos (digits2_pos p) <= 53) by (apply digits_le_of_lt; [lia|change (2 ^ 53) with 9007199254740992; lia]).
    change (binary_normalize prec emax (Z.pos p) 0 false) with (dbl_of_int (Zpos p)).
    rewrite (dbl_of_int_pos p Hd), (dbl_of_int_neg p Hd). apply norm_pos_opp.
  - (* non-negative *)
    destruct (take_digits_dec_nat15 z Hpos ltac:(lia)) as [Et [Hlen Hnd]].
    destruct (dec_nat_head15 z Hpos ltac:(lia)) as [d [ds [Ed Hd]]].
    rewrite strtod_ref_eq. rewrite Ed. rewrite sign_split_other by lia. rewrite <- Ed.
    rewrite Et. cbn [frac_part].
    destruct (length (dec_nat z)) as [|k] eqn:Ek; [lia|]. cbn [Nat.add Nat.eqb ParseComplete.exp_part].
    f_equal. f_equal; [|lia].
    unfold dec_to_dbl_exact. destruct (Z.eqb_spec z 0) as [->|Hnz]; [reflexivity|].
    change (0 - Z.of_nat 0) with 0. rewrite Z.add_0_r.
    pose proof (ndigits_nonneg 2000 z) as Hnn.
    destruct (Z.ltb_spec 400 (ndigits 2000 z)); [lia|].
    destruct (Z.ltb_spec (ndigits 2000 z) (-400)); [lia|].
    change (0 <=? 0) with true. cbv iota. change (10 ^ 0) with 1. rewrite Z.mul_1_r. reflexivity.
Qed.

(** clause N5b for the reference implementations *)
Theorem ref_g15_exact z : Z.abs z < 10 ^ 15 ->
  exists k, strtod_ref (fmt_g15 (dbl_of_int z)) = Some (dbl_of_int z, k).
Proof. intro Hz. rewrite (g15_of_int z Hz). eexists. exact (ref_d15 z Hz). Qed.

(** non-vacuity: INT_MIN, and the largest integer covered by N5b *)
Lemma g15_int_examples :
  (int_range (-2147483648) = true /\
   fmt_g15 (dbl_of_int (-2147483648)) = [45; 50; 49; 52; 55; 52; 56; 51; 54; 52; 56] /\
   fmt_d (-2147483648) = [45; 50; 49; 52; 55; 52; 56; 51; 54; 52; 56]) /\
  (Z.abs 999999999999999 < 10 ^ 15 /\
   strtod_ref (fmt_g15 (dbl_of_int 999999999999999)) = Some (dbl_of_int 999999999999999, 15%nat)).
Proof.
  split.
  - split; [reflexivity|]. split; vm_compute; reflexivity.
  - split; [reflexivity|]. vm_compute. reflexivity.
Qed.
