(** Extract.v — extraction of the executable model to OCaml.  Only ExtrOcamlBasic is used
    (bool, option, unit, list, prod, sumbool mapped to the OCaml types of the same shape);
    Z, positive, N, nat, spec_float and every model datatype stay extracted Coq datatypes. *)
Require Import ExtrOcamlBasic.
From CJ Require Import Base Dbl Tree LibcNum MinifyDefs PointerDefs CompareDefs ParseDefs ParseEntry.
Extraction Language OCaml.
Extraction "model_base.ml"
  Base.cstr Dbl.sf_of_bits Dbl.bits_of_sf Dbl.sat_int Dbl.compare_double Tree.node_size Tree.subtree
  MinifyDefs.cJSON_Minify MinifyDefs.minify_spec
  PointerDefs.cJSONUtils_GetPointerCaseSensitive PointerDefs.cJSONUtils_GetPointer
  PointerDefs.cJSONUtils_FindPointerFromObjectTo PointerDefs.rfc6901
  CompareDefs.cJSON_Compare
  LibcNum.strtod_ref ParseDefs.blocks ParseEntry.run_parse_with_length_opts ParseEntry.run_parse_with_opts ParseEntry.run_text_l.
