(** Properties_C18_Heap.v (companion of Properties_C18.v) — property C18 for the HEAP-LEVEL code: a whole
    utility, not a primitive.  Only statements closed by [exact].

    Properties_C18.v is about MergeDefs.v, the VALUE-level transliteration of [merge_patch] (DESIGN 5.6, Tier B),
    which presupposes that the cJSON.c primitives act on values like list functions; Properties_C16_TierBridge.v
    proves that presupposition primitive by primitive.  Here the control flow of the utility itself is no
    longer presupposed: MergeHeapDefs.v transliterates [merge_patch], [cJSONUtils_MergePatch] and
    [cJSONUtils_MergePatchCaseSensitive] of cJSON_Utils.c statement by statement on the memory model of Heap.v,
    calling the heap-level functions of CoreDefs.v (cJSON_IsObject, cJSON_Delete, cJSON_Duplicate(patch, 1),
    cJSON_CreateObject, cJSON_IsNull, cJSON_DeleteItemFromObject[CaseSensitive],
    cJSON_DetachItemFromObject[CaseSensitive], cJSON_AddItemToObject with its result ignored), and the theorems
    below say that this heap-level function REFINES the value-level model, hence (C18) RFC 7396.

    Reading guide.  [h] heap, [F] forest ([WF h F]: [h] encodes [F], the C06 invariant).
    [MInv h F] = [WF h F] + [HeapOK h] (structural sanity, C07) + every node of [F] OWNS its strings
    ([owns_strings]: no cJSON_IsReference, no cJSON_StringIsConst) + every string a node refers to is a live,
    NUL-terminated block ([str_ok]) — [C18_heap_invariant_intro] / [_elim].  These are the documents the
    value-level theorems speak about: what cJSON_Parse, cJSON_Duplicate of such a tree, and the utilities build.
    [tgt : option tree] the target: NULL, or a detached root of [F]; [rest_of F tgt] = the other roots; the patch
    is a node [pp] (subtree [tp]) of one of the other roots.  [reify St t] reads a forest tree as a [Tree.node]
    through the string heap [St].  [nofail] = the allocator that never fails.  [LIMIT] = CJSON_CIRCULAR_LIMIT.
    [members_keyed tp]: every member of an object node of the patch has a name.  [KeepO h h' G]: the string
    blocks owned by [G] have the same contents in [h'] as in [h]. *)
From CJ Require Import Base Dbl Heap Forest ForestLemmas CoreDefs CoreRefineDupBase CoreRefineDupValue CoreRefineDupForest
  CoreLedgerGen.
From CJ Require Import TierBridgeDefs TierBridgeEndToEndStr MergeHeapDefs MergeHeapInv MergeHeapProofs MergeHeapConform MergeHeapEx.
From CJ Require Tree CoreOps CompareDefs MergeDefs Rfc7396.
From CJ.gen Require Import Constants.
From stdpp Require Import gmap.
Local Open Scope Z_scope.

(** ------------------------------------------------------------------ 1. the invariant *)

Theorem C18_heap_invariant_intro : forall h F,
  WF h F -> HeapOK h -> Forall owns_strings F ->
  (forall t b, t ∈ F -> b ∈ str_blocks t -> str_ok h b) ->
  MInv h F.
Proof. exact MInv_intro. Qed.
Print Assumptions C18_heap_invariant_intro.

Theorem C18_heap_invariant_elim : forall h F,
  MInv h F ->
  WF h F /\ HeapOK h /\ Closed h /\ KeysReadable h F /\ Forall owns_strings F /\
  (forall t b, t ∈ F -> b ∈ str_blocks t -> str_ok h b).
Proof. exact MInv_elim. Qed.
Print Assumptions C18_heap_invariant_elim.

Theorem C18_heap_str_ok_is : forall h b,
  str_ok h b <-> b ∈ h_live h /\ exists s : bytes, h_str h !! b = Some s /\ existsb (Z.eqb 0) s = true.
Proof. exact (fun h b => conj (fun H => H) (fun H => H)). Qed.

(** ------------------------------------------------------------------ 2. the refinement theorem *)

(** MAIN THEOREM.  [merge_patch(target, patch, case_sensitive)] with the fuel the entry points take from the
    heap, run on a heap satisfying the invariant, for a target that is NULL or a detached root and a patch that
    is a node outside the target, nested at most LIMIT deep, whose object members all have names:
      - returns normally (no memory-error outcome) a NON-NULL pointer [tid ty];
      - the resulting heap satisfies the invariant (in particular [WF]) for the forest [rest ++ [ty]]: the
        other roots are LITERALLY the same trees, the result [ty] is a root;
      - the patch is the same tree and reifies as before;
      - [reify] of the result IS what the value-level model of C18 (MergeDefs.v) computes from the reified target
        and patch — so every theorem of Properties_C18.v about that model speaks about this run;
      - nothing is leaked ([NoLeak] is preserved), and the strings of the other roots are untouched. *)
Theorem C18_heap_refines : forall (flag : bool) h F (tgt : option tree) pp tp,
  MInv h F ->
  (forall tx, tgt = Some tx -> find_root (tid tx) F = Some tx) ->
  let G := rest_of F tgt in
  find_tree pp G = Some tp ->
  (height tp <= Z.to_nat c_CJSON_CIRCULAR_LIMIT)%nat -> members_keyed tp ->
  exists h' ty,
    merge_patch nofail (tid <$> tgt) (Some pp) flag h = Ret (Some (tid ty), h') /\
    MInv h' (G ++ [ty]) /\
    find_tree pp (G ++ [ty]) = Some tp /\ reify (h_str h') tp = reify (h_str h) tp /\
    find_root (tid ty) (G ++ [ty]) = Some ty /\
    MergeDefs.mp_MergePatch_gen flag (reify (h_str h) <$> tgt) (Some (reify (h_str h) tp)) = Some (reify (h_str h') ty) /\
    (NoLeak h F -> NoLeak h' (G ++ [ty])) /\ KeepO h h' G.
Proof. exact merge_patch_refines. Qed.
Print Assumptions C18_heap_refines.

(** the public functions are the two case modes of it; [MergeDefs.cJSONUtils_MergePatch[CaseSensitive]] are the
    two case modes of [mp_MergePatch_gen] *)
Theorem C18_heap_entry_points : forall oracle target patch,
  MergeHeapDefs.cJSONUtils_MergePatch oracle target patch = merge_patch oracle target patch false /\
  MergeHeapDefs.cJSONUtils_MergePatchCaseSensitive oracle target patch = merge_patch oracle target patch true.
Proof. exact merge_entry_points. Qed.
Theorem C18_value_entry_points :
  MergeDefs.cJSONUtils_MergePatch = MergeDefs.mp_MergePatch_gen false /\
  MergeDefs.cJSONUtils_MergePatchCaseSensitive = MergeDefs.mp_MergePatch_gen true.
Proof. exact (conj eq_refl eq_refl). Qed.
Theorem C18_rest_of_is : forall F tx, rest_of F (Some tx) = remove_root (tid tx) F /\ rest_of F None = F.
Proof. exact (fun F tx => conj eq_refl eq_refl). Qed.

(** the same at EVERY level of the recursion and for any sufficient fuel ([tsize] = number of nodes of the
    patch): the forest is [G ++ target], [G] contains the patch and is never touched *)
Theorem C18_heap_every_level : forall tp (df lf : nat) h G (tgt : option tree) (flag : bool),
  MInv h (G ++ opt_list tgt) -> find_tree (tid tp) G = Some tp ->
  (tsize tp <= df)%nat -> (tsize tp <= lf)%nat ->
  (height tp <= Z.to_nat c_CJSON_CIRCULAR_LIMIT)%nat -> members_keyed tp ->
  exists h' ty,
    merge_patch_fuel nofail df lf (tid <$> tgt) (Some (tid tp)) flag h = Ret (Some (tid ty), h') /\
    MInv h' (G ++ [ty]) /\ (NoLeak h (G ++ opt_list tgt) -> NoLeak h' (G ++ [ty])) /\ KeepO h h' G /\
    MergeDefs.mp_merge_patch flag (reify (h_str h) <$> tgt) (reify (h_str h) tp) = Some (reify (h_str h') ty).
Proof. exact merge_rec. Qed.
Print Assumptions C18_heap_every_level.

(** the fuel of the entry points suffices: a subtree of a well-formed forest has at most as many nodes as
    identities were handed out *)
Theorem C18_heap_fuel : forall h F t, WF h F -> t ∈ nodes F -> (tsize t <= Pos.to_nat (h_next h))%nat.
Proof. exact tsize_fuel. Qed.

(** THE LEDGER, exactly: before the call the live library blocks are those of the untouched roots and of the
    target, afterwards those of the untouched roots and of the result — the ledger changes by the blocks of the
    result minus the blocks of the old target *)
Theorem C18_heap_ledger : forall (flag : bool) h F (tgt : option tree) pp tp,
  MInv h F -> NoLeak h F ->
  (forall tx, tgt = Some tx -> find_root (tid tx) F = Some tx) ->
  let G := rest_of F tgt in
  find_tree pp G = Some tp ->
  (height tp <= Z.to_nat c_CJSON_CIRCULAR_LIMIT)%nat -> members_keyed tp ->
  exists h' ty,
    merge_patch nofail (tid <$> tgt) (Some pp) flag h = Ret (Some (tid ty), h') /\
    WF h' (G ++ [ty]) /\ NoLeak h' (G ++ [ty]) /\
    (forall b, b ∈ lib_live h <-> b ∈ owned G \/ b ∈ owned (opt_list tgt)) /\
    (forall b, b ∈ lib_live h' <-> b ∈ owned G \/ b ∈ owned [ty]) /\
    (forall b, b ∈ owned G -> h_str h' !! b = h_str h !! b).
Proof. exact merge_patch_ledger. Qed.
Print Assumptions C18_heap_ledger.

(** a NULL patch: the target is deleted, the result is NULL *)
Theorem C18_heap_null_patch : forall (flag : bool) h G tx,
  MInv h (G ++ [tx]) ->
  exists h', merge_patch nofail (Some (tid tx)) None flag h = Ret (None, h') /\ MInv h' G /\
             (NoLeak h (G ++ [tx]) -> NoLeak h' G) /\ KeepO h h' G.
Proof. exact merge_patch_null_patch. Qed.
Print Assumptions C18_heap_null_patch.

(** roots are unordered: the invariant does not depend on the order of the forest *)
Theorem C18_heap_roots_unordered : forall h F F', MInv h F -> F ≡ₚ F' -> MInv h F'.
Proof. exact MInv_perm. Qed.

(** ------------------------------------------------------------------ 3. transfer of C18: RFC 7396 *)

(** [C18_apply] / [C18_apply_null_target] for the heap-level code: when the reified target and patch are JSON
    documents in the sense of C18 and the patch nests below the duplication limit (these imply the height bound
    and [members_keyed]), the case-sensitive entry point run on the heap returns a root that reifies to the RFC
    7396 result — as a document ([doc_eq]) and member for member up to ownership flags *)
Theorem C18_heap_conform : forall h F (tgt : option tree) pp tp,
  MInv h F ->
  (forall tx, tgt = Some tx -> find_root (tid tx) F = Some tx) ->
  let G := rest_of F tgt in
  find_tree pp G = Some tp ->
  (forall tx, tgt = Some tx -> Rfc7396.m7396_doc (reify (h_str h) tx) = true) ->
  Rfc7396.m7396_doc (reify (h_str h) tp) = true ->
  Rfc7396.m7396_depth_ok (reify (h_str h) tp) = true ->
  exists h' ty,
    MergeHeapDefs.cJSONUtils_MergePatchCaseSensitive nofail (tid <$> tgt) (Some pp) h = Ret (Some (tid ty), h') /\
    MInv h' (G ++ [ty]) /\ find_root (tid ty) (G ++ [ty]) = Some ty /\
    find_tree pp (G ++ [ty]) = Some tp /\ reify (h_str h') tp = reify (h_str h) tp /\
    Rfc7396.doc_eq (reify (h_str h') ty) (Rfc7396.merge (reify (h_str h) <$> tgt) (reify (h_str h) tp)) = true /\
    CompareDefs.strip_flags (reify (h_str h') ty) =
      CompareDefs.strip_flags (Rfc7396.merge (reify (h_str h) <$> tgt) (reify (h_str h) tp)) /\
    (NoLeak h F -> NoLeak h' (G ++ [ty])).
Proof. exact c18_heap_conform. Qed.
Print Assumptions C18_heap_conform.

Theorem C18_heap_side_conditions_from_C18 : forall St tp,
  (Rfc7396.m7396_depth_ok (reify St tp) = true -> (height tp <= Z.to_nat c_CJSON_CIRCULAR_LIMIT)%nat) /\
  (Rfc7396.m7396_doc (reify St tp) = true -> members_keyed tp).
Proof. exact (fun St tp => conj (depth_ok_height St tp) (doc_members_keyed St tp)). Qed.

(** ------------------------------------------------------------------ 4. every allocation-failure schedule *)

(** for EVERY oracle (allocation requests may fail anywhere): whenever the heap-level function RETURNS from a
    sane heap, the heap is sane again, identities were only handed out upwards, ownership tags are unchanged and
    every block the library only borrows is live with bit-identical contents ([CoreLedgerGen.Cons], C07) *)
Theorem C18_heap_conservative : forall oracle target patch flag, Cons (merge_patch oracle target patch flag).
Proof. exact Cons_merge_patch. Qed.
Print Assumptions C18_heap_conservative.

(** ------------------------------------------------------------------ 5. non-vacuity *)

(** [exh_heap]: target (root 1) {"a":"b","c":{"d":1}}, patch (root 10) {"a":null,"c":{"d":null,"e":[1]},"f":"g"},
    forest [patch; target] (the target is NOT the last root: [C18_heap_refines] does not care).  Every hypothesis
    of [C18_heap_refines], [C18_heap_ledger] and [C18_heap_conform] holds. *)
Theorem C18_heap_nonvacuous_hypotheses :
  MInv exh_heap exh_F /\ NoLeak exh_heap exh_F /\
  find_root 1%positive exh_F = Some exh_target /\
  find_tree 10%positive (rest_of exh_F (Some exh_target)) = Some exh_patch /\
  find_root 10%positive exh_F = Some exh_patch /\
  (height exh_patch <= Z.to_nat c_CJSON_CIRCULAR_LIMIT)%nat /\ members_keyed exh_patch /\
  Forall owns_strings exh_F /\
  Rfc7396.m7396_doc (reify (h_str exh_heap) exh_target) = true /\
  Rfc7396.m7396_doc (reify (h_str exh_heap) exh_patch) = true /\
  Rfc7396.m7396_depth_ok (reify (h_str exh_heap) exh_patch) = true.
Proof. exact exh_hypotheses. Qed.
Print Assumptions C18_heap_nonvacuous_hypotheses.

(** The heap-level code RUN on it ([vm_compute]): returns the target's pointer; the result, read back from the
    result heap by the structural walk [CoreOps.dump_node] (fields of every node + the prev/next discipline of
    every chain: [true]), is {"c":{"e":[1]},"f":"g"} = what the value-level model computes = what the RFC 7396
    evaluator computes; the patch reads back unchanged; the ledger is the patch, the surviving nodes of the
    target and the new blocks; the old members and the superseded key copies are released. *)
Theorem C18_heap_nonvacuous_run :
  out_val exh_run = Some (Some 1%positive) /\
  out_val (CoreOps.dump_node 50 (Some 1%positive) exh_after) = Some (Some (exh_expected, true)) /\
  MergeDefs.cJSONUtils_MergePatchCaseSensitive (Some (reify exh_St exh_target)) (Some (reify exh_St exh_patch)) = Some exh_expected /\
  Rfc7396.merge (Some (reify exh_St exh_target)) (reify exh_St exh_patch) = exh_expected /\
  out_val (CoreOps.dump_node 50 (Some 10%positive) exh_after) = Some (Some (reify exh_St exh_patch, true)) /\
  bool_decide (lib_live exh_after =
               list_to_set (owned [exh_patch] ++ [1; 3; 1000; 1002; 1003; 1004; 1005; 1006; 1008]%positive)) = true /\
  forallb (fun b => bool_decide (b ∉ h_live exh_after)) [2; 101; 102; 4; 104; 103; 1001; 1007]%positive = true.
Proof. exact exh_result. Qed.
Print Assumptions C18_heap_nonvacuous_run.
Theorem C18_heap_nonvacuous_run_is :
  exh_run = MergeHeapDefs.cJSONUtils_MergePatchCaseSensitive nofail (Some 1%positive) (Some 10%positive) exh_heap /\
  exh_after = out_heap exh_run exh_heap.
Proof. exact exh_run_is. Qed.

(** … and [C18_heap_refines] instantiated on that very run: the heap the computation ends in satisfies the
    invariant for the forest [patch; ty] with [ty] a root under the returned identity 1, nothing leaked, and
    [ty] reifies to the expected document = the RFC 7396 result *)
Theorem C18_heap_nonvacuous_instance :
  exists ty,
    exh_run = Ret (Some (tid ty), exh_after) /\ tid ty = 1%positive /\
    MInv exh_after ([exh_patch] ++ [ty]) /\ NoLeak exh_after ([exh_patch] ++ [ty]) /\
    find_root 10%positive ([exh_patch] ++ [ty]) = Some exh_patch /\
    reify (h_str exh_after) ty = exh_expected /\
    reify (h_str exh_after) ty = Rfc7396.merge (Some (reify exh_St exh_target)) (reify exh_St exh_patch).
Proof. exact exh_instance. Qed.
Print Assumptions C18_heap_nonvacuous_instance.

(** The hypothesis [members_keyed] cannot be dropped from the ledger statement.  Target {} (root 1), patch = an
    object whose only member (the number 5) has NO name — what cJSON_AddItemToArray(object, item) builds; every
    other hypothesis holds.  The call returns the target, still {}, exactly as the value-level model says; but
    cJSON_AddItemToObject(target, NULL, replacement) refused, merge_patch ignores that result, and the duplicated
    replacement (block 1000) is a live library block without links that nothing reaches: [NoLeak] fails.
    (Confirmed on /repo: one allocation outstanding after deleting result and patch.) *)
Theorem C18_heap_keyless_member_leaks :
  MInv exk_heap exk_F /\ NoLeak exk_heap exk_F /\
  find_root 1%positive exk_F = Some exk_target /\
  find_tree 10%positive (rest_of exk_F (Some exk_target)) = Some exk_patch /\
  (height exk_patch <= Z.to_nat c_CJSON_CIRCULAR_LIMIT)%nat /\
  ~ members_keyed exk_patch /\
  out_val exk_run = Some (Some 1%positive) /\
  out_val (CoreOps.dump_node 50 (Some 1%positive) exk_after) = Some (Some (exk_empty_object, true)) /\
  MergeDefs.cJSONUtils_MergePatchCaseSensitive (Some (reify ∅ exk_target)) (Some (reify ∅ exk_patch)) = Some exk_empty_object /\
  bool_decide (lib_live exk_after = list_to_set [1; 10; 11; 1000]%positive) = true /\
  h_lnk exk_after !! 1000%positive = Some (None, None) /\
  out_val (CoreOps.dump_node 50 (Some 10%positive) exk_after) = Some (Some (reify ∅ exk_patch, true)) /\
  ~ NoLeak exk_after [exk_patch; exk_target].
Proof. exact keyless_member_leaks. Qed.
Print Assumptions C18_heap_keyless_member_leaks.
Theorem C18_heap_keyless_run_is :
  exk_run = MergeHeapDefs.cJSONUtils_MergePatchCaseSensitive nofail (Some 1%positive) (Some 10%positive) exk_heap /\
  exk_after = out_heap exk_run exk_heap.
Proof. exact exk_run_is. Qed.

(** OUTSIDE [nofail] (the observation of DESIGN 11.6, now reproduced by the heap-level model): the same heap with
    the fifth allocation request refused — the copy of the name "c" inside
    cJSON_AddItemToObject(target, "c", replacement).  merge_patch ignores the refusal: the call returns the target
    as a healthy tree {"f":"g"} that is NOT the RFC 7396 result (member "c" is gone), and the patched member — node 3
    with its old key and the new "e":[1] — stays allocated as a detached tree that nothing reaches. *)
Theorem C18_heap_alloc_failure_observed :
  out_val exf_run = Some (Some 1%positive) /\
  out_val (CoreOps.dump_node 50 (Some 1%positive) exf_after) = Some (Some (exf_result, true)) /\
  Rfc7396.doc_eq exf_result (Rfc7396.merge (Some (reify exh_St exh_target)) (reify exh_St exh_patch)) = false /\
  h_lnk exf_after !! 3%positive = Some (None, None) /\
  out_val (CoreOps.dump_node 50 (Some 3%positive) exf_after) =
    Some (Some (Tree.Node c_cJSON_Object None 0 dzero (Some [99])
                  [Tree.Node c_cJSON_Array None 0 dzero (Some [101]) [exh_num1]], true)) /\
  forallb (fun b => bool_decide (b ∈ lib_live exf_after)) [3; 103; 1000; 1002; 1003]%positive = true.
Proof. exact alloc_failure_observed. Qed.
Print Assumptions C18_heap_alloc_failure_observed.
Theorem C18_heap_alloc_failure_run_is :
  exf_run = MergeHeapDefs.cJSONUtils_MergePatchCaseSensitive exf_oracle (Some 1%positive) (Some 10%positive) exh_heap /\
  exf_after = out_heap exf_run exh_heap /\ exf_oracle = (fun k => Nat.eqb k 4).
Proof. exact exf_run_is. Qed.

(** ================================================================================================
    6. GENERATION at heap level: generate_merge_patch / compare_json / cJSONUtils_GenerateMergePatch[CaseSensitive]

    GenMergeHeapDefs.v transliterates [compare_json], [generate_merge_patch] and the two public entry points of
    cJSON_Utils.c statement by statement on the memory model of Heap.v: cJSON_CreateNull for a NULL [to],
    cJSON_Duplicate(to, 1) when one side is no object, the heap-level sort_object of C19 (SortDefs.v) on [from]
    and on [to] IN PLACE, cJSON_CreateObject, the merge walk over the two sorted member chains with a plain
    strcmp on the names (from-only member: cJSON_AddItemToObject(patch, name, cJSON_CreateNull()); to-only
    member: a duplicate; same name: compare_json — itself transliterated, with its in-place sorting of every
    object it meets — and, when different, the recursive call), every result of cJSON_AddItemToObject ignored as
    in the C text, and the final cJSON_Delete of an empty patch.  The theorems below say that this code REFINES
    the value-level model MergeDefs.v, hence every statement of Properties_C18.v about generation speaks about
    the heap-level run.

    Reading guide (beyond the one at the top of this file).
    [from], [to] are ANY two nodes of the forest — roots or members of a larger document (the C functions never
    touch next / prev / string of the operands themselves) — whose subtrees are disjoint ([tdisj]).
    [gdoc t]: every member of an object node of [t] has a name and every string node a valuestring (without
    them the C code dereferences NULL or leaks: [C18_heap_gen_keyless_member_leaks], [_keyless_null_deref],
    [_string_without_value_null_deref]).
    [treord t t']: [t'] is [t] with member lists reordered at any level (same identities, same data).
    [Frame F F' S]: same roots, same (identity, data) pairs, and every node entry (identity, data, children
    identities) of [F] whose identity is outside [S] is a node entry of [F'].
    [res : option tree]: NULL, or the NEW root that is returned. *)
From CJ Require Import GenMergeHeapDefs GenMergeHeapForest GenMergeHeapCompare GenMergeHeapProofs GenMergeHeapEntry
  GenMergeHeapCompose GenMergeHeapCons GenMergeHeapEx.
From CJ Require MergePerm MergeLemmas CoreRefineFrame CoreRefineHistory.

(** ------------------------------------------------------------------ 6.1 vocabulary *)
Theorem C18_heap_gen_tdisj_is : forall a b, tdisj a b <-> (forall x, x ∈ ids_t a -> x ∉ ids_t b).
Proof. exact (fun a b => conj (fun H => H) (fun H => H)). Qed.
Theorem C18_heap_gen_gdoc_is : forall t,
  gdoc t <->
  (forall n, n ∈ nodes_t t ->
     (Tree.tymask (rd_type (tdata n)) = c_cJSON_Object -> forall c, c ∈ tchildren n -> rd_key (tdata c) <> None) /\
     (Tree.tymask (rd_type (tdata n)) = c_cJSON_String -> rd_vstr (tdata n) <> None)).
Proof. exact (fun t => conj (fun H => H) (fun H => H)). Qed.
Theorem C18_heap_gen_treord_intro : forall i d cs mid cs',
  Forall2 treord cs mid -> mid ≡ₚ cs' -> treord (T i d cs) (T i d cs').
Proof. exact treord_intro. Qed.
Theorem C18_heap_gen_treord_inv : forall t t', treord t t' ->
  tid t' = tid t /\ tdata t' = tdata t /\ exists mid, Forall2 treord (tchildren t) mid /\ mid ≡ₚ tchildren t'.
Proof. exact treord_inv. Qed.
(** a reordering keeps the node identities, the (identity, data) pairs, the size, the nesting depth, [gdoc] *)
Theorem C18_heap_gen_treord_keeps : forall t t', treord t t' ->
  ids_t t' ≡ₚ ids_t t /\ CoreRefineFrame.datas [t'] ≡ₚ CoreRefineFrame.datas [t] /\ tsize t' = tsize t /\ height t' = height t /\ (gdoc t -> gdoc t').
Proof.
  exact (fun t t' H => conj (treord_ids t t' H) (conj (treord_datas t t' H) (conj (treord_tsize t t' H)
           (conj (treord_height t t' H) (treord_gdoc t t' H))))).
Qed.
Theorem C18_heap_gen_frame_is : forall G G' S,
  Frame G G' S <->
  roots G' = roots G /\ CoreRefineFrame.datas G' ≡ₚ CoreRefineFrame.datas G /\ (forall e : fnode, e ∈ flat G -> fn_id e ∉ S -> e ∈ flat G').
Proof.
  exact (fun G G' S => conj (fun H => conj (fr_roots _ _ _ H) (conj (fr_datas _ _ _ H) (fr_flat _ _ _ H)))
                            (fun H => mkFrame _ _ _ (proj1 H) (proj1 (proj2 H)) (proj2 (proj2 H)))).
Qed.
(** what a frame means for the rest of the forest: a subtree outside [S] is literally still there *)
Theorem C18_heap_gen_frame_untouched : forall G G' S t,
  Frame G G' S -> NoDup (ids G') -> find_tree (tid t) G = Some t -> (forall x, x ∈ ids_t t -> x ∉ S) ->
  find_tree (tid t) G' = Some t.
Proof. exact frame_find. Qed.
Print Assumptions C18_heap_gen_frame_untouched.
(** JSON documents in the sense of C18 satisfy [gdoc] *)
Theorem C18_heap_gen_doc_gdoc : forall St t, Rfc7396.m7396_doc (reify St t) = true -> gdoc t.
Proof. exact (fun St t H => gd_gdoc St t (MergeLemmas.m7396_doc_gd _ H)). Qed.
Print Assumptions C18_heap_gen_doc_gdoc.

(** ------------------------------------------------------------------ 6.2 compare_json *)

(** [compare_json(a, b, case_sensitive)] with the fuel of the heap: no memory-error outcome; the heap afterwards
    encodes a forest that differs from the one before only inside the two operands, which are reorderings of
    themselves (the in-place sorts); no string block is touched and nothing is allocated ([h_next]); the boolean
    and the two operands afterwards, reified, are what the value-level model computes on the reified operands *)
Theorem C18_heap_gen_compare_refines : forall (flag : bool) h F a b ta tb,
  MInv h F -> find_tree a F = Some ta -> find_tree b F = Some tb -> tdisj ta tb -> gdoc ta -> gdoc tb ->
  exists h' F' (r : bool) ta' tb',
    compare_json (Some a) (Some b) flag h = Ret (r, h') /\
    MInv h' F' /\ (NoLeak h F -> NoLeak h' F') /\ h_str h' = h_str h /\ h_next h' = h_next h /\
    Frame F F' (ids_t ta ++ ids_t tb) /\
    find_tree a F' = Some ta' /\ find_tree b F' = Some tb' /\ treord ta ta' /\ treord tb tb' /\
    MergeDefs.mp_compare_json_top flag (reify (h_str h) ta) (reify (h_str h) tb) =
      Ok (r, reify (h_str h) ta', reify (h_str h) tb').
Proof. exact compare_json_refines. Qed.
Print Assumptions C18_heap_gen_compare_refines.

(** ------------------------------------------------------------------ 6.3 generate_merge_patch *)

(** MAIN THEOREM.  [generate_merge_patch(from, to, case_sensitive)] with the fuel the entry points take from the
    heap, for two non-NULL nodes with disjoint subtrees that satisfy [gdoc], [to] nested at most LIMIT deep, the
    never-failing allocator:
      - returns normally (no memory-error outcome) NULL or the identity of a root [res];
      - the heap afterwards satisfies the invariant for [F' ++ res]: [res] is a NEW last root, and [F'] differs
        from [F] only inside [from] and [to] ([Frame]; in particular the roots are the same and every other
        subtree is literally the same tree, [C18_heap_gen_frame_untouched]);
      - [from] and [to] are reorderings of themselves, and reified they are what the value-level model says they
        are; the reified result IS the value-level result;
      - nothing is leaked, no string of the old forest is touched. *)
Theorem C18_heap_gen_refines : forall (flag : bool) h F f t tf tt,
  MInv h F -> find_tree f F = Some tf -> find_tree t F = Some tt -> tdisj tf tt ->
  gdoc tf -> gdoc tt -> (height tt <= Z.to_nat c_CJSON_CIRCULAR_LIMIT)%nat ->
  exists h' F' (res : option tree) tf' tt',
    generate_merge_patch nofail (Some f) (Some t) flag h = Ret (tid <$> res, h') /\
    MInv h' (F' ++ opt_list res) /\
    Frame F F' (ids_t tf ++ ids_t tt) /\
    find_tree f F' = Some tf' /\ find_tree t F' = Some tt' /\ treord tf tf' /\ treord tt tt' /\
    MergeDefs.mp_GenerateMergePatch_gen flag (Some (reify (h_str h) tf)) (Some (reify (h_str h) tt)) =
      Ok (reify (h_str h') <$> res, Some (reify (h_str h') tf'), Some (reify (h_str h') tt')) /\
    (NoLeak h F -> NoLeak h' (F' ++ opt_list res)) /\ KeepO h h' F.
Proof. exact generate_refines. Qed.
Print Assumptions C18_heap_gen_refines.

(** "a NEW last root": under the invariant the last root of a forest is found as a root under its identity, and
    that identity occurs nowhere in the rest of the forest (its blocks are new: [C18_heap_gen_ledger]) *)
Theorem C18_heap_gen_result_is_new_root : forall h G r,
  MInv h (G ++ [r]) -> find_root (tid r) (G ++ [r]) = Some r /\ tid r ∉ ids G.
Proof.
  exact (fun h G r I => conj (find_root_last G r (proj1 (last_root_fresh h G r (mi_wf _ _ I))))
                             (proj2 (last_root_fresh h G r (mi_wf _ _ I)))).
Qed.

(** the public functions are the two case modes of it, as on the value level *)
Theorem C18_heap_gen_entry_points : forall oracle from to,
  GenMergeHeapDefs.cJSONUtils_GenerateMergePatch oracle from to = generate_merge_patch oracle from to false /\
  GenMergeHeapDefs.cJSONUtils_GenerateMergePatchCaseSensitive oracle from to = generate_merge_patch oracle from to true.
Proof. exact generate_entry_points. Qed.
Theorem C18_value_gen_entry_points :
  MergeDefs.cJSONUtils_GenerateMergePatch = MergeDefs.mp_GenerateMergePatch_gen false /\
  MergeDefs.cJSONUtils_GenerateMergePatchCaseSensitive = MergeDefs.mp_GenerateMergePatch_gen true.
Proof. exact (conj eq_refl eq_refl). Qed.

(** NULL arguments.  [to == NULL]: "patch to delete everything", a new null node; [from == NULL]:
    !cJSON_IsObject(NULL), so a duplicate of [to] *)
Theorem C18_heap_gen_null_to : forall (flag : bool) h F (from : ptr),
  MInv h F ->
  let t := T (h_next h) (CoreRefineHistory.rd_typed c_cJSON_NULL) [] in
  exists h', generate_merge_patch nofail from None flag h = Ret (Some (tid t), h') /\
    MInv h' (F ++ [t]) /\ (NoLeak h F -> NoLeak h' (F ++ [t])) /\ h_str h' = h_str h /\
    forall vfrom, MergeDefs.mp_GenerateMergePatch_gen flag vfrom None = Ok (Some (reify (h_str h') t), vfrom, None).
Proof. exact generate_null_to. Qed.
Print Assumptions C18_heap_gen_null_to.
Theorem C18_heap_gen_null_from : forall (flag : bool) h F t tt,
  MInv h F -> find_tree t F = Some tt -> (height tt <= Z.to_nat c_CJSON_CIRCULAR_LIMIT)%nat ->
  exists h' tc, generate_merge_patch nofail None (Some t) flag h = Ret (Some (tid tc), h') /\
    MInv h' (F ++ [tc]) /\ (NoLeak h F -> NoLeak h' (F ++ [tc])) /\ KeepO h h' F /\
    MergeDefs.mp_GenerateMergePatch_gen flag None (Some (reify (h_str h) tt)) =
      Ok (Some (reify (h_str h') tc), None, Some (reify (h_str h) tt)).
Proof. exact generate_null_from. Qed.
Print Assumptions C18_heap_gen_null_from.

(** the same at EVERY level of the recursion and for any sufficient fuel, with a passive part [X] of the forest
    (inside the recursion [X] holds the patch under construction): [df] bounds the nesting of [to], [lf] the
    member chains and the sort *)
Theorem C18_heap_gen_every_level : forall (df lf : nat) (flag : bool) tf tt h G X,
  (tsize tt <= df)%nat ->
  MInv h (G ++ X) -> find_tree (tid tf) G = Some tf -> find_tree (tid tt) G = Some tt -> tdisj tf tt ->
  (tsize tf + tsize tt < lf)%nat -> gdoc tf -> gdoc tt -> (height tt <= Z.to_nat c_CJSON_CIRCULAR_LIMIT)%nat ->
  exists h' G' (res : option tree) tf' tt',
    generate_merge_patch_fuel nofail df lf (Some (tid tf)) (Some (tid tt)) flag h = Ret (tid <$> res, h') /\
    MInv h' ((G' ++ X) ++ opt_list res) /\
    (NoLeak h (G ++ X) -> NoLeak h' ((G' ++ X) ++ opt_list res)) /\
    KeepO h h' (G ++ X) /\ Frame G G' (ids_t tf ++ ids_t tt) /\
    find_tree (tid tf) G' = Some tf' /\ find_tree (tid tt) G' = Some tt' /\ treord tf tf' /\ treord tt tt' /\
    forall fv, (height tt < fv)%nat ->
      MergeDefs.mp_generate_merge_patch fv flag (reify (h_str h) tf) (reify (h_str h) tt) =
      Ok (reify (h_str h') <$> res, reify (h_str h) tf', reify (h_str h) tt').
Proof.
  exact (fun df lf flag tf tt h G X Hdf I Hf Ht Hd Hlf Gf Gt Hh =>
           gen_rec df lf flag tf tt h G X Hdf (conj I (conj Hf (conj Ht (conj Hd (conj Hlf (conj Gf (conj Gt Hh)))))))).
Qed.
Print Assumptions C18_heap_gen_every_level.

(** the fuel of the entry points suffices: two disjoint subtrees of a well-formed forest have together fewer
    nodes than identities were handed out *)
Theorem C18_heap_gen_fuel : forall h F tf tt,
  WF h F -> tf ∈ nodes F -> tt ∈ nodes F -> tdisj tf tt -> (tsize tf + tsize tt < Pos.to_nat (h_next h))%nat.
Proof. exact two_subtrees_fuel. Qed.

(** THE LEDGER, exactly: before the call the live library blocks are those of the forest; afterwards those of
    the forest and of the result, and the two sets are disjoint — the blocks of the result are the only new ones,
    and every intermediate block (the duplicated keys that cJSON_AddItemToObject replaces, an empty patch) has
    been released *)
Theorem C18_heap_gen_ledger : forall (flag : bool) h F f t tf tt,
  MInv h F -> NoLeak h F -> find_tree f F = Some tf -> find_tree t F = Some tt -> tdisj tf tt ->
  gdoc tf -> gdoc tt -> (height tt <= Z.to_nat c_CJSON_CIRCULAR_LIMIT)%nat ->
  exists h' F' (res : option tree),
    generate_merge_patch nofail (Some f) (Some t) flag h = Ret (tid <$> res, h') /\
    WF h' (F' ++ opt_list res) /\ NoLeak h' (F' ++ opt_list res) /\
    (forall b, b ∈ lib_live h <-> b ∈ owned F) /\
    (forall b, b ∈ lib_live h' <-> b ∈ owned F \/ b ∈ owned (opt_list res)) /\
    (forall b, b ∈ owned F -> b ∉ owned (opt_list res)) /\
    (forall b, b ∈ owned F -> h_str h' !! b = h_str h !! b).
Proof. exact generate_ledger. Qed.
Print Assumptions C18_heap_gen_ledger.

(** for EVERY allocation-failure schedule the two functions are conservative (C07's generic half) *)
Theorem C18_heap_gen_conservative : forall oracle from to flag, Cons (generate_merge_patch oracle from to flag).
Proof. exact Cons_generate_merge_patch. Qed.
Print Assumptions C18_heap_gen_conservative.
Theorem C18_heap_gen_compare_conservative : forall a b flag, Cons (compare_json a b flag).
Proof. exact Cons_compare_json. Qed.

(** ------------------------------------------------------------------ 6.4 the round trip at heap level *)

(** [C18_generate] / [C18_generate_library] for the heap-level code: [from] a root, [to] a node outside it, both
    JSON documents in the sense of C18 below the duplication depth limit, no null member in [to].  The heap-level
    cJSONUtils_GenerateMergePatchCaseSensitive returns NULL — then [from] and [to] are equal documents — or a
    patch root [s]; and the heap-level cJSONUtils_MergePatchCaseSensitive(from, s) (section 2 of this file), run
    in the heap the generation ended in, returns a root that is EQUAL AS A DOCUMENT to [to] (as it is afterwards,
    and as it was before), with [to] and the patch untouched and nothing leaked *)
Theorem C18_heap_gen_roundtrip : forall h F f t tf tt,
  MInv h F -> find_root f F = Some tf -> find_tree t F = Some tt -> tdisj tf tt ->
  Rfc7396.m7396_doc (reify (h_str h) tf) = true -> Rfc7396.m7396_doc (reify (h_str h) tt) = true ->
  Rfc7396.no_null_member (reify (h_str h) tt) = true ->
  Rfc7396.m7396_depth_ok (reify (h_str h) tf) = true -> Rfc7396.m7396_depth_ok (reify (h_str h) tt) = true ->
  exists h1 F1 (res : option tree) tf' tt',
    GenMergeHeapDefs.cJSONUtils_GenerateMergePatchCaseSensitive nofail (Some f) (Some t) h = Ret (tid <$> res, h1) /\
    MInv h1 (F1 ++ opt_list res) /\ (NoLeak h F -> NoLeak h1 (F1 ++ opt_list res)) /\
    find_root f F1 = Some tf' /\ find_tree t F1 = Some tt' /\ treord tf tf' /\ treord tt tt' /\
    MergePerm.dperm (reify (h_str h) tt) (reify (h_str h1) tt') /\
    match res with
    | None => Rfc7396.doc_eq (reify (h_str h1) tf') (reify (h_str h1) tt') = true /\
              Rfc7396.doc_eq (reify (h_str h1) tf') (reify (h_str h) tt) = true
    | Some s =>
        let G := remove_root f F1 ++ [s] in
        exists h2 ty,
          MergeHeapDefs.cJSONUtils_MergePatchCaseSensitive nofail (Some f) (Some (tid s)) h1 = Ret (Some (tid ty), h2) /\
          MInv h2 (G ++ [ty]) /\ (NoLeak h F -> NoLeak h2 (G ++ [ty])) /\
          find_root (tid ty) (G ++ [ty]) = Some ty /\
          find_tree t (G ++ [ty]) = Some tt' /\ reify (h_str h2) tt' = reify (h_str h1) tt' /\
          Rfc7396.doc_eq (reify (h_str h2) ty) (reify (h_str h1) tt') = true /\
          Rfc7396.doc_eq (reify (h_str h2) ty) (reify (h_str h) tt) = true
    end.
Proof. exact generate_then_merge. Qed.
Print Assumptions C18_heap_gen_roundtrip.

(** ------------------------------------------------------------------ 6.5 non-vacuity *)

(** [exg_heap]: from (root 1) {"a":"b","c":{"d":1,"x":2}}, to (root 10) {"c":{"d":2},"e":[1]}.  Every hypothesis
    of [C18_heap_gen_refines], [_ledger] and [_roundtrip] holds. *)
Theorem C18_heap_gen_nonvacuous_hypotheses :
  MInv exg_heap exg_F /\ NoLeak exg_heap exg_F /\
  find_root 1%positive exg_F = Some exg_from /\ find_tree 1%positive exg_F = Some exg_from /\
  find_tree 10%positive exg_F = Some exg_to /\
  tdisj exg_from exg_to /\ gdoc exg_from /\ gdoc exg_to /\ (height exg_to <= Z.to_nat c_CJSON_CIRCULAR_LIMIT)%nat /\
  Rfc7396.m7396_doc (reify (h_str exg_heap) exg_from) = true /\
  Rfc7396.m7396_doc (reify (h_str exg_heap) exg_to) = true /\
  Rfc7396.no_null_member (reify (h_str exg_heap) exg_to) = true /\
  Rfc7396.m7396_depth_ok (reify (h_str exg_heap) exg_from) = true /\
  Rfc7396.m7396_depth_ok (reify (h_str exg_heap) exg_to) = true.
Proof. exact exg_hypotheses. Qed.
Print Assumptions C18_heap_gen_nonvacuous_hypotheses.

(** The heap-level code RUN on it ([vm_compute]): returns the new root 1000; read back by the structural walk
    [CoreOps.dump_node] (every chain healthy) the result is {"a":null,"c":{"d":2,"x":null},"e":[1]} = what the
    value-level model computes; the RFC 7396 evaluator applied to [from] and this patch gives [to]; both inputs
    read back as they were; the ledger is the two inputs and 12 new blocks (the same count a probe on /repo
    reports), the two key copies that came with the duplicates of "d":2 and "e":[1] have been released. *)
Theorem C18_heap_gen_nonvacuous_run :
  out_val exg_run = Some (Some 1000%positive) /\
  out_val (CoreOps.dump_node 50 (Some 1000%positive) exg_after) = Some (Some (exg_patch, true)) /\
  MergeDefs.cJSONUtils_GenerateMergePatchCaseSensitive (Some (reify exg_St exg_from)) (Some (reify exg_St exg_to)) =
    Ok (Some exg_patch, Some (reify exg_St exg_from), Some (reify exg_St exg_to)) /\
  Rfc7396.merge (Some (reify exg_St exg_from)) exg_patch = reify exg_St exg_to /\
  out_val (CoreOps.dump_node 50 (Some 1%positive) exg_after) = Some (Some (reify exg_St exg_from, true)) /\
  out_val (CoreOps.dump_node 50 (Some 10%positive) exg_after) = Some (Some (reify exg_St exg_to, true)) /\
  bool_decide (lib_live exg_after =
               list_to_set (owned exg_F ++ [1000; 1001; 1002; 1003; 1004; 1006; 1007; 1008; 1009; 1010; 1012; 1013]%positive)) = true /\
  forallb (fun b => bool_decide (b ∉ h_live exg_after)) [1005; 1011]%positive = true.
Proof. exact exg_result. Qed.
Print Assumptions C18_heap_gen_nonvacuous_run.
Theorem C18_heap_gen_nonvacuous_run_is :
  exg_run = GenMergeHeapDefs.cJSONUtils_GenerateMergePatchCaseSensitive nofail (Some 1%positive) (Some 10%positive) exg_heap /\
  exg_after = out_heap exg_run exg_heap.
Proof. exact exg_run_is. Qed.

(** … [C18_heap_gen_refines] instantiated on that very run … *)
Theorem C18_heap_gen_nonvacuous_instance :
  exists F' s tf' tt',
    exg_run = Ret (Some (tid s), exg_after) /\ tid s = 1000%positive /\
    MInv exg_after (F' ++ [s]) /\ NoLeak exg_after (F' ++ [s]) /\
    find_tree 1%positive F' = Some tf' /\ find_tree 10%positive F' = Some tt' /\ treord exg_from tf' /\ treord exg_to tt' /\
    reify (h_str exg_after) s = exg_patch /\
    reify (h_str exg_after) tf' = reify exg_St exg_from /\ reify (h_str exg_after) tt' = reify exg_St exg_to /\
    Rfc7396.merge (Some (reify (h_str exg_after) tf')) (reify (h_str exg_after) s) = reify (h_str exg_after) tt'.
Proof. exact exg_instance. Qed.
Print Assumptions C18_heap_gen_nonvacuous_instance.

(** … and the round trip: the heap-level cJSONUtils_MergePatchCaseSensitive(from, patch) RUN in the heap the
    generation ended in returns [from]'s pointer, [from] now reads back as {"c":{"d":2},"e":[1]} = [to], the patch
    and [to] read back unchanged; and [C18_heap_gen_roundtrip] instantiated on the two runs *)
Theorem C18_heap_gen_nonvacuous_roundtrip :
  out_val exg_run2 = Some (Some 1%positive) /\
  out_val (CoreOps.dump_node 50 (Some 1%positive) exg_after2) = Some (Some (reify exg_St exg_to, true)) /\
  out_val (CoreOps.dump_node 50 (Some 1000%positive) exg_after2) = Some (Some (exg_patch, true)) /\
  out_val (CoreOps.dump_node 50 (Some 10%positive) exg_after2) = Some (Some (reify exg_St exg_to, true)).
Proof. exact exg_roundtrip. Qed.
Print Assumptions C18_heap_gen_nonvacuous_roundtrip.
Theorem C18_heap_gen_nonvacuous_roundtrip_is :
  exg_run2 = MergeHeapDefs.cJSONUtils_MergePatchCaseSensitive nofail (Some 1%positive) (Some 1000%positive) exg_after /\
  exg_after2 = out_heap exg_run2 exg_after.
Proof. exact exg_run2_is. Qed.
Theorem C18_heap_gen_nonvacuous_roundtrip_instance :
  exists ty, exg_run2 = Ret (Some (tid ty), exg_after2) /\ tid ty = 1%positive /\
    Rfc7396.doc_eq (reify (h_str exg_after2) ty) (reify exg_St exg_to) = true.
Proof. exact exg_compose_instance. Qed.
Print Assumptions C18_heap_gen_nonvacuous_roundtrip_instance.

(** ------------------------------------------------------------------ 6.6 the hypothesis [gdoc] cannot be dropped *)

(** A member of [from] WITHOUT a name (what cJSON_AddItemToArray(object, item) builds), [to] = {}: every other
    hypothesis holds; cJSON_AddItemToObject(patch, NULL, cJSON_CreateNull()) refuses, generate_merge_patch ignores
    the refusal, returns NULL ("no patch"), and the null item — block 1001, without links — stays allocated,
    unreachable: [NoLeak] fails.  (Confirmed on /repo: NULL is returned and one allocation is outstanding after
    both inputs are deleted.) *)
Theorem C18_heap_gen_keyless_member_leaks :
  MInv exn_heap1 exn_F1 /\ NoLeak exn_heap1 exn_F1 /\
  find_tree 1%positive exn_F1 = Some exn_from1 /\ find_tree 10%positive exn_F1 = Some exn_to1 /\
  tdisj exn_from1 exn_to1 /\ gdoc exn_to1 /\ (height exn_to1 <= Z.to_nat c_CJSON_CIRCULAR_LIMIT)%nat /\ ~ gdoc exn_from1 /\
  out_val exn_run1 = Some None /\
  bool_decide (lib_live exn_after1 = list_to_set [1; 2; 10; 1001]%positive) = true /\
  h_lnk exn_after1 !! 1001%positive = Some (None, None) /\
  ~ NoLeak exn_after1 exn_F1.
Proof. exact keyless_from_member_leaks. Qed.
Print Assumptions C18_heap_gen_keyless_member_leaks.
Theorem C18_heap_gen_keyless_run_is :
  exn_run1 = GenMergeHeapDefs.cJSONUtils_GenerateMergePatchCaseSensitive nofail (Some 1%positive) (Some 10%positive) exn_heap1 /\
  exn_after1 = out_heap exn_run1 exn_heap1.
Proof. exact exn_run1_is. Qed.

(** Members without a name on BOTH sides: strcmp(from_child->string, to_child->string) reads through NULL.
    (On /repo: SEGV in strcmp called from generate_merge_patch.) *)
Theorem C18_heap_gen_keyless_null_deref :
  MInv exn_heap2 [exn_from1; exn_to2] /\
  out_err (GenMergeHeapDefs.cJSONUtils_GenerateMergePatchCaseSensitive nofail (Some 1%positive) (Some 10%positive) exn_heap2) = Some NullDeref.
Proof. exact keyless_members_null_deref. Qed.
Print Assumptions C18_heap_gen_keyless_null_deref.

(** Two string nodes WITHOUT a valuestring under the same name: compare_json calls strcmp(a->valuestring,
    b->valuestring).  (On /repo: SEGV in strcmp called from compare_json.) *)
Theorem C18_heap_gen_string_without_value_null_deref :
  MInv exn_heap3 [exn_from3; exn_to3] /\
  out_err (GenMergeHeapDefs.cJSONUtils_GenerateMergePatchCaseSensitive nofail (Some 1%positive) (Some 10%positive) exn_heap3) = Some NullDeref.
Proof. exact string_without_value_null_deref. Qed.
Print Assumptions C18_heap_gen_string_without_value_null_deref.
