(** CoreHistoryAllNull.v — more REFUSED calls of the alphabet [op2] as steps of the history
    theorem: calls that [CoreRefineHistoryObj.pre_ok2] does not list but that the API refuses
    without touching anything — a NULL array for detach / insert / replace / delete by index, a
    negative or too large index for replace / delete by index, a NULL replacement, a NULL object
    or a NULL name for the by-key lookups, detaches and deletes.  [refused2 S o]: the call is
    one of these; [Step_refused2]: it returns the failure value the list model predicts, the heap
    and the abstract state are unchanged. *)
From CJ Require Import Base Dbl Heap Forest ForestLemmas CoreSpec CoreDefs CoreRefineBase CoreRefine
  CoreRefineDelete CoreRefineReplace CoreRefineMore CoreRefineFrame CoreRefineHistory CoreRefineObject
  CoreRefineByKey CoreRefineAddObject CoreRefineHistoryObj CoreRefineHistoryObjEx CoreRefineCreate
  CoreLedgerGen CoreHistoryAllSteps.
From CJ.gen Require Import Constants.
From stdpp Require Import gmap.
Implicit Types (h : heap) (F : forest) (d : rdata).
Local Open Scope Z_scope.

Lemma strs_gc_refl F (m : gmap positive bytes) : strs_gc F F m = m.
Proof.
  apply map_eq. intros b. rewrite strs_gc_lookup. destruct (decide (released F F b)) as [[H1 H2]|]; [done|done].
Qed.
Lemma keep_same (A : astate) : mkAS (as_forest A) (as_next A) (as_req A) = A.
Proof. by destruct A. Qed.

(** a call of the array alphabet whose list model keeps the forest keeps the whole state *)
Lemma s2_arr_same S o r : spec_step nv (a_st S) o = (a_st S, r) -> s2 S (OArr o) = (S, r).
Proof.
  intros H. unfold s2, spec_step2. rewrite H. unfold a_forest. rewrite strs_gc_refl. by destruct S.
Qed.
Lemma with_forest_same S : with_forest S (a_forest S) = S.
Proof. unfold with_forest. rewrite strs_gc_refl. unfold a_forest. rewrite keep_same. by destruct S. Qed.

Definition plain_node (S : astate2) (a : ptr) (p : positive) (d : rdata) (cs : list tree) : Prop :=
  a = Some p /\ find_tree p (a_forest S) = Some (T p d cs) /\ is_ref d = false.

Definition refused2 (S : astate2) (o : op2) : Prop :=
  match o with
  | OArr (ODetachIdx a w) => a = None
  | OArr (OInsert a w n) => a = None
  | OArr (OReplaceIdx a w n) =>
      a = None \/ w < 0 \/
      exists p d cs, plain_node S a p d cs /\ (n = None \/ cs = [] \/ (length cs <= Z.to_nat w)%nat)
  | OArr (ODeleteIdx a w) =>
      a = None \/ w < 0 \/ exists p d cs, plain_node S a p d cs /\ (length cs <= Z.to_nat w)%nat
  | OGetKey ob n _ | ODetachKey ob n _ | ODeleteKey ob n _ => ob = None \/ n = None
  | _ => False
  end.

Lemma get_array_item_null w h : get_array_item None w h = Ret (None, h).
Proof. reflexivity. Qed.
Lemma get_object_item_null ob n cs h : ob = None \/ n = None -> get_object_item ob n cs h = Ret (None, h).
Proof. intros [->| ->]; [done|]. by destruct ob. Qed.
Lemma spec_get_key_null strs F ob n cs : ob = None \/ n = None -> spec_get_key strs F ob n cs = None.
Proof. intros [->| ->]; [done|]. by destruct ob. Qed.
Lemma detach_null_item ob h : cJSON_DetachItemViaPointer ob None h = Ret (None, h).
Proof. by destruct ob. Qed.
Lemma spec_detach_null_item F ob : spec_detach F ob None = (F, None).
Proof. by destruct ob. Qed.

Lemma Step_refused2 S o : refused2 S o -> Step (run_op2 nv o) S (s2 S o).1 (s2 S o).2.
Proof.
  intros Href. destruct o as [o|c|ob n i ck|ob n cs|ob n cs|ob n cs]; try done.
  - destruct o as [ty|a i|pa it|a w|a w n|pa it rp|a w n|it|a w|a|a i]; try done; cbn [refused2] in Href.
    + (* detach by index, NULL array *)
      subst a. assert (E : s2 S (OArr (ODetachIdx None w)) = (S, RPtr None)).
      { apply s2_arr_same. cbn [spec_step]. unfold spec_detach_index. destruct (w <? 0); cbn; by rewrite keep_same. }
      rewrite E. apply Step_same. intros h _. cbn [run_op2 run_op]. unfold cJSON_DetachItemFromArray.
      by destruct (w <? 0).
    + (* insert, NULL array *)
      subst a. assert (E : s2 S (OArr (OInsert None w n)) = (S, RBool false)).
      { apply s2_arr_same. cbn [spec_step]. unfold spec_insert. destruct n as [x|]; [|by rewrite keep_same].
        rewrite bool_decide_false by done. rewrite orb_false_r.
        destruct (w <? 0); cbn [spec_get_index spec_add_to_array]; by rewrite keep_same. }
      rewrite E. apply Step_same. intros h _. cbn [run_op2 run_op]. unfold cJSON_InsertItemInArray.
      destruct (w <? 0); [done|]. by destruct n as [x|].
    + (* replace by index *)
      destruct Href as [->|[Hw|(p & d & cs & (-> & Hp & Hr) & Hcase)]].
      * assert (E : s2 S (OArr (OReplaceIdx None w n)) = (S, RBool false)).
        { apply s2_arr_same. cbn [spec_step]. unfold spec_replace_index. destruct (w <? 0); cbn; by rewrite keep_same. }
        rewrite E. apply Step_same. intros h _. cbn [run_op2 run_op]. unfold cJSON_ReplaceItemInArray.
        by destruct (w <? 0).
      * apply Z.ltb_lt in Hw.
        assert (E : s2 S (OArr (OReplaceIdx a w n)) = (S, RBool false)).
        { apply s2_arr_same. cbn [spec_step]. unfold spec_replace_index. rewrite Hw. by rewrite keep_same. }
        rewrite E. apply Step_same. intros h _. cbn [run_op2 run_op]. unfold cJSON_ReplaceItemInArray. by rewrite Hw.
      * destruct (Z.ltb_spec w 0) as [Hlt|Hge].
        { assert (E : s2 S (OArr (OReplaceIdx (Some p) w n)) = (S, RBool false)).
          { apply s2_arr_same. cbn [spec_step]. unfold spec_replace_index. apply Z.ltb_lt in Hlt. rewrite Hlt. by rewrite keep_same. }
          rewrite E. apply Step_same. intros h _. cbn [run_op2 run_op]. unfold cJSON_ReplaceItemInArray.
          apply Z.ltb_lt in Hlt. by rewrite Hlt. }
        assert (Hcase' : cs = [] \/ spec_get_index (a_forest S) (Some p) w = None \/ n = None).
        { destruct Hcase as [?|[?|Hlen]]; [by right; right|by left|right; left].
          unfold spec_get_index, children_of. rewrite Hp. cbn. apply lookup_ge_None. by rewrite fmap_length. }
        assert (Hge' : (w <? 0) = false) by (by apply Z.ltb_ge).
        apply Step_intro; [apply Cons_run_op2|]. intros h HA. pose proof HA as [((W & _) & _) _].
        destruct (cJSON_ReplaceItemViaPointer_refused h _ p d cs _ n W Hp Hr Hcase') as [Hspec Hrun].
        assert (E : s2 S (OArr (OReplaceIdx (Some p) w n)) = (S, RBool false)).
        { apply s2_arr_same. cbn [spec_step]. unfold spec_replace_index. rewrite Hge'.
          unfold a_forest in Hspec. rewrite Hspec. by rewrite keep_same. }
        rewrite E. exists h. split; [|apply HA]. cbn [run_op2 run_op fst snd]. unfold cJSON_ReplaceItemInArray. rewrite Hge'. rewrite !bindM_assoc.
        rewrite (bindM_Ret _ _ _ _ _ (get_array_item_sim h _ p d cs w W Hp Hr Hge)). by rewrite (bindM_Ret _ _ _ _ _ Hrun).
    + (* delete by index *)
      destruct Href as [->|[Hw|(p & d & cs & (-> & Hp & Hr) & Hlen)]].
      * assert (E : s2 S (OArr (ODeleteIdx None w)) = (S, RUnit)).
        { apply s2_arr_same. cbn [spec_step]. unfold spec_delete_index, spec_detach_index. destruct (w <? 0); cbn; by rewrite keep_same. }
        rewrite E. apply Step_same. intros h _. cbn [run_op2 run_op]. unfold cJSON_DeleteItemFromArray, cJSON_DetachItemFromArray.
        assert (Hd : forall q : ptr, (cJSON_Delete q ;;; ret RUnit) h = Ret (RUnit, h) -> 
                  (x <~ ret q ;; cJSON_Delete x ;;; ret RUnit) h = Ret (RUnit, h)) by (intros q Hq; exact Hq).
        destruct (w <? 0); cbn [bindM ret is_null orb get_array_item cJSON_DetachItemViaPointer];
          by rewrite (bindM_Ret _ _ _ _ _ (cJSON_Delete_null h)).
      * apply Z.ltb_lt in Hw.
        assert (E : s2 S (OArr (ODeleteIdx a w)) = (S, RUnit)).
        { apply s2_arr_same. cbn [spec_step]. unfold spec_delete_index, spec_detach_index. rewrite Hw. cbn. by rewrite keep_same. }
        rewrite E. apply Step_same. intros h _. cbn [run_op2 run_op]. unfold cJSON_DeleteItemFromArray, cJSON_DetachItemFromArray.
        rewrite Hw. rewrite bindM_assoc, bindM_ret. by rewrite (bindM_Ret _ _ _ _ _ (cJSON_Delete_null h)).
      * apply Step_intro; [apply Cons_run_op2|]. intros h HA. pose proof HA as [((W & _) & _) _].
        destruct (cJSON_DetachItemFromArray_refused h _ p d cs w W Hp Hr (or_intror Hlen)) as [Hspec Hrun].
        assert (E : s2 S (OArr (ODeleteIdx (Some p) w)) = (S, RUnit)).
        { apply s2_arr_same. cbn [spec_step]. unfold spec_delete_index. unfold a_forest in Hspec. rewrite Hspec. cbn. by rewrite keep_same. }
        rewrite E. exists h. split; [|apply HA]. cbn [run_op2 run_op fst snd]. unfold cJSON_DeleteItemFromArray.
        rewrite !bindM_assoc. rewrite (bindM_Ret _ _ _ _ _ Hrun). by rewrite (bindM_Ret _ _ _ _ _ (cJSON_Delete_null h)).
  - (* lookup by key with a NULL object / name *)
    cbn [refused2] in Href. unfold s2. cbn [spec_step2 fst snd]. rewrite (spec_get_key_null _ _ _ _ _ Href).
    apply Step_same. intros h _. cbn [run_op2]. by rewrite (bindM_Ret _ _ _ _ _ (get_object_item_null ob n cs h Href)).
  - (* detach by key *)
    cbn [refused2] in Href. unfold s2. cbn [spec_step2]. unfold spec_detach_key. rewrite (spec_get_key_null _ _ _ _ _ Href).
    rewrite spec_detach_null_item. cbn [fst snd]. rewrite with_forest_same.
    apply Step_same. intros h _. cbn [run_op2]. rewrite !bindM_assoc.
    rewrite (bindM_Ret _ _ _ _ _ (get_object_item_null ob n cs h Href)). by rewrite (bindM_Ret _ _ _ _ _ (detach_null_item ob h)).
  - (* delete by key *)
    cbn [refused2] in Href. unfold s2. cbn [spec_step2]. unfold spec_delete_key, spec_detach_key. rewrite (spec_get_key_null _ _ _ _ _ Href).
    rewrite spec_detach_null_item. cbn [spec_delete fst snd]. rewrite with_forest_same.
    apply Step_same. intros h _. cbn [run_op2]. rewrite !bindM_assoc.
    rewrite (bindM_Ret _ _ _ _ _ (get_object_item_null ob n cs h Href)). rewrite (bindM_Ret _ _ _ _ _ (detach_null_item ob h)).
    by rewrite (bindM_Ret _ _ _ _ _ (cJSON_Delete_null h)).
Qed.

(** the boolean form *)
Definition plain_nodeb (S : astate2) (a : ptr) (f : list tree -> bool) : bool :=
  match a with
  | Some p => match find_tree p (a_forest S) with
              | Some nd => negb (is_ref (tdata nd)) && f (tchildren nd)
              | None => false
              end
  | None => false
  end.
Definition refused2b (S : astate2) (o : op2) : bool :=
  match o with
  | OArr (ODetachIdx a w) => is_none a
  | OArr (OInsert a w n) => is_none a
  | OArr (OReplaceIdx a w n) =>
      is_none a || (w <? 0) || plain_nodeb S a (fun cs => is_none n || is_nil cs || (length cs <=? Z.to_nat w)%nat)
  | OArr (ODeleteIdx a w) => is_none a || (w <? 0) || plain_nodeb S a (fun cs => (length cs <=? Z.to_nat w)%nat)
  | OGetKey ob n _ | ODetachKey ob n _ | ODeleteKey ob n _ => is_none ob || is_none n
  | _ => false
  end.

Lemma is_none_None {A} (o : option A) : is_none o = true -> o = None.
Proof. by destruct o. Qed.
Lemma plain_nodeb_sound S a f : plain_nodeb S a f = true -> exists p d cs, plain_node S a p d cs /\ f cs = true.
Proof.
  unfold plain_nodeb. destruct a as [p|]; [|done]. destruct (find_tree p (a_forest S)) as [nd|] eqn:Hp; [|done].
  intros H. apply andb_true_iff in H as [H1 H2]. apply negb_true_iff in H1.
  exists p, (tdata nd), (tchildren nd). split; [|done]. split_and!; [done| |done]. by rewrite <- (find_tree_shape _ _ _ Hp).
Qed.
Lemma refused2b_sound S o : refused2b S o = true -> refused2 S o.
Proof.
  destruct o as [o|c|ob n i ck|ob n cs|ob n cs|ob n cs]; try done; cbn [refused2b refused2].
  - destruct o as [ty|a i|pa it|a w|a w n|pa it rp|a w n|it|a w|a|a i]; try done; intros H.
    + by apply is_none_None.
    + by apply is_none_None.
    + apply orb_true_iff in H as [H|H]; [apply orb_true_iff in H as [H|H]; [left; by apply is_none_None|right; left; by apply Z.ltb_lt]|].
      right. right. destruct (plain_nodeb_sound _ _ _ H) as (p & d & cs & HP & Hf). exists p, d, cs. split; [done|].
      apply orb_true_iff in Hf as [Hf|Hf]; [apply orb_true_iff in Hf as [Hf|Hf]|].
      * left. by apply is_none_None.
      * right. left. by destruct cs.
      * right. right. by apply Nat.leb_le.
    + apply orb_true_iff in H as [H|H]; [apply orb_true_iff in H as [H|H]; [left; by apply is_none_None|right; left; by apply Z.ltb_lt]|].
      right. right. destruct (plain_nodeb_sound _ _ _ H) as (p & d & cs & HP & Hf). exists p, d, cs. split; [done|]. by apply Nat.leb_le.
  - intros H. apply orb_true_iff in H as [H|H]; [left|right]; by apply is_none_None.
  - intros H. apply orb_true_iff in H as [H|H]; [left|right]; by apply is_none_None.
  - intros H. apply orb_true_iff in H as [H|H]; [left|right]; by apply is_none_None.
Qed.

(** … and the abstract state is literally unchanged *)
Lemma refused2_unchanged h S o : Abs3 h S -> refused2 S o -> (s2 S o).1 = S.
Proof.
  intros HA Href. pose proof HA as [((W & _) & _) _].
  destruct o as [o|c|ob n i ck|ob n cs|ob n cs|ob n cs]; try done.
  - destruct o as [ty|a i|pa it|a w|a w n|pa it rp|a w n|it|a w|a|a i]; try done; cbn [refused2] in Href.
    + subst a. erewrite s2_arr_same; [done|]. cbn [spec_step]. unfold spec_detach_index. destruct (w <? 0); cbn; by rewrite keep_same.
    + subst a. erewrite s2_arr_same; [done|]. cbn [spec_step]. unfold spec_insert. destruct n as [x|]; [|by rewrite keep_same].
      rewrite bool_decide_false by done. rewrite orb_false_r.
      destruct (w <? 0); cbn [spec_get_index spec_add_to_array]; by rewrite keep_same.
    + erewrite s2_arr_same; [done|]. cbn [spec_step]. unfold spec_replace_index.
      destruct (Z.ltb_spec w 0) as [Hlt|Hge]; [by rewrite keep_same|].
      destruct Href as [->|[Hw|(p & d & cs & (-> & Hp & Hr) & Hcase)]]; [cbn; by rewrite keep_same|lia|].
      assert (Hcase' : cs = [] \/ spec_get_index (a_forest S) (Some p) w = None \/ n = None).
      { destruct Hcase as [?|[?|Hlen]]; [by right; right|by left|right; left].
        unfold spec_get_index, children_of. rewrite Hp. cbn. apply lookup_ge_None. by rewrite fmap_length. }
      destruct (cJSON_ReplaceItemViaPointer_refused h _ p d cs _ n W Hp Hr Hcase') as [Hspec _].
      unfold a_forest in Hspec. rewrite Hspec. by rewrite keep_same.
    + erewrite s2_arr_same; [done|]. cbn [spec_step]. unfold spec_delete_index.
      destruct Href as [->|[Hw|(p & d & cs & (-> & Hp & Hr) & Hlen)]].
      * unfold spec_detach_index. destruct (w <? 0); cbn; by rewrite keep_same.
      * unfold spec_detach_index. apply Z.ltb_lt in Hw. rewrite Hw. cbn. by rewrite keep_same.
      * destruct (cJSON_DetachItemFromArray_refused h _ p d cs w W Hp Hr (or_intror Hlen)) as [Hspec _].
        unfold a_forest in Hspec. rewrite Hspec. cbn. by rewrite keep_same.
  - cbn [refused2] in Href. unfold s2. cbn [spec_step2]. unfold spec_detach_key. rewrite (spec_get_key_null _ _ _ _ _ Href).
    rewrite spec_detach_null_item. cbn [fst snd]. by rewrite with_forest_same.
  - cbn [refused2] in Href. unfold s2. cbn [spec_step2]. unfold spec_delete_key, spec_detach_key. rewrite (spec_get_key_null _ _ _ _ _ Href).
    rewrite spec_detach_null_item. cbn [spec_delete fst snd]. by rewrite with_forest_same.
Qed.
