(** PatchConform.v — the JSON Patch model (PatchDefs.v) against RFC 6902 (Rfc6902.v), part 1:
    infrastructure — string and member lookups, splitting a pointer at its last '/', resolving
    the parent location, list surgery, the well-formedness invariant [dwf], equality of documents. *)
From Coq Require Import Lia ZArith List Bool Permutation.
From CJ Require CompareProofs.
From CJ Require Import Base Dbl Tree PointerDefs PointerProofs CompareDefs PatchDefs PatchProofs PatchRobust Rfc6902.
Import ListNotations.
Local Open Scope Z_scope.

Definition nz (s : bytes) : Prop := Forall (fun c => c <> 0) s.

(** ---------- strings ---------- *)
Lemma strcmp_eqb a : forall b, nz a -> nz b -> (strcmp a b =? 0) = bytes_eqb a b.
Proof.
  induction a as [|x a IH]; intros [|y b] Ha Hb; cbn [strcmp bytes_eqb].
  - reflexivity.
  - inversion Hb; subst. apply Z.eqb_neq. lia.
  - inversion Ha; subst. apply Z.eqb_neq. assumption.
  - inversion Ha; subst. inversion Hb; subst. zeq x y.
    + cbn [andb]. apply IH; assumption.
    + cbn [andb]. apply Z.eqb_neq. lia.
Qed.

Lemma bytes_eqb_sym a b : bytes_eqb a b = bytes_eqb b a.
Proof.
  destruct (bytes_eqb a b) eqn:E.
  - apply bytes_eqb_eq in E. subst. symmetry. apply bytes_eqb_refl.
  - destruct (bytes_eqb b a) eqn:E2; [|reflexivity]. apply bytes_eqb_eq in E2. subst. rewrite bytes_eqb_refl in E. discriminate.
Qed.

Lemma key_bytes_nz k : key_bytes_ok k -> nz k.
Proof. unfold key_bytes_ok, nz. apply Forall_impl. intros; lia. Qed.

Definition keyed_children (cs : list node) : Prop := Forall (fun c => exists k, n_key c = Some k /\ key_bytes_ok k) cs.

Lemma get_item_cs_find_key : forall cs name s, keyed_children cs -> nz name ->
  get_object_item_cs cs name s = find_key cs name s.
Proof.
  induction cs as [|c r IH]; intros name s Hk Hn; cbn [get_object_item_cs find_key]; [reflexivity|].
  inversion Hk as [|? ? (k & Ek & Hkb) Hr]; subst. rewrite Ek.
  rewrite strcmp_eqb by (try assumption; apply key_bytes_nz; assumption).
  rewrite (bytes_eqb_sym name k). destruct (bytes_eqb k name); [reflexivity|]. apply IH; assumption.
Qed.

Lemma get_object_item_member n name : keyed_children (n_children n) -> nz name ->
  get_object_item n (Some name) true = find_key (n_children n) name 0%nat.
Proof. intros. unfold get_object_item. apply get_item_cs_find_key; assumption. Qed.

(** ---------- splitting a pointer at its last '/' ---------- *)
Lemma last_slash_shift : forall p i acc,
  last_slash p i acc = match last_slash p 0 None with Some j => Some (i + j)%nat | None => acc end.
Proof.
  induction p as [|c r IH]; intros i acc; cbn [last_slash]; [reflexivity|].
  rewrite (IH (S i)). rewrite (IH 1%nat). zeq c 47.
  - destruct (last_slash r 0 None) as [j|]; [f_equal; lia | f_equal; lia].
  - destruct (last_slash r 0 None) as [j|]; [f_equal; lia | reflexivity].
Qed.

Lemma last_slash_cons c r :
  last_slash (c :: r) 0 None =
  match last_slash r 0 None with
  | Some j => Some (S j)
  | None => if c =? 47 then Some 0%nat else None
  end.
Proof.
  cbn [last_slash]. rewrite last_slash_shift. destruct (last_slash r 0 None) as [j|]; reflexivity.
Qed.

Lemma removelast_cons {A} (x : A) l : l <> [] -> removelast (x :: l) = x :: removelast l.
Proof. destruct l; [contradiction | reflexivity]. Qed.
Lemma last_cons {A} (x : A) l d : l <> [] -> last (x :: l) d = last l d.
Proof. destruct l; [contradiction | reflexivity]. Qed.

Lemma split_slash_nonempty r : forall cur, split_slash r cur <> [].
Proof. induction r as [|c r IH]; intro cur; cbn [split_slash]; [discriminate|]. zeq c 47; [discriminate | apply IH]. Qed.

Lemma split_slash_last : forall r cur,
  match last_slash r 0 None with
  | None => split_slash r cur = [rev cur ++ r]
  | Some j => removelast (split_slash r cur) = split_slash (firstn j r) cur /\
              last (split_slash r cur) [] = skipn (S j) r
  end.
Proof.
  induction r as [|c r IH]; intro cur.
  - cbn. rewrite app_nil_r. reflexivity.
  - rewrite last_slash_cons. cbn [split_slash]. zeq c 47.
    + subst c. specialize (IH []). destruct (last_slash r 0 None) as [j|].
      * destruct IH as [IH1 IH2]. cbn [firstn split_slash skipn]. rewrite Z.eqb_refl.
        rewrite removelast_cons by apply split_slash_nonempty. rewrite last_cons by apply split_slash_nonempty.
        rewrite IH1. split; [reflexivity | exact IH2].
      * rewrite IH. cbn. split; reflexivity.
    + specialize (IH (c :: cur)). destruct (last_slash r 0 None) as [j|].
      * destruct IH as [IH1 IH2]. cbn [firstn split_slash skipn]. zeq c 47; [contradiction|]. split; assumption.
      * rewrite IH. cbn [rev]. rewrite <- app_assoc. reflexivity.
Qed.

Lemma last_slash_tail_noslash : forall r,
  match last_slash r 0 None with
  | None => Forall (fun c => c <> 47) r
  | Some j => Forall (fun c => c <> 47) (skipn (S j) r)
  end.
Proof.
  induction r as [|c r IH]; [constructor|].
  rewrite last_slash_cons. destruct (last_slash r 0 None) as [j|].
  - cbn [skipn]. exact IH.
  - zeq c 47; [cbn [skipn]; exact IH | constructor; assumption].
Qed.

Lemma all_some_app {A} (l1 : list (option A)) : forall l2 r,
  all_some (l1 ++ l2) = Some r <->
  exists r1 r2, all_some l1 = Some r1 /\ all_some l2 = Some r2 /\ r = r1 ++ r2.
Proof.
  induction l1 as [|x l1 IH]; intros l2 r; cbn [app all_some].
  - split.
    + intro H. exists [], r. repeat split; assumption.
    + intros (r1 & r2 & H1 & H2 & H3). inversion H1; subst. exact H2.
  - destruct x as [a|].
    + split.
      * intro H. destruct (all_some (l1 ++ l2)) as [r'|] eqn:E; [|discriminate]. cbn in H. inversion H; subst.
        apply IH in E. destruct E as (r1 & r2 & H1 & H2 & H3). exists (a :: r1), r2. rewrite H1. cbn. subst. repeat split; assumption.
      * intros (r1 & r2 & H1 & H2 & H3). destruct (all_some l1) as [r1'|] eqn:E1; [|discriminate]. cbn in H1. inversion H1; subst.
        assert (E : all_some (l1 ++ l2) = Some (r1' ++ r2)) by (apply IH; exists r1', r2; repeat split; assumption).
        rewrite E. reflexivity.
    + split; [discriminate|]. intros (r1 & r2 & H1 & _). discriminate.
Qed.

Lemma app_removelast_last' {A} (l : list A) d : l <> [] -> l = removelast l ++ [last l d].
Proof. apply app_removelast_last. Qed.

Lemma In_firstn {A} n (l : list A) x : In x (firstn n l) -> In x l.
Proof. revert l; induction n as [|n IH]; intros l H; [contradiction|]. destruct l; [contradiction|]. destruct H as [H|H]; [left; exact H | right; apply IH; exact H]. Qed.
Lemma nz_firstn n (s : bytes) : nz s -> nz (firstn n s).
Proof. unfold nz. rewrite !Forall_forall. intros H x Hx. apply H. eapply In_firstn; exact Hx. Qed.
Lemma In_skipn {A} n (l : list A) x : In x (skipn n l) -> In x l.
Proof. revert l; induction n as [|n IH]; intros l H; [exact H|]. destruct l; [contradiction|]. right. apply IH. exact H. Qed.
Lemma nz_skipn n (s : bytes) : nz s -> nz (skipn n s).
Proof. unfold nz. rewrite !Forall_forall. intros H x Hx. apply H. eapply In_skipn; exact Hx. Qed.

(* a non-empty pointer: the code's split (strrchr) against the RFC token list *)
Lemma pointer_split pstr toks : pstr <> [] -> rfc_parse_pointer pstr = Some toks ->
  exists i ptoks t,
    last_slash pstr 0 None = Some i /\
    rfc_parse_pointer (firstn i pstr) = Some ptoks /\
    unescape (skipn (S i) pstr) = Some t /\
    toks = ptoks ++ [t] /\
    Forall (fun c => c <> 47) (skipn (S i) pstr).
Proof.
  intros Hne Hp. destruct pstr as [|c r]; [contradiction|].
  cbn [rfc_parse_pointer] in Hp. zeq c 47; [subst c|discriminate].
  rewrite last_slash_cons. rewrite Z.eqb_refl.
  pose proof (split_slash_last r []) as S. pose proof (last_slash_tail_noslash r) as T.
  destruct (last_slash r 0 None) as [j|].
  - destruct S as [S1 S2].
    rewrite (app_removelast_last' (split_slash r []) []) in Hp by apply split_slash_nonempty.
    rewrite map_app in Hp. apply all_some_app in Hp. destruct Hp as (r1 & r2 & H1 & H2 & H3).
    rewrite S1 in H1. rewrite S2 in H2. cbn [map all_some] in H2.
    destruct (unescape (skipn (S j) r)) as [t|] eqn:U; [|discriminate]. cbn in H2. inversion H2; subst r2.
    exists (S j), r1, t. cbn [firstn skipn rfc_parse_pointer]. rewrite Z.eqb_refl.
    repeat split; try assumption.
  - rewrite S in Hp. cbn [rev app map all_some] in Hp.
    destruct (unescape r) as [t|] eqn:U; [|discriminate]. cbn in Hp. inversion Hp; subst toks.
    exists 0%nat, [], t. cbn [firstn skipn rfc_parse_pointer]. repeat split; try assumption.
Qed.

Lemma split_last_snoc (a : list bytes) t : split_last (a ++ [t]) = Some (a, t).
Proof. unfold split_last. rewrite rev_app_distr. cbn [rev app]. rewrite rev_involutive. reflexivity. Qed.

(** ---------- list surgery: the code's functions = the RFC file's definitions ---------- *)
Lemma replace_nth_upd {A} : forall i (x : A) l, (i < length l)%nat -> replace_nth i x l = upd_nth i x l.
Proof.
  intros i x l; revert i; induction l as [|y l IH]; intros i H; cbn [length] in H; [lia|].
  destruct i as [|i]; [reflexivity|]. cbn [replace_nth]. unfold upd_nth in *. cbn [firstn skipn app]. f_equal. apply IH. lia.
Qed.
Lemma remove_nth_del {A} : forall i (l : list A), remove_nth i l = del_nth i l.
Proof.
  intros i l; revert i; induction l as [|y l IH]; intros i.
  - unfold del_nth. rewrite firstn_nil, skipn_nil. reflexivity.
  - destruct i as [|i]; [reflexivity|]. cbn [remove_nth]. unfold del_nth in *. cbn [firstn skipn app]. f_equal. apply IH.
Qed.
Lemma insert_nth_ins {A} : forall i (x : A) l, (i <= length l)%nat -> insert_nth i x l = ins_nth i x l.
Proof.
  induction i as [|i IH]; intros x l H; [reflexivity|].
  destruct l as [|y l]; cbn [length] in H; [lia|].
  cbn [insert_nth]. unfold ins_nth in *. cbn [firstn skipn app]. f_equal. apply IH. lia.
Qed.

Lemma with_children_set n cs : with_children n cs = set_children n cs.
Proof. reflexivity. Qed.

(** ---------- resolving the parent location ---------- *)
Lemma find_key_nth_gen t : forall l s i ch, find_key l t s = Some (i, ch) -> (s <= i)%nat /\ nth_error l (i - s) = Some ch.
Proof.
  induction l as [|c r IHl]; intros s i ch E; cbn [find_key] in E; [discriminate|].
  destruct (match n_key c with Some k' => bytes_eqb k' t | None => false end).
  - inversion E; subst. rewrite Nat.sub_diag. split; [lia | reflexivity].
  - apply IHl in E. destruct E as [E1 E2]. split; [lia|]. replace (i - s)%nat with (S (i - S s)) by lia. exact E2.
Qed.
Lemma find_key_nth t l i ch : find_key l t 0%nat = Some (i, ch) -> nth_error l i = Some ch.
Proof. intro E. apply find_key_nth_gen in E. rewrite Nat.sub_0_r in E. apply E. Qed.
Lemma find_key_key t : forall l s i ch, find_key l t s = Some (i, ch) -> n_key ch = Some t.
Proof.
  induction l as [|c r IHl]; intros s i ch E; cbn [find_key] in E; [discriminate|].
  destruct (n_key c) as [k'|] eqn:Ek.
  - destruct (bytes_eqb k' t) eqn:Eb.
    + inversion E; subst. apply bytes_eqb_eq in Eb. subst. exact Ek.
    + eapply IHl; exact E.
  - eapply IHl; exact E.
Qed.

Lemma rfc_resolve_subtree : forall toks d pp, rfc_resolve d toks = Some pp -> exists par, subtree d pp = Some par.
Proof.
  induction toks as [|t ts IH]; intros d pp H; cbn [rfc_resolve] in H.
  - inversion H; subst. exists d. reflexivity.
  - destruct (is_array d).
    + destruct (rfc_array_index t) as [idx|]; [|discriminate].
      destruct (nth_z (n_children d) idx) as [ch|] eqn:N; [|discriminate].
      destruct (rfc_resolve ch ts) as [p'|] eqn:R; [|discriminate]. cbn in H. inversion H; subst.
      destruct (IH _ _ R) as (par & Hp). exists par. cbn [subtree]. rewrite (nth_z_nth _ _ _ N). exact Hp.
    + destruct (is_object d); [|discriminate].
      destruct (find_key (n_children d) t 0%nat) as [[i ch]|] eqn:K; [|discriminate].
      destruct (rfc_resolve ch ts) as [p'|] eqn:R; [|discriminate]. cbn in H. inversion H; subst.
      destruct (IH _ _ R) as (par & Hp). exists par. cbn [subtree]. rewrite (find_key_nth _ _ _ _ K). exact Hp.
Qed.

(* the RFC file's navigation, expressed with the path the pointer resolves to *)
Lemma get_resolve : forall toks d,
  get d toks = match rfc_resolve d toks with Some pp => subtree d pp | None => None end.
Proof.
  induction toks as [|t ts IH]; intro d; cbn [get rfc_resolve]; [reflexivity|].
  destruct (is_array d).
  - destruct (rfc_array_index t) as [idx|]; [|reflexivity].
    destruct (nth_z (n_children d) idx) as [ch|] eqn:N; [|reflexivity].
    rewrite IH. destruct (rfc_resolve ch ts) as [p'|]; [|reflexivity]. cbn [option_map subtree].
    rewrite (nth_z_nth _ _ _ N). reflexivity.
  - destruct (is_object d); [|reflexivity].
    destruct (find_key (n_children d) t 0%nat) as [[i ch]|] eqn:K; [|reflexivity].
    rewrite IH. destruct (rfc_resolve ch ts) as [p'|]; [|reflexivity]. cbn [option_map subtree].
    rewrite (find_key_nth _ _ _ _ K). reflexivity.
Qed.

Lemma at_location_resolve f : forall toks d,
  at_location d toks f =
  match rfc_resolve d toks with
  | Some pp => match subtree d pp with
               | Some par => match f par with Some par' => Some (put_subtree d pp par') | None => None end
               | None => None
               end
  | None => None
  end.
Proof.
  induction toks as [|t ts IH]; intro d; cbn [at_location rfc_resolve].
  - cbn [subtree put_subtree]. destruct (f d); reflexivity.
  - destruct (is_array d).
    + destruct (rfc_array_index t) as [idx|]; [|reflexivity].
      destruct (nth_z (n_children d) idx) as [ch|] eqn:N; [|reflexivity].
      pose proof (nth_z_nth _ _ _ N) as N'.
      rewrite IH. destruct (rfc_resolve ch ts) as [p'|]; [|reflexivity]. cbn [option_map subtree put_subtree].
      rewrite N'. destruct (subtree ch p') as [par|]; [|reflexivity].
      destruct (f par) as [par'|]; [|reflexivity].
      rewrite with_children_set. rewrite replace_nth_upd; [reflexivity|].
      apply nth_error_Some. rewrite N'. discriminate.
    + destruct (is_object d); [|reflexivity].
      destruct (find_key (n_children d) t 0%nat) as [[i ch]|] eqn:K; [|reflexivity].
      pose proof (find_key_nth _ _ _ _ K) as N'.
      rewrite IH. destruct (rfc_resolve ch ts) as [p'|]; [|reflexivity]. cbn [option_map subtree put_subtree].
      rewrite N'. destruct (subtree ch p') as [par|]; [|reflexivity].
      destruct (f par) as [par'|]; [|reflexivity].
      rewrite with_children_set. rewrite replace_nth_upd; [reflexivity|].
      apply nth_error_Some. rewrite N'. discriminate.
Qed.

(** ---------- well-formed documents ---------- *)
Definition local_ok (ty : Z) (vs : option bytes) (vd : dbl) (cs : list node) : Prop :=
  Z.of_nat (length cs) <= SIZE_MAX /\
  json_type (tymask ty) = true /\
  (tymask ty = c_cJSON_String -> exists s, vs = Some s /\ nz s) /\
  (tymask ty = c_cJSON_Number -> is_nan vd = false) /\
  (tymask ty = c_cJSON_Object -> NoDup (map n_key cs) /\ keyed_children cs).

(* a JSON document as the properties C16/C17 quantify over them: JSON types, strings present (C strings),
   no NaN, every member of an object named, names of one object pairwise distinct, arrays below 2^64 *)
Fixpoint dwf (n : node) : Prop :=
  match n with
  | Node ty vs _ vd _ cs =>
      local_ok ty vs vd cs /\ (fix go (l : list node) : Prop := match l with [] => True | c :: r => dwf c /\ go r end) cs
  end.

Lemma dwf_unfold ty vs vi vd k cs : dwf (Node ty vs vi vd k cs) <-> local_ok ty vs vd cs /\ Forall dwf cs.
Proof.
  assert (G : forall l, (fix go (l : list node) : Prop :=
                           match l with [] => True | c :: r => dwf c /\ go r end) l
                        <-> Forall dwf l).
  { induction l as [|c r IH]; split; intro H.
    - constructor.
    - exact I.
    - destruct H as [H1 H2]. constructor; [exact H1 | apply IH; exact H2].
    - inversion H; subst. split; [assumption | apply IH; assumption]. }
  cbn [dwf]. rewrite G. reflexivity.
Qed.

Lemma dwf_children n : dwf n -> Forall dwf (n_children n).
Proof. destruct n. rewrite dwf_unfold. intros [_ H]. exact H. Qed.
Lemma dwf_local n : dwf n -> local_ok (n_ty n) (n_vstr n) (n_vdbl n) (n_children n).
Proof. destruct n. rewrite dwf_unfold. intros [H _]. exact H. Qed.

Lemma dwf_small n : dwf n -> small_arrays n.
Proof.
  induction n as [ty vs vi vd k cs IH] using node_ind'. rewrite dwf_unfold, small_arrays_unfold.
  intros [(L & _) Hc]. split; [exact L|]. rewrite Forall_forall in *. intros x Hx. apply IH; [exact Hx | apply Hc; exact Hx].
Qed.

Lemma dwf_subtree : forall p n x, dwf n -> subtree n p = Some x -> dwf x.
Proof.
  induction p as [|i p IH]; intros n x Hn E; cbn [subtree] in E.
  - inversion E; subst. exact Hn.
  - destruct (nth_error (n_children n) i) as [c|] eqn:N; [|discriminate].
    eapply IH; [|exact E]. eapply Forall_nth_error; [apply dwf_children; exact Hn | exact N].
Qed.

Lemma dwf_strs_ok n : dwf n -> strs_ok n.
Proof.
  induction n as [ty vs vi vd k cs IH] using node_ind'. rewrite dwf_unfold, strs_ok_unfold.
  intros [(_ & _ & S & _) Hc]. split.
  - intro Ht. destruct (S Ht) as (s & E & _). rewrite E. discriminate.
  - rewrite Forall_forall in *. intros x Hx. apply IH; [exact Hx | apply Hc; exact Hx].
Qed.

Lemma json_type_cases t : json_type t = true ->
  t = c_cJSON_False \/ t = c_cJSON_True \/ t = c_cJSON_NULL \/ t = c_cJSON_Number \/ t = c_cJSON_String \/
  t = c_cJSON_Array \/ t = c_cJSON_Object.
Proof. unfold json_type. intro H. repeat (apply orb_true_iff in H; destruct H as [H|H]); apply Z.eqb_eq in H; tauto. Qed.

(** ---------- equality of documents ---------- *)
Definition mrel (x y : node) : Prop := n_key x <> None /\ n_key x = n_key y /\ doc_eq x y.

Lemma Forall2_both (R : node -> node -> Prop) l1 l2 : Forall2 R l1 l2 ->
  Forall (fun x => Exists (fun y => R x y) l2) l1 /\ Forall (fun y => Exists (fun x => R x y) l1) l2.
Proof.
  induction 1 as [|x y l1 l2 Hxy H IH].
  - split; constructor.
  - destruct IH as [I1 I2]. split; constructor.
    + left. exact Hxy.
    + eapply Forall_impl; [|exact I1]. intros a Ha. right. exact Ha.
    + left. exact Hxy.
    + eapply Forall_impl; [|exact I2]. intros a Ha. right. exact Ha.
Qed.

(* two nodes with the same scalar fields and children related pointwise (arrays) / as member sets (objects) *)
Lemma doc_eq_head ty vs vi vd k1 k2 cs1 cs2 :
  json_type (tymask ty) = true ->
  (tymask ty = c_cJSON_String -> exists s, vs = Some s /\ nz s) ->
  (tymask ty = c_cJSON_Number -> is_nan vd = false) ->
  (tymask ty = c_cJSON_Array -> Forall2 doc_eq cs1 cs2) ->
  (tymask ty = c_cJSON_Object ->
     Forall (fun x => Exists (fun y => mrel x y) cs2) cs1 /\ Forall (fun y => Exists (fun x => mrel x y) cs1) cs2) ->
  doc_eq (Node ty vs vi vd k1 cs1) (Node ty vs vi vd k2 cs2).
Proof.
  intros Hj Hs Hn Ha Ho. destruct (json_type_cases _ Hj) as [H|[H|[H|[H|[H|[H|H]]]]]].
  - apply de_lit; cbn [n_ty]; [reflexivity | tauto].
  - apply de_lit; cbn [n_ty]; [reflexivity | tauto].
  - apply de_lit; cbn [n_ty]; [reflexivity | tauto].
  - apply de_num; cbn [n_ty n_vint n_vdbl]; try assumption; try reflexivity.
    apply CompareProofs.compare_double_refl. apply Hn. exact H.
  - destruct (Hs H) as (s & E & _). eapply de_str; cbn [n_ty n_vstr]; eassumption.
  - apply de_arr; cbn [n_ty n_children]; try assumption. apply Ha. exact H.
  - destruct (Ho H) as [O1 O2]. apply de_obj; cbn [n_ty n_children]; assumption.
Qed.

Lemma Forall2_refl_in {A} (R : A -> A -> Prop) l : (forall x, In x l -> R x x) -> Forall2 R l l.
Proof. induction l as [|x l IH]; intro H; constructor; [apply H; left; reflexivity | apply IH; intros; apply H; right; assumption]. Qed.

Lemma keyed_key_some cs x : keyed_children cs -> In x cs -> n_key x <> None.
Proof. unfold keyed_children. rewrite Forall_forall. intros H Hx. destruct (H x Hx) as (k & E & _). rewrite E. discriminate. Qed.

Lemma doc_eq_refl n : dwf n -> doc_eq n n.
Proof.
  induction n as [ty vs vi vd k cs IH] using node_ind'. rewrite dwf_unfold. intros [(L & J & S & N & O) Hc].
  rewrite Forall_forall in IH, Hc.
  apply doc_eq_head; try assumption.
  - intros _. apply Forall2_refl_in. intros x Hx. apply IH; [exact Hx | apply Hc; exact Hx].
  - intro Ht. destruct (O Ht) as [_ Hk]. apply (Forall2_both mrel). apply Forall2_refl_in. intros x Hx.
    split; [eapply keyed_key_some; eassumption|]. split; [reflexivity|]. apply IH; [exact Hx | apply Hc; exact Hx].
Qed.

Lemma Forall2_replace_nth {A} (R : A -> A -> Prop) : forall i a b l,
  (forall x, In x l -> R x x) -> R a b -> Forall2 R (replace_nth i a l) (replace_nth i b l).
Proof.
  intros i a b l; revert i; induction l as [|y l IH]; intros i H Hab; cbn [replace_nth]; [constructor|].
  destruct i as [|i].
  - constructor; [exact Hab|]. apply Forall2_refl_in. intros; apply H; right; assumption.
  - constructor; [apply H; left; reflexivity|]. apply IH; [intros; apply H; right; assumption | exact Hab].
Qed.

Lemma key_put : forall p c old new, subtree c p = Some old -> n_key new = n_key old -> n_key (put_subtree c p new) = n_key c.
Proof.
  intros [|i p] c old new S K; cbn [subtree put_subtree] in *.
  - inversion S; subst. exact K.
  - destruct (nth_error (n_children c) i); [|reflexivity]. destruct c; reflexivity.
Qed.

(* replacing a subtree by two equal documents yields equal documents *)
Lemma doc_eq_put : forall pp d old n1 n2, dwf d -> subtree d pp = Some old ->
  n_key n1 = n_key old -> n_key n2 = n_key old -> doc_eq n1 n2 ->
  doc_eq (put_subtree d pp n1) (put_subtree d pp n2).
Proof.
  induction pp as [|i p IH]; intros d old n1 n2 Hd S K1 K2 E; cbn [put_subtree]; [exact E|].
  cbn [subtree] in S. destruct (nth_error (n_children d) i) as [c|] eqn:N; [|discriminate].
  pose proof (dwf_children d Hd) as Hc. rewrite Forall_forall in Hc.
  assert (Hcd : dwf c) by (apply Hc; eapply nth_error_In; exact N).
  specialize (IH c old n1 n2 Hcd S K1 K2 E).
  destruct d as [ty vs vi vd k cs]. cbn [n_children set_children] in *.
  apply dwf_unfold in Hd. destruct Hd as [(L & J & Ss & Nn & O) _].
  apply doc_eq_head; try assumption.
  - intros _. apply Forall2_replace_nth; [|exact IH]. intros x Hx. apply doc_eq_refl. apply Hc. exact Hx.
  - intro Ht. destruct (O Ht) as [_ Hk]. apply (Forall2_both mrel). apply Forall2_replace_nth.
    + intros x Hx. split; [eapply keyed_key_some; eassumption|]. split; [reflexivity|]. apply doc_eq_refl. apply Hc. exact Hx.
    + unfold mrel. rewrite (key_put _ _ _ _ S K1), (key_put _ _ _ _ S K2). split; [|split; [reflexivity | exact IH]].
      eapply keyed_key_some; [exact Hk | eapply nth_error_In; exact N].
Qed.

(** ---------- the last token: "-" and array indices ---------- *)
Lemma first_tok_noslash r : Forall (fun c => c <> 47) r -> first_tok r = r.
Proof. induction r as [|c r IH]; intro H; [reflexivity|]. inversion H; subst. cbn [first_tok]. zeq c 47; [contradiction|]. f_equal. apply IH. assumption. Qed.

Lemma unescape_nil r : unescape r = Some [] -> r = [].
Proof.
  destruct r as [|c r]; [reflexivity|]. cbn [unescape]. zeq c 126.
  - destruct r as [|d r]; [discriminate|]. zeq d 48; [destruct (unescape r); discriminate|]. zeq d 49; [destruct (unescape r); discriminate | discriminate].
  - destruct (unescape r); discriminate.
Qed.

Lemma unescape_dash raw t : unescape raw = Some t -> bytes_eqb raw s_dash = bytes_eqb t [45].
Proof.
  intro U. destruct (bytes_eqb raw s_dash) eqn:E.
  - apply bytes_eqb_eq in E. subst raw. cbn in U. inversion U. reflexivity.
  - destruct (bytes_eqb t [45]) eqn:E2; [|reflexivity]. apply bytes_eqb_eq in E2. subst t.
    destruct raw as [|c r]; [discriminate|]. cbn [unescape] in U. zeq c 126.
    + destruct r as [|d r]; [discriminate|]. zeq d 48; [destruct (unescape r); discriminate|]. zeq d 49; [destruct (unescape r); discriminate | discriminate].
    + destruct (unescape r) as [u|] eqn:Ur; [|discriminate]. cbn in U. inversion U; subst. apply unescape_nil in Ur. subst r.
      rewrite bytes_eqb_refl in E. discriminate.
Qed.

Lemma index_bridge raw t (len : nat) : nz raw -> Forall (fun c => c <> 47) raw -> unescape raw = Some t ->
  Z.of_nat len <= SIZE_MAX ->
  match decode_array_index_from_pointer raw with
  | Some idx => rfc_array_index t = Some idx /\ 0 <= idx
  | None => match rfc_array_index t with Some i => i > Z.of_nat len | None => True end
  end.
Proof.
  intros Hnz Hns U Hl. pose proof (decode_spec raw Hnz) as D. rewrite (first_tok_noslash _ Hns) in D.
  rewrite (rfc_index_unescape _ _ U).
  destruct (decode_array_index_from_pointer raw) as [idx|].
  - destruct D as [D1 D2]. split; [exact D1 | lia].
  - destruct (rfc_array_index raw) as [i|]; [lia | exact I].
Qed.
