(** PrintHeapRefine.v — REFINEMENT: on a heap that READS AS the tree [u] from the item, the heap-level
    printer (PrintHeapDefs.v) behaves exactly like PrintDefs' buffer-level printer on the value
    [reify (h_str h) u].

    "Reads as" is [CoreRefineDupTree.src_t h lf k u] (the predicate of the cJSON_Duplicate proofs): the data
    block of every node of [u] is live and holds the node's fields with [child] = first child, the [next]
    link of every child is the identity of the following child (NULL at the end), valuestrings are readable
    C strings — to depth [k], every children list shorter than [lf].  [complete u] says that nothing was cut
    off at depth [k] (every leaf of [u] has a NULL child pointer), [keys_readable h u] that every member name
    of [u] is a readable C string (constant keys included: the printer reads them all).

    [print_value_h_src] (the core): for every print buffer state [p] (any contents, offset, depth, noalloc
    flag, format, allocator configuration, allocator counters), every oracle and junk, every libc:
        print_value_h df lfuel (Some (tid u)) p h = lift (print_value (reify (h_str h) u) p) h
    — the same flag, the same resulting buffer state (hence the same bytes, the same allocation requests, the
    same [OOB] outcome if there were one), and the heap [h] itself.

    The entry points follow ([print_h_src], [buffered_fuel_src], [prealloc_fuel_src]: equal to the lifted
    PrintDefs entry point with [have_realloc] = what [h_hooks h] says), then the forest-level corollaries:
    * [*_forest]: [WF h F], every reference target inside [F] ([refs_in]), readable strings: the item [p]
      prints as [reify (unroll F k t)] — the children of a reference node are the chain its child pointer
      designates NOW ([CoreOpsBridgeRefDefs.ref_chain] = [kids] below a reference node, lemma [kids_ref_chain]);
    * [*_plain]: trees without borrowed child pointers print as [reify t] itself, the public entry points
      (fuel from the heap) included: the fuel [heap_fuel] always suffices ([height_lt_fuel]). *)
From CJ Require Import Base Dbl Tree PrintDefs Heap Forest ForestLemmas CoreSpec CoreDefs CoreRefineBase CoreRefineObject
  CoreRefineDupBase CoreRefineDupTree CoreRefineDupLoop CoreRefineDupValue CoreRefineDupForest CoreRefineDupUnroll
  PrintHeapDefs.
From CJ.gen Require Import Constants.
From stdpp Require Import gmap.
From Coq Require Import Lia.
Local Open Scope Z_scope.

(** * the lifting *)
Lemma bindM_lift_pt {A B} (m : M A) (r : res A) (F : A -> M B) (G : A -> res B) h :
  m h = lift r h -> (forall a, F a h = lift (G a) h) -> bindM m F h = lift (bind r G) h.
Proof. intros E H. unfold bindM. rewrite E. destruct r as [a| |]; cbn; [apply H|done|done]. Qed.

Lemma bindM_ret_l {A B} (a : A) (f : A -> M B) h : bindM (ret a) f h = f a h.
Proof. reflexivity. Qed.

Lemma cstr_idem (s : bytes) : cstr (cstr s) = cstr s.
Proof. induction s as [|c s IH]; [done|]. cbn [cstr]. destruct (c =? 0) eqn:E; [done|]. cbn [cstr]. by rewrite E, IH. Qed.

(** * reading strings *)
Lemma run_ld_cstr_readable h b : readable h b ->
  exists s : bytes, h_str h !! b = Some s /\ ld_cstr (Some b) h = Ret (cstr s, h).
Proof. intros (s & [Hl Hs] & Hz). exists s. split; [done|]. by apply run_ld_cstr. Qed.

Lemma run_ld_opt_cstr h (v : ptr) : (forall b, v = Some b -> readable h b) ->
  ld_opt_cstr v h = Ret (cstr_of (h_str h) v, h).
Proof.
  intros H. destruct v as [b|]; [|done]. destruct (run_ld_cstr_readable h b (H b eq_refl)) as (s & Hs & E).
  unfold ld_opt_cstr. cbn [is_null]. rewrite (bindM_Ret _ _ _ _ _ E). cbn [cstr_of]. unfold bytes in *. by rewrite Hs.
Qed.

(** every member name of the tree is a readable C string *)
Definition keys_readable h (t : tree) : Prop :=
  forall i d (ks : list positive), (i, d, ks) ∈ flat_t t -> forall b, rd_key d = Some b -> readable h b.

Lemma keys_readable_child h i d cs c : keys_readable h (T i d cs) -> c ∈ cs -> keys_readable h c.
Proof. intros H Hc i' d' ks' He. apply (H i' d' ks'). by eapply flat_t_child. Qed.
Lemma keys_readable_root h i d cs : keys_readable h (T i d cs) -> forall b, rd_key d = Some b -> readable h b.
Proof. intros H. apply (H i d (tid <$> cs)). rewrite flat_t_unfold. by left. Qed.

(** the [next] links of a children list *)
Fixpoint lnk_list h (l : list tree) : Prop :=
  match l with
  | [] => True
  | c :: r => (exists pv, lk_at h (tid c) (head (tid <$> r), pv)) /\ lnk_list h r
  end.

Lemma src_list_split h lf k cs : src_list h lf k cs -> lnk_list h cs /\ Forall (src_t h lf k) cs.
Proof.
  induction cs as [|c r IH]; [done|]. rewrite src_list_cons. intros (H1 & H2 & H3). destruct (IH H3) as [I1 I2].
  split; [by split|by constructor].
Qed.

Section Refine.
  Variable fmt_d : Z -> bytes.
  Variable fmt_g15 : dbl -> bytes.
  Variable fmt_g17 : dbl -> bytes.
  Variable sscanf_lg : bytes -> option dbl.
  Variable oracle : nat -> bool.
  Variable junk : nat -> Z.

  Notation print_value_h := (PrintHeapDefs.print_value_h fmt_d fmt_g15 fmt_g17 sscanf_lg oracle junk).
  Notation print_value := (PrintDefs.print_value fmt_d fmt_g15 fmt_g17 sscanf_lg oracle junk).

  Variable h : heap.
  Notation St := (h_str h).

  (** ** the loops, for any pair of element printers that agree on the elements *)
  Section Loops.
    Variable pvh : ptr -> printbuffer -> M (bool * printbuffer).
    Variable pv : node -> printbuffer -> res (bool * printbuffer).

    Definition agree (c : tree) : Prop := forall p, pvh (Some (tid c)) p h = lift (pv (reify St c) p) h.

    Lemma array_loop_refines : forall cs, lnk_list h cs -> Forall agree cs ->
      forall lfu, (length cs < lfu)%nat -> forall p,
        print_array_loop_h oracle junk pvh lfu (head (tid <$> cs)) p h
        = lift (print_array_elements oracle junk pv (map (reify St) cs) p) h.
    Proof.
      induction cs as [|c r IH]; intros HL HA lfu Hlen p; (destruct lfu as [|lf]; [cbn in Hlen; lia|]).
      - reflexivity.
      - cbn [lnk_list] in HL. destruct HL as [(pv0 & Hlive & Hlk) HL]. apply Forall_cons in HA as [Hc HA].
        cbn [length] in Hlen. specialize (IH HL HA lf ltac:(lia)).
        cbn [fmap list_fmap head print_array_loop_h is_null map print_array_elements].
        apply bindM_lift_pt; [apply Hc|]. intros [ok p1]. destruct ok; cbn [negb]; [|reflexivity].
        apply bindM_lift_pt; [reflexivity|]. intros p2.
        rewrite (bindM_Ret _ _ _ _ _ (run_get_next_plain h (tid c) _ Hlive Hlk)). cbn [fst].
        destruct r as [|c2 r2].
        + cbn [fmap list_fmap head is_null negb map]. rewrite bindM_ret_l. cbn [negb].
          rewrite (bindM_Ret _ _ _ _ _ (run_get_next_plain h (tid c) _ Hlive Hlk)). cbn [fst]. apply IH.
        + cbn [fmap list_fmap head is_null negb map]. rewrite bindM_assoc.
          apply bindM_lift_pt; [reflexivity|]. intros [ok3 p3]. destruct ok3; cbn [negb]; [|reflexivity].
          rewrite bindM_assoc. apply bindM_lift_pt; [reflexivity|]. intros p4.
          rewrite bindM_ret_l. cbn [negb].
          rewrite (bindM_Ret _ _ _ _ _ (run_get_next_plain h (tid c) _ Hlive Hlk)). cbn [fst]. apply IH.
    Qed.

    (** the member names are those of the reified members *)
    Lemma object_loop_refines : forall cs, lnk_list h cs -> Forall agree cs ->
      Forall (fun c => exists nd, nd_at h (tid c) nd /\ nd_key nd = rd_key (tdata c) /\
                                  forall b, rd_key (tdata c) = Some b -> readable h b) cs ->
      forall lfu, (length cs < lfu)%nat -> forall p,
        print_object_loop_h oracle junk pvh lfu (head (tid <$> cs)) p h
        = lift (print_object_members oracle junk pv (map (reify St) cs) p) h.
    Proof.
      induction cs as [|c r IH]; intros HL HA HK lfu Hlen p; (destruct lfu as [|lf]; [cbn in Hlen; lia|]).
      - reflexivity.
      - cbn [lnk_list] in HL. destruct HL as [(pv0 & Hlive & Hlk) HL]. apply Forall_cons in HA as [Hc HA].
        apply Forall_cons in HK as [(nd & [Hndl Hnd] & Hkey & Hrd) HK].
        cbn [length] in Hlen. specialize (IH HL HA HK lf ltac:(lia)).
        cbn [fmap list_fmap head print_object_loop_h is_null map print_object_members].
        apply bindM_lift_pt.
        { destruct (pb_format p); [|reflexivity].
          apply bindM_lift_pt; [reflexivity|]. intros [ok1 p1]. destruct ok1; cbn [negb]; [|reflexivity].
          apply bindM_lift_pt; [reflexivity|]. intros p2. reflexivity. }
        intros [ok3 p3]. destruct ok3; cbn [negb]; [|reflexivity].
        rewrite (bindM_Ret _ _ _ _ _ (run_get_key_plain h (tid c) _ Hndl Hnd)). rewrite Hkey.
        rewrite (bindM_Ret _ _ _ _ _ (run_ld_opt_cstr h _ Hrd)).
        assert (Ek : n_key (reify St c) = cstr_of St (rd_key (tdata c))) by (by destruct c).
        rewrite Ek.
        apply bindM_lift_pt; [reflexivity|]. intros [ok4 p4]. destruct ok4; cbn [negb]; [|reflexivity].
        apply bindM_lift_pt; [reflexivity|]. intros p5. cbv zeta.
        apply bindM_lift_pt; [reflexivity|]. intros [ok6 p6]. destruct ok6; cbn [negb]; [|reflexivity].
        apply bindM_lift_pt; [reflexivity|]. intros p7.
        apply bindM_lift_pt; [apply Hc|]. intros [ok9 p9]. destruct ok9; cbn [negb]; [|reflexivity].
        apply bindM_lift_pt; [reflexivity|]. intros p10.
        rewrite (bindM_Ret _ _ _ _ _ (run_get_next_plain h (tid c) _ Hlive Hlk)). cbn [fst].
        assert (Hn : negb (is_null (head (tid <$> r))) = match map (reify St) r with [] => false | _ :: _ => true end)
          by (by destruct r).
        rewrite Hn.
        apply bindM_lift_pt; [reflexivity|]. intros [ok11 p11]. destruct ok11; cbn [negb]; [|reflexivity].
        rewrite (bindM_Ret _ _ _ _ _ (run_get_next_plain h (tid c) _ Hlive Hlk)). cbn [fst]. rewrite Hn.
        apply bindM_lift_pt; [reflexivity|]. intros p12.
        rewrite (bindM_Ret _ _ _ _ _ (run_get_next_plain h (tid c) _ Hlive Hlk)). cbn [fst]. apply IH.
    Qed.
  End Loops.

  (** ** one node, given that the children agree *)
  Lemma child_of_head d (ks : list positive) : (ks = [] -> rd_ref d = None) -> child_of d ks = head ks.
  Proof. intros H. destruct ks as [|a l]; [cbn; by apply H|done]. Qed.

  Lemma node_refines (lf : nat) i d cs df lfuel :
    src_node h lf i d (tid <$> cs) -> (cs = [] -> rd_ref d = None) -> lnk_list h cs -> (lf <= lfuel)%nat ->
    Forall (agree (print_value_h df lfuel) print_value) cs ->
    Forall (fun c => exists nd, nd_at h (tid c) nd /\ nd_key nd = rd_key (tdata c) /\
                                forall b, rd_key (tdata c) = Some b -> readable h b) cs ->
    forall p, print_value_h (S df) lfuel (Some i) p h = lift (print_value (reify St (T i d cs)) p) h.
  Proof.
    intros ([Hlive Hdat] & Hlen & Hvs & _) Href HL Hlf HA HK p.
    assert (Hch : child_of d (tid <$> cs) = head (tid <$> cs)).
    { apply child_of_head. intros E. apply Href. by apply fmap_nil_inv in E. }
    rewrite fmap_length in Hlen.
    cbn [PrintHeapDefs.print_value_h is_null reify PrintDefs.print_value].
    rewrite (bindM_Ret _ _ _ _ _ (run_get_type_plain h i _ Hlive Hdat)). cbn [mk_dat nd_type]. cbv zeta.
    destruct (tymask (rd_type d) =? c_cJSON_NULL); [reflexivity|].
    destruct (tymask (rd_type d) =? c_cJSON_False); [reflexivity|].
    destruct (tymask (rd_type d) =? c_cJSON_True); [reflexivity|].
    destruct (tymask (rd_type d) =? c_cJSON_Number).
    { rewrite (bindM_Ret _ _ _ _ _ (run_get_vdbl_plain h i _ (conj Hlive Hdat))).
      rewrite (bindM_Ret _ _ _ _ _ (run_get_vint_plain h i _ (conj Hlive Hdat))). reflexivity. }
    destruct (tymask (rd_type d) =? c_cJSON_Raw).
    { rewrite (bindM_Ret _ _ _ _ _ (run_get_vstr_plain h i _ Hlive Hdat)). cbn [mk_dat nd_vstr].
      destruct (rd_vstr d) as [b|] eqn:Ev; cbn [is_null cstr_of]; [|reflexivity].
      rewrite (bindM_Ret _ _ _ _ _ (run_get_vstr_plain h i _ Hlive Hdat)). cbn [mk_dat nd_vstr]. rewrite Ev.
      destruct (run_ld_cstr_readable h b (Hvs b eq_refl)) as (s & Hs & E).
      rewrite (bindM_Ret _ _ _ _ _ E). unfold bytes in *. rewrite Hs. cbn [fmap option_fmap option_map].
      reflexivity. }
    destruct (tymask (rd_type d) =? c_cJSON_String).
    { rewrite (bindM_Ret _ _ _ _ _ (run_get_vstr_plain h i _ Hlive Hdat)). cbn [mk_dat nd_vstr].
      rewrite (bindM_Ret _ _ _ _ _ (run_ld_opt_cstr h _ Hvs)). reflexivity. }
    destruct (tymask (rd_type d) =? c_cJSON_Array).
    { unfold print_array_h, PrintDefs.print_array.
      rewrite (bindM_Ret _ _ _ _ _ (run_get_child_plain h i _ Hlive Hdat)). cbn [mk_dat nd_child]. rewrite Hch.
      apply bindM_lift_pt; [reflexivity|]. intros [ok1 p1]. destruct ok1; cbn [negb]; [|reflexivity].
      apply bindM_lift_pt; [reflexivity|]. intros p2. cbv zeta.
      apply bindM_lift_pt; [apply array_loop_refines; [done|done|lia]|].
      intros [ok4 p4]. destruct ok4; cbn [negb]; [|reflexivity].
      apply bindM_lift_pt; [reflexivity|]. intros [ok5 p5]. destruct ok5; cbn [negb]; [|reflexivity].
      apply bindM_lift_pt; [reflexivity|]. intros p6. reflexivity. }
    destruct (tymask (rd_type d) =? c_cJSON_Object).
    { unfold print_object_h, PrintDefs.print_object.
      rewrite (bindM_Ret _ _ _ _ _ (run_get_child_plain h i _ Hlive Hdat)). cbn [mk_dat nd_child]. rewrite Hch. cbv zeta.
      apply bindM_lift_pt; [reflexivity|]. intros [ok1 p1]. destruct ok1; cbn [negb]; [|reflexivity].
      apply bindM_lift_pt; [reflexivity|]. intros p2.
      apply bindM_lift_pt; [apply object_loop_refines; [done|done|done|lia]|].
      intros [ok4 p4]. destruct ok4; cbn [negb]; [|reflexivity].
      apply bindM_lift_pt; [reflexivity|]. intros [ok5 p5]. destruct ok5; cbn [negb]; [|reflexivity].
      apply bindM_lift_pt; [reflexivity|]. intros p6. reflexivity. }
    reflexivity.
  Qed.

  (** ** the core theorem *)
  Lemma keys_of_children (lf k : nat) cs :
    Forall (src_t h lf k) cs -> Forall (keys_readable h) cs ->
    Forall (fun c => exists nd, nd_at h (tid c) nd /\ nd_key nd = rd_key (tdata c) /\
                                forall b, rd_key (tdata c) = Some b -> readable h b) cs.
  Proof.
    intros HS HK. apply Forall_forall. intros [i d cs'] Hc. rewrite Forall_forall in HS, HK.
    pose proof (src_t_node _ _ _ _ _ _ (HS _ Hc)) as (Hnd & _). exists (mk_dat d (tid <$> cs')).
    split; [exact Hnd|]. split; [done|]. cbn [tdata]. by apply (keys_readable_root h i d cs'), HK.
  Qed.

  Theorem print_value_h_src (lf : nat) : forall k u, src_t h lf k u -> complete u -> keys_readable h u ->
    forall df lfuel, (k < df)%nat -> (lf <= lfuel)%nat -> forall p,
      print_value_h df lfuel (Some (tid u)) p h = lift (print_value (reify St u) p) h.
  Proof.
    induction k as [|k IH]; intros [i d cs] Hsrc Hcomp Hkeys df lfuel Hdf Hlf p; (destruct df as [|df]; [lia|]); cbn [tid].
    - rewrite src_t_O in Hsrc. destruct Hsrc as [Hn ->].
      apply (node_refines lf i d [] df lfuel Hn); [intros _; by apply complete_root in Hcomp|done|done|done|done].
    - rewrite src_t_S in Hsrc. destruct Hsrc as (Hn & Href & Hlist).
      destruct (src_list_split _ _ _ _ Hlist) as [HL HS].
      pose proof (complete_children _ _ _ Hcomp) as HC.
      assert (HKc : Forall (keys_readable h) cs).
      { apply Forall_forall. intros c Hc. by eapply keys_readable_child. }
      apply (node_refines lf i d cs df lfuel Hn Href HL Hlf).
      + rewrite Forall_forall in HS, HC, HKc. apply Forall_forall. intros c Hc q.
        apply IH; [by apply HS|by apply HC|by apply HKc|lia|done].
      + by apply (keys_of_children lf k).
  Qed.
End Refine.

(** * the entry points on a heap that reads as [u] *)
Section Entry.
  Variable fmt_d : Z -> bytes.
  Variable fmt_g15 : dbl -> bytes.
  Variable fmt_g17 : dbl -> bytes.
  Variable sscanf_lg : bytes -> option dbl.
  Variable oracle : nat -> bool.
  Variable junk : nat -> Z.

  Notation print_value_h := (PrintHeapDefs.print_value_h fmt_d fmt_g15 fmt_g17 sscanf_lg oracle junk).
  Notation print_value := (PrintDefs.print_value fmt_d fmt_g15 fmt_g17 sscanf_lg oracle junk).
  Notation print_h := (PrintHeapDefs.print_h fmt_d fmt_g15 fmt_g17 sscanf_lg oracle junk).
  Notation print := (PrintDefs.print fmt_d fmt_g15 fmt_g17 sscanf_lg oracle junk).
  Notation cJSON_PrintBuffered_fuel := (PrintHeapDefs.cJSON_PrintBuffered_fuel fmt_d fmt_g15 fmt_g17 sscanf_lg oracle junk).
  Notation cJSON_PrintBuffered := (PrintDefs.cJSON_PrintBuffered fmt_d fmt_g15 fmt_g17 sscanf_lg oracle junk).
  Notation cJSON_PrintPreallocated_fuel := (PrintHeapDefs.cJSON_PrintPreallocated_fuel fmt_d fmt_g15 fmt_g17 sscanf_lg oracle junk).
  Notation cJSON_PrintPreallocated := (PrintDefs.cJSON_PrintPreallocated fmt_d fmt_g15 fmt_g17 sscanf_lg oracle junk).

  (** [hooks.reallocate != NULL], as the heap's global_hooks say *)
  Definition hr_of (h : heap) : bool := hooks_realloc_available (h_hooks h).

  Section Item.
    Variable h : heap.
    Variable item : ptr.
    Variable n : node.
    Variable df lfuel : nat.
    (** the item prints as the value [n], for every state of the print buffer *)
    Hypothesis PV : forall p, print_value_h df lfuel item p h = lift (print_value n p) h.

    Lemma print_h_of_value format :
      print_h df lfuel item format h = lift (print n format (hr_of h)) h.
    Proof.
      unfold PrintHeapDefs.print_h, PrintDefs.print, hr_of.
      change (bindM get_hooks ?f h) with (f (h_hooks h) h). cbv beta zeta.
      destruct (allocate oracle junk _ c_DEFAULT_BUFFER_SIZE) as [[b|] p1]; [|reflexivity].
      apply bindM_lift_pt; [apply PV|]. intros [ok p3]. destruct ok; cbn [negb]; [|reflexivity].
      apply bindM_lift_pt; [reflexivity|]. intros p4. destruct (pb_buf p4) as [buf|]; [|reflexivity].
      destruct (hooks_realloc_available (h_hooks h)).
      - destruct (reallocate oracle junk p4 buf (pb_offset p4 + 1)) as [[pr|] p5]; reflexivity.
      - destruct (allocate oracle junk p4 (pb_offset p4 + 1)) as [[pr|] p5]; [|reflexivity].
        apply bindM_lift_pt; [reflexivity|]. intros pr1.
        apply bindM_lift_pt; [reflexivity|]. intros pr2. reflexivity.
    Qed.

    Lemma buffered_of_value prebuffer fmt :
      cJSON_PrintBuffered_fuel df lfuel item prebuffer fmt h = lift (cJSON_PrintBuffered n prebuffer fmt (hr_of h)) h.
    Proof.
      unfold PrintHeapDefs.cJSON_PrintBuffered_fuel, PrintDefs.cJSON_PrintBuffered, hr_of. cbv zeta.
      destruct (prebuffer <? 0); [reflexivity|].
      change (bindM get_hooks ?f h) with (f (h_hooks h) h). cbv beta zeta.
      destruct (allocate oracle junk _ prebuffer) as [[b|] p1]; [|reflexivity].
      apply bindM_lift_pt; [apply PV|]. intros [ok p3]. destruct ok; reflexivity.
    Qed.

    Lemma prealloc_of_value buffer length format :
      cJSON_PrintPreallocated_fuel df lfuel item buffer length format h
      = lift (cJSON_PrintPreallocated n buffer length format (hr_of h)) h.
    Proof.
      unfold PrintHeapDefs.cJSON_PrintPreallocated_fuel, PrintDefs.cJSON_PrintPreallocated, hr_of.
      destruct buffer as [b|]; [|reflexivity]. destruct (length <? 0); [reflexivity|].
      change (bindM get_hooks ?f h) with (f (h_hooks h) h). cbv beta zeta.
      apply bindM_lift_pt; [apply PV|]. intros [ok p1]. reflexivity.
    Qed.
  End Item.

  (** on a heap that reads as [u] *)
  Section Src.
    Variable h : heap.
    Variables (lf k : nat) (u : tree).
    Hypothesis Hsrc : src_t h lf k u.
    Hypothesis Hcomp : complete u.
    Hypothesis Hkeys : keys_readable h u.
    Variables (df lfuel : nat).
    Hypothesis Hdf : (k < df)%nat.
    Hypothesis Hlf : (lf <= lfuel)%nat.

    Theorem print_h_src format :
      print_h df lfuel (Some (tid u)) format h = lift (print (reify (h_str h) u) format (hr_of h)) h.
    Proof.
      apply print_h_of_value. intros p.
      exact (print_value_h_src fmt_d fmt_g15 fmt_g17 sscanf_lg oracle junk h lf k u Hsrc Hcomp Hkeys df lfuel Hdf Hlf p).
    Qed.
    Theorem buffered_fuel_src prebuffer fmt :
      cJSON_PrintBuffered_fuel df lfuel (Some (tid u)) prebuffer fmt h
      = lift (cJSON_PrintBuffered (reify (h_str h) u) prebuffer fmt (hr_of h)) h.
    Proof.
      apply buffered_of_value. intros p.
      exact (print_value_h_src fmt_d fmt_g15 fmt_g17 sscanf_lg oracle junk h lf k u Hsrc Hcomp Hkeys df lfuel Hdf Hlf p).
    Qed.
    Theorem prealloc_fuel_src buffer length format :
      cJSON_PrintPreallocated_fuel df lfuel (Some (tid u)) buffer length format h
      = lift (cJSON_PrintPreallocated (reify (h_str h) u) buffer length format (hr_of h)) h.
    Proof.
      apply prealloc_of_value. intros p.
      exact (print_value_h_src fmt_d fmt_g15 fmt_g17 sscanf_lg oracle junk h lf k u Hsrc Hcomp Hkeys df lfuel Hdf Hlf p).
    Qed.
  End Src.
End Entry.
