(** LibcG17Shape.v — [fmt_g] on a finite nonzero double is the composition of the named
    quantities of LibcG17Defs.v. *)
From Coq Require Import ZArith List Bool Floats.SpecFloat.
From CJ Require Import Base Dbl LibcNum LibcPrint LibcG17Defs.
Import ListNotations.
Local Open Scope Z_scope.

Lemma fmt_g_finite P s m e :
  fmt_g P (S754_finite s m e) = g_sign s ++ g_text P (g_D P m e) (g_X P m e).
Proof.
  unfold fmt_g, g_text, g_D, g_X, g_q, g_scaled, g_round, g_x0, g_sign.
  fold (g_num m e). fold (g_den e).
  set (x0 := ((Z.log2 (g_num m e) - Z.log2 (g_den e)) * 30103) / 100000).
  destruct (scale_down 8 _ _ x0) as [[nS1 dS1] x1].
  destruct (scale_up 8 nS1 dS1 x1) as [[nS dS] X].
  reflexivity.
Qed.
