(** CoreHistoryFailSpec.v — WHAT THE LIST MODEL WITH FAILURE SAYS, in one sentence per call.

    [CoreHistoryFail.spec_step3o o] is assembled from the models of the pieces of each call, as the
    C code is.  This file proves that, on every abstract state that some heap represents and for
    every call the rule checker accepts, it coincides with [spec_step_fail o]:

        let n := the number of requests the call makes when nothing is refused
                 (= the advance of the request counter in the never-failing model [spec_step3]) in
        if the schedule grants the requests [req S], ..., [req S + n - 1]
        then the step of the never-failing list model [spec_step3 S op]            (NORMAL step)
        else, for the FIRST refused request j among them:                           (REFUSED step)
             the documented failure value of the call ([fail_res3]: NULL / false) and the state
             [refused_state S j]: forest, string heap and caller blocks UNCHANGED; only the
             allocator counters moved (j + 1 requests made so far, j - req S identities used up).

    So the refused branch is taken IFF the schedule refuses one of the requests the failure-free
    call would make ([first_refusal_Some] / [first_refusal_None]), and calls that never ask the
    allocator ([nreq3 S op = 0]) always take the normal step. *)
From CJ Require Import Base Dbl Heap Forest ForestLemmas CoreSpec CoreDefs CoreRefineBase CoreRefine
  CoreRefineDelete CoreRefineReplace CoreRefineMore CoreRefineFrame CoreRefineHistory CoreRefineObject
  CoreRefineByKey CoreRefineAddObject CoreRefineHistoryObj CoreRefineHistoryObjEx CoreRefineReplaceKey
  CoreRefineReplaceKeyAbs CoreRefineCreate CoreRefineSet CoreRefineRef CoreRefineArray CoreLedgerGen CoreHistoryAllSteps
  CoreHistoryAllArr CoreHistoryAllArrStep CoreHistoryAllNull CoreHistoryAll CoreHistoryFailSteps CoreHistoryFailArr
  CoreHistoryFail.
From CJ.gen Require Import Constants.
From Coq Require Import Floats.SpecFloat.
From stdpp Require Import gmap.
Implicit Types (h : heap) (F : forest) (d : rdata).
Local Open Scope Z_scope.

(** * the specification *)
(** requests of the failure-free call *)
Definition nreq3 (S : astate2) (op : op3) : nat := (req (spec_step3 S op).1 - req S)%nat.
(** the documented failure value *)
Definition fail_res3 (op : op3) : res3 :=
  match op with
  | O2 (OAddObj _ _ _ _) | OAddItemReferenceToArray _ _ | OAddItemReferenceToObject _ _ _
  | OReplaceItemInObject _ _ _ _ => R (RBool false)
  | _ => R (RPtr None)
  end.
Definition spec_step_fail (o : nat -> bool) (S : astate2) (op : op3) : astate2 * res3 :=
  match first_refusal o (req S) (nreq3 S op) with
  | None => spec_step3 S op
  | Some j => (refused_state S j, fail_res3 op)
  end.

(** * small facts *)
Lemma first_refusal_0 o a : first_refusal o a 0 = None.
Proof. done. Qed.
Lemma first_refusal_hd o a n : o a = true -> first_refusal o a (Datatypes.S n) = Some a.
Proof. intros H. cbn. by rewrite H. Qed.
Lemma first_refusal_tl o a n : o a = false -> first_refusal o a (Datatypes.S n) = first_refusal o (Datatypes.S a) n.
Proof. intros H. cbn. by rewrite H. Qed.

Lemma pos_add_1 p : pos_add p 1 = Pos.succ p.
Proof. unfold pos_add. lia. Qed.
Lemma pos_add_2 p : pos_add p 2 = Pos.succ (Pos.succ p).
Proof. unfold pos_add. lia. Qed.
Lemma refused_state_0 S : refused_state S (req S) = bumped S.
Proof. unfold refused_state, bumped. by rewrite Nat.sub_diag, pos_add_0. Qed.
Lemma refused_state_1 S :
  refused_state S (Datatypes.S (req S)) = with_counters S (Pos.succ (nxt S)) (Datatypes.S (Datatypes.S (req S))).
Proof. unfold refused_state. replace (Datatypes.S (req S) - req S)%nat with 1%nat by lia. by rewrite pos_add_1. Qed.
Lemma refused_state_2 S :
  refused_state S (Datatypes.S (Datatypes.S (req S))) =
  with_counters S (Pos.succ (Pos.succ (nxt S))) (Datatypes.S (Datatypes.S (Datatypes.S (req S)))).
Proof. unfold refused_state. replace (Datatypes.S (Datatypes.S (req S)) - req S)%nat with 2%nat by lia. by rewrite pos_add_2. Qed.

Lemma req_mk3 F nx rq st fg : req (mk3 F nx rq st fg) = rq.
Proof. done. Qed.
Lemma nxt_mk3 F nx rq st fg : nxt (mk3 F nx rq st fg) = nx.
Proof. done. Qed.
Lemma mk3_eta S : S = mk3 (a_forest S) (nxt S) (req S) (a_str S) (a_foreign S).
Proof. by destruct S as [[F nx rq] st fg]. Qed.

(** calls of [op2] that never ask the allocator keep the request counter *)
Lemma req_spec_step_noalloc A op : (forall ty, op <> OCreate ty) -> as_req (spec_step nv A op).1 = as_req A.
Proof.
  intros Hne. destruct op as [ty|a i|pa it|a w|a w n|pa it rp|a w n|it|a w|a|a i]; cbn [spec_step]; try done.
  - by destruct (Hne ty).
  - by destruct (spec_add_to_array _ _ _).
  - by destruct (spec_detach _ _ _).
  - by destruct (spec_detach_index _ _ _).
  - by destruct (spec_insert _ _ _ _).
  - by destruct (spec_replace _ _ _ _).
  - by destruct (spec_replace_index _ _ _ _).
Qed.
Lemma req_s2_noalloc S op : op2_allocates op = false -> req (s2 S op).1 = req S.
Proof.
  intros Hn. unfold s2, req. destruct op as [op|c|ob n i ck|ob n cs|ob n cs|ob n cs]; try done; cbn [spec_step2].
  - pose proof (req_spec_step_noalloc (a_st S) op) as H. destruct (spec_step nv (a_st S) op) as [S1 r]. cbn in *.
    apply H. intros ty ->. done.
  - by destruct (spec_detach_key _ _ _ _ _).
Qed.

(** when cJSON_AddItemToObject[CS] asks for the copy of the name *)
Definition addobj_asks (ob n i : ptr) (ck : bool) : bool :=
  match ob, n, i with
  | Some p, Some _, Some x => negb (bool_decide (p = x)) && negb ck
  | _, _, _ => false
  end.
Lemma s2_addobj_req S ob n i ck :
  req (s2 S (OAddObj ob n i ck)).1 = if addobj_asks ob n i ck then Datatypes.S (req S) else req S.
Proof.
  unfold s2, spec_step2, addobj_asks. destruct ob as [p|], n as [sb|], i as [x|]; try done.
  destruct (decide (p = x)) as [->|Hne]; [by rewrite bool_decide_eq_true_2|]. rewrite bool_decide_eq_false_2 by done.
  destruct ck; cbn [negb andb].
  - by destruct (spec_add_to_object _ _ _ _ _ _).
  - unfold never. by destruct (spec_add_to_object _ _ _ _ _ _).
Qed.
Lemma s2o_addobj_eq o S ob n i ck :
  s2o o S (OAddObj ob n i ck) =
  if addobj_asks ob n i ck && o (req S) then (bumped S, RBool false) else s2 S (OAddObj ob n i ck).
Proof.
  destruct (o (req S)) eqn:Ho.
  2:{ rewrite andb_false_r. by apply s2o_addobj_granted. }
  rewrite andb_true_r. unfold s2o, s2, spec_step2, addobj_asks. destruct ob as [p|], n as [sb|], i as [x|]; try done.
  destruct (decide (p = x)) as [->|Hne]; [by rewrite bool_decide_eq_true_2|]. rewrite bool_decide_eq_false_2 by done.
  destruct ck; cbn [negb andb]; [done|]. unfold req in Ho. by rewrite Ho.
Qed.

Section Spec.
  Variable o : nat -> bool.

  (** ** the alphabet [op2] *)
  Lemma step_fail_O2 S op : spec_step3o o S (O2 op) = spec_step_fail o S (O2 op).
  Proof.
    unfold spec_step_fail, nreq3. cbn [spec_step3o spec_step3 fst].
    destruct (op2_allocates op) eqn:Ha.
    2:{ rewrite (req_s2_noalloc _ _ Ha), Nat.sub_diag, first_refusal_0. unfold s2o. by rewrite (spec_step2_noalloc o _ _ Ha). }
    destruct op as [[ty| | | | | | | | | |]| |ob n i ck| | |]; try done.
    - (* a constructor without payload *)
      assert (E1 : req (s2 S (OArr (OCreate ty))).1 = Datatypes.S (req S)) by reflexivity.
      assert (E2 : s2o o S (OArr (OCreate ty)) =
                   if o (req S) then (mk3 (a_forest S) (nxt S) (Datatypes.S (req S)) (strs_gc (a_forest S) (a_forest S) (a_str S)) (a_foreign S), RPtr None)
                   else s2 S (OArr (OCreate ty))).
      { unfold s2o, s2, spec_step2, spec_step, req. by destruct (o (as_req (a_st S))). }
      rewrite E1, E2. replace (Datatypes.S (req S) - req S)%nat with 1%nat by lia. cbn [first_refusal].
      destruct (o (req S)) eqn:Ho; [|done]. cbn [fail_res3 fst snd]. f_equal.
      rewrite refused_state_0. unfold bumped, with_counters. by rewrite strs_gc_refl.
    - (* cJSON_AddItemToObject[CS] *)
      rewrite s2_addobj_req, s2o_addobj_eq. destruct (addobj_asks ob n i ck); cbn [andb].
      + replace (Datatypes.S (req S) - req S)%nat with 1%nat by lia. cbn [first_refusal].
        destruct (o (req S)); [|done]. cbn [fail_res3 fst snd]. by rewrite refused_state_0.
      + by rewrite Nat.sub_diag.
  Qed.

  (** ** one-request constructors *)
  Lemma new_node_o_fail S d :
    spec_new_node_o o S d =
    match first_refusal o (req S) 1 with None => spec_new_node S d | Some j => (refused_state S j, None) end.
  Proof.
    unfold spec_new_node_o. cbn [first_refusal]. destruct (o (req S)); [|done]. by rewrite refused_state_0.
  Qed.
  Lemma req_new_node S d : req (spec_new_node S d).1 = Datatypes.S (req S).
  Proof. done. Qed.

  Lemma step_fail_ctor1 S op d :
    spec_step3o o S op = (let r := spec_new_node_o o S d in (r.1, R (RPtr r.2))) ->
    spec_step3 S op = (let r := spec_new_node S d in (r.1, R (RPtr r.2))) ->
    fail_res3 op = R (RPtr None) ->
    spec_step3o o S op = spec_step_fail o S op.
  Proof.
    intros E1 E2 E3. unfold spec_step_fail, nreq3. rewrite E1, E2, E3. cbn zeta. cbn [fst]. rewrite req_new_node.
    replace (Datatypes.S (req S) - req S)%nat with 1%nat by lia. rewrite new_node_o_fail.
    by destruct (first_refusal o (req S) 1).
  Qed.

  (** ** cJSON_CreateString / cJSON_CreateRaw *)
  Lemma new_string_o_fail S ty s :
    s = None \/ name_ok S s ->
    spec_new_string_o o S ty s =
    match first_refusal o (req S) (req (spec_new_string S ty s).1 - req S) with
    | None => spec_new_string S ty s
    | Some j => (refused_state S j, None)
    end.
  Proof.
    intros [->|(nb & s0 & -> & Hs & Hz)]; cbn [spec_new_string_o spec_new_string].
    - cbn [fst]. rewrite req_mk3. replace (Datatypes.S (req S) - req S)%nat with 1%nat by lia.
      cbn [first_refusal]. destruct (o (req S)); [|done]. by rewrite refused_state_0.
    - rewrite Hs. cbn [fst]. rewrite req_mk3.
      replace (Datatypes.S (Datatypes.S (req S)) - req S)%nat with 2%nat by lia. cbn [first_refusal].
      destruct (o (req S)); [by rewrite refused_state_0|]. destruct (o (Datatypes.S (req S))); [|done]. by rewrite refused_state_1.
  Qed.

  (** ** a root that was just made is deleted again: back to the forest and the strings of before *)
  Lemma fresh_not_root h S : Abs3 h S -> nxt S ∉ roots (a_forest S) /\ nxt S ∉ owned (a_forest S).
  Proof.
    intros HA. pose proof HA as [((W & _ & Hnext & _) & _) _]. unfold nxt. rewrite <- Hnext.
    pose proof (WF_next_notin _ _ W) as Hn. split; [|done]. intros Hin. by apply Hn, ids_subseteq_owned, roots_subseteq_ids.
  Qed.

  Lemma delete_fresh_root h S d nx1 rq1 (str1 : gmap positive bytes) :
    Abs3 h S ->
    (forall b, b ∈ owned_strs d -> (nxt S <= b)%positive) ->
    (forall b, (b < nxt S)%positive -> str1 !! b = a_str S !! b) ->
    (forall b, (nxt S <= b)%positive -> is_Some (str1 !! b) -> b ∈ owned_strs d) ->
    (s2 (mk3 (a_forest S ++ [T (nxt S) d []]) nx1 rq1 str1 (a_foreign S)) (OArr (ODelete (Some (nxt S))))).1
    = mk3 (a_forest S) nx1 rq1 (a_str S) (a_foreign S).
  Proof.
    intros HA Hown Hlow Hhigh. destruct (fresh_not_root h S HA) as [Hroot Hnown].
    pose proof HA as [((W & _ & Hnext & _) & _ & [SI1 _] & _) _].
    unfold s2, spec_step2. cbn [spec_step mk3 a_st as_forest as_next as_req a_forest a_str a_foreign fst].
    pose proof (remove_root_snoc (a_forest S) (T (nxt S) d []) Hroot) as Hrm. cbn [tid] in Hrm.
    unfold spec_delete. rewrite Hrm.
    unfold mk3. f_equal. apply map_eq. intros b. rewrite strs_gc_lookup.
    assert (Hhi : forall b, (nxt S <= b)%positive -> a_str S !! b = None).
    { intros b' Hb'. destruct (a_str S !! b') as [s'|] eqn:E; [|done]. destruct (SI1 _ _ E) as [_ Hlt]. unfold nxt in Hb'. lia. }
    destruct (decide (released _ _ b)) as [[Hr1 Hr2]|Hnr].
    - symmetry. apply Hhi. rewrite owned_snoc_root in Hr1. apply elem_of_app in Hr1 as [Hr1|Hr1]; [|done].
      apply elem_of_cons in Hr1 as [->|Hr1]; [lia|by apply Hown].
    - destruct (Pos.ltb_spec b (nxt S)) as [Hb|Hb]; [by apply Hlow|]. rewrite (Hhi b Hb).
      destruct (str1 !! b) as [s'|] eqn:E; [|done]. exfalso. apply Hnr. split.
      + rewrite owned_snoc_root. apply elem_of_app. left. right. apply Hhigh; [done|eauto].
      + intros Hin. pose proof (wf_fresh _ _ W _ Hin). unfold nxt in Hb. lia.
  Qed.

  (** ** "add under an owned copy of the name, or delete again" after a root [x] was made *)
  Lemma add_or_delete_o_fail {A} h S d nx1 rq1 (str1 : gmap positive bytes) ob n (yes no : A) :
    Abs3 h S ->
    (forall b, b ∈ owned_strs d -> (nxt S <= b)%positive) ->
    (forall b, (b < nxt S)%positive -> str1 !! b = a_str S !! b) ->
    (forall b, (nxt S <= b)%positive -> is_Some (str1 !! b) -> b ∈ owned_strs d) ->
    let S1 := mk3 (a_forest S ++ [T (nxt S) d []]) nx1 rq1 str1 (a_foreign S) in
    spec_add_or_delete_o o S1 (Some (nxt S)) ob n yes no =
    match first_refusal o rq1 (req (spec_add_or_delete S1 (Some (nxt S)) ob n yes no).1 - rq1) with
    | None => spec_add_or_delete S1 (Some (nxt S)) ob n yes no
    | Some j => (with_counters S nx1 (Datatypes.S j), no)
    end.
  Proof.
    intros HA Hown Hlow Hhigh S1. unfold spec_add_or_delete_o, spec_add_or_delete. cbn zeta.
    rewrite s2o_addobj_eq. change (req S1) with rq1.
    destruct (addobj_asks ob n (Some (nxt S)) false) eqn:Hask; cbn [andb].
    - (* the copy of the name is requested *)
      assert (Hn1 : forall b : bool,
                (req (if b then ((s2 S1 (OAddObj ob n (Some (nxt S)) false)).1, yes)
                      else ((s2 (s2 S1 (OAddObj ob n (Some (nxt S)) false)).1 (OArr (ODelete (Some (nxt S))))).1, no)).1 - rq1 = 1)%nat).
      { intros [|]; cbn [fst]; [|rewrite (req_s2_noalloc _ (OArr (ODelete _))) by done];
          rewrite s2_addobj_req, Hask; change (req S1) with rq1; lia. }
      rewrite Hn1. cbn [first_refusal].
      destruct (o rq1); [|done]. cbn [snd res_bool fst].
      f_equal. unfold bumped, with_counters, S1. rewrite !nxt_mk3, !req_mk3.
      cbn [mk3 a_forest a_st as_forest a_str a_foreign].
      exact (delete_fresh_root h S d nx1 (Datatypes.S rq1) str1 HA Hown Hlow Hhigh).
    - (* refused by the API: no request *)
      destruct (res_bool (s2 S1 (OAddObj ob n (Some (nxt S)) false)).2) eqn:Hb; cbn [fst].
      + rewrite s2_addobj_req, Hask. change (req S1) with rq1. by rewrite Nat.sub_diag.
      + rewrite (req_s2_noalloc _ (OArr (ODelete _))) by done. rewrite s2_addobj_req, Hask. change (req S1) with rq1. by rewrite Nat.sub_diag.
  Qed.

  Lemma first_refusal_app a n1 : forall n2,
    first_refusal o a (n1 + n2) = match first_refusal o a n1 with Some j => Some j | None => first_refusal o (a + n1) n2 end.
  Proof.
    revert a. induction n1 as [|n1 IH]; intros a n2; [by rewrite Nat.add_0_r|]. cbn [Nat.add first_refusal].
    destruct (o a); [done|]. rewrite IH. by replace (Datatypes.S a + n1)%nat with (a + Datatypes.S n1)%nat by lia.
  Qed.

  Lemma req_add_or_delete {A} S1 it ob n (yes no : A) :
    req (spec_add_or_delete S1 it ob n yes no).1 = if addobj_asks ob n it false then Datatypes.S (req S1) else req S1.
  Proof.
    unfold spec_add_or_delete. cbn zeta. destruct (res_bool _); cbn [fst]; [|rewrite (req_s2_noalloc _ (OArr (ODelete _))) by done];
      apply s2_addobj_req.
  Qed.
  Lemma spec_add_or_delete_o_nv {A} S1 it ob n (yes no : A) :
    spec_add_or_delete_o nv S1 it ob n yes no = spec_add_or_delete S1 it ob n yes no.
  Proof. reflexivity. Qed.

  (** ** create a root (nc requests), then add it or delete it again *)
  Lemma compose_fail {A} h S d nc (str1 : gmap positive bytes) ob n (yes yes' no : A) (created_o : astate2 * ptr) :
    Abs3 h S ->
    (forall b, b ∈ owned_strs d -> (nxt S <= b)%positive) ->
    (forall b, (b < nxt S)%positive -> str1 !! b = a_str S !! b) ->
    (forall b, (nxt S <= b)%positive -> is_Some (str1 !! b) -> b ∈ owned_strs d) ->
    let S1 := mk3 (a_forest S ++ [T (nxt S) d []]) (pos_add (nxt S) nc) (req S + nc) str1 (a_foreign S) in
    created_o = match first_refusal o (req S) nc with None => (S1, Some (nxt S)) | Some j => (refused_state S j, None) end ->
    (first_refusal o (req S) nc = None -> yes' = yes) ->
    let rn := spec_add_or_delete S1 (Some (nxt S)) ob n yes no in
    spec_add_or_delete_o o created_o.1 created_o.2 ob n yes' no =
    match first_refusal o (req S) (req rn.1 - req S) with None => rn | Some j => (refused_state S j, no) end.
  Proof.
    intros HA Hown Hlow Hhigh S1 Hc Hyes rn.
    assert (Hreq : (req rn.1 - req S = nc + (if addobj_asks ob n (Some (nxt S)) false then 1 else 0))%nat).
    { unfold rn. rewrite req_add_or_delete. unfold S1. rewrite req_mk3. destruct (addobj_asks _ _ _ _); lia. }
    rewrite Hreq, first_refusal_app. rewrite Hc. destruct (first_refusal o (req S) nc) as [j|] eqn:E; cbn [fst snd].
    { by rewrite spec_add_or_delete_o_none. }
    rewrite (Hyes eq_refl).
    pose proof (add_or_delete_o_fail h S d (pos_add (nxt S) nc) (req S + nc)%nat str1 ob n yes no HA Hown Hlow Hhigh) as Hadd.
    cbn zeta in Hadd. fold S1 in Hadd. fold rn in Hadd. rewrite Hadd.
    assert (Hreq' : (req rn.1 - (req S + nc) = if addobj_asks ob n (Some (nxt S)) false then 1 else 0)%nat) by lia.
    rewrite Hreq'. clear Hadd. destruct (first_refusal o (req S + nc) (if addobj_asks ob n (Some (nxt S)) false then 1 else 0)%nat) as [j|] eqn:E2; [|done].
    apply first_refusal_Some in E2 as (Hj & _). assert (j = (req S + nc)%nat) by (destruct (addobj_asks _ _ _ _); lia). subst j.
    unfold refused_state. by replace (req S + nc - req S)%nat with nc by lia.
  Qed.

  (** the string heap of a state that represents something has nothing at or above [nxt] *)
  Lemma str_above h S b : Abs3 h S -> (nxt S <= b)%positive -> a_str S !! b = None.
  Proof.
    intros [((_ & _ & Hnext & _) & _ & [SI1 _] & _) _] Hb. destruct (a_str S !! b) as [s'|] eqn:E; [|done].
    destruct (SI1 _ _ E) as [_ Hlt]. unfold nxt in Hb. lia.
  Qed.

  (** ** the reference calls *)
  Lemma add_none_same X pa : s2 X (OArr (OAdd (Some pa) None)) = (X, RBool false).
  Proof. apply s2_arr_same. cbn [spec_step spec_add_to_array]. by rewrite keep_same. Qed.

  Lemma step_fail_refarr h S a i :
    Abs3 h S -> pre_ok3 S (OAddItemReferenceToArray a i) ->
    spec_step3o o S (OAddItemReferenceToArray a i) = spec_step_fail o S (OAddItemReferenceToArray a i).
  Proof.
    intros HA Hpre. unfold spec_step_fail, nreq3. cbn [spec_step3o spec_step3 pre_ok3] in *.
    destruct a as [pa|]; [|cbn [fst]; by rewrite Nat.sub_diag].
    destruct Hpre as [?|[Hi _]]; [done|]. cbn zeta.
    destruct Hi as [->|(y & -> & [n0 Hy])].
    { cbn [spec_create_ref_o spec_create_ref fst snd]. rewrite add_none_same. cbn [fst]. by rewrite Nat.sub_diag. }
    cbn [spec_create_ref_o spec_create_ref]. rewrite Hy. cbn [fst].
    rewrite (req_s2_noalloc _ (OArr (OAdd _ _))) by done. rewrite req_new_node.
    replace (Datatypes.S (req S) - req S)%nat with 1%nat by lia. rewrite new_node_o_fail.
    destruct (first_refusal o (req S) 1) as [j|]; [|done]. cbn [fst snd]. by rewrite add_none_same.
  Qed.

  Lemma step_fail_refobj h S ob n i :
    Abs3 h S -> pre_ok3 S (OAddItemReferenceToObject ob n i) ->
    spec_step3o o S (OAddItemReferenceToObject ob n i) = spec_step_fail o S (OAddItemReferenceToObject ob n i).
  Proof.
    intros HA Hpre. unfold spec_step_fail, nreq3. cbn [spec_step3o spec_step3 pre_ok3] in *.
    destruct ob as [po|]; [|cbn [fst]; by rewrite Nat.sub_diag].
    destruct n as [nb|]; [|cbn [fst]; by rewrite Nat.sub_diag].
    destruct Hpre as [?|[?|[Hi _]]]; [done|done|]. cbn zeta.
    destruct Hi as [->|(y & -> & [n0 Hy])].
    { cbn [spec_create_ref_o spec_create_ref fst snd]. rewrite spec_add_or_delete_o_none.
      rewrite <- (spec_add_or_delete_o_nv S None), spec_add_or_delete_o_none. cbn [fst snd]. by rewrite Nat.sub_diag. }
    cbn [spec_create_ref_o spec_create_ref]. rewrite Hy.
    set (d := rd_reference (tdata n0) (cids n0)).
    pose proof (compose_fail h S d 1 (a_str S) (Some po) (Some nb) true true false (spec_new_node_o o S d) HA) as Hc.
    cbn zeta in Hc. rewrite pos_add_1 in Hc. replace (req S + 1)%nat with (Datatypes.S (req S)) in Hc by lia.
    change (mk3 (a_forest S ++ [T (nxt S) d []]) (Pos.succ (nxt S)) (Datatypes.S (req S)) (a_str S) (a_foreign S))
      with (spec_new_node S d).1 in Hc.
    rewrite Hc; clear Hc.
    - cbn [fst snd]. by destruct (first_refusal o (req S) _).
    - unfold d. rewrite owned_strs_reference. intros b Hb. by apply elem_of_nil in Hb.
    - done.
    - intros b Hb [s' Hs']. by rewrite (str_above h S b HA Hb) in Hs'.
    - apply new_node_o_fail.
    - done.
  Qed.

  (** ** replace by key *)
  Lemma step_fail_replace S ob n r cs :
    pre_replace_key S ob n r ->
    spec_step3o o S (OReplaceItemInObject ob n r cs) = spec_step_fail o S (OReplaceItemInObject ob n r cs).
  Proof.
    intros Hpre. unfold spec_step_fail, nreq3. cbn [spec_step3o spec_step3 fail_res3]. cbn zeta. cbn [fst].
    assert (Hone : forall nb r', n = Some nb -> r = Some r' -> req (spec_replace_key3 S ob n r cs).1 = Datatypes.S (req S) ->
              (let q := spec_replace_key3_o o S ob n r cs in (q.1, R (RBool q.2))) =
              match first_refusal o (req S) (req (spec_replace_key3 S ob n r cs).1 - req S) with
              | None => ((spec_replace_key3 S ob n r cs).1, R (RBool (spec_replace_key3 S ob n r cs).2))
              | Some j => (refused_state S j, R (RBool false))
              end).
    { intros nb r' -> -> Hq. rewrite Hq. replace (Datatypes.S (req S) - req S)%nat with 1%nat by lia.
      unfold spec_replace_key3_o. cbn [first_refusal]. destruct (o (req S)); [|done]. cbn [fst snd]. by rewrite refused_state_0. }
    destruct Hpre as [Href|[(p & r' & -> & -> & (Hpr & tr & dp & csp & Hr & Hp & Hrf) & (nb & s & -> & Hs & Hz))|
                  (-> & nb & r' & -> & -> & [n0 Hr] & (nb' & s & [= <-] & Hs & Hz))]].
    - assert (E1 : spec_replace_key3 S ob n r cs = (S, false)) by (unfold spec_replace_key3; destruct ob, n, r; try done; by destruct Href).
      assert (E2 : spec_replace_key3_o o S ob n r cs = (S, false)).
      { unfold spec_replace_key3_o. destruct n, r; try done; by destruct Href. }
      rewrite E1, E2. cbn [fst snd]. by rewrite Nat.sub_diag.
    - apply (Hone nb r' eq_refl eq_refl). unfold spec_replace_key3. rewrite Hr, Hs.
      pose proof (req_s2_noalloc (rk_S1 S r' s (tdata tr)) (OArr (OReplace (Some p) (rk_it S p r' s (tdata tr) cs) (Some r'))) eq_refl) as Hq.
      unfold s2 in Hq. destruct (spec_step2 nv _ _) as [S2 res]. cbn [fst] in *. rewrite Hq. reflexivity.
    - apply (Hone nb r' eq_refl eq_refl). unfold spec_replace_key3, spec_rekey_only. by rewrite Hr, Hs.
  Qed.

  (** ** set valuestring *)
  Lemma step_fail_setvs S x v :
    spec_step3o o S (OSetValuestring x v) = spec_step_fail o S (OSetValuestring x v).
  Proof.
    unfold spec_step_fail, nreq3. cbn [spec_step3o spec_step3 fail_res3]. cbn zeta. cbn [fst].
    unfold spec_set_valuestring3_o, spec_set_valuestring3.
    destruct x as [x|], v as [sb|]; try (cbn [fst]; by rewrite Nat.sub_diag).
    destruct (find_tree x (a_forest S)) as [n0|]; [|cbn [fst]; by rewrite Nat.sub_diag]. cbn zeta.
    destruct (negb _ || _); [cbn [fst]; by rewrite Nat.sub_diag|].
    destruct (rd_vstr (tdata n0)) as [vb|]; [|cbn [fst]; by rewrite Nat.sub_diag].
    destruct (a_str S !! sb) as [s|]; [|cbn [fst]; by rewrite Nat.sub_diag].
    destruct (a_str S !! vb) as [old|]; [|cbn [fst]; by rewrite Nat.sub_diag].
    destruct (length (cstr s) <=? length (cstr old))%nat.
    - destruct (decide (sb = vb)); cbn [fst]; [by rewrite Nat.sub_diag|]. rewrite req_mk3. by rewrite Nat.sub_diag.
    - cbn [fst]. rewrite req_mk3. replace (Datatypes.S (req S) - req S)%nat with 1%nat by lia. cbn [first_refusal].
      destruct (o (req S)); [|done]. cbn [fst snd]. by rewrite refused_state_0.
  Qed.

  (** ** the bulk constructors *)
  Lemma step_fail_bulk {A} S (l : option (list A)) c (f : list A -> list dbl) op :
    spec_step3o o S op = spec_bulk S l c (fun xs => spec_number_array_o o S (f xs) c) ->
    spec_step3 S op = spec_bulk S l c (fun xs => spec_number_array S (f xs) c) ->
    fail_res3 op = R (RPtr None) ->
    spec_step3o o S op = spec_step_fail o S op.
  Proof.
    intros E1 E2 E3. unfold spec_step_fail, nreq3. rewrite E1, E2, E3. unfold spec_bulk.
    destruct l as [xs|]; [|cbn [fst]; by rewrite Nat.sub_diag].
    destruct (c <? 0); [cbn [fst]; by rewrite Nat.sub_diag|].
    unfold spec_number_array_o. cbn [spec_number_array fst snd]. rewrite req_mk3.
    replace (Datatypes.S (req S) + Z.to_nat c - req S)%nat with (Datatypes.S (Z.to_nat c)) by lia.
    by destruct (first_refusal o (req S) _).
  Qed.
  Lemma step_fail_strarr S l c :
    spec_step3o o S (OCreateStringArray l c) = spec_step_fail o S (OCreateStringArray l c).
  Proof.
    unfold spec_step_fail, nreq3. cbn [spec_step3o spec_step3 fail_res3]. unfold spec_bulk.
    destruct l as [xs|]; [|cbn [fst]; by rewrite Nat.sub_diag].
    destruct (c <? 0); [cbn [fst]; by rewrite Nat.sub_diag|].
    unfold spec_string_array_o. cbn [spec_string_array fst snd]. rewrite req_mk3.
    replace (Datatypes.S (req S) + 2 * Z.to_nat c - req S)%nat with (Datatypes.S (2 * Z.to_nat c)) by lia.
    by destruct (first_refusal o (req S) _).
  Qed.

  (** ** the cJSON_Add…ToObject helpers *)
  Lemma s2o_create_eq S ty :
    s2o o S (OArr (OCreate ty)) =
    if o (req S) then (mk3 (a_forest S) (nxt S) (Datatypes.S (req S)) (strs_gc (a_forest S) (a_forest S) (a_str S)) (a_foreign S), RPtr None)
    else s2 S (OArr (OCreate ty)).
  Proof. unfold s2o, s2, spec_step2, spec_step, req. by destruct (o (as_req (a_st S))). Qed.

  Lemma strs_gc_grow F t (m : gmap positive bytes) : strs_gc F (F ++ [t]) m = m.
  Proof.
    apply map_eq. intros b. rewrite strs_gc_lookup. destruct (decide _) as [[H1 H2]|]; [|done].
    exfalso. apply H2. unfold owned. rewrite flat_app, owned_fl_app. apply elem_of_app. by left.
  Qed.

  Lemma step_fail_addto h S k ob n :
    Abs3 h S -> pre_ok3 S (OAddToObject k ob n) ->
    spec_step3o o S (OAddToObject k ob n) = spec_step_fail o S (OAddToObject k ob n).
  Proof.
    intros HA [Hk _]. unfold spec_step_fail, nreq3. cbn [spec_step3o spec_step3 fail_res3]. cbn zeta. cbn [fst].
    (* the shape shared by every kind that yields an item *)
    assert (Hgen : forall d nc (str1 : gmap positive bytes),
      (forall b, b ∈ owned_strs d -> (nxt S <= b)%positive) ->
      (forall b, (b < nxt S)%positive -> str1 !! b = a_str S !! b) ->
      (forall b, (nxt S <= b)%positive -> is_Some (str1 !! b) -> b ∈ owned_strs d) ->
      let S1 := mk3 (a_forest S ++ [T (nxt S) d []]) (pos_add (nxt S) nc) (req S + nc) str1 (a_foreign S) in
      spec_created S k = (S1, Some (nxt S)) ->
      spec_created_o o S k = match first_refusal o (req S) nc with None => (S1, Some (nxt S)) | Some j => (refused_state S j, None) end ->
      (let r := spec_add_or_delete_o o (spec_created_o o S k).1 (spec_created_o o S k).2 ob n (spec_created_o o S k).2 None in
       (r.1, R (RPtr r.2))) =
      match first_refusal o (req S)
              (req (spec_add_or_delete (spec_created S k).1 (spec_created S k).2 ob n (spec_created S k).2 None).1 - req S) with
      | None => let r := spec_add_or_delete (spec_created S k).1 (spec_created S k).2 ob n (spec_created S k).2 None in (r.1, R (RPtr r.2))
      | Some j => (refused_state S j, R (RPtr None))
      end).
    { intros d nc str1 Hown Hlow Hhigh S1 E1 E2. cbn zeta. rewrite E1. cbn [fst snd].
      pose proof (compose_fail (A:=ptr) h S d nc str1 ob n (Some (nxt S)) (spec_created_o o S k).2 None (spec_created_o o S k) HA Hown Hlow Hhigh) as Hc.
      cbn zeta in Hc. fold S1 in Hc. rewrite Hc; [|exact E2|].
      - clear Hc E2. match goal with |- context [first_refusal o (req S) ?nn] => by destruct (first_refusal o (req S) nn) end.
      - intros E. rewrite E2, E. done. }
    assert (Htyped : forall ty,
      spec_created S k = ((s2 S (OArr (OCreate ty))).1, res_ptr (s2 S (OArr (OCreate ty))).2) ->
      spec_created_o o S k = ((s2o o S (OArr (OCreate ty))).1, res_ptr (s2o o S (OArr (OCreate ty))).2) ->
      (let r := spec_add_or_delete_o o (spec_created_o o S k).1 (spec_created_o o S k).2 ob n (spec_created_o o S k).2 None in
       (r.1, R (RPtr r.2))) =
      match first_refusal o (req S)
              (req (spec_add_or_delete (spec_created S k).1 (spec_created S k).2 ob n (spec_created S k).2 None).1 - req S) with
      | None => let r := spec_add_or_delete (spec_created S k).1 (spec_created S k).2 ob n (spec_created S k).2 None in (r.1, R (RPtr r.2))
      | Some j => (refused_state S j, R (RPtr None))
      end).
    { intros ty Ety1 Ety2.
      apply (Hgen (rd_typed ty) 1%nat (strs_gc (a_forest S) (a_forest S ++ [T (nxt S) (rd_typed ty) []]) (a_str S))).
      - rewrite owned_strs_typed. intros b Hb. by apply elem_of_nil in Hb.
      - intros b Hb. by rewrite strs_gc_grow.
      - intros b Hb [s' Hs']. rewrite strs_gc_grow in Hs'. by rewrite (str_above h S b HA Hb) in Hs'.
      - rewrite Ety1, pos_add_1. replace (req S + 1)%nat with (Datatypes.S (req S)) by lia. reflexivity.
      - rewrite Ety2, s2o_create_eq. cbn [first_refusal]. destruct (o (req S)); cbn [fst snd res_ptr].
        + rewrite refused_state_0. unfold bumped, with_counters. by rewrite strs_gc_refl.
        + rewrite pos_add_1. replace (req S + 1)%nat with (Datatypes.S (req S)) by lia. reflexivity. }
    assert (Hstr : forall ty s, owned_strs (rd_string ty (Pos.succ (nxt S))) = [Pos.succ (nxt S)] ->
      s = None \/ name_ok S s ->
      spec_created S k = spec_new_string S ty s -> spec_created_o o S k = spec_new_string_o o S ty s ->
      (let r := spec_add_or_delete_o o (spec_created_o o S k).1 (spec_created_o o S k).2 ob n (spec_created_o o S k).2 None in
       (r.1, R (RPtr r.2))) =
      match first_refusal o (req S)
              (req (spec_add_or_delete (spec_created S k).1 (spec_created S k).2 ob n (spec_created S k).2 None).1 - req S) with
      | None => let r := spec_add_or_delete (spec_created S k).1 (spec_created S k).2 ob n (spec_created S k).2 None in (r.1, R (RPtr r.2))
      | Some j => (refused_state S j, R (RPtr None))
      end).
    { intros ty s Hos Hs Es1 Es2. destruct Hs as [->|Hn].
      - (* a NULL string: the node is made and released, there is no item *)
        cbn zeta. rewrite Es1, Es2. cbn [spec_new_string spec_new_string_o fst snd].
        rewrite <- (spec_add_or_delete_o_nv _ None), !spec_add_or_delete_o_none. cbn [fst snd]. rewrite req_mk3.
        replace (Datatypes.S (req S) - req S)%nat with 1%nat by lia. cbn [first_refusal].
        destruct (o (req S)); cbn [fst snd]; rewrite spec_add_or_delete_o_none; cbn [fst snd]; [by rewrite refused_state_0|done].
      - pose proof Hn as (nb & s0 & -> & Hs0 & Hz).
        apply (Hgen (rd_string ty (Pos.succ (nxt S))) 2%nat (<[Pos.succ (nxt S) := cstr s0 ++ [0]]> (a_str S))).
        + rewrite Hos. intros b Hb. apply elem_of_list_singleton in Hb as ->. lia.
        + intros b Hb. rewrite lookup_insert_ne by lia. done.
        + intros b Hb [s' Hs']. rewrite Hos. apply elem_of_list_singleton.
          destruct (decide (b = Pos.succ (nxt S))) as [->|Hne]; [done|]. rewrite lookup_insert_ne in Hs' by done.
          by rewrite (str_above h S b HA Hb) in Hs'.
        + rewrite Es1. cbn [spec_new_string]. rewrite Hs0. rewrite pos_add_2.
          replace (req S + 2)%nat with (Datatypes.S (Datatypes.S (req S))) by lia. reflexivity.
        + rewrite Es2. rewrite (new_string_o_fail S ty (Some nb) (or_intror Hn)). cbn [spec_new_string]. rewrite Hs0. cbn [fst].
          rewrite req_mk3. replace (Datatypes.S (Datatypes.S (req S)) - req S)%nat with 2%nat by lia.
          rewrite pos_add_2. replace (req S + 2)%nat with (Datatypes.S (Datatypes.S (req S))) by lia. reflexivity. }
    destruct k as [| | |bb|nn|s|s| |]; cbn [pre_created] in Hk.
    1: by apply (Htyped c_cJSON_NULL).
    1: by apply (Htyped c_cJSON_True).
    1: by apply (Htyped c_cJSON_False).
    1: by apply (Htyped (if bb then c_cJSON_True else c_cJSON_False)).
    4: by apply (Htyped c_cJSON_Object).
    4: by apply (Htyped c_cJSON_Array).
    - (* number *)
      apply (Hgen (rd_number nn) 1%nat (a_str S)).
      + intros b Hb. by apply elem_of_nil in Hb.
      + done.
      + intros b Hb [s' Hs']. by rewrite (str_above h S b HA Hb) in Hs'.
      + rewrite pos_add_1. replace (req S + 1)%nat with (Datatypes.S (req S)) by lia. reflexivity.
      + cbn [spec_created_o]. rewrite new_node_o_fail. rewrite pos_add_1. replace (req S + 1)%nat with (Datatypes.S (req S)) by lia.
        reflexivity.
    - (* string *) by apply (Hstr c_cJSON_String s).
    - (* raw *) by apply (Hstr c_cJSON_Raw s).
  Qed.

  (** * the model with failure IS [spec_step_fail] *)
  Theorem spec_step3o_fail h S op :
    Abs3 h S -> pre_ok3 S op -> spec_step3o o S op = spec_step_fail o S op.
  Proof.
    intros HA Hpre.
    assert (Hnone : spec_step3o o S op = spec_step3 S op -> req (spec_step3 S op).1 = req S ->
                    spec_step3o o S op = spec_step_fail o S op).
    { intros E1 E2. unfold spec_step_fail, nreq3. by rewrite E2, Nat.sub_diag. }
    destruct op as [op|n|s|s|s|c|c|a i|ob n i|ob n r cs|x n|x z|x b|x v|k ob n|ob n|x|x|l c|l c|l c|l c].
    - apply step_fail_O2.
    - by apply (step_fail_ctor1 S _ (rd_number n)).
    - unfold spec_step_fail, nreq3. cbn [spec_step3o spec_step3 fail_res3 pre_ok3] in *. cbn zeta. cbn [fst].
      rewrite (new_string_o_fail S _ s Hpre). by destruct (first_refusal o (req S) _).
    - unfold spec_step_fail, nreq3. cbn [spec_step3o spec_step3 fail_res3 pre_ok3] in *. cbn zeta. cbn [fst].
      rewrite (new_string_o_fail S _ s Hpre). by destruct (first_refusal o (req S) _).
    - by apply (step_fail_ctor1 S _ (rd_string_ref s)).
    - by apply (step_fail_ctor1 S _ (rd_container_ref c_cJSON_Object c)).
    - by apply (step_fail_ctor1 S _ (rd_container_ref c_cJSON_Array c)).
    - by apply (step_fail_refarr h).
    - by apply (step_fail_refobj h).
    - by apply step_fail_replace.
    - by apply Hnone.
    - by apply Hnone.
    - by apply Hnone.
    - apply step_fail_setvs.
    - by apply (step_fail_addto h).
    - by apply Hnone.
    - by apply Hnone.
    - by apply Hnone.
    - by apply (step_fail_bulk S l c (fmap dbl_of_int)).
    - by apply (step_fail_bulk S l c (fun v => v)).
    - by apply (step_fail_bulk S l c (fun v => v)).
    - apply step_fail_strarr.
  Qed.

  (** in words: the two branches, and which one is taken *)
  Corollary step_fail_normal h S op :
    Abs3 h S -> pre_ok3 S op ->
    (forall k, (req S <= k < req S + nreq3 S op)%nat -> o k = false) ->
    spec_step3o o S op = spec_step3 S op.
  Proof.
    intros HA Hpre Hall. rewrite (spec_step3o_fail h) by done. unfold spec_step_fail.
    by rewrite (proj2 (first_refusal_None o (nreq3 S op) (req S)) Hall).
  Qed.
  Corollary step_fail_refused h S op j :
    Abs3 h S -> pre_ok3 S op ->
    (req S <= j < req S + nreq3 S op)%nat -> o j = true -> (forall k, (req S <= k < j)%nat -> o k = false) ->
    spec_step3o o S op = (refused_state S j, fail_res3 op).
  Proof.
    intros HA Hpre Hj Hoj Hbefore. rewrite (spec_step3o_fail h) by done. unfold spec_step_fail.
    by rewrite (proj2 (first_refusal_Some o (nreq3 S op) (req S) j) (conj Hj (conj Hoj Hbefore))).
  Qed.
End Spec.

(** * calls that never ask the allocator always take the normal step *)
Definition op3_allocates (op : op3) : bool :=
  match op with
  | O2 op => op2_allocates op
  | OSetNumberValue _ _ | OSetIntValue _ _ | OSetBoolValue _ _ | OHasObjectItem _ _ | OGetStringValue _
  | OGetNumberValue _ => false
  | _ => true
  end.
Lemma nreq3_noalloc S op : op3_allocates op = false -> nreq3 S op = 0%nat.
Proof.
  intros H. unfold nreq3. destruct op as [op| | | | | | | | | |x n|x z|x b| | |ob n|x|x| | | |]; try done; cbn [spec_step3 fst].
  - rewrite (req_s2_noalloc S op H). lia.
  - unfold spec_set_number3. rewrite req_mk3. lia.
  - unfold spec_set_int3. rewrite req_mk3. lia.
  - unfold spec_set_bool3. cbn [fst]. rewrite req_mk3. lia.
  - lia.
  - lia.
  - lia.
Qed.
Corollary step_fail_noalloc o S op : op3_allocates op = false -> spec_step_fail o S op = spec_step3 S op.
Proof. intros H. unfold spec_step_fail. by rewrite (nreq3_noalloc S op H). Qed.

