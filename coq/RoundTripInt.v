(** RoundTripInt.v — property C04, helper: (double) of an integer, exactly.

    [dbl_of_int z] is [binary_normalize 53 1024 z 0 false]; for |z| < 2^53 no rounding
    happens and the result is computed here in closed form (mantissa shifted to 53 bits).
    Consequences used by C04: it is a well-formed finite double, [trunc_dbl] of it is z, and
    the saturating conversion [sat_int] of (double) of a C int is that int.
    Elementary: SpecFloat definitions unfolded, no real numbers. *)
From CJ Require Import Base Dbl Tree PrintDefs RoundTripNum.
Local Open Scope Z_scope.

(** * digits and shifts *)
Lemma digits2_shift p n : digits2_pos (shift_pos n p) = (digits2_pos p + n)%positive.
Proof.
  unfold shift_pos. induction n as [|n IH] using Pos.peano_ind.
  - cbn [Pos.iter digits2_pos]. lia.
  - rewrite Pos.iter_succ. cbn [digits2_pos]. rewrite IH. lia.
Qed.

Lemma shift_pos_val p n : Zpos (shift_pos n p) = Zpos p * 2 ^ Zpos n.
Proof.
  unfold shift_pos. induction n as [|n IH] using Pos.peano_ind.
  - cbn [Pos.iter]. change (2 ^ 1) with 2. lia.
  - rewrite Pos.iter_succ. rewrite Pos2Z.inj_xO, IH, Pos2Z.inj_succ, Z.pow_succ_r by lia. lia.
Qed.

Lemma pow_digits_le p : 2 ^ (Zpos (digits2_pos p) - 1) <= Zpos p.
Proof.
  induction p as [p IH|p IH|]; cbn [digits2_pos].
  - rewrite Pos2Z.inj_succ. replace (Z.succ (Zpos (digits2_pos p)) - 1) with (Z.succ (Zpos (digits2_pos p) - 1)) by lia.
    rewrite Z.pow_succ_r by lia. lia.
  - rewrite Pos2Z.inj_succ. replace (Z.succ (Zpos (digits2_pos p)) - 1) with (Z.succ (Zpos (digits2_pos p) - 1)) by lia.
    rewrite Z.pow_succ_r by lia. lia.
  - reflexivity.
Qed.

Lemma digits_le_of_lt p k : 0 <= k -> Zpos p < 2 ^ k -> Zpos (digits2_pos p) <= k.
Proof.
  intros Hk Hp. pose proof (pow_digits_le p) as H.
  destruct (Z.le_gt_cases (Zpos (digits2_pos p)) k) as [|Hgt]; [assumption|].
  pose proof (Z.pow_le_mono_r 2 k (Zpos (digits2_pos p) - 1) ltac:(lia) ltac:(lia)). lia.
Qed.

(** * the closed form *)

(** a positive integer of at most 53 bits as a normalised double: mantissa shifted up to
    exactly 53 bits *)
Definition norm_pos (s : bool) (p : positive) : dbl :=
  match Zpos (digits2_pos p) - 53 with
  | Zneg q => S754_finite s (shift_pos q p) (Zpos (digits2_pos p) - 53)
  | _ => S754_finite s p 0
  end.

Lemma round_aux_53 s m e :
  Zpos (digits2_pos m) = 53 -> -1074 <= e <= 971 ->
  binary_round_aux prec emax s (Zpos m) e loc_Exact = S754_finite s m e.
Proof.
  intros Hd He. unfold binary_round_aux.
  assert (Hsh : forall l, l = loc_Exact ->
            shr_fexp prec emax (Zpos m) e l = (Build_shr_record (Zpos m) false false, e)).
  { intros l ->. unfold shr_fexp. cbn [Zdigits2]. rewrite Hd.
    unfold fexp, emin, prec, emax. rewrite Z.max_l by lia.
    replace (53 + e - 53 - e) with 0 by lia. reflexivity. }
  rewrite (Hsh _ eq_refl). cbn [shr_m loc_of_shr_record round_nearest_even].
  rewrite (Hsh _ eq_refl). cbn [shr_m].
  unfold prec, emax. destruct (Zle_bool e (1024 - 53)) eqn:E; [reflexivity|].
  apply Z.leb_gt in E. lia.
Qed.

Lemma binary_round_small s p : Zpos (digits2_pos p) <= 53 ->
  binary_round prec emax s p 0 = norm_pos s p.
Proof.
  intro Hd. unfold binary_round, norm_pos, shl_align.
  assert (Hf : fexp prec emax (Zpos (digits2_pos p) + 0) = Zpos (digits2_pos p) - 53).
  { unfold fexp, emin, prec, emax. rewrite Z.max_l by lia. lia. }
  rewrite Hf, Z.sub_0_r.
  destruct (Zpos (digits2_pos p) - 53) as [|q|q] eqn:E.
  - apply round_aux_53; lia.
  - lia.
  - apply round_aux_53.
    + rewrite digits2_shift. lia.
    + lia.
Qed.

Lemma dbl_of_int_pos p : Zpos (digits2_pos p) <= 53 -> dbl_of_int (Zpos p) = norm_pos false p.
Proof. intro H. unfold dbl_of_int. cbn [binary_normalize]. apply binary_round_small, H. Qed.

Lemma dbl_of_int_neg p : Zpos (digits2_pos p) <= 53 -> dbl_of_int (Zneg p) = norm_pos true p.
Proof. intro H. unfold dbl_of_int. cbn [binary_normalize]. apply binary_round_small, H. Qed.

(** the value and the shape of the closed form *)
Lemma norm_pos_cases s p : Zpos (digits2_pos p) <= 53 ->
  exists m e, norm_pos s p = S754_finite s m e /\ -52 <= e <= 0 /\ Zpos m = Zpos p * 2 ^ (- e) /\
              Zpos (digits2_pos m) = 53 /\ e = Zpos (digits2_pos p) - 53.
Proof.
  intro Hd. unfold norm_pos. destruct (Zpos (digits2_pos p) - 53) as [|q|q] eqn:E.
  - exists p, 0. split; [reflexivity|]. split; [lia|]. split; [cbn; lia|]. split; lia.
  - lia.
  - exists (shift_pos q p), (Z.neg q). split; [reflexivity|].
    split; [lia|]. split; [|split; [rewrite digits2_shift; lia|lia]].
    rewrite shift_pos_val. reflexivity.
Qed.

(** * consequences *)
Lemma norm_pos_valid s p : Zpos (digits2_pos p) <= 53 -> valid_dbl (norm_pos s p) = true.
Proof.
  intro Hd. destruct (norm_pos_cases s p Hd) as (m & e & E & He & _ & Hm & _). rewrite E.
  unfold valid_dbl. cbn [valid_binary]. unfold bounded, canonical_mantissa.
  rewrite Hm. unfold fexp, emin, prec, emax. rewrite Z.max_l by lia.
  apply andb_true_iff. split.
  - apply Zeq_is_eq_bool. lia.
  - apply Z.leb_le. lia.
Qed.

Lemma trunc_norm_pos s p : Zpos (digits2_pos p) <= 53 ->
  trunc_dbl (norm_pos s p) = if s then Zneg p else Zpos p.
Proof.
  intro Hd. destruct (norm_pos_cases s p Hd) as (m & e & E & He & Hv & _ & _). rewrite E.
  cbn [trunc_dbl]. assert (Hq : (if 0 <=? e then Zpos m * 2 ^ e else Zpos m / 2 ^ (- e)) = Zpos p).
  { destruct (Z.leb_spec 0 e).
    - assert (e = 0) by lia. subst e. rewrite Hv. cbn. lia.
    - rewrite Hv. apply Z.div_mul. apply Z.pow_nonzero; lia. }
  rewrite Hq. destruct s; reflexivity.
Qed.

(** (double) z for |z| < 2^53: well-formed, finite, truncates back to z *)
Theorem dbl_of_int_exact z : Z.abs z < 2 ^ 53 ->
  valid_dbl (dbl_of_int z) = true /\ is_finite (dbl_of_int z) = true /\ trunc_dbl (dbl_of_int z) = z.
Proof.
  intro Hz. destruct z as [|p|p].
  - repeat split.
  - assert (Hd : Zpos (digits2_pos p) <= 53) by (apply digits_le_of_lt; lia).
    rewrite (dbl_of_int_pos p Hd). split; [apply norm_pos_valid, Hd|]. split; [|apply (trunc_norm_pos false p Hd)].
    destruct (norm_pos_cases false p Hd) as (m & e & E & _). rewrite E. reflexivity.
  - assert (Hd : Zpos (digits2_pos p) <= 53) by (apply digits_le_of_lt; lia).
    rewrite (dbl_of_int_neg p Hd). split; [apply norm_pos_valid, Hd|]. split; [|apply (trunc_norm_pos true p Hd)].
    destruct (norm_pos_cases true p Hd) as (m & e & E & _). rewrite E. reflexivity.
Qed.

(** * (int) (double) z = z for every C int, through the saturating conversion *)
Lemma compare_cont_eq a b : Pos.compare_cont Eq a b = (a ?= b)%positive.
Proof. reflexivity. Qed.

Lemma sat_int_of_pos p : Zpos p <= c_INT_MAX -> sat_int (dbl_of_int (Zpos p)) = Zpos p.
Proof.
  unfold c_INT_MAX. intro Hp.
  assert (Hd31 : Zpos (digits2_pos p) <= 31) by (apply digits_le_of_lt; [lia|change (2 ^ 31) with 2147483648; lia]).
  assert (Hd : Zpos (digits2_pos p) <= 53) by lia.
  rewrite (dbl_of_int_pos p Hd).
  pose proof (trunc_norm_pos false p Hd) as Htr. cbv iota in Htr.
  destruct (norm_pos_cases false p Hd) as (m & e & E & He & Hv & Hm & He2).
  unfold sat_int. rewrite Htr. rewrite E. rewrite imax_dbl, imin_dbl.
  unfold dle, SFleb. cbn [SFcompare is_nan].
  assert (Hle : e <= -22) by lia. clear He2. destruct (Z.compare_spec (-22) e) as [Ee|Ee|Ee].
  - subst e. rewrite compare_cont_eq.
    assert (Hm2 : Zpos m = Zpos p * 4194304) by (rewrite Hv; reflexivity).
    clear Hv Hm E Htr. unfold c_INT_MAX.
    destruct (Pos.compare_spec 9007199250546688 m) as [Ec|Ec|Ec].
    + subst m. lia.
    + lia.
    + reflexivity.
  - lia.
  - reflexivity.
Qed.

Lemma sat_int_of_neg p : c_INT_MIN <= Zneg p -> sat_int (dbl_of_int (Zneg p)) = Zneg p.
Proof.
  unfold c_INT_MIN. intro Hp.
  assert (Hd32 : Zpos (digits2_pos p) <= 32) by (apply digits_le_of_lt; [lia|change (2 ^ 32) with 4294967296; lia]).
  assert (Hd : Zpos (digits2_pos p) <= 53) by lia.
  rewrite (dbl_of_int_neg p Hd).
  pose proof (trunc_norm_pos true p Hd) as Htr. cbv iota in Htr.
  destruct (norm_pos_cases true p Hd) as (m & e & E & He & Hv & Hm & He2).
  unfold sat_int. rewrite Htr. rewrite E. rewrite imax_dbl, imin_dbl.
  unfold dle, SFleb. cbn [SFcompare is_nan].
  assert (Hle : e <= -21) by lia. clear He2. destruct (Z.compare_spec e (-21)) as [Ee|Ee|Ee].
  - subst e. rewrite compare_cont_eq.
    assert (Hm2 : Zpos m = Zpos p * 2097152) by (rewrite Hv; reflexivity).
    clear Hv Hm E Htr. unfold c_INT_MIN.
    destruct (Pos.compare_spec m 4503599627370496) as [Ec|Ec|Ec]; cbn [CompOpp].
    + subst m. lia.
    + reflexivity.
    + lia.
  - reflexivity.
  - lia.
Qed.

Theorem sat_int_of_int z : int_range z = true -> sat_int (dbl_of_int z) = z.
Proof.
  unfold int_range. intro H. apply andb_true_iff in H as [Hlo Hhi]. apply Z.leb_le in Hlo, Hhi.
  destruct z as [|p|p].
  - reflexivity.
  - apply sat_int_of_pos, Hhi.
  - apply sat_int_of_neg, Hlo.
Qed.

(** so an int-valued double in the int range is recognised as such by print_number's test
    [d == (double) valueint] *)
Corollary dbl_of_int_is_int z : int_range z = true ->
  deq (dbl_of_int z) (dbl_of_int (sat_int (dbl_of_int z))) = true.
Proof.
  intro H. rewrite (sat_int_of_int z H). apply deq_refl_finite.
  apply dbl_of_int_exact. unfold int_range, c_INT_MIN, c_INT_MAX in H.
  apply andb_true_iff in H as [Hlo Hhi]. apply Z.leb_le in Hlo, Hhi.
  change (2 ^ 53) with 9007199254740992. lia.
Qed.
