(** CoreRefineCreate.v — simulation lemmas (C06/C07/C08) for the CONSTRUCTORS of CoreDefs.v,
    for an ARBITRARY allocation oracle.

    PART 0  vocabulary shared by CoreRefineSet.v / CoreRefineRef.v / CoreRefineArray.v:
            * [live_below h]: every live block has an identity below [h_next h] (kept by every
              primitive of Heap.v; holds in [empty_heap]) — without it a fresh identity could
              collide with a caller block and "nothing changes on failure" would be false;
            * [clean_failure h h']: [h'] differs from [h] only in the allocator counters, the
              trace and in blocks that did not exist in [h]: link and data maps equal, live set
              equal, strings / ownership tags of the old identities equal.  Consequences:
              [clean_failure_WF] (every forest encoded by [h] is encoded by [h']),
              [clean_failure_lib_live], [clean_failure_NoLeak];
            * [refused oracle h h']: some request made between [h] and [h'] was refused;
            * the result heaps [new_node h d] (one node allocated, final data [d]) and
              [new_str h s] (one byte block allocated, final contents [s]);
            * [WF_new_root]: well-formedness after a new root without children appeared;
            * stepping lemmas for the allocator, string loads/stores and data setters on plain
              heaps.
    PART 1  [cJSON_strdup], [cJSON_CreateNull/True/False/Bool/Array/Object], [cJSON_CreateNumber],
            [cJSON_CreateString/Raw], [cJSON_CreateStringReference/ObjectReference/ArrayReference].

    Shape of every constructor lemma [f_sim]:

      WF h F -> live_below h -> (readable arguments) ->
        ( f h = Ret (Some id, h_ok)  /\ WF h_ok (spec_create F id d) /\ live_below h_ok /\ no request refused )
     \/ ( f h = Ret (None, h')       /\ clean_failure h h' /\ refused oracle h h' )

    with [id = h_next h] and [h_ok] an explicit heap.  Corollaries [f_total] instantiate the
    oracle with [fun _ => false]. *)
From CJ Require Import Base Dbl Heap Forest ForestLemmas CoreSpec CoreDefs CoreRefineBase CoreRefine
  CoreRefineDelete CoreRefineReplace CoreRefineMore.
From CJ.gen Require Import Constants.
From stdpp Require Import gmap.
Implicit Types (h : heap) (F : forest) (p x y i b : positive) (d : rdata).

(** * PART 0 *)

(** ** identities below [h_next] *)
Definition live_below h : Prop := forall b, b ∈ h_live h -> (b < h_next h)%positive.

Lemma live_below_empty : live_below empty_heap.
Proof. intros b Hb. cbn in Hb. set_solver. Qed.
Lemma live_below_upd_maps h L D : live_below h -> live_below (upd_maps h L D).
Proof. intros H b Hb. by apply H. Qed.
Lemma live_below_bump h : live_below h -> live_below (bump h).
Proof. intros H b Hb. by apply H. Qed.
Lemma live_below_free1 h b : live_below h -> live_below (free1 b h).
Proof. intros H c Hc. cbn in *. apply H. set_solver. Qed.
Lemma live_below_free_all bs h : live_below h -> live_below (free_all bs h).
Proof. revert h. induction bs as [|b bs IH]; intros h H; [done|]. rewrite free_all_cons. by apply IH, live_below_free1. Qed.

(** ** clean failure *)
Definition refused (oracle : nat -> bool) h h' : Prop :=
  exists k, h_req h <= k < h_req h' /\ oracle k = true.

Record clean_failure h h' : Prop := mkCF {
  cf_lnk : h_lnk h' = h_lnk h;
  cf_dat : h_dat h' = h_dat h;
  cf_str : forall b, (b < h_next h)%positive -> h_str h' !! b = h_str h !! b;
  cf_own : forall b, (b < h_next h)%positive -> h_own h' !! b = h_own h !! b;
  cf_live : h_live h' = h_live h;
  cf_next : (h_next h <= h_next h')%positive;
  cf_req : h_req h <= h_req h';
  cf_hooks : h_hooks h' = h_hooks h;
  cf_trace : exists evs, h_trace h' = evs ++ h_trace h
}.

Lemma clean_failure_refl h : clean_failure h h.
Proof. constructor; try done; try lia; by exists []. Qed.
Lemma clean_failure_bump h : clean_failure h (bump h).
Proof. constructor; cbn; try done; try lia; by exists []. Qed.
Lemma clean_failure_trans h1 h2 h3 : clean_failure h1 h2 -> clean_failure h2 h3 -> clean_failure h1 h3.
Proof.
  intros [A1 A2 A3 A4 A5 A6 A7 A8 [e1 A9]] [B1 B2 B3 B4 B5 B6 B7 B8 [e2 B9]]. constructor.
  - congruence.
  - congruence.
  - intros b Hb. rewrite B3 by lia. by apply A3.
  - intros b Hb. rewrite B4 by lia. by apply A4.
  - congruence.
  - lia.
  - lia.
  - congruence.
  - exists (e2 ++ e1). rewrite B9, A9. by rewrite app_assoc.
Qed.

(** every forest encoded by the old heap is encoded by the new one: no pre-existing tree changed *)
Lemma clean_failure_WF h h' F : WF h F -> clean_failure h h' -> WF h' F.
Proof.
  intros [W1 W2 W3 W4 W5 W6 W7 W8] C. constructor; try done.
  - by rewrite (cf_lnk _ _ C).
  - by rewrite (cf_dat _ _ C).
  - intros b Hb. rewrite (cf_live _ _ C). by apply W5.
  - intros b Hb. rewrite (cf_own _ _ C) by (by apply W7). by apply W6.
  - intros b Hb. pose proof (W7 b Hb). pose proof (cf_next _ _ C). lia.
Qed.

Lemma clean_failure_lib_live h h' : live_below h -> clean_failure h h' -> lib_live h' = lib_live h.
Proof.
  intros LB C. unfold lib_live. apply set_eq. intros b. rewrite !elem_of_filter, (cf_live _ _ C).
  split; intros [H1 H2]; (split; [|done]).
  - by rewrite <- (cf_own _ _ C) by (by apply LB).
  - by rewrite (cf_own _ _ C) by (by apply LB).
Qed.
Lemma clean_failure_NoLeak h h' F : live_below h -> clean_failure h h' -> NoLeak h F -> NoLeak h' F.
Proof. intros LB C NL b Hb. apply NL. by rewrite <- (clean_failure_lib_live _ _ LB C). Qed.
Lemma clean_failure_live_below h h' : live_below h -> clean_failure h h' -> live_below h'.
Proof. intros LB C b Hb. rewrite (cf_live _ _ C) in Hb. pose proof (LB b Hb). pose proof (cf_next _ _ C). lia. Qed.
(** strings of live blocks are untouched *)
Lemma clean_failure_str h h' b : live_below h -> clean_failure h h' -> b ∈ h_live h -> h_str h' !! b = h_str h !! b.
Proof. intros LB C Hb. apply (cf_str _ _ C). by apply LB. Qed.

(** the failure branch in one statement: every forest encoded before is encoded after, the
    ledger of live library blocks is the same, node maps and the strings of live blocks are
    bit-identical *)
Lemma clean_failure_summary h h' F :
  WF h F -> live_below h -> clean_failure h h' ->
  WF h' F /\ lib_live h' = lib_live h /\ h_live h' = h_live h /\ h_lnk h' = h_lnk h /\ h_dat h' = h_dat h /\
  (forall b, b ∈ h_live h -> h_str h' !! b = h_str h !! b) /\ live_below h' /\ (NoLeak h F -> NoLeak h' F).
Proof.
  intros W LB C. split_and!.
  - by eapply clean_failure_WF.
  - by apply clean_failure_lib_live.
  - apply C.
  - apply C.
  - apply C.
  - intros b Hb. by apply clean_failure_str.
  - by eapply clean_failure_live_below.
  - by apply clean_failure_NoLeak.
Qed.

Lemma refused_false h h' : ~ refused (fun _ => false) h h'.
Proof. by intros (k & _ & ?). Qed.

(** ** the allocator *)
Definition new_node h d : heap :=
  let id := h_next h in
  mkHeap (<[id := (None, None)]> (h_lnk h)) (<[id := mk_dat d []]> (h_dat h)) (h_str h)
         (<[id := Lib]> (h_own h)) ({[id]} ∪ h_live h) (Pos.succ id) (S (h_req h)) (h_hooks h)
         (EvAlloc id (via_malloc h) :: h_trace h).
Definition new_str h (s : bytes) : heap :=
  let id := h_next h in
  mkHeap (h_lnk h) (h_dat h) (<[id := s]> (h_str h))
         (<[id := Lib]> (h_own h)) ({[id]} ∪ h_live h) (Pos.succ id) (S (h_req h)) (h_hooks h)
         (EvAlloc id (via_malloc h) :: h_trace h).

Lemma live_below_new_node h d : live_below h -> live_below (new_node h d).
Proof.
  intros H b Hb. cbn in *. apply elem_of_union in Hb as [Hb|Hb].
  - apply elem_of_singleton in Hb as ->. lia.
  - pose proof (H b Hb). lia.
Qed.
Lemma live_below_new_str h s : live_below h -> live_below (new_str h s).
Proof.
  intros H b Hb. cbn in *. apply elem_of_union in Hb as [Hb|Hb].
  - apply elem_of_singleton in Hb as ->. lia.
  - pose proof (H b Hb). lia.
Qed.

Lemma nd0_mk_dat : nd0 = mk_dat rd0 [].
Proof. reflexivity. Qed.

Lemma run_alloc_node_fail oracle h : oracle (h_req h) = true -> alloc_node oracle h = Ret (None, bump h).
Proof. intros Ho. unfold alloc_node. by rewrite Ho. Qed.
Lemma run_alloc_node_ok oracle h : oracle (h_req h) = false -> alloc_node oracle h = Ret (Some (h_next h), new_node h rd0).
Proof. intros Ho. unfold alloc_node. by rewrite Ho. Qed.
Lemma run_alloc_bytes_fail oracle init h : oracle (h_req h) = true -> alloc_bytes oracle init h = Ret (None, bump h).
Proof. intros Ho. unfold alloc_bytes. by rewrite Ho. Qed.
Lemma run_alloc_bytes_ok oracle init h : oracle (h_req h) = false -> alloc_bytes oracle init h = Ret (Some (h_next h), new_str h init).
Proof. intros Ho. unfold alloc_bytes. by rewrite Ho. Qed.

(** ** data setters on plain heaps *)
Lemma set_dat_set_dat h D D' : set_dat (set_dat h D) D' = set_dat h D'.
Proof. reflexivity. Qed.
Lemma set_dat_id h : set_dat h (h_dat h) = h.
Proof. by destruct h. Qed.

Lemma run_ld_dat_plain h i nd : i ∈ h_live h -> h_dat h !! i = Some nd -> ld_dat (Some i) h = Ret (nd, h).
Proof. intros H1 H2. pose proof (run_ld_dat h (h_lnk h) _ i _ H1 H2) as H. by rewrite upd_maps_id in H. Qed.
Lemma run_ld_lnk_plain h i e : i ∈ h_live h -> h_lnk h !! i = Some e -> ld_lnk (Some i) h = Ret (e, h).
Proof. intros H1 H2. pose proof (run_ld_lnk h _ (h_dat h) i _ H1 H2) as H. by rewrite upd_maps_id in H. Qed.
Lemma run_st_dat_plain h i nd : i ∈ h_live h -> is_Some (h_dat h !! i) ->
  st_dat (Some i) nd h = Ret (tt, set_dat h (<[i := nd]> (h_dat h))).
Proof. intros H1 H2. rewrite <- (upd_maps_id h) at 1. by rewrite run_st_dat. Qed.
Lemma run_st_lnk_plain h i e : i ∈ h_live h -> is_Some (h_lnk h !! i) ->
  st_lnk (Some i) e h = Ret (tt, upd_maps h (<[i := e]> (h_lnk h)) (h_dat h)).
Proof. intros H1 H2. rewrite <- (upd_maps_id h) at 1. by rewrite run_st_lnk. Qed.

(** every field store is [ld_dat] followed by [st_dat] of a function of the old record *)
Lemma run_ld_st_dat h i nd (f : ndata -> ndata) : i ∈ h_live h -> h_dat h !! i = Some nd ->
  (d <~ ld_dat (Some i) ;; st_dat (Some i) (f d)) h = Ret (tt, set_dat h (<[i := f nd]> (h_dat h))).
Proof. intros H1 H2. rewrite (bindM_Ret _ _ _ _ _ (run_ld_dat_plain _ _ _ H1 H2)). by rewrite run_st_dat_plain by eauto. Qed.

Definition nd_set_vint (nd : ndata) (v : Z) : ndata :=
  mkND (nd_type nd) (nd_vstr nd) v (nd_vdbl nd) (nd_key nd) (nd_child nd).
Definition nd_set_vdbl (nd : ndata) (v : dbl) : ndata :=
  mkND (nd_type nd) (nd_vstr nd) (nd_vint nd) v (nd_key nd) (nd_child nd).

Lemma run_set_vint_plain h i nd v : i ∈ h_live h -> h_dat h !! i = Some nd ->
  set_vint (Some i) v h = Ret (tt, set_dat h (<[i := nd_set_vint nd v]> (h_dat h))).
Proof. intros H1 H2. unfold set_vint. by rewrite (run_ld_st_dat _ _ _ _ H1 H2). Qed.
Lemma run_set_vdbl_plain h i nd v : i ∈ h_live h -> h_dat h !! i = Some nd ->
  set_vdbl (Some i) v h = Ret (tt, set_dat h (<[i := nd_set_vdbl nd v]> (h_dat h))).
Proof. intros H1 H2. unfold set_vdbl. by rewrite (run_ld_st_dat _ _ _ _ H1 H2). Qed.
Lemma run_set_child_plain h i nd v : i ∈ h_live h -> h_dat h !! i = Some nd ->
  set_child (Some i) v h = Ret (tt, set_dat h (<[i := nd_set_child nd v]> (h_dat h))).
Proof. intros H1 H2. unfold set_child. by rewrite (run_ld_st_dat _ _ _ _ H1 H2). Qed.

(** ** strings *)
Definition Readable h b : Prop :=
  b ∈ h_live h /\ exists s : bytes, h_str h !! b = Some s /\ existsb (Z.eqb 0) s = true.
(** the C string in block [b] ([] when the block is not a string block) *)
Definition str_at h b : bytes := match h_str h !! b with Some s => cstr s | None => [] end.

Lemma run_ld_str_plain h b (s : bytes) : b ∈ h_live h -> h_str h !! b = Some s -> ld_str (Some b) h = Ret (s, h).
Proof. intros H1 H2. unfold ld_str, chk, bindM. rewrite decide_True by done. by rewrite H2. Qed.
Lemma run_ld_cstr_plain h b (s : bytes) :
  b ∈ h_live h -> h_str h !! b = Some s -> existsb (Z.eqb 0) s = true -> ld_cstr (Some b) h = Ret (cstr s, h).
Proof. intros H1 H2 H3. unfold ld_cstr. rewrite (bindM_Ret _ _ _ _ _ (run_ld_str_plain _ _ _ H1 H2)). by rewrite H3. Qed.
Lemma run_ld_cstr_readable h b : Readable h b -> ld_cstr (Some b) h = Ret (str_at h b, h).
Proof. intros (H1 & s & H2 & H3). unfold str_at. rewrite H2. by apply run_ld_cstr_plain. Qed.

Definition set_str h (S : gmap positive bytes) : heap :=
  mkHeap (h_lnk h) (h_dat h) S (h_own h) (h_live h) (h_next h) (h_req h) (h_hooks h) (h_trace h).
Lemma run_st_str_plain h b (old s : bytes) :
  b ∈ h_live h -> h_str h !! b = Some old -> h_own h !! b = Some Lib -> length s = length old ->
  st_str (Some b) s h = Ret (tt, set_str h (<[b := s]> (h_str h))).
Proof.
  intros H1 H2 H3 H4. unfold st_str, chk, bindM. rewrite decide_True by done. unfold bytes in *. rewrite H2, H3.
  apply Nat.eqb_eq in H4. by rewrite H4.
Qed.

Lemma cstr_length_lt (s : bytes) : existsb (Z.eqb 0) s = true -> length (cstr s) < length s.
Proof.
  induction s as [|c s IH]; [done|]. cbn [existsb cstr length]. destruct (Z.eqb_spec c 0) as [->|Hne].
  - cbn. lia.
  - destruct (Z.eqb_spec 0 c) as [E|_]; [congruence|]. cbn [orb length]. intros H. specialize (IH H). lia.
Qed.

(** ** a new root without children *)
Lemma owned_snoc_root F id d : owned (F ++ [T id d []]) ≡ₚ (id :: owned_strs d) ++ owned F.
Proof.
  unfold owned. rewrite flat_app, flat_singleton, owned_fl_app. cbn. rewrite app_nil_r.
  apply Permutation_app_comm.
Qed.

Lemma WF_new_root h h' F id d :
  WF h F ->
  id ∉ owned F -> (forall b, b ∈ owned_strs d -> b ∉ owned F) -> NoDup (id :: owned_strs d) ->
  ref_ok (id, d, []) ->
  h_lnk h' = <[id := (None, None)]> (h_lnk h) ->
  h_dat h' = <[id := mk_dat d []]> (h_dat h) ->
  (forall b, b ∈ (id :: owned_strs d) ++ owned F ->
             b ∈ h_live h' /\ h_own h' !! b = Some Lib /\ (b < h_next h')%positive) ->
  WF h' (F ++ [T id d []]).
Proof.
  intros W Hfresh Hstrs NDn Hrok Hl Hd Hall.
  assert (Hidn : id ∉ ids F) by (intros Hin; by apply Hfresh, ids_subseteq_owned).
  assert (Hflat : flat (F ++ [T id d []]) ≡ₚ (id, d, []) :: flat F).
  { rewrite flat_app, flat_singleton. cbn. by rewrite <- Permutation_cons_append. }
  assert (Hroots : roots (F ++ [T id d []]) ≡ₚ id :: roots F).
  { rewrite roots_app. cbn. by rewrite <- Permutation_cons_append. }
  assert (Hids : ids (F ++ [T id d []]) ≡ₚ id :: ids F) by (by rewrite !ids_flat, Hflat).
  assert (ND' : NoDup (ids (F ++ [T id d []]))).
  { rewrite Hids. apply NoDup_cons. split; [done|apply W]. }
  pose proof (owned_snoc_root F id d) as Hown.
  constructor.
  - done.
  - destruct (heap_lnk_of_focus _ _ _ _ _ _ ND' Hroots Hflat) as [-> _].
    rewrite links_nil, (left_id_L ∅ (∪)). rewrite lnk_of_cons_root. rewrite Hl. by rewrite (wf_lnk _ _ W).
  - destruct (heap_dat_of_focus _ _ _ _ _ ND' Hflat) as [-> _]. rewrite Hd. by rewrite (wf_dat _ _ W).
  - rewrite Hown. apply NoDup_app. split; [done|]. split; [|apply W].
    intros b Hb. apply elem_of_cons in Hb as [->|Hb]; [done|by apply Hstrs].
  - intros b Hb. rewrite Hown in Hb. by apply Hall.
  - intros b Hb. rewrite Hown in Hb. by apply Hall.
  - intros b Hb. rewrite Hown in Hb. by apply Hall.
  - rewrite Hflat. apply Forall_cons. split; [done|apply W].
Qed.

Lemma NoLeak_new_root h h' F id d :
  NoLeak h F ->
  (forall b, b ∈ lib_live h' -> b ∈ lib_live h \/ b ∈ id :: owned_strs d) ->
  NoLeak h' (F ++ [T id d []]).
Proof.
  intros NL H b Hb. rewrite owned_snoc_root. apply elem_of_app. destruct (H b Hb) as [Hb'|Hb']; [right; by apply NL|by left].
Qed.

(** the fresh identity is unknown to the old heap *)
Lemma WF_next_notin h F : WF h F -> h_next h ∉ owned F.
Proof. intros W Hin. exact (Pos.lt_irrefl _ (wf_fresh _ _ W _ Hin)). Qed.
Lemma WF_next_lnk h F : WF h F -> h_lnk h !! h_next h = None.
Proof.
  intros W. rewrite (wf_lnk _ _ W). apply heap_lnk_of_lookup_None. intros Hin.
  by apply (WF_next_notin _ _ W), ids_subseteq_owned.
Qed.
Lemma WF_next_dat h F : WF h F -> h_dat h !! h_next h = None.
Proof.
  intros W. rewrite (wf_dat _ _ W). apply heap_dat_of_lookup_None. intros Hin.
  by apply (WF_next_notin _ _ W), ids_subseteq_owned.
Qed.
Lemma WF_above_lnk h F b : WF h F -> (h_next h <= b)%positive -> h_lnk h !! b = None.
Proof.
  intros W Hb. rewrite (wf_lnk _ _ W). apply heap_lnk_of_lookup_None. intros Hin.
  pose proof (WF_ids_fresh _ _ _ W Hin). lia.
Qed.
Lemma WF_above_dat h F b : WF h F -> (h_next h <= b)%positive -> h_dat h !! b = None.
Proof.
  intros W Hb. rewrite (wf_dat _ _ W). apply heap_dat_of_lookup_None. intros Hin.
  pose proof (WF_ids_fresh _ _ _ W Hin). lia.
Qed.

(** [WF] of [new_node] *)
Lemma WF_new_node h F d :
  WF h F -> owned_strs d = [] -> (rd_ref d <> None -> is_ref d = true) ->
  WF (new_node h d) (spec_create F (h_next h) d).
Proof.
  intros W Hs Hr. unfold spec_create.
  apply (WF_new_root h _ F (h_next h) d W); try done.
  - by apply (WF_next_notin _ _ W).
  - rewrite Hs. intros b Hb. by apply elem_of_nil in Hb.
  - rewrite Hs. apply NoDup_singleton.
  - rewrite Hs. cbn. intros b Hb. apply elem_of_cons in Hb as [->|Hb].
    + split; [set_solver|]. split; [by rewrite lookup_insert|lia].
    + pose proof (wf_fresh _ _ W _ Hb). split; [|split].
      * apply elem_of_union. right. by apply (wf_owned_live _ _ W).
      * rewrite lookup_insert_ne by lia. by apply (wf_owned_lib _ _ W).
      * lia.
Qed.
Lemma NoLeak_new_node h F d : NoLeak h F -> NoLeak (new_node h d) (spec_create F (h_next h) d).
Proof.
  intros NL. apply (NoLeak_new_root h _ F _ d NL). intros b Hb.
  unfold lib_live in *. apply elem_of_filter in Hb as [Hb1 Hb2]. cbn in Hb1, Hb2.
  destruct (decide (b = h_next h)) as [->|Hne]; [right; by left|left].
  apply elem_of_filter. rewrite lookup_insert_ne in Hb1 by done. split; [done|set_solver].
Qed.

(** [clean_failure] from pointwise facts: below [h_next h] nothing changed, above it nothing is left *)
Lemma clean_failure_intro h h' F :
  WF h F -> live_below h ->
  (forall b, (b < h_next h)%positive ->
     h_lnk h' !! b = h_lnk h !! b /\ h_dat h' !! b = h_dat h !! b /\ h_str h' !! b = h_str h !! b /\
     h_own h' !! b = h_own h !! b /\ (b ∈ h_live h' <-> b ∈ h_live h)) ->
  (forall b, (h_next h <= b)%positive -> h_lnk h' !! b = None /\ h_dat h' !! b = None /\ b ∉ h_live h') ->
  (h_next h <= h_next h')%positive -> h_req h <= h_req h' -> h_hooks h' = h_hooks h ->
  (exists evs, h_trace h' = evs ++ h_trace h) ->
  clean_failure h h'.
Proof.
  intros W LB Hlo Hhi Hn Hr Hh Ht. constructor; try done.
  - apply map_eq. intros b. destruct (Pos.ltb_spec b (h_next h)) as [Hb|Hb].
    + by apply Hlo.
    + rewrite (WF_above_lnk _ _ _ W Hb). by apply Hhi.
  - apply map_eq. intros b. destruct (Pos.ltb_spec b (h_next h)) as [Hb|Hb].
    + by apply Hlo.
    + rewrite (WF_above_dat _ _ _ W Hb). by apply Hhi.
  - intros b Hb. by apply Hlo.
  - intros b Hb. by apply Hlo.
  - apply set_eq. intros b. destruct (Pos.ltb_spec b (h_next h)) as [Hb|Hb].
    + by apply Hlo.
    + split; intros Hin; [by apply Hhi in Hin|]. pose proof (LB b Hin). lia.
Qed.

(** * PART 1: constructors *)

Section Constructors.
  Variable oracle : nat -> bool.

  (** ** cJSON_strdup *)
  Lemma cJSON_strdup_null h : cJSON_strdup oracle None h = Ret (None, h).
  Proof. reflexivity. Qed.

  Lemma cJSON_strdup_fail h sb : Readable h sb -> oracle (h_req h) = true ->
    cJSON_strdup oracle (Some sb) h = Ret (None, bump h).
  Proof.
    intros HR Ho. unfold cJSON_strdup. cbn [is_null].
    rewrite (bindM_Ret _ _ _ _ _ (run_ld_cstr_readable _ _ HR)).
    by rewrite (bindM_Ret _ _ _ _ _ (run_alloc_bytes_fail _ _ _ Ho)).
  Qed.

  Lemma cJSON_strdup_ok h sb : Readable h sb -> oracle (h_req h) = false ->
    cJSON_strdup oracle (Some sb) h = Ret (Some (h_next h), new_str h (str_at h sb ++ [0%Z])).
  Proof.
    intros HR Ho. unfold cJSON_strdup. cbn [is_null].
    rewrite (bindM_Ret _ _ _ _ _ (run_ld_cstr_readable _ _ HR)).
    rewrite (bindM_Ret _ _ _ _ _ (run_alloc_bytes_ok _ _ _ Ho)). cbn [is_null].
    erewrite (bindM_Ret _ _ _ _ _ (run_st_str_plain _ (h_next h) (repeat 0%Z (S (length (str_at h sb)))) _ _ _ _ _)).
    - unfold ret. do 2 f_equal. unfold set_str, new_str. cbn. f_equal. by rewrite insert_insert.
    Unshelve.
    + cbn. set_solver.
    + cbn. by rewrite lookup_insert.
    + cbn. by rewrite lookup_insert.
    + rewrite app_length, repeat_length. cbn. lia.
  Qed.

  (** the copy is a readable string with the same contents, and old strings stay readable *)
  Lemma Readable_new_str h s b : Readable h b -> live_below h -> Readable (new_str h s) b.
  Proof.
    intros (H1 & s0 & H2 & H3) LB. pose proof (LB _ H1). split; [cbn; set_solver|]. exists s0. cbn.
    rewrite lookup_insert_ne by lia. done.
  Qed.
  Lemma cstr_app_zero (s : bytes) : Forall (fun c => c <> 0%Z) s -> cstr (s ++ [0%Z]) = s.
  Proof.
    induction s as [|c s IH]; intros H; [done|]. apply Forall_cons in H as [Hc H]. cbn.
    destruct (Z.eqb_spec c 0); [done|]. by rewrite IH.
  Qed.
  Lemma cstr_nonzero' (s : bytes) : Forall (fun c => c <> 0%Z) (cstr s).
  Proof.
    induction s as [|c s IH]; cbn; [constructor|]. destruct (Z.eqb_spec c 0); [constructor|]. by constructor.
  Qed.
  Lemma str_at_new_str h (s : bytes) : str_at (new_str h (cstr s ++ [0%Z])) (h_next h) = cstr s.
  Proof. unfold str_at. cbn. rewrite lookup_insert. apply cstr_app_zero, cstr_nonzero'. Qed.

  (** the two-branch statement *)
  Lemma cJSON_strdup_sim h F sb :
    WF h F -> live_below h -> Readable h sb ->
    (oracle (h_req h) = false /\
     let h' := new_str h (str_at h sb ++ [0%Z]) in
     cJSON_strdup oracle (Some sb) h = Ret (Some (h_next h), h') /\
     WF h' F /\ live_below h' /\ Readable h' (h_next h) /\ str_at h' (h_next h) = str_at h sb /\
     h_own h' !! h_next h = Some Lib /\ h_next h ∉ owned F)
    \/ (cJSON_strdup oracle (Some sb) h = Ret (None, bump h) /\ clean_failure h (bump h) /\ refused oracle h (bump h)).
  Proof.
    intros W LB HR. destruct (oracle (h_req h)) eqn:Ho.
    - right. split; [by apply cJSON_strdup_fail|]. split; [apply clean_failure_bump|].
      exists (h_req h). cbn. split; [lia|done].
    - left. split; [done|]. cbn zeta. split; [by apply cJSON_strdup_ok|]. split; [|split; [by apply live_below_new_str|]].
      + destruct W as [W1 W2 W3 W4 W5 W6 W7 W8]. constructor; try done.
        * intros b Hb. cbn. apply elem_of_union. right. by apply W5.
        * intros b Hb. cbn. pose proof (W7 b Hb). rewrite lookup_insert_ne by lia. by apply W6.
        * intros b Hb. cbn. pose proof (W7 b Hb). lia.
      + split; [|split; [|split]].
        * split; [cbn; set_solver|]. eexists. cbn. rewrite lookup_insert. split; [done|].
          rewrite existsb_app. cbn. by rewrite orb_true_r.
        * unfold str_at at 1. cbn. rewrite lookup_insert. apply cstr_app_zero.
          unfold str_at. destruct (h_str h !! sb); [apply cstr_nonzero'|constructor].
        * cbn. by rewrite lookup_insert.
        * by apply (WF_next_notin _ _ W).
  Qed.

  (** ** data of the nodes the constructors make *)
  Definition rd_of_type (ty : Z) : rdata := mkRD ty None 0 dzero None None.
  Definition rd_number (num : dbl) : rdata := mkRD c_cJSON_Number None (sat_int num) num None None.
  Definition rd_string (ty : Z) (sb : positive) : rdata := mkRD ty (Some sb) 0 dzero None None.
  Definition rd_string_ref (string : ptr) : rdata :=
    mkRD (Z.lor c_cJSON_String c_cJSON_IsReference) string 0 dzero None None.
  Definition rd_container_ref (ty : Z) (child : ptr) : rdata :=
    mkRD (Z.lor ty c_cJSON_IsReference) None 0 dzero None child.

  Lemma new_node_set h d nd' d' :
    nd' = mk_dat d' [] ->
    set_dat (new_node h d) (<[h_next h := nd']> (h_dat (new_node h d))) = new_node h d'.
  Proof. intros ->. unfold set_dat, upd_maps, new_node. cbn. f_equal. by rewrite insert_insert. Qed.
  Lemma new_node_live h d : h_next h ∈ h_live (new_node h d).
  Proof. cbn. set_solver. Qed.
  Lemma new_node_dat h d : h_dat (new_node h d) !! h_next h = Some (mk_dat d []).
  Proof. cbn. by rewrite lookup_insert. Qed.

  (** ** the payload-free constructors and cJSON_CreateNumber, cJSON_Create*Reference:
      one request, then field stores on the fresh node *)
  Definition ctor1_post (m : M ptr) h F d : Prop :=
    (oracle (h_req h) = false /\
     m h = Ret (Some (h_next h), new_node h d) /\
     WF (new_node h d) (spec_create F (h_next h) d) /\ live_below (new_node h d) /\
     (NoLeak h F -> NoLeak (new_node h d) (spec_create F (h_next h) d)))
    \/ (oracle (h_req h) = true /\ m h = Ret (None, bump h) /\ clean_failure h (bump h) /\ refused oracle h (bump h)).

  Lemma ctor1_intro (m : M ptr) h F d :
    WF h F -> live_below h -> owned_strs d = [] -> (rd_ref d <> None -> is_ref d = true) ->
    (oracle (h_req h) = false -> m h = Ret (Some (h_next h), new_node h d)) ->
    (oracle (h_req h) = true -> m h = Ret (None, bump h)) ->
    ctor1_post m h F d.
  Proof.
    intros W LB Hs Hr Hok Hfail. destruct (oracle (h_req h)) eqn:Ho.
    - right. split; [done|]. split; [by apply Hfail|]. split; [apply clean_failure_bump|].
      exists (h_req h). cbn. split; [lia|done].
    - left. split; [done|]. split; [by apply Hok|]. split; [by apply WF_new_node|].
      split; [by apply live_below_new_node|by apply NoLeak_new_node].
  Qed.

  Lemma create_with_type_sim ty h F : WF h F -> live_below h -> ctor1_post (create_with_type oracle ty) h F (rd_of_type ty).
  Proof.
    intros W LB. apply ctor1_intro; try done.
    - unfold owned_strs. cbn. by destruct (is_ref _), (is_const _).
    - intros Ho. unfold create_with_type, cJSON_New_Item. rewrite (bindM_Ret _ _ _ _ _ (run_alloc_node_ok _ _ Ho)).
      cbn [is_null negb when].
      rewrite (bindM_Ret _ _ _ _ _ (run_set_type_plain _ _ _ ty (new_node_live _ _) (new_node_dat _ _))).
      unfold ret. do 2 f_equal. by apply new_node_set.
    - intros Ho. unfold create_with_type, cJSON_New_Item. by rewrite (bindM_Ret _ _ _ _ _ (run_alloc_node_fail _ _ Ho)).
  Qed.

  Lemma cJSON_CreateNull_sim h F : WF h F -> live_below h -> ctor1_post (cJSON_CreateNull oracle) h F (rd_of_type c_cJSON_NULL).
  Proof. apply create_with_type_sim. Qed.
  Lemma cJSON_CreateTrue_sim h F : WF h F -> live_below h -> ctor1_post (cJSON_CreateTrue oracle) h F (rd_of_type c_cJSON_True).
  Proof. apply create_with_type_sim. Qed.
  Lemma cJSON_CreateFalse_sim h F : WF h F -> live_below h -> ctor1_post (cJSON_CreateFalse oracle) h F (rd_of_type c_cJSON_False).
  Proof. apply create_with_type_sim. Qed.
  Lemma cJSON_CreateBool_sim (b : bool) h F : WF h F -> live_below h ->
    ctor1_post (cJSON_CreateBool oracle b) h F (rd_of_type (if b then c_cJSON_True else c_cJSON_False)).
  Proof. apply create_with_type_sim. Qed.
  Lemma cJSON_CreateArray_sim h F : WF h F -> live_below h -> ctor1_post (cJSON_CreateArray oracle) h F (rd_of_type c_cJSON_Array).
  Proof. apply create_with_type_sim. Qed.
  Lemma cJSON_CreateObject_sim h F : WF h F -> live_below h -> ctor1_post (cJSON_CreateObject oracle) h F (rd_of_type c_cJSON_Object).
  Proof. apply create_with_type_sim. Qed.

  Lemma cJSON_CreateNumber_sim num h F : WF h F -> live_below h -> ctor1_post (cJSON_CreateNumber oracle num) h F (rd_number num).
  Proof.
    intros W LB. apply ctor1_intro; try done.
    - intros Ho. unfold cJSON_CreateNumber, cJSON_New_Item. rewrite (bindM_Ret _ _ _ _ _ (run_alloc_node_ok _ _ Ho)).
      cbn [is_null negb when]. rewrite !bindM_assoc.
      rewrite (bindM_Ret _ _ _ _ _ (run_set_type_plain _ _ _ c_cJSON_Number (new_node_live _ _) (new_node_dat _ _))).
      rewrite (new_node_set h _ _ (rd_of_type c_cJSON_Number)) by reflexivity. rewrite !bindM_assoc.
      rewrite (bindM_Ret _ _ _ _ _ (run_set_vdbl_plain _ _ _ num (new_node_live _ _) (new_node_dat _ _))).
      rewrite (new_node_set h _ _ (mkRD c_cJSON_Number None 0 num None None)) by reflexivity.
      rewrite (bindM_Ret _ _ _ _ _ (run_set_vint_plain _ _ _ (sat_int num) (new_node_live _ _) (new_node_dat _ _))).
      rewrite (new_node_set h _ _ (rd_number num)) by reflexivity. reflexivity.
    - intros Ho. unfold cJSON_CreateNumber, cJSON_New_Item. by rewrite (bindM_Ret _ _ _ _ _ (run_alloc_node_fail _ _ Ho)).
  Qed.

  (** ** the reference constructors: one request; the argument is only stored, never read *)
  Lemma cJSON_CreateStringReference_sim (string : ptr) h F :
    WF h F -> live_below h -> ctor1_post (cJSON_CreateStringReference oracle string) h F (rd_string_ref string).
  Proof.
    intros W LB. apply ctor1_intro; try done.
    - intros Ho. unfold cJSON_CreateStringReference, cJSON_New_Item. rewrite (bindM_Ret _ _ _ _ _ (run_alloc_node_ok _ _ Ho)).
      cbn [is_null negb when]. rewrite !bindM_assoc.
      rewrite (bindM_Ret _ _ _ _ _ (run_set_type_plain _ _ _ (Z.lor c_cJSON_String c_cJSON_IsReference) (new_node_live _ _) (new_node_dat _ _))).
      rewrite (new_node_set h _ _ (rd_of_type (Z.lor c_cJSON_String c_cJSON_IsReference))) by reflexivity.
      rewrite (bindM_Ret _ _ _ _ _ (run_set_vstr_plain _ _ _ string (new_node_live _ _) (new_node_dat _ _))).
      rewrite (new_node_set h _ _ (rd_string_ref string)) by reflexivity. reflexivity.
    - intros Ho. unfold cJSON_CreateStringReference, cJSON_New_Item. by rewrite (bindM_Ret _ _ _ _ _ (run_alloc_node_fail _ _ Ho)).
  Qed.

  Lemma create_container_reference_sim (ty : Z) (child : ptr) h F :
    WF h F -> live_below h ->
    ctor1_post (item <~ cJSON_New_Item oracle ;;
                when (negb (is_null item)) (set_type item (Z.lor ty c_cJSON_IsReference) ;;; set_child item child) ;;;
                ret item) h F (rd_container_ref ty child).
  Proof.
    intros W LB.
    assert (Hisref : is_ref (rd_container_ref ty child) = true).
    { unfold is_ref, rd_container_ref. cbn [rd_type]. rewrite Z.land_lor_distr_l.
      change (Z.land c_cJSON_IsReference c_cJSON_IsReference) with 256%Z.
      destruct (Z.eqb_spec (Z.lor (Z.land ty c_cJSON_IsReference) 256) 0) as [E|]; [|done].
      apply Z.lor_eq_0_iff in E as [_ E]. done. }
    apply ctor1_intro; try done.
    - unfold owned_strs. rewrite Hisref. cbn. by destruct (is_const _).
    - intros Ho. unfold cJSON_New_Item. rewrite (bindM_Ret _ _ _ _ _ (run_alloc_node_ok _ _ Ho)).
      cbn [is_null negb when]. rewrite !bindM_assoc.
      rewrite (bindM_Ret _ _ _ _ _ (run_set_type_plain _ _ _ (Z.lor ty c_cJSON_IsReference) (new_node_live _ _) (new_node_dat _ _))).
      rewrite (new_node_set h _ _ (rd_of_type (Z.lor ty c_cJSON_IsReference))) by reflexivity.
      rewrite (bindM_Ret _ _ _ _ _ (run_set_child_plain _ _ _ child (new_node_live _ _) (new_node_dat _ _))).
      rewrite (new_node_set h _ _ (rd_container_ref ty child)) by reflexivity. reflexivity.
    - intros Ho. unfold cJSON_New_Item. by rewrite (bindM_Ret _ _ _ _ _ (run_alloc_node_fail _ _ Ho)).
  Qed.
  Lemma cJSON_CreateObjectReference_sim (child : ptr) h F :
    WF h F -> live_below h -> ctor1_post (cJSON_CreateObjectReference oracle child) h F (rd_container_ref c_cJSON_Object child).
  Proof. apply create_container_reference_sim. Qed.
  Lemma cJSON_CreateArrayReference_sim (child : ptr) h F :
    WF h F -> live_below h -> ctor1_post (cJSON_CreateArrayReference oracle child) h F (rd_container_ref c_cJSON_Array child).
  Proof. apply create_container_reference_sim. Qed.

  (** ** releasing a node that was just allocated (and owns nothing else): back to the start *)
  Lemma free_order_leaf id d : owned_strs d = [] -> free_order [T id d []] = [id].
  Proof. intros Hs. unfold free_order. cbn. by rewrite Hs. Qed.

  Lemma cJSON_Delete_new_node h F d hx :
    WF h F -> live_below h -> owned_strs d = [] -> (rd_ref d <> None -> is_ref d = true) ->
    hx = new_node h d \/ hx = bump (new_node h d) ->
    cJSON_Delete (Some (h_next h)) hx = Ret (tt, free1 (h_next h) hx) /\ clean_failure h (free1 (h_next h) hx).
  Proof.
    intros W LB Hs Hr Hx. pose proof (WF_new_node _ _ _ W Hs Hr) as W1.
    assert (Wx : WF hx (spec_create F (h_next h) d)).
    { destruct Hx as [->| ->]; [done|]. apply (clean_failure_WF _ _ _ W1), clean_failure_bump. }
    assert (Hroot : find_root (h_next h) (spec_create F (h_next h) d) = Some (T (h_next h) d [])).
    { unfold spec_create. rewrite find_root_app_r.
      - unfold find_root. cbn. by rewrite bool_decide_eq_true_2.
      - intros Hin. apply (WF_next_notin _ _ W). by apply ids_subseteq_owned, roots_subseteq_ids. }
    destruct (cJSON_Delete_sim _ _ _ _ Wx Hroot) as (_ & Hrun & _ & _).
    rewrite (free_order_leaf _ _ Hs) in Hrun. split; [exact Hrun|].
    apply (clean_failure_intro _ _ F W LB).
    - intros b Hb. assert (b <> h_next h) by lia.
      destruct Hx as [->| ->]; cbn; rewrite !lookup_delete_ne, ?lookup_insert_ne by done; (split_and!; try done; set_solver).
    - intros b Hb. destruct (decide (b = h_next h)) as [->|Hne].
      + destruct Hx as [->| ->]; cbn; rewrite !lookup_delete; (split_and!; try done; set_solver).
      + pose proof (WF_above_lnk _ _ _ W Hb) as H1. pose proof (WF_above_dat _ _ _ W Hb) as H2.
        assert (b ∉ h_live h) by (intros Hin; pose proof (LB b Hin); lia).
        destruct Hx as [->| ->]; cbn; rewrite !lookup_delete_ne, !lookup_insert_ne by done; (split_and!; try done; set_solver).
    - destruct Hx as [->| ->]; cbn; lia.
    - destruct Hx as [->| ->]; cbn; lia.
    - by destruct Hx as [->| ->].
    - destruct Hx as [->| ->]; cbn; by eexists [_; _].
  Qed.

  (** ** cJSON_CreateString / cJSON_CreateRaw: two requests (node, then the copy) *)
  Definition new_string h (ty : Z) (s : bytes) : heap :=
    new_str (new_node h (rd_string ty (Pos.succ (h_next h)))) s.

  Lemma Readable_new_node h d b : Readable h b -> Readable (new_node h d) b.
  Proof. intros (H1 & s0 & H2 & H3). split; [cbn; set_solver|]. by exists s0. Qed.
  Lemma Readable_bump h b : Readable h b -> Readable (bump h) b.
  Proof. done. Qed.

  Lemma owned_strs_of_type ty : owned_strs (rd_of_type ty) = [].
  Proof. unfold owned_strs. cbn. by destruct (is_ref _), (is_const _). Qed.

  Lemma WF_new_string h F ty s :
    WF h F -> Z.land ty c_cJSON_IsReference = 0%Z -> Z.land ty c_cJSON_StringIsConst = 0%Z ->
    WF (new_string h ty s) (spec_create F (h_next h) (rd_string ty (Pos.succ (h_next h)))).
  Proof.
    intros W Hr Hc. set (id := h_next h). set (sb := Pos.succ id).
    assert (Hs : owned_strs (rd_string ty sb) = [sb]).
    { unfold owned_strs, is_ref, is_const. cbn [rd_type rd_string]. by rewrite Hr, Hc. }
    unfold spec_create. apply (WF_new_root h _ F id _ W); rewrite ?Hs; try done.
    - by apply (WF_next_notin _ _ W).
    - intros b Hb. apply elem_of_list_singleton in Hb as ->. intros Hin. pose proof (wf_fresh _ _ W _ Hin). unfold sb, id in *. lia.
    - apply NoDup_cons. split; [|apply NoDup_singleton]. intros Hin%elem_of_list_singleton. unfold sb in Hin. lia.
    - intros b Hb. cbn in Hb. cbn. fold id. fold sb.
      apply elem_of_cons in Hb as [->|Hb]; [|apply elem_of_cons in Hb as [->|Hb]].
      + split; [set_solver|]. split; [|unfold sb; lia]. rewrite lookup_insert_ne by (unfold sb; lia). by rewrite lookup_insert.
      + split; [set_solver|]. split; [by rewrite lookup_insert|lia].
      + pose proof (wf_fresh _ _ W _ Hb). fold id in H. split; [|split].
        * do 2 (apply elem_of_union; right). by apply (wf_owned_live _ _ W).
        * rewrite !lookup_insert_ne by (unfold sb; lia). by apply (wf_owned_lib _ _ W).
        * unfold sb. lia.
  Qed.
  Lemma NoLeak_new_string h F ty s :
    Z.land ty c_cJSON_IsReference = 0%Z -> Z.land ty c_cJSON_StringIsConst = 0%Z ->
    NoLeak h F -> NoLeak (new_string h ty s) (spec_create F (h_next h) (rd_string ty (Pos.succ (h_next h)))).
  Proof.
    intros Hr Hc NL. apply (NoLeak_new_root h _ F _ _ NL). intros b Hb.
    assert (Hs : owned_strs (rd_string ty (Pos.succ (h_next h))) = [Pos.succ (h_next h)]).
    { unfold owned_strs, is_ref, is_const. cbn [rd_type rd_string]. by rewrite Hr, Hc. }
    rewrite Hs. unfold lib_live in *. apply elem_of_filter in Hb as [Hb1 Hb2]. cbn in Hb1, Hb2.
    destruct (decide (b = h_next h)) as [->|Hne]; [right; by left|].
    destruct (decide (b = Pos.succ (h_next h))) as [->|Hne']; [right; right; by left|left].
    apply elem_of_filter. rewrite !lookup_insert_ne in Hb1 by done. split; [done|set_solver].
  Qed.

  Lemma create_string_like_sim ty h F sb :
    WF h F -> live_below h -> Readable h sb ->
    Z.land ty c_cJSON_IsReference = 0%Z -> Z.land ty c_cJSON_StringIsConst = 0%Z ->
    (let id := h_next h in let d := rd_string ty (Pos.succ id) in
     let h' := new_string h ty (str_at h sb ++ [0%Z]) in
     oracle (h_req h) = false /\ oracle (S (h_req h)) = false /\
     create_string_like oracle ty (Some sb) h = Ret (Some id, h') /\
     WF h' (spec_create F id d) /\ live_below h' /\ (NoLeak h F -> NoLeak h' (spec_create F id d)) /\
     Readable h' (Pos.succ id) /\ str_at h' (Pos.succ id) = str_at h sb)
    \/ (exists h', create_string_like oracle ty (Some sb) h = Ret (None, h') /\ clean_failure h h' /\ refused oracle h h').
  Proof.
    intros W LB HR Hr Hc. unfold create_string_like, cJSON_New_Item.
    destruct (oracle (h_req h)) eqn:Ho.
    { right. exists (bump h). rewrite (bindM_Ret _ _ _ _ _ (run_alloc_node_fail _ _ Ho)). cbn [is_null].
      split; [done|]. split; [apply clean_failure_bump|]. exists (h_req h). cbn. split; [lia|done]. }
    rewrite (bindM_Ret _ _ _ _ _ (run_alloc_node_ok _ _ Ho)). cbn [is_null].
    rewrite (bindM_Ret _ _ _ _ _ (run_set_type_plain _ _ _ ty (new_node_live _ _) (new_node_dat _ _))).
    rewrite (new_node_set h _ _ (rd_of_type ty)) by reflexivity.
    set (h1 := new_node h (rd_of_type ty)).
    assert (HR1 : Readable h1 sb) by (by apply Readable_new_node).
    destruct (oracle (S (h_req h))) eqn:Ho2.
    - right. assert (Ho2' : oracle (h_req h1) = true) by done.
      rewrite (bindM_Ret _ _ _ _ _ (cJSON_strdup_fail _ _ HR1 Ho2')).
      assert (Hl : h_next h ∈ h_live (bump h1)) by (cbn; set_solver).
      assert (Hd : h_dat (bump h1) !! h_next h = Some (mk_dat (rd_of_type ty) [])) by (cbn; by rewrite lookup_insert).
      rewrite (bindM_Ret _ _ _ _ _ (run_set_vstr_plain _ _ _ None Hl Hd)).
      assert (Heq : set_dat (bump h1) (<[h_next h := nd_set_vstr (mk_dat (rd_of_type ty) []) None]> (h_dat (bump h1))) = bump h1).
      { unfold set_dat, upd_maps, bump, h1, new_node. cbn. f_equal. by rewrite insert_insert. }
      rewrite Heq. rewrite (bindM_Ret _ _ _ _ _ (run_get_vstr_plain _ _ _ Hl Hd)). cbn [nd_vstr mk_dat rd_vstr rd_of_type is_null].
      destruct (cJSON_Delete_new_node h F (rd_of_type ty) (bump h1) W LB (owned_strs_of_type ty) ltac:(done) (or_intror eq_refl)) as [Hdel Hcf].
      rewrite (bindM_Ret _ _ _ _ _ Hdel). eexists. split; [reflexivity|]. split; [exact Hcf|].
      exists (S (h_req h)). cbn. split; [lia|done].
    - left. cbn zeta. split; [done|]. split; [done|].
      assert (Ho2' : oracle (h_req h1) = false) by done.
      rewrite (bindM_Ret _ _ _ _ _ (cJSON_strdup_ok _ _ HR1 Ho2')).
      set (s := str_at h1 sb ++ [0%Z]). set (sid := h_next h1).
      assert (Hl : h_next h ∈ h_live (new_str h1 s)) by (cbn; set_solver).
      assert (Hd : h_dat (new_str h1 s) !! h_next h = Some (mk_dat (rd_of_type ty) [])) by (cbn; by rewrite lookup_insert).
      rewrite (bindM_Ret _ _ _ _ _ (run_set_vstr_plain _ _ _ (Some sid) Hl Hd)).
      assert (Heq : set_dat (new_str h1 s) (<[h_next h := nd_set_vstr (mk_dat (rd_of_type ty) []) (Some sid)]> (h_dat (new_str h1 s)))
                    = new_string h ty (str_at h sb ++ [0%Z])).
      { unfold set_dat, upd_maps, new_string, new_str, h1, new_node. cbn. f_equal. by rewrite insert_insert. }
      rewrite Heq.
      assert (Hl' : h_next h ∈ h_live (new_string h ty (str_at h sb ++ [0%Z]))) by (cbn; set_solver).
      assert (Hd' : h_dat (new_string h ty (str_at h sb ++ [0%Z])) !! h_next h = Some (mk_dat (rd_string ty (Pos.succ (h_next h))) []))
        by (cbn; by rewrite lookup_insert).
      rewrite (bindM_Ret _ _ _ _ _ (run_get_vstr_plain _ _ _ Hl' Hd')). cbn [nd_vstr mk_dat rd_vstr rd_string is_null].
      split; [reflexivity|]. split; [by apply WF_new_string|].
      split; [by apply live_below_new_str, live_below_new_node|]. split; [by apply NoLeak_new_string|]. split.
      + split; [cbn; set_solver|]. eexists. cbn. rewrite lookup_insert. split; [done|].
        rewrite existsb_app. cbn. by rewrite orb_true_r.
      + unfold str_at at 1. cbn. rewrite lookup_insert. apply cstr_app_zero.
        unfold str_at. destruct (h_str h !! sb); [apply cstr_nonzero'|constructor].
  Qed.

  (** a NULL argument: no copy is made, the node is released again, NULL is returned *)
  Lemma create_string_like_null ty h F :
    WF h F -> live_below h ->
    exists h', create_string_like oracle ty None h = Ret (None, h') /\ clean_failure h h'.
  Proof.
    intros W LB. unfold create_string_like, cJSON_New_Item.
    destruct (oracle (h_req h)) eqn:Ho.
    { exists (bump h). rewrite (bindM_Ret _ _ _ _ _ (run_alloc_node_fail _ _ Ho)). cbn [is_null].
      split; [done|apply clean_failure_bump]. }
    rewrite (bindM_Ret _ _ _ _ _ (run_alloc_node_ok _ _ Ho)). cbn [is_null].
    rewrite (bindM_Ret _ _ _ _ _ (run_set_type_plain _ _ _ ty (new_node_live _ _) (new_node_dat _ _))).
    rewrite (new_node_set h _ _ (rd_of_type ty)) by reflexivity.
    set (h1 := new_node h (rd_of_type ty)).
    rewrite (bindM_Ret _ _ _ _ _ (cJSON_strdup_null h1)). unfold h1.
    rewrite (bindM_Ret _ _ _ _ _ (run_set_vstr_plain _ _ _ None (new_node_live _ _) (new_node_dat _ _))).
    rewrite (new_node_set h _ _ (rd_of_type ty)) by reflexivity.
    rewrite (bindM_Ret _ _ _ _ _ (run_get_vstr_plain _ _ _ (new_node_live _ _) (new_node_dat _ _))).
    cbn [nd_vstr mk_dat rd_vstr rd_of_type is_null].
    destruct (cJSON_Delete_new_node h F (rd_of_type ty) _ W LB (owned_strs_of_type ty) ltac:(done) (or_introl eq_refl)) as [Hdel Hcf].
    rewrite (bindM_Ret _ _ _ _ _ Hdel). eexists. split; [reflexivity|exact Hcf].
  Qed.

  Lemma cJSON_CreateString_sim h F sb :
    WF h F -> live_below h -> Readable h sb ->
    (let id := h_next h in let d := rd_string c_cJSON_String (Pos.succ id) in
     let h' := new_string h c_cJSON_String (str_at h sb ++ [0%Z]) in
     oracle (h_req h) = false /\ oracle (S (h_req h)) = false /\
     cJSON_CreateString oracle (Some sb) h = Ret (Some id, h') /\
     WF h' (spec_create F id d) /\ live_below h' /\ (NoLeak h F -> NoLeak h' (spec_create F id d)) /\
     Readable h' (Pos.succ id) /\ str_at h' (Pos.succ id) = str_at h sb)
    \/ (exists h', cJSON_CreateString oracle (Some sb) h = Ret (None, h') /\ clean_failure h h' /\ refused oracle h h').
  Proof. intros W LB HR. by apply create_string_like_sim. Qed.
  Lemma cJSON_CreateRaw_sim h F sb :
    WF h F -> live_below h -> Readable h sb ->
    (let id := h_next h in let d := rd_string c_cJSON_Raw (Pos.succ id) in
     let h' := new_string h c_cJSON_Raw (str_at h sb ++ [0%Z]) in
     oracle (h_req h) = false /\ oracle (S (h_req h)) = false /\
     cJSON_CreateRaw oracle (Some sb) h = Ret (Some id, h') /\
     WF h' (spec_create F id d) /\ live_below h' /\ (NoLeak h F -> NoLeak h' (spec_create F id d)) /\
     Readable h' (Pos.succ id) /\ str_at h' (Pos.succ id) = str_at h sb)
    \/ (exists h', cJSON_CreateRaw oracle (Some sb) h = Ret (None, h') /\ clean_failure h h' /\ refused oracle h h').
  Proof. intros W LB HR. by apply create_string_like_sim. Qed.
  Lemma cJSON_CreateString_null h F : WF h F -> live_below h ->
    exists h', cJSON_CreateString oracle None h = Ret (None, h') /\ clean_failure h h'.
  Proof. apply create_string_like_null. Qed.
  Lemma cJSON_CreateRaw_null h F : WF h F -> live_below h ->
    exists h', cJSON_CreateRaw oracle None h = Ret (None, h') /\ clean_failure h h'.
  Proof. apply create_string_like_null. Qed.
End Constructors.

(** * with an allocator that never refuses, every constructor succeeds *)
Definition never : nat -> bool := fun _ => false.

Lemma ctor1_total (m : M ptr) h F d :
  ctor1_post never m h F d ->
  m h = Ret (Some (h_next h), new_node h d) /\ WF (new_node h d) (spec_create F (h_next h) d) /\
  live_below (new_node h d) /\ (NoLeak h F -> NoLeak (new_node h d) (spec_create F (h_next h) d)).
Proof. intros [(_ & H)|(H & _)]; [exact H|done]. Qed.

Lemma create_with_type_total ty h F : WF h F -> live_below h ->
  create_with_type never ty h = Ret (Some (h_next h), new_node h (rd_of_type ty)) /\
  WF (new_node h (rd_of_type ty)) (spec_create F (h_next h) (rd_of_type ty)).
Proof. intros W LB. destruct (ctor1_total _ _ _ _ (create_with_type_sim never ty h F W LB)) as (H1 & H2 & _). done. Qed.
Lemma cJSON_CreateNumber_total num h F : WF h F -> live_below h ->
  cJSON_CreateNumber never num h = Ret (Some (h_next h), new_node h (rd_number num)) /\
  WF (new_node h (rd_number num)) (spec_create F (h_next h) (rd_number num)).
Proof. intros W LB. destruct (ctor1_total _ _ _ _ (cJSON_CreateNumber_sim never num h F W LB)) as (H1 & H2 & _). done. Qed.
Lemma cJSON_CreateStringReference_total s h F : WF h F -> live_below h ->
  cJSON_CreateStringReference never s h = Ret (Some (h_next h), new_node h (rd_string_ref s)) /\
  WF (new_node h (rd_string_ref s)) (spec_create F (h_next h) (rd_string_ref s)).
Proof. intros W LB. destruct (ctor1_total _ _ _ _ (cJSON_CreateStringReference_sim never s h F W LB)) as (H1 & H2 & _). done. Qed.
Lemma cJSON_CreateObjectReference_total c h F : WF h F -> live_below h ->
  cJSON_CreateObjectReference never c h = Ret (Some (h_next h), new_node h (rd_container_ref c_cJSON_Object c)) /\
  WF (new_node h (rd_container_ref c_cJSON_Object c)) (spec_create F (h_next h) (rd_container_ref c_cJSON_Object c)).
Proof. intros W LB. destruct (ctor1_total _ _ _ _ (cJSON_CreateObjectReference_sim never c h F W LB)) as (H1 & H2 & _). done. Qed.
Lemma cJSON_CreateArrayReference_total c h F : WF h F -> live_below h ->
  cJSON_CreateArrayReference never c h = Ret (Some (h_next h), new_node h (rd_container_ref c_cJSON_Array c)) /\
  WF (new_node h (rd_container_ref c_cJSON_Array c)) (spec_create F (h_next h) (rd_container_ref c_cJSON_Array c)).
Proof. intros W LB. destruct (ctor1_total _ _ _ _ (cJSON_CreateArrayReference_sim never c h F W LB)) as (H1 & H2 & _). done. Qed.

Lemma cJSON_strdup_total h F sb : WF h F -> live_below h -> Readable h sb ->
  let h' := new_str h (str_at h sb ++ [0%Z]) in
  cJSON_strdup never (Some sb) h = Ret (Some (h_next h), h') /\ WF h' F /\ str_at h' (h_next h) = str_at h sb.
Proof.
  intros W LB HR. destruct (cJSON_strdup_sim never h F sb W LB HR) as [(_ & H1 & H2 & _ & _ & H3 & _)|(_ & _ & H)]; [done|].
  by apply refused_false in H.
Qed.
Lemma cJSON_CreateString_total h F sb : WF h F -> live_below h -> Readable h sb ->
  let id := h_next h in let d := rd_string c_cJSON_String (Pos.succ id) in
  let h' := new_string h c_cJSON_String (str_at h sb ++ [0%Z]) in
  cJSON_CreateString never (Some sb) h = Ret (Some id, h') /\ WF h' (spec_create F id d) /\
  str_at h' (Pos.succ id) = str_at h sb.
Proof.
  intros W LB HR. destruct (cJSON_CreateString_sim never h F sb W LB HR) as [(_ & _ & H1 & H2 & _ & _ & _ & H3)|(h' & _ & _ & H)]; [done|].
  by apply refused_false in H.
Qed.
Lemma cJSON_CreateRaw_total h F sb : WF h F -> live_below h -> Readable h sb ->
  let id := h_next h in let d := rd_string c_cJSON_Raw (Pos.succ id) in
  let h' := new_string h c_cJSON_Raw (str_at h sb ++ [0%Z]) in
  cJSON_CreateRaw never (Some sb) h = Ret (Some id, h') /\ WF h' (spec_create F id d) /\
  str_at h' (Pos.succ id) = str_at h sb.
Proof.
  intros W LB HR. destruct (cJSON_CreateRaw_sim never h F sb W LB HR) as [(_ & _ & H1 & H2 & _ & _ & _ & H3)|(h' & _ & _ & H)]; [done|].
  by apply refused_false in H.
Qed.
