(** Extract_patch.v — extraction of the JSON Patch model (PatchDefs.v) and of the RFC 6902
    evaluator (Rfc6902.v) for the correspondence driver of area `patch`.  ExtrOcamlBasic only. *)
Require Import ExtrOcamlBasic.
From CJ Require Import Base Dbl Tree PointerDefs CompareDefs PatchDefs Rfc6902.
Extraction Language OCaml.
Extraction "model_patch.ml"
  Base.cstr Dbl.sf_of_bits Dbl.bits_of_sf Tree.node_size Tree.subtree
  CompareDefs.cJSON_Compare
  PatchDefs.cJSON_Duplicate PatchDefs.decode_pointer_inplace PatchDefs.apply_patch PatchDefs.apply_patches
  PatchDefs.generate_patches
  Rfc6902.eval Rfc6902.eval1 Rfc6902.ops_of Rfc6902.doc_eqb Rfc6902.json_docb.
