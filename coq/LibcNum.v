(** LibcNum.v — executable reference implementations of the C library number conversions
    cJSON calls (external code, hence NOT transliterated from the repository):
    strtod restricted to the alphabet parse_number lets through, and (further down) the
    printf conversions %d, %1.15g, %1.17g and sscanf %lg.  Exact integer arithmetic,
    correctly rounded to nearest-even like glibc.  The correspondence check compares them
    with the real libc on every number that flows through any case.  No proofs here. *)
From Coq Require Import ZArith List Bool Floats.SpecFloat.
From CJ Require Import Base Dbl.
Import ListNotations.
Local Open Scope Z_scope.

Definition is_digit (c : Z) : bool := (48 <=? c) && (c <=? 57).

(* leading run of decimal digits: (value accumulated onto acc, number of digits, rest) *)
Fixpoint take_digits (s : bytes) (acc : Z) (n : nat) : Z * nat * bytes :=
  match s with
  | c :: r => if is_digit c then take_digits r (10 * acc + (c - 48)) (S n) else (acc, n, s)
  | [] => (acc, n, s)
  end.

Fixpoint ndigits (fuel : nat) (m : Z) : Z :=
  match fuel with O => 0 | S f => if m <? 10 then 1 else 1 + ndigits f (m / 10) end.

(* correctly rounded quotient of two positive integers: SFdiv on unnormalised finite operands
   is exact up to the single final rounding *)
Definition div_to_dbl (neg : bool) (m : Z) (d : Z) : dbl :=
  let r := SFdiv prec emax (S754_finite false (Z.to_pos m) 0) (S754_finite false (Z.to_pos d) 0) in
  if neg then SFopp r else r.

Definition dec_to_dbl_exact (neg : bool) (m : Z) (e10 : Z) : dbl :=
  if m =? 0 then S754_zero neg
  else
    let nd := ndigits 2000 m in
    if 400 <? nd + e10 then S754_infinity neg
    else if nd + e10 <? -400 then S754_zero neg
    else if 0 <=? e10 then (let r := binary_normalize prec emax (m * 10 ^ e10) 0 false in if neg then SFopp r else r)
    else div_to_dbl neg m (10 ^ (- e10)).

(* strtod(s): (value, bytes consumed) or None when no conversion is performed.
   s contains only bytes from "0123456789+-eE." (what parse_number copies). *)
Definition strtod_ref (s : bytes) : option (dbl * nat) :=
  let '(neg, s1, nsign) :=
    match s with
    | 45 :: r => (true, r, 1%nat)
    | 43 :: r => (false, r, 1%nat)
    | _ => (false, s, 0%nat)
    end in
  let '(ip, nint, s2) := take_digits s1 0 0 in
  let '(m, nfrac, s3, ndot) :=
    match s2 with
    | 46 :: r => let '(m', nf, r') := take_digits r ip 0 in
                 if (nint =? 0)%nat && (nf =? 0)%nat then (ip, 0%nat, s2, 0%nat) else (m', nf, r', 1%nat)
    | _ => (ip, 0%nat, s2, 0%nat)
    end in
  if (nint + nfrac =? 0)%nat then None
  else
    let '(e, nexp) :=
      match s3 with
      | c :: r =>
          if (c =? 101) || (c =? 69) then
            let '(eneg, r1, nes) := match r with 45 :: r' => (true, r', 1%nat) | 43 :: r' => (false, r', 1%nat) | _ => (false, r, 0%nat) end in
            let '(ev, ne, _) := take_digits r1 0 0 in
            if (ne =? 0)%nat then (0, 0%nat)
            else ((if eneg then - (Z.min ev 100000) else Z.min ev 100000), (1 + nes + ne)%nat)
          else (0, 0%nat)
      | [] => (0, 0%nat)
      end in
    Some (dec_to_dbl_exact neg m (e - Z.of_nat nfrac), (nsign + nint + ndot + nfrac + nexp)%nat).
