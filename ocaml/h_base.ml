(* handlers.ml — one function per case kind *)
open Model
open Driver

(* minify <hex s> -> <hex minify s> <hex minify (minify s)>  (C13) *)
let h_minify (a : string array) : string =
  let s = bytes_of_hex a.(1) in
  match cJSON_Minify (s @ [Z0]) with
  | Ok b ->
      let r1 = cstr b in
      let spec = minify_spec s in
      let r2 = (match cJSON_Minify (r1 @ [Z0]) with Ok b2 -> hex_of_bytes (cstr b2) | OOB -> "MODEL_OOB" | OutOfFuel -> "MODEL_OUTOFFUEL") in
      (hex_of_bytes r1) ^ " " ^ r2 ^ (if spec = r1 then "" else " SPECDIFF")
  | OOB -> "MODEL_OOB"
  | OutOfFuel -> "MODEL_OUTOFFUEL"

(* getptr <cs> <hexptr> <tree> -> P<path> | NULL   (C15); appends the RFC 6901 reference verdict *)
let h_getptr (a : string array) : string =
  let cs = a.(1) = "1" in let p = bytes_of_hex a.(2) in
  let pos = ref 3 in let root = parse_node a pos in
  let r = if cs then cJSONUtils_GetPointerCaseSensitive root p else cJSONUtils_GetPointer root p in
  let spec = if cs then (if rfc6901 root p = r then "" else " SPECDIFF") else "" in
  path_str r ^ spec

(* findptr <P-path> <tree> -> <hex pointer> <path resolved back> *)
let h_findptr (a : string array) : string =
  let target = path_of_str a.(1) in
  let pos = ref 2 in let root = parse_node a pos in
  match cJSONUtils_FindPointerFromObjectTo root target with
  | None -> "NULL"
  | Some p -> hex_of_bytes p ^ " " ^ path_str (cJSONUtils_GetPointerCaseSensitive root p)

(* compare <cs> <same> <treeA|NULL> <treeB|NULL> -> <a?b> <b?a> U *)
let h_compare (a : string array) : string =
  let cs = a.(1) = "1" in let same = a.(2) = "1" || a.(2) = "3" in   (* 2 / 3: operands in read-only memory on the implementation side *)
  let pos = ref 3 in
  let x = parse_node_or_null a pos in
  let y = if same then x else parse_node_or_null a pos in
  let s = function Some true -> "1" | Some false -> "0" | None -> "MODEL_OUTOFFUEL" in
  s (cJSON_Compare x y same cs) ^ " " ^ s (cJSON_Compare y x same cs) ^ " U"

(* parse <entry> <rnt> <n> <hexcontent> [failk] -> <tree|NULL> end=.. err=.. live=.. reqs=..  *)
let h_parse (a : string array) : string =
  let entry = a.(1).[0] in let rnt = a.(2) = "1" in let len = int_of_string a.(3) in
  let content = bytes_of_hex a.(4) in
  let failk = if Array.length a > 5 then int_of_string a.(5) else 0 in
  let with_end = (entry = 'L' || entry = 'O') in
  let rnt' = (match entry with 'W' | 'P' -> false | _ -> rnt) in
  let r = (match entry with
    | 'L' | 'l' | 'W' -> run_parse_with_length_opts content (nat_of_int len) rnt' (nat_of_int failk)
    | _ -> run_parse_with_opts content rnt' (nat_of_int failk)) in
  match r with
  | OOB -> "MODEL_OOB" | OutOfFuel -> "MODEL_OUTOFFUEL"
  | Ok pr ->
      let t = (match pr.pr_tree with None -> "NULL" | Some n -> dump_node n) in
      let e = (match pr.pr_end with Some k when with_end -> string_of_int (int_of_nat k) | _ -> "-") in
      let er = (match pr.pr_error with None -> "NULL" | Some k -> string_of_int (int_of_nat k)) in
      let rep = (match pr.pr_tree, pr.pr_end with
        | Some n, Some k when with_end ->
            let k' = int_of_nat k in
            let prefix = List.filteri (fun i _ -> i < k') content in
            (match run_parse_with_length_opts prefix (nat_of_int k') false O with
             | Ok pr2 -> (match pr2.pr_tree with Some n2 -> if n2 = n then " reparse=same" else " reparse=DIFF" | None -> " reparse=NULL")
             | _ -> " reparse=MODEL_OOB")
        | _ -> "") in
      (* the list-level specification (ParseSpec.text_l) on the same bytes, when no allocation fails *)
      let spec = (if failk <> 0 || List.length content > 4000 then "" else
        let n = (match entry with 'L' | 'l' | 'W' -> len | _ ->
                   (let rec z i = function [] -> i | c :: r -> if c = Z0 then i + 1 else z (i + 1) r in z 0 content)) in
        (match run_text_l content (nat_of_int n) rnt', pr.pr_tree, pr.pr_end with
         | None, None, _ -> ""
         | Some (t1, e1), Some t2, Some e2 -> if t1 = t2 && e1 = e2 then "" else " SPECDIFF"
         | _, _, _ -> " SPECDIFF")) in
      Printf.sprintf "%s end=%s err=%s live=%d reqs=%d%s%s" t e er (int_of_z pr.pr_live) (int_of_nat pr.pr_requests) rep spec

let handlers : (string * (string array -> string)) list = [
  ("parse", h_parse);
  ("getptr", h_getptr); ("findptr", h_findptr); ("compare", h_compare);
  ("minify", h_minify);
]
