(** PatchHeapEx.v — non-vacuity of the PatchHeap* theorems on concrete heaps, by computation.

    [px_heap] encodes the forest [px_F] = [pointers; document]:
      document (root 1)  {"a":[10,{"b~":5}],"A":2,"c/d":3}     nodes 1-7, key blocks 101-105
      pointers (root 20) ["/a/1/b~0", "/c~1d", "/a/2", "a"]     string nodes 21-24, valuestring blocks 201-204
    allocator pointer 1000. *)
From CJ Require Import Base Dbl Heap Forest ForestLemmas CoreSpec CoreDefs CoreRefineFrame CoreRefineDupValue CoreLedgerGen.
From CJ Require Import TierBridgeDefs MergeHeapDefs MergeHeapInv MergeHeapEx PatchHeapDefs PatchHeapPath PatchHeapPointer PatchHeapStr PatchHeapSteps PatchHeapDetach
  PatchHeapApplyDefs PatchHeapOps PatchHeapFinish PatchHeapApply PatchHeapTest PatchHeapLoop.
From CJ Require Tree PointerDefs PatchDefs CoreOps Rfc6902 PatchConform PatchExact PatchSeq PatchSeq2Op PatchSeqAll.
From CJ.gen Require Import Constants.
From stdpp Require Import gmap.
Local Open Scope Z_scope.

Definition px_doc : tree :=
  exh_mk 1 c_cJSON_Object None 0 None
    [exh_mk 2 c_cJSON_Array None 0 (Some 101%positive)
       [exh_mk 3 c_cJSON_Number None 10 None [];
        exh_mk 4 c_cJSON_Object None 0 None [exh_mk 5 c_cJSON_Number None 5 (Some 102%positive) []]];
     exh_mk 6 c_cJSON_Number None 2 (Some 103%positive) [];
     exh_mk 7 c_cJSON_Number None 3 (Some 104%positive) []].
Definition px_ptrs : tree :=
  exh_mk 20 c_cJSON_Array None 0 None
    [exh_mk 21 c_cJSON_String (Some 201%positive) 0 None [];
     exh_mk 22 c_cJSON_String (Some 202%positive) 0 None [];
     exh_mk 23 c_cJSON_String (Some 203%positive) 0 None [];
     exh_mk 24 c_cJSON_String (Some 204%positive) 0 None []].
Definition px_F : forest := [px_ptrs; px_doc].
Definition px_St : gmap positive bytes :=
  list_to_map [(101%positive, [97; 0]); (102%positive, [98; 126; 0]); (103%positive, [65; 0]); (104%positive, [99; 47; 100; 0]);
               (201%positive, [47; 97; 47; 49; 47; 98; 126; 48; 0]);      (* /a/1/b~0 *)
               (202%positive, [47; 99; 126; 49; 100; 0]);                 (* /c~1d *)
               (203%positive, [47; 97; 47; 50; 0]);                       (* /a/2 *)
               (204%positive, [97; 0])].                                  (* a *)
Definition px_heap : heap := heap_of_forest px_F px_St.

Lemma px_MInv : MInv px_heap px_F.
Proof. apply heap_of_forest_MInv; vm_compute; reflexivity. Qed.
Lemma px_doc_node : px_doc ∈ nodes px_F.
Proof. apply roots_in_nodes. right. by left. Qed.
Lemma px_reads (b : positive) (s : bytes) :
  px_St !! b = Some s -> bool_decide (b ∈ owned px_F) = true -> existsb (Z.eqb 0) s = true -> CsReads px_heap (CAt b 0) (cstr s).
Proof.
  intros H1 H2 H3. apply CsReads_block; [|exact H1|exact H3]. unfold px_heap, heap_of_forest. cbn [h_live].
  apply elem_of_list_to_set. by apply bool_decide_eq_true in H2.
Qed.

(** the four pointers, resolved by the heap-level code (case-sensitive; the last line: case-insensitive "/a" finds
    member "a" first, and "/A" case-sensitively finds node 6) *)
Lemma px_runs :
  out_val (get_item_from_pointer (Some 1%positive) (CAt 201 0) true px_heap) = Some (Some 5%positive) /\
  out_val (get_item_from_pointer (Some 1%positive) (CAt 202 0) true px_heap) = Some (Some 7%positive) /\
  out_val (get_item_from_pointer (Some 1%positive) (CAt 203 0) true px_heap) = Some None /\
  out_val (get_item_from_pointer (Some 1%positive) (CAt 204 0) true px_heap) = Some None /\
  out_val (get_item_from_pointer (Some 1%positive) (CAt 201 2) true px_heap) = Some None /\
  out_val (get_item_from_pointer (Some 2%positive) (CAt 201 2) true px_heap) = Some (Some 5%positive).
Proof. vm_compute. done. Qed.

(** … and by the value-level model on the reified document *)
Lemma px_values :
  PointerDefs.get_item_from_pointer (reify px_St px_doc) [47; 97; 47; 49; 47; 98; 126; 48] true = Some [0; 1; 0]%nat /\
  PointerDefs.get_item_from_pointer (reify px_St px_doc) [47; 99; 126; 49; 100] true = Some [2]%nat /\
  PointerDefs.get_item_from_pointer (reify px_St px_doc) [47; 97; 47; 50] true = None /\
  PointerDefs.get_item_from_pointer (reify px_St px_doc) [97] true = None /\
  tid <$> subtree_t px_doc [0; 1; 0]%nat = Some 5%positive /\ tid <$> subtree_t px_doc [2]%nat = Some 7%positive.
Proof. vm_compute. done. Qed.

(** the hypotheses of [get_item_from_pointer_refines] hold for them, and the theorem's right-hand side is what was computed *)
Lemma px_stage1 :
  MInv px_heap px_F /\ px_doc ∈ nodes px_F /\
  CsReads px_heap (CAt 201 0) [47; 97; 47; 49; 47; 98; 126; 48] /\
  get_item_from_pointer (Some 1%positive) (CAt 201 0) true px_heap = Ret (Some 5%positive, px_heap).
Proof.
  split; [exact px_MInv|]. split; [exact px_doc_node|].
  assert (R : CsReads px_heap (CAt 201 0) [47; 97; 47; 49; 47; 98; 126; 48]).
  { exact (px_reads 201 [47; 97; 47; 49; 47; 98; 126; 48; 0] eq_refl eq_refl eq_refl). }
  split; [exact R|].
  change (Some 1%positive) with (Some (tid px_doc)).
  rewrite (get_item_from_pointer_refines px_heap px_F px_MInv px_doc _ _ true px_doc_node R).
  f_equal.
Qed.

(** * stage 2: detach_path *)
Definition px_heap_of {A} (o : out (A * heap)) : heap := out_heap o px_heap.
Definition px_det1 := detach_path nofail (Some 1%positive) (Some 201%positive) true px_heap.     (* /a/1/b~0 : member of an object *)
Definition px_det2 := detach_path nofail (Some 1%positive) (Some 203%positive) true px_heap.     (* /a/2 : no such element *)
Definition px_det3 := detach_path nofail (Some 1%positive) (Some 202%positive) true px_heap.     (* /c~1d *)
Definition px_num (v : Z) (k : option bytes) : Tree.node := Tree.Node c_cJSON_Number None v (dbl_of_int v) k [].
(** the document after /a/1/b~0 has been detached: {"a":[10,{}],"A":2,"c/d":3} *)
Definition px_doc1 : Tree.node :=
  Tree.Node c_cJSON_Object None 0 dzero None
    [Tree.Node c_cJSON_Array None 0 dzero (Some [97]) [px_num 10 None; Tree.Node c_cJSON_Object None 0 dzero None []];
     px_num 2 (Some [65]); px_num 3 (Some [99; 47; 100])].

(** the heap-level runs: result pointer, the document and the detached item read back from the result heap by
    the structural walk, and the ledger (nothing allocated stays live: the copy of the path, block 1000, is gone) *)
Lemma px_detach_runs :
  out_val px_det1 = Some (Some 5%positive) /\
  out_val (CoreOps.dump_node 50 (Some 1%positive) (px_heap_of px_det1)) = Some (Some (px_doc1, true)) /\
  out_val (CoreOps.dump_node 50 (Some 5%positive) (px_heap_of px_det1)) = Some (Some (px_num 5 (Some [98; 126]), true)) /\
  bool_decide (lib_live (px_heap_of px_det1) = lib_live px_heap) = true /\
  out_val px_det2 = Some None /\
  out_val (CoreOps.dump_node 50 (Some 1%positive) (px_heap_of px_det2)) = Some (Some (reify px_St px_doc, true)) /\
  bool_decide (lib_live (px_heap_of px_det2) = lib_live px_heap) = true /\
  out_val px_det3 = Some (Some 7%positive).
Proof. vm_compute. done. Qed.

(** the value-level model on the reified document *)
Lemma px_detach_values :
  PatchDefs.detach_path (reify px_St px_doc) [47; 97; 47; 49; 47; 98; 126; 48] true = Ok (Some (px_num 5 (Some [98; 126]), px_doc1)) /\
  PatchDefs.detach_path (reify px_St px_doc) [47; 97; 47; 50] true = Ok None.
Proof. vm_compute. done. Qed.

(** the hypotheses of [detach_path_refines] hold for this heap ([px_F] = [px_ptrs] ++ [px_doc]) *)
Lemma px_stage2 :
  MInv px_heap ([px_ptrs] ++ [px_doc]) /\ NoLeak px_heap ([px_ptrs] ++ [px_doc]) /\
  201%positive ∈ h_live px_heap /\ h_str px_heap !! 201%positive = Some [47; 97; 47; 49; 47; 98; 126; 48; 0] /\
  exists h' r F',
    detach_path nofail (Some (tid px_doc)) (Some 201%positive) true px_heap = Ret (r, h') /\
    MInv h' F' /\ h_str h' = h_str px_heap /\ NoLeak h' F' /\
    detach_post (h_str px_heap) [px_ptrs] px_doc r F' (Ok (Some (px_num 5 (Some [98; 126]), px_doc1))).
Proof.
  split; [exact px_MInv|]. split; [apply heap_of_forest_NoLeak|].
  assert (Hl : 201%positive ∈ h_live px_heap) by (apply (bool_decide_unpack _); vm_compute; exact I).
  split; [exact Hl|]. split; [reflexivity|].
  destruct (detach_path_refines px_heap [px_ptrs] px_doc 201 [47; 97; 47; 49; 47; 98; 126; 48; 0] true px_MInv Hl eq_refl eq_refl)
    as (h' & r & F' & Hrun & I' & Es & NL & _ & Hpost).
  exists h', r, F'. split; [exact Hrun|]. split; [exact I'|]. split; [exact Es|]. split; [apply NL, heap_of_forest_NoLeak|].
  replace (Ok (Some (px_num 5 (Some [98; 126]), px_doc1))) with
    (PatchDefs.detach_path (reify (h_str px_heap) px_doc) (cstr [47; 97; 47; 49; 47; 98; 126; 48; 0]) true); [exact Hpost|].
  vm_compute. reflexivity.
Qed.

(** * stages 3 and 4: apply_patch for remove, add, replace, copy, move *)

(** a value as a forest tree: identities and string blocks handed out in preorder from [nx] *)
Fixpoint enc (n : Tree.node) (nx : positive) : tree * list (positive * bytes) * positive :=
  match n with
  | Tree.Node ty vs vi vd k cs =>
    let id := nx in
    let nx1 := Pos.succ nx in
    let '(vsp, strs1, nx2) := match vs with Some s => (Some nx1, [(nx1, s ++ [0])], Pos.succ nx1) | None => (None, [], nx1) end in
    let '(kp, strs2, nx3) := match k with Some s => (Some nx2, [(nx2, s ++ [0])], Pos.succ nx2) | None => (None, [], nx2) end in
    let '(cs', strs3, nx4) :=
      (fix go (l : list Tree.node) (nx : positive) : list tree * list (positive * bytes) * positive :=
         match l with
         | [] => ([], [], nx)
         | c :: r => let '(c', s1, n1) := enc c nx in let '(r', s2, n2) := go r n1 in (c' :: r', s1 ++ s2, n2)
         end) cs nx3 in
    (T id (mkRD ty vsp vi vd kp None) cs', strs1 ++ strs2 ++ strs3, nx4)
  end.

Definition vN (ty : Z) vs vi k cs := Tree.Node ty vs vi (dbl_of_int vi) k cs.
Definition vnum v k := vN c_cJSON_Number None v k [].
Definition vstr (s : bytes) k := vN c_cJSON_String (Some s) 0 k [].
Definition vobj k cs := vN c_cJSON_Object None 0 k cs.
Definition varr k cs := vN c_cJSON_Array None 0 k cs.
(** document {"a":[1,2],"b":{"c":3}} *)
Definition pa_doc_v : Tree.node :=
  vobj None [varr (Some [97]) [vnum 1 None; vnum 2 None]; vobj (Some [98]) [vnum 3 (Some [99])]].
Definition pa_op (o p : bytes) (extra : list Tree.node) : Tree.node :=
  vobj None ([vstr o (Some PatchDefs.s_op); vstr p (Some PatchDefs.s_path)] ++ extra).
(** the operations, each applied to the ORIGINAL document below *)
Definition pa_ops : list Tree.node :=
  [ pa_op PatchDefs.s_add [47;97;47;49] [vnum 9 (Some PatchDefs.s_value)];                 (* 0: add /a/1 9 *)
    pa_op PatchDefs.s_remove [47;98;47;99] [];                                              (* 1: remove /b/c *)
    pa_op PatchDefs.s_replace [47;97;47;48] [vstr [120] (Some PatchDefs.s_value)];          (* 2: replace /a/0 "x" *)
    pa_op PatchDefs.s_move [47;97;47;45] [vstr [47;98] (Some PatchDefs.s_from)];            (* 3: move /b to /a/- *)
    pa_op PatchDefs.s_copy [47;100] [vstr [47;97;47;48] (Some PatchDefs.s_from)];           (* 4: copy /a/0 to /d *)
    pa_op PatchDefs.s_replace [47;97;47;48] [];                                             (* 5: replace /a/0 without value: status 7 *)
    pa_op PatchDefs.s_add [47;97;47;57] [vnum 7 (Some PatchDefs.s_value)];                  (* 6: add /a/9: status 10 *)
    pa_op PatchDefs.s_add [] [varr (Some PatchDefs.s_value) [vnum 5 None]];                 (* 7: add "" [5]: the root *)
    pa_op PatchDefs.s_add [47;98;47;99] [vstr [121] (Some PatchDefs.s_value)];              (* 8: add /b/c "y": existing member *)
    pa_op PatchDefs.s_move [47;98;47;120] [vstr [47;98] (Some PatchDefs.s_from)] ].         (* 9: move /b to /b/x: status 9 *)
Definition pa_patches_v : Tree.node := varr None pa_ops.
Definition pa_e1 := enc pa_doc_v 1.
Definition pa_e2 := enc pa_patches_v (pa_e1.2).
Definition pa_doc : tree := pa_e1.1.1.
Definition pa_patches : tree := pa_e2.1.1.
Definition pa_G : forest := [pa_patches].
Definition pa_St : gmap positive bytes := list_to_map (pa_e1.1.2 ++ pa_e2.1.2).
Definition pa_heap : heap := heap_of_forest (pa_G ++ [pa_doc]) pa_St.
Definition pa_pt (k : nat) : tree := default pa_doc (tchildren pa_patches !! k).

Lemma pa_MInv : MInv pa_heap (pa_G ++ [pa_doc]).
Proof. apply heap_of_forest_MInv; vm_compute; reflexivity. Qed.
Lemma pa_reify : reify pa_St pa_doc = pa_doc_v /\ reify pa_St pa_patches = pa_patches_v.
Proof. vm_compute. done. Qed.

Definition pa_run (k : nat) : out (Z * heap) := apply_patch nofail (Some (tid pa_doc)) (Some (tid (pa_pt k))) true pa_heap.
Definition pa_status (k : nat) : option Z := out_val (pa_run k).
Definition pa_doc_after (k : nat) : option (option (Tree.node * bool)) :=
  out_val (CoreOps.dump_node 50 (Some (tid pa_doc)) (out_heap (pa_run k) pa_heap)).
Definition pa_model (k : nat) : Base.res (Z * Tree.node) :=
  ' (st, d, _) <- PatchDefs.apply_patch pa_doc_v (default pa_doc_v (pa_ops !! k)) true ;; Ok (st, d).
Definition pa_heap_result (k : nat) : option Z * option (option (Tree.node * bool)) := (pa_status k, pa_doc_after k).
Definition pa_model_result (k : nat) : option Z * option (option (Tree.node * bool)) :=
  match pa_model k with Ok (st, d) => (Some st, Some (Some (d, true))) | _ => (None, None) end.

(** the heap-level code run on each operation: status and resulting document (read back by the structural walk,
    links healthy) are those of the value-level model; statuses: 0 0 0 0 0 7 10 0 0 9 *)
Lemma pa_runs :
  map pa_heap_result (seq 0 10) = map pa_model_result (seq 0 10) /\
  map pa_status (seq 0 10) = map Some [0; 0; 0; 0; 0; 7; 10; 0; 0; 9].
Proof. vm_compute. done. Qed.

(** the failing replace (operation 5) HAS removed the old value: the document is {"a":[2],"b":{"c":3}} — the
    non-atomicity of DESIGN 11.6, in model and code alike *)
Lemma pa_replace_not_atomic :
  pa_status 5 = Some 7 /\
  pa_doc_after 5 = Some (Some (vobj None [varr (Some [97]) [vnum 2 None]; vobj (Some [98]) [vnum 3 (Some [99])]], true)).
Proof. vm_compute. done. Qed.

(** the hypotheses of [apply_patch_refines] hold on this heap for every element of the patch array, and its
    conclusion — including [NoLeak] of the result on the failing exits — is available for it *)
Lemma pa_pt_node (k : nat) t : tchildren pa_patches !! k = Some t -> t ∈ nodes pa_G.
Proof.
  intros Hk. destruct pa_patches as [i d cs] eqn:E. cbn [tchildren] in Hk.
  eapply (TierBridgeForest.child_in_nodes pa_G i d cs t).
  - apply roots_in_nodes. unfold pa_G. rewrite E. by left.
  - by eapply elem_of_list_lookup_2.
Qed.

Lemma pa_stage34 (k : nat) t :
  tchildren pa_patches !! k = Some t ->
  PatchDefs.decode_patch_operation (reify (h_str pa_heap) t) true <> Ok PatchDefs.TEST ->
  MInv pa_heap (pa_G ++ [pa_doc]) /\ NoLeak pa_heap (pa_G ++ [pa_doc]) /\ t ∈ nodes pa_G /\
  match PatchDefs.apply_patch (reify (h_str pa_heap) pa_doc) (reify (h_str pa_heap) t) true with
  | Ok (st, doc', pt') =>
      st <> 6 -> st <> 8 ->
      exists h' docT,
        apply_patch nofail (Some (tid pa_doc)) (Some (tid t)) true pa_heap = Ret (st, h') /\
        MInv h' (pa_G ++ [docT]) /\ reify (h_str h') docT = doc' /\ NoLeak h' (pa_G ++ [docT])
  | _ => True
  end.
Proof.
  intros Hk Hnt. pose proof (pa_pt_node k t Hk) as Hn. split; [exact pa_MInv|]. split; [apply heap_of_forest_NoLeak|]. split; [exact Hn|].
  destruct t as [pid dpt cpt].
  pose proof (apply_patch_refines pa_heap pa_G pa_doc pid dpt cpt true pa_MInv Hn Hnt) as H. unfold apply_post in H.
  destruct (PatchDefs.apply_patch (reify (h_str pa_heap) pa_doc) (reify (h_str pa_heap) (T pid dpt cpt)) true) as [[[st doc'] pt']| |]; [|done|done].
  intros H6 H8. destruct (H H6 H8) as (h' & docT & E & I' & _ & Hre & _ & _ & NL & _).
  exists h', docT. split; [exact E|]. split; [exact I'|]. split; [exact Hre|]. apply NL, heap_of_forest_NoLeak.
Qed.

(** * stage 5: the test operation *)
(** document {"o":{"b":1,"a":2},"n":5}; patch array [test /o {"a":2,"b":1}; test /n 6] *)
Definition pt_doc_v : Tree.node :=
  vobj None [vobj (Some [111]) [vnum 1 (Some [98]); vnum 2 (Some [97])]; vnum 5 (Some [110])].
Definition pt_ops : list Tree.node :=
  [ pa_op PatchDefs.s_test [47;111] [vobj (Some PatchDefs.s_value) [vnum 2 (Some [97]); vnum 1 (Some [98])]];
    pa_op PatchDefs.s_test [47;110] [vnum 6 (Some PatchDefs.s_value)] ].
Definition pt_patches_v : Tree.node := varr None pt_ops.
Definition pt_e1 := enc pt_doc_v 1.
Definition pt_e2 := enc pt_patches_v (pt_e1.2).
Definition pt_doc : tree := pt_e1.1.1.
Definition pt_patches : tree := pt_e2.1.1.
Definition pt_St : gmap positive bytes := list_to_map (pt_e1.1.2 ++ pt_e2.1.2).
Definition pt_F : forest := F2 [] [] [] pt_doc pt_patches.
Definition pt_heap : heap := heap_of_forest pt_F pt_St.
Definition pt_el (k : nat) : tree := default pt_doc (tchildren pt_patches !! k).
Definition pt_run (k : nat) : out (Z * heap) := apply_patch nofail (Some (tid pt_doc)) (Some (tid (pt_el k))) true pt_heap.
Definition pt_dump (k : nat) (x : positive) := out_val (CoreOps.dump_node 50 (Some x) (out_heap (pt_run k) pt_heap)).

Lemma pt_MInv : MInv pt_heap pt_F.
Proof. apply heap_of_forest_MInv; vm_compute; reflexivity. Qed.

(** the heap-level runs against the value-level model: status, the document (its object "o" now SORTED in place:
    {"a":2,"b":1}), the patch element (its "value" member sorted as well — it was already), the ledger unchanged *)
Lemma pt_runs :
  out_val (pt_run 0) = Some 0 /\ out_val (pt_run 1) = Some 1 /\
  (match PatchDefs.apply_patch pt_doc_v (default pt_doc_v (pt_ops !! 0%nat)) true with
   | Ok (st, d, p) => st = 0 /\ pt_dump 0 (tid pt_doc) = Some (Some (d, true)) /\ pt_dump 0 (tid (pt_el 0)) = Some (Some (p, true))
   | _ => False
   end) /\
  pt_dump 0 (tid pt_doc) =
    Some (Some (vobj None [vobj (Some [111]) [vnum 2 (Some [97]); vnum 1 (Some [98])]; vnum 5 (Some [110])], true)) /\
  bool_decide (lib_live (out_heap (pt_run 0) pt_heap) = lib_live pt_heap) = true.
Proof. vm_compute. done. Qed.

(** a boolean check of [all_keyed] *)
Definition has_keyb (St : gmap positive bytes) (c : tree) : bool := match key_string St c with Some _ => true | None => false end.
Definition all_keyedb (St : gmap positive bytes) (t : tree) : bool :=
  forallb (fun n => if Z.land (rd_type (tdata n)) 255 =? c_cJSON_Object then forallb (has_keyb St) (tchildren n) else true) (nodes_t t).
Lemma all_keyedb_sound St t : all_keyedb St t = true -> all_keyed St t.
Proof.
  unfold all_keyedb. rewrite forallb_forall. intros H i d cs Hn Ho. specialize (H (T i d cs) ltac:(by apply elem_of_list_In)).
  cbn [tdata tchildren] in H. rewrite Ho, Z.eqb_refl in H. rewrite forallb_forall in H. apply Forall_forall. intros c Hc.
  specialize (H c ltac:(by apply elem_of_list_In)). unfold has_keyb in H. unfold has_key. destruct (key_string St c); [by eexists|done].
Qed.

(** the hypotheses of [apply_patch_test_refines] hold, and its conclusion for operation 0 *)
Lemma pt_stage5 :
  MInv pt_heap pt_F /\ NoLeak pt_heap pt_F /\ subtree_t pt_patches [0%nat] = Some (pt_el 0) /\
  all_keyed (h_str pt_heap) pt_doc /\ all_keyed (h_str pt_heap) (pt_el 0) /\
  PatchDefs.decode_patch_operation (reify (h_str pt_heap) (pt_el 0)) true = Ok PatchDefs.TEST /\
  exists h' docT ptT,
    apply_patch nofail (Some (tid pt_doc)) (Some (tid (pt_el 0))) true pt_heap = Ret (0, h') /\
    MInv h' (F2 [] [] [] docT (put_t pt_patches [0%nat] ptT)) /\ NoLeak h' (F2 [] [] [] docT (put_t pt_patches [0%nat] ptT)) /\
    reify (h_str pt_heap) docT = vobj None [vobj (Some [111]) [vnum 2 (Some [97]); vnum 1 (Some [98])]; vnum 5 (Some [110])].
Proof.
  assert (Hk1 : all_keyed (h_str pt_heap) pt_doc) by (apply all_keyedb_sound; vm_compute; reflexivity).
  assert (Hk2 : all_keyed (h_str pt_heap) (pt_el 0)) by (apply all_keyedb_sound; vm_compute; reflexivity).
  assert (Hd : PatchDefs.decode_patch_operation (reify (h_str pt_heap) (pt_el 0)) true = Ok PatchDefs.TEST) by (vm_compute; reflexivity).
  split; [exact pt_MInv|]. split; [apply heap_of_forest_NoLeak|]. split; [reflexivity|]. split; [exact Hk1|]. split; [exact Hk2|]. split; [exact Hd|].
  destruct (pt_el 0) as [pid dpt cpt] eqn:Eel.
  pose proof (apply_patch_test_refines pt_heap [] [] pt_doc pt_patches [0%nat] pid dpt cpt true pt_MInv
                ltac:(rewrite <- Eel; reflexivity) Hk1 Hk2 Hd) as H.
  assert (Ev : PatchDefs.apply_patch (reify (h_str pt_heap) pt_doc) (reify (h_str pt_heap) (T pid dpt cpt)) true =
               Ok (0, vobj None [vobj (Some [111]) [vnum 2 (Some [97]); vnum 1 (Some [98])]; vnum 5 (Some [110])],
                   reify (h_str pt_heap) (T pid dpt cpt))).
  { rewrite <- Eel. vm_compute. reflexivity. }
  rewrite Ev in H. destruct H as (h' & docT & ptT & E & I' & _ & _ & _ & _ & Hre & _ & _ & _ & NL & _).
  exists h', docT, ptT. split; [exact E|]. split; [exact I'|]. split; [apply NL, heap_of_forest_NoLeak|exact Hre].
Qed.

(** * stage 6: the entry point, and the transfer of C16 conformance *)
Fixpoint vkeyedb (n : Tree.node) : bool :=
  match n with
  | Tree.Node ty _ _ _ _ cs =>
      (if Z.land ty 255 =? c_cJSON_Object then forallb (fun c => match Tree.n_key c with Some _ => true | None => false end) cs else true) &&
      (fix go (l : list Tree.node) : bool := match l with [] => true | c :: r => vkeyedb c && go r end) cs
  end.
Lemma vkeyedb_sound n : vkeyedb n = true -> vkeyed n.
Proof.
  induction n as [ty vs vi vd k cs IH] using Tree.node_ind'. cbn [vkeyedb]. rewrite vkeyed_unfold. intros H.
  apply andb_true_iff in H as [H1 H2]. split.
  - intros Ho. rewrite Ho, Z.eqb_refl in H1. rewrite forallb_forall in H1. apply Forall_forall. intros c Hc.
    specialize (H1 c ltac:(by apply elem_of_list_In)). destruct (Tree.n_key c); [by eexists|done].
  - clear H1. induction cs as [|c r IHr]; [constructor|]. apply andb_true_iff in H2 as [Hc Hr]. apply Forall_cons in IH as [IHc IHr'].
    constructor; [by apply IHc|by apply IHr].
Qed.
Fixpoint run_okb (object : Tree.node) (ps : list Tree.node) (cs : bool) : bool :=
  match ps with
  | [] => true
  | p :: r =>
      vkeyedb object && vkeyedb p &&
      match PatchDefs.apply_patch object p cs with
      | Ok (st, o, _) => negb (st =? 6) && negb (st =? 8) && (if st =? 0 then run_okb o r cs else true)
      | _ => false
      end
  end.
Lemma run_okb_sound ps : forall object cs, run_okb object ps cs = true -> run_ok object ps cs.
Proof.
  induction ps as [|p r IH]; intros object cs; [done|]. cbn [run_okb run_ok]. intros H.
  apply andb_true_iff in H as [H H3]. apply andb_true_iff in H as [H1 H2].
  split; [by apply vkeyedb_sound|]. split; [by apply vkeyedb_sound|].
  destruct (PatchDefs.apply_patch object p cs) as [[[st o] p']| |]; [|done|done].
  apply andb_true_iff in H3 as [H3 H5]. apply andb_true_iff in H3 as [H3 H4].
  split; [intros ->; done|]. split; [intros ->; done|]. intros ->. cbn in H5. by apply IH.
Qed.

(** the five-operation example of Properties_C16 (PatchSeqAll.five_ops_example): document
    {"a/b":[1,2,{"~k":3}],"c":"x"}, patch add /a~1b/1 {"n":[true]}; test /a~1b/3/~0k 3; move ... to /m~0;
    copy /a~1b to /c; remove /a~1b/0 — and its failing variant — as heaps *)
Definition py_e1 := enc PatchSeqAll.y_doc 1.
Definition py_e2 := enc PatchSeqAll.y_patch (py_e1.2).
Definition py_e3 := enc PatchSeqAll.y_patch_bad (py_e2.2).
Definition py_doc : tree := py_e1.1.1.
Definition py_patches : tree := py_e2.1.1.
Definition py_bad : tree := py_e3.1.1.
Definition py_St : gmap positive bytes := list_to_map (py_e1.1.2 ++ py_e2.1.2 ++ py_e3.1.2).
Definition py_F : forest := F2 [] [py_bad] [] py_doc py_patches.
Definition py_heap : heap := heap_of_forest py_F py_St.
Definition py_run := cJSONUtils_ApplyPatchesCaseSensitive nofail (Some (tid py_doc)) (Some (tid py_patches)) py_heap.
Definition py_run_bad := cJSONUtils_ApplyPatchesCaseSensitive nofail (Some (tid py_doc)) (Some (tid py_bad)) py_heap.

Lemma py_MInv : MInv py_heap py_F.
Proof. apply heap_of_forest_MInv; vm_compute; reflexivity. Qed.
Lemma py_reify : reify (h_str py_heap) py_doc = PatchSeqAll.y_doc /\ reify (h_str py_heap) py_patches = PatchSeqAll.y_patch /\
                 reify (h_str py_heap) py_bad = PatchSeqAll.y_patch_bad.
Proof. vm_compute. done. Qed.

(** the heap-level entry point run on both: status, and the document read back from the heap, against the model *)
Lemma py_runs :
  out_val py_run = Some 0 /\ out_val py_run_bad = Some 1 /\
  (match PatchDefs.cJSONUtils_ApplyPatchesCaseSensitive PatchSeqAll.y_doc PatchSeqAll.y_patch with
   | Ok (st, d, _) => st = 0 /\ out_val (CoreOps.dump_node 50 (Some (tid py_doc)) (out_heap py_run py_heap)) = Some (Some (d, true))
   | _ => False
   end) /\
  (match PatchDefs.cJSONUtils_ApplyPatchesCaseSensitive PatchSeqAll.y_doc PatchSeqAll.y_patch_bad with
   | Ok (st, d, _) => st = 1 /\ out_val (CoreOps.dump_node 50 (Some (tid py_doc)) (out_heap py_run_bad py_heap)) = Some (Some (d, true))
   | _ => False
   end).
Proof. vm_compute. done. Qed.

(** the hypotheses of [c16_heap_conform] hold for the five-operation patch, and its conclusion: status 0, the
    heap-level result document is [doc_same] to the RFC 6902 evaluation, nothing leaks *)
Lemma py_stage6 :
  MInv py_heap py_F /\ NoLeak py_heap py_F /\ run_ok PatchSeqAll.y_doc (Tree.n_children PatchSeqAll.y_patch) true /\
  exists e h' docT arrT,
    Rfc6902.eval PatchSeqAll.y_doc PatchSeqAll.y_ops = Some e /\
    cJSONUtils_ApplyPatchesCaseSensitive nofail (Some (tid py_doc)) (Some (tid py_patches)) py_heap = Ret (0, h') /\
    MInv h' (F2 [] [py_bad] [] docT (put_t py_patches [] arrT)) /\ NoLeak h' (F2 [] [py_bad] [] docT (put_t py_patches [] arrT)) /\
    PatchExact.doc_same (reify (h_str h') docT) e.
Proof.
  destruct PatchSeqAll.five_ops_example as (Hd & Ho & Hw & Hg & Hf & e & d & p' & Ev & _).
  assert (Hrun : run_ok PatchSeqAll.y_doc (Tree.n_children PatchSeqAll.y_patch) true) by (apply run_okb_sound; vm_compute; reflexivity).
  split; [exact py_MInv|]. split; [apply heap_of_forest_NoLeak|]. split; [exact Hrun|].
  destruct py_reify as (R1 & R2 & _).
  assert (Ep : py_patches = T (tid py_patches) (tdata py_patches) (tchildren py_patches)) by (vm_compute; reflexivity).
  assert (Harr : subtree_t py_patches [] = Some (T (tid py_patches) (tdata py_patches) (tchildren py_patches))) by (cbn [subtree_t]; f_equal; exact Ep).
  rewrite Ep in R2.
  destruct (c16_heap_conform py_heap [] [py_bad] py_doc py_patches [] (tid py_patches) (tdata py_patches) (tchildren py_patches)
              PatchSeqAll.y_ops py_MInv Harr) as (st & h' & docT & arrT & Hr & I' & _ & _ & NL & R);
    try (rewrite ?R1, ?R2; assumption).
  rewrite R1, Ev in R. destruct R as (-> & Hs & _ & _).
  exists e, h', docT, arrT. split; [done|]. split; [exact Hr|]. split; [exact I'|]. split; [apply NL, heap_of_forest_NoLeak|exact Hs].
Qed.
