(** Properties_C11.v — property C11: [cJSON_Duplicate] produces an equal, fully independent copy.
    Only statements closed by [exact]; every statement holds for EVERY allocation oracle
    [oracle : nat -> bool] (request number k is refused iff [oracle k = true]), so the two-branch
    statements also serve C08 for duplication.

    Reading guide (definitions in CoreRefineDupBase.v / CoreRefineDupTree.v / Forest.v).
    * [WF h F]: heap [h] encodes the forest [F] of id-labelled trees (Forest.v); [NoLeak h F]: every
      live library block is owned by [F]; [owned F]: node blocks and owned string blocks of [F], as
      [cJSON_Delete] reads the two flag bits (valuestring unless cJSON_IsReference, key unless
      cJSON_StringIsConst); [lib_live h]: the ledger (live blocks obtained from the allocator).
    * [Closed h]: no block with an identity at or above [h_next h] exists — the allocator's
      invariant (true of [empty_heap], kept by every primitive of Heap.v); without it a "fresh"
      identity could collide with an existing block.
    * [src_t h lf k t]: heap [h] READS as the tree [t] from node [tid t], following [child] and
      [next] for [k] levels: this is what the C code does — it follows [item->child] regardless of
      cJSON_IsReference, so below a reference node [t] shows the chain its [child] designates
      (identities in [t] need not be distinct).  Nodes on level [k] are not unrolled (their
      child pointer is kept in [rd_ref]); [complete t]: nothing was cut off.  Every sibling chain
      is shorter than [lf]; valuestrings, and keys without cJSON_StringIsConst, are readable C
      strings.  For a subtree of [F] without borrowed child pointers [src_t] holds of the subtree
      itself ([C11_copy_subtree]).
    * [copy_of h' t tc]: [tc] has the shape of [t]; each node's type is the source's with
      cJSON_IsReference cleared, valueint / valuedouble equal, [rd_ref] cleared, valuestring / key
      blocks hold the source's C string followed by the terminator ([str_copy]) — except a key with
      cJSON_StringIsConst, which is the SAME block.
    * [Ext ns ss h h'] (heap extension): [h'] is [h] plus the new node blocks [ns] and new string blocks [ss]:
      link / data / string entries and liveness of every other identity are equal, ownership tags
      of all identities below [h_next h] are equal, hooks equal, the new blocks have identities
      in [[h_next h, h_next h')], are live and tagged [Lib].  [Ext [] [] h h'] therefore says that
      [h'] differs from [h] only in [h_next], [h_req], [h_trace] and the ownership tags of
      identities that no longer exist ([C11_failure_means]).
    * [ofail oracle h h'] / [oclean oracle h h']: some / no request made between [h] and [h'] was
      refused. *)
From CJ Require Import Base Dbl Heap Forest ForestLemmas CoreSpec CoreDefs CoreRefineBase CoreRefine CoreRefineDelete
  CoreRefineDupBase CoreRefineDupTree CoreRefineDupNode CoreRefineDupLoop CoreRefineDup CoreRefineDupForest
  CoreRefineDupLimit CoreRefineDupIndep CoreRefineDupValue CoreRefineDupUnroll CoreRefineDupExample.
From CJ Require Tree CompareDefs PrintDefs.
From CJ.gen Require Import Constants.
From stdpp Require Import gmap.

(** ------------------------------------------------------------------ 1. the copy *)

(** The recursive duplicate, any oracle, any heap that encodes a forest: the call returns (no
    error outcome: no NULL dereference, no access to a dead block, no read past a terminator, the
    fuel of the entry point suffices) and
    EITHER returns NULL: the heap still encodes [F], every map and the ledger are equal (all blocks
    allocated by the call were released), and — unless the source was cut off at the depth limit —
    some request was refused;
    OR returns a new root [tc]: the heap encodes [F ++ [tc]], [tc] is a copy of what the heap reads
    as below the item, nothing was cut off, everything the old heap contained is untouched
    ([Ext]), the copy's root has no sibling links, the copy owns no block of [F] and all its
    blocks are new, and no request was refused. *)
Theorem C11_copy : forall (oracle : nat -> bool) h F t,
  WF h F -> Closed h -> src_t h (Pos.to_nat (h_next h)) (Z.to_nat c_CJSON_CIRCULAR_LIMIT) t ->
  exists r h',
    cJSON_Duplicate oracle (Some (tid t)) true h = Ret (r, h') /\
    ((r = None /\ WF h' F /\ (NoLeak h F -> NoLeak h' F) /\
      h_lnk h' = h_lnk h /\ h_dat h' = h_dat h /\ h_str h' = h_str h /\ h_live h' = h_live h /\
      h_hooks h' = h_hooks h /\ lib_live h' = lib_live h /\ Closed h' /\ (complete t -> ofail oracle h h')) \/
     (exists tc, r = Some (tid tc) /\ WF h' (F ++ [tc]) /\ (NoLeak h F -> NoLeak h' (F ++ [tc])) /\
        copy_of h' t tc /\ complete t /\
        Ext (nids (flat_t tc)) (sids (flat_t tc)) h h' /\
        h_lnk h' !! tid tc = Some (None, None) /\
        (forall b, b ∈ owned F -> b ∉ owned [tc]) /\
        (forall b, b ∈ owned [tc] -> (h_next h <= b)%positive /\ b ∉ h_live h) /\
        oclean oracle h h')).
Proof. exact dup_copy_src. Qed.
Print Assumptions C11_copy.

(** The same for a node [p] (root or inner) of the forest whose subtree [t] has no borrowed child
    pointers, readable strings and height at most CJSON_CIRCULAR_LIMIT: the source is the subtree. *)
Theorem C11_copy_subtree : forall (oracle : nat -> bool) h F p t,
  WF h F -> Closed h -> find_tree p F = Some t ->
  strs_readable h t -> no_borrowed t -> height t <= Z.to_nat c_CJSON_CIRCULAR_LIMIT ->
  exists r h',
    cJSON_Duplicate oracle (Some p) true h = Ret (r, h') /\
    ((r = None /\ WF h' F /\ (NoLeak h F -> NoLeak h' F) /\
      h_lnk h' = h_lnk h /\ h_dat h' = h_dat h /\ h_str h' = h_str h /\ h_live h' = h_live h /\
      h_hooks h' = h_hooks h /\ lib_live h' = lib_live h /\ Closed h' /\ ofail oracle h h') \/
     (exists tc, r = Some (tid tc) /\ WF h' (F ++ [tc]) /\ (NoLeak h F -> NoLeak h' (F ++ [tc])) /\
        copy_of h' t tc /\
        Ext (nids (flat_t tc)) (sids (flat_t tc)) h h' /\
        h_lnk h' !! tid tc = Some (None, None) /\
        (forall b, b ∈ owned F -> b ∉ owned [tc]) /\
        (forall b, b ∈ owned [tc] -> (h_next h <= b)%positive /\ b ∉ h_live h) /\
        oclean oracle h h')).
Proof. exact dup_copy. Qed.
Print Assumptions C11_copy_subtree.

(** References inside the source become owned copies.  For a forest that contains reference nodes
    with a borrowed child pointer ([rd_ref d = Some c], made by [create_reference] /
    cJSON_CreateArrayReference / cJSON_CreateObjectReference) whose targets are nodes of the forest
    ([refs_in]) and whose strings are readable ([all_readable]): the source of the copy is
    [unroll F limit t] — the subtree [t] in which every such node got as children the chain
    that starts at [c] ([kids]: [c] and its following siblings), recursively, cut off at the depth
    limit — and the copy OWNS copies of these chains ([WF h' (F ++ [tc])] with [tc] of that shape;
    [tc]'s reference bits are cleared and its [rd_ref] are [None]: [copy_of]). *)
Theorem C11_copy_references : forall (oracle : nat -> bool) h F p t,
  WF h F -> Closed h -> refs_in F -> all_readable h F -> find_tree p F = Some t ->
  let u := unroll F (Z.to_nat c_CJSON_CIRCULAR_LIMIT) t in
  exists r h',
    cJSON_Duplicate oracle (Some p) true h = Ret (r, h') /\
    ((r = None /\ WF h' F /\ (NoLeak h F -> NoLeak h' F) /\
      h_lnk h' = h_lnk h /\ h_dat h' = h_dat h /\ h_str h' = h_str h /\ h_live h' = h_live h /\
      h_hooks h' = h_hooks h /\ lib_live h' = lib_live h /\ Closed h' /\ (complete u -> ofail oracle h h')) \/
     (exists tc, r = Some (tid tc) /\ WF h' (F ++ [tc]) /\ (NoLeak h F -> NoLeak h' (F ++ [tc])) /\
        copy_of h' u tc /\ complete u /\
        Ext (nids (flat_t tc)) (sids (flat_t tc)) h h' /\
        h_lnk h' !! tid tc = Some (None, None) /\
        (forall b, b ∈ owned F -> b ∉ owned [tc]) /\
        (forall b, b ∈ owned [tc] -> (h_next h <= b)%positive /\ b ∉ h_live h) /\
        oclean oracle h h')).
Proof. exact dup_copy_ref. Qed.
Print Assumptions C11_copy_references.

(** Without refused requests the copy is made. *)
Theorem C11_copy_no_failure : forall h F p t,
  WF h F -> Closed h -> find_tree p F = Some t ->
  strs_readable h t -> no_borrowed t -> height t <= Z.to_nat c_CJSON_CIRCULAR_LIMIT ->
  exists tc h',
    cJSON_Duplicate (fun _ => false) (Some p) true h = Ret (Some (tid tc), h') /\
    WF h' (F ++ [tc]) /\ (NoLeak h F -> NoLeak h' (F ++ [tc])) /\ copy_of h' t tc.
Proof. exact dup_copy_no_failure. Qed.
Print Assumptions C11_copy_no_failure.

(** The heap-level statement behind the two above, on ANY closed heap (no forest needed):
    [Post] is "NULL, [Ext [] [] h h'], and a refused request unless cut off" or
    "[Some (tid tc)], [Done]": frame, distinct new blocks, encoding of [tc] as a detached tree
    ([Chain_ok h' [tc] None]), [copy_of], [complete], no refused request. *)
Theorem C11_copy_heap : forall (oracle : nat -> bool) h t,
  Closed h -> src_t h (Pos.to_nat (h_next h)) (Z.to_nat c_CJSON_CIRCULAR_LIMIT) t ->
  exists r h', cJSON_Duplicate oracle (Some (tid t)) true h = Ret (r, h') /\ Post oracle h t r h'.
Proof. exact cJSON_Duplicate_sim. Qed.
Print Assumptions C11_copy_heap.

(** The non-recursive duplicate copies the node alone: a new root without children whose data is
    a copy of the item's ([data_copy]); or NULL with the heap as before and a refused request. *)
Theorem C11_copy_flat : forall (oracle : nat -> bool) h i d (ks : list positive),
  Closed h -> src_node h (Pos.to_nat (h_next h)) i d ks ->
  exists r h',
    cJSON_Duplicate oracle (Some i) false h = Ret (r, h') /\
    ((r = None /\ Ext [] [] h h' /\ ofail oracle h h') \/
     (exists d2, r = Some (h_next h) /\
        Ext (nids (flat_t (T (h_next h) d2 []))) (sids (flat_t (T (h_next h) d2 []))) h h' /\
        NoDup (nids (flat_t (T (h_next h) d2 [])) ++ sids (flat_t (T (h_next h) d2 []))) /\
        Chain_ok h' [T (h_next h) d2 []] None /\ Forall ref_ok (flat_t (T (h_next h) d2 [])) /\
        data_copy h' d d2 /\ oclean oracle h h')).
Proof. exact cJSON_Duplicate_flat_sim. Qed.
Print Assumptions C11_copy_flat.

Theorem C11_copy_null : forall (oracle : nat -> bool) recurse h,
  cJSON_Duplicate oracle None recurse h = Ret (None, h).
Proof. exact cJSON_Duplicate_null. Qed.

(** What a failed call leaves: everything but the allocator's counters and the trace. *)
Theorem C11_failure_means : forall h h',
  Ext [] [] h h' ->
  h_lnk h' = h_lnk h /\ h_dat h' = h_dat h /\ h_str h' = h_str h /\ h_live h' = h_live h /\
  h_hooks h' = h_hooks h /\ lib_live h' = lib_live h.
Proof. exact Ext_nil_eq. Qed.
Print Assumptions C11_failure_means.

(** What a successful call leaves of the old heap: every block that was live. *)
Theorem C11_source_unchanged : forall ns ss h h' k,
  Ext ns ss h h' -> k ∈ h_live h ->
  h_lnk h' !! k = h_lnk h !! k /\ h_dat h' !! k = h_dat h !! k /\ h_str h' !! k = h_str h !! k /\
  h_own h' !! k = h_own h !! k /\ k ∈ h_live h'.
Proof. exact Ext_preserves. Qed.
Print Assumptions C11_source_unchanged.

(** The keys of the extended forest are readable C strings again (what the by-key queries need),
    provided the shared constant keys of the source are. *)
Theorem C11_keys_readable : forall h h' F t tc,
  KeysReadable h F -> Ext (nids (flat_t tc)) (sids (flat_t tc)) h h' -> copy_of h' t tc ->
  (forall i d (ks : list positive) b, (i, d, ks) ∈ flat_t t -> rd_key d = Some b -> is_const d = true -> readable h' b) ->
  KeysReadable h' (F ++ [tc]).
Proof. exact Done_KeysReadable. Qed.
Print Assumptions C11_keys_readable.

(** ------------------------------------------------------------------ 2. equal values *)

(** Reified as values (the fields of every node, strings read from the string blocks), the copy
    is the source with the cJSON_IsReference bits cleared. *)
Theorem C11_value_equal : forall h t tc,
  copy_of h t tc -> reify (h_str h) tc = clear_refs (reify (h_str h) t).
Proof. exact copy_reify. Qed.
Print Assumptions C11_value_equal.

(** Hence [cJSON_Compare] of source and copy is true, in both orders and both case modes, for
    JSON values without NaN (a NaN is not equal to itself for cJSON_Compare: C12). *)
Theorem C11_compare_equal : forall cs a,
  CompareDefs.cmp_wf cs a -> CompareDefs.json_shape a -> CompareDefs.no_nan a ->
  CompareDefs.cJSON_Compare (Some a) (Some (clear_refs a)) false cs = Some true /\
  CompareDefs.cJSON_Compare (Some (clear_refs a)) (Some a) false cs = Some true.
Proof. exact dup_compare_equal. Qed.
Print Assumptions C11_compare_equal.

(** … and both print to the same text (any C library, both formats, any depth). *)
Theorem C11_render_equal : forall fmt_d fmt_g15 fmt_g17 sscanf_lg fmt n depth,
  PrintDefs.render fmt_d fmt_g15 fmt_g17 sscanf_lg fmt depth (clear_refs n) =
  PrintDefs.render fmt_d fmt_g15 fmt_g17 sscanf_lg fmt depth n.
Proof. exact render_clear_refs. Qed.
Print Assumptions C11_render_equal.

(** ------------------------------------------------------------------ 3. independence *)

(** The entries of the copy in the canonical maps do not depend on the rest of the forest: after
    ANY later history on the other trees (every simulation lemma re-establishes [WF h2 (F2 ++ [tc])])
    the copy's nodes are encoded exactly as they were. *)
Theorem C11_copy_independent : forall h' h2 F F2 tc k,
  WF h' (F ++ [tc]) -> WF h2 (F2 ++ [tc]) -> k ∈ ids_t tc ->
  h_lnk h2 !! k = h_lnk h' !! k /\ h_dat h2 !! k = h_dat h' !! k.
Proof. exact copy_nodes_independent. Qed.
Print Assumptions C11_copy_independent.

(** … and symmetrically: whatever becomes of the copy ([tc2]), the old forest's nodes are encoded
    as in the heap before the call. *)
Theorem C11_source_independent : forall h h2 F tc2 k,
  WF h F -> WF h2 (F ++ [tc2]) -> k ∈ ids F ->
  h_lnk h2 !! k = h_lnk h !! k /\ h_dat h2 !! k = h_dat h !! k.
Proof. exact forest_nodes_independent. Qed.
Print Assumptions C11_source_independent.

(** Deleting the copy gives the heap before the call back (up to the allocator's counters): the
    ledger is balanced. *)
Theorem C11_delete_copy : forall h h' F tc,
  WF h F -> Ext (nids (flat_t tc)) (sids (flat_t tc)) h h' ->
  NoDup (nids (flat_t tc) ++ sids (flat_t tc)) -> Chain_ok h' [tc] None -> Forall ref_ok (flat_t tc) ->
  exists h'', cJSON_Delete (Some (tid tc)) h' = Ret (tt, h'') /\ Ext [] [] h h'' /\ WF h'' F /\
    lib_live h'' = lib_live h.
Proof. exact dup_then_delete_copy. Qed.
Print Assumptions C11_delete_copy.

(** Deleting the source (a root of the forest) leaves every block of the copy as it is. *)
Theorem C11_delete_source : forall h h' F tc,
  WF h F -> Ext (nids (flat_t tc)) (sids (flat_t tc)) h h' ->
  NoDup (nids (flat_t tc) ++ sids (flat_t tc)) -> Chain_ok h' [tc] None -> Forall ref_ok (flat_t tc) ->
  forall p t, find_root p F = Some t ->
  exists h'', cJSON_Delete (Some p) h' = Ret (tt, h'') /\ WF h'' (remove_root p F ++ [tc]) /\
    forall b, b ∈ owned [tc] ->
      b ∈ h_live h'' /\ h_lnk h'' !! b = h_lnk h' !! b /\ h_dat h'' !! b = h_dat h' !! b /\
      h_str h'' !! b = h_str h' !! b.
Proof. exact dup_then_delete_source. Qed.
Print Assumptions C11_delete_source.

(** ------------------------------------------------------------------ 4. the depth limit *)

(** On ANY closed heap in which the nodes reachable from the item are readable and every [next]
    chain is finite ([Walkable]: the [child] graph is arbitrary — over-deep, shared or cyclic): the
    call terminates without error outcome (never [Err NoFuel]); if a descending path of more than
    CJSON_CIRCULAR_LIMIT child steps exists below the item ([deep]) the result is NULL; whenever the
    result is NULL the heap is as before ([Ext [] []]: everything allocated was released, the
    source untouched); otherwise a copy was made ([Done]). *)
Theorem C11_limit : forall (oracle : nat -> bool) h (R : positive -> Prop) p,
  Closed h -> Walkable h R -> R p ->
  exists r h',
    cJSON_Duplicate oracle (Some p) true h = Ret (r, h') /\
    (deep h (Z.to_nat c_CJSON_CIRCULAR_LIMIT) p -> r = None) /\
    (r = None -> Ext [] [] h h') /\
    (forall c, r = Some c ->
       exists t tc, tid t = p /\ tid tc = c /\
                    src_t h (Pos.to_nat (h_next h)) (Z.to_nat c_CJSON_CIRCULAR_LIMIT) t /\
                    Done oracle h t tc h').
Proof. exact dup_limit. Qed.
Print Assumptions C11_limit.

(** In particular a well-formed tree higher than the limit is refused: NULL, heap as before. *)
Theorem C11_too_deep : forall (oracle : nat -> bool) h F p t,
  WF h F -> Closed h -> refs_in F -> all_readable h F -> find_tree p F = Some t ->
  Z.to_nat c_CJSON_CIRCULAR_LIMIT < height t ->
  exists h',
    cJSON_Duplicate oracle (Some p) true h = Ret (None, h') /\ WF h' F /\ (NoLeak h F -> NoLeak h' F) /\
    h_lnk h' = h_lnk h /\ h_dat h' = h_dat h /\ h_str h' = h_str h /\ h_live h' = h_live h /\
    h_hooks h' = h_hooks h /\ lib_live h' = lib_live h /\ Closed h'.
Proof. exact dup_too_deep. Qed.
Print Assumptions C11_too_deep.

(** ------------------------------------------------------------------ 5. non-vacuity *)

(** [ex_h] is built by running the constructors: an object with an owned key and owned string, a
    constant key, a string reference and an array reference into another array.  It satisfies the
    hypotheses of [C11_copy] … *)
Theorem C11_example_built :
  ex_build empty_heap = Ret (Some 6%positive, Some 13%positive, Some 14%positive, ex_h).
Proof. exact ex_run_ok. Qed.
Theorem C11_example_hypotheses :
  WF ex_h ex_F /\ NoLeak ex_h ex_F /\ Closed ex_h /\
  src_t ex_h (Pos.to_nat (h_next ex_h)) (Z.to_nat c_CJSON_CIRCULAR_LIMIT) ex_t /\ complete ex_t.
Proof. exact (conj ex_WF (conj ex_NoLeak (conj ex_closed (conj ex_src ex_complete)))). Qed.
Print Assumptions C11_example_hypotheses.

(** … the success branch is taken when nothing is refused (the children of the array reference
    are copied: [ex_t] has the array's element below node 15) … *)
Theorem C11_example_success :
  exists tc h',
    cJSON_Duplicate orc0 (Some 6%positive) true ex_h = Ret (Some (tid tc), h') /\
    WF h' (ex_F ++ [tc]) /\ NoLeak h' (ex_F ++ [tc]) /\ copy_of h' ex_t tc /\
    (forall b, b ∈ owned ex_F -> b ∉ owned [tc]).
Proof. exact ex_success. Qed.
Print Assumptions C11_example_success.

(** … also through [C11_copy_references]: [ex_F], [ex_h] satisfy [refs_in] and [all_readable], and
    the unrolling of the object is [ex_t]. *)
Theorem C11_example_references :
  refs_in ex_F /\ all_readable ex_h ex_F /\ find_tree 6%positive ex_F = Some ex_t0 /\
  unroll ex_F (Z.to_nat c_CJSON_CIRCULAR_LIMIT) ex_t0 = ex_t /\
  exists tc h',
    cJSON_Duplicate orc0 (Some 6%positive) true ex_h = Ret (Some (tid tc), h') /\
    WF h' (ex_F ++ [tc]) /\ copy_of h' ex_t tc.
Proof. exact (conj ex_refs_in (conj ex_all_readable (conj ex_find (conj ex_unroll ex_success_ref)))). Qed.
Print Assumptions C11_example_references.

(** … and the failure branch when the third request of the call is refused. *)
Theorem C11_example_failure :
  exists h',
    cJSON_Duplicate orc3 (Some 6%positive) true ex_h = Ret (None, h') /\
    WF h' ex_F /\ NoLeak h' ex_F /\
    h_lnk h' = h_lnk ex_h /\ h_dat h' = h_dat ex_h /\ h_str h' = h_str ex_h /\ h_live h' = h_live ex_h /\
    lib_live h' = lib_live ex_h.
Proof. exact ex_failure. Qed.
Print Assumptions C11_example_failure.

(** A node that is its own child, and a 2-cycle: refused with NULL for every oracle, heap as before. *)
Theorem C11_example_self_loop : forall oracle,
  exists h', cJSON_Duplicate oracle (Some 1%positive) true loop_h = Ret (None, h') /\ Ext [] [] loop_h h'.
Proof. exact loop_refused. Qed.
Theorem C11_example_two_cycle : forall oracle,
  exists h', cJSON_Duplicate oracle (Some 1%positive) true cyc2_h = Ret (None, h') /\ Ext [] [] cyc2_h h'.
Proof. exact cyc2_refused. Qed.
Print Assumptions C11_example_two_cycle.
