#!/bin/sh
# try_seed.sh <seed-dir-name> <property-id> [tier]  — apply a seeded change to /repo, run the check, undo it
d=/verif/seeded/$1
git -C /repo apply $d/patch.diff || { echo "patch does not apply"; exit 2; }
cd /verif && python3 tools/check.py $2 --tier ${3:-quick}; rc=$?
git -C /repo checkout -- .
echo "seed=$1 property=$2 exit=$rc"
