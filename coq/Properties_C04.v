(** Properties_C04.v — property C04: printing then parsing returns the same value, and
    printing is stable.  Only statements closed by [exact]; proofs live in RoundTripNum.v,
    RoundTrip.v, RoundTripEvidence.v (and PrintStrict.v, ParseComplete*.v which they compose).

    Reading guide.
    * [render fmt depth n] (PrintDefs.v) is the text the print functions produce for the tree n
      ([fmt] = formatted); [text_l strtod txt rnt] (ParseSpec.v) is the list-level
      specification of the parser that ParseRefine.v proves the transliterated C code computes:
      [Some (tree, unconsumed rest)].
    * Hypotheses on the tree: [printable n] (PrintStrict.v: masked types NULL / False / True /
      Number / String / Array / Object, valueint a C int, valuedouble a well-formed double,
      string and name bytes in 0..255), [rt_ok n] (RoundTrip.v: numbers finite with
      valueint = (int) valuedouble saturated, valuestring and member names not NULL),
      [cdepth n <= nesting_limit] (containers nest at most CJSON_NESTING_LIMIT deep).
    * [reparsed strtod ... n] is the tree the parser returns for the text of n; [same_shape n n']
      (RoundTrip.v): identical masked types, children in the same order, same member names,
      same string bytes (C strings, [str_bytes]), every number of n' compare_double-equal
      (relative 2^-52) to the one of n and == to it when that is an integer of magnitude
      below 10^15 ([int15]), valueint of n' the saturated truncation of its valuedouble.
    * The C library enters through hypotheses, never axioms: [strtod_rfc] (an RFC 8259 number
      literal of at most 63 bytes is converted completely), [strtod_ok] (a conversion consumes a
      non-empty prefix), [LibcStrictSpec] (PrintStrict.v: sprintf outputs are RFC 8259 numbers
      that fit the 26-byte scratch buffer) and [LibcRoundTripSpec] (RoundTripNum.v, clause by
      clause: S sscanf = strtod; V strtod returns well-formed doubles; N2 "%d" reads back as
      (double) int; N3 17 digits read back exactly; N4 15 digits survive double -> text ->
      double -> text; N4z no underflow to a zero that compare_double accepts (true of every
      library: Properties_C04_Reals.v); N5a "%1.15g" of an int-valued double is the "%d" text;
      N5b integers below 10^15 read back exactly from "%1.15g").  Clauses S and N2 (here) and V
      (Properties_C04_Reals.v) are proved for the executable reference implementations; all
      clauses are evaluated on a table of boundary doubles in RoundTripEvidence.v (tests); all
      clauses together are proved for an artificial library in RoundTripModel.v (joint
      satisfiability). *)
From CJ Require Import Base Dbl Tree LibcNum LibcPrint Grammar ParseDefs ParseSpec ParseComplete
  ParseListStrtod PrintDefs PrintStrict RoundTripNum RoundTripInt RoundTrip RoundTripPrint RoundTripRef
  RoundTripModel RoundTripEvidence.
Local Open Scope Z_scope.

(** * One number through print_number and parse_number *)

(** For a finite double d with valueint = (int) d saturated: the text print_number chooses
    (the %d / %1.15g-read-back-and-compared / %1.17g decision) is converted back by strtod to a
    finite double d' with compare_double d' d, d' == d when d is an integer below 10^15, and
    print_number chooses the very same text for d' (with its own valueint) again. *)
Theorem C04_number : forall strtod fmt_d fmt_g15 fmt_g17 sscanf_lg,
  LibcRoundTripSpec strtod fmt_d fmt_g15 fmt_g17 sscanf_lg ->
  forall vi d, is_finite d = true -> dbl_ok d -> vi = sat_int d ->
  let d' := read_back strtod (number_text fmt_d fmt_g15 fmt_g17 sscanf_lg vi d) in
  is_finite d' = true /\ dbl_ok d' /\
  compare_double d' d = true /\
  (int15 d -> deq d' d = true) /\
  number_text fmt_d fmt_g15 fmt_g17 sscanf_lg (sat_int d') d' = number_text fmt_d fmt_g15 fmt_g17 sscanf_lg vi d.
Proof. exact number_roundtrip. Qed.
Print Assumptions C04_number.

(** the saturating conversion of a well-formed double is a C int (so valueint of a re-parsed
    number is one) *)
Theorem C04_sat_int_range : forall d, dbl_ok d -> int_range (sat_int d) = true.
Proof. exact sat_int_range. Qed.
Print Assumptions C04_sat_int_range.

(** (double) z of an integer below 2^53 is exact: a well-formed finite double that truncates
    back to z (closed form of SpecFloat's binary_normalize, no real numbers involved) *)
Theorem C04_dbl_of_int_exact : forall z, Z.abs z < 2 ^ 53 ->
  valid_dbl (dbl_of_int z) = true /\ is_finite (dbl_of_int z) = true /\ trunc_dbl (dbl_of_int z) = z.
Proof. exact dbl_of_int_exact. Qed.
Print Assumptions C04_dbl_of_int_exact.

(** (int) (double) z = z for every C int, through the saturating conversion of parse_number /
    cJSON_SetNumberHelper: a tree built with an int value satisfies valueint = sat_int valuedouble *)
Theorem C04_sat_int_of_int : forall z, int_range z = true -> sat_int (dbl_of_int z) = z.
Proof. exact sat_int_of_int. Qed.
Print Assumptions C04_sat_int_of_int.

(** * Print, then parse *)

(** The text printed for n, formatted or not, is accepted by the parser; the parse ends at the
    last byte of the text — in an exact-length buffer, before anything that cannot continue a
    number, at a terminating zero with or without required termination; the tree is the same
    in all cases and for both formats ([reparsed n]), and it has the shape of n. *)
Theorem C04_roundtrip : forall strtod fmt_d fmt_g15 fmt_g17 sscanf_lg,
  strtod_rfc strtod -> LibcStrictSpec fmt_d fmt_g15 fmt_g17 ->
  LibcRoundTripSpec strtod fmt_d fmt_g15 fmt_g17 sscanf_lg ->
  forall n, printable n = true -> rt_ok n = true -> (cdepth n <= nesting_limit)%nat ->
  forall fmt, exists txt t',
    render fmt_d fmt_g15 fmt_g17 sscanf_lg fmt 0 n = Some txt /\
    text_l strtod txt false = Some (t', []) /\
    (forall tail, nonnum_start tail -> text_l strtod (txt ++ tail) false = Some (t', tail)) /\
    (forall r rnt, text_l strtod (txt ++ 0 :: r) rnt = Some (t', 0 :: r)) /\
    t' = reparsed strtod fmt_d fmt_g15 fmt_g17 sscanf_lg n /\ same_shape n t'.
Proof. exact roundtrip_value. Qed.
Print Assumptions C04_roundtrip.

(** the shape statement by itself *)
Theorem C04_same_shape : forall strtod fmt_d fmt_g15 fmt_g17 sscanf_lg,
  LibcRoundTripSpec strtod fmt_d fmt_g15 fmt_g17 sscanf_lg ->
  forall n, printable n = true -> rt_ok n = true ->
  same_shape n (reparsed strtod fmt_d fmt_g15 fmt_g17 sscanf_lg n).
Proof. exact reparsed_same_shape. Qed.
Print Assumptions C04_same_shape.

(** The same at the entry points of the transliterated parser (ParseDefs.v): cJSON_Parse,
    cJSON_ParseWithOpts, cJSON_ParseWithLength and cJSON_ParseWithLengthOpts, on the printed
    text in an exact-length or zero-terminated buffer, with and without required termination,
    whatever the memory holds [beyond]: all return [reparsed n], which has the shape of n and
    prints (either format, any depth) to the bytes n prints to. *)
Theorem C04_roundtrip_entry_points : forall strtod fmt_d fmt_g15 fmt_g17 sscanf_lg,
  strtod_rfc strtod -> LibcStrictSpec fmt_d fmt_g15 fmt_g17 ->
  LibcRoundTripSpec strtod fmt_d fmt_g15 fmt_g17 sscanf_lg ->
  forall n, printable n = true -> rt_ok n = true -> (cdepth n <= nesting_limit)%nat ->
  forall fmt, strtod_ok strtod ->
  exists txt, render fmt_d fmt_g15 fmt_g17 sscanf_lg fmt 0 n = Some txt /\
  forall beyond rnt, exists r1 r2 r3 r4 r5,
    cJSON_Parse strtod never_fails (txt ++ 0 :: beyond) = Ok r1 /\
    cJSON_ParseWithOpts strtod never_fails (txt ++ 0 :: beyond) rnt = Ok r2 /\
    cJSON_ParseWithLength strtod never_fails (txt ++ beyond) (length txt) = Ok r3 /\
    cJSON_ParseWithLength strtod never_fails (txt ++ 0 :: beyond) (length txt + 1) = Ok r4 /\
    cJSON_ParseWithLengthOpts strtod never_fails (txt ++ 0 :: beyond) (length txt + 1) rnt = Ok r5 /\
    pr_tree r1 = Some (reparsed strtod fmt_d fmt_g15 fmt_g17 sscanf_lg n) /\
    pr_tree r2 = Some (reparsed strtod fmt_d fmt_g15 fmt_g17 sscanf_lg n) /\
    pr_tree r3 = Some (reparsed strtod fmt_d fmt_g15 fmt_g17 sscanf_lg n) /\
    pr_tree r4 = Some (reparsed strtod fmt_d fmt_g15 fmt_g17 sscanf_lg n) /\
    pr_tree r5 = Some (reparsed strtod fmt_d fmt_g15 fmt_g17 sscanf_lg n) /\
    same_shape n (reparsed strtod fmt_d fmt_g15 fmt_g17 sscanf_lg n) /\
    (forall fmt2 depth,
       render fmt_d fmt_g15 fmt_g17 sscanf_lg fmt2 depth (reparsed strtod fmt_d fmt_g15 fmt_g17 sscanf_lg n) =
       render fmt_d fmt_g15 fmt_g17 sscanf_lg fmt2 depth n).
Proof. exact roundtrip_entry_points. Qed.
Print Assumptions C04_roundtrip_entry_points.

(** * Printing is a fixed point *)

(** Printing the re-parsed tree gives byte-identical text — in either format, whichever
    format the parsed text had — and parsing that text returns the very same tree again. *)
Theorem C04_fixed_point : forall strtod fmt_d fmt_g15 fmt_g17 sscanf_lg,
  strtod_rfc strtod -> LibcStrictSpec fmt_d fmt_g15 fmt_g17 ->
  LibcRoundTripSpec strtod fmt_d fmt_g15 fmt_g17 sscanf_lg ->
  forall n, printable n = true -> rt_ok n = true -> (cdepth n <= nesting_limit)%nat ->
  forall fmt fmt2, exists txt t',
    render fmt_d fmt_g15 fmt_g17 sscanf_lg fmt 0 n = Some txt /\
    text_l strtod txt false = Some (t', []) /\
    render fmt_d fmt_g15 fmt_g17 sscanf_lg fmt2 0 t' = render fmt_d fmt_g15 fmt_g17 sscanf_lg fmt2 0 n /\
    (forall txt2, render fmt_d fmt_g15 fmt_g17 sscanf_lg fmt2 0 t' = Some txt2 ->
                  text_l strtod txt2 false = Some (t', [])).
Proof. exact print_fixed_point. Qed.
Print Assumptions C04_fixed_point.

(** at every print depth (the re-parsed tree may be a subtree of a larger document) *)
Theorem C04_fixed_point_render : forall strtod fmt_d fmt_g15 fmt_g17 sscanf_lg,
  LibcRoundTripSpec strtod fmt_d fmt_g15 fmt_g17 sscanf_lg ->
  forall n, printable n = true -> rt_ok n = true ->
  forall fmt depth,
    render fmt_d fmt_g15 fmt_g17 sscanf_lg fmt depth (reparsed strtod fmt_d fmt_g15 fmt_g17 sscanf_lg n) =
    render fmt_d fmt_g15 fmt_g17 sscanf_lg fmt depth n.
Proof. exact reparsed_render. Qed.
Print Assumptions C04_fixed_point_render.

(** on trees: a second print / parse cycle changes nothing *)
Theorem C04_fixed_point_tree : forall strtod fmt_d fmt_g15 fmt_g17 sscanf_lg,
  LibcRoundTripSpec strtod fmt_d fmt_g15 fmt_g17 sscanf_lg ->
  forall n, printable n = true -> rt_ok n = true ->
  reparsed strtod fmt_d fmt_g15 fmt_g17 sscanf_lg (reparsed strtod fmt_d fmt_g15 fmt_g17 sscanf_lg n) =
  reparsed strtod fmt_d fmt_g15 fmt_g17 sscanf_lg n.
Proof. exact reparsed_idempotent. Qed.
Print Assumptions C04_fixed_point_tree.

(** the re-parsed tree satisfies the tree hypotheses again, with the same nesting depth: the
    theorems apply to it (trees that came from the parser), the cycle can be repeated *)
Theorem C04_reparsed_hyps : forall strtod fmt_d fmt_g15 fmt_g17 sscanf_lg,
  LibcRoundTripSpec strtod fmt_d fmt_g15 fmt_g17 sscanf_lg ->
  forall n, printable n = true -> rt_ok n = true ->
  printable (reparsed strtod fmt_d fmt_g15 fmt_g17 sscanf_lg n) = true /\
  rt_ok (reparsed strtod fmt_d fmt_g15 fmt_g17 sscanf_lg n) = true /\
  cdepth (reparsed strtod fmt_d fmt_g15 fmt_g17 sscanf_lg n) = cdepth n.
Proof. exact reparsed_hyps. Qed.
Print Assumptions C04_reparsed_hyps.

(** * The buffer-level print entry points (printer refinement, PrintProofs.v) *)

(** [fields_ok n] (PrintDefs.v): every node carries a C int and a well-formed double.
    [no_failure]: no allocation request fails.  [hr]: the allocator offers realloc.  [junk]: the
    contents of freshly allocated memory.  The returned bytes do not depend on any of them, nor
    on the prebuffer size, nor on the caller's buffer: cJSON_Print / cJSON_PrintUnformatted
    ([print]) return exactly the rendered text and its terminator, cJSON_PrintBuffered a block
    that starts with them, cJSON_PrintPreallocated fills the caller's buffer with them (for
    every buffer of at least length + 2 bytes, whatever the allocator would do). *)
Theorem C04_buffer_independent : forall fmt_d fmt_g15 fmt_g17 sscanf_lg,
  LibcPrintSpec fmt_d fmt_g15 fmt_g17 ->
  forall n fmt txt,
  fields_ok n = true -> render fmt_d fmt_g15 fmt_g17 sscanf_lg fmt 0 n = Some txt -> zlen txt + 2 <= c_INT_MAX ->
  (forall hr junk, exists r,
      print fmt_d fmt_g15 fmt_g17 sscanf_lg no_failure junk n fmt hr = Ok r /\ prr_block r = Some (txt ++ [0])) /\
  (forall hr junk prebuffer, 0 <= prebuffer -> exists r rest,
      cJSON_PrintBuffered fmt_d fmt_g15 fmt_g17 sscanf_lg no_failure junk n prebuffer fmt hr = Ok r /\
      prr_block r = Some (txt ++ 0 :: rest)) /\
  (forall hr junk oracle buf, zlen txt + 2 <= zlen buf -> zlen buf <= c_INT_MAX -> exists r rest,
      cJSON_PrintPreallocated fmt_d fmt_g15 fmt_g17 sscanf_lg oracle junk n (Some buf) (zlen buf) fmt hr = Ok r /\
      par_flag r = true /\ par_buffer r = Some (txt ++ 0 :: rest) /\
      zlen (txt ++ 0 :: rest) = zlen buf).
Proof. exact buffer_independent. Qed.
Print Assumptions C04_buffer_independent.

(** End to end on the transliterated code: print (any allocator configuration, any fresh-memory
    contents), cJSON_Parse on the returned block, print again (any configuration): the tree in
    the middle has the shape of the original and the two blocks are byte-identical. *)
Theorem C04_print_parse_print : forall strtod fmt_d fmt_g15 fmt_g17 sscanf_lg,
  strtod_ok strtod -> strtod_rfc strtod -> LibcStrictSpec fmt_d fmt_g15 fmt_g17 ->
  LibcRoundTripSpec strtod fmt_d fmt_g15 fmt_g17 sscanf_lg ->
  forall n fmt,
  printable n = true -> rt_ok n = true -> (cdepth n <= nesting_limit)%nat -> fields_ok n = true ->
  (forall txt, render fmt_d fmt_g15 fmt_g17 sscanf_lg fmt 0 n = Some txt -> zlen txt + 2 <= c_INT_MAX) ->
  exists txt, render fmt_d fmt_g15 fmt_g17 sscanf_lg fmt 0 n = Some txt /\
  forall hr junk, exists r pr,
    print fmt_d fmt_g15 fmt_g17 sscanf_lg no_failure junk n fmt hr = Ok r /\ prr_block r = Some (txt ++ [0]) /\
    cJSON_Parse strtod never_fails (txt ++ [0]) = Ok pr /\
    pr_tree pr = Some (reparsed strtod fmt_d fmt_g15 fmt_g17 sscanf_lg n) /\
    same_shape n (reparsed strtod fmt_d fmt_g15 fmt_g17 sscanf_lg n) /\
    forall hr2 junk2, exists r2,
      print fmt_d fmt_g15 fmt_g17 sscanf_lg no_failure junk2 (reparsed strtod fmt_d fmt_g15 fmt_g17 sscanf_lg n) fmt hr2 = Ok r2 /\
      prr_block r2 = Some (txt ++ [0]).
Proof. exact print_parse_print. Qed.
Print Assumptions C04_print_parse_print.

(** * The contract and the reference implementations *)

(** clause S holds for the executable reference implementations (sscanf_lg is strtod_ref) *)
Theorem C04_ref_scan : forall t d, sscanf_lg t = Some d <-> exists k, strtod_ref t = Some (d, k).
Proof. exact ref_scan. Qed.
Print Assumptions C04_ref_scan.

(** clause N2 holds for the executable reference implementations, with the consumed length:
    strtod_ref reads the "%d" text of a C int completely, as exactly (double) of that int *)
Theorem C04_ref_d : forall z, int_range z = true ->
  strtod_ref (fmt_d z) = Some (dbl_of_int z, length (fmt_d z)).
Proof. exact ref_d. Qed.
Print Assumptions C04_ref_d.

(** clause V holds for the reference strtod, and clause N4z for every library: see
    Properties_C04_Reals.v ([C04_ref_valid], [C04_compare_double_zero],
    [C04_contract_from_libc_clauses]) — proved with Flocq, hence depending on the standard axioms
    of Coq's Reals library; they are stated there and not here because tools/check.py currently
    reads the header line of a non-empty [Print Assumptions] answer as an axiom name. *)

(** TEST (vm_compute, not a proof of the clauses): the whole cycle of [C04_number] evaluated
    with the reference implementations on the table of boundary doubles of RoundTripEvidence.v
    (0, -0, 0.1, 1/3, 1e15, 1e16, DBL_MAX, DBL_MIN, 5e-324, 2^53+2, 1e21..1e23, INT_MAX, ...) *)
Theorem C04_number_cycle_test : forallb chk_number table = true.
Proof. exact test_number_cycle. Qed.
Print Assumptions C04_number_cycle_test.

(** The four contracts are jointly satisfiable: RoundTripModel.v builds a small artificial C
    library (reference "%d"; "%g" prints int-valued doubles like "%d" and any other finite double
    as an RFC 8259 number spelling out sign, mantissa and exponent; strtod reads both back) and
    proves every clause for it — so the theorems above are not vacuous for lack of a C library.
    (The real evidence that glibc satisfies the clauses is the evaluation of the reference
    implementations on the table, and their comparison with glibc by the correspondence check.) *)
Theorem C04_contracts_satisfiable :
  exists strtod fmt_d fmt_g15 fmt_g17 sscanf_lg,
    strtod_ok strtod /\ strtod_rfc strtod /\ LibcStrictSpec fmt_d fmt_g15 fmt_g17 /\
    LibcRoundTripSpec strtod fmt_d fmt_g15 fmt_g17 sscanf_lg.
Proof. exact contracts_satisfiable. Qed.
Print Assumptions C04_contracts_satisfiable.

(** * F3: the pinned tree's tolerance comparison *)

(** With compare_double as it was in the pinned tree (no guard for non-finite operands)
    print_number accepted 1.79769313486232e+308 as the text of DBL_MAX, which reads back as
    +infinity (not compare_double-equal, and printed as null the next time); with the current
    comparison the 17-digit text is chosen and reads back exactly.  Evaluated with the
    reference implementations. *)
Theorem C04_roundtrip_number_refuted_pinned :
  exists d, is_finite d = true /\ valid_dbl d = true /\
    read_back strtod_ref (number_text_pinned (sat_int d) d) = S754_infinity false /\
    compare_double (read_back strtod_ref (number_text_pinned (sat_int d) d)) d = false /\
    read_back strtod_ref (number_text fmt_d fmt_g15 fmt_g17 sscanf_lg (sat_int d) d) = d.
Proof. exact roundtrip_number_refuted_pinned. Qed.
Print Assumptions C04_roundtrip_number_refuted_pinned.

(** * Non-vacuity *)

(** the tree hypotheses hold for the nested example [ex_tree] (objects, arrays, duplicate and
    empty names, escapes, bytes above 127, -0.0, DBL_MAX, 5e-324, 1e15, 2^31, flags), and the
    two parser contracts hold for the reference strtod *)
Theorem C04_nonvacuous_tree :
  printable ex_tree = true /\ rt_ok ex_tree = true /\ (cdepth ex_tree <= nesting_limit)%nat /\
  cdepth ex_tree = 4%nat /\ strtod_ok strtod_ref /\ strtod_rfc strtod_ref.
Proof. exact roundtrip_nonvacuous_tree. Qed.
Print Assumptions C04_nonvacuous_tree.

(** ... and so do the additional hypotheses of the buffer-level theorems *)
Theorem C04_nonvacuous_fields :
  fields_ok ex_tree = true /\
  forall fmt txt, ref_render fmt 0 ex_tree = Some txt -> zlen txt + 2 <= c_INT_MAX.
Proof. exact roundtrip_nonvacuous_fields. Qed.
Print Assumptions C04_nonvacuous_fields.

(** TEST: the conclusions of [C04_roundtrip] and [C04_fixed_point] evaluated on the example
    with the reference C library (the libc contract itself is not proved for it) *)
Theorem C04_example_cycle_test :
  forall fmt, exists txt t',
    ref_render fmt 0 ex_tree = Some txt /\
    text_l strtod_ref txt false = Some (t', []) /\
    text_l strtod_ref (txt ++ [0]) true = Some (t', [0]) /\
    t' = ref_reparsed ex_tree /\ same_shape_b ex_tree t' = true /\
    ref_render true 0 t' = ref_render true 0 ex_tree /\
    ref_render false 0 t' = ref_render false 0 ex_tree.
Proof. exact test_roundtrip_example. Qed.
Print Assumptions C04_example_cycle_test.
