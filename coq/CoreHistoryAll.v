(** CoreHistoryAll.v — THE FULL HISTORY THEOREM of properties C06 / C07.

    * [op3]: the public edit/query API of cJSON's tree interface as an operation alphabet
      (extends [CoreRefineHistoryObj.op2]); [run_op3]: the transliterated code (CoreDefs.v) of
      each call, run with the allocator that never refuses ([nv]);
    * [spec_step3]: the ordered-list model of each call on the abstract state [astate2] (forest
      of id-labelled trees, allocator counters, string heap, set of caller-owned blocks);
      composite calls (the cJSON_Add…ToObject helpers, cJSON_AddItemReferenceTo…) are the
      composition of the models of their pieces, as the C code is;
    * [pre_ok3] / [pre_ok3b]: the documented ownership rules as a predicate / a BOOLEAN CHECKER on
      the abstract state ([pre_ok3b_sound]); calls the API refuses (NULL arguments, indices out of
      range, missing keys, self-insertion, [CoreHistoryAllNull.refused2]) are ACCEPTED by the
      checker — their model is "failure value, state unchanged";
    * the bulk array constructors with explicit identities (CoreHistoryAllArr*.v), cJSON_CreateString
      of a NULL string (node allocated and released again);
    * [step_sim3]: one call — returns (no error outcome), the model's result, [Abs3] again;
    * [history_sim3], [history3_from_empty]: every history accepted by the checker. *)
From CJ Require Import Base Dbl Heap Forest ForestLemmas CoreSpec CoreDefs CoreRefineBase CoreRefine
  CoreRefineDelete CoreRefineReplace CoreRefineMore CoreRefineFrame CoreRefineHistory CoreRefineObject
  CoreRefineByKey CoreRefineAddObject CoreRefineHistoryObj CoreRefineHistoryObjEx CoreRefineReplaceKey
  CoreRefineReplaceKeyAbs CoreRefineCreate CoreRefineSet CoreRefineRef CoreRefineArray CoreLedgerGen CoreHistoryAllSteps
  CoreHistoryAllArr CoreHistoryAllArrStep CoreHistoryAllNull.
From CJ.gen Require Import Constants.
From Coq Require Import Floats.SpecFloat.
From stdpp Require Import gmap.
Implicit Types (h : heap) (F : forest) (d : rdata).
Local Open Scope Z_scope.

(** * the alphabet *)

(** what a cJSON_Add…ToObject helper creates *)
Inductive created : Type :=
| KNull | KTrue | KFalse | KBool (b : bool) | KNumber (n : dbl) | KString (s : ptr) | KRaw (s : ptr)
| KObject | KArray.

Inductive op3 : Type :=
| O2 (o : op2)
    (* CoreRefineHistoryObj.op2: cJSON_CreateNull/True/False/Bool/Array/Object, cJSON_AddItemToArray,
       cJSON_DetachItemViaPointer, cJSON_DetachItemFromArray, cJSON_InsertItemInArray,
       cJSON_ReplaceItemViaPointer, cJSON_ReplaceItemInArray, cJSON_Delete, cJSON_DeleteItemFromArray,
       cJSON_GetArraySize, cJSON_GetArrayItem; a caller string; cJSON_AddItemToObject[CS];
       cJSON_GetObjectItem[CaseSensitive]; cJSON_DetachItemFromObject[CaseSensitive];
       cJSON_DeleteItemFromObject[CaseSensitive] *)
| OCreateNumber (n : dbl)
| OCreateString (s : ptr)
| OCreateRaw (s : ptr)
| OCreateStringReference (s : ptr)
| OCreateObjectReference (child : ptr)
| OCreateArrayReference (child : ptr)
| OAddItemReferenceToArray (array item : ptr)
| OAddItemReferenceToObject (object name item : ptr)
| OReplaceItemInObject (object name newitem : ptr) (case_sensitive : bool)
| OSetNumberValue (object : ptr) (n : dbl)
| OSetIntValue (object : ptr) (z : Z)
| OSetBoolValue (object : ptr) (b : bool)
| OSetValuestring (object valuestring : ptr)
| OAddToObject (k : created) (object name : ptr)     (* cJSON_Add{Null,True,False,Bool,Number,String,Raw,Object,Array}ToObject *)
| OHasObjectItem (object name : ptr)
| OGetStringValue (item : ptr)
| OGetNumberValue (item : ptr)
| OCreateIntArray (numbers : option (list Z)) (count : Z)
| OCreateFloatArray (numbers : option (list dbl)) (count : Z)   (* each float given as the double it converts to *)
| OCreateDoubleArray (numbers : option (list dbl)) (count : Z)
| OCreateStringArray (strings : option (list ptr)) (count : Z).

Inductive res3 : Type := R (r : res) | RDbl (x : dbl).

Definition run_created (k : created) : M ptr :=
  match k with
  | KNull => cJSON_CreateNull nv
  | KTrue => cJSON_CreateTrue nv
  | KFalse => cJSON_CreateFalse nv
  | KBool b => cJSON_CreateBool nv b
  | KNumber n => cJSON_CreateNumber nv n
  | KString s => cJSON_CreateString nv s
  | KRaw s => cJSON_CreateRaw nv s
  | KObject => cJSON_CreateObject nv
  | KArray => cJSON_CreateArray nv
  end.
Definition run_add_to_object (k : created) (object name : ptr) : M ptr :=
  match k with
  | KNull => cJSON_AddNullToObject nv object name
  | KTrue => cJSON_AddTrueToObject nv object name
  | KFalse => cJSON_AddFalseToObject nv object name
  | KBool b => cJSON_AddBoolToObject nv object name b
  | KNumber n => cJSON_AddNumberToObject nv object name n
  | KString s => cJSON_AddStringToObject nv object name s
  | KRaw s => cJSON_AddRawToObject nv object name s
  | KObject => cJSON_AddObjectToObject nv object name
  | KArray => cJSON_AddArrayToObject nv object name
  end.

(** the code of one call *)
Definition run_op3 (o : op3) : M res3 :=
  match o with
  | O2 o => r <~ run_op2 nv o ;; ret (R r)
  | OCreateNumber n => q <~ cJSON_CreateNumber nv n ;; ret (R (RPtr q))
  | OCreateString s => q <~ cJSON_CreateString nv s ;; ret (R (RPtr q))
  | OCreateRaw s => q <~ cJSON_CreateRaw nv s ;; ret (R (RPtr q))
  | OCreateStringReference s => q <~ cJSON_CreateStringReference nv s ;; ret (R (RPtr q))
  | OCreateObjectReference c => q <~ cJSON_CreateObjectReference nv c ;; ret (R (RPtr q))
  | OCreateArrayReference c => q <~ cJSON_CreateArrayReference nv c ;; ret (R (RPtr q))
  | OAddItemReferenceToArray a i => b <~ cJSON_AddItemReferenceToArray nv a i ;; ret (R (RBool b))
  | OAddItemReferenceToObject ob n i => b <~ cJSON_AddItemReferenceToObject nv ob n i ;; ret (R (RBool b))
  | OReplaceItemInObject ob n r cs => b <~ replace_item_in_object nv ob n r cs ;; ret (R (RBool b))
  | OSetNumberValue x n => v <~ cJSON_SetNumberValue x n ;; ret (RDbl v)
  | OSetIntValue x z => v <~ cJSON_SetIntValue x z ;; ret (R (RInt v))
  | OSetBoolValue x b => v <~ cJSON_SetBoolValue x b ;; ret (R (RInt v))
  | OSetValuestring x v => q <~ cJSON_SetValuestring nv x v ;; ret (R (RPtr q))
  | OAddToObject k ob n => q <~ run_add_to_object k ob n ;; ret (R (RPtr q))
  | OHasObjectItem ob n => b <~ cJSON_HasObjectItem ob n ;; ret (R (RBool b))
  | OGetStringValue x => q <~ cJSON_GetStringValue x ;; ret (R (RPtr q))
  | OGetNumberValue x => v <~ cJSON_GetNumberValue x ;; ret (RDbl v)
  | OCreateIntArray l c => q <~ cJSON_CreateIntArray nv l c ;; ret (R (RPtr q))
  | OCreateFloatArray l c => q <~ cJSON_CreateFloatArray nv l c ;; ret (R (RPtr q))
  | OCreateDoubleArray l c => q <~ cJSON_CreateDoubleArray nv l c ;; ret (R (RPtr q))
  | OCreateStringArray l c => q <~ cJSON_CreateStringArray nv l c ;; ret (R (RPtr q))
  end.

(** * the list model *)

(** the constructors *)
Definition spec_created (S : astate2) (k : created) : astate2 * ptr :=
  let typed ty := ((s2 S (OArr (OCreate ty))).1, res_ptr (s2 S (OArr (OCreate ty))).2) in
  match k with
  | KNull => typed c_cJSON_NULL
  | KTrue => typed c_cJSON_True
  | KFalse => typed c_cJSON_False
  | KBool b => typed (if b then c_cJSON_True else c_cJSON_False)
  | KNumber n => spec_new_node S (rd_number n)
  | KString s => spec_new_string S c_cJSON_String s
  | KRaw s => spec_new_string S c_cJSON_Raw s
  | KObject => typed c_cJSON_Object
  | KArray => typed c_cJSON_Array
  end.
Definition pre_created (S : astate2) (k : created) : Prop :=
  match k with KString s | KRaw s => s = None \/ name_ok S s | _ => True end.

(** add [item] to [object] under an owned copy of [name]; on refusal [item] is deleted again:
    results [yes] / [no] *)
Definition spec_add_or_delete {A} (S1 : astate2) (item object name : ptr) (yes no : A) : astate2 * A :=
  let r := s2 S1 (OAddObj object name item false) in
  if res_bool r.2 then (r.1, yes) else ((s2 r.1 (OArr (ODelete item))).1, no).
Definition pre_add_or_delete (S1 : astate2) (item object name : ptr) : Prop :=
  pre_ok2 S1 (OAddObj object name item false) /\
  (res_bool (s2 S1 (OAddObj object name item false)).2 = false ->
   pre_ok2 (s2 S1 (OAddObj object name item false)).1 (OArr (ODelete item))).

(** the bulk constructors: NULL for a NULL array or a negative count, else the array *)
Definition spec_bulk {A} (S : astate2) (arg : option (list A)) (count : Z) (f : list A -> astate2 * ptr) : astate2 * res3 :=
  match arg with
  | None => (S, R (RPtr None))
  | Some l => if count <? 0 then (S, R (RPtr None)) else ((f l).1, R (RPtr (f l).2))
  end.
(** the caller's array holds at least [count] elements *)
Definition pre_bulk {A} (arg : option (list A)) (count : Z) (P : list A -> Prop) : Prop :=
  match arg with
  | None => True
  | Some l => count < 0 \/ ((Z.to_nat count <= length l)%nat /\ P l)
  end.

Definition spec_step3 (S : astate2) (o : op3) : astate2 * res3 :=
  match o with
  | O2 o => ((s2 S o).1, R (s2 S o).2)
  | OCreateNumber n => let r := spec_new_node S (rd_number n) in (r.1, R (RPtr r.2))
  | OCreateString s => let r := spec_new_string S c_cJSON_String s in (r.1, R (RPtr r.2))
  | OCreateRaw s => let r := spec_new_string S c_cJSON_Raw s in (r.1, R (RPtr r.2))
  | OCreateStringReference s => let r := spec_new_node S (rd_string_ref s) in (r.1, R (RPtr r.2))
  | OCreateObjectReference c => let r := spec_new_node S (rd_container_ref c_cJSON_Object c) in (r.1, R (RPtr r.2))
  | OCreateArrayReference c => let r := spec_new_node S (rd_container_ref c_cJSON_Array c) in (r.1, R (RPtr r.2))
  | OAddItemReferenceToArray a i =>
      match a with
      | None => (S, R (RBool false))
      | Some _ => let c := spec_create_ref S i in
                  let r := s2 c.1 (OArr (OAdd a c.2)) in (r.1, R (RBool (res_bool r.2)))
      end
  | OAddItemReferenceToObject ob n i =>
      match ob, n with
      | Some _, Some _ => let c := spec_create_ref S i in
                          let r := spec_add_or_delete c.1 c.2 ob n true false in (r.1, R (RBool r.2))
      | _, _ => (S, R (RBool false))
      end
  | OReplaceItemInObject ob n r cs => let q := spec_replace_key3 S ob n r cs in (q.1, R (RBool q.2))
  | OSetNumberValue x n => (spec_set_number3 S x n, RDbl n)
  | OSetIntValue x z => (spec_set_int3 S x z, R (RInt z))
  | OSetBoolValue x b => let q := spec_set_bool3 S x b in (q.1, R (RInt q.2))
  | OSetValuestring x v => let q := spec_set_valuestring3 S x v in (q.1, R (RPtr q.2))
  | OAddToObject k ob n =>
      let c := spec_created S k in
      let r := spec_add_or_delete c.1 c.2 ob n c.2 None in (r.1, R (RPtr r.2))
  | OHasObjectItem ob n => (S, R (RBool (negb (is_null (res_ptr (s2 S (OGetKey ob n false)).2)))))
  | OGetStringValue x => (S, R (RPtr (spec_get_string_value S x)))
  | OGetNumberValue x => (S, RDbl (spec_get_number_value S x))
  | OCreateIntArray l c => spec_bulk S l c (fun ints => spec_number_array S (dbl_of_int <$> ints) c)
  | OCreateFloatArray l c | OCreateDoubleArray l c => spec_bulk S l c (fun vals => spec_number_array S vals c)
  | OCreateStringArray l c => spec_bulk S l c (fun strs => spec_string_array S strs c)
  end.

(** * the documented ownership rules *)
Definition pre_ok3 (S : astate2) (o : op3) : Prop :=
  match o with
  | O2 o => pre_ok2 S o \/ refused2 S o
  | OCreateNumber _ | OCreateStringReference _ | OCreateObjectReference _ | OCreateArrayReference _ => True
  | OCreateString s | OCreateRaw s => s = None \/ name_ok S s
  | OAddItemReferenceToArray a i =>
      a = None \/ (ref_target S i /\ pre_ok2 (spec_create_ref S i).1 (OArr (OAdd a (spec_create_ref S i).2)))
  | OAddItemReferenceToObject ob n i =>
      ob = None \/ n = None \/
      (ref_target S i /\ pre_add_or_delete (spec_create_ref S i).1 (spec_create_ref S i).2 ob n)
  | OReplaceItemInObject ob n r _ => pre_replace_key S ob n r
  | OSetNumberValue x _ | OSetIntValue x _ | OSetBoolValue x _ | OGetStringValue x | OGetNumberValue x => node_or_null S x
  | OSetValuestring x v => pre_set_valuestring S x v
  | OAddToObject k ob n => pre_created S k /\ pre_add_or_delete (spec_created S k).1 (spec_created S k).2 ob n
  | OHasObjectItem ob n => pre_ok2 S (OGetKey ob n false) \/ refused2 S (OGetKey ob n false)
  | OCreateIntArray l c => pre_bulk l c (fun _ => True)
  | OCreateFloatArray l c | OCreateDoubleArray l c => pre_bulk l c (fun _ => True)
  | OCreateStringArray l c => pre_bulk l c (fun strs => strings_ok S strs c)
  end.

(** * one call *)
Lemma Step_created S k : pre_created S k -> Step (run_created k) S (spec_created S k).1 (spec_created S k).2.
Proof.
  intros Hpre.
  assert (Hty : forall ty, Step (create_with_type nv ty) S (s2 S (OArr (OCreate ty))).1 (res_ptr (s2 S (OArr (OCreate ty))).2)).
  { intros ty. apply (Step_unwrap RPtr res_ptr); [done|]. by apply (Step_op2 S (OArr (OCreate ty))). }
  destruct k; cbn [run_created spec_created]; try apply Hty.
  - apply Step_CreateNumber.
  - by apply Step_create_string_like.
  - by apply Step_create_string_like.
Qed.

Lemma Step_add_or_delete {A} S1 item object name (yes no : A) :
  pre_add_or_delete S1 item object name ->
  Step (ok <~ add_item_to_object nv object name item false ;;
        if ok then ret yes else cJSON_Delete item ;;; ret no)
       S1 (spec_add_or_delete S1 item object name yes no).1 (spec_add_or_delete S1 item object name yes no).2.
Proof.
  intros [H1 H2]. unfold spec_add_or_delete. cbn zeta.
  eapply Step_bind; [by apply Step_add_item_to_object|].
  destruct (res_bool (s2 S1 (OAddObj object name item false)).2) eqn:E; cbn [fst snd].
  - apply Step_ret.
  - eapply Step_bind; [apply Step_cJSON_Delete; by apply H2|apply Step_ret].
Qed.

Lemma run_add_to_object_eq k ob n :
  run_add_to_object k ob n = (item <~ run_created k ;; add_created_to_object nv ob n item).
Proof. by destruct k. Qed.

Theorem step_sim3 h S o :
  Abs3 h S -> pre_ok3 S o ->
  exists h', run_op3 o h = Ret ((spec_step3 S o).2, h') /\ Abs3 h' (spec_step3 S o).1.
Proof.
  intros HA Hpre. revert h HA. change (Step (run_op3 o) S (spec_step3 S o).1 (spec_step3 S o).2).
  destruct o as [o|n|s|s|s|c|c|a i|ob n i|ob n r cs|x n|x z|x b|x v|k ob n|ob n|x|x|l c|l c|l c|l c];
    cbn [run_op3 spec_step3 pre_ok3] in *; cbn zeta.
  - apply (Step_wrap R). destruct Hpre as [Hpre|Hpre]; [by apply Step_op2|by apply Step_refused2].
  - apply (Step_wrap (fun q => R (RPtr q))). apply Step_CreateNumber.
  - apply (Step_wrap (fun q => R (RPtr q))). by apply Step_create_string_like.
  - apply (Step_wrap (fun q => R (RPtr q))). by apply Step_create_string_like.
  - apply (Step_wrap (fun q => R (RPtr q))). apply Step_CreateStringReference.
  - apply (Step_wrap (fun q => R (RPtr q))). apply Step_CreateObjectReference.
  - apply (Step_wrap (fun q => R (RPtr q))). apply Step_CreateArrayReference.
  - (* cJSON_AddItemReferenceToArray *)
    destruct a as [pa|].
    + destruct Hpre as [?|[Hi Hadd]]; [done|]. cbn [fst snd].
      apply (Step_wrap (fun b => R (RBool b))). unfold cJSON_AddItemReferenceToArray. cbn [is_null].
      eapply Step_bind; [by apply Step_create_reference|]. by apply Step_add_item_to_array.
    + apply (Step_wrap (fun b => R (RBool b))). apply Step_ret.
  - (* cJSON_AddItemReferenceToObject *)
    destruct ob as [po|]; [|apply (Step_wrap (fun b => R (RBool b))); apply Step_ret].
    destruct n as [nb|]; [|apply (Step_wrap (fun b => R (RBool b))); apply Step_ret].
    destruct Hpre as [?|[?|[Hi Hadd]]]; [done|done|]. cbn [fst snd].
    apply (Step_wrap (fun b => R (RBool b))). unfold cJSON_AddItemReferenceToObject. cbn [is_null orb].
    eapply Step_bind; [by apply Step_create_reference|]. by apply Step_add_or_delete.
  - apply (Step_wrap (fun b => R (RBool b))). by apply Step_replace_key.
  - apply (Step_wrap RDbl). by apply Step_SetNumberValue.
  - apply (Step_wrap (fun v => R (RInt v))). by apply Step_SetIntValue.
  - apply (Step_wrap (fun v => R (RInt v))). by apply Step_SetBoolValue.
  - apply (Step_wrap (fun q => R (RPtr q))). by apply Step_SetValuestring.
  - (* the cJSON_Add…ToObject helpers *)
    destruct Hpre as [Hk Hadd]. apply (Step_wrap (fun q => R (RPtr q))). rewrite run_add_to_object_eq.
    eapply Step_bind; [by apply Step_created|]. unfold add_created_to_object. by apply Step_add_or_delete.
  - (* cJSON_HasObjectItem *)
    apply (Step_wrap (fun b => R (RBool b))). unfold cJSON_HasObjectItem, cJSON_GetObjectItem.
    eapply Step_bind; [|apply Step_ret]. apply (Step_unwrap RPtr res_ptr); [done|].
    destruct Hpre as [Hpre|Hpre]; [by apply (Step_op2 S (OGetKey ob n false))|by apply (Step_refused2 S (OGetKey ob n false))].
  - apply (Step_wrap (fun q => R (RPtr q))). by apply Step_GetStringValue.
  - apply (Step_wrap RDbl). by apply Step_GetNumberValue.
  - (* cJSON_CreateIntArray *)
    unfold spec_bulk. destruct l as [l|]; cbn [pre_bulk] in *.
    2:{ apply (Step_wrap (fun q => R (RPtr q))). apply Step_same. intros h _. by apply create_array_of_refused; right. }
    destruct (Z.ltb_spec c 0) as [Hlt|Hge]; cbn [fst snd].
    { apply (Step_wrap (fun q => R (RPtr q))). apply Step_same. intros h _. by apply create_array_of_refused; left. }
    destruct Hpre as [?|[Hlen _]]; [lia|]. apply (Step_wrap (fun q => R (RPtr q))).
    apply (Step_number_array dbl_of_int S l c Hge Hlen).
  - (* cJSON_CreateFloatArray *)
    unfold spec_bulk. destruct l as [l|]; cbn [pre_bulk] in *.
    2:{ apply (Step_wrap (fun q => R (RPtr q))). apply Step_same. intros h _. by apply create_array_of_refused; right. }
    destruct (Z.ltb_spec c 0) as [Hlt|Hge]; cbn [fst snd].
    { apply (Step_wrap (fun q => R (RPtr q))). apply Step_same. intros h _. by apply create_array_of_refused; left. }
    destruct Hpre as [?|[Hlen _]]; [lia|]. apply (Step_wrap (fun q => R (RPtr q))).
    pose proof (Step_number_array (fun v : dbl => v) S l c Hge Hlen) as H. by rewrite list_fmap_id in H.
  - (* cJSON_CreateDoubleArray *)
    unfold spec_bulk. destruct l as [l|]; cbn [pre_bulk] in *.
    2:{ apply (Step_wrap (fun q => R (RPtr q))). apply Step_same. intros h _. by apply create_array_of_refused; right. }
    destruct (Z.ltb_spec c 0) as [Hlt|Hge]; cbn [fst snd].
    { apply (Step_wrap (fun q => R (RPtr q))). apply Step_same. intros h _. by apply create_array_of_refused; left. }
    destruct Hpre as [?|[Hlen _]]; [lia|]. apply (Step_wrap (fun q => R (RPtr q))).
    pose proof (Step_number_array (fun v : dbl => v) S l c Hge Hlen) as H. by rewrite list_fmap_id in H.
  - (* cJSON_CreateStringArray *)
    unfold spec_bulk. destruct l as [l|]; cbn [pre_bulk] in *.
    2:{ apply (Step_wrap (fun q => R (RPtr q))). apply Step_same. intros h _. by apply create_array_of_refused; right. }
    destruct (Z.ltb_spec c 0) as [Hlt|Hge]; cbn [fst snd].
    { apply (Step_wrap (fun q => R (RPtr q))). apply Step_same. intros h _. by apply create_array_of_refused; left. }
    destruct Hpre as [?|[Hlen Hok]]; [lia|]. apply (Step_wrap (fun q => R (RPtr q))).
    by apply Step_string_array.
Qed.

(** * histories *)
Fixpoint run_ops3 (ops : list op3) : M (list res3) :=
  match ops with
  | [] => ret []
  | o :: r => x <~ run_op3 o ;; xs <~ run_ops3 r ;; ret (x :: xs)
  end.
Definition spec_run3 (S : astate2) (ops : list op3) : astate2 := fold_left (fun S o => (spec_step3 S o).1) ops S.
Fixpoint spec_results3 (S : astate2) (ops : list op3) : list res3 :=
  match ops with [] => [] | o :: r => (spec_step3 S o).2 :: spec_results3 (spec_step3 S o).1 r end.
Fixpoint pre_ok_all3 (S : astate2) (ops : list op3) : Prop :=
  match ops with [] => True | o :: r => pre_ok3 S o /\ pre_ok_all3 (spec_step3 S o).1 r end.

Theorem history_sim3 ops : forall h S,
  Abs3 h S -> pre_ok_all3 S ops ->
  exists h', run_ops3 ops h = Ret (spec_results3 S ops, h') /\ Abs3 h' (spec_run3 S ops).
Proof.
  induction ops as [|o r IH]; intros h S HA Hpre.
  - exists h. by split.
  - destruct Hpre as [Hp Hr]. destruct (step_sim3 h S o HA Hp) as (h1 & Hrun & HA1).
    destruct (IH h1 _ HA1 Hr) as (h2 & Hrun2 & HA2). exists h2. split; [|exact HA2].
    cbn [run_ops3 spec_results3]. rewrite (bindM_Ret _ _ _ _ _ Hrun). by rewrite (bindM_Ret _ _ _ _ _ Hrun2).
Qed.

Lemma Abs3_empty : Abs3 empty_heap S0.
Proof. split; [apply Abs2_empty|apply HeapOK_empty]. Qed.

Corollary history3_from_empty ops :
  pre_ok_all3 S0 ops ->
  exists h', run_ops3 ops empty_heap = Ret (spec_results3 S0 ops, h') /\ Abs3 h' (spec_run3 S0 ops).
Proof. apply history_sim3, Abs3_empty. Qed.

(** the rules are prefix-closed: the theorem speaks about EVERY moment of a history *)
Lemma pre_ok_all3_app ops1 : forall S ops2,
  pre_ok_all3 S (ops1 ++ ops2) -> pre_ok_all3 S ops1 /\ pre_ok_all3 (spec_run3 S ops1) ops2.
Proof.
  induction ops1 as [|o r IH]; intros S ops2 H; [done|]. destruct H as [H1 H2].
  destruct (IH _ _ H2) as [H3 H4]. done.
Qed.
Lemma spec_run3_app S ops1 ops2 : spec_run3 S (ops1 ++ ops2) = spec_run3 (spec_run3 S ops1) ops2.
Proof. apply fold_left_app. Qed.

(** every computation of the alphabet is conservative (CoreLedgerGen) *)
Lemma Cons_run_created k : Cons (run_created k).
Proof. destruct k; cbn [run_created]; unfold cJSON_CreateNull, cJSON_CreateTrue, cJSON_CreateFalse, cJSON_CreateBool,
  cJSON_CreateObject, cJSON_CreateArray, cJSON_CreateString, cJSON_CreateRaw; auto with cons. Qed.
Lemma Cons_run_op3 o : Cons (run_op3 o).
Proof.
  destruct o; cbn [run_op3]; try (cons; auto using Cons_run_op2 with cons; fail).
  1,2: unfold cJSON_CreateString, cJSON_CreateRaw; cons.
  apply Cons_bind; [|intros; apply Cons_ret]. rewrite run_add_to_object_eq.
  apply Cons_bind; [apply Cons_run_created|intros; auto with cons].
Qed.
Lemma Cons_run_ops3 ops : Cons (run_ops3 ops).
Proof. induction ops as [|o r IH]; cbn [run_ops3]; cons; auto using Cons_run_op3 with cons. Qed.

(** * the ownership rules as a BOOLEAN CHECKER on the abstract state *)
Definition ref_targetb (S : astate2) (i : ptr) : bool :=
  match i with
  | None => true
  | Some y => match find_tree y (a_forest S) with Some _ => true | None => false end
  end.
Definition pre_createdb (S : astate2) (k : created) : bool :=
  match k with KString s | KRaw s => is_none s || name_okb S s | _ => true end.
Definition pre_add_or_deleteb (S1 : astate2) (item object name : ptr) : bool :=
  pre_ok2b S1 (OAddObj object name item false) &&
  (res_bool (s2 S1 (OAddObj object name item false)).2 ||
   pre_ok2b (s2 S1 (OAddObj object name item false)).1 (OArr (ODelete item))).
Definition pre_set_valuestringb (S : astate2) (object valuestring : ptr) : bool :=
  match object with
  | None => true
  | Some x =>
      match find_tree x (a_forest S) with
      | Some n =>
          (negb (has_flag (rd_type (tdata n)) c_cJSON_String) || is_ref (tdata n) || is_none (rd_vstr (tdata n)) ||
           is_none valuestring) ||
          (name_okb S valuestring && name_okb S (rd_vstr (tdata n)))
      | None => false
      end
  end.
Definition pre_replace_keyb (S : astate2) (object name replacement : ptr) : bool :=
  is_none replacement || is_none name ||
  match object, replacement with
  | Some p, Some r => movableb (a_forest S) p r && name_okb S name
  | None, Some r => ref_targetb S (Some r) && name_okb S name
  | _, _ => false
  end.

Definition pre_bulkb {A} (arg : option (list A)) (count : Z) (P : list A -> bool) : bool :=
  match arg with
  | None => true
  | Some l => (count <? 0) || ((Z.to_nat count <=? length l)%nat && P l)
  end.

Definition pre_ok3b (S : astate2) (o : op3) : bool :=
  match o with
  | O2 o => pre_ok2b S o || refused2b S o
  | OCreateNumber _ | OCreateStringReference _ | OCreateObjectReference _ | OCreateArrayReference _ => true
  | OCreateString s | OCreateRaw s => is_none s || name_okb S s
  | OAddItemReferenceToArray a i =>
      is_none a || (ref_targetb S i && pre_ok2b (spec_create_ref S i).1 (OArr (OAdd a (spec_create_ref S i).2)))
  | OAddItemReferenceToObject ob n i =>
      is_none ob || is_none n ||
      (ref_targetb S i && pre_add_or_deleteb (spec_create_ref S i).1 (spec_create_ref S i).2 ob n)
  | OReplaceItemInObject ob n r _ => pre_replace_keyb S ob n r
  | OSetNumberValue x _ | OSetIntValue x _ | OSetBoolValue x _ | OGetStringValue x | OGetNumberValue x => ref_targetb S x
  | OSetValuestring x v => pre_set_valuestringb S x v
  | OAddToObject k ob n => pre_createdb S k && pre_add_or_deleteb (spec_created S k).1 (spec_created S k).2 ob n
  | OHasObjectItem ob n => pre_ok2b S (OGetKey ob n false) || refused2b S (OGetKey ob n false)
  | OCreateIntArray l c => pre_bulkb l c (fun _ => true)
  | OCreateFloatArray l c | OCreateDoubleArray l c => pre_bulkb l c (fun _ => true)
  | OCreateStringArray l c => pre_bulkb l c (fun strs => forallb (name_okb S) (take (Z.to_nat c) strs))
  end.

Lemma is_none_true {A} (o : option A) : is_none o = true -> o = None.
Proof. by destruct o. Qed.

Lemma ref_targetb_sound S i : ref_targetb S i = true -> ref_target S i.
Proof.
  unfold ref_targetb, ref_target. destruct i as [y|]; [|by left]. intros H. right. exists y. split; [done|].
  destruct (find_tree y (a_forest S)); [eauto|done].
Qed.
Lemma pre_add_or_deleteb_sound S1 item ob n : pre_add_or_deleteb S1 item ob n = true -> pre_add_or_delete S1 item ob n.
Proof.
  unfold pre_add_or_deleteb, pre_add_or_delete. intros H. apply andb_true_iff in H as [H1 H2].
  split; [by apply pre_ok2b_sound|]. intros E. rewrite E in H2. by apply pre_ok2b_sound.
Qed.

Lemma opt_name_okb_sound S s : is_none s || name_okb S s = true -> s = None \/ name_ok S s.
Proof. intros H. apply orb_true_iff in H as [H|H]; [left; by apply is_none_true|right; by apply name_okb_sound]. Qed.
Lemma pre_bulkb_sound {A} (arg : option (list A)) count (Pb : list A -> bool) (P : list A -> Prop) :
  (forall l, Pb l = true -> P l) -> pre_bulkb arg count Pb = true -> pre_bulk arg count P.
Proof.
  intros HP H. destruct arg as [l|]; [|done]. cbn in *. apply orb_true_iff in H as [H|H]; [left; by apply Z.ltb_lt|].
  right. apply andb_true_iff in H as [H1 H2]. split; [by apply Nat.leb_le|by apply HP].
Qed.

Lemma pre_ok3b_sound S o : pre_ok3b S o = true -> pre_ok3 S o.
Proof.
  destruct o as [o|n|s|s|s|c|c|a i|ob n i|ob n r cs|x n|x z|x b|x v|k ob n|ob n|x|x|l c|l c|l c|l c]; cbn [pre_ok3b pre_ok3]; intros H;
    try done; try (by apply opt_name_okb_sound); try (by apply ref_targetb_sound);
    try (by apply (pre_bulkb_sound _ _ _ _ (fun _ _ => I) H));
    try (apply orb_true_iff in H as [H|H]; [left; by apply pre_ok2b_sound|right; by apply refused2b_sound]).
  - apply orb_true_iff in H as [H|H]; [left; by apply is_none_true|right].
    apply andb_true_iff in H as [H1 H2]. split; [by apply ref_targetb_sound|by apply pre_ok2b_sound].
  - apply orb_true_iff in H as [H|H]; [apply orb_true_iff in H as [H|H]; [left|right; left]; by apply is_none_true|].
    right. right. apply andb_true_iff in H as [H1 H2].
    split; [by apply ref_targetb_sound|by apply pre_add_or_deleteb_sound].
  - unfold pre_replace_keyb in H. unfold pre_replace_key.
    apply orb_true_iff in H as [H|H]; [apply orb_true_iff in H as [H|H]; left; [left|right]; by apply is_none_true|].
    right. destruct ob as [p|], r as [r|]; try done; apply andb_true_iff in H as [H1 H2].
    + left. exists p, r. split_and!; [done|done|by apply movableb_sound|by apply name_okb_sound].
    + right. split; [done|]. apply name_okb_sound in H2 as Hn. destruct Hn as (nb & s0 & -> & Hs0 & Hz0).
      exists nb, r. split_and!; try done.
      * destruct (ref_targetb_sound _ _ H1) as [?|(y & [= <-] & Hy)]; done.
      * by exists nb, s0.
  - unfold pre_set_valuestringb in H. unfold pre_set_valuestring. destruct x as [x|]; [|by left]. right.
    destruct (find_tree x (a_forest S)) as [nd|] eqn:Hx; [|done]. exists x, nd. split; [done|]. split; [done|].
    apply orb_true_iff in H as [H|H].
    + left. apply orb_true_iff in H as [H|H]; [|right; right; right; by apply is_none_true].
      apply orb_true_iff in H as [H|H]; [|right; right; left; by apply is_none_true].
      apply orb_true_iff in H as [H|H]; [left; by apply negb_true_iff|right; by left].
    + right. apply andb_true_iff in H as [H1 H2]. split; by apply name_okb_sound.
  - apply andb_true_iff in H as [H1 H2]. split; [|by apply pre_add_or_deleteb_sound].
    destruct k; try done; by apply opt_name_okb_sound.
  - refine (pre_bulkb_sound _ _ _ _ _ H). intros strs Hf k q Hk Hq.
    apply name_okb_sound. rewrite forallb_forall in Hf. apply Hf. apply elem_of_list_In.
    apply (elem_of_list_lookup_2 _ k). by rewrite lookup_take.
Qed.

Fixpoint pre_ok_all3b (S : astate2) (ops : list op3) : bool :=
  match ops with [] => true | o :: r => pre_ok3b S o && pre_ok_all3b (spec_step3 S o).1 r end.
Lemma pre_ok_all3b_sound ops : forall S, pre_ok_all3b S ops = true -> pre_ok_all3 S ops.
Proof.
  induction ops as [|o r IH]; intros S H; [done|]. cbn in H. apply andb_true_iff in H as [H1 H2].
  split; [by apply pre_ok3b_sound|by apply IH].
Qed.

(** THE HISTORY THEOREM, checker form: every history the checker accepts from the empty heap *)
Theorem history3_checked ops :
  pre_ok_all3b S0 ops = true ->
  exists h', run_ops3 ops empty_heap = Ret (spec_results3 S0 ops, h') /\ Abs3 h' (spec_run3 S0 ops).
Proof. intros H. by apply history3_from_empty, pre_ok_all3b_sound. Qed.
