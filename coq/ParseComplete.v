(** ParseComplete.v — completeness of the parser's list-level specification [text_l]
    (ParseSpec.v) with respect to the declarative RFC 8259 grammar (Grammar.v): property C02.
    Every RFC 8259 text within the limits (nesting <= CJSON_NESTING_LIMIT, number literals of
    at most 63 bytes) is accepted and decoded to exactly [tree_of] of the value it denotes.
    The C library's strtod enters through the contract [strtod_rfc] (a Definition used as a
    hypothesis, never an axiom); [strtod_ref_rfc] proves it for the reference implementation. *)
From CJ Require Import Base Dbl Tree LibcNum ParseDefs ParseSpec Grammar ParseCompleteUtf8.
Local Open Scope Z_scope.

(** * The contract on the C library *)

(** strtod converts every RFC 8259 number literal of at most 63 bytes completely *)
Definition strtod_rfc (strtod : bytes -> option (dbl * nat)) : Prop :=
  forall t, rfc_number t = true -> (length t <= 63)%nat -> exists d, strtod t = Some (d, length t).

(** what may follow a text: nothing, or a byte that cannot extend a number token *)
Definition nonnum_start (l : bytes) : Prop :=
  match l with [] => True | c :: _ => number_byte c = false end.

(** first bytes of JSON values *)
Definition value_start (c : Z) : Prop :=
  c = 110 \/ c = 102 \/ c = 116 \/ c = 34 \/ c = 45 \/ 48 <= c <= 57 \/ c = 91 \/ c = 123.

(** * Boolean reflection helpers *)
Ltac b2p :=
  repeat match goal with
  | H : (_ && _) = true |- _ => apply andb_true_iff in H; destruct H
  | H : (_ || _) = false |- _ => apply orb_false_iff in H; destruct H
  | H : (_ || _) = true |- _ => apply orb_true_iff in H
  | H : (_ && _) = false |- _ => apply andb_false_iff in H
  | H : negb _ = true |- _ => apply negb_true_iff in H
  | H : negb _ = false |- _ => apply negb_false_iff in H
  | H : (_ =? _) = true |- _ => apply Z.eqb_eq in H
  | H : (_ =? _) = false |- _ => apply Z.eqb_neq in H
  | H : (_ <=? _) = true |- _ => apply Z.leb_le in H
  | H : (_ <=? _) = false |- _ => apply Z.leb_gt in H
  | H : (_ <? _) = true |- _ => apply Z.ltb_lt in H
  | H : (_ <? _) = false |- _ => apply Z.ltb_ge in H
  end.

Lemma number_byte_iff c :
  number_byte c = true <-> (48 <= c <= 57 \/ c = 43 \/ c = 45 \/ c = 101 \/ c = 69 \/ c = 46).
Proof.
  unfold number_byte.
  rewrite !orb_true_iff, andb_true_iff, !Z.leb_le, !Z.eqb_eq. tauto.
Qed.

Lemma number_byte_false c :
  ~ (48 <= c <= 57 \/ c = 43 \/ c = 45 \/ c = 101 \/ c = 69 \/ c = 46) -> number_byte c = false.
Proof.
  intros H. destruct (number_byte c) eqn:E; [|reflexivity].
  apply number_byte_iff in E. contradiction.
Qed.

Lemma digit_iff c : digit c = true <-> 48 <= c <= 57.
Proof. unfold digit. rewrite andb_true_iff, !Z.leb_le. tauto. Qed.

Lemma rfc_ws_cases c : rfc_ws c = true -> c = 32 \/ c = 9 \/ c = 10 \/ c = 13.
Proof. unfold rfc_ws. rewrite !orb_true_iff, !Z.eqb_eq. tauto. Qed.

Lemma value_start_gt c : value_start c -> 32 < c.
Proof. unfold value_start. lia. Qed.

(** * Whitespace *)
Lemma ws_cons c w : ws rfc_ws (c :: w) <-> rfc_ws c = true /\ ws rfc_ws w.
Proof. unfold ws. cbn [forallb]. apply andb_true_iff. Qed.

Lemma drop_ws_app w l : ws rfc_ws w -> drop_ws (w ++ l) = drop_ws l.
Proof.
  induction w as [|c w IH]; intros H; [reflexivity|].
  apply ws_cons in H as [Hc Hw]. apply rfc_ws_cases in Hc.
  cbn [app drop_ws]. destruct (Z.leb_spec c 32); [auto|lia].
Qed.

Lemma drop_ws_start c l : 32 < c -> drop_ws (c :: l) = c :: l.
Proof. intros H. cbn [drop_ws]. destruct (Z.leb_spec c 32); [lia|reflexivity]. Qed.

Lemma drop_ws_idem l : drop_ws (drop_ws l) = drop_ws l.
Proof.
  induction l as [|c l IH]; [reflexivity|].
  cbn [drop_ws]. destruct (c <=? 32) eqn:E; [exact IH|].
  cbn [drop_ws]. rewrite E. reflexivity.
Qed.

Lemma drop_ws_nz_app w l : ws rfc_ws w -> drop_ws_nz (w ++ l) = drop_ws_nz l.
Proof.
  induction w as [|c w IH]; intros H; [reflexivity|].
  apply ws_cons in H as [Hc Hw]. apply rfc_ws_cases in Hc.
  cbn [app drop_ws_nz].
  destruct (Z.eqb_spec c 0); [lia|]. destruct (Z.leb_spec c 32); [|lia].
  cbn [negb andb]. auto.
Qed.

Lemma nonnum_start_ws w l : ws rfc_ws w -> nonnum_start l -> nonnum_start (w ++ l).
Proof.
  destruct w as [|c w]; intros H Hl; [exact Hl|].
  apply ws_cons in H as [Hc _]. apply rfc_ws_cases in Hc.
  cbn [app nonnum_start]. apply number_byte_false. lia.
Qed.

Lemma nonnum_start_byte c l :
  ~ (48 <= c <= 57 \/ c = 43 \/ c = 45 \/ c = 101 \/ c = 69 \/ c = 46) -> nonnum_start (c :: l).
Proof. intros H. cbn [nonnum_start]. apply number_byte_false. exact H. Qed.

(** * C strings *)
Lemma cstr_app_zero s : cstr (s ++ [0]) = cstr s.
Proof.
  induction s as [|c s IH]; [reflexivity|].
  cbn [app cstr]. rewrite IH. reflexivity.
Qed.

Lemma cstr_nonzero s : Forall (fun c => c <> 0) s -> cstr s = s.
Proof.
  induction 1 as [|c s Hc _ IH]; [reflexivity|].
  cbn [cstr]. destruct (Z.eqb_spec c 0); [contradiction|]. rewrite IH. reflexivity.
Qed.

(** * String literals *)
Lemma hex4_l_spec a b c d u r :
  hex4v a b c d = Some u -> hex4_l (a :: b :: c :: d :: r) = Some (u, r).
Proof.
  unfold hex4v, hex4_l. rewrite !hex_val_hexv.
  destruct (hexv a) as [x|]; [|discriminate].
  destruct (hexv b) as [y|]; [|discriminate].
  destruct (hexv c) as [z|]; [|discriminate].
  destruct (hexv d) as [w|]; [|discriminate].
  intros H; inversion H; subst. f_equal. f_equal. lia.
Qed.

Definition str_cons (b : bytes) (r : option (bytes * bytes)) : option (bytes * bytes) :=
  match r with Some (o, rest) => Some (b ++ o, rest) | None => None end.

Lemma str_l_quote f r : str_l (S f) (34 :: r) = Some ([], r).
Proof. reflexivity. Qed.

Lemma str_l_raw f c r : c <> 34 -> c <> 92 ->
  str_l (S f) (c :: r) = str_cons [c] (str_l f r).
Proof.
  intros H1 H2. cbn [str_l].
  destruct (Z.eqb_spec c 34); [contradiction|].
  destruct (Z.eqb_spec c 92); [contradiction|].
  reflexivity.
Qed.

Lemma str_l_esc f e v r : simple_escape e = Some v ->
  str_l (S f) (92 :: e :: r) = str_cons [v] (str_l f r).
Proof.
  unfold simple_escape. intros H.
  destruct (Z.eqb_spec e 34); [subst; inversion H; reflexivity|].
  destruct (Z.eqb_spec e 92); [subst; inversion H; reflexivity|].
  destruct (Z.eqb_spec e 47); [subst; inversion H; reflexivity|].
  destruct (Z.eqb_spec e 98); [subst; inversion H; reflexivity|].
  destruct (Z.eqb_spec e 102); [subst; inversion H; reflexivity|].
  destruct (Z.eqb_spec e 110); [subst; inversion H; reflexivity|].
  destruct (Z.eqb_spec e 114); [subst; inversion H; reflexivity|].
  destruct (Z.eqb_spec e 116); [subst; inversion H; reflexivity|].
  discriminate.
Qed.

Lemma str_l_u f h1 h2 h3 h4 u r :
  hex4v h1 h2 h3 h4 = Some u -> is_high_surrogate u = false -> is_low_surrogate u = false ->
  str_l (S f) (92 :: 117 :: h1 :: h2 :: h3 :: h4 :: r) = str_cons (utf8_of_codepoint u) (str_l f r).
Proof.
  intros Hh Hhi Hlo.
  assert (Hr := hex4v_range _ _ _ _ _ Hh).
  apply (hex4_l_spec _ _ _ _ _ r) in Hh.
  unfold is_high_surrogate in Hhi. unfold is_low_surrogate in Hlo.
  cbn [str_l]. change (92 =? 34) with false. change (92 =? 92) with true.
  change (117 =? 98) with false. change (117 =? 102) with false. change (117 =? 110) with false.
  change (117 =? 114) with false. change (117 =? 116) with false.
  change ((117 =? 34) || (117 =? 92) || (117 =? 47)) with false. change (117 =? 117) with true.
  cbv iota. rewrite Hh. rewrite Hlo, Hhi.
  rewrite utf8_encode_c_spec by lia.
  unfold str_cons. reflexivity.
Qed.

Lemma str_l_pair f h1 h2 h3 h4 l1 l2 l3 l4 hi lo r :
  hex4v h1 h2 h3 h4 = Some hi -> is_high_surrogate hi = true ->
  hex4v l1 l2 l3 l4 = Some lo -> is_low_surrogate lo = true ->
  str_l (S f) (92 :: 117 :: h1 :: h2 :: h3 :: h4 :: 92 :: 117 :: l1 :: l2 :: l3 :: l4 :: r)
  = str_cons (utf8_of_codepoint (pair_codepoint hi lo)) (str_l f r).
Proof.
  intros Hh Hhi Hl Hlo.
  apply (hex4_l_spec _ _ _ _ _ (92 :: 117 :: l1 :: l2 :: l3 :: l4 :: r)) in Hh.
  apply (hex4_l_spec _ _ _ _ _ r) in Hl.
  unfold is_high_surrogate in Hhi. unfold is_low_surrogate in Hlo.
  assert (Ehi : 55296 <= hi <= 56319) by (clear - Hhi; b2p; lia).
  assert (Elo : 56320 <= lo <= 57343) by (clear - Hlo; b2p; lia).
  cbn [str_l]. change (92 =? 34) with false. change (92 =? 92) with true.
  change (117 =? 98) with false. change (117 =? 102) with false. change (117 =? 110) with false.
  change (117 =? 114) with false. change (117 =? 116) with false.
  change ((117 =? 34) || (117 =? 92) || (117 =? 47)) with false. change (117 =? 117) with true.
  cbv iota. rewrite Hh.
  replace ((56320 <=? hi) && (hi <=? 57343)) with false
    by (symmetry; apply andb_false_iff; left; apply Z.leb_gt; lia).
  rewrite Hhi. rewrite Hl.
  replace ((lo <? 56320) || (lo >? 57343)) with false
    by (symmetry; apply orb_false_iff; split; [apply Z.ltb_ge; lia|rewrite Z.gtb_ltb; apply Z.ltb_ge; lia]).
  rewrite pair_formula_spec by lia.
  rewrite utf8_encode_c_spec by (pose proof (pair_codepoint_range hi lo); lia).
  unfold str_cons. reflexivity.
Qed.

Lemma chars_str_l : forall body s, chars rfc_raw body s ->
  forall rest f, (length body < f)%nat -> str_l f (body ++ 34 :: rest) = Some (s, rest).
Proof.
  induction 1 as [|c b s Hq Hb Hraw Hch IH|e v b s He Hch IH
                  |h1 h2 h3 h4 u b s Hh Hhi Hlo Hch IH
                  |h1 h2 h3 h4 l1 l2 l3 l4 hi lo b s Hh Hhi Hl Hlo Hch IH];
    intros rest f Hf; (destruct f as [|f]; [cbn [length] in Hf; lia|]); cbn [length] in Hf.
  - reflexivity.
  - cbn [app]. rewrite str_l_raw by assumption. rewrite IH by lia. reflexivity.
  - cbn [app]. rewrite (str_l_esc f e v) by assumption. rewrite IH by lia. reflexivity.
  - cbn [app]. rewrite (str_l_u f h1 h2 h3 h4 u) by assumption. rewrite IH by lia. reflexivity.
  - cbn [app]. rewrite (str_l_pair f h1 h2 h3 h4 l1 l2 l3 l4 hi lo) by assumption.
    rewrite IH by lia. reflexivity.
Qed.

Lemma chars_string_l body s rest : chars rfc_raw body s ->
  string_l (body ++ 34 :: rest) = Some (cstr s, rest).
Proof.
  intros H. unfold string_l.
  rewrite (chars_str_l body s H) by (rewrite app_length; cbn [length]; lia).
  rewrite cstr_app_zero. reflexivity.
Qed.

(** * Number tokens: the shape of an RFC 8259 number literal *)
Definition digits (l : bytes) : Prop := forallb digit l = true.

Definition exp_shape (ex : bytes) : Prop :=
  ex = [] \/
  exists c es d ed, ex = c :: es ++ d :: ed /\ (c = 101 \/ c = 69) /\
                    (es = [] \/ es = [43] \/ es = [45]) /\ digit d = true /\ digits ed.
Definition frac_shape (fr : bytes) : Prop :=
  fr = [] \/ exists d fd, fr = 46 :: d :: fd /\ digit d = true /\ digits fd.

Lemma skip_digits_split l : exists ds, l = ds ++ skip_digits l /\ digits ds.
Proof.
  induction l as [|c l [ds [E D]]]; [exists []; split; reflexivity|].
  cbn [skip_digits]. destruct (digit c) eqn:Ec.
  - exists (c :: ds). split; [cbn [app]; congruence|]. unfold digits. cbn [forallb]. rewrite Ec. exact D.
  - exists []. split; reflexivity.
Qed.

Lemma skip_digits_nil l : skip_digits l = [] -> digits l.
Proof.
  intros H. destruct (skip_digits_split l) as [ds [E D]]. rewrite H, app_nil_r in E. congruence.
Qed.

Lemma rfc_exp_shape l : rfc_exp l = true -> exp_shape l.
Proof.
  destruct l as [|c r]; [left; reflexivity|].
  unfold rfc_exp. destruct ((c =? 101) || (c =? 69)) eqn:E; [|discriminate].
  assert (Hc : c = 101 \/ c = 69) by (b2p; lia). clear E.
  destruct r as [|s r']; [discriminate|].
  destruct ((s =? 43) || (s =? 45)) eqn:Es.
  - destruct r' as [|d r2]; [discriminate|]. intros H.
    apply andb_true_iff in H as [Hd H].
    destruct (skip_digits r2) eqn:E2; [|discriminate].
    right. exists c, [s], d, r2. split; [reflexivity|]. split; [exact Hc|].
    split; [b2p; destruct Es; b2p; subst; auto|]. split; [exact Hd|]. apply skip_digits_nil. exact E2.
  - intros H. apply andb_true_iff in H as [Hd H].
    destruct (skip_digits r') eqn:E2; [|discriminate].
    right. exists c, [], s, r'. split; [reflexivity|]. split; [exact Hc|].
    split; [auto|]. split; [exact Hd|]. apply skip_digits_nil. exact E2.
Qed.

Lemma rfc_frac_nodot c r : c <> 46 -> rfc_frac (c :: r) = rfc_exp (c :: r).
Proof.
  intros H. unfold rfc_frac. destruct c as [|p|p]; try reflexivity.
  do 6 (destruct p as [p|p|]; try reflexivity). congruence.
Qed.

Lemma rfc_frac_shape l : rfc_frac l = true ->
  exists fr ex, l = fr ++ ex /\ frac_shape fr /\ exp_shape ex.
Proof.
  intros H.
  destruct l as [|c r].
  { exists [], []. split; [reflexivity|]. split; left; reflexivity. }
  destruct (Z.eqb_spec c 46) as [->|Hne].
  - destruct r as [|d r]; [discriminate|].
    change (digit d && rfc_exp (skip_digits r) = true) in H.
    apply andb_true_iff in H as [Hd H].
    destruct (skip_digits_split r) as [ds [E D]].
    exists (46 :: d :: ds), (skip_digits r). split; [cbn [app]; congruence|].
    split; [right; exists d, ds; auto|]. apply rfc_exp_shape. exact H.
  - rewrite rfc_frac_nodot in H by assumption.
    exists [], (c :: r). split; [reflexivity|]. split; [left; reflexivity|]. apply rfc_exp_shape. exact H.
Qed.

Definition rfc_pos (t1 : bytes) : bool :=
  match t1 with
  | 48 :: r => rfc_frac r
  | d :: r => digit d && rfc_frac (skip_digits r)
  | [] => false
  end.

Lemma rfc_number_neg r : rfc_number (45 :: r) = rfc_pos r.
Proof. reflexivity. Qed.

Lemma rfc_number_nonneg c r : c <> 45 -> rfc_number (c :: r) = rfc_pos (c :: r).
Proof.
  intros H. unfold rfc_number. destruct c as [|p|p]; try reflexivity.
  do 6 (destruct p as [p|p|]; try reflexivity). congruence.
Qed.

Lemma rfc_pos_nz c r : c <> 48 -> rfc_pos (c :: r) = digit c && rfc_frac (skip_digits r).
Proof.
  intros H. unfold rfc_pos. destruct c as [|p|p]; try reflexivity.
  do 6 (destruct p as [p|p|]; try reflexivity). congruence.
Qed.

Lemma rfc_pos_shape t : rfc_pos t = true ->
  exists d ds fr ex, t = (d :: ds) ++ fr ++ ex /\ digit d = true /\ digits ds /\
                     frac_shape fr /\ exp_shape ex.
Proof.
  destruct t as [|c r]; [discriminate|]. intros H.
  destruct (Z.eqb_spec c 48) as [->|Hne].
  - change (rfc_frac r = true) in H.
    destruct (rfc_frac_shape r H) as [fr [ex [E [Hf He]]]].
    exists 48, [], fr, ex. split; [cbn [app]; congruence|]. repeat split; assumption.
  - rewrite rfc_pos_nz in H by assumption.
    apply andb_true_iff in H as [Hd H].
    destruct (skip_digits_split r) as [ds [E D]].
    destruct (rfc_frac_shape _ H) as [fr [ex [E2 [Hf He]]]].
    exists c, ds, fr, ex. split; [cbn [app]; congruence|]. repeat split; assumption.
Qed.

Theorem rfc_number_shape t : rfc_number t = true ->
  exists sg d ds fr ex, t = sg ++ (d :: ds) ++ fr ++ ex /\ (sg = [] \/ sg = [45]) /\
                        digit d = true /\ digits ds /\ frac_shape fr /\ exp_shape ex.
Proof.
  destruct t as [|c r]; [discriminate|]. intros H.
  destruct (Z.eqb_spec c 45) as [->|Hne].
  - rewrite rfc_number_neg in H.
    destruct (rfc_pos_shape r H) as [d [ds [fr [ex [E R]]]]].
    exists [45], d, ds, fr, ex. split; [cbn [app] in *; congruence|]. split; [auto|exact R].
  - rewrite rfc_number_nonneg in H by assumption.
    destruct (rfc_pos_shape _ H) as [d [ds [fr [ex [E R]]]]].
    exists [], d, ds, fr, ex. split; [exact E|]. split; [auto|exact R].
Qed.

Lemma digits_nb l : digits l -> forallb number_byte l = true.
Proof.
  unfold digits. induction l as [|c l IH]; [reflexivity|]. cbn [forallb]. intros H.
  apply andb_true_iff in H as [Hc Hl]. apply digit_iff in Hc.
  rewrite (IH Hl). replace (number_byte c) with true; [reflexivity|].
  symmetry. apply number_byte_iff. lia.
Qed.

Lemma exp_shape_nb ex : exp_shape ex -> forallb number_byte ex = true.
Proof.
  intros [-> | [c [es [d [ed [-> [Hc [Hes [Hd Hed]]]]]]]]]; [reflexivity|].
  apply digit_iff in Hd.
  cbn [forallb]. rewrite forallb_app. cbn [forallb]. rewrite (digits_nb ed Hed).
  replace (number_byte c) with true by (symmetry; apply number_byte_iff; lia).
  replace (number_byte d) with true by (symmetry; apply number_byte_iff; lia).
  destruct Hes as [-> | [-> | ->]]; reflexivity.
Qed.

Lemma frac_shape_nb fr : frac_shape fr -> forallb number_byte fr = true.
Proof.
  intros [-> | [d [fd [-> [Hd Hfd]]]]]; [reflexivity|].
  apply digit_iff in Hd.
  cbn [forallb]. rewrite (digits_nb fd Hfd).
  replace (number_byte d) with true by (symmetry; apply number_byte_iff; lia).
  reflexivity.
Qed.

Lemma rfc_number_nb t : rfc_number t = true -> forallb number_byte t = true.
Proof.
  intros H. destruct (rfc_number_shape t H) as [sg [d [ds [fr [ex [-> [Hsg [Hd [Hds [Hfr Hex]]]]]]]]]].
  apply digit_iff in Hd.
  rewrite !forallb_app. cbn [forallb].
  rewrite (digits_nb ds Hds), (frac_shape_nb fr Hfr), (exp_shape_nb ex Hex).
  replace (number_byte d) with true by (symmetry; apply number_byte_iff; lia).
  destruct Hsg as [-> | ->]; reflexivity.
Qed.

Lemma rfc_number_first t : rfc_number t = true ->
  exists c r, t = c :: r /\ (c = 45 \/ 48 <= c <= 57).
Proof.
  intros H. destruct (rfc_number_shape t H) as [sg [d [ds [fr [ex [-> [Hsg [Hd _]]]]]]]].
  apply digit_iff in Hd.
  destruct Hsg as [-> | ->]; cbn [app]; eexists; eexists; (split; [reflexivity|]); lia.
Qed.

Lemma number_run_exact : forall t rest n,
  forallb number_byte t = true -> (length t <= n)%nat -> nonnum_start rest ->
  number_run n (t ++ rest) = t.
Proof.
  induction t as [|c t IH]; intros rest n Hnb Hlen Hrest.
  - cbn [app]. destruct n as [|n]; [reflexivity|]. cbn [number_run].
    destruct rest as [|c r]; [reflexivity|]. cbn [nonnum_start] in Hrest. rewrite Hrest. reflexivity.
  - cbn [forallb] in Hnb. apply andb_true_iff in Hnb as [Hc Ht].
    destruct n as [|n]; [cbn [length] in Hlen; lia|].
    cbn [app number_run]. rewrite Hc. rewrite IH; [reflexivity|exact Ht|cbn [length] in Hlen; lia|exact Hrest].
Qed.

Lemma skipn_app_exact {A} (t rest : list A) : skipn (length t) (t ++ rest) = rest.
Proof. induction t as [|c t IH]; [reflexivity|exact IH]. Qed.

(** * Unfolding lemmas for the container loops and [value_l] *)
Lemma elems_l_S pv k l0 acc :
  elems_l pv (S k) l0 acc =
  match pv (drop_ws l0) with
  | None => None
  | Some (v, r2) =>
      match drop_ws r2 with
      | c2 :: r3 =>
          if c2 =? 44 then elems_l pv k r3 (v :: acc)
          else if c2 =? 93 then Some (rev (v :: acc), r3)
          else None
      | [] => None
      end
  end.
Proof. reflexivity. Qed.

Lemma members_l_S pv k l0 acc :
  members_l pv (S k) l0 acc =
  match drop_ws l0 with
  | q :: rq =>
      if negb (q =? 34) then None
      else
        match string_l rq with
        | None => None
        | Some (key, r2) =>
            match drop_ws r2 with
            | col :: r3 =>
                if negb (col =? 58) then None
                else
                  match pv (drop_ws r3) with
                  | None => None
                  | Some (v0, r4) =>
                      match drop_ws r4 with
                      | c2 :: r5 =>
                          if c2 =? 44 then members_l pv k r5 (with_key key v0 :: acc)
                          else if c2 =? 125 then Some (rev (with_key key v0 :: acc), r5)
                          else None
                      | [] => None
                      end
                  end
            | [] => None
            end
        end
  | [] => None
  end.
Proof. reflexivity. Qed.

Lemma elems_l_drop pv k l0 acc : elems_l pv k (drop_ws l0) acc = elems_l pv k l0 acc.
Proof. destruct k as [|k]; [reflexivity|]. rewrite !elems_l_S, drop_ws_idem. reflexivity. Qed.

Lemma members_l_drop pv k l0 acc : members_l pv k (drop_ws l0) acc = members_l pv k l0 acc.
Proof. destruct k as [|k]; [reflexivity|]. rewrite !members_l_S, drop_ws_idem. reflexivity. Qed.

Section ValueCases.
  Variable strtod : bytes -> option (dbl * nat).

  Lemma value_l_null f depth r :
    value_l strtod (S f) depth (110 :: 117 :: 108 :: 108 :: r) = Some (Node c_cJSON_NULL None 0 dzero None [], r).
  Proof. reflexivity. Qed.
  Lemma value_l_false f depth r :
    value_l strtod (S f) depth (102 :: 97 :: 108 :: 115 :: 101 :: r) = Some (Node c_cJSON_False None 0 dzero None [], r).
  Proof. reflexivity. Qed.
  Lemma value_l_true f depth r :
    value_l strtod (S f) depth (116 :: 114 :: 117 :: 101 :: r) = Some (Node c_cJSON_True None 1 dzero None [], r).
  Proof. reflexivity. Qed.
  Lemma value_l_str f depth r :
    value_l strtod (S f) depth (34 :: r) =
    match string_l r with Some (s, rest) => Some (Node c_cJSON_String (Some s) 0 dzero None [], rest) | None => None end.
  Proof. reflexivity. Qed.
  Lemma value_l_num f depth c r : c = 45 \/ 48 <= c <= 57 ->
    value_l strtod (S f) depth (c :: r) = number_l strtod (c :: r).
  Proof.
    intros H. cbn [value_l starts].
    destruct (Z.eqb_spec c 110); [lia|].
    destruct (Z.eqb_spec c 102); [lia|].
    destruct (Z.eqb_spec c 116); [lia|].
    destruct (Z.eqb_spec c 34); [lia|].
    replace ((c =? 45) || ((48 <=? c) && (c <=? 57))) with true; [reflexivity|].
    symmetry. apply orb_true_iff. rewrite andb_true_iff, Z.eqb_eq, !Z.leb_le. lia.
  Qed.
  Lemma value_l_arr f depth r :
    value_l strtod (S f) depth (91 :: r) =
    if c_CJSON_NESTING_LIMIT <=? depth then None else array_l (value_l strtod f (depth + 1)) r.
  Proof. reflexivity. Qed.
  Lemma value_l_obj f depth r :
    value_l strtod (S f) depth (123 :: r) =
    if c_CJSON_NESTING_LIMIT <=? depth then None else object_l (value_l strtod f (depth + 1)) r.
  Proof. reflexivity. Qed.
End ValueCases.

(** every value starts with a byte that is neither whitespace nor a closing bracket *)
Lemma value_starts d t v : RFC_value d t v -> exists c t', t = c :: t' /\ value_start c.
Proof.
  unfold value_start.
  destruct 1 as [d|d|d|d t Hn|d b s Hc|d w Hw|d b l He|d w Hw|d b m Hm];
    try (eexists; eexists; split; [reflexivity|lia]).
  destruct (rfc_number_first t Hn) as [c [r [-> Hc]]].
  eexists; eexists; split; [reflexivity|lia].
Qed.

Lemma drop_ws_value d t v x : RFC_value d t v -> drop_ws (t ++ x) = t ++ x.
Proof.
  intros H. destruct (value_starts d t v H) as [c [t' [-> Hc]]].
  cbn [app]. apply drop_ws_start. apply value_start_gt. exact Hc.
Qed.

Ltac lens := repeat (progress (rewrite ?app_length in *; cbn [length] in * )); lia.
Ltac norm_app := repeat (rewrite <- app_assoc || rewrite <- app_comm_cons).

Section Complete.
  Variable strtod : bytes -> option (dbl * nat).
  Hypothesis strtod_contract : strtod_rfc strtod.

  Lemma number_l_complete t rest :
    rfc_number t = true -> (length t <= 63)%nat -> nonnum_start rest ->
    number_l strtod (t ++ rest) = Some (tree_of strtod (JNum t), rest).
  Proof.
    intros Hn Hlen Hrest. unfold number_l.
    change (Z.to_nat (c_NUMBER_C_STRING_SIZE - 1)) with 63%nat.
    rewrite number_run_exact; [|apply rfc_number_nb; exact Hn|exact Hlen|exact Hrest].
    destruct (strtod_contract t Hn Hlen) as [d Hd].
    cbn [tree_of]. rewrite Hd. rewrite skipn_app_exact. reflexivity.
  Qed.

  (** ** Values, elements, members: the mutual induction *)
  Notation arr_children l := (n_children (tree_of strtod (JArr l))).
  Notation obj_children m := (n_children (tree_of strtod (JObj m))).

  Definition P_value (d : nat) (t : bytes) (v : jv) : Prop :=
    jv_ok v -> forall f depth rest,
      (length t < f)%nat -> depth + Z.of_nat d <= c_CJSON_NESTING_LIMIT -> nonnum_start rest ->
      value_l strtod f depth (t ++ rest) = Some (tree_of strtod v, rest).

  Definition P_elems (d : nat) (b : bytes) (l : list jv) : Prop :=
    jv_ok (JArr l) -> forall f depth k acc rest,
      (length b < f)%nat -> (length b < k)%nat -> depth + Z.of_nat d <= c_CJSON_NESTING_LIMIT ->
      elems_l (value_l strtod f depth) k (b ++ 93 :: rest) acc = Some (rev acc ++ arr_children l, rest).

  Definition P_membs (d : nat) (b : bytes) (m : list (bytes * jv)) : Prop :=
    jv_ok (JObj m) -> forall f depth k acc rest,
      (length b < f)%nat -> (length b < k)%nat -> depth + Z.of_nat d <= c_CJSON_NESTING_LIMIT ->
      members_l (value_l strtod f depth) k (b ++ 125 :: rest) acc = Some (rev acc ++ obj_children m, rest).

  Lemma elements_start d b l : elements rfc_ws rfc_raw rfc_num_tok d b l ->
    exists w1 c b', b = w1 ++ c :: b' /\ ws rfc_ws w1 /\ value_start c.
  Proof.
    destruct 1 as [d w1 t v w2 Hw1 Hv Hw2|d w1 t v w2 b l Hw1 Hv Hw2 He];
      destruct (value_starts d t v Hv) as [c [t' [-> Hc]]];
      exists w1, c; eexists; (split; [cbn [app]; reflexivity|]); split; assumption.
  Qed.

  Lemma members_start d b m : members rfc_ws rfc_raw rfc_num_tok d b m ->
    exists w1 b', b = w1 ++ 34 :: b' /\ ws rfc_ws w1.
  Proof.
    destruct 1; eexists; eexists; (split; [reflexivity|]); assumption.
  Qed.



  Lemma with_key_set_key k n : with_key k n = set_key k n.
  Proof. destruct n; reflexivity. Qed.

  Theorem grammar_complete :
    (forall d t v, RFC_value d t v -> P_value d t v) /\
    (forall d b l, elements rfc_ws rfc_raw rfc_num_tok d b l -> P_elems d b l) /\
    (forall d b m, members rfc_ws rfc_raw rfc_num_tok d b m -> P_membs d b m).
  Proof.
    apply (grammar_mutind rfc_ws rfc_raw rfc_num_tok
             (fun d t v _ => P_value d t v) (fun d b l _ => P_elems d b l) (fun d b m _ => P_membs d b m)).
    - (* null *) intros d _ f depth rest Hf _ _. destruct f as [|f]; [lens|]. reflexivity.
    - (* false *) intros d _ f depth rest Hf _ _. destruct f as [|f]; [lens|]. reflexivity.
    - (* true *) intros d _ f depth rest Hf _ _. destruct f as [|f]; [lens|]. reflexivity.
    - (* number *) intros d t Hn Hok f depth rest Hf _ Hrest. destruct f as [|f]; [lens|].
      destruct (rfc_number_first t Hn) as [c [r [E Hc]]].
      rewrite E at 1. cbn [app]. rewrite value_l_num by exact Hc.
      change (c :: r ++ rest) with ((c :: r) ++ rest). rewrite <- E.
      apply number_l_complete; assumption.
    - (* string *) intros d b s Hc _ f depth rest Hf _ _. destruct f as [|f]; [lens|].
      cbn [app]. rewrite <- app_assoc. cbn [app].
      rewrite value_l_str, (chars_string_l b s rest Hc). reflexivity.
    - (* [] *) intros d w Hw _ f depth rest Hf Hd _. destruct f as [|f]; [lens|].
      cbn [app]. rewrite <- app_assoc. cbn [app]. rewrite value_l_arr.
      destruct (Z.leb_spec c_CJSON_NESTING_LIMIT depth); [lia|].
      unfold array_l. rewrite drop_ws_app by exact Hw. rewrite drop_ws_start by lia.
      reflexivity.
    - (* [elements] *) intros d b l He IH Hok f depth rest Hf Hd _. destruct f as [|f]; [lens|].
      cbn [app]. rewrite <- app_assoc. cbn [app]. rewrite value_l_arr.
      destruct (Z.leb_spec c_CJSON_NESTING_LIMIT depth); [lia|].
      destruct (elements_start d b l He) as [w1 [c [b' [E [Hw1 Hc]]]]].
      assert (E2 : drop_ws (b ++ 93 :: rest) = c :: b' ++ 93 :: rest).
      { rewrite E, <- app_assoc. cbn [app]. rewrite drop_ws_app by exact Hw1.
        apply drop_ws_start. apply value_start_gt. exact Hc. }
      unfold array_l. rewrite E2.
      destruct (Z.eqb_spec c 93); [unfold value_start in Hc; lia|].
      rewrite <- E2, elems_l_drop.
      rewrite (IH Hok f (depth + 1) _ [] rest); [reflexivity|lens|lens|lia].
    - (* {} *) intros d w Hw _ f depth rest Hf Hd _. destruct f as [|f]; [lens|].
      cbn [app]. rewrite <- app_assoc. cbn [app]. rewrite value_l_obj.
      destruct (Z.leb_spec c_CJSON_NESTING_LIMIT depth); [lia|].
      unfold object_l. rewrite drop_ws_app by exact Hw. rewrite drop_ws_start by lia.
      reflexivity.
    - (* {members} *) intros d b m Hm IH Hok f depth rest Hf Hd _. destruct f as [|f]; [lens|].
      cbn [app]. rewrite <- app_assoc. cbn [app]. rewrite value_l_obj.
      destruct (Z.leb_spec c_CJSON_NESTING_LIMIT depth); [lia|].
      destruct (members_start d b m Hm) as [w1 [b' [E Hw1]]].
      assert (E2 : drop_ws (b ++ 125 :: rest) = 34 :: b' ++ 125 :: rest).
      { rewrite E, <- app_assoc. cbn [app]. rewrite drop_ws_app by exact Hw1.
        apply drop_ws_start. lia. }
      unfold object_l. rewrite E2. change (34 =? 125) with false. cbv iota.
      rewrite <- E2, members_l_drop.
      rewrite (IH Hok f (depth + 1) _ [] rest); [reflexivity|lens|lens|lia].
    - (* one element *) intros d w1 t v w2 Hw1 Hv IHv Hw2 Hok f depth k acc rest Hf Hk Hd.
      destruct k as [|k]; [lens|]. rewrite elems_l_S.
      rewrite <- !app_assoc. rewrite drop_ws_app by exact Hw1.
      rewrite (drop_ws_value d t v) by exact Hv.
      destruct Hok as [Hokv _].
      rewrite (IHv Hokv f depth (w2 ++ 93 :: rest));
        [|lens|exact Hd|apply nonnum_start_ws; [exact Hw2|apply nonnum_start_byte; lia]].
      rewrite drop_ws_app by exact Hw2. rewrite drop_ws_start by lia.
      reflexivity.
    - (* element, more *) intros d w1 t v w2 b l Hw1 Hv IHv Hw2 He IHe Hok f depth k acc rest Hf Hk Hd.
      destruct k as [|k]; [lens|]. rewrite elems_l_S.
      rewrite <- !app_assoc. rewrite drop_ws_app by exact Hw1.
      rewrite (drop_ws_value d t v) by exact Hv.
      destruct Hok as [Hokv Hokl].
      rewrite (IHv Hokv f depth (w2 ++ (44 :: b) ++ 93 :: rest));
        [|lens|exact Hd|apply nonnum_start_ws; [exact Hw2|apply nonnum_start_byte; lia]].
      rewrite drop_ws_app by exact Hw2. cbn [app]. rewrite drop_ws_start by lia.
      change (44 =? 44) with true. cbv iota.
      rewrite (IHe Hokl f depth k _ rest); [|lens|lens|exact Hd].
      cbn [rev]. rewrite <- app_assoc. reflexivity.
    - (* one member *) intros d w1 kb key w2 w3 t v w4 Hw1 Hk Hw2 Hw3 Hv IHv Hw4 Hok f depth k acc rest Hf Hkk Hd.
      destruct k as [|k]; [lens|]. rewrite members_l_S.
      norm_app. rewrite drop_ws_app by exact Hw1.
      rewrite drop_ws_start by lia. change (34 =? 34) with true. cbn [negb].
      rewrite (chars_string_l kb key _ Hk).
      rewrite drop_ws_app by exact Hw2. rewrite drop_ws_start by lia.
      change (58 =? 58) with true. cbn [negb].
      rewrite drop_ws_app by exact Hw3.
      rewrite (drop_ws_value d t v) by exact Hv.
      destruct Hok as [_ [Hokv _]].
      rewrite (IHv Hokv f depth (w4 ++ 125 :: rest));
        [|lens|exact Hd|apply nonnum_start_ws; [exact Hw4|apply nonnum_start_byte; lia]].
      rewrite drop_ws_app by exact Hw4. rewrite drop_ws_start by lia.
      change (125 =? 44) with false. change (125 =? 125) with true. cbv iota.
      rewrite with_key_set_key. reflexivity.
    - (* member, more *) intros d w1 kb key w2 w3 t v w4 b m Hw1 Hk Hw2 Hw3 Hv IHv Hw4 Hm IHm Hok f depth k acc rest Hf Hkk Hd.
      destruct k as [|k]; [lens|]. rewrite members_l_S.
      norm_app. rewrite drop_ws_app by exact Hw1.
      rewrite drop_ws_start by lia. change (34 =? 34) with true. cbn [negb].
      rewrite (chars_string_l kb key _ Hk).
      rewrite drop_ws_app by exact Hw2. rewrite drop_ws_start by lia.
      change (58 =? 58) with true. cbn [negb].
      rewrite drop_ws_app by exact Hw3.
      rewrite (drop_ws_value d t v) by exact Hv.
      destruct Hok as [_ [Hokv Hokm]].
      rewrite (IHv Hokv f depth (w4 ++ 44 :: b ++ 125 :: rest));
        [|lens|exact Hd|apply nonnum_start_ws; [exact Hw4|apply nonnum_start_byte; lia]].
      rewrite drop_ws_app by exact Hw4. rewrite drop_ws_start by lia.
      change (44 =? 44) with true. cbv iota.
      rewrite (IHm Hokm f depth k _ rest); [|lens|lens|exact Hd].
      rewrite with_key_set_key. cbn [rev]. rewrite <- app_assoc. reflexivity.
  Qed.
End Complete.

(** * Whole texts *)
Lemma complete_value strtod : strtod_rfc strtod ->
  forall d t v, RFC_value d t v -> jv_ok v ->
  forall f depth rest, (length t < f)%nat -> depth + Z.of_nat d <= c_CJSON_NESTING_LIMIT ->
    nonnum_start rest ->
    value_l strtod f depth (t ++ rest) = Some (tree_of strtod v, rest).
Proof.
  intros Hs d t v Hv. exact (proj1 (grammar_complete strtod Hs) d t v Hv).
Qed.

Lemma bom_strip bom w1 c x :
  bom = [] \/ bom = [239; 187; 191] -> ws rfc_ws w1 -> value_start c ->
  match starts [239; 187; 191] (bom ++ w1 ++ c :: x) with
  | Some r => r
  | None => bom ++ w1 ++ c :: x
  end = w1 ++ c :: x.
Proof.
  intros [-> | ->] Hw Hc; [|reflexivity].
  cbn [app]. destruct w1 as [|c0 w1].
  - cbn [app starts]. destruct (Z.eqb_spec c 239); [unfold value_start in Hc; lia|reflexivity].
  - apply ws_cons in Hw as [Hc0 _]. apply rfc_ws_cases in Hc0.
    cbn [app starts]. destruct (Z.eqb_spec c0 239); [lia|reflexivity].
Qed.

Lemma nesting_limit_Z : Z.of_nat nesting_limit = c_CJSON_NESTING_LIMIT.
Proof. unfold nesting_limit. apply Z2Nat.id. unfold c_CJSON_NESTING_LIMIT. lia. Qed.

(** the value of a text, and what [text_l] leaves unconsumed after it *)
Lemma complete_text_value strtod txt v tail :
  strtod_rfc strtod -> RFC_text txt v -> jv_ok v -> nonnum_start tail ->
  exists pre w2, txt = pre ++ w2 /\ ws rfc_ws w2 /\
    forall extra,
      value_l strtod (S (length (txt ++ tail) + extra))  0
        (drop_ws (match starts [239; 187; 191] (txt ++ tail) with Some r => r | None => txt ++ tail end))
      = Some (tree_of strtod v, w2 ++ tail).
Proof.
  intros Hs [bom [w1 [t [w2 [E [Hbom [Hw1 [Hw2 Hv]]]]]]]] Hok Htail.
  exists (bom ++ w1 ++ t), w2. split; [rewrite E, <- !app_assoc; reflexivity|].
  split; [exact Hw2|]. intros extra.
  destruct (value_starts _ t v Hv) as [c [t' [Et Hc]]].
  assert (El : txt ++ tail = bom ++ w1 ++ c :: (t' ++ w2 ++ tail)).
  { rewrite E, Et. norm_app. reflexivity. }
  remember (S (length (txt ++ tail) + extra)) as n eqn:En. rewrite El. rewrite (bom_strip bom w1 c _ Hbom Hw1 Hc).
  rewrite drop_ws_app by exact Hw1. rewrite drop_ws_start by (apply value_start_gt; exact Hc).
  change (c :: t' ++ w2 ++ tail) with ((c :: t') ++ w2 ++ tail). rewrite <- Et.
  apply (complete_value strtod Hs nesting_limit t v Hv Hok).
  - subst n. rewrite E. rewrite !app_length. lia.
  - rewrite nesting_limit_Z. lia.
  - apply nonnum_start_ws; assumption.
Qed.

(** [require_null_terminated = false]: the text may be followed by anything that cannot extend
    a final number token; the parse stops right after the value, i.e. before the text's
    trailing whitespace *)
Theorem complete_text_open strtod txt v tail :
  strtod_rfc strtod -> RFC_text txt v -> jv_ok v -> nonnum_start tail ->
  exists pre w2, txt = pre ++ w2 /\ ws rfc_ws w2 /\
    text_l strtod (txt ++ tail) false = Some (tree_of strtod v, w2 ++ tail).
Proof.
  intros Hs Ht Hok Htail.
  destruct (complete_text_value strtod txt v tail Hs Ht Hok Htail) as [pre [w2 [E [Hw2 H]]]].
  exists pre, w2. split; [exact E|]. split; [exact Hw2|].
  unfold text_l. specialize (H 0%nat). rewrite Nat.add_0_r in H. rewrite H. reflexivity.
Qed.

(** exact-length buffer *)
Theorem complete_text_exact strtod txt v :
  strtod_rfc strtod -> RFC_text txt v -> jv_ok v ->
  exists pre w2, txt = pre ++ w2 /\ ws rfc_ws w2 /\
    text_l strtod txt false = Some (tree_of strtod v, w2).
Proof.
  intros Hs Ht Hok.
  destruct (complete_text_open strtod txt v [] Hs Ht Hok I) as [pre [w2 [E [Hw2 H]]]].
  rewrite !app_nil_r in H. exists pre, w2. auto.
Qed.

(** zero-terminated buffer, termination required: the parse ends at the zero byte *)
Theorem complete_text_zero_rnt strtod txt v r :
  strtod_rfc strtod -> RFC_text txt v -> jv_ok v ->
  text_l strtod (txt ++ 0 :: r) true = Some (tree_of strtod v, 0 :: r).
Proof.
  intros Hs Ht Hok.
  assert (Htail : nonnum_start (0 :: r)) by (apply nonnum_start_byte; lia).
  destruct (complete_text_value strtod txt v (0 :: r) Hs Ht Hok Htail) as [pre [w2 [E [Hw2 H]]]].
  unfold text_l. specialize (H 0%nat). rewrite Nat.add_0_r in H. rewrite H.
  rewrite drop_ws_nz_app by exact Hw2. reflexivity.
Qed.

(** zero-terminated buffer, termination not required *)
Theorem complete_text_zero strtod txt v r :
  strtod_rfc strtod -> RFC_text txt v -> jv_ok v ->
  exists pre w2, txt = pre ++ w2 /\ ws rfc_ws w2 /\
    text_l strtod (txt ++ 0 :: r) false = Some (tree_of strtod v, w2 ++ 0 :: r).
Proof.
  intros Hs Ht Hok. apply complete_text_open; try assumption. apply nonnum_start_byte. lia.
Qed.

(** the tree is the same in all three situations (C02: all entry points produce equal trees) *)
Theorem complete_text_trees_agree strtod txt v r rnt :
  strtod_rfc strtod -> RFC_text txt v -> jv_ok v ->
  option_map fst (text_l strtod txt false) = Some (tree_of strtod v) /\
  option_map fst (text_l strtod (txt ++ 0 :: r) rnt) = Some (tree_of strtod v).
Proof.
  intros Hs Ht Hok. split.
  - destruct (complete_text_exact strtod txt v Hs Ht Hok) as [pre [w2 [_ [_ H]]]]. rewrite H. reflexivity.
  - destruct rnt.
    + rewrite (complete_text_zero_rnt strtod txt v r Hs Ht Hok). reflexivity.
    + destruct (complete_text_zero strtod txt v r Hs Ht Hok) as [pre [w2 [_ [_ H]]]]. rewrite H. reflexivity.
Qed.

(** with the side condition [jv_ok] the decoded strings are not cut: the C string IS the
    denoted byte string *)
Lemma tree_of_str_exact strtod s : jv_ok (JStr s) ->
  tree_of strtod (JStr s) = Node c_cJSON_String (Some s) 0 dzero None [].
Proof. intros H. cbn [tree_of]. rewrite (cstr_nonzero s H). reflexivity. Qed.

(** * The reference strtod satisfies the contract *)
Definition sign_split (s : bytes) : bool * bytes * nat :=
  match s with 45 :: r => (true, r, 1%nat) | 43 :: r => (false, r, 1%nat) | _ => (false, s, 0%nat) end.

Definition frac_part (ip : Z) (nint : nat) (s2 : bytes) : Z * nat * bytes * nat :=
  match s2 with
  | 46 :: r => let '(m', nf, r') := take_digits r ip 0 in
               if (nint =? 0)%nat && (nf =? 0)%nat then (ip, 0%nat, s2, 0%nat) else (m', nf, r', 1%nat)
  | _ => (ip, 0%nat, s2, 0%nat)
  end.

Definition exp_part (s3 : bytes) : Z * nat :=
  match s3 with
  | c :: r =>
      if (c =? 101) || (c =? 69) then
        let '(eneg, r1, nes) := sign_split r in
        let '(ev, ne, _) := take_digits r1 0 0 in
        if (ne =? 0)%nat then (0, 0%nat)
        else ((if eneg then - (Z.min ev 100000) else Z.min ev 100000), (1 + nes + ne)%nat)
      else (0, 0%nat)
  | [] => (0, 0%nat)
  end.

Lemma strtod_ref_eq s : strtod_ref s =
  let '(neg, s1, nsign) := sign_split s in
  let '(ip, nint, s2) := take_digits s1 0 0 in
  let '(m, nfrac, s3, ndot) := frac_part ip nint s2 in
  if (nint + nfrac =? 0)%nat then None
  else
    let '(e, nexp) := exp_part s3 in
    Some (dec_to_dbl_exact neg m (e - Z.of_nat nfrac), (nsign + nint + ndot + nfrac + nexp)%nat).
Proof. reflexivity. Qed.

Definition nondigit_start (l : bytes) : Prop :=
  match l with c :: _ => digit c = false | [] => True end.

Lemma take_digits_app : forall ds rest acc n, digits ds -> nondigit_start rest ->
  exists acc', take_digits (ds ++ rest) acc n = (acc', (n + length ds)%nat, rest).
Proof.
  induction ds as [|c ds IH]; intros rest acc n Hd Hr.
  - exists acc. cbn [app length]. rewrite Nat.add_0_r.
    destruct rest as [|c r]; [reflexivity|]. cbn [take_digits].
    cbn [nondigit_start] in Hr. change (is_digit c) with (digit c). rewrite Hr. reflexivity.
  - unfold digits in Hd. cbn [forallb] in Hd. apply andb_true_iff in Hd as [Hc Hds].
    cbn [app take_digits]. change (is_digit c) with (digit c). rewrite Hc.
    destruct (IH rest (10 * acc + (c - 48)) (S n) Hds Hr) as [acc' E].
    exists acc'. rewrite E. cbn [length]. f_equal. f_equal. lia.
Qed.

Lemma sign_split_other c r : c <> 45 -> c <> 43 -> sign_split (c :: r) = (false, c :: r, 0%nat).
Proof.
  intros H1 H2. unfold sign_split. destruct c as [|p|p]; try reflexivity.
  do 6 (destruct p as [p|p|]; try reflexivity); congruence.
Qed.

Lemma exp_part_shape ex : exp_shape ex -> exists e, exp_part ex = (e, length ex).
Proof.
  intros [-> | [c [es [d [ed [-> [Hc [Hes [Hd Hed]]]]]]]]]; [exists 0; reflexivity|].
  assert (Hdd : digits (d :: ed)) by (unfold digits; cbn [forallb]; rewrite Hd; exact Hed).
  destruct (take_digits_app (d :: ed) [] 0 0 Hdd I) as [ev Ev]. rewrite app_nil_r in Ev.
  assert (Hsplit : exists eneg, sign_split (es ++ d :: ed) = (eneg, d :: ed, length es)).
  { destruct Hes as [-> | [-> | ->]]; [|exists false; reflexivity|exists true; reflexivity].
    exists false. apply digit_iff in Hd. cbn [app length]. apply sign_split_other; lia. }
  destruct Hsplit as [eneg Es].
  eexists. unfold exp_part.
  replace ((c =? 101) || (c =? 69)) with true
    by (symmetry; apply orb_true_iff; rewrite !Z.eqb_eq; tauto).
  rewrite Es. rewrite Ev. cbn [length Nat.add Nat.eqb].
  rewrite app_length. cbn [length]. reflexivity.
Qed.

Lemma exp_shape_nondigit ex : exp_shape ex -> nondigit_start ex.
Proof.
  intros [-> | [c [es [d [ed [-> [Hc _]]]]]]]; [exact I|].
  cbn [nondigit_start]. destruct (digit c) eqn:E; [|reflexivity]. apply digit_iff in E. lia.
Qed.

Lemma frac_part_shape ip nint fr ex : frac_shape fr -> exp_shape ex ->
  exists m nf nd, frac_part ip nint (fr ++ ex) = (m, nf, ex, nd) /\ (nd + nf = length fr)%nat.
Proof.
  intros [-> | [d [fd [-> [Hd Hfd]]]]] Hex.
  - exists ip, 0%nat, 0%nat. split; [|reflexivity]. cbn [app].
    destruct Hex as [-> | [c [es [d [ed [-> [Hc _]]]]]]]; [reflexivity|].
    destruct Hc as [-> | ->]; reflexivity.
  - assert (Hdd : digits (d :: fd)) by (unfold digits; cbn [forallb]; rewrite Hd; exact Hfd).
    destruct (take_digits_app (d :: fd) ex ip 0 Hdd (exp_shape_nondigit ex Hex)) as [m Em].
    exists m, (length (d :: fd)), 1%nat. split; [|reflexivity].
    cbn [app] in *. unfold frac_part. rewrite Em. cbn [length Nat.add Nat.eqb].
    rewrite andb_false_r. reflexivity.
Qed.

Lemma frac_exp_nondigit fr ex : frac_shape fr -> exp_shape ex -> nondigit_start (fr ++ ex).
Proof.
  intros [-> | [d [fd [-> _]]]] Hex; [exact (exp_shape_nondigit ex Hex)|reflexivity].
Qed.

Theorem strtod_ref_complete t : rfc_number t = true -> exists d, strtod_ref t = Some (d, length t).
Proof.
  intros Hn.
  destruct (rfc_number_shape t Hn) as [sg [d [ds [fr [ex [-> [Hsg [Hd [Hds [Hfr Hex]]]]]]]]]].
  assert (Hdd : digits (d :: ds)) by (unfold digits; cbn [forallb]; rewrite Hd; exact Hds).
  destruct (take_digits_app (d :: ds) (fr ++ ex) 0 0 Hdd (frac_exp_nondigit fr ex Hfr Hex)) as [ip Eip].
  destruct (frac_part_shape ip (0 + length (d :: ds)) fr ex Hfr Hex) as [m [nf [nd [Ef Hlen]]]].
  destruct (exp_part_shape ex Hex) as [e Ee].
  assert (Hsplit : exists neg, sign_split (sg ++ (d :: ds) ++ fr ++ ex) = (neg, (d :: ds) ++ fr ++ ex, length sg)).
  { destruct Hsg as [-> | ->]; [|exists true; reflexivity].
    exists false. apply digit_iff in Hd. cbn [app length]. apply sign_split_other; lia. }
  destruct Hsplit as [neg Es].
  rewrite strtod_ref_eq. rewrite Es. cbv beta iota. rewrite Eip. cbv beta iota.
  rewrite Ef. cbv beta iota. rewrite Ee. cbv beta iota.
  cbn [length Nat.add Nat.eqb].
  eexists. f_equal. f_equal.
  rewrite !app_length. cbn [length]. lia.
Qed.

Theorem strtod_ref_rfc : strtod_rfc strtod_ref.
Proof. intros t Hn _. apply strtod_ref_complete. exact Hn. Qed.
