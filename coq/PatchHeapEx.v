(** PatchHeapEx.v — non-vacuity of the PatchHeap* theorems on concrete heaps, by computation.

    [px_heap] encodes the forest [px_F] = [pointers; document]:
      document (root 1)  {"a":[10,{"b~":5}],"A":2,"c/d":3}     nodes 1-7, key blocks 101-105
      pointers (root 20) ["/a/1/b~0", "/c~1d", "/a/2", "a"]     string nodes 21-24, valuestring blocks 201-204
    allocator pointer 1000. *)
From CJ Require Import Base Dbl Heap Forest ForestLemmas CoreDefs CoreRefineFrame CoreRefineDupValue CoreLedgerGen.
From CJ Require Import TierBridgeDefs MergeHeapDefs MergeHeapInv MergeHeapEx PatchHeapDefs PatchHeapPath PatchHeapPointer.
From CJ Require Tree PointerDefs PatchDefs.
From CJ.gen Require Import Constants.
From stdpp Require Import gmap.
Local Open Scope Z_scope.

Definition px_doc : tree :=
  exh_mk 1 c_cJSON_Object None 0 None
    [exh_mk 2 c_cJSON_Array None 0 (Some 101%positive)
       [exh_mk 3 c_cJSON_Number None 10 None [];
        exh_mk 4 c_cJSON_Object None 0 None [exh_mk 5 c_cJSON_Number None 5 (Some 102%positive) []]];
     exh_mk 6 c_cJSON_Number None 2 (Some 103%positive) [];
     exh_mk 7 c_cJSON_Number None 3 (Some 104%positive) []].
Definition px_ptrs : tree :=
  exh_mk 20 c_cJSON_Array None 0 None
    [exh_mk 21 c_cJSON_String (Some 201%positive) 0 None [];
     exh_mk 22 c_cJSON_String (Some 202%positive) 0 None [];
     exh_mk 23 c_cJSON_String (Some 203%positive) 0 None [];
     exh_mk 24 c_cJSON_String (Some 204%positive) 0 None []].
Definition px_F : forest := [px_ptrs; px_doc].
Definition px_St : gmap positive bytes :=
  list_to_map [(101%positive, [97; 0]); (102%positive, [98; 126; 0]); (103%positive, [65; 0]); (104%positive, [99; 47; 100; 0]);
               (201%positive, [47; 97; 47; 49; 47; 98; 126; 48; 0]);      (* /a/1/b~0 *)
               (202%positive, [47; 99; 126; 49; 100; 0]);                 (* /c~1d *)
               (203%positive, [47; 97; 47; 50; 0]);                       (* /a/2 *)
               (204%positive, [97; 0])].                                  (* a *)
Definition px_heap : heap := heap_of_forest px_F px_St.

Lemma px_MInv : MInv px_heap px_F.
Proof. apply heap_of_forest_MInv; vm_compute; reflexivity. Qed.
Lemma px_doc_node : px_doc ∈ nodes px_F.
Proof. apply roots_in_nodes. right. by left. Qed.
Lemma px_reads (b : positive) (s : bytes) :
  px_St !! b = Some s -> bool_decide (b ∈ owned px_F) = true -> existsb (Z.eqb 0) s = true -> CsReads px_heap (CAt b 0) (cstr s).
Proof.
  intros H1 H2 H3. apply CsReads_block; [|exact H1|exact H3]. unfold px_heap, heap_of_forest. cbn [h_live].
  apply elem_of_list_to_set. by apply bool_decide_eq_true in H2.
Qed.

(** the four pointers, resolved by the heap-level code (case-sensitive; the last line: case-insensitive "/a" finds
    member "a" first, and "/A" case-sensitively finds node 6) *)
Lemma px_runs :
  out_val (get_item_from_pointer (Some 1%positive) (CAt 201 0) true px_heap) = Some (Some 5%positive) /\
  out_val (get_item_from_pointer (Some 1%positive) (CAt 202 0) true px_heap) = Some (Some 7%positive) /\
  out_val (get_item_from_pointer (Some 1%positive) (CAt 203 0) true px_heap) = Some None /\
  out_val (get_item_from_pointer (Some 1%positive) (CAt 204 0) true px_heap) = Some None /\
  out_val (get_item_from_pointer (Some 1%positive) (CAt 201 2) true px_heap) = Some None /\
  out_val (get_item_from_pointer (Some 2%positive) (CAt 201 2) true px_heap) = Some (Some 5%positive).
Proof. vm_compute. done. Qed.

(** … and by the value-level model on the reified document *)
Lemma px_values :
  PointerDefs.get_item_from_pointer (reify px_St px_doc) [47; 97; 47; 49; 47; 98; 126; 48] true = Some [0; 1; 0]%nat /\
  PointerDefs.get_item_from_pointer (reify px_St px_doc) [47; 99; 126; 49; 100] true = Some [2]%nat /\
  PointerDefs.get_item_from_pointer (reify px_St px_doc) [47; 97; 47; 50] true = None /\
  PointerDefs.get_item_from_pointer (reify px_St px_doc) [97] true = None /\
  tid <$> subtree_t px_doc [0; 1; 0]%nat = Some 5%positive /\ tid <$> subtree_t px_doc [2]%nat = Some 7%positive.
Proof. vm_compute. done. Qed.

(** the hypotheses of [get_item_from_pointer_refines] hold for them, and the theorem's right-hand side is what was computed *)
Lemma px_stage1 :
  MInv px_heap px_F /\ px_doc ∈ nodes px_F /\
  CsReads px_heap (CAt 201 0) [47; 97; 47; 49; 47; 98; 126; 48] /\
  get_item_from_pointer (Some 1%positive) (CAt 201 0) true px_heap = Ret (Some 5%positive, px_heap).
Proof.
  split; [exact px_MInv|]. split; [exact px_doc_node|].
  assert (R : CsReads px_heap (CAt 201 0) [47; 97; 47; 49; 47; 98; 126; 48]).
  { exact (px_reads 201 [47; 97; 47; 49; 47; 98; 126; 48; 0] eq_refl eq_refl eq_refl). }
  split; [exact R|].
  change (Some 1%positive) with (Some (tid px_doc)).
  rewrite (get_item_from_pointer_refines px_heap px_F px_MInv px_doc _ _ true px_doc_node R).
  f_equal.
Qed.
