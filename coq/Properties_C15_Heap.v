(** Properties_C15_Heap.v — property C15 AT HEAP LEVEL (companion of Properties_C15.v): the JSON Pointer functions
    of cJSON_Utils.c on the heap model.  Lookup: [cJSONUtils_GetPointer] / [cJSONUtils_GetPointerCaseSensitive]
    (PatchHeapDefs.v, thin wrappers around the heap-level [get_item_from_pointer]).  Construction:
    [cJSONUtils_FindPointerFromObjectTo] (PointerHeapDefs.v: the recursive search, the cJSON_malloc'ed blocks of
    every level, sprintf("/%lu%s") as a checked store, pointer_encoded_length / encode_string_as_pointer /
    strcat with checked stores, cJSON_free of the child's pointer on every level).  Only statements closed by
    [exact]. *)
From CJ Require Import Base Dbl Heap Forest CoreDefs CoreRefineBase CoreRefineDupBase CoreRefineDupValue CoreRefineDupForest.
From CJ Require Import MergeHeapDefs MergeHeapInv MergeHeapEx PatchHeapDefs PatchHeapPointer.
From CJ Require Import CompareHeapViewDefs PointerHeapDefs PointerHeapProofs PointerHeapForest PointerHeapEx.
From CJ Require Tree PointerDefs.
From stdpp Require Import gmap.

(** ** lookup *)

(** the two entry points: no error outcome, the heap untouched, the node the value-level model designates
    (NULL exactly when it designates none) *)
Theorem C15_heap_get_pointer : forall h F t c nm,
  MInv h F -> t ∈ nodes F -> CsReads h c nm ->
  cJSONUtils_GetPointer (Some (tid t)) c h =
    Ret (tid <$> (PointerDefs.cJSONUtils_GetPointer (reify (h_str h) t) nm ≫= subtree_t t), h) /\
  cJSONUtils_GetPointerCaseSensitive (Some (tid t)) c h =
    Ret (tid <$> (PointerDefs.cJSONUtils_GetPointerCaseSensitive (reify (h_str h) t) nm ≫= subtree_t t), h).
Proof. exact get_pointer_refines. Qed.
Print Assumptions C15_heap_get_pointer.

(** C15_resolve transferred: the case-sensitive heap-level lookup returns exactly the node RFC 6901 designates
    in the reified document, and NULL for everything else *)
Theorem C15_heap_resolve : forall h F t c nm,
  MInv h F -> t ∈ nodes F -> CsReads h c nm -> PointerDefs.small_arrays (reify (h_str h) t) ->
  cJSONUtils_GetPointerCaseSensitive (Some (tid t)) c h =
    Ret (tid <$> (PointerDefs.rfc6901 (reify (h_str h) t) nm ≫= subtree_t t), h).
Proof. exact get_pointer_rfc6901. Qed.
Print Assumptions C15_heap_resolve.

(** NULL pointer text, NULL object *)
Theorem C15_heap_get_null_pointer : forall object flag h, get_item_from_pointer object CNull flag h = Ret (None, h).
Proof. exact get_pointer_null_pointer. Qed.
Print Assumptions C15_heap_get_null_pointer.
Theorem C15_heap_get_null_object : forall h c nm flag, CsReads h c nm -> get_item_from_pointer None c flag h = Ret (None, h).
Proof. exact get_pointer_null_object. Qed.
Print Assumptions C15_heap_get_null_object.

(** ** construction *)

(** the heap-level search refines the value-level one: for the never-failing allocator and ANY contents of
    fresh memory, from a node of a well-formed forest with readable strings (no borrowed child pointers, object
    members named, fewer than ULONG_MAX + 1 children per node) to the node at path [tp] below it: the call
    returns (no memory error: the block sizes the C code computes suffice for every write) NULL or a block,
    as — and reading as the C string that — [PointerDefs.cJSONUtils_FindPointerFromObjectTo] says; [FPost]:
    the node maps are not written, every existing string keeps its contents, the live set grows by exactly
    the result block (by nothing for NULL): all temporaries are released *)
Theorem C15_heap_find_refines : forall h F junk,
  WF h F -> strings_readable h F -> Closed h -> (forall n, length (junk n) = n) -> forall troot tp tq,
  troot ∈ nodes F -> no_borrowed troot -> members_named troot -> small_nodes troot ->
  subtree_t troot tp = Some tq ->
  exists res h',
    cJSONUtils_FindPointerFromObjectTo nofail junk (Some (tid troot)) (Some (tid tq)) h = Ret (res, h') /\
    FPost h h' res (PointerDefs.cJSONUtils_FindPointerFromObjectTo (reify (h_str h) troot) tp) /\ Closed h'.
Proof. exact find_pointer_refines. Qed.
Print Assumptions C15_heap_find_refines.

(** a target that is not below the object: NULL, nothing stays allocated *)
Theorem C15_heap_find_absent : forall h F junk,
  WF h F -> strings_readable h F -> Closed h -> (forall n, length (junk n) = n) -> forall troot (q : positive),
  troot ∈ nodes F -> no_borrowed troot -> members_named troot -> small_nodes troot -> q ∉ ids_t troot ->
  exists h', cJSONUtils_FindPointerFromObjectTo nofail junk (Some (tid troot)) (Some q) h = Ret (None, h') /\
    FPost h h' None None.
Proof. exact find_pointer_absent. Qed.
Print Assumptions C15_heap_find_absent.

Theorem C15_heap_find_null : forall oracle junk object target h,
  cJSONUtils_FindPointerFromObjectTo oracle junk None target h = Ret (None, h) /\
  cJSONUtils_FindPointerFromObjectTo oracle junk object None h = Ret (None, h).
Proof. exact find_pointer_null. Qed.
Print Assumptions C15_heap_find_null.

(** the view form: any heap that READS as the labelled tree [c] from the object, any recursion fuel above its
    depth (this is the statement the recursion proves) *)
Theorem C15_heap_find_view : forall junk, (forall n, length (junk n) = n) -> forall (q : positive) lf lfuel, lf <= lfuel ->
  forall k df c, k < df -> forall g, fview g lf k c -> members_named c -> small_nodes c -> Closed g ->
  exists res g', FindPointerFromObjectTo_fuel nofail junk df lfuel (Some (tid c)) (Some q) g = Ret (res, g') /\
    FPost g g' res (find_ptr_t (h_str g) c q) /\ Closed g'.
Proof. exact fp_view. Qed.
Print Assumptions C15_heap_find_view.

(** the ledger: exactly one new live library block — the result — or none *)
Theorem C15_heap_find_ledger : forall g g' res v, Closed g -> FPost g g' res v ->
  match res with
  | Some r => r ∉ h_live g /\ lib_live g' = {[r]} ∪ lib_live g
  | None => lib_live g' = lib_live g
  end.
Proof. exact find_pointer_ledger. Qed.
Print Assumptions C15_heap_find_ledger.

(** the result block belongs to the caller: cJSON_free of it restores the memory *)
Theorem C15_heap_find_then_free : forall g g' r p, Closed g -> FPost g g' (Some r) (Some p) -> Closed g' ->
  cJSON_free (Some r) g' = Ret (tt, free1 r g') /\ FPost g (free1 r g') None None.
Proof. exact find_then_free. Qed.
Print Assumptions C15_heap_find_then_free.

(** the hypotheses on the tree follow from those of C15_construct on the reified document *)
Theorem C15_heap_small_nodes : forall St x, PointerDefs.small_arrays (reify St x) -> small_nodes x.
Proof. exact small_nodes_of_value. Qed.
Print Assumptions C15_heap_small_nodes.
Theorem C15_heap_members_named : forall St x, PointerDefs.keys_ok (reify St x) -> members_named x.
Proof. exact members_named_of_value. Qed.
Print Assumptions C15_heap_members_named.

(** ** inversion: C15_construct at heap level *)

(** for every node below a document (hypotheses of C15_construct on the reified document), the search hands
    back a block; the invariant holds in the heap it leaves behind; and the HEAP-LEVEL case-sensitive lookup,
    run in that heap on that block, returns the target node itself; the text is the RFC 6901 pointer of the
    node *)
Theorem C15_heap_construct : forall h F junk troot tp tq,
  MInv h F -> (forall n, length (junk n) = n) -> troot ∈ nodes F -> subtree_t troot tp = Some tq ->
  PointerDefs.small_arrays (reify (h_str h) troot) -> PointerDefs.keys_ok (reify (h_str h) troot) ->
  PointerDefs.containers_ok (reify (h_str h) troot) ->
  exists (r : positive) h' p,
    cJSONUtils_FindPointerFromObjectTo nofail junk (Some (tid troot)) (Some (tid tq)) h = Ret (Some r, h') /\
    FPost h h' (Some r) (Some p) /\ MInv h' F /\ CsReads h' (CAt r 0) p /\
    PointerDefs.cJSONUtils_FindPointerFromObjectTo (reify (h_str h) troot) tp = Some p /\
    PointerDefs.rfc6901 (reify (h_str h) troot) p = Some tp /\
    cJSONUtils_GetPointerCaseSensitive (Some (tid troot)) (CAt r 0) h' = Ret (Some (tid tq), h').
Proof. exact find_then_get. Qed.
Print Assumptions C15_heap_construct.

(** the invariant of the Utils proofs survives any such search *)
Theorem C15_heap_invariant_kept : forall h h' F res v, MInv h F -> FPost h h' res v -> Closed h' -> MInv h' F.
Proof. exact MInv_after_find. Qed.
Print Assumptions C15_heap_invariant_kept.

(** non-vacuity: the document of Properties_C15.v on a concrete heap, fresh memory filled with 0xAA; the code
    is run: four blocks allocated, three released, the result reads "/a~1b/2/~0" and resolves back to node 7 *)
Theorem C15_heap_nonvacuous :
  MInv exp_heap exp_F /\ (forall n, length (exp_junk n) = n) /\ exp_root ∈ nodes exp_F /\
  subtree_t exp_root [1; 2; 0]%nat = Some exp_target /\
  PointerDefs.small_arrays (reify (h_str exp_heap) exp_root) /\ PointerDefs.keys_ok (reify (h_str exp_heap) exp_root) /\
  PointerDefs.containers_ok (reify (h_str exp_heap) exp_root) /\
  out_val exp_find = Some (Some 1003%positive) /\
  h_str exp_after !! 1003%positive = Some [47; 97; 126; 49; 98; 47; 50; 47; 126; 48; 0]%Z /\
  elements (h_live exp_after ∖ h_live exp_heap) = [1003%positive] /\
  out_val exp_get = Some (Some 7%positive) /\
  out_val exp_absent = Some None.
Proof. exact pointer_heap_nonvacuous. Qed.
Print Assumptions C15_heap_nonvacuous.

(** ** what the hypotheses exclude (model and code agree; each run on /repo with an ASan probe or listed in DESIGN 11.6) *)

(** [members_named] is needed: an "object" with a member without name (cJSON_AddItemToArray(object, item)):
    [pointer_encoded_length(current_child->string)] reads through NULL *)
Theorem C15_heap_keyless_null_deref :
  MInv exk_heap exk_F /\ exk_root ∈ nodes exk_F /\ subtree_t exk_root [0%nat] = Some exk_member /\
  small_nodes exk_root /\ ~ members_named exk_root /\
  out_err (cJSONUtils_FindPointerFromObjectTo nofail exp_junk (Some 1%positive) (Some 2%positive) exk_heap) = Some NullDeref /\
  PointerDefs.cJSONUtils_FindPointerFromObjectTo (reify (h_str exk_heap) exk_root) [0%nat] = None.
Proof. exact keyless_member_null_deref. Qed.
Print Assumptions C15_heap_keyless_null_deref.

(** the never-failing allocator is needed: with the second request refused, [full_pointer[0] = '/'] writes through NULL *)
Theorem C15_heap_alloc_failure_observed :
  out_err (cJSONUtils_FindPointerFromObjectTo exp_oracle2 exp_junk (Some 1%positive) (Some 7%positive) exp_heap) = Some NullDeref.
Proof. exact alloc_failure_null_deref. Qed.
Print Assumptions C15_heap_alloc_failure_observed.
