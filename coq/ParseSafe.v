(** ParseSafe.v — safety of the transliterated parser (ParseDefs.v): for every input, every
    declared length inside the memory object, every allocation-failure schedule and every
    strtod satisfying [strtod_ok], no checked access fails ([OOB]), every loop terminates within
    the fuel the entry point supplies ([OutOfFuel]), the depth counter stays bounded and the
    allocation ledger balances.  One lemma per model function, all in the form
    [good P Q m]: the outcome [m] is [Ok a] with [P a], is never [OOB], and is [OutOfFuel]
    only when [Q] (a lower bound on the missing fuel) holds. *)
From CJ Require Import Base Dbl Tree LibcNum ParseDefs.
Local Open Scope Z_scope.

(** * Outcome predicate *)
Definition good {A} (P : A -> Prop) (Q : Prop) (m : res A) : Prop :=
  match m with Ok a => P a | OOB => False | OutOfFuel => Q end.

Lemma good_bind {A B} (m : res A) (f : A -> res B) (P1 : A -> Prop) (Q1 : Prop) (P : B -> Prop) (Q : Prop) :
  good P1 Q1 m -> (forall a, P1 a -> good P Q (f a)) -> (Q1 -> Q) -> good P Q (bind m f).
Proof. destruct m as [a| |]; cbn [good bind]; intros H1 H2 H3; auto. Qed.

Lemma good_weaken {A} (m : res A) (P P' : A -> Prop) (Q Q' : Prop) :
  good P Q m -> (forall a, P a -> P' a) -> (Q -> Q') -> good P' Q' m.
Proof. destruct m as [a| |]; cbn [good]; intros H1 H2 H3; auto. Qed.

Lemma good_ok_inv {A} (m : res A) (P : A -> Prop) (Q : Prop) a : good P Q m -> m = Ok a -> P a.
Proof. intros H E. subst m. exact H. Qed.

Lemma good_exists {A} (m : res A) (P : A -> Prop) : good P False m -> exists a, m = Ok a /\ P a.
Proof. destruct m as [a| |]; cbn [good]; intros H; try contradiction. eauto. Qed.

(** * The ledger on trees *)
Lemma blocks_node t vs vi vd k ch :
  blocks (Node t vs vi vd k ch) =
  1 + (match vs with Some _ => 1 | None => 0 end) + (match k with Some _ => 1 | None => 0 end) + blocks_list ch.
Proof.
  reflexivity.
Qed.

Lemma blocks_list_cons v a : blocks_list (v :: a) = blocks v + blocks_list a.
Proof. reflexivity. Qed.

Lemma blocks_list_app a b : blocks_list (a ++ b) = blocks_list a + blocks_list b.
Proof.
  induction a as [|x a IH]; [reflexivity|].
  rewrite <- app_comm_cons, !blocks_list_cons, IH. lia.
Qed.

Lemma blocks_list_rev a : blocks_list (rev a) = blocks_list a.
Proof.
  induction a as [|x a IH]; cbn [rev]; [reflexivity|].
  rewrite blocks_list_app, IH, !blocks_list_cons. change (blocks_list []) with 0. lia.
Qed.

Lemma blocks_with_key k v : n_key v = None -> blocks (with_key k v) = blocks v + 1.
Proof.
  destruct v as [t vs vi vd k0 ch]. cbn [n_key with_key]. intros ->.
  rewrite !blocks_node. lia.
Qed.

Section Safe.
  Variable strtod : bytes -> option (dbl * nat).
  Variable oracle : nat -> bool.
  Variable content : bytes.
  Variable len : nat.
  Hypothesis Hstrtod : strtod_ok strtod.
  Hypothesis Hlen : (len <= length content)%nat.

  Notation rdb := (rdb content len).
  Notation alloc := (alloc oracle).

  (** ** reads *)
  Lemma rdb_ok i : (i < len)%nat -> exists c, rdb i = Ok c /\ nth_error content i = Some c.
  Proof.
    intros H. unfold ParseDefs.rdb, rd.
    destruct (Nat.ltb_spec i len) as [_|H']; [|lia].
    destruct (nth_error content i) as [c|] eqn:E; [eauto|].
    apply nth_error_None in E. lia.
  Qed.

  Lemma rdb_inv i c : rdb i = Ok c -> (i < len)%nat /\ nth_error content i = Some c.
  Proof.
    unfold ParseDefs.rdb, rd. destruct (Nat.ltb_spec i len) as [H|H]; [|discriminate].
    destruct (nth_error content i) as [c'|]; [|discriminate]. intros E; inversion E; subst. auto.
  Qed.

  Lemma can_access_spec s i : can_access len s i = true <-> (off s + i < len)%nat.
  Proof. unfold can_access. apply Nat.ltb_lt. Qed.
  Lemma can_access_false s i : can_access len s i = false <-> (len <= off s + i)%nat.
  Proof. unfold can_access. apply Nat.ltb_ge. Qed.
  Lemma can_read_spec s i : can_read len s i = true <-> (off s + i <= len)%nat.
  Proof. unfold can_read. apply Nat.leb_le. Qed.

  Lemma alloc_spec s ok s1 : alloc s = (ok, s1) ->
    off s1 = off s /\ dep s1 = dep s /\ live s1 = live s + (if ok then 1 else 0).
  Proof.
    unfold ParseDefs.alloc. destruct (oracle (req s)); intros E; inversion E; subst; cbn; lia.
  Qed.

  (** ** match_lit *)
  Lemma match_lit_ok lit : forall i, (i + length lit <= len)%nat -> exists b, match_lit content len i lit = Ok b.
  Proof.
    induction lit as [|l r IH]; intros i H; cbn [match_lit length] in *; [eauto|].
    destruct (rdb_ok i) as [c [Hc _]]; [lia|]. rewrite Hc. cbn [bind].
    destruct (c =? l); [|eauto]. apply IH. lia.
  Qed.

  Lemma lit_guard_ok s n lit : length lit = n ->
    exists b, (if can_read len s n then match_lit content len (off s) lit else Ok false) = Ok b
              /\ (b = true -> (off s + n <= len)%nat).
  Proof.
    intros Hn. destruct (can_read len s n) eqn:E.
    - apply can_read_spec in E. destruct (match_lit_ok lit (off s)) as [b Hb]; [lia|].
      exists b. auto.
    - exists false. split; [reflexivity|discriminate].
  Qed.

  (** ** whitespace *)
  Definition ws_post (s s' : pst) : Prop :=
    dep s' = dep s /\ live s' = live s /\ (off s <= off s')%nat /\
    ((off s < len)%nat -> (off s' < len)%nat) /\ ((len <= off s)%nat -> off s' = off s).

  Definition skip_post (s s' : pst) : Prop :=
    dep s' = dep s /\ live s' = live s /\ (off s <= off s')%nat /\
    ((off s <= len)%nat -> (off s' <= len)%nat).

  Lemma skip_ws_loop_good fuel : forall s,
    good (skip_post s) (fuel <= len - off s)%nat (skip_ws_loop content len fuel s).
  Proof.
    induction fuel as [|f IH]; intros s; cbn [skip_ws_loop good]; [lia|].
    destruct (can_access len s 0) eqn:E.
    - apply can_access_spec in E.
      destruct (rdb_ok (off s)) as [c [Hc _]]; [lia|]. rewrite Hc. cbn [bind].
      destruct (c <=? 32).
      + eapply good_weaken; [apply IH| |].
        * intros s' (H1 & H2 & H3 & H4). cbn [off dep live add_off set_off] in *.
          repeat split; try assumption; lia.
        * cbn [off add_off set_off]. lia.
      + cbn [good]. repeat split; lia.
    - cbn [good]. repeat split; lia.
  Qed.

  Lemma bsw_good s : good (ws_post s) False (buffer_skip_whitespace content len s).
  Proof.
    unfold buffer_skip_whitespace. destruct (can_access len s 0) eqn:E; cbn [negb].
    - apply can_access_spec in E.
      eapply good_bind; [apply skip_ws_loop_good| |lia].
      intros s' (H1 & H2 & H3 & H4).
      destruct (Nat.eqb_spec (off s') len) as [E'|E']; cbn [good]; unfold ws_post;
        cbn [off dep live set_off]; repeat split; try assumption; lia.
    - apply can_access_false in E. cbn [good]. unfold ws_post. repeat split; lia.
  Qed.

  Lemma rnt_skip_good fuel : forall s,
    good (skip_post s) (fuel <= len - off s)%nat (rnt_skip content len fuel s).
  Proof.
    induction fuel as [|f IH]; intros s; cbn [rnt_skip good]; [lia|].
    destruct (can_access len s 0) eqn:E.
    - apply can_access_spec in E.
      destruct (rdb_ok (off s)) as [c [Hc _]]; [lia|]. rewrite Hc. cbn [bind].
      destruct (negb (c =? 0) && (c <=? 32)).
      + eapply good_weaken; [apply IH| |].
        * intros s' (H1 & H2 & H3 & H4). cbn [off dep live add_off set_off] in *.
          repeat split; try assumption; lia.
        * cbn [off add_off set_off]. lia.
      + cbn [good]. repeat split; lia.
    - cbn [good]. repeat split; lia.
  Qed.

  Lemma skip_utf8_bom_good s : good (skip_post s) False (skip_utf8_bom content len s).
  Proof.
    unfold skip_utf8_bom. destruct (can_access len s 2) eqn:E.
    - apply can_access_spec in E.
      destruct (match_lit_ok [239; 187; 191] (off s)) as [b Hb]; [cbn [length]; lia|].
      rewrite Hb. cbn [bind]. destruct b; cbn [good]; unfold skip_post;
        cbn [off dep live add_off set_off]; repeat split; lia.
    - cbn [good]. unfold skip_post. repeat split; lia.
  Qed.

  (** ** numbers *)
  Lemma number_copy_ok fuel s : forall i,
    exists r, number_copy content len fuel s i = Ok r /\ (r = [] \/ (off s + i + length r <= len)%nat).
  Proof.
    induction fuel as [|f IH]; intros i; cbn [number_copy]; [eauto|].
    destruct (can_access len s i) eqn:E; [|eauto].
    apply can_access_spec in E.
    destruct (rdb_ok (off s + i)) as [c [Hc _]]; [lia|]. rewrite Hc. cbn [bind].
    destruct (number_byte c); [|eauto].
    destruct (IH (S i)) as [r [Hr Hl]]. rewrite Hr. cbn [bind].
    exists (c :: r). split; [reflexivity|]. right. cbn [length].
    destruct Hl as [->|Hl]; cbn [length]; lia.
  Qed.

  (** ** the post-condition of parse_value (and of every value parser it dispatches to):
      depth restored on success and bounded on failure; the key is unset; on success the
      ledger grew by the blocks of the value minus the item node (allocated by the caller),
      on failure it is unchanged; the offset moved forward and stays within [len]. *)
  Definition pv_post (s : pst) (r : option node) (s' : pst) : Prop :=
    (0 <= dep s <= c_CJSON_NESTING_LIMIT ->
       match r with Some _ => dep s' = dep s | None => 0 <= dep s' <= c_CJSON_NESTING_LIMIT + 1 end) /\
    match r with
    | Some v => n_key v = None /\ live s' = live s + blocks v - 1 /\ (off s <= off s')%nat /\ (off s' <= len)%nat
    | None => live s' = live s
    end.
  Definition pv_good (Q : Prop) (s : pst) (m : res (option node * pst)) : Prop :=
    good (fun x => pv_post s (fst x) (snd x)) Q m.

  Lemma parse_number_good s : pv_good False s (parse_number strtod content len s).
  Proof.
    unfold pv_good, parse_number.
    destruct (number_copy_ok (Z.to_nat (c_NUMBER_C_STRING_SIZE - 1)) s 0%nat) as [r [Hr Hl]].
    rewrite Hr. cbn [bind]. destruct (strtod r) as [[d k]|] eqn:E.
    - apply Hstrtod in E. cbn [good fst snd]. unfold pv_post. split.
      + intros _. reflexivity.
      + split; [reflexivity|]. rewrite blocks_node. cbn [live off add_off set_off blocks_list fold_right].
        destruct Hl as [->|Hl]; cbn [length] in *; lia.
    - cbn [good fst snd]. unfold pv_post. split; [lia|reflexivity].
  Qed.

  (** ** hexadecimal escapes *)
  Definition plain (p : nat) : Prop := exists c, rdb p = Ok c /\ c <> 34 /\ c <> 92.
  Definition plain4 (p : nat) : Prop := plain p /\ plain (p + 1) /\ plain (p + 2) /\ plain (p + 3).

  Lemma hex_plain c h : hex_val c = Some h -> c <> 34 /\ c <> 92.
  Proof. intros H; split; intros ->; vm_compute in H; discriminate H. Qed.

  Lemma is_hex4_good i : (i + 3 < len)%nat ->
    good (fun b => b = true -> plain4 i) False (is_hex4 content len i).
  Proof.
    intros H. unfold is_hex4.
    destruct (rdb_ok i) as [a [Ha _]]; [lia|].
    destruct (rdb_ok (i + 1)) as [b [Hb _]]; [lia|].
    destruct (rdb_ok (i + 2)) as [c [Hc _]]; [lia|].
    destruct (rdb_ok (i + 3)) as [d [Hd _]]; [lia|].
    rewrite Ha, Hb, Hc, Hd. cbn [bind good].
    destruct (hex_val a) as [ha|] eqn:Ea; [|discriminate].
    destruct (hex_val b) as [hb|] eqn:Eb; [|discriminate].
    destruct (hex_val c) as [hc|] eqn:Ec; [|discriminate].
    destruct (hex_val d) as [hd|] eqn:Ed; [|discriminate].
    intros _. unfold plain4, plain.
    apply hex_plain in Ea, Eb, Ec, Ed. repeat split; eauto.
  Qed.

  Lemma parse_hex4_good i : (i + 3 < len)%nat ->
    good (fun v => v <> 0 -> plain4 i) False (parse_hex4 content len i).
  Proof.
    intros H. unfold parse_hex4.
    destruct (rdb_ok i) as [a [Ha _]]; [lia|].
    destruct (rdb_ok (i + 1)) as [b [Hb _]]; [lia|].
    destruct (rdb_ok (i + 2)) as [c [Hc _]]; [lia|].
    destruct (rdb_ok (i + 3)) as [d [Hd _]]; [lia|].
    rewrite Ha. cbn [bind].
    destruct (hex_val a) as [ha|] eqn:Ea; [|cbn [good]; congruence].
    rewrite Hb. cbn [bind].
    destruct (hex_val b) as [hb|] eqn:Eb; [|cbn [good]; congruence].
    rewrite Hc. cbn [bind].
    destruct (hex_val c) as [hc|] eqn:Ec; [|cbn [good]; congruence].
    rewrite Hd. cbn [bind].
    destruct (hex_val d) as [hd|] eqn:Ed; [|cbn [good]; congruence].
    cbn [good]. intros _. unfold plain4, plain.
    apply hex_plain in Ea, Eb, Ec, Ed. repeat split; eauto.
  Qed.

  Lemma utf8_encode_len cp b : utf8_encode_c cp = Some b -> (length b <= 4)%nat.
  Proof.
    unfold utf8_encode_c.
    destruct (cp <? 128); [intros E; inversion E; cbn [length]; lia|].
    destruct (cp <? 2048); [intros E; inversion E; cbn [length]; lia|].
    destruct (cp <? 65536); [intros E; inversion E; cbn [length]; lia|].
    destruct (cp <=? 1114111); [intros E; inversion E; cbn [length]; lia|discriminate].
  Qed.

  Definition u16_post (ip ie : nat) (u : option (nat * bytes)) : Prop :=
    match u with
    | None => True
    | Some (seq, b) =>
        (length b <= 4)%nat /\
        ((seq = 6%nat /\ (ip + 6 <= ie)%nat /\ plain4 (ip + 2)) \/
         (seq = 12%nat /\ (ip + 12 <= ie)%nat /\ plain4 (ip + 2) /\ rdb (ip + 6) = Ok 92 /\ plain4 (ip + 6 + 2)))
    end.

  Lemma utf16_good ip ie : (ie <= len)%nat ->
    good (u16_post ip ie) False (utf16_literal_to_utf8 content len ip ie).
  Proof.
    intros Hie. unfold utf16_literal_to_utf8.
    destruct (Nat.ltb_spec (ie - ip) 6) as [H6|H6]; [exact I|].
    eapply good_bind; [apply is_hex4_good; lia| |tauto].
    intros h Hh. destruct h; cbn [negb]; [|exact I].
    specialize (Hh eq_refl).
    eapply good_bind; [apply parse_hex4_good; lia| |tauto].
    intros fc _.
    destruct ((56320 <=? fc) && (fc <=? 57343)); [exact I|].
    destruct ((55296 <=? fc) && (fc <=? 56319)).
    - destruct (Nat.ltb_spec (ie - (ip + 6)) 6) as [H12|H12]; [exact I|].
      destruct (rdb_ok (ip + 6)) as [c0 [Hc0 _]]; [lia|]. rewrite Hc0. cbn [bind].
      destruct (Z.eqb_spec c0 92) as [->|N0]; cbn [negb]; [|exact I].
      destruct (rdb_ok (ip + 6 + 1)) as [c1 [Hc1 _]]; [lia|]. rewrite Hc1. cbn [bind].
      destruct (c1 =? 117); cbn [negb]; [|exact I].
      eapply good_bind; [apply parse_hex4_good; lia| |tauto].
      intros sc Hsc.
      destruct (Z.ltb_spec sc 56320) as [Hlo|Hlo]; cbn [orb]; [exact I|].
      destruct (sc >? 57343); [exact I|].
      destruct (utf8_encode_c _) as [b|] eqn:Eb; cbn [good u16_post]; [|exact I].
      split; [eapply utf8_encode_len; exact Eb|]. right.
      repeat split; try assumption; try lia; apply Hh || (apply Hsc; lia).
    - destruct (utf8_encode_c fc) as [b|] eqn:Eb; cbn [good u16_post]; [|exact I].
      split; [eapply utf8_encode_len; exact Eb|]. left.
      repeat split; try lia; apply Hh.
  Qed.

  (** ** strings: what the first pass establishes about the bytes up to the closing quote.
      [scanned ie p k]: walking from [p] the scan reaches the closing quote at [ie] after
      [k] backslash steps. *)
  Inductive scanned (ie : nat) : nat -> nat -> Prop :=
  | sc_end : (ie < len)%nat -> rdb ie = Ok 34 -> scanned ie ie 0
  | sc_esc p k : rdb p = Ok 92 -> (p + 1 < len)%nat -> scanned ie (p + 2) k -> scanned ie p (S k)
  | sc_chr p k c : rdb p = Ok c -> c <> 34 -> c <> 92 -> scanned ie (p + 1) k -> scanned ie p k.

  Lemma scanned_bound ie p k : scanned ie p k -> (p + 2 * k <= ie)%nat /\ (ie < len)%nat.
  Proof. induction 1 as [H1 H2|p k H1 H2 H3 IH|p k c H1 H2 H3 H4 IH]; lia. Qed.

  Lemma scanned_eq ie p p' k : scanned ie p k -> p = p' -> scanned ie p' k.
  Proof. intros H <-. exact H. Qed.

  Lemma scanned_inv ie p k c : scanned ie p k -> rdb p = Ok c ->
    (p = ie /\ k = 0%nat /\ c = 34) \/
    (c = 92 /\ exists k', k = S k' /\ (p + 1 < len)%nat /\ scanned ie (p + 2) k') \/
    (c <> 34 /\ c <> 92 /\ scanned ie (p + 1) k).
  Proof.
    intros H Hc. destruct H as [H1 H2|p k H1 H2 H3|p k c' H1 H2 H3 H4].
    - left. rewrite H2 in Hc. inversion Hc. auto.
    - right. left. rewrite H1 in Hc. inversion Hc. eauto.
    - right. right. rewrite H1 in Hc. inversion Hc; subst. auto.
  Qed.

  Lemma scanned_plain ie p k : scanned ie p k -> plain p -> scanned ie (p + 1) k.
  Proof.
    intros H (c & Hc & N1 & N2).
    destruct (scanned_inv _ _ _ _ H Hc) as [(_ & _ & E)|[(E & _)|(_ & _ & H')]]; congruence || exact H'.
  Qed.

  Lemma scanned_plain4 ie p k : scanned ie p k -> plain4 p -> scanned ie (p + 4) k.
  Proof.
    intros H (P0 & P1 & P2 & P3).
    apply scanned_plain in H; [|exact P0].
    apply scanned_plain in H; [|exact P1].
    eapply scanned_eq in H; [|instantiate (1 := (p + 2)%nat); lia].
    apply scanned_plain in H; [|exact P2].
    eapply scanned_eq in H; [|instantiate (1 := (p + 3)%nat); lia].
    apply scanned_plain in H; [|exact P3].
    eapply scanned_eq; [exact H|lia].
  Qed.

  Lemma string_scan_good fuel : forall p sk,
    good (fun r => match r with
                   | None => True
                   | Some (ie, sk') => exists k, sk' = (sk + k)%nat /\ scanned ie p k
                   end)
         (fuel <= len - p)%nat (string_scan content len fuel p sk).
  Proof.
    induction fuel as [|f IH]; intros p sk; cbn [string_scan good]; [lia|].
    destruct (Nat.ltb_spec p len) as [Hp|Hp]; [|exact I].
    destruct (rdb_ok p Hp) as [c [Hc _]]. rewrite Hc. cbn [bind].
    destruct (Z.eqb_spec c 34) as [->|N34].
    - cbn [good]. exists 0%nat. split; [lia|]. apply sc_end; assumption.
    - destruct (Z.eqb_spec c 92) as [->|N92].
      + destruct (Nat.leb_spec len (p + 1)) as [Hl|Hl]; [exact I|].
        eapply good_weaken; [apply IH| |lia].
        intros [[ie sk']|]; [|trivial]. intros (k & -> & Hs).
        exists (S k). split; [lia|]. apply sc_esc; assumption.
      + eapply good_weaken; [apply IH| |lia].
        intros [[ie sk']|]; [|trivial]. intros (k & -> & Hs).
        exists k. split; [lia|]. eapply sc_chr; eassumption.
  Qed.

  Lemma put_ok cap out b : (length out + length b <= cap)%nat -> put cap out b = Ok (out ++ b).
  Proof. intros H. unfold put. destruct (Nat.leb_spec (length out + length b) cap); [reflexivity|lia]. Qed.

  Lemma string_decode_good fuel : forall cap ip ie out k,
    scanned ie ip k -> (length out + (ie - ip - k) + 1 <= cap)%nat ->
    good (fun _ => True) (fuel <= ie - ip)%nat (string_decode content len fuel cap ip ie out).
  Proof.
    induction fuel as [|f IH]; intros cap ip ie out k Hsc Hcap; cbn [string_decode good]; [lia|].
    destruct (scanned_bound _ _ _ Hsc) as [Hb Hie].
    destruct (Nat.ltb_spec ip ie) as [Hlt|Hge].
    2:{ rewrite put_ok by (cbn [length]; lia). exact I. }
    destruct (rdb_ok ip) as [c [Hc _]]; [lia|]. rewrite Hc. cbn [bind].
    destruct (scanned_inv _ _ _ _ Hsc Hc) as [(E & _)|[(-> & k' & -> & Hp1 & Hsc')|(N34 & N92 & Hsc')]]; [lia| |].
    - (* escape *)
      cbn [Z.eqb Pos.eqb negb].
      destruct (scanned_bound _ _ _ Hsc') as [Hb' _].
      destruct (rdb_ok (ip + 1) Hp1) as [e [He _]]. rewrite He. cbn [bind].
      assert (Hsimple : forall x, good (fun _ => True) (S f <= ie - ip)%nat
                 (o <- put cap out [x] ;; string_decode content len f cap (ip + 2) ie o)).
      { intros x. rewrite put_ok by (cbn [length]; lia). cbn [bind].
        eapply good_weaken; [eapply IH; [exact Hsc'|rewrite app_length; cbn [length]; lia]|trivial|lia]. }
      destruct (e =? 98); [apply Hsimple|].
      destruct (e =? 102); [apply Hsimple|].
      destruct (e =? 110); [apply Hsimple|].
      destruct (e =? 114); [apply Hsimple|].
      destruct (e =? 116); [apply Hsimple|].
      destruct ((e =? 34) || (e =? 92) || (e =? 47)); [apply Hsimple|].
      destruct (e =? 117); [|exact I].
      eapply good_bind; [apply utf16_good; lia| |tauto].
      intros [[seq b]|] Hu; [|exact I].
      destruct Hu as [Hlb [(-> & Hle & Hp4)|(-> & Hle & Hp4 & H92 & Hp4')]].
      + pose proof (scanned_plain4 _ _ _ Hsc' Hp4) as Hs6.
        eapply scanned_eq in Hs6; [|instantiate (1 := (ip + 6)%nat); lia].
        destruct (scanned_bound _ _ _ Hs6) as [Hb6 _].
        rewrite put_ok by lia. cbn [bind].
        eapply good_weaken; [eapply IH; [exact Hs6|rewrite app_length; lia]|trivial|lia].
      + pose proof (scanned_plain4 _ _ _ Hsc' Hp4) as Hs6.
        eapply scanned_eq in Hs6; [|instantiate (1 := (ip + 6)%nat); lia].
        destruct (scanned_inv _ _ _ _ Hs6 H92) as [(E & _)|[(_ & k2 & -> & _ & Hs8)|(_ & N & _)]];
          [lia| |congruence].
        pose proof (scanned_plain4 _ _ _ Hs8 Hp4') as Hs12.
        eapply scanned_eq in Hs12; [|instantiate (1 := (ip + 12)%nat); lia].
        destruct (scanned_bound _ _ _ Hs12) as [Hb12 _].
        rewrite put_ok by lia. cbn [bind].
        eapply good_weaken; [eapply IH; [exact Hs12|rewrite app_length; lia]|trivial|lia].
    - (* ordinary byte *)
      destruct (Z.eqb_spec c 92) as [E|_]; [congruence|]. cbn [negb].
      destruct (scanned_bound _ _ _ Hsc') as [Hb' _].
      rewrite put_ok by (cbn [length]; lia). cbn [bind].
      eapply good_weaken; [eapply IH; [eapply scanned_eq; [exact Hsc'|lia]|rewrite app_length; cbn [length]; lia]|trivial|lia].
  Qed.

  Definition str_post (s : pst) (k : option bytes) (s' : pst) : Prop :=
    dep s' = dep s /\
    match k with
    | Some _ => live s' = live s + 1 /\ (off s <= off s')%nat /\ (off s' <= len)%nat
    | None => live s' = live s
    end.

  Lemma parse_string_good s : (off s < len)%nat ->
    good (fun x => str_post s (fst x) (snd x)) False (parse_string oracle content len s).
  Proof.
    intros Hoff. unfold parse_string.
    destruct (rdb_ok (off s) Hoff) as [c0 [Hc0 _]]. rewrite Hc0. cbn [bind].
    destruct (c0 =? 34); cbn [negb].
    2:{ cbn [good fst snd]. unfold str_post. cbn [dep live set_off]. auto. }
    eapply good_bind; [apply string_scan_good| |lia].
    intros [[ie sk]|] Hs.
    2:{ cbn [good fst snd]. unfold str_post. cbn [dep live set_off]. auto. }
    destruct Hs as (k & -> & Hsc). cbn [Nat.add] in *.
    destruct (scanned_bound _ _ _ Hsc) as [Hb Hie].
    destruct (alloc s) as [ok s1] eqn:Ea. apply alloc_spec in Ea. destruct Ea as (A1 & A2 & A3).
    destruct ok; cbn [negb].
    2:{ cbn [good fst snd]. unfold str_post. cbn [dep live set_off]. split; [assumption|lia]. }
    eapply good_bind; [eapply string_decode_good; [exact Hsc|cbn [length]; lia]| |lia].
    intros [out|ip] _; cbn [good fst snd]; unfold str_post; cbn [dep live off set_off release].
    - repeat split; try assumption; lia.
    - split; [assumption|lia].
  Qed.

  (** ** containers, relative to a value parser [pv] that meets [pv_good] with fuel [pf] *)
  Section Containers.
    Variable pv : pst -> res (option node * pst).
    Variable pf : nat.
    Hypothesis Hpv : forall s, pv_good (pf <= len - off s)%nat s (pv s).

    Definition lp_post (s : pst) (acc : list node) (r : option (list node)) (s' : pst) : Prop :=
      (0 <= dep s <= c_CJSON_NESTING_LIMIT ->
         match r with Some _ => dep s' = dep s | None => 0 <= dep s' <= c_CJSON_NESTING_LIMIT + 1 end) /\
      match r with
      | Some items => live s' = live s - blocks_list acc + blocks_list items /\ (off s <= off s')%nat /\ (off s' < len)%nat
      | None => live s' = live s - blocks_list acc
      end.

    Ltac pst_simpl := cbn [off dep live add_off set_off set_dep release fst snd] in *.

    Lemma array_loop_good fuel : forall s acc,
      good (fun x => lp_post s acc (fst x) (snd x))
           ((fuel <= len - off s)%nat \/ (pf <= len - (off s + 1))%nat)
           (array_loop oracle content len pv fuel s acc).
    Proof.
      induction fuel as [|f IH]; intros s acc; cbn [array_loop good]; [left; lia|].
      destruct (alloc s) as [ok s1] eqn:Ea. apply alloc_spec in Ea. destruct Ea as (A1 & A2 & A3).
      destruct ok; cbn [negb].
      2:{ cbn [good]. unfold lp_post. pst_simpl. split; [intros; lia|lia]. }
      eapply good_bind; [apply bsw_good| |tauto].
      intros s2 (W1 & W2 & W3 & W4 & W5). pst_simpl.
      eapply good_bind; [apply Hpv| |intros HQ; right; lia].
      intros [r s3] [Hd Hl]. pst_simpl. destruct r as [v|].
      2:{ cbn [good]. unfold lp_post. pst_simpl. split; [intros Hdep; lia|lia]. }
      destruct Hl as (K & L & O1 & O2).
      eapply good_bind; [apply bsw_good| |tauto].
      intros s4 (V1 & V2 & V3 & V4 & V5).
      assert (Hfail : good (fun x => lp_post s acc (fst x) (snd x))
                        ((S f <= len - off s)%nat \/ (pf <= len - (off s + 1))%nat)
                        (Ok (None, release s4 (blocks_list (v :: acc))))).
      { cbn [good]. unfold lp_post. pst_simpl. rewrite blocks_list_cons. split; [intros Hdep; lia|lia]. }
      destruct (can_access len s4 0) eqn:E4; [|exact Hfail].
      apply can_access_spec in E4.
      destruct (rdb_ok (off s4)) as [c [Hc _]]; [lia|]. rewrite Hc. cbn [bind].
      destruct (c =? 44).
      - eapply good_weaken; [apply IH| |lia].
        intros [r s'] [Hd' Hl']. unfold lp_post. pst_simpl. split.
        + intros Hdep. assert (Hd4 : dep s4 = dep s) by lia. rewrite Hd4 in Hd'. exact (Hd' Hdep).
        + rewrite blocks_list_cons in Hl'. destruct r as [items|]; lia.
      - destruct (c =? 93); [|exact Hfail].
        cbn [good]. unfold lp_post. pst_simpl. rewrite blocks_list_rev, blocks_list_cons.
        split; [intros Hdep; lia|lia].
    Qed.

    Lemma parse_array_good s : (off s < len)%nat ->
      pv_good (S pf <= len - off s)%nat s (parse_array oracle content len pv s).
    Proof.
      intros Hoff. unfold pv_good, parse_array.
      destruct (Z.leb_spec c_CJSON_NESTING_LIMIT (dep s)) as [Hlim|Hlim].
      { cbn [good]. unfold pv_post. pst_simpl. split; [intros; lia|reflexivity]. }
      cbv zeta. pst_simpl.
      destruct (rdb_ok (off s) Hoff) as [c0 [Hc0 _]]. rewrite Hc0. cbn [bind].
      destruct (c0 =? 91); cbn [negb].
      2:{ cbn [good]. unfold pv_post. pst_simpl. split; [intros; lia|reflexivity]. }
      eapply good_bind; [apply bsw_good| |tauto].
      intros s1 (W1 & W2 & W3 & W4 & W5). pst_simpl.
      destruct (can_access len s1 0) eqn:E1.
      2:{ cbn [good]. unfold pv_post. pst_simpl. split; [intros; lia|lia]. }
      apply can_access_spec in E1.
      destruct (rdb_ok (off s1)) as [c [Hc _]]; [lia|]. rewrite Hc. cbn [bind].
      destruct (c =? 93).
      { cbn [good]. unfold pv_post. pst_simpl. rewrite blocks_node. cbn [blocks_list fold_right n_key].
        split; [intros; lia|]. repeat split; lia. }
      eapply good_bind; [apply array_loop_good| |pst_simpl; lia].
      intros [r s2] [Hd Hl]. pst_simpl. destruct r as [items|]; cbn [good]; unfold pv_post; pst_simpl.
      - rewrite blocks_node. cbn [blocks_list fold_right n_key] in *.
        split; [intros; lia|]. repeat split; lia.
      - cbn [blocks_list fold_right] in *. split; [intros; lia|lia].
    Qed.

    Lemma object_loop_good fuel : forall s acc,
      good (fun x => lp_post s acc (fst x) (snd x))
           ((fuel <= len - off s)%nat \/ (pf <= len - (off s + 1))%nat)
           (object_loop oracle content len pv fuel s acc).
    Proof.
      induction fuel as [|f IH]; intros s acc; cbn [object_loop good]; [left; lia|].
      destruct (alloc s) as [ok s1] eqn:Ea. apply alloc_spec in Ea. destruct Ea as (A1 & A2 & A3).
      destruct ok; cbn [negb].
      2:{ cbn [good]. unfold lp_post. pst_simpl. split; [intros; lia|lia]. }
      destruct (can_access len s1 1) eqn:E1; cbn [negb].
      2:{ cbn [good]. unfold lp_post. pst_simpl. split; [intros; lia|lia]. }
      apply can_access_spec in E1.
      eapply good_bind; [apply bsw_good| |tauto].
      intros s2 (W1 & W2 & W3 & W4 & W5). pst_simpl.
      eapply good_bind; [apply parse_string_good; lia| |tauto].
      intros [k s3] [Sd Sl]. pst_simpl. destruct k as [key|].
      2:{ cbn [good]. unfold lp_post. pst_simpl. split; [intros; lia|lia]. }
      destruct Sl as (SL & SO1 & SO2).
      eapply good_bind; [apply bsw_good| |tauto].
      intros s4 (X1 & X2 & X3 & X4 & X5).
      destruct (can_access len s4 0) eqn:E4; cbn [negb].
      2:{ cbn [good]. unfold lp_post. pst_simpl. split; [intros; lia|lia]. }
      apply can_access_spec in E4.
      destruct (rdb_ok (off s4)) as [c [Hc _]]; [lia|]. rewrite Hc. cbn [bind].
      destruct (c =? 58); cbn [negb].
      2:{ cbn [good]. unfold lp_post. pst_simpl. split; [intros; lia|lia]. }
      eapply good_bind; [apply bsw_good| |tauto].
      intros s5 (Y1 & Y2 & Y3 & Y4 & Y5). pst_simpl.
      eapply good_bind; [apply Hpv| |intros HQ; right; lia].
      intros [r s6] [Hd Hl]. pst_simpl. destruct r as [v0|].
      2:{ cbn [good]. unfold lp_post. pst_simpl. split; [intros Hdep; lia|lia]. }
      destruct Hl as (K & L & O1 & O2).
      eapply good_bind; [apply bsw_good| |tauto].
      intros s7 (V1 & V2 & V3 & V4 & V5).
      pose proof (blocks_with_key key v0 K) as Hbk.
      assert (Hfail : good (fun x => lp_post s acc (fst x) (snd x))
                        ((S f <= len - off s)%nat \/ (pf <= len - (off s + 1))%nat)
                        (Ok (None, release s7 (blocks_list (with_key key v0 :: acc))))).
      { cbn [good]. unfold lp_post. pst_simpl. rewrite blocks_list_cons. split; [intros Hdep; lia|lia]. }
      destruct (can_access len s7 0) eqn:E7; [|exact Hfail].
      apply can_access_spec in E7.
      destruct (rdb_ok (off s7)) as [c2 [Hc2 _]]; [lia|]. rewrite Hc2. cbn [bind].
      destruct (c2 =? 44).
      - eapply good_weaken; [apply IH| |lia].
        intros [r s'] [Hd' Hl']. unfold lp_post. pst_simpl. split.
        + intros Hdep. assert (Hd7 : dep s7 = dep s) by lia. rewrite Hd7 in Hd'. exact (Hd' Hdep).
        + rewrite blocks_list_cons in Hl'. destruct r as [items|]; lia.
      - destruct (c2 =? 125); [|exact Hfail].
        cbn [good]. unfold lp_post. pst_simpl. rewrite blocks_list_rev, blocks_list_cons.
        split; [intros Hdep; lia|lia].
    Qed.

    Lemma parse_object_good s : (off s < len)%nat ->
      pv_good (S pf <= len - off s)%nat s (parse_object oracle content len pv s).
    Proof.
      intros Hoff. unfold pv_good, parse_object.
      destruct (Z.leb_spec c_CJSON_NESTING_LIMIT (dep s)) as [Hlim|Hlim].
      { cbn [good]. unfold pv_post. pst_simpl. split; [intros; lia|reflexivity]. }
      cbv zeta.
      destruct (can_access len (set_dep s (dep s + 1)) 0) eqn:E0; cbn [negb].
      2:{ cbn [good]. unfold pv_post. pst_simpl. split; [intros; lia|reflexivity]. }
      pst_simpl.
      destruct (rdb_ok (off s) Hoff) as [c0 [Hc0 _]]. rewrite Hc0. cbn [bind].
      destruct (c0 =? 123); cbn [negb].
      2:{ cbn [good]. unfold pv_post. pst_simpl. split; [intros; lia|reflexivity]. }
      eapply good_bind; [apply bsw_good| |tauto].
      intros s1 (W1 & W2 & W3 & W4 & W5). pst_simpl.
      destruct (can_access len s1 0) eqn:E1.
      2:{ cbn [good]. unfold pv_post. pst_simpl. split; [intros; lia|lia]. }
      apply can_access_spec in E1.
      destruct (rdb_ok (off s1)) as [c [Hc _]]; [lia|]. rewrite Hc. cbn [bind].
      destruct (c =? 125).
      { cbn [good]. unfold pv_post. pst_simpl. rewrite blocks_node. cbn [blocks_list fold_right n_key].
        split; [intros; lia|]. repeat split; lia. }
      eapply good_bind; [apply object_loop_good| |pst_simpl; lia].
      intros [r s2] [Hd Hl]. pst_simpl. destruct r as [items|]; cbn [good]; unfold pv_post; pst_simpl.
      - rewrite blocks_node. cbn [blocks_list fold_right n_key] in *.
        split; [intros; lia|]. repeat split; lia.
      - cbn [blocks_list fold_right] in *. split; [intros; lia|lia].
    Qed.
  End Containers.

  (** ** parse_value: the general invariant, by induction on the fuel.  Each nested container
      has consumed its opening bracket before the recursive call, so fuel [> len - off s]
      suffices. *)
  Lemma parse_value_good fuel : forall s,
    pv_good (fuel <= len - off s)%nat s (parse_value strtod oracle content len fuel s).
  Proof.
    induction fuel as [|f IH]; intros s; unfold pv_good; cbn [parse_value]; [cbn [good]; lia|].
    destruct (lit_guard_ok s 4 [110; 117; 108; 108] eq_refl) as [b1 [H1 G1]]. rewrite H1. cbn [bind].
    destruct b1.
    { specialize (G1 eq_refl). cbn [good fst snd]. unfold pv_post. rewrite blocks_node.
      cbn [off dep live add_off set_off n_key blocks_list fold_right].
      split; [intros; reflexivity|]. repeat split; lia. }
    destruct (lit_guard_ok s 5 [102; 97; 108; 115; 101] eq_refl) as [b2 [H2 G2]]. rewrite H2. cbn [bind].
    destruct b2.
    { specialize (G2 eq_refl). cbn [good fst snd]. unfold pv_post. rewrite blocks_node.
      cbn [off dep live add_off set_off n_key blocks_list fold_right].
      split; [intros; reflexivity|]. repeat split; lia. }
    destruct (lit_guard_ok s 4 [116; 114; 117; 101] eq_refl) as [b3 [H3 G3]]. rewrite H3. cbn [bind].
    destruct b3.
    { specialize (G3 eq_refl). cbn [good fst snd]. unfold pv_post. rewrite blocks_node.
      cbn [off dep live add_off set_off n_key blocks_list fold_right].
      split; [intros; reflexivity|]. repeat split; lia. }
    assert (Hnone : good (fun x => pv_post s (fst x) (snd x)) (S f <= len - off s)%nat (Ok (None, s))).
    { cbn [good fst snd]. unfold pv_post. split; [intros; lia|reflexivity]. }
    destruct (can_access len s 0) eqn:E0; cbn [negb]; [|exact Hnone].
    apply can_access_spec in E0.
    destruct (rdb_ok (off s)) as [c [Hc _]]; [lia|]. rewrite Hc. cbn [bind].
    destruct (c =? 34).
    { eapply good_bind; [apply parse_string_good; lia| |tauto].
      intros [r s'] [Sd Sl]. cbn [fst snd] in *. cbn [good fst snd]. unfold pv_post.
      destruct r as [str|].
      - rewrite blocks_node. cbn [n_key blocks_list fold_right]. split; [intros; assumption|].
        repeat split; lia.
      - split; [intros; lia|assumption]. }
    destruct ((c =? 45) || ((48 <=? c) && (c <=? 57))).
    { eapply good_weaken; [apply parse_number_good|auto|tauto]. }
    destruct (c =? 91).
    { eapply good_weaken; [apply parse_array_good with (pf := f); [exact IH|lia]|auto|lia]. }
    destruct (c =? 123).
    { eapply good_weaken; [apply parse_object_good with (pf := f); [exact IH|lia]|auto|lia]. }
    exact Hnone.
  Qed.

  (** ** entry point *)
  Definition entry_post (rnt : bool) (r : parse_result) : Prop :=
    (pr_tree r = None ->
       pr_live r = 0 /\ exists p, pr_error r = Some p /\ pr_end r = Some p /\ (p < Nat.max len 1)%nat) /\
    (forall t, pr_tree r = Some t ->
       pr_live r = blocks t /\ pr_error r = None /\
       exists e, pr_end r = Some e /\ (e <= len)%nat /\
                 (rnt = true -> (e < len)%nat /\ nth_error content e = Some 0)).

  Lemma fail_result_post rnt s : live s = 0 -> entry_post rnt (fail_result len s).
  Proof.
    intros Hl. unfold entry_post, fail_result. cbn [pr_tree pr_live pr_end pr_error]. split.
    - intros _. split; [assumption|]. eexists. split; [reflexivity|]. split; [reflexivity|].
      destruct (Nat.ltb_spec (off s) len); [lia|]. destruct (Nat.ltb_spec 0 len); lia.
    - intros t E. discriminate E.
  Qed.

  Lemma parse_entry_good rnt :
    good (entry_post rnt) False (cJSON_ParseWithLengthOpts strtod oracle content len rnt).
  Proof.
    unfold cJSON_ParseWithLengthOpts. cbv zeta.
    destruct (Nat.eqb_spec len 0) as [E0|E0].
    { cbn [good]. apply fail_result_post. reflexivity. }
    destruct (alloc (mkpst 0 0 0 0)) as [ok s1] eqn:Ea. apply alloc_spec in Ea.
    cbn [off dep live] in Ea. destruct Ea as (A1 & A2 & A3).
    destruct ok; cbn [negb].
    2:{ cbn [good]. apply fail_result_post. lia. }
    eapply good_bind; [apply skip_utf8_bom_good| |tauto].
    intros s2 (B1 & B2 & B3 & B4).
    eapply good_bind; [apply bsw_good| |tauto].
    intros s3 (W1 & W2 & W3 & W4 & W5).
    eapply good_bind; [apply parse_value_good| |lia].
    intros [r s4] [Hd Hl]. cbn [fst snd] in *.
    destruct r as [v|].
    2:{ cbn [good]. apply fail_result_post. cbn [live release]. lia. }
    destruct Hl as (K & L & O1 & O2).
    destruct rnt.
    - eapply good_bind; [apply rnt_skip_good| |lia].
      intros s5 (R1 & R2 & R3 & R4).
      destruct (can_access len s5 0) eqn:E5; cbn [negb].
      2:{ cbn [good]. apply fail_result_post. cbn [live release]. lia. }
      apply can_access_spec in E5.
      destruct (rdb_ok (off s5)) as [c [Hc Hn]]; [lia|]. rewrite Hc. cbn [bind].
      destruct (Z.eqb_spec c 0) as [->|N0]; cbn [negb].
      2:{ cbn [good]. apply fail_result_post. cbn [live release]. lia. }
      cbn [good]. unfold entry_post. cbn [pr_tree pr_live pr_end pr_error]. split.
      + intros E. discriminate E.
      + intros t E. inversion E; subst t. split; [lia|]. split; [reflexivity|].
        exists (off s5). split; [reflexivity|]. split; [lia|]. intros _. split; [lia|assumption].
    - cbn [good]. unfold entry_post. cbn [pr_tree pr_live pr_end pr_error]. split.
      + intros E. discriminate E.
      + intros t E. inversion E; subst t. split; [lia|]. split; [reflexivity|].
        exists (off s4). split; [reflexivity|]. split; [lia|]. intros E'. discriminate E'.
  Qed.
End Safe.

(** * The statements used by Properties_C01.v and Properties_C10.v *)

Theorem parse_length_safe : forall strtod oracle content len rnt,
  strtod_ok strtod -> (len <= length content)%nat ->
  exists r, cJSON_ParseWithLengthOpts strtod oracle content len rnt = Ok r
         /\ (pr_tree r = None -> pr_live r = 0)
         /\ (forall t, pr_tree r = Some t -> pr_live r = blocks t).
Proof.
  intros strtod oracle content len rnt Hs Hl.
  destruct (good_exists _ _ (parse_entry_good strtod oracle content len Hs Hl rnt)) as [r [E [P1 P2]]].
  exists r. split; [exact E|]. split.
  - intros H. apply P1. exact H.
  - intros t H. apply (P2 t H).
Qed.

Theorem parse_positions : forall strtod oracle content len rnt r,
  strtod_ok strtod -> (len <= length content)%nat ->
  cJSON_ParseWithLengthOpts strtod oracle content len rnt = Ok r ->
  (pr_tree r = None -> exists p, pr_error r = Some p /\ pr_end r = Some p /\ (p < Nat.max len 1)%nat) /\
  (forall t, pr_tree r = Some t ->
     pr_error r = None /\ exists e, pr_end r = Some e /\ (e <= len)%nat /\
     (rnt = true -> (e < len)%nat /\ nth_error content e = Some 0)).
Proof.
  intros strtod oracle content len rnt r Hs Hl E.
  destruct (good_ok_inv _ _ _ _ (parse_entry_good strtod oracle content len Hs Hl rnt) E) as [P1 P2].
  split.
  - intros H. apply P1. exact H.
  - intros t H. apply (P2 t H).
Qed.

Theorem parse_depth_bounded : forall strtod oracle content len fuel s r s',
  strtod_ok strtod -> (len <= length content)%nat -> 0 <= dep s <= c_CJSON_NESTING_LIMIT ->
  parse_value strtod oracle content len fuel s = Ok (r, s') -> 0 <= dep s' <= c_CJSON_NESTING_LIMIT + 1.
Proof.
  intros strtod oracle content len fuel s r s' Hs Hl Hd E.
  pose proof (good_ok_inv _ _ _ _ (parse_value_good strtod oracle content len Hs Hl fuel s) E) as [P _].
  cbn [fst snd] in P. specialize (P Hd). destruct r; lia.
Qed.

(** * zero-terminated entry points *)
Lemma strlen_mem_ok : forall s2 s1 rest fuel,
  Forall (fun c => c <> 0) s2 -> (length s2 < fuel)%nat ->
  strlen_mem fuel (s1 ++ s2 ++ 0 :: rest) (length s1) = Ok (length s1 + length s2)%nat.
Proof.
  induction s2 as [|c s2 IH]; intros s1 rest fuel Hnz Hf; (destruct fuel as [|f]; [cbn [length] in Hf; lia|]);
    cbn [strlen_mem app]; unfold rd; rewrite nth_error_app2 by lia; rewrite Nat.sub_diag; cbn [nth_error bind].
  - cbn [Z.eqb length]. f_equal. lia.
  - inversion Hnz as [|c' l' Hc Hnz']; subst.
    destruct (Z.eqb_spec c 0) as [E|_]; [contradiction|].
    replace (s1 ++ c :: s2 ++ 0 :: rest) with ((s1 ++ [c]) ++ s2 ++ 0 :: rest)
      by (rewrite <- app_assoc; reflexivity).
    replace (S (length s1)) with (length (s1 ++ [c])) by (rewrite app_length; cbn [length]; lia).
    rewrite IH; [|assumption|cbn [length] in Hf; lia].
    f_equal. rewrite app_length. cbn [length]. lia.
Qed.

Theorem parse_string_safe : forall strtod oracle s rest rnt,
  strtod_ok strtod -> Forall (fun c => c <> 0) s ->
  exists r, cJSON_ParseWithOpts strtod oracle (s ++ 0 :: rest) rnt = Ok r
         /\ cJSON_ParseWithOpts strtod oracle (s ++ 0 :: rest) rnt
            = cJSON_ParseWithLengthOpts strtod oracle (s ++ 0 :: rest) (length s + 1) rnt
         /\ (pr_tree r = None -> pr_live r = 0)
         /\ (forall t, pr_tree r = Some t -> pr_live r = blocks t).
Proof.
  intros strtod oracle s rest rnt Hs Hnz.
  assert (E : cJSON_ParseWithOpts strtod oracle (s ++ 0 :: rest) rnt
              = cJSON_ParseWithLengthOpts strtod oracle (s ++ 0 :: rest) (length s + 1) rnt).
  { unfold cJSON_ParseWithOpts.
    rewrite (strlen_mem_ok s [] rest) by (try assumption; rewrite app_length; cbn [length]; lia).
    reflexivity. }
  destruct (parse_length_safe strtod oracle (s ++ 0 :: rest) (length s + 1)%nat rnt Hs) as [r [Er [P1 P2]]].
  { rewrite app_length. cbn [length]. lia. }
  exists r. rewrite E. auto.
Qed.

(** * the reference strtod meets the contract *)
Definition sign_split (s : bytes) : bool * bytes * nat :=
  match s with
  | 45 :: r => (true, r, 1%nat)
  | 43 :: r => (false, r, 1%nat)
  | _ => (false, s, 0%nat)
  end.

Definition frac_split (ip : Z) (nint : nat) (s2 : bytes) : Z * nat * bytes * nat :=
  match s2 with
  | 46 :: r => let '(m', nf, r') := take_digits r ip 0 in
               if (nint =? 0)%nat && (nf =? 0)%nat then (ip, 0%nat, s2, 0%nat) else (m', nf, r', 1%nat)
  | _ => (ip, 0%nat, s2, 0%nat)
  end.

Definition exp_split (s3 : bytes) : Z * nat :=
  match s3 with
  | c :: r =>
      if (c =? 101) || (c =? 69) then
        let '(eneg, r1, nes) := sign_split r in
        let '(ev, ne, _) := take_digits r1 0 0 in
        if (ne =? 0)%nat then (0, 0%nat)
        else ((if eneg then - (Z.min ev 100000) else Z.min ev 100000), (1 + nes + ne)%nat)
      else (0, 0%nat)
  | [] => (0, 0%nat)
  end.

Definition strtod_ref' (s : bytes) : option (dbl * nat) :=
  let '(neg, s1, nsign) := sign_split s in
  let '(ip, nint, s2) := take_digits s1 0 0 in
  let '(m, nfrac, s3, ndot) := frac_split ip nint s2 in
  if (nint + nfrac =? 0)%nat then None
  else
    let '(e, nexp) := exp_split s3 in
    Some (dec_to_dbl_exact neg m (e - Z.of_nat nfrac), (nsign + nint + ndot + nfrac + nexp)%nat).

Lemma strtod_ref_eq s : strtod_ref s = strtod_ref' s.
Proof. reflexivity. Qed.

Lemma take_digits_spec : forall s acc n v n' r,
  take_digits s acc n = (v, n', r) -> (n' + length r = n + length s)%nat /\ (length r <= length s)%nat.
Proof.
  induction s as [|c s IH]; intros acc n v n' r H; cbn [take_digits] in H.
  - inversion H; subst. lia.
  - destruct (is_digit c).
    + apply IH in H. cbn [length]. lia.
    + inversion H; subst. cbn [length]. lia.
Qed.

Lemma sign_split_spec s neg s1 n : sign_split s = (neg, s1, n) -> (n + length s1 = length s)%nat.
Proof.
  unfold sign_split. intros H. destruct s as [|c r]; [inversion H; reflexivity|].
  repeat match type of H with context [match ?p with _ => _ end] => is_var p; destruct p end;
    inversion H; subst; cbn [length]; lia.
Qed.

Lemma frac_split_spec ip nint s2 m nfrac s3 ndot :
  frac_split ip nint s2 = (m, nfrac, s3, ndot) -> (ndot + nfrac + length s3 = length s2)%nat.
Proof.
  unfold frac_split. intros H. destruct s2 as [|c r]; [inversion H; reflexivity|].
  repeat match type of H with context [match ?p with _ => _ end] => is_var p; destruct p end;
    try (inversion H; subst; cbn [length]; lia).
  destruct (take_digits r ip 0) as [[m' nf] r'] eqn:E. apply take_digits_spec in E.
  destruct ((nint =? 0)%nat && (nf =? 0)%nat); inversion H; subst; cbn [length]; lia.
Qed.

Lemma exp_split_spec s3 e nexp : exp_split s3 = (e, nexp) -> (nexp <= length s3)%nat.
Proof.
  unfold exp_split. intros H. destruct s3 as [|c r]; [inversion H; cbn [length]; lia|].
  destruct ((c =? 101) || (c =? 69)); [|inversion H; lia].
  destruct (sign_split r) as [[eneg r1] nes] eqn:Es. apply sign_split_spec in Es.
  destruct (take_digits r1 0 0) as [[ev ne] rest'] eqn:Et. apply take_digits_spec in Et.
  destruct (ne =? 0)%nat; inversion H; subst; cbn [length]; lia.
Qed.

Theorem strtod_ref_ok : strtod_ok strtod_ref.
Proof.
  intros s d k H. rewrite strtod_ref_eq in H. unfold strtod_ref' in H.
  destruct (sign_split s) as [[neg s1] nsign] eqn:E1. apply sign_split_spec in E1.
  destruct (take_digits s1 0 0) as [[ip nint] s2] eqn:E2. apply take_digits_spec in E2.
  destruct (frac_split ip nint s2) as [[[m nfrac] s3] ndot] eqn:E3. apply frac_split_spec in E3.
  destruct (Nat.eqb_spec (nint + nfrac) 0) as [E0|E0]; [discriminate H|].
  destruct (exp_split s3) as [e nexp] eqn:E4. apply exp_split_spec in E4.
  inversion H; subst. lia.
Qed.

(** * non-vacuity: the hypotheses hold on a concrete instance, and the success branch occurs:
      ["[1]"] followed by an unread byte parses to a two-block tree with both blocks live. *)
Lemma parse_safe_example :
  strtod_ok strtod_ref /\ (3 <= length [91; 49; 93; 255])%nat /\
  exists r t, cJSON_ParseWithLengthOpts strtod_ref never_fails [91; 49; 93; 255] 3 false = Ok r
           /\ pr_tree r = Some t /\ pr_live r = 2 /\ blocks t = 2 /\ pr_end r = Some 3%nat.
Proof.
  split; [exact strtod_ref_ok|]. split; [cbn [length]; lia|].
  eexists. eexists. split; [vm_compute; reflexivity|]. vm_compute. auto.
Qed.
