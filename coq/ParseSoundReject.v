(** ParseSoundReject.v — C03: one general rejection lemma per class of malformed text named in
    the property, each quantified over all fuel, depth and surrounding bytes it can be stated
    for at list level, proved directly from the list-level specification (ParseSpec.v).
    The statement for arbitrary contexts is [reject_outside_dialect] (ParseSound.v). *)
From CJ Require Import Base Dbl Tree LibcNum ParseDefs ParseSpec Grammar ParseSoundUtf8 ParseSoundGrammar ParseSound.
Local Open Scope Z_scope.

(** * where a value is expected *)

Definition value_start_byte (c : Z) : bool :=
  (c =? 110) || (c =? 102) || (c =? 116) || (c =? 34) || (c =? 45) || ((48 <=? c) && (c <=? 57)) ||
  (c =? 91) || (c =? 123).

Section Reject.
  Variable strtod : bytes -> option (dbl * nat).

  (** truncated input: nothing where a value is expected *)
  Lemma reject_empty f d : value_l strtod f d [] = None.
  Proof. destruct f; reflexivity. Qed.

  (** a byte that starts no value: ] } , : ' letters other than n f t, upper-case N F T, + . etc. *)
  Lemma reject_bad_first_byte f d c r : value_start_byte c = false -> value_l strtod f d (c :: r) = None.
  Proof.
    unfold value_start_byte. intro H.
    repeat (apply orb_false_iff in H; destruct H as [H ?]).
    destruct f as [|f]; [reflexivity|]. cbn [value_l starts].
    rewrite H, H0, H1, H2, H3, H4, H5, H6. reflexivity.
  Qed.

  (** misspelt or wrongly cased literals: n not followed by ull, f not by alse, t not by rue
      (includes truncation inside the literal) *)
  Lemma reject_misspelt_null f d r : starts [117; 108; 108] r = None -> value_l strtod f d (110 :: r) = None.
  Proof.
    intro H. destruct f as [|f]; [reflexivity|]. cbn [value_l].
    replace (starts [110; 117; 108; 108] (110 :: r)) with (@None bytes) by (symmetry; exact H).
    reflexivity.
  Qed.
  Lemma reject_misspelt_false f d r : starts [97; 108; 115; 101] r = None -> value_l strtod f d (102 :: r) = None.
  Proof.
    intro H. destruct f as [|f]; [reflexivity|]. cbn [value_l].
    replace (starts [102; 97; 108; 115; 101] (102 :: r)) with (@None bytes) by (symmetry; exact H).
    reflexivity.
  Qed.
  Lemma reject_misspelt_true f d r : starts [114; 117; 101] r = None -> value_l strtod f d (116 :: r) = None.
  Proof.
    intro H. destruct f as [|f]; [reflexivity|]. cbn [value_l].
    replace (starts [116; 114; 117; 101] (116 :: r)) with (@None bytes) by (symmetry; exact H).
    reflexivity.
  Qed.

  (** * strings *)

  (** [l], read as the continuation of a string body, is refused whatever the fuel *)
  Definition string_dead (l : bytes) : Prop := forall f, str_l f l = None.

  Lemma hex4_l_of_hex4v h1 h2 h3 h4 u r : hex4v h1 h2 h3 h4 = Some u -> hex4_l (h1 :: h2 :: h3 :: h4 :: r) = Some (u, r).
  Proof.
    unfold hex4v, hex4_l. rewrite !hex_val_hexv.
    destruct (hexv h1) as [x|]; [|discriminate]. destruct (hexv h2) as [y|]; [|discriminate].
    destruct (hexv h3) as [z|]; [|discriminate]. destruct (hexv h4) as [w|]; [|discriminate].
    intro H. inversion H. f_equal. f_equal. lia.
  Qed.

  Lemma simple_escape_cases e v : simple_escape e = Some v ->
    e = 34 \/ e = 92 \/ e = 47 \/ e = 98 \/ e = 102 \/ e = 110 \/ e = 114 \/ e = 116.
  Proof.
    unfold simple_escape.
    destruct (Z.eqb_spec e 34); [tauto|]. destruct (Z.eqb_spec e 92); [tauto|]. destruct (Z.eqb_spec e 47); [tauto|].
    destruct (Z.eqb_spec e 98); [tauto|]. destruct (Z.eqb_spec e 102); [tauto|]. destruct (Z.eqb_spec e 110); [tauto|].
    destruct (Z.eqb_spec e 114); [tauto|]. destruct (Z.eqb_spec e 116); [tauto|]. discriminate.
  Qed.

  (** a defect in a string body is reached through any well-formed beginning of the body *)
  Lemma string_dead_prefix body s : chars len_raw body s -> forall l, string_dead l -> string_dead (body ++ l).
  Proof.
    intro Hc.
    induction Hc as [|c b s Hq Hb Hr Hc IH|e v b s He Hc IH|h1 h2 h3 h4 u b s Hu Hh Hl Hc IH
                     |h1 h2 h3 h4 l1 l2 l3 l4 hi lo b s Hhi Hh Hlo Hl Hc IH]; intros l Hd f.
    - apply Hd.
    - destruct f as [|f]; [reflexivity|]. cbn [app str_l].
      apply Z.eqb_neq in Hq, Hb. rewrite Hq, Hb. rewrite (IH l Hd f). reflexivity.
    - destruct f as [|f]; [reflexivity|].
      apply simple_escape_cases in He.
      destruct He as [->|[->|[->|[->|[->|[->|[->| ->]]]]]]]; cbn [app str_l Z.eqb Pos.eqb orb];
        rewrite (IH l Hd f); reflexivity.
    - destruct f as [|f]; [reflexivity|]. cbn [app str_l Z.eqb Pos.eqb orb].
      rewrite (hex4_l_of_hex4v _ _ _ _ _ _ Hu).
      unfold is_low_surrogate in Hl. unfold is_high_surrogate in Hh. rewrite Hl, Hh.
      rewrite (IH l Hd f). destruct (utf8_encode_c u); reflexivity.
    - destruct f as [|f]; [reflexivity|]. cbn [app str_l Z.eqb Pos.eqb orb].
      rewrite (hex4_l_of_hex4v _ _ _ _ _ _ Hhi).
      unfold is_high_surrogate in Hh. rewrite Hh.
      assert (Hnl : (56320 <=? hi) && (hi <=? 57343) = false).
      { apply andb_true_iff in Hh as [A B]. apply Z.leb_le in B. apply andb_false_iff. left. apply Z.leb_gt. lia. }
      rewrite Hnl. cbn [Z.eqb Pos.eqb andb negb].
      rewrite (hex4_l_of_hex4v _ _ _ _ _ _ Hlo).
      assert (Hl2 : (lo <? 56320) || (lo >? 57343) = false).
      { unfold is_low_surrogate in Hl. apply andb_true_iff in Hl as [A B]. apply Z.leb_le in A, B.
        apply orb_false_iff. split; [apply Z.ltb_ge; lia|]. rewrite Z.gtb_ltb. apply Z.ltb_ge. lia. }
      rewrite Hl2. rewrite (IH l Hd f).
      destruct (utf8_encode_c _); reflexivity.
  Qed.

  (** unterminated string: the input ends inside the body, or contains no quote at all *)
  Lemma dead_end_of_input : string_dead [].
  Proof. intros [|f]; reflexivity. Qed.

  Lemma dead_no_quote l : ~ In 34 l -> string_dead l.
  Proof.
    intros Hn f. destruct (str_l f l) as [[o rest]|] eqn:E; [|reflexivity].
    apply str_l_sound in E as (body & -> & _). exfalso. apply Hn. apply in_or_app. right. left. reflexivity.
  Qed.

  Lemma dead_backslash_at_end : string_dead [92].
  Proof. intros [|f]; reflexivity. Qed.

  (** unknown escape: a backslash followed by a byte other than quote, backslash, slash, b f n r t u *)
  Lemma dead_unknown_escape e r : simple_escape e = None -> e <> 117 -> string_dead (92 :: e :: r).
  Proof.
    intros He Hu [|f]; [reflexivity|]. cbn [str_l Z.eqb Pos.eqb]. revert He. unfold simple_escape.
    destruct (e =? 34); [discriminate|]. destruct (e =? 92); [discriminate|]. destruct (e =? 47); [discriminate|].
    destruct (e =? 98); [discriminate|]. destruct (e =? 102); [discriminate|]. destruct (e =? 110); [discriminate|].
    destruct (e =? 114); [discriminate|]. destruct (e =? 116); [discriminate|]. intros _.
    apply Z.eqb_neq in Hu. rewrite Hu. reflexivity.
  Qed.

  (** \u not followed by four hex digits *)
  Lemma dead_bad_hex r : hex4_l r = None -> string_dead (92 :: 117 :: r).
  Proof. intros H [|f]; [reflexivity|]. cbn [str_l Z.eqb Pos.eqb orb]. rewrite H. reflexivity. Qed.

  Lemma hex4_l_short r : (length r < 4)%nat -> hex4_l r = None.
  Proof. destruct r as [|a [|b [|c [|d r]]]]; cbn [length]; intros; try reflexivity. lia. Qed.

  Lemma hex4_l_nonhex a b c d r :
    hexv a = None \/ hexv b = None \/ hexv c = None \/ hexv d = None -> hex4_l (a :: b :: c :: d :: r) = None.
  Proof.
    unfold hex4_l. rewrite !hex_val_hexv. intros [H|[H|[H|H]]]; rewrite H.
    - reflexivity.
    - destruct (hexv a); reflexivity.
    - destruct (hexv a); [destruct (hexv b)|]; reflexivity.
    - destruct (hexv a); [destruct (hexv b); [destruct (hexv c)|]|]; reflexivity.
  Qed.

  (** a lone low surrogate *)
  Lemma dead_lone_low_surrogate r u r2 :
    hex4_l r = Some (u, r2) -> is_low_surrogate u = true -> string_dead (92 :: 117 :: r).
  Proof.
    intros H Hl [|f]; [reflexivity|]. cbn [str_l Z.eqb Pos.eqb orb]. rewrite H.
    unfold is_low_surrogate in Hl. rewrite Hl. reflexivity.
  Qed.

  (** a high surrogate that is not followed by \u + a low surrogate (nothing, other bytes, \u with
      bad hex digits, \u with a code unit outside DC00..DFFF such as a second high surrogate) *)
  Lemma dead_unpaired_high_surrogate r u r2 :
    hex4_l r = Some (u, r2) -> is_high_surrogate u = true ->
    (forall r3 u2 r4, r2 = 92 :: 117 :: r3 -> hex4_l r3 = Some (u2, r4) -> is_low_surrogate u2 = false) ->
    string_dead (92 :: 117 :: r).
  Proof.
    intros H Hh Hno [|f]; [reflexivity|]. cbn [str_l Z.eqb Pos.eqb orb]. rewrite H.
    destruct ((56320 <=? u) && (u <=? 57343)); [reflexivity|].
    unfold is_high_surrogate in Hh. rewrite Hh.
    destruct r2 as [|c0 [|c1 r3]]; try reflexivity.
    destruct (Z.eqb_spec c0 92) as [->|N0]; [|reflexivity].
    destruct (Z.eqb_spec c1 117) as [->|N1]; [|reflexivity].
    cbn [andb negb].
    destruct (hex4_l r3) as [[u2 r4]|] eqn:E2; [|reflexivity].
    specialize (Hno r3 u2 r4 eq_refl E2). unfold is_low_surrogate in Hno.
    replace ((u2 <? 56320) || (u2 >? 57343)) with true; [reflexivity|].
    symmetry. apply andb_false_iff in Hno as [A|A].
    - apply Z.leb_gt in A. apply orb_true_iff. left. apply Z.ltb_lt. lia.
    - apply Z.leb_gt in A. apply orb_true_iff. right. rewrite Z.gtb_ltb. apply Z.ltb_lt. lia.
  Qed.

  (** from the string body to the value: any of the above after the opening quote and a
      well-formed beginning of the body *)
  Lemma string_l_dead l : string_dead l -> string_l l = None.
  Proof. intro H. unfold string_l. rewrite H. reflexivity. Qed.

  Lemma reject_dead_string f d l : string_dead l -> value_l strtod f d (34 :: l) = None.
  Proof.
    intro H. destruct f as [|f]; [reflexivity|]. cbn [value_l starts Z.eqb Pos.eqb].
    rewrite (string_l_dead l H). reflexivity.
  Qed.

  Theorem reject_string_defect f d body s l :
    chars len_raw body s -> string_dead l -> value_l strtod f d (34 :: body ++ l) = None.
  Proof. intros Hc Hd. apply reject_dead_string. eapply string_dead_prefix; eassumption. Qed.
End Reject.
