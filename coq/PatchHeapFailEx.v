(** PatchHeapFailEx.v — allocation failures inside the heap-level [apply_patch], OBSERVED on the concrete heap [pa_heap]
    of PatchHeapEx.v (document {"a":[1,2],"b":{"c":3}}) by running the transliteration ([vm_compute]) with an oracle
    that refuses exactly ONE request, and compared with the value-level model with refusals ([apply_patch_f]).

    Operation 8 of [pa_ops] is  add /b/c "y"  (the member "c" exists).  Its requests, in order:
      0 1 2  cJSON_Duplicate of the "value" member (node, valuestring "y", key "value")
      3      the copy of the path "/b/c"                       (cJSONUtils_strdup)
      4      the copy of the name "c" inside cJSON_AddItemToObject   (cJSON_strdup)
    Operation 2 is  replace /a/0 "x" : request 0 is the copy of the path inside detach_path, 1 2 3 the duplicate, … *)
From CJ Require Import Base Dbl Heap Forest ForestLemmas CoreSpec CoreDefs CoreRefineFrame CoreRefineDupValue CoreLedgerGen.
From CJ Require Import TierBridgeDefs MergeHeapDefs MergeHeapInv MergeHeapEx PatchHeapDefs PatchHeapPath PatchHeapPointer PatchHeapStr PatchHeapSteps PatchHeapDetach
  PatchHeapApplyDefs PatchHeapOps PatchHeapFinish PatchHeapApply PatchHeapTest PatchHeapLoop PatchHeapEx
  PatchHeapFailDefs PatchHeapFail PatchHeapFailFinish PatchHeapFailApply.
From CJ Require Tree PointerDefs PatchDefs CoreOps.
From CJ.gen Require Import Constants.
From stdpp Require Import gmap.
Local Open Scope Z_scope.

(** * a leaked root is outside the ledger of the rest *)
Lemma leaked_root_not_NoLeak h G docT v : MInv h ((G ++ [docT]) ++ [v]) -> ~ NoLeak h (G ++ [docT]).
Proof.
  intros I NL. pose proof (mi_wf _ _ I) as W.
  assert (Hv : tid v ∈ owned [v]).
  { apply ids_subseteq_owned. apply roots_subseteq_ids. cbn. by left. }
  assert (Hvo : tid v ∈ owned ((G ++ [docT]) ++ [v])) by (rewrite owned_app; apply elem_of_app; by right).
  assert (Hl : tid v ∈ lib_live h).
  { apply elem_of_filter. split; [exact (wf_owned_lib _ _ W _ Hvo)|exact (wf_owned_live _ _ W _ Hvo)]. }
  apply NL in Hl. exact (owned_disjoint_last h (G ++ [docT]) v (tid v) W Hl Hv).
Qed.

(** * one refused request *)
Definition refuse (k : nat) : nat -> bool := fun n => Nat.eqb n k.
Definition pf_run (op k : nat) : out (Z * heap) :=
  apply_patch (refuse k) (Some (tid pa_doc)) (Some (tid (pa_pt op))) true pa_heap.
Definition pf_status (op k : nat) : option Z := out_val (pf_run op k).
Definition pf_doc_after (op k : nat) : option (option (Tree.node * bool)) :=
  out_val (CoreOps.dump_node 50 (Some (tid pa_doc)) (out_heap (pf_run op k) pa_heap)).
(** live library blocks that were not live before the call *)
Definition pf_new_live (op k : nat) : list positive :=
  filter (fun b => bool_decide (b ∉ lib_live pa_heap)) (elements (lib_live (out_heap (pf_run op k) pa_heap))).
(** the model: status, document, leaked value *)
Definition pf_model (fs : fails) (op : nat) : option (Z * Tree.node * option Tree.node) :=
  match apply_patch_f fs pa_doc_v (default pa_doc_v (pa_ops !! op)) true with
  | Ok (st, d, _, lk) => Some (st, d, lk)
  | _ => None
  end.

Definition pa_b_empty : Tree.node := vobj None [varr (Some [97]) [vnum 1 None; vnum 2 None]; vobj (Some [98]) []].

(** add /b/c "y" *)
Lemma pf_add_runs :
  (* a refused request inside the duplicate: status 8, document untouched, nothing new is live *)
  map (pf_status 8) [0; 1; 2]%nat = [Some 8; Some 8; Some 8] /\
  map (pf_doc_after 8) [0; 1; 2]%nat = [Some (Some (pa_doc_v, true)); Some (Some (pa_doc_v, true)); Some (Some (pa_doc_v, true))] /\
  map (pf_new_live 8) [0; 1; 2]%nat = [[]; []; []] /\
  pf_model (mkFails false false true false false) 8 = Some (8, pa_doc_v, None) /\
  (* the copy of the path refused: status 9, the duplicate is deleted, document untouched *)
  pf_status 8 3 = Some 9 /\ pf_doc_after 8 3 = Some (Some (pa_doc_v, true)) /\ pf_new_live 8 3 = [] /\
  pf_model (mkFails false false false true false) 8 = Some (9, pa_doc_v, None) /\
  (* the copy of the member name refused: status 0 — "success" —, the member "c" is GONE, the duplicate (node 1000 with its
     valuestring 1001 and its key "value" 1002) is live, linked nowhere *)
  pf_status 8 4 = Some 0 /\ pf_doc_after 8 4 = Some (Some (pa_b_empty, true)) /\
  pf_new_live 8 4 = [1000; 1002; 1001]%positive /\
  h_lnk (out_heap (pf_run 8 4) pa_heap) !! 1000%positive = Some (None, None) /\
  out_val (CoreOps.dump_node 50 (Some 1000%positive) (out_heap (pf_run 8 4) pa_heap)) = Some (Some (vstr [121] (Some PatchDefs.s_value), true)) /\
  pf_model (mkFails false false false false true) 8 = Some (0, pa_b_empty, Some (vstr [121] (Some PatchDefs.s_value))) /\
  (* no refusal (request 5 is never made): as the model without refusals *)
  pf_status 8 5 = Some 0 /\ pf_new_live 8 5 = [1000; 1004; 1001]%positive.
Proof. vm_compute. repeat split. Qed.

(** replace /a/0 "x": the copy of the path inside detach_path refused: status 13 ("no such item"), document untouched;
    the duplicate refused: status 8 AFTER the old value has been deleted *)
Lemma pf_replace_runs :
  pf_status 2 0 = Some 13 /\ pf_doc_after 2 0 = Some (Some (pa_doc_v, true)) /\ pf_new_live 2 0 = [] /\
  pf_model (mkFails true false false false false) 2 = Some (13, pa_doc_v, None) /\
  pf_status 2 1 = Some 8 /\
  pf_doc_after 2 1 = Some (Some (vobj None [varr (Some [97]) [vnum 2 None]; vobj (Some [98]) [vnum 3 (Some [99])]], true)) /\
  pf_new_live 2 1 = [] /\
  pf_model (mkFails false false true false false) 2 =
    Some (8, vobj None [varr (Some [97]) [vnum 2 None]; vobj (Some [98]) [vnum 3 (Some [99])]], None).
Proof. vm_compute. repeat split. Qed.

(** move /b to /a/- : the copy of the "from" pointer refused: status 5; the copy of the path for the insertion refused:
    status 9 and the MOVED ITEM IS DESTROYED (it was detached, then deleted by the cleanup block) *)
Lemma pf_move_runs :
  pf_status 3 0 = Some 5 /\ pf_doc_after 3 0 = Some (Some (pa_doc_v, true)) /\
  pf_model (mkFails false true false false false) 3 = Some (5, pa_doc_v, None) /\
  pf_status 3 1 = Some 9 /\
  pf_doc_after 3 1 = Some (Some (vobj None [varr (Some [97]) [vnum 1 None; vnum 2 None]], true)) /\ pf_new_live 3 1 = [] /\
  pf_model (mkFails false false false true false) 3 = Some (9, vobj None [varr (Some [97]) [vnum 1 None; vnum 2 None]], None).
Proof. vm_compute. repeat split. Qed.

(** * the general theorem on this heap: for EVERY oracle *)
Lemma pf_stage (oracle : nat -> bool) (k : nat) t :
  tchildren pa_patches !! k = Some t ->
  PatchDefs.decode_patch_operation (reify (h_str pa_heap) t) true <> Ok PatchDefs.TEST ->
  exists fs : fails,
  match apply_patch_f fs (reify (h_str pa_heap) pa_doc) (reify (h_str pa_heap) t) true with
  | Ok (st, doc', pt', lk) =>
      exists h' docT,
        apply_patch oracle (Some (tid pa_doc)) (Some (tid t)) true pa_heap = Ret (st, h') /\
        reify (h_str h') docT = doc' /\
        match lk with
        | None => MInv h' (pa_G ++ [docT]) /\ NoLeak h' (pa_G ++ [docT])
        | Some lv => exists v, MInv h' ((pa_G ++ [docT]) ++ [v]) /\ NoLeak h' ((pa_G ++ [docT]) ++ [v]) /\
                               reify (h_str h') v = lv /\ ~ NoLeak h' (pa_G ++ [docT])
        end
  | _ => True
  end.
Proof.
  intros Hk Hnt. pose proof (pa_pt_node k t Hk) as Hn. destruct t as [pid dpt cpt].
  destruct (apply_patch_oracle oracle pa_heap pa_G pa_doc pid dpt cpt true pa_MInv Hn Hnt) as (fs & H). exists fs.
  unfold apply_post_f in H.
  destruct (apply_patch_f fs (reify (h_str pa_heap) pa_doc) (reify (h_str pa_heap) (T pid dpt cpt)) true) as [[[[st doc'] pt'] lk]| |]; [|done|done].
  destruct H as (h' & docT & E & _ & Hre & _ & _ & _ & HL). exists h', docT. split; [exact E|]. split; [exact Hre|].
  destruct lk as [lv|]; cbn [leak_post] in HL.
  - destruct HL as (v & I' & NL & Hv). exists v. split; [exact I'|]. split; [apply NL, heap_of_forest_NoLeak|]. split; [exact Hv|].
    by eapply leaked_root_not_NoLeak.
  - destruct HL as [I' NL]. split; [exact I'|apply NL, heap_of_forest_NoLeak].
Qed.

(** * the entry point on this heap, for EVERY oracle (the ten operations of [pa_ops] contain no [test]) *)
From CJ Require Import PatchHeapDupLoop PatchHeapFailLoop.
Lemma pf_entry (oracle : nat -> bool) :
  exists fss : list fails,
  match apply_patches_f fss pa_doc_v pa_patches_v true with
  | Ok (st, doc', patches', lks) =>
      exists h' docT arrT L,
        cJSONUtils_ApplyPatchesCaseSensitive oracle (Some (tid pa_doc)) (Some (tid pa_patches)) pa_heap = Ret (st, h') /\
        MInv h' (F2 (L ++ []) [] [] docT (put_t pa_patches [] arrT)) /\
        NoLeak h' (F2 (L ++ []) [] [] docT (put_t pa_patches [] arrT)) /\
        reify (h_str h') docT = doc' /\ reify (h_str h') <$> L = lks
  | _ => True
  end.
Proof.
  destruct pa_reify as [Rd Rp].
  assert (Ep : pa_patches = T (tid pa_patches) (tdata pa_patches) (tchildren pa_patches)) by (vm_compute; reflexivity).
  assert (Harr : subtree_t pa_patches [] = Some (T (tid pa_patches) (tdata pa_patches) (tchildren pa_patches))) by (exact (f_equal Some Ep)).
  assert (Hmap : map (reify pa_St) (tchildren pa_patches) = pa_ops) by (vm_compute; reflexivity).
  rewrite Ep in Rp.
  assert (Hnt : Forall (fun p => PatchDefs.decode_patch_operation p true <> Ok PatchDefs.TEST) pa_ops).
  { repeat (constructor; [vm_compute; discriminate|]). constructor. }
  destruct (apply_patches_oracle oracle pa_heap [] [] pa_doc pa_patches [] (tid pa_patches) (tdata pa_patches) (tchildren pa_patches) true
              pa_MInv Harr) as (fss & H).
  { intros _ fss. change (h_str pa_heap) with pa_St. rewrite Hmap. by apply run_okf_no_test. }
  exists fss. change (h_str pa_heap) with pa_St in H. rewrite Rd, Rp in H.
  destruct (apply_patches_f fss pa_doc_v pa_patches_v true) as [[[[st d] p'] lks]| |]; [|done|done].
  destruct H as (h' & docT & arrT & L & E & I' & _ & _ & Hre & _ & HL & NL & _).
  exists h', docT, arrT, L. split; [exact E|]. split; [exact I'|]. split; [apply NL, heap_of_forest_NoLeak|]. split; [exact Hre|exact HL].
Qed.
