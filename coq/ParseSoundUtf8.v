(** ParseSoundUtf8.v — the C code's hex-digit / UTF-8 / surrogate-pair arithmetic (shifts and
    masks, ParseDefs.v) agrees with the grammar's (tables, division and remainder, Grammar.v).
    The two finite facts are checked exhaustively by the kernel ([vm_compute]) over the complete
    domains, which are stated in the lemmas: all 0x110000 code points, all 1024 x 1024
    surrogate pairs. *)
From CJ Require Import Base Dbl Tree ParseDefs Grammar.
Local Open Scope Z_scope.

(** exhaustive check of a boolean predicate on the interval [base, base + n) *)
Fixpoint sweep (f : Z -> bool) (n : nat) (base : Z) : bool :=
  match n with O => true | S k => f base && sweep f k (base + 1) end.

Lemma sweep_spec f n : forall base, sweep f n base = true ->
  forall z, base <= z < base + Z.of_nat n -> f z = true.
Proof.
  induction n as [|n IH]; intros base H z Hz.
  - simpl in Hz. lia.
  - cbn [sweep] in H. apply andb_true_iff in H as [H0 H1].
    destruct (Z.eq_dec z base) as [->|Hne]; [exact H0|].
    apply (IH (base + 1) H1). lia.
Qed.

(** hex digits *)
Lemma hex_val_hexv c : hex_val c = hexv c.
Proof.
  unfold hex_val, hexv.
  destruct ((48 <=? c) && (c <=? 57)); [reflexivity|].
  destruct ((65 <=? c) && (c <=? 70)); [f_equal; lia|].
  destruct ((97 <=? c) && (c <=? 102)); [f_equal; lia|reflexivity].
Qed.

Lemma hexv_range c v : hexv c = Some v -> 0 <= v < 16.
Proof.
  unfold hexv.
  destruct ((48 <=? c) && (c <=? 57)) eqn:E1.
  { intro H; inversion H; subst. apply andb_true_iff in E1 as [A B]. lia. }
  destruct ((65 <=? c) && (c <=? 70)) eqn:E2.
  { intro H; inversion H; subst. apply andb_true_iff in E2 as [A B]. lia. }
  destruct ((97 <=? c) && (c <=? 102)) eqn:E3.
  { intro H; inversion H; subst. apply andb_true_iff in E3 as [A B]. lia. }
  discriminate.
Qed.

Lemma hex4v_range a b c d u : hex4v a b c d = Some u -> 0 <= u < 65536.
Proof.
  unfold hex4v.
  destruct (hexv a) as [x|] eqn:Ea; [|discriminate].
  destruct (hexv b) as [y|] eqn:Eb; [|discriminate].
  destruct (hexv c) as [z|] eqn:Ec; [|discriminate].
  destruct (hexv d) as [w|] eqn:Ed; [|discriminate].
  intro H; inversion H; subst.
  apply hexv_range in Ea, Eb, Ec, Ed. lia.
Qed.

(** UTF-8 encoding: all code points 0 .. 0x10FFFF, row by row (4352 rows of 256) *)
Definition enc_ok (cp : Z) : bool :=
  match utf8_encode_c cp with Some b => bytes_eqb b (utf8_of_codepoint cp) | None => false end.
Definition enc_row_ok (hi : Z) : bool := sweep enc_ok 256 (hi * 256).

Lemma enc_all_rows : sweep enc_row_ok (Z.to_nat 4352) 0 = true.
Proof. vm_cast_no_check (eq_refl true). Qed.

Lemma utf8_encode_agrees cp :
  0 <= cp <= 1114111 -> utf8_encode_c cp = Some (utf8_of_codepoint cp).
Proof.
  intro Hcp.
  assert (Hrow : enc_row_ok (cp / 256) = true).
  { apply (sweep_spec _ _ _ enc_all_rows). rewrite Z2Nat.id by lia.
    split; [apply Z.div_pos; lia|]. apply Z.div_lt_upper_bound; lia. }
  assert (Hok : enc_ok cp = true).
  { unfold enc_row_ok in Hrow. apply (sweep_spec _ _ _ Hrow).
    pose proof (Z.div_mod cp 256 ltac:(lia)) as Hdm.
    pose proof (Z.mod_pos_bound cp 256 ltac:(lia)) as Hm.
    change (Z.of_nat 256) with 256. lia. }
  unfold enc_ok in Hok.
  destruct (utf8_encode_c cp) as [b|]; [|discriminate].
  apply bytes_eqb_eq in Hok. congruence.
Qed.

(** surrogate pairs: all high x low *)
Definition pair_ok (hi lo : Z) : bool :=
  65536 + Z.lor (Z.shiftl (Z.land hi 1023) 10) (Z.land lo 1023) =? pair_codepoint hi lo.
Definition pair_row_ok (hi : Z) : bool := sweep (pair_ok hi) 1024 56320.

Lemma pair_all_rows : sweep pair_row_ok 1024 55296 = true.
Proof. vm_cast_no_check (eq_refl true). Qed.

Lemma pair_formula hi lo :
  is_high_surrogate hi = true -> is_low_surrogate lo = true ->
  65536 + Z.lor (Z.shiftl (Z.land hi 1023) 10) (Z.land lo 1023) = pair_codepoint hi lo.
Proof.
  unfold is_high_surrogate, is_low_surrogate. intros Hh Hl.
  apply andb_true_iff in Hh as [Hh1 Hh2]. apply andb_true_iff in Hl as [Hl1 Hl2].
  assert (Hrow : pair_row_ok hi = true).
  { apply (sweep_spec _ _ _ pair_all_rows). change (Z.of_nat 1024) with 1024. lia. }
  unfold pair_row_ok in Hrow.
  assert (Hok : pair_ok hi lo = true).
  { apply (sweep_spec _ _ _ Hrow). change (Z.of_nat 1024) with 1024. lia. }
  unfold pair_ok in Hok. apply Z.eqb_eq in Hok. exact Hok.
Qed.

Lemma pair_codepoint_range hi lo :
  is_high_surrogate hi = true -> is_low_surrogate lo = true ->
  65536 <= pair_codepoint hi lo <= 1114111.
Proof.
  unfold is_high_surrogate, is_low_surrogate, pair_codepoint. intros Hh Hl.
  apply andb_true_iff in Hh as [Hh1 Hh2]. apply andb_true_iff in Hl as [Hl1 Hl2]. lia.
Qed.
